import NunavutVerif.Model.PyObj
/-!
Helper lemmas for C18: rounding is idempotent, the concrete NumPy oracle satisfies the laws of `NumPy`,
facts about setters, defaults, union bookkeeping and the `to_builtin`/`update_from_builtin` round trip.
-/
namespace NunavutVerif.PyObj

/-! ## rounding -/

theorem roundMag_of_dvd (p qmin b : Nat) (hb : b ≠ 0)
    (hd : 2 ^ (max (b.log2 + 1 - p) qmin) ∣ b) : roundMag p qmin b = b := by
  unfold roundMag
  simp only [hb, if_false]
  have hm : 0 < 2 ^ (max (b.log2 + 1 - p) qmin) := Nat.two_pow_pos _
  have hr : b % 2 ^ (max (b.log2 + 1 - p) qmin) = 0 := Nat.mod_eq_zero_of_dvd hd
  rw [hr]
  have : ¬ (2 * 0 > 2 ^ (max (b.log2 + 1 - p) qmin) ∨
      (2 * 0 = 2 ^ (max (b.log2 + 1 - p) qmin) ∧ b / 2 ^ (max (b.log2 + 1 - p) qmin) % 2 = 1)) := by omega
  rw [if_neg this]
  exact Nat.div_mul_cancel hd

theorem roundMag_form (p qmin a : Nat) (ha : a ≠ 0) :
    ∃ q n, roundMag p qmin a = n * 2 ^ q ∧ qmin ≤ q ∧ n ≤ 2 ^ p := by
  unfold roundMag
  simp only [ha, if_false]
  refine ⟨max (a.log2 + 1 - p) qmin, _, rfl, Nat.le_max_right _ _, ?_⟩
  have hlt : a < 2 ^ (a.log2 + 1) := Nat.lt_log2_self
  have hq : a.log2 + 1 ≤ max (a.log2 + 1 - p) qmin + p := by
    have := Nat.le_max_left (a.log2 + 1 - p) qmin; omega
  have hlt2 : a < 2 ^ (max (a.log2 + 1 - p) qmin) * 2 ^ p := by
    rw [← Nat.pow_add]
    exact Nat.lt_of_lt_of_le hlt (Nat.pow_le_pow_right (by decide) hq)
  have hn : a / 2 ^ (max (a.log2 + 1 - p) qmin) < 2 ^ p := by
    rw [Nat.div_lt_iff_lt_mul (Nat.two_pow_pos _)]
    rw [Nat.mul_comm]; exact hlt2
  split <;> omega

theorem roundMag_idem (p qmin a : Nat) (hp : 1 ≤ p) :
    roundMag p qmin (roundMag p qmin a) = roundMag p qmin a := by
  by_cases ha : a = 0
  · subst ha; simp [roundMag]
  obtain ⟨q, n, hb, hq, hn⟩ := roundMag_form p qmin a ha
  rw [hb]
  by_cases hz : n * 2 ^ q = 0
  · rw [hz]; simp [roundMag]
  apply roundMag_of_dvd _ _ _ hz
  have hn0 : n ≠ 0 := by intro h; apply hz; simp [h]
  rcases Nat.lt_or_eq_of_le hn with hlt | heq
  · -- n < 2^p: the exponent does not grow
    have hblt : n * 2 ^ q < 2 ^ (p + q) := by
      rw [Nat.pow_add]; exact Nat.mul_lt_mul_of_pos_right hlt (Nat.two_pow_pos _)
    have hlog : (n * 2 ^ q).log2 < p + q := (Nat.log2_lt hz).2 hblt
    have hle : max ((n * 2 ^ q).log2 + 1 - p) qmin ≤ q := by
      apply Nat.max_le.2; constructor <;> omega
    exact Nat.dvd_trans (Nat.pow_dvd_pow 2 hle) (Nat.dvd_mul_left _ _)
  · -- n = 2^p: the value is the power of two 2^(p+q)
    subst heq
    have hb2 : 2 ^ p * 2 ^ q = 2 ^ (p + q) := (Nat.pow_add 2 p q).symm
    rw [hb2, Nat.log2_two_pow]
    have hle : max (p + q + 1 - p) qmin ≤ p + q := by
      apply Nat.max_le.2; constructor <;> omega
    exact Nat.pow_dvd_pow 2 hle

theorem ffmt_p_pos (w : Nat) : 1 ≤ (ffmt w).p := by
  unfold ffmt; split
  · decide
  · split <;> decide

theorem roundF_idem (w : Nat) (f : F) : roundF w (roundF w f) = roundF w f := by
  cases f with
  | fin neg a =>
    by_cases h : roundMag (ffmt w).p (ffmt w).qmin a < 2 ^ (ffmt w).emax1
    · have h1 : roundF w (.fin neg a) = .fin neg (roundMag (ffmt w).p (ffmt w).qmin a) := by
        simp [roundF, h]
      rw [h1]
      simp [roundF, roundMag_idem _ _ _ (ffmt_p_pos w), h]
    · have h1 : roundF w (.fin neg a) = .inf neg := by simp [roundF, h]
      rw [h1]; rfl
  | inf n => rfl
  | nan => rfl

/-! ## `mapM` in `Except` -/

theorem mapM_ok_forall {α β : Type} {ε : Type} (f : α → Except ε β) (P : β → Prop) :
    ∀ (xs : List α) (ys : List β), xs.mapM f = .ok ys → (∀ x ∈ xs, ∀ y, f x = .ok y → P y) → ∀ y ∈ ys, P y := by
  intro xs
  induction xs with
  | nil => intro ys h _ y hy; simp [pure, Except.pure] at h; subst h; simp at hy
  | cons x xs ih =>
    intro ys h hP y hy
    rw [List.mapM_cons] at h
    cases hx : f x with
    | error e => rw [hx] at h; simp [bind, Except.bind] at h
    | ok b =>
      rw [hx] at h
      cases hr : xs.mapM f with
      | error e => rw [hr] at h; simp [bind, Except.bind] at h
      | ok bs =>
        rw [hr] at h
        simp [bind, Except.bind, pure, Except.pure] at h
        subst h
        rcases List.mem_cons.1 hy with rfl | hm
        · exact hP x (List.mem_cons_self) _ hx
        · exact ih bs hr (fun x' hx' => hP x' (List.mem_cons_of_mem _ hx')) y hm

theorem mapM_id_of_forall {α : Type} {ε : Type} (f : α → Except ε α) :
    ∀ (xs : List α), (∀ x ∈ xs, f x = .ok x) → xs.mapM f = .ok xs := by
  intro xs
  induction xs with
  | nil => intro _; rfl
  | cons x xs ih =>
    intro h
    rw [List.mapM_cons, h x List.mem_cons_self, ih (fun x' hx' => h x' (List.mem_cons_of_mem _ hx'))]
    rfl

theorem mapM_map_of_forall {α β : Type} {ε : Type} (f : α → Except ε β) (g : β → α) :
    ∀ (ys : List β), (∀ y ∈ ys, f (g y) = .ok y) → (ys.map g).mapM f = .ok ys := by
  intro ys
  induction ys with
  | nil => intro _; rfl
  | cons y ys ih =>
    intro h
    rw [List.map_cons, List.mapM_cons, h y List.mem_cons_self, ih (fun y' hy' => h y' (List.mem_cons_of_mem _ hy'))]
    rfl

/-! ## the concrete oracle satisfies the laws -/

theorem two_pow_le (w : Nat) : (2 : Int) ^ w ≤ 2 * (2 : Int) ^ (w - 1) := by
  cases w with
  | zero => decide
  | succ k => simp [Int.pow_succ]; omega

theorem two_pow_pos' (w : Nat) : (0 : Int) < (2 : Int) ^ w := Int.pow_pos (by decide)

theorem inDT_wrapU (w : Nat) (i : Int) : inDT (.u w) (.int (wrapU w i)) = true := by
  have hp := two_pow_pos' w
  have h1 := Int.emod_nonneg i (Int.ne_of_gt hp)
  have h2 := Int.emod_lt_of_pos i hp
  simp [inDT, wrapU, h1, h2]

theorem inDT_wrapI (w : Nat) (i : Int) : inDT (.i w) (.int (wrapI w i)) = true := by
  have hp := two_pow_pos' w
  have h1 := Int.emod_nonneg (i + (2 : Int) ^ (w - 1)) (Int.ne_of_gt hp)
  have h2 := Int.emod_lt_of_pos (i + (2 : Int) ^ (w - 1)) hp
  have h3 := two_pow_le w
  have a1 : -((2 : Int) ^ (w - 1)) ≤ (i + (2 : Int) ^ (w - 1)) % (2 : Int) ^ w - (2 : Int) ^ (w - 1) := by omega
  have a2 : (i + (2 : Int) ^ (w - 1)) % (2 : Int) ^ w - (2 : Int) ^ (w - 1) < (2 : Int) ^ (w - 1) := by omega
  simp [inDT, wrapI, a1, a2]

theorem inDT_round (w : Nat) (f : F) : inDT (.f w) (.float (roundF w f)) = true := by
  simp [inDT, roundF_idem]

theorem npElem_sound (dt : DType) (s e : Py) (h : npElem dt s = .ok e) : inDT dt e = true := by
  cases dt with
  | bool =>
    simp only [npElem] at h
    cases hb : pyBool s with
    | error _ => rw [hb] at h; simp [Except.map] at h
    | ok b => rw [hb] at h; simp [Except.map] at h; subst h; rfl
  | u w =>
    simp only [npElem] at h
    cases hi : pyInt s with
    | error _ => rw [hi] at h; simp [bind, Except.bind] at h
    | ok i =>
      rw [hi] at h
      simp only [bind, Except.bind] at h
      split at h
      · rename_i hr; simp [pure, Except.pure] at h; subst h; simp [inDT, hr.1, hr.2]
      · simp [throw, throwThe, MonadExceptOf.throw] at h
  | i w =>
    simp only [npElem] at h
    cases hi : pyInt s with
    | error _ => rw [hi] at h; simp [bind, Except.bind] at h
    | ok i =>
      rw [hi] at h
      simp only [bind, Except.bind] at h
      split at h
      · rename_i hr; simp [pure, Except.pure] at h; subst h; simp [inDT, hr.1, hr.2]
      · simp [throw, throwThe, MonadExceptOf.throw] at h
  | f w =>
    simp only [npElem] at h
    split at h
    · simp [pure, Except.pure] at h; subst h; rfl
    · cases hf : pyFloat s with
      | error _ => rw [hf] at h; simp [bind, Except.bind] at h
      | ok f =>
        rw [hf] at h; simp [bind, Except.bind, pure, Except.pure] at h; subst h
        exact inDT_round w f
  | obj => cases e <;> rfl

theorem npCast_sound (dt : DType) (x e : Py) (h : npCast dt x = .ok e) : inDT dt e = true := by
  unfold npCast at h
  split at h <;> simp [pure, Except.pure, throw, throwThe, MonadExceptOf.throw] at h <;> subst h <;>
    first | rfl | exact inDT_wrapU _ _ | exact inDT_wrapI _ _ | exact inDT_round _ _

theorem npArray_sound (dt : DType) (x : Py) (xs : List Py) (h : npArray dt x = .ok xs) :
    ∀ e ∈ xs, inDT dt e = true := by
  have single : ∀ s, (npElem dt s).map (fun e => [e]) = .ok xs → ∀ e ∈ xs, inDT dt e = true := by
    intro s hs
    cases he : npElem dt s with
    | error _ => rw [he] at hs; simp [Except.map] at hs
    | ok e0 =>
      rw [he] at hs; simp [Except.map] at hs; subst hs
      intro e hm; simp at hm; subst hm; exact npElem_sound dt s _ he
  cases x with
  | list ys =>
    simp only [npArray] at h
    split at h
    · exact mapM_ok_forall (npElem dt) (fun e => inDT dt e = true) ys xs h (fun x _ y hy => npElem_sound dt x y hy)
    · simp at h
  | nd dt' ys =>
    simp only [npArray] at h
    split at h
    · split at h
      · rename_i hall; simp at h; subst h
        intro e he; exact (List.all_eq_true.1 hall) e he
      · simp at h
    · split at h
      · simp at h
      · exact mapM_ok_forall (npCast dt) (fun e => inDT dt e = true) ys xs h (fun x _ y hy => npCast_sound dt x y hy)
  | dict _ _ => simp [npArray] at h
  | missing => simp [npArray] at h
  | none => exact single _ h
  | bool _ => exact single _ h
  | int _ => exact single _ h
  | float _ => exact single _ h
  | str _ => exact single _ h
  | bytes _ _ => exact single _ h
  | obj _ _ => exact single _ h

theorem inDT_scalarLike (dt : DType) (e : Py) (h : inDT dt e = true) (ho : dt = .obj → isObj e = true) :
    scalarLike e = true := by
  cases dt <;> cases e <;> simp_all [inDT, scalarLike, isObj]

theorem npElem_builtin (dt : DType) (e : Py) (h : inDT dt e = true) : npElem dt e = .ok e := by
  cases dt with
  | bool => cases e <;> simp_all [inDT, npElem, pyBool, Except.map]
  | u w =>
    cases e <;> simp_all [inDT, npElem, pyInt, bind, Except.bind, pure, Except.pure]
  | i w =>
    cases e <;> simp_all [inDT, npElem, pyInt, bind, Except.bind, pure, Except.pure]
  | f w =>
    cases e <;> simp_all [inDT, npElem, pyFloat, bind, Except.bind, pure, Except.pure]
  | obj => rfl

theorem npArray_builtin (dt : DType) (xs : List Py)
    (h : ∀ e ∈ xs, inDT dt e = true ∧ (dt = .obj → isObj e = true)) : npArray dt (.list xs) = .ok xs := by
  have hall : xs.all scalarLike = true :=
    List.all_eq_true.2 (fun e he => inDT_scalarLike dt e (h e he).1 (h e he).2)
  simp only [npArray, hall, if_true]
  exact mapM_id_of_forall (npElem dt) xs (fun e he => npElem_builtin dt e (h e he).1)

theorem npArray_same (dt : DType) (xs : List Py) (h : ∀ e ∈ xs, inDT dt e = true) :
    npArray dt (.nd dt xs) = .ok xs := by
  have hall : xs.all (inDT dt) = true := List.all_eq_true.2 h
  simp [npArray, hall]

/-- The oracle the driver runs is a lawful `NumPy`. -/
def numpy : NumPy := ⟨npArray, npArray_sound, npArray_builtin, npArray_same⟩

/-! ## setters -/

/-- The stored array has the dtype `dt`, a permitted length and only elements the dtype can hold. -/
def ArrOK (fixed : Bool) (cap : Nat) (dt : DType) (v : Py) : Prop :=
  ∃ xs, v = .nd dt xs ∧ lenOK fixed cap xs.length = true ∧ ∀ y ∈ xs, inDT dt y = true

theorem slowPath_ok (np : Oracle) (fixed : Bool) (cap : Nat) (dt : DType) (x v : Py)
    (h : slowPath np fixed cap dt x = .ok v) :
    ∃ xs, np dt x = .ok xs ∧ v = .nd dt xs ∧ lenOK fixed cap xs.length = true := by
  unfold slowPath at h
  cases hx : np dt x with
  | error _ => rw [hx] at h; simp [bind, Except.bind] at h
  | ok xs =>
    rw [hx] at h
    simp only [bind, Except.bind] at h
    split at h
    · rename_i hl; simp [pure, Except.pure] at h; exact ⟨xs, rfl, h.symm, hl⟩
    · simp [throw, throwThe, MonadExceptOf.throw] at h

theorem slowPath_stored (np : NumPy) (fixed : Bool) (cap : Nat) (dt : DType) (x v : Py)
    (h : slowPath np.array fixed cap dt x = .ok v) : ArrOK fixed cap dt v := by
  obtain ⟨xs, hx, hv, hl⟩ := slowPath_ok _ _ _ _ _ _ h
  exact ⟨xs, hv, hl, np.sound dt x xs hx⟩

theorem fastPath_stored (np : NumPy) (fixed : Bool) (cap : Nat) (dt : DType) (x v : Py) (hnd : ndOK x = true)
    (h : fastPath np.array fixed cap dt x = .ok v) : ArrOK fixed cap dt v := by
  unfold fastPath at h
  split at h
  · rename_i dt' xs
    split at h
    · rename_i hc
      simp [pure, Except.pure] at h
      refine ⟨xs, h.symm, hc.2, ?_⟩
      have := List.all_eq_true.1 hnd
      rw [← hc.1]; exact this
    · exact slowPath_stored np _ _ _ _ _ h
  · exact slowPath_stored np _ _ _ _ _ h

theorem pickWidth_le8 (w : Nat) (h : w ≤ 8) : pickWidth w = 8 := by simp [pickWidth, h]

theorem byteLike_dtype (e : Ty) (h : byteLike e = true) : dtypeOf e = .u 8 := by
  cases e with
  | int s w c =>
    cases s with
    | true => simp [byteLike] at h
    | false => simp [byteLike] at h; simp [dtypeOf, pickWidth_le8 w h]
  | _ => simp [byteLike] at h

theorem fromBuffer_ok (fixed : Bool) (cap : Nat) (bs : List Nat) (h : lenOK fixed cap bs.length = true) :
    ArrOK fixed cap (.u 8) (fromBuffer (.u 8) bs) := by
  refine ⟨_, rfl, by simpa using h, ?_⟩
  intro y hy
  obtain ⟨b, _, rfl⟩ := List.mem_map.1 hy
  have h2 : ((b % 256 : Nat) : Int) < 256 := by omega
  have h1 : (0 : Int) ≤ ((b % 256 : Nat) : Int) := by omega
  simp [inDT, h1]; omega

theorem ndOK_encodeStr (fixed : Bool) (e : Ty) (x : Py) (h : ndOK x = true) : ndOK (encodeStr fixed e x) = true := by
  unfold encodeStr
  split
  · split <;> simp_all [ndOK]
  · exact h

theorem assignArray_stored (np : NumPy) (fixed : Bool) (cap : Nat) (e : Ty) (x v : Py) (hnd : ndOK x = true)
    (h : assignArray np.array fixed cap e x = .ok v) : ArrOK fixed cap (dtypeOf e) v := by
  unfold assignArray assignCore at h
  have hnd' := ndOK_encodeStr fixed e x hnd
  split at h
  · rename_i hb
    split at h
    · split at h
      · rename_i hl
        simp [pure, Except.pure] at h; subst h
        rw [byteLike_dtype e hb]; exact fromBuffer_ok fixed cap _ hl
      · simp [throw, throwThe, MonadExceptOf.throw] at h
    · exact fastPath_stored np _ _ _ _ _ hnd' h
  · exact fastPath_stored np _ _ _ _ _ hnd' h

theorem inDT_hasTy_int (s : Bool) (w : Nat) (c : Bool) (y : Py) (hw : pickWidth w = w)
    (h : inDT (dtypeOf (.int s w c)) y = true) : hasTy true (.int s w c) y = true := by
  cases s with
  | true =>
    rw [dtypeOf, hw] at h
    cases y with
    | int i =>
      simp only [inDT, Bool.and_eq_true, decide_eq_true_eq] at h
      simp only [hasTy, intLo, intHi, if_true, Bool.and_eq_true, decide_eq_true_eq]
      omega
    | _ => simp [inDT] at h
  | false =>
    rw [dtypeOf, hw] at h
    cases y with
    | int i =>
      simp only [inDT, Bool.and_eq_true, decide_eq_true_eq] at h
      simp only [hasTy, intLo, intHi, Bool.false_eq_true, if_false, Bool.and_eq_true, decide_eq_true_eq]
      omega
    | _ => simp [inDT] at h

theorem setField_int_ok (np : Oracle) (s : Bool) (w : Nat) (c : Bool) (x v : Py)
    (h : setField np (.int s w c) x = .ok v) :
    ∃ i, pyInt x = .ok i ∧ v = .int i ∧ intLo s w ≤ i ∧ i ≤ intHi s w := by
  simp only [setField] at h
  cases hi : pyInt x with
  | error _ => rw [hi] at h; simp [bind, Except.bind] at h
  | ok i =>
    rw [hi] at h
    simp only [bind, Except.bind] at h
    split at h
    · rename_i hr; simp [pure, Except.pure] at h; exact ⟨i, rfl, h.symm, hr.1, hr.2⟩
    · simp [throw, throwThe, MonadExceptOf.throw] at h

theorem setField_float_ok (np : Oracle) (w : Nat) (c : Bool) (x v : Py)
    (h : setField np (.float w c) x = .ok v) :
    ∃ f, pyFloat x = .ok f ∧ v = .float f ∧ floatOK w f = true := by
  simp only [setField] at h
  cases hf : pyFloat x with
  | error _ => rw [hf] at h; simp [bind, Except.bind] at h
  | ok f =>
    rw [hf] at h
    simp only [bind, Except.bind] at h
    split at h
    · rename_i hr; simp [pure, Except.pure] at h; exact ⟨f, rfl, h.symm, hr⟩
    · simp [throw, throwThe, MonadExceptOf.throw] at h

theorem setField_bool_ok (np : Oracle) (x v : Py) (h : setField np .bool x = .ok v) : ∃ b, v = .bool b := by
  simp only [setField] at h
  cases hb : pyBool x with
  | error _ => rw [hb] at h; simp [Except.map] at h
  | ok b => rw [hb] at h; simp [Except.map] at h; exact ⟨b, h.symm⟩

theorem setField_comp_ok (np : Oracle) (cls : Nat) (u : Bool) (fs : List Ty) (x v : Py)
    (h : setField np (.comp cls u fs) x = .ok v) : ∃ slots, x = .obj cls slots ∧ v = x := by
  simp only [setField] at h
  split at h
  · rename_i c slots
    split at h
    · rename_i hc; subst hc; simp [pure, Except.pure] at h; exact ⟨slots, rfl, h.symm⟩
    · simp [throw, throwThe, MonadExceptOf.throw] at h
  · simp [throw, throwThe, MonadExceptOf.throw] at h

/-! ## defaults -/

theorem isComp_dtype (e : Ty) (h : isComp e = true) : dtypeOf e = .obj := by
  cases e <;> simp_all [isComp, dtypeOf]

theorem inDT_zero (e : Ty) : inDT (dtypeOf e) (zeroOf (dtypeOf e)) = true := by
  cases e with
  | bool => rfl
  | int s w c =>
    cases s with
    | true =>
      have := two_pow_pos' (pickWidth w - 1)
      simp [dtypeOf, zeroOf, inDT]; omega
    | false =>
      have := two_pow_pos' (pickWidth w)
      simp [dtypeOf, zeroOf, inDT]; omega
  | float w c =>
    have : roundF (pickWidth w) (.fin false 0) = .fin false 0 := by
      simp [roundF, roundMag, Nat.two_pow_pos]
    simp [dtypeOf, zeroOf, inDT, this]
  | arr _ _ _ => rfl
  | comp _ _ _ => rfl

theorem default_arr_form (fixed : Bool) (cap : Nat) (e : Ty) :
    ∃ xs, defaultVal (.arr fixed cap e) = .nd (dtypeOf e) xs ∧ lenOK fixed cap xs.length = true ∧
      ∀ y ∈ xs, inDT (dtypeOf e) y = true := by
  cases fixed with
  | false => exact ⟨[], by simp [defaultVal], by simp [lenOK], by simp⟩
  | true =>
    by_cases hc : isComp e = true
    · refine ⟨List.replicate cap (defaultVal e), by simp [defaultVal, hc, isComp_dtype e hc], by simp [lenOK], ?_⟩
      intro y _; rw [isComp_dtype e hc]; cases y <;> rfl
    · refine ⟨List.replicate cap (zeroOf (dtypeOf e)), by simp [defaultVal, hc], by simp [lenOK], ?_⟩
      intro y hy; rw [(List.mem_replicate.1 hy).2]; exact inDT_zero e

theorem ndOK_default (t : Ty) : ndOK (defaultVal t) = true := by
  cases t with
  | arr fixed cap e =>
    obtain ⟨xs, h, _, hall⟩ := default_arr_form fixed cap e
    rw [h]; exact List.all_eq_true.2 hall
  | bool => rfl
  | int _ _ _ => rfl
  | float _ _ => rfl
  | comp _ _ _ => simp [defaultVal, ndOK]

/-- `self.f = <default>` in the constructors stores exactly the default (for every oracle). -/
theorem setField_default (np : Oracle) (t : Ty) : setField np t (defaultVal t) = .ok (defaultVal t) := by
  cases t with
  | bool => rfl
  | int s w c =>
    have h1 : intLo s w ≤ 0 := by
      cases s <;> simp [intLo]; exact Int.le_of_lt (two_pow_pos' _)
    have h2 : (0 : Int) ≤ intHi s w := by
      cases s <;> simp [intHi]
      · have := two_pow_pos' w; omega
      · have := two_pow_pos' (w - 1); omega
    simp [setField, defaultVal, pyInt, bind, Except.bind, h1, h2, pure, Except.pure]
  | float w c => simp [setField, defaultVal, pyFloat, bind, Except.bind, floatOK, pure, Except.pure]
  | comp cls u fs => simp [setField, defaultVal, pure, Except.pure]
  | arr fixed cap e =>
    obtain ⟨xs, h, hl, _⟩ := default_arr_form fixed cap e
    rw [h]
    have henc : encodeStr fixed e (.nd (dtypeOf e) xs) = .nd (dtypeOf e) xs := by
      unfold encodeStr; split <;> rfl
    have hfast : fastPath np fixed cap (dtypeOf e) (.nd (dtypeOf e) xs) = .ok (.nd (dtypeOf e) xs) := by
      simp [fastPath, hl, pure, Except.pure]
    simp only [setField, assignArray, assignCore, henc]
    split <;> exact hfast

/-! ## union bookkeeping -/

theorem length_oneHot : ∀ (slots : List Py) (i : Nat) (v : Py), (oneHot slots i v).length = slots.length := by
  intro slots
  induction slots with
  | nil => intro i v; rfl
  | cons s ss ih =>
    intro i v
    cases i with
    | zero => simp [oneHot]
    | succ k => simp [oneHot, ih]

theorem countSome_nones (ss : List Py) : countSome (ss.map (fun _ => Py.none)) = 0 := by
  induction ss with
  | nil => rfl
  | cons s ss ih => simpa [countSome, isNone] using ih

theorem countSome_oneHot : ∀ (slots : List Py) (i : Nat) (v : Py), i < slots.length → isNone v = false →
    countSome (oneHot slots i v) = 1 := by
  intro slots
  induction slots with
  | nil => intro i v h; simp at h
  | cons s ss ih =>
    intro i v hi hv
    cases i with
    | zero =>
      have := countSome_nones ss
      simp [oneHot, countSome, hv] at this ⊢
      exact this
    | succ k =>
      have := ih k v (by simpa using hi) hv
      simpa [oneHot, countSome, isNone] using this

theorem setField_not_none (np : Oracle) (t : Ty) (x v : Py) (h : setField np t x = .ok v) : isNone v = false := by
  cases t with
  | bool => obtain ⟨b, rfl⟩ := setField_bool_ok _ _ _ h; rfl
  | int s w c => obtain ⟨i, _, rfl, _⟩ := setField_int_ok _ _ _ _ _ _ h; rfl
  | float w c => obtain ⟨f, _, rfl, _⟩ := setField_float_ok _ _ _ _ _ h; rfl
  | comp cls u fs => obtain ⟨slots, rfl, rfl⟩ := setField_comp_ok _ _ _ _ _ _ h; rfl
  | arr fixed cap e =>
    -- every returning branch of assign_array builds an ndarray
    simp only [setField, assignArray, assignCore] at h
    have hslow : ∀ y, slowPath np fixed cap (dtypeOf e) y = .ok v → isNone v = false := by
      intro y hy; obtain ⟨xs, _, rfl, _⟩ := slowPath_ok _ _ _ _ _ _ hy; rfl
    have hfast : ∀ y, fastPath np fixed cap (dtypeOf e) y = .ok v → isNone v = false := by
      intro y hy
      unfold fastPath at hy
      split at hy
      · split at hy
        · simp [pure, Except.pure] at hy; subst hy; rfl
        · exact hslow _ hy
      · exact hslow _ hy
    split at h
    · split at h
      · split at h
        · simp [pure, Except.pure, fromBuffer] at h; subst h; rfl
        · simp [throw, throwThe, MonadExceptOf.throw] at h
      · exact hfast _ h
    · exact hfast _ h

theorem ctorUnionLoop_inv (np : Oracle) : ∀ (fs : List Ty) (args : List Py) (i : Nat) (slots : List Py) (cnt : Nat)
    (slots' : List Py) (cnt' : Nat), i + fs.length ≤ slots.length →
    ctorUnionLoop np fs args i (slots, cnt) = .ok (slots', cnt') →
    slots'.length = slots.length ∧ cnt' = cnt + givenArgs fs.length args ∧
      (cnt' = cnt → slots' = slots) ∧ (cnt < cnt' → countSome slots' = 1) := by
  intro fs
  induction fs with
  | nil =>
    intro args i slots cnt slots' cnt' _ h
    simp [ctorUnionLoop, pure, Except.pure] at h
    obtain ⟨rfl, rfl⟩ := h
    simp [givenArgs]
  | cons f fs ih =>
    intro args i slots cnt slots' cnt' hi h
    simp only [ctorUnionLoop] at h
    split at h
    · rename_i hn
      have := ih args.tail (i + 1) slots cnt slots' cnt' (by simp at hi; omega) h
      simp only [List.length_cons, givenArgs, hn, if_true]
      simpa using this
    · rename_i hn
      cases hv : setField np f (args.headD Py.none) with
      | error _ => rw [hv] at h; simp [bind, Except.bind] at h
      | ok v =>
        rw [hv] at h
        simp only [bind, Except.bind] at h
        have hlen := length_oneHot slots i v
        obtain ⟨h1, h2, h3, h4⟩ := ih args.tail (i + 1) (oneHot slots i v) (cnt + 1) slots' cnt'
          (by rw [hlen]; simp at hi; omega) h
        have hone : countSome (oneHot slots i v) = 1 :=
          countSome_oneHot slots i v (by simp at hi; omega) (setField_not_none np f _ v hv)
        refine ⟨by rw [h1, hlen], ?_, ?_, ?_⟩
        · simp only [List.length_cons, givenArgs, hn]; simp; omega
        · intro he; omega
        · intro _
          by_cases hc : cnt' = cnt + 1
          · rw [h3 hc]; exact hone
          · exact h4 (by omega)

/-! ## round trip helpers -/

theorem bytesOf_spec : ∀ (xs : List Py) (bs : List Nat), bytesOf xs = some bs →
    xs = bs.map (fun b => Py.int ((b % 256 : Nat) : Int)) ∧ bs.length = xs.length := by
  intro xs
  induction xs with
  | nil => intro bs h; simp [bytesOf] at h; subst h; simp
  | cons x xs ih =>
    intro bs h
    cases x with
    | int i =>
      simp only [bytesOf] at h
      split at h
      · rename_i hr
        cases hb : bytesOf xs with
        | none => rw [hb] at h; simp at h
        | some bs' =>
          rw [hb] at h; simp at h; subst h
          obtain ⟨h1, h2⟩ := ih bs' hb
          have : ((i.toNat % 256 : Nat) : Int) = i := by omega
          refine ⟨?_, by simp [h2]⟩
          rw [List.map_cons, this, ← h1]
      · simp at h
    | _ => simp [bytesOf] at h

theorem bytesOf_some : ∀ (xs : List Py), (∀ y ∈ xs, inDT (.u 8) y = true) → ∃ bs, bytesOf xs = some bs := by
  intro xs
  induction xs with
  | nil => intro _; exact ⟨[], rfl⟩
  | cons x xs ih =>
    intro h
    obtain ⟨bs, hbs⟩ := ih (fun y hy => h y (List.mem_cons_of_mem _ hy))
    have hx := h x List.mem_cons_self
    cases x with
    | int i =>
      simp only [inDT, Bool.and_eq_true, decide_eq_true_eq] at hx
      have h256 : (2 : Int) ^ 8 = 256 := by decide
      rw [h256] at hx
      exact ⟨i.toNat :: bs, by simp [bytesOf, hx.1, hx.2, hbs]⟩
    | _ => simp [inDT] at hx

theorem dtype_prim_ne_obj (e : Ty) (hp : isComp e = false) (ha : isArr e = false) : dtypeOf e ≠ .obj := by
  cases e with
  | int s w c => cases s <;> simp [dtypeOf]
  | bool => simp [dtypeOf]
  | float w c => simp [dtypeOf]
  | arr _ _ _ => simp [isArr] at ha
  | comp _ _ _ => simp [isComp] at hp

theorem toBuiltin_elem (e : Ty) (x : Py) (hp : isComp e = false) (ha : isArr e = false)
    (h : inDT (dtypeOf e) x = true) : toBuiltin e x = .ok x := by
  cases e with
  | bool => cases x <;> simp_all [dtypeOf, inDT, toBuiltin, pyBool, Except.map]
  | int s w c => cases s <;> cases x <;> simp_all [dtypeOf, inDT, toBuiltin, pyInt, Except.map]
  | float w c => cases x <;> simp_all [dtypeOf, inDT, toBuiltin, pyFloat, Except.map]
  | arr _ _ _ => simp [isArr] at ha
  | comp _ _ _ => simp [isComp] at hp

theorem strLike_byteLike (fixed : Bool) (e : Ty) (h : strLike fixed e = true) :
    byteLike e = true ∧ dtypeOf e = .u 8 ∧ isComp e = false := by
  unfold strLike at h
  split at h
  · simp [byteLike, dtypeOf, pickWidth, isComp]
  · simp at h

theorem assignArray_list (np : NumPy) (fixed : Bool) (cap : Nat) (e : Ty) (xs : List Py)
    (hall : ∀ y ∈ xs, inDT (dtypeOf e) y = true ∧ (dtypeOf e = .obj → isObj y = true))
    (hl : lenOK fixed cap xs.length = true) :
    assignArray np.array fixed cap e (.list xs) = .ok (.nd (dtypeOf e) xs) := by
  have hslow : slowPath np.array fixed cap (dtypeOf e) (.list xs) = .ok (.nd (dtypeOf e) xs) := by
    simp [slowPath, np.builtin _ xs hall, bind, Except.bind, hl, pure, Except.pure]
  have henc : encodeStr fixed e (.list xs) = .list xs := by unfold encodeStr; split <;> rfl
  simp only [assignArray, assignCore, henc]
  split <;> simpa [fastPath] using hslow

theorem assignArray_str (np : Oracle) (fixed : Bool) (cap : Nat) (e : Ty) (bs : List Nat)
    (hs : strLike fixed e = true) (hl : lenOK fixed cap bs.length = true) :
    assignArray np fixed cap e (.str bs) = .ok (fromBuffer (.u 8) bs) := by
  obtain ⟨hb, hd, _⟩ := strLike_byteLike fixed e hs
  have henc : encodeStr fixed e (.str bs) = .bytes false bs := by simp [encodeStr, hs]
  simp [assignArray, assignCore, henc, hb, hl, hd, pure, Except.pure]

theorem updU_all_missing (np : Oracle) : ∀ (fs : List Ty) (vs before after : List Py),
    (∀ v ∈ vs, isMissing v = true) → updU np fs vs before after = .ok (before ++ after) := by
  intro fs
  induction fs with
  | nil => intro vs before after _; simp [updU, pure, Except.pure]
  | cons f fs ih =>
    intro vs before after h
    cases vs with
    | nil => simp [updU, pure, Except.pure]
    | cons v vs =>
      cases after with
      | nil => simp [updU, pure, Except.pure]
      | cons s after =>
        have hv := h v List.mem_cons_self
        simp only [updU, hv, if_true]
        rw [ih vs (before ++ [s]) after (fun v' hv' => h v' (List.mem_cons_of_mem _ hv'))]
        simp

theorem tbFields_all_none : ∀ (fs : List Ty) (ss : List Py), ss.all isNone = true → ss.length = fs.length →
    tbFields fs ss = .ok (ss.map (fun _ => Py.missing)) := by
  intro fs
  induction fs with
  | nil => intro ss _ hl; cases ss with
    | nil => rfl
    | cons _ _ => simp at hl
  | cons f fs ih =>
    intro ss ha hl
    cases ss with
    | nil => simp at hl
    | cons s ss =>
      simp only [List.all_cons, Bool.and_eq_true] at ha
      simp only [tbFields, ha.1, if_true]
      rw [ih ss ha.2 (by simpa using hl)]
      rfl

theorem nones_eq (ss after : List Py) (ha : ss.all isNone = true) (hl : ss.length = after.length) :
    after.map (fun _ => Py.none) = ss := by
  induction ss generalizing after with
  | nil => cases after with
    | nil => rfl
    | cons _ _ => simp at hl
  | cons s ss ih =>
    cases after with
    | nil => simp at hl
    | cons a after =>
      simp only [List.all_cons, Bool.and_eq_true] at ha
      have hs : s = Py.none := by cases s <;> simp_all [isNone]
      simp [hs, ih after ha.2 (by simpa using hl)]

theorem mapM_roundtrip {α β ε : Type} (f : α → Except ε β) (g : β → Except ε α) :
    ∀ (xs : List α), (∀ x ∈ xs, ∃ b, f x = .ok b ∧ g b = .ok x) →
      ∃ bs, xs.mapM f = .ok bs ∧ bs.mapM g = .ok xs := by
  intro xs
  induction xs with
  | nil => intro _; exact ⟨[], rfl, rfl⟩
  | cons x xs ih =>
    intro h
    obtain ⟨b, hf, hg⟩ := h x List.mem_cons_self
    obtain ⟨bs, hfs, hgs⟩ := ih (fun x' hx' => h x' (List.mem_cons_of_mem _ hx'))
    refine ⟨b :: bs, ?_, ?_⟩
    · rw [List.mapM_cons, hf, hfs]; rfl
    · rw [List.mapM_cons, hg, hgs]; rfl

theorem all_isNone_nones {α : Type} (fs : List α) : (fs.map (fun _ => Py.none)).all isNone = true := by
  induction fs with
  | nil => rfl
  | cons _ _ ih => simpa [isNone] using ih

theorem hasTy_none (strict : Bool) (t : Ty) : hasTy strict t Py.none = false := by
  cases t <;> simp [hasTy]

theorem default_not_none (t : Ty) : isNone (defaultVal t) = false := by
  cases t with
  | arr fixed cap e => simp only [defaultVal]; split <;> (try split) <;> rfl
  | bool => rfl
  | int _ _ _ => rfl
  | float _ _ => rfl
  | comp _ _ _ => rfl

/-- Defaults are well-typed (for the type shapes DSDL admits). -/
theorem hasTy_default (t : Ty) : wf t = true → hasTy false t (defaultVal t) = true := by
  refine Ty.rec
    (motive_1 := fun t => wf t = true → hasTy false t (defaultVal t) = true)
    (motive_2 := fun fs => wfs fs = true →
      hasTyS false fs (defaultS fs) = true ∧ (fs ≠ [] → hasTyU false fs (defaultU fs) = true))
    ?_ ?_ ?_ ?_ ?_ ?_ ?_ t
  · intro _; rfl
  · intro s w c _
    have h := setField_int_ok (fun _ _ => .error .other) s w c _ _ (setField_default _ (.int s w c))
    obtain ⟨i, _, hv, h1, h2⟩ := h
    simp only [defaultVal] at hv
    cases hv
    simp [defaultVal, hasTy, h1, h2]
  · intro w c _; simp [defaultVal, hasTy, floatOK]
  · intro fixed cap e ih hw
    simp only [wf, Bool.and_eq_true, Bool.not_eq_true'] at hw
    obtain ⟨xs, hd, hl, hall⟩ := default_arr_form fixed cap e
    have hall' : xs.all (inDT (dtypeOf e)) = true := List.all_eq_true.2 hall
    by_cases hc : isComp e = true
    · have hx : xs.all (hasTy false e) = true := by
        cases fixed with
        | false => simp [defaultVal] at hd; subst hd; rfl
        | true =>
          simp [defaultVal, hc] at hd
          rw [← hd.2]
          exact List.all_eq_true.2 (fun y hy => by rw [(List.mem_replicate.1 hy).2]; exact ih hw.2)
      rw [hd]; simp [hasTy, hl, hall', hx]
    · rw [hd]
      cases e with
      | bool => simp [hasTy, hl, hall', primNonInt]
      | float _ _ => simp [hasTy, hl, hall', primNonInt]
      | int _ _ _ => simp [hasTy, hl, hall', isInt]
      | arr _ _ _ => simp [isArr] at hw
      | comp _ _ _ => simp [isComp] at hc
  · intro cls union fs ih hw
    simp only [wf, Bool.and_eq_true] at hw
    obtain ⟨hS, hU⟩ := ih hw.2
    cases union with
    | false => simp [defaultVal, hasTy, hS]
    | true =>
      have hne : fs ≠ [] := by
        intro h; subst h; simp at hw
      simp [defaultVal, hasTy, hU hne]
  · intro _; exact ⟨rfl, fun h => absurd rfl h⟩
  · intro f fs ihf ihfs hw
    simp only [wfs, Bool.and_eq_true] at hw
    refine ⟨by simp [defaultS, hasTyS, ihf hw.1, (ihfs hw.2).1], fun _ => ?_⟩
    simp [defaultU, hasTyU, default_not_none, ihf hw.1]
    intro _ _; rfl

/-! ## the round trip, by induction over the type -/

/-- Destination slots of a union: each is `None` or a well-typed value of its option. -/
def slotsOK : List Ty → List Py → Bool
  | [], [] => true
  | f :: fs, d :: ds => (isNone d || hasTy false f d) && slotsOK fs ds
  | _, _ => false

theorem slotsOK_length : ∀ (fs : List Ty) (ds : List Py), slotsOK fs ds = true → ds.length = fs.length := by
  intro fs
  induction fs with
  | nil => intro ds h; cases ds <;> simp_all [slotsOK]
  | cons f fs ih =>
    intro ds h
    cases ds with
    | nil => simp [slotsOK] at h
    | cons d ds => simp only [slotsOK, Bool.and_eq_true] at h; simp [ih ds h.2]

theorem slotsOK_all_none : ∀ (fs : List Ty) (ds : List Py), ds.all isNone = true → ds.length = fs.length →
    slotsOK fs ds = true := by
  intro fs
  induction fs with
  | nil => intro ds _ hl; cases ds <;> simp_all [slotsOK]
  | cons f fs ih =>
    intro ds ha hl
    cases ds with
    | nil => simp at hl
    | cons d ds =>
      simp only [List.all_cons, Bool.and_eq_true] at ha
      simp [slotsOK, ha.1, ih ds ha.2 (by simpa using hl)]

theorem slotsOK_of_hasTyU : ∀ (fs : List Ty) (ds : List Py), hasTyU false fs ds = true → slotsOK fs ds = true := by
  intro fs
  induction fs with
  | nil => intro ds h; simp [hasTyU] at h
  | cons f fs ih =>
    intro ds h
    cases ds with
    | nil => simp [hasTyU] at h
    | cons d ds =>
      simp only [hasTyU] at h
      split at h
      · rename_i hn; simp [slotsOK, hn, ih ds h]
      · simp only [Bool.and_eq_true, decide_eq_true_eq] at h
        simp [slotsOK, h.1.1, slotsOK_all_none fs ds h.1.2 h.2]

theorem hasTy_comp_isObj (e : Ty) (x : Py) (hc : isComp e = true) (h : hasTy false e x = true) : isObj x = true := by
  cases e with
  | comp cls u fs => cases x <;> simp_all [hasTy, isObj]
  | _ => simp [isComp] at hc

theorem isNone_of_hasTy (t : Ty) (s : Py) (h : hasTy false t s = true) : isNone s = false := by
  cases hs : isNone s with
  | false => rfl
  | true =>
    have : s = Py.none := by cases s <;> simp_all [isNone]
    subst this; rw [hasTy_none] at h; simp at h

/-- Motive of the induction for one field type. -/
def RT1 (np : NumPy) (t : Ty) : Prop :=
  wf t = true → ∀ s, hasTy false t s = true →
    ∃ b, toBuiltin t s = .ok b ∧ isMissing b = false ∧
      ∀ cur, (isNone cur = true ∨ hasTy false t cur = true) → updSlot np.array t cur b = .ok s

/-- Motive of the induction for a field list (structure part and union part). -/
def RT2 (np : NumPy) (fs : List Ty) : Prop :=
  wfs fs = true →
    (∀ ss, hasTyS false fs ss = true →
      ∃ bs, tbFields fs ss = .ok bs ∧ ∀ ds, hasTyS false fs ds = true → updS np.array fs ds bs = .ok ss) ∧
    (∀ ss, hasTyU false fs ss = true →
      ∃ bs, tbFields fs ss = .ok bs ∧ ∀ before ds, slotsOK fs ds = true →
        updU np.array fs bs before ds = .ok (before.map (fun _ => Py.none) ++ ss))

theorem rt_bool (np : NumPy) : RT1 np .bool := by
  intro _ s hs
  cases s with
  | bool b => exact ⟨.bool b, rfl, rfl, fun _ _ => rfl⟩
  | _ => simp [hasTy] at hs

theorem rt_int (np : NumPy) (sg : Bool) (w : Nat) (c : Bool) : RT1 np (.int sg w c) := by
  intro _ s hs
  cases s with
  | int i =>
    simp only [hasTy, Bool.and_eq_true, decide_eq_true_eq] at hs
    refine ⟨.int i, rfl, rfl, fun _ _ => ?_⟩
    simp [updSlot, setField, pyInt, bind, Except.bind, hs.1, hs.2, pure, Except.pure]
  | _ => simp [hasTy] at hs

theorem rt_float (np : NumPy) (w : Nat) (c : Bool) : RT1 np (.float w c) := by
  intro _ s hs
  cases s with
  | float f =>
    simp only [hasTy] at hs
    refine ⟨.float f, rfl, rfl, fun _ _ => ?_⟩
    simp [updSlot, setField, pyFloat, bind, Except.bind, hs, pure, Except.pure]
  | _ => simp [hasTy] at hs

theorem rt_arr (np : NumPy) (fixed : Bool) (cap : Nat) (e : Ty) (ih : RT1 np e) : RT1 np (.arr fixed cap e) := by
  intro hw s hs
  simp only [wf, Bool.and_eq_true, Bool.not_eq_true'] at hw
  cases s with
  | nd dt xs =>
    simp only [hasTy, Bool.and_eq_true, decide_eq_true_eq, Bool.or_eq_true] at hs
    obtain ⟨⟨⟨hdt, hl⟩, hall⟩, hel⟩ := hs
    subst hdt
    have hall' := List.all_eq_true.1 hall
    by_cases hc : isComp e = true
    · -- array of composites: element-wise by the induction hypothesis
      have hnp : primNonInt e = false := by cases e <;> simp_all [isComp, primNonInt]
      have hni : isInt e = false := by cases e <;> simp_all [isComp, isInt]
      have hty : ∀ x ∈ xs, hasTy false e x = true := by
        rcases hel with (h | h) | h
        · rw [hnp] at h; simp at h
        · rw [hni] at h; simp at h
        · exact List.all_eq_true.1 h
      have hns : strLike fixed e = false := by cases e <;> simp_all [isComp, strLike]
      obtain ⟨bs, hf, hg⟩ := mapM_roundtrip (toBuiltin e) (updSlot np.array e Py.none) xs (fun x hx => by
        obtain ⟨b, h1, _, h3⟩ := ih hw.2 x (hty x hx)
        exact ⟨b, h1, h3 Py.none (Or.inl rfl)⟩)
      refine ⟨.list bs, by simp [toBuiltin, hns, hf, Except.map], rfl, fun cur _ => ?_⟩
      simp only [updSlot, hc, if_true, iterate, hg, bind, Except.bind]
      exact assignArray_list np fixed cap e xs
        (fun y hy => ⟨hall' y hy, fun _ => hasTy_comp_isObj e y hc (hty y hy)⟩) hl
    · -- array of primitives
      have hc' : isComp e = false := by simpa using hc
      have hlist : xs.mapM (toBuiltin e) = .ok xs :=
        mapM_id_of_forall (toBuiltin e) xs (fun x hx => toBuiltin_elem e x hc' hw.1 (hall' x hx))
      have hupd : ∀ cur, updSlot np.array (.arr fixed cap e) cur (.list xs) = .ok (.nd (dtypeOf e) xs) := by
        intro cur
        simp only [updSlot, hc', Bool.false_eq_true, if_false]
        exact assignArray_list np fixed cap e xs
          (fun y hy => ⟨hall' y hy, fun h => absurd h (dtype_prim_ne_obj e hc' hw.1)⟩) hl
      by_cases hs : strLike fixed e = true
      · obtain ⟨_, hd8, _⟩ := strLike_byteLike fixed e hs
        obtain ⟨bs, hbs⟩ := bytesOf_some xs (fun y hy => by rw [← hd8]; exact hall' y hy)
        obtain ⟨hxs, hlen⟩ := bytesOf_spec xs bs hbs
        by_cases hp : bs.all printable = true
        · refine ⟨.str bs, by simp [toBuiltin, hs, hbs, hp, pure, Except.pure], rfl, fun cur _ => ?_⟩
          simp only [updSlot, hc', Bool.false_eq_true, if_false]
          rw [assignArray_str np.array fixed cap e bs hs (by rw [hlen]; exact hl), hd8, fromBuffer, ← hxs]
        · exact ⟨.list xs, by simp [toBuiltin, hs, hbs, hp, hlist, Except.map], rfl, fun cur _ => hupd cur⟩
      · exact ⟨.list xs, by simp [toBuiltin, hs, hlist, Except.map], rfl, fun cur _ => hupd cur⟩
  | _ => simp [hasTy] at hs

theorem rt_comp (np : NumPy) (cls : Nat) (union : Bool) (fs : List Ty) (ih : RT2 np fs) :
    RT1 np (.comp cls union fs) := by
  intro hw s hs
  have hwf : wfs fs = true := by simp only [wf, Bool.and_eq_true] at hw; exact hw.2
  obtain ⟨ihS, ihU⟩ := ih hwf
  have hdef := hasTy_default (.comp cls union fs) hw
  cases s with
  | obj c slots =>
    simp only [hasTy, Bool.and_eq_true, decide_eq_true_eq] at hs
    obtain ⟨hc, hslots⟩ := hs
    subst hc
    -- the destination is `cur` or a fresh default, in both cases a well-typed instance
    have hdest : ∀ cur, (isNone cur = true ∨ hasTy false (.comp c union fs) cur = true) →
        ∃ dslots, (if isNone cur = true then Py.obj c (if union = true then defaultU fs else defaultS fs) else cur)
            = .obj c dslots ∧ (if union = true then hasTyU false fs dslots else hasTyS false fs dslots) = true := by
      intro cur hcur
      by_cases hn : isNone cur = true
      · refine ⟨if union = true then defaultU fs else defaultS fs, by simp [hn], ?_⟩
        simp only [defaultVal, hasTy, decide_true, Bool.true_and] at hdef
        exact hdef
      · have hty : hasTy false (.comp c union fs) cur = true := by
          rcases hcur with h | h
          · exact absurd h hn
          · exact h
        cases cur with
        | obj c' dslots =>
          simp only [hasTy, Bool.and_eq_true, decide_eq_true_eq] at hty
          obtain ⟨hc', hd⟩ := hty
          subst hc'
          exact ⟨dslots, by simp [isNone], hd⟩
        | _ => simp [hasTy] at hty
    cases union with
    | false =>
      simp only [Bool.false_eq_true, if_false] at hslots hdest
      obtain ⟨bs, htb, hupd⟩ := ihS slots hslots
      refine ⟨.dict bs false, by simp [toBuiltin, htb, Except.map], rfl, fun cur hcur => ?_⟩
      obtain ⟨dslots, hd, hdt⟩ := hdest cur hcur
      simp only [updSlot, Bool.false_eq_true, if_false]
      rw [hd]
      simp [hupd dslots hdt, bind, Except.bind, pure, Except.pure]
    | true =>
      simp only [if_true] at hslots hdest
      obtain ⟨bs, htb, hupd⟩ := ihU slots hslots
      refine ⟨.dict bs false, by simp [toBuiltin, htb, Except.map], rfl, fun cur hcur => ?_⟩
      obtain ⟨dslots, hd, hdt⟩ := hdest cur hcur
      simp only [updSlot, if_true]
      rw [hd]
      have := hupd [] dslots (slotsOK_of_hasTyU fs dslots hdt)
      simp [this, bind, Except.bind, pure, Except.pure]
  | _ => simp [hasTy] at hs

theorem rt_nil (np : NumPy) : RT2 np [] := by
  intro _
  constructor
  · intro ss hs
    cases ss with
    | nil =>
      refine ⟨[], rfl, fun ds hd => ?_⟩
      cases ds with
      | nil => rfl
      | cons _ _ => simp [hasTyS] at hd
    | cons _ _ => simp [hasTyS] at hs
  · intro ss hs; simp [hasTyU] at hs

theorem rt_cons (np : NumPy) (f : Ty) (fs : List Ty) (ihf : RT1 np f) (ihfs : RT2 np fs) : RT2 np (f :: fs) := by
  intro hw
  simp only [wfs, Bool.and_eq_true] at hw
  obtain ⟨ihS, ihU⟩ := ihfs hw.2
  constructor
  · intro ss hs
    cases ss with
    | nil => simp [hasTyS] at hs
    | cons s ss =>
      simp only [hasTyS, Bool.and_eq_true] at hs
      obtain ⟨b, hb, hbm, hupd⟩ := ihf hw.1 s hs.1
      obtain ⟨bs, hbs, hupds⟩ := ihS ss hs.2
      have hn := isNone_of_hasTy f s hs.1
      refine ⟨b :: bs, by simp [tbFields, hn, hb, hbs, bind, Except.bind, pure, Except.pure], fun ds hd => ?_⟩
      cases ds with
      | nil => simp [hasTyS] at hd
      | cons d ds =>
        simp only [hasTyS, Bool.and_eq_true] at hd
        simp [updS, hbm, hupd d (Or.inr hd.1), hupds ds hd.2, bind, Except.bind, pure, Except.pure]
  · intro ss hs
    cases ss with
    | nil => simp [hasTyU] at hs
    | cons s ss =>
      simp only [hasTyU] at hs
      split at hs
      · -- this option is not the selected one
        rename_i hn
        have hs0 : s = Py.none := by cases s <;> simp_all [isNone]
        subst hs0
        obtain ⟨bs, hbs, hupds⟩ := ihU ss hs
        refine ⟨Py.missing :: bs, by simp [tbFields, isNone, hbs, bind, Except.bind, pure, Except.pure], ?_⟩
        intro before ds hd
        cases ds with
        | nil => simp [slotsOK] at hd
        | cons d ds =>
          simp only [slotsOK, Bool.and_eq_true] at hd
          simp only [updU, isMissing, if_true]
          rw [hupds (before ++ [d]) ds hd.2]
          simp
      · -- this is the selected option; everything to the right is None
        rename_i hn
        simp only [Bool.and_eq_true, decide_eq_true_eq] at hs
        obtain ⟨⟨hty, hnones⟩, hlen⟩ := hs
        obtain ⟨b, hb, hbm, hupd⟩ := ihf hw.1 s hty
        have hn' : isNone s = false := by simpa using hn
        refine ⟨b :: ss.map (fun _ => Py.missing),
          by simp [tbFields, hn', hb, tbFields_all_none fs ss hnones hlen, bind, Except.bind, pure, Except.pure], ?_⟩
        intro before ds hd
        cases ds with
        | nil => simp [slotsOK] at hd
        | cons d ds =>
          simp only [slotsOK, Bool.and_eq_true, Bool.or_eq_true] at hd
          have hdl := slotsOK_length fs ds hd.2
          simp only [updU, hbm, Bool.false_eq_true, if_false, hupd d hd.1, bind, Except.bind]
          rw [updU_all_missing np.array fs _ _ _ (fun v hv => by
            obtain ⟨_, _, rfl⟩ := List.mem_map.1 hv; rfl)]
          rw [nones_eq ss ds hnones (by rw [hlen, hdl])]
          simp

/-- The round trip for every type, by structural induction over the (nested) type. -/
theorem rt_all (np : NumPy) (t : Ty) : RT1 np t :=
  Ty.rec (motive_1 := RT1 np) (motive_2 := RT2 np)
    (rt_bool np) (rt_int np) (rt_float np) (rt_arr np) (rt_comp np) (rt_nil np) (rt_cons np) t

/-! ## aliases and module lookup -/

theorem maxMinor_spec : ∀ (ms : List Nat) (k : Nat), maxMinor ms = some k → k ∈ ms ∧ ∀ m ∈ ms, m ≤ k := by
  intro ms
  induction ms with
  | nil => intro k h; simp [maxMinor] at h
  | cons m ms ih =>
    intro k h
    simp only [maxMinor] at h
    cases hr : maxMinor ms with
    | none =>
      rw [hr] at h; simp at h; subst h
      have hnil : ms = [] := by
        cases ms with
        | nil => rfl
        | cons a as => simp only [maxMinor] at hr; split at hr <;> simp at hr
      subst hnil; simp
    | some j =>
      rw [hr] at h; simp at h; subst h
      obtain ⟨hj, hall⟩ := ih j hr
      constructor
      · by_cases hm : m ≤ j
        · rw [Nat.max_eq_right hm]; exact List.mem_cons_of_mem _ hj
        · rw [Nat.max_eq_left (by omega)]; exact List.mem_cons_self
      · intro x hx
        rcases List.mem_cons.1 hx with rfl | hx
        · exact Nat.le_max_left _ _
        · exact Nat.le_trans (hall x hx) (Nat.le_max_right _ _)

theorem maxMinor_some_of_mem : ∀ (ms : List Nat) (m : Nat), m ∈ ms → ∃ k, maxMinor ms = some k := by
  intro ms m hm
  cases ms with
  | nil => simp at hm
  | cons a as =>
    simp only [maxMinor]
    cases maxMinor as with
    | none => exact ⟨a, rfl⟩
    | some j => exact ⟨max a j, rfl⟩

theorem doImport_strop (reserved : String → Bool) (ex : List String → Bool) :
    ∀ (comps pre : List String),
      (∀ a b c, comps = a ++ c :: b → ex (pre ++ a.map (strop reserved) ++ [strop reserved c]) = true) →
      (∀ a b c, comps = a ++ c :: b → reserved c = true → ex (pre ++ a.map (strop reserved) ++ [c]) = false) →
      doImport ex pre comps = some (pre ++ comps.map (strop reserved)) := by
  intro comps
  induction comps with
  | nil => intro pre _ _; simp [doImport]
  | cons c cs ih =>
    intro pre h1 h2
    have hrec : ∀ pre', pre' = pre ++ [strop reserved c] →
        doImport ex pre' cs = some (pre' ++ cs.map (strop reserved)) := by
      intro pre' hp
      apply ih pre'
      · intro a b c' hc
        have := h1 (c :: a) b c' (by rw [hc]; rfl)
        simpa [hp, List.append_assoc] using this
      · intro a b c' hc hr
        have := h2 (c :: a) b c' (by rw [hc]; rfl) hr
        simpa [hp, List.append_assoc] using this
    have hex := h1 [] cs c rfl
    simp only [List.map_nil, List.append_nil] at hex
    cases hr : reserved c with
    | false =>
      have hs : strop reserved c = c := by simp [strop, hr]
      rw [hs] at hex
      simp only [doImport, hex, if_true]
      rw [hrec (pre ++ [c]) (by rw [hs])]
      simp [hs]
    | true =>
      have hs : strop reserved c = c ++ "_" := by simp [strop, hr]
      rw [hs] at hex
      have hno := h2 [] cs c rfl hr
      simp only [List.map_nil, List.append_nil] at hno
      simp only [doImport, hno, Bool.false_eq_true, if_false, hex, if_true]
      rw [hrec (pre ++ [c ++ "_"]) (by rw [hs])]
      simp [hs]

/-! ## the region the setters do not check (round 2) -/

theorem two_pow_lt_int (a b : Nat) (h : a < b) : (2 : Int) ^ a < (2 : Int) ^ b := by
  have := Nat.pow_lt_pow_right (a := 2) (by decide) h
  exact_mod_cast this

theorem two_pow_le_int (a b : Nat) (h : a ≤ b) : (2 : Int) ^ a ≤ (2 : Int) ^ b := by
  have := Nat.pow_le_pow_right (n := 2) (by decide) h
  exact_mod_cast this

theorem le_pickWidth (w : Nat) (h : w ≤ 64) : w ≤ pickWidth w := by
  unfold pickWidth; repeat' split
  all_goals omega

/-- The candidate that defeats the setter of an array field outside `fullyChecked`: an ndarray of the element dtype
and of full length whose elements are `max + 1` of the (narrower) DSDL integer type, resp. the integer 1 for an
array of composites. -/
def unsoundWitness : Ty → Py
  | .arr _ cap (.int s w c) => .nd (dtypeOf (.int s w c)) (List.replicate cap (.int (intHi s w + 1)))
  | .arr _ cap e => .nd (dtypeOf e) (List.replicate cap (.int 1))
  | _ => .none

/-- `max + 1` of a DSDL integer type narrower than its numpy dtype fits the dtype. -/
theorem inDT_hi_succ (s : Bool) (w : Nat) (c : Bool) (h1 : 1 ≤ w) (hlt : w < pickWidth w) :
    inDT (dtypeOf (.int s w c)) (.int (intHi s w + 1)) = true := by
  cases s with
  | true =>
    have hp := two_pow_lt_int (w - 1) (pickWidth w - 1) (by omega)
    have h0 := two_pow_pos' (w - 1)
    have h0' := two_pow_pos' (pickWidth w - 1)
    simp only [dtypeOf, inDT, intHi, if_true, Bool.and_eq_true, decide_eq_true_eq]
    omega
  | false =>
    have hp := two_pow_lt_int w (pickWidth w) hlt
    have h0 := two_pow_pos' w
    simp only [dtypeOf, inDT, intHi, Bool.false_eq_true, if_false, Bool.and_eq_true, decide_eq_true_eq]
    omega

theorem lenOK_self (fixed : Bool) (cap : Nat) : lenOK fixed cap cap = true := by
  unfold lenOK; split <;> simp

/-- A same-dtype ndarray of permitted length is bound as it is (no oracle involved). -/
theorem assignArray_nd_same (np : Oracle) (fixed : Bool) (cap : Nat) (e : Ty) (xs : List Py)
    (hl : lenOK fixed cap xs.length = true) :
    assignArray np fixed cap e (.nd (dtypeOf e) xs) = .ok (.nd (dtypeOf e) xs) := by
  have henc : encodeStr fixed e (.nd (dtypeOf e) xs) = .nd (dtypeOf e) xs := by unfold encodeStr; split <;> rfl
  simp only [assignArray, assignCore, henc]
  split <;> simp [fastPath, hl, pure, Except.pure]

/-- A value in the DSDL range of an integer type fits the numpy dtype chosen for it. -/
theorem hasTy_int_inDT (s : Bool) (w : Nat) (c : Bool) (y : Py) (hw : w ≤ 64)
    (h : hasTy true (.int s w c) y = true) : inDT (dtypeOf (.int s w c)) y = true := by
  have hle := le_pickWidth w hw
  cases y with
  | int i =>
    cases s with
    | true =>
      have hp := two_pow_le_int (w - 1) (pickWidth w - 1) (by omega)
      simp only [hasTy, intLo, intHi, if_true, Bool.and_eq_true, decide_eq_true_eq] at h
      simp only [dtypeOf, inDT, Bool.and_eq_true, decide_eq_true_eq]
      omega
    | false =>
      have hp := two_pow_le_int w (pickWidth w) hle
      simp only [hasTy, intLo, intHi, Bool.false_eq_true, if_false, Bool.and_eq_true, decide_eq_true_eq] at h
      simp only [dtypeOf, inDT, Bool.and_eq_true, decide_eq_true_eq]
      omega
  | _ => simp [hasTy] at h

/-! ## `update_from_builtin` and the union invariant -/

theorem countSome_append (a b : List Py) : countSome (a ++ b) = countSome a + countSome b := by
  simp [countSome, List.filter_append]

theorem countSome_single (v : Py) (h : isNone v = false) : countSome [v] = 1 := by
  simp [countSome, h]

/-- Whatever `update_from_builtin` puts into a field is not `None`. -/
theorem updSlot_not_none (np : Oracle) (t : Ty) (cur v nv : Py) (h : updSlot np t cur v = .ok nv) :
    isNone nv = false := by
  cases t with
  | bool => simp only [updSlot] at h; exact setField_not_none _ _ _ _ h
  | int s w c => simp only [updSlot] at h; exact setField_not_none _ _ _ _ h
  | float w c => simp only [updSlot] at h; exact setField_not_none _ _ _ _ h
  | arr fixed cap e =>
    simp only [updSlot] at h
    split at h
    · split at h
      · rename_i ss _
        cases hm : ss.mapM (updSlot np e Py.none) with
        | error _ => rw [hm] at h; simp [bind, Except.bind] at h
        | ok objs =>
          rw [hm] at h
          simp only [bind, Except.bind] at h
          exact setField_not_none np (.arr fixed cap e) _ _ (by simpa [setField] using h)
      · simp at h
    · exact setField_not_none np (.arr fixed cap e) _ _ (by simpa [setField] using h)
  | comp cls union fs =>
    simp only [updSlot] at h
    split at h
    · rename_i c slots vals extra _
      cases hq : (if union = true then updU np fs vals [] slots else updS np fs slots vals) with
      | error _ => rw [hq] at h; simp [bind, Except.bind] at h
      | ok sl =>
        rw [hq] at h
        simp only [bind, Except.bind] at h
        split at h
        · simp [throw, throwThe, MonadExceptOf.throw] at h
        · simp [pure, Except.pure] at h; subst h; rfl
    · simp at h
    · rename_i src _ _ c slots _ _ _
      cases hp : positional union fs src with
      | error _ => rw [hp] at h; simp [bind, Except.bind] at h
      | ok vals =>
        rw [hp] at h
        simp only [bind, Except.bind] at h
        cases hq : (if union = true then updU np fs vals [] slots else updS np fs slots vals) with
        | error _ => rw [hq] at h; simp at h
        | ok sl => rw [hq] at h; simp [pure, Except.pure] at h; subst h; rfl
    · simp at h

/-- The loop of `update_from_builtin` over the options of a union keeps "exactly one option is not `None`". -/
theorem updU_one (np : Oracle) : ∀ (fs : List Ty) (vs before after res : List Py),
    countSome (before ++ after) = 1 → updU np fs vs before after = .ok res →
    countSome res = 1 ∧ res.length = before.length + after.length := by
  intro fs
  induction fs with
  | nil =>
    intro vs before after res h1 h
    simp [updU, pure, Except.pure] at h; subst h
    exact ⟨h1, by simp⟩
  | cons f fs ih =>
    intro vs before after res h1 h
    cases vs with
    | nil => simp [updU, pure, Except.pure] at h; subst h; exact ⟨h1, by simp⟩
    | cons v vs =>
      cases after with
      | nil => simp [updU, pure, Except.pure] at h; subst h; exact ⟨by simpa using h1, by simp⟩
      | cons s after =>
        simp only [updU] at h
        split at h
        · obtain ⟨r1, r2⟩ := ih vs (before ++ [s]) after res (by simpa [List.append_assoc] using h1) h
          exact ⟨r1, by simp at r2 ⊢; omega⟩
        · cases hn : updSlot np f s v with
          | error _ => rw [hn] at h; simp [bind, Except.bind] at h
          | ok nv =>
            rw [hn] at h
            simp only [bind, Except.bind] at h
            have hnn := updSlot_not_none np f s v nv hn
            obtain ⟨r1, r2⟩ := ih vs (before.map (fun _ => Py.none) ++ [nv]) (after.map (fun _ => Py.none)) res
              (by rw [countSome_append, countSome_append, countSome_nones, countSome_nones, countSome_single nv hnn]) h
            exact ⟨r1, by simp at r2 ⊢; omega⟩

/-! ## class identity -/

theorem idxOf_inj {α : Type} [DecidableEq α] : ∀ (l : List α) (a b : α), a ∈ l → l.idxOf a = l.idxOf b → a = b := by
  intro l
  induction l with
  | nil => intro a b h; simp at h
  | cons x xs ih =>
    intro a b ha h
    simp only [List.idxOf_cons] at h
    by_cases hxa : x = a
    · by_cases hxb : x = b
      · exact hxa.symm.trans hxb
      · simp [hxa, hxb] at h
        have : (a == b) = false := by simpa using fun hab => hxb (hxa.trans hab)
        simp [this] at h
    · by_cases hxb : x = b
      · have h1 : (x == a) = false := by simpa using hxa
        have h2 : (x == b) = true := by simpa using hxb
        simp [h1, h2] at h
      · have h1 : (x == a) = false := by simpa using hxa
        have h2 : (x == b) = false := by simpa using hxb
        simp only [h1, h2, cond_false] at h
        have ha' : a ∈ xs := by
          rcases List.mem_cons.1 ha with rfl | h'
          · exact absurd rfl hxa
          · exact h'
        exact ih a b ha' (by omega)

end NunavutVerif.PyObj
