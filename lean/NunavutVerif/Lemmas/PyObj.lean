import NunavutVerif.Model.PyObj
/-!
Helper lemmas for C18: rounding is idempotent, the concrete NumPy oracle satisfies the laws of `NumPy`,
facts about setters, defaults, union bookkeeping and the `to_builtin`/`update_from_builtin` round trip.
-/
namespace NunavutVerif.PyObj

/-! ## rounding -/

theorem roundMag_of_dvd (p qmin b : Nat) (hb : b ≠ 0)
    (hd : 2 ^ (max (b.log2 + 1 - p) qmin) ∣ b) : roundMag p qmin b = b := by
  unfold roundMag
  simp only [hb, if_false]
  have hm : 0 < 2 ^ (max (b.log2 + 1 - p) qmin) := Nat.two_pow_pos _
  have hr : b % 2 ^ (max (b.log2 + 1 - p) qmin) = 0 := Nat.mod_eq_zero_of_dvd hd
  rw [hr]
  have : ¬ (2 * 0 > 2 ^ (max (b.log2 + 1 - p) qmin) ∨
      (2 * 0 = 2 ^ (max (b.log2 + 1 - p) qmin) ∧ b / 2 ^ (max (b.log2 + 1 - p) qmin) % 2 = 1)) := by omega
  rw [if_neg this]
  exact Nat.div_mul_cancel hd

theorem roundMag_form (p qmin a : Nat) (ha : a ≠ 0) :
    ∃ q n, roundMag p qmin a = n * 2 ^ q ∧ qmin ≤ q ∧ n ≤ 2 ^ p := by
  unfold roundMag
  simp only [ha, if_false]
  refine ⟨max (a.log2 + 1 - p) qmin, _, rfl, Nat.le_max_right _ _, ?_⟩
  have hlt : a < 2 ^ (a.log2 + 1) := Nat.lt_log2_self
  have hq : a.log2 + 1 ≤ max (a.log2 + 1 - p) qmin + p := by
    have := Nat.le_max_left (a.log2 + 1 - p) qmin; omega
  have hlt2 : a < 2 ^ (max (a.log2 + 1 - p) qmin) * 2 ^ p := by
    rw [← Nat.pow_add]
    exact Nat.lt_of_lt_of_le hlt (Nat.pow_le_pow_right (by decide) hq)
  have hn : a / 2 ^ (max (a.log2 + 1 - p) qmin) < 2 ^ p := by
    rw [Nat.div_lt_iff_lt_mul (Nat.two_pow_pos _)]
    rw [Nat.mul_comm]; exact hlt2
  split <;> omega

theorem roundMag_idem (p qmin a : Nat) (hp : 1 ≤ p) :
    roundMag p qmin (roundMag p qmin a) = roundMag p qmin a := by
  by_cases ha : a = 0
  · subst ha; simp [roundMag]
  obtain ⟨q, n, hb, hq, hn⟩ := roundMag_form p qmin a ha
  rw [hb]
  by_cases hz : n * 2 ^ q = 0
  · rw [hz]; simp [roundMag]
  apply roundMag_of_dvd _ _ _ hz
  have hn0 : n ≠ 0 := by intro h; apply hz; simp [h]
  rcases Nat.lt_or_eq_of_le hn with hlt | heq
  · -- n < 2^p: the exponent does not grow
    have hblt : n * 2 ^ q < 2 ^ (p + q) := by
      rw [Nat.pow_add]; exact Nat.mul_lt_mul_of_pos_right hlt (Nat.two_pow_pos _)
    have hlog : (n * 2 ^ q).log2 < p + q := (Nat.log2_lt hz).2 hblt
    have hle : max ((n * 2 ^ q).log2 + 1 - p) qmin ≤ q := by
      apply Nat.max_le.2; constructor <;> omega
    exact Nat.dvd_trans (Nat.pow_dvd_pow 2 hle) (Nat.dvd_mul_left _ _)
  · -- n = 2^p: the value is the power of two 2^(p+q)
    subst heq
    have hb2 : 2 ^ p * 2 ^ q = 2 ^ (p + q) := (Nat.pow_add 2 p q).symm
    rw [hb2, Nat.log2_two_pow]
    have hle : max (p + q + 1 - p) qmin ≤ p + q := by
      apply Nat.max_le.2; constructor <;> omega
    exact Nat.pow_dvd_pow 2 hle

theorem ffmt_p_pos (w : Nat) : 1 ≤ (ffmt w).p := by
  unfold ffmt; split
  · decide
  · split <;> decide

theorem roundF_idem (w : Nat) (f : F) : roundF w (roundF w f) = roundF w f := by
  cases f with
  | fin neg a =>
    by_cases h : roundMag (ffmt w).p (ffmt w).qmin a < 2 ^ (ffmt w).emax1
    · have h1 : roundF w (.fin neg a) = .fin neg (roundMag (ffmt w).p (ffmt w).qmin a) := by
        simp [roundF, h]
      rw [h1]
      simp [roundF, roundMag_idem _ _ _ (ffmt_p_pos w), h]
    · have h1 : roundF w (.fin neg a) = .inf neg := by simp [roundF, h]
      rw [h1]; rfl
  | inf n => rfl
  | nan => rfl

/-! ## `mapM` in `Except` -/

theorem mapM_ok_forall {α β : Type} {ε : Type} (f : α → Except ε β) (P : β → Prop) :
    ∀ (xs : List α) (ys : List β), xs.mapM f = .ok ys → (∀ x ∈ xs, ∀ y, f x = .ok y → P y) → ∀ y ∈ ys, P y := by
  intro xs
  induction xs with
  | nil => intro ys h _ y hy; simp [pure, Except.pure] at h; subst h; simp at hy
  | cons x xs ih =>
    intro ys h hP y hy
    rw [List.mapM_cons] at h
    cases hx : f x with
    | error e => rw [hx] at h; simp [bind, Except.bind] at h
    | ok b =>
      rw [hx] at h
      cases hr : xs.mapM f with
      | error e => rw [hr] at h; simp [bind, Except.bind] at h
      | ok bs =>
        rw [hr] at h
        simp [bind, Except.bind, pure, Except.pure] at h
        subst h
        rcases List.mem_cons.1 hy with rfl | hm
        · exact hP x (List.mem_cons_self) _ hx
        · exact ih bs hr (fun x' hx' => hP x' (List.mem_cons_of_mem _ hx')) y hm

theorem mapM_id_of_forall {α : Type} {ε : Type} (f : α → Except ε α) :
    ∀ (xs : List α), (∀ x ∈ xs, f x = .ok x) → xs.mapM f = .ok xs := by
  intro xs
  induction xs with
  | nil => intro _; rfl
  | cons x xs ih =>
    intro h
    rw [List.mapM_cons, h x List.mem_cons_self, ih (fun x' hx' => h x' (List.mem_cons_of_mem _ hx'))]
    rfl

theorem mapM_map_of_forall {α β : Type} {ε : Type} (f : α → Except ε β) (g : β → α) :
    ∀ (ys : List β), (∀ y ∈ ys, f (g y) = .ok y) → (ys.map g).mapM f = .ok ys := by
  intro ys
  induction ys with
  | nil => intro _; rfl
  | cons y ys ih =>
    intro h
    rw [List.map_cons, List.mapM_cons, h y List.mem_cons_self, ih (fun y' hy' => h y' (List.mem_cons_of_mem _ hy'))]
    rfl

/-! ## the concrete oracle satisfies the laws -/

theorem two_pow_le (w : Nat) : (2 : Int) ^ w ≤ 2 * (2 : Int) ^ (w - 1) := by
  cases w with
  | zero => decide
  | succ k => simp [Int.pow_succ]; omega

theorem two_pow_pos' (w : Nat) : (0 : Int) < (2 : Int) ^ w := Int.pow_pos (by decide)

theorem inDT_wrapU (w : Nat) (i : Int) : inDT (.u w) (.int (wrapU w i)) = true := by
  have hp := two_pow_pos' w
  have h1 := Int.emod_nonneg i (Int.ne_of_gt hp)
  have h2 := Int.emod_lt_of_pos i hp
  simp [inDT, wrapU, h1, h2]

theorem inDT_wrapI (w : Nat) (i : Int) : inDT (.i w) (.int (wrapI w i)) = true := by
  have hp := two_pow_pos' w
  have h1 := Int.emod_nonneg (i + (2 : Int) ^ (w - 1)) (Int.ne_of_gt hp)
  have h2 := Int.emod_lt_of_pos (i + (2 : Int) ^ (w - 1)) hp
  have h3 := two_pow_le w
  have a1 : -((2 : Int) ^ (w - 1)) ≤ (i + (2 : Int) ^ (w - 1)) % (2 : Int) ^ w - (2 : Int) ^ (w - 1) := by omega
  have a2 : (i + (2 : Int) ^ (w - 1)) % (2 : Int) ^ w - (2 : Int) ^ (w - 1) < (2 : Int) ^ (w - 1) := by omega
  simp [inDT, wrapI, a1, a2]

theorem inDT_round (w : Nat) (f : F) : inDT (.f w) (.float (roundF w f)) = true := by
  simp [inDT, roundF_idem]

theorem npElem_sound (dt : DType) (s e : Py) (h : npElem dt s = .ok e) : inDT dt e = true := by
  cases dt with
  | bool =>
    simp only [npElem] at h
    cases hb : pyBool s with
    | error _ => rw [hb] at h; simp [Except.map] at h
    | ok b => rw [hb] at h; simp [Except.map] at h; subst h; rfl
  | u w =>
    simp only [npElem] at h
    cases hi : pyInt s with
    | error _ => rw [hi] at h; simp [bind, Except.bind] at h
    | ok i =>
      rw [hi] at h
      simp only [bind, Except.bind] at h
      split at h
      · rename_i hr; simp [pure, Except.pure] at h; subst h; simp [inDT, hr.1, hr.2]
      · simp [throw, throwThe, MonadExceptOf.throw] at h
  | i w =>
    simp only [npElem] at h
    cases hi : pyInt s with
    | error _ => rw [hi] at h; simp [bind, Except.bind] at h
    | ok i =>
      rw [hi] at h
      simp only [bind, Except.bind] at h
      split at h
      · rename_i hr; simp [pure, Except.pure] at h; subst h; simp [inDT, hr.1, hr.2]
      · simp [throw, throwThe, MonadExceptOf.throw] at h
  | f w =>
    simp only [npElem] at h
    split at h
    · simp [pure, Except.pure] at h; subst h; rfl
    · cases hf : pyFloat s with
      | error _ => rw [hf] at h; simp [bind, Except.bind] at h
      | ok f =>
        rw [hf] at h; simp [bind, Except.bind, pure, Except.pure] at h; subst h
        exact inDT_round w f
  | obj => cases e <;> rfl

theorem npCast_sound (dt : DType) (x e : Py) (h : npCast dt x = .ok e) : inDT dt e = true := by
  unfold npCast at h
  split at h <;> simp [pure, Except.pure, throw, throwThe, MonadExceptOf.throw] at h <;> subst h <;>
    first | rfl | exact inDT_wrapU _ _ | exact inDT_wrapI _ _ | exact inDT_round _ _

theorem npArray_sound (dt : DType) (x : Py) (xs : List Py) (h : npArray dt x = .ok xs) :
    ∀ e ∈ xs, inDT dt e = true := by
  have single : ∀ s, (npElem dt s).map (fun e => [e]) = .ok xs → ∀ e ∈ xs, inDT dt e = true := by
    intro s hs
    cases he : npElem dt s with
    | error _ => rw [he] at hs; simp [Except.map] at hs
    | ok e0 =>
      rw [he] at hs; simp [Except.map] at hs; subst hs
      intro e hm; simp at hm; subst hm; exact npElem_sound dt s _ he
  cases x with
  | list ys =>
    simp only [npArray] at h
    split at h
    · exact mapM_ok_forall (npElem dt) (fun e => inDT dt e = true) ys xs h (fun x _ y hy => npElem_sound dt x y hy)
    · simp at h
  | nd dt' ys =>
    simp only [npArray] at h
    split at h
    · split at h
      · rename_i hall; simp at h; subst h
        intro e he; exact (List.all_eq_true.1 hall) e he
      · simp at h
    · split at h
      · simp at h
      · exact mapM_ok_forall (npCast dt) (fun e => inDT dt e = true) ys xs h (fun x _ y hy => npCast_sound dt x y hy)
  | dict _ _ => simp [npArray] at h
  | missing => simp [npArray] at h
  | none => exact single _ h
  | bool _ => exact single _ h
  | int _ => exact single _ h
  | float _ => exact single _ h
  | str _ => exact single _ h
  | bytes _ _ => exact single _ h
  | obj _ _ => exact single _ h

theorem inDT_scalarLike (dt : DType) (e : Py) (h : inDT dt e = true) (ho : dt = .obj → isObj e = true) :
    scalarLike e = true := by
  cases dt <;> cases e <;> simp_all [inDT, scalarLike, isObj]

theorem npElem_builtin (dt : DType) (e : Py) (h : inDT dt e = true) : npElem dt e = .ok e := by
  cases dt with
  | bool => cases e <;> simp_all [inDT, npElem, pyBool, Except.map]
  | u w =>
    cases e <;> simp_all [inDT, npElem, pyInt, bind, Except.bind, pure, Except.pure]
  | i w =>
    cases e <;> simp_all [inDT, npElem, pyInt, bind, Except.bind, pure, Except.pure]
  | f w =>
    cases e <;> simp_all [inDT, npElem, pyFloat, bind, Except.bind, pure, Except.pure]
  | obj => rfl

theorem npArray_builtin (dt : DType) (xs : List Py)
    (h : ∀ e ∈ xs, inDT dt e = true ∧ (dt = .obj → isObj e = true)) : npArray dt (.list xs) = .ok xs := by
  have hall : xs.all scalarLike = true :=
    List.all_eq_true.2 (fun e he => inDT_scalarLike dt e (h e he).1 (h e he).2)
  simp only [npArray, hall, if_true]
  exact mapM_id_of_forall (npElem dt) xs (fun e he => npElem_builtin dt e (h e he).1)

theorem npArray_same (dt : DType) (xs : List Py) (h : ∀ e ∈ xs, inDT dt e = true) :
    npArray dt (.nd dt xs) = .ok xs := by
  have hall : xs.all (inDT dt) = true := List.all_eq_true.2 h
  simp [npArray, hall]

/-- The oracle the driver runs is a lawful `NumPy`. -/
def numpy : NumPy := ⟨npArray, npArray_sound, npArray_builtin, npArray_same⟩

/-! ## setters -/

/-- The stored array has the dtype `dt`, a permitted length and only elements the dtype can hold. -/
def ArrOK (fixed : Bool) (cap : Nat) (dt : DType) (v : Py) : Prop :=
  ∃ xs, v = .nd dt xs ∧ lenOK fixed cap xs.length = true ∧ ∀ y ∈ xs, inDT dt y = true

theorem slowPath_ok (np : Oracle) (fixed : Bool) (cap : Nat) (dt : DType) (x v : Py)
    (h : slowPath np fixed cap dt x = .ok v) :
    ∃ xs, np dt x = .ok xs ∧ v = .nd dt xs ∧ lenOK fixed cap xs.length = true := by
  unfold slowPath at h
  cases hx : np dt x with
  | error _ => rw [hx] at h; simp [bind, Except.bind] at h
  | ok xs =>
    rw [hx] at h
    simp only [bind, Except.bind] at h
    split at h
    · rename_i hl; simp [pure, Except.pure] at h; exact ⟨xs, rfl, h.symm, hl⟩
    · simp [throw, throwThe, MonadExceptOf.throw] at h

theorem slowPath_stored (np : NumPy) (fixed : Bool) (cap : Nat) (dt : DType) (x v : Py)
    (h : slowPath np.array fixed cap dt x = .ok v) : ArrOK fixed cap dt v := by
  obtain ⟨xs, hx, hv, hl⟩ := slowPath_ok _ _ _ _ _ _ h
  exact ⟨xs, hv, hl, np.sound dt x xs hx⟩

theorem fastPath_stored (np : NumPy) (fixed : Bool) (cap : Nat) (dt : DType) (x v : Py) (hnd : ndOK x = true)
    (h : fastPath np.array fixed cap dt x = .ok v) : ArrOK fixed cap dt v := by
  unfold fastPath at h
  split at h
  · rename_i dt' xs
    split at h
    · rename_i hc
      simp [pure, Except.pure] at h
      refine ⟨xs, h.symm, hc.2, ?_⟩
      have := List.all_eq_true.1 hnd
      rw [← hc.1]; exact this
    · exact slowPath_stored np _ _ _ _ _ h
  · exact slowPath_stored np _ _ _ _ _ h

theorem pickWidth_le8 (w : Nat) (h : w ≤ 8) : pickWidth w = 8 := by simp [pickWidth, h]

theorem byteLike_dtype (e : Ty) (h : byteLike e = true) : dtypeOf e = .u 8 := by
  cases e with
  | int s w c =>
    cases s with
    | true => simp [byteLike] at h
    | false => simp [byteLike] at h; simp [dtypeOf, pickWidth_le8 w h]
  | _ => simp [byteLike] at h

theorem fromBuffer_ok (fixed : Bool) (cap : Nat) (bs : List Nat) (h : lenOK fixed cap bs.length = true) :
    ArrOK fixed cap (.u 8) (fromBuffer (.u 8) bs) := by
  refine ⟨_, rfl, by simpa using h, ?_⟩
  intro y hy
  obtain ⟨b, _, rfl⟩ := List.mem_map.1 hy
  have h2 : ((b % 256 : Nat) : Int) < 256 := by omega
  have h1 : (0 : Int) ≤ ((b % 256 : Nat) : Int) := by omega
  simp [inDT, h1]; omega

theorem ndOK_encodeStr (fixed : Bool) (e : Ty) (x : Py) (h : ndOK x = true) : ndOK (encodeStr fixed e x) = true := by
  unfold encodeStr
  split
  · split <;> simp_all [ndOK]
  · exact h

theorem assignArray_stored (np : NumPy) (fixed : Bool) (cap : Nat) (e : Ty) (x v : Py) (hnd : ndOK x = true)
    (h : assignArray np.array fixed cap e x = .ok v) : ArrOK fixed cap (dtypeOf e) v := by
  unfold assignArray assignCore at h
  have hnd' := ndOK_encodeStr fixed e x hnd
  split at h
  · rename_i hb
    split at h
    · split at h
      · rename_i hl
        simp [pure, Except.pure] at h; subst h
        rw [byteLike_dtype e hb]; exact fromBuffer_ok fixed cap _ hl
      · simp [throw, throwThe, MonadExceptOf.throw] at h
    · exact fastPath_stored np _ _ _ _ _ hnd' h
  · exact fastPath_stored np _ _ _ _ _ hnd' h

end NunavutVerif.PyObj
