import NunavutVerif.Model.PyObj
/-!
Helper lemmas for C18: rounding is idempotent, the concrete NumPy oracle satisfies the laws of `NumPy`,
facts about setters, defaults, union bookkeeping and the `to_builtin`/`update_from_builtin` round trip.
-/
namespace NunavutVerif.PyObj

/-! ## rounding -/

theorem roundMag_of_dvd (p qmin b : Nat) (hb : b ≠ 0)
    (hd : 2 ^ (max (b.log2 + 1 - p) qmin) ∣ b) : roundMag p qmin b = b := by
  unfold roundMag
  simp only [hb, if_false]
  have hm : 0 < 2 ^ (max (b.log2 + 1 - p) qmin) := Nat.two_pow_pos _
  have hr : b % 2 ^ (max (b.log2 + 1 - p) qmin) = 0 := Nat.mod_eq_zero_of_dvd hd
  rw [hr]
  have : ¬ (2 * 0 > 2 ^ (max (b.log2 + 1 - p) qmin) ∨
      (2 * 0 = 2 ^ (max (b.log2 + 1 - p) qmin) ∧ b / 2 ^ (max (b.log2 + 1 - p) qmin) % 2 = 1)) := by omega
  rw [if_neg this]
  exact Nat.div_mul_cancel hd

theorem roundMag_form (p qmin a : Nat) (ha : a ≠ 0) :
    ∃ q n, roundMag p qmin a = n * 2 ^ q ∧ qmin ≤ q ∧ n ≤ 2 ^ p := by
  unfold roundMag
  simp only [ha, if_false]
  refine ⟨max (a.log2 + 1 - p) qmin, _, rfl, Nat.le_max_right _ _, ?_⟩
  have hlt : a < 2 ^ (a.log2 + 1) := Nat.lt_log2_self
  have hq : a.log2 + 1 ≤ max (a.log2 + 1 - p) qmin + p := by
    have := Nat.le_max_left (a.log2 + 1 - p) qmin; omega
  have hlt2 : a < 2 ^ (max (a.log2 + 1 - p) qmin) * 2 ^ p := by
    rw [← Nat.pow_add]
    exact Nat.lt_of_lt_of_le hlt (Nat.pow_le_pow_right (by decide) hq)
  have hn : a / 2 ^ (max (a.log2 + 1 - p) qmin) < 2 ^ p := by
    rw [Nat.div_lt_iff_lt_mul (Nat.two_pow_pos _)]
    rw [Nat.mul_comm]; exact hlt2
  split <;> omega

theorem roundMag_idem (p qmin a : Nat) (hp : 1 ≤ p) :
    roundMag p qmin (roundMag p qmin a) = roundMag p qmin a := by
  by_cases ha : a = 0
  · subst ha; simp [roundMag]
  obtain ⟨q, n, hb, hq, hn⟩ := roundMag_form p qmin a ha
  rw [hb]
  by_cases hz : n * 2 ^ q = 0
  · rw [hz]; simp [roundMag]
  apply roundMag_of_dvd _ _ _ hz
  have hn0 : n ≠ 0 := by intro h; apply hz; simp [h]
  rcases Nat.lt_or_eq_of_le hn with hlt | heq
  · -- n < 2^p: the exponent does not grow
    have hblt : n * 2 ^ q < 2 ^ (p + q) := by
      rw [Nat.pow_add]; exact Nat.mul_lt_mul_of_pos_right hlt (Nat.two_pow_pos _)
    have hlog : (n * 2 ^ q).log2 < p + q := (Nat.log2_lt hz).2 hblt
    have hle : max ((n * 2 ^ q).log2 + 1 - p) qmin ≤ q := by
      apply Nat.max_le.2; constructor <;> omega
    exact Nat.dvd_trans (Nat.pow_dvd_pow 2 hle) (Nat.dvd_mul_left _ _)
  · -- n = 2^p: the value is the power of two 2^(p+q)
    subst heq
    have hb2 : 2 ^ p * 2 ^ q = 2 ^ (p + q) := (Nat.pow_add 2 p q).symm
    rw [hb2, Nat.log2_two_pow]
    have hle : max (p + q + 1 - p) qmin ≤ p + q := by
      apply Nat.max_le.2; constructor <;> omega
    exact Nat.pow_dvd_pow 2 hle

theorem ffmt_p_pos (w : Nat) : 1 ≤ (ffmt w).p := by
  unfold ffmt; split
  · decide
  · split <;> decide

theorem roundF_idem (w : Nat) (f : F) : roundF w (roundF w f) = roundF w f := by
  cases f with
  | fin neg a =>
    simp only [roundF]
    split
    · rename_i h
      simp only [roundF, roundMag_idem _ _ _ (ffmt_p_pos w), h, if_true]
    · rfl
  | inf n => rfl
  | nan => rfl

end NunavutVerif.PyObj
