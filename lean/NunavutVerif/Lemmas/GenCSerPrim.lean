import NunavutVerif.Lemmas.GenCBits
import NunavutVerif.Lemmas.GenCOff
/-!
GenC refinement, part 3: what one emitted serialization site does to the buffer (`Wrote`), for every path of every
primitive field macro, from the C14 contracts of the primitives.
-/
namespace NunavutVerif.GenC
open NunavutVerif.Dsdl NunavutVerif.Bits

/-- `buf'` is `buf` with `bits` stored at bit offset `off`; nothing below `off` changed (what lies above the new
bits may have been overrun up to the next byte boundary — by design of the generated code). -/
structure Wrote (buf buf' : Buf) (off : Nat) (bits : List Bool) : Prop where
  len : buf'.length = buf.length
  wf : WF buf → WF buf'
  pre : ∀ i, i < off → bitAt buf' i = bitAt buf i
  new : ∀ i, i < bits.length → bitAt buf' (off + i) = gb bits i

/-- outcome of a site that succeeded: the new buffer, `offset_bits` advanced by exactly the bits written -/
def SerStep (r : Except Err W) (buf : Buf) (off : Nat) (bits : List Bool) : Prop :=
  ∃ buf', r = .ok (buf', off + bits.length) ∧ Wrote buf buf' off bits

theorem Wrote.refl (buf : Buf) (off : Nat) : Wrote buf buf off [] :=
  ⟨rfl, id, fun _ _ => rfl, fun _ h => by simp at h⟩

theorem Wrote.trans {b0 b1 b2 : Buf} {off : Nat} {a c : List Bool} (h1 : Wrote b0 b1 off a)
    (h2 : Wrote b1 b2 (off + a.length) c) : Wrote b0 b2 off (a ++ c) := by
  refine ⟨h2.len.trans h1.len, fun h => h2.wf (h1.wf h), ?_, ?_⟩
  · intro i hi
    rw [h2.pre i (by omega), h1.pre i hi]
  · intro i hi
    rw [gb_append]
    by_cases h : i < a.length
    · simp only [h, if_true]
      rw [h2.pre _ (by omega), h1.new i h]
    · simp only [h, if_false]
      have := h2.new (i - a.length) (by simp at hi; omega)
      have e : off + a.length + (i - a.length) = off + i := by omega
      rwa [e] at this

theorem SerStep.trans {r : Except Err W} {b0 b1 : Buf} {off : Nat} {a c : List Bool}
    (h1 : Wrote b0 b1 off a) (h2 : SerStep r b1 (off + a.length) c) : SerStep r b0 off (a ++ c) := by
  obtain ⟨b2, hr, hw⟩ := h2
  refine ⟨b2, ?_, h1.trans hw⟩
  rw [hr, List.length_append, Nat.add_assoc]

/-- from a frame contract of a C14 primitive (exactly the bits `[off, off+n)` change) -/
theorem wrote_of_frame {buf r : Buf} {off : Nat} {bits : List Bool} (f : Nat → Bool) (hl : r.length = buf.length)
    (hwf : WF buf → WF r)
    (h : ∀ i, bitAt r i = if off ≤ i ∧ i < off + bits.length then f (i - off) else bitAt buf i)
    (hf : ∀ i, i < bits.length → f i = gb bits i) : Wrote buf r off bits := by
  refine ⟨hl, hwf, ?_, ?_⟩
  · intro i hi
    rw [h i, if_neg (by omega)]
  · intro i hi
    rw [h (off + i), if_pos (by omega)]
    have : off + i - off = i := by omega
    rw [this, hf i hi]

/-! ### the primitives as writers -/

theorem chk_ok (r : Buf) : chk (.ok (0, r)) = .ok r := by simp [chk]

theorem setUxx_wrote (little : Bool) (buf : Buf) (cap off value n : Nat) (bits : List Bool)
    (hcap : cap ≤ buf.length) (hroom : off + n ≤ 8 * cap) (hn : n ≤ 64) (hb : bits.length = n)
    (hv : ∀ i, i < n → value.testBit i = gb bits i) :
    ∃ r, chk (setUxx little buf cap off value n) = .ok r ∧ Wrote buf r off bits := by
  obtain ⟨r, hr, hl, hwf, hbits⟩ := setUxx_spec little buf cap off value n hcap (by omega)
  refine ⟨r, by rw [hr, chk_ok], ?_⟩
  apply wrote_of_frame (fun i => value.testBit i) hl hwf
  · intro i
    rw [hbits i, hb, Nat.min_eq_left hn]
  · intro i hi
    exact hv i (by omega)

theorem store_wrote (buf : Buf) (off x : Nat) (bits : List Bool) (hal : off % 8 = 0) (hlt : off / 8 < buf.length)
    (hx : x < 256) (hb : bits.length ≤ 8) (hv : ∀ i, i < bits.length → x.testBit i = gb bits i) :
    liftP (set? buf (off / 8) x) = .ok (buf.set (off / 8) x) ∧ Wrote buf (buf.set (off / 8) x) off bits := by
  refine ⟨by simp [set?_ok hlt, liftP], by simp, fun h => WF_set h hx, ?_, ?_⟩
  · intro i hi
    rw [bitAt_set, if_neg]
    omega
  · intro i hi
    rw [bitAt_set, if_pos ⟨by omega, hlt⟩]
    have : (off + i) % 8 = i := by omega
    rw [this, hv i hi]

theorem memmove_wrote (buf src : Buf) (off nb : Nat) (bits : List Bool) (hal : off % 8 = 0)
    (hsrc : nb ≤ src.length) (hdst : off / 8 + nb ≤ buf.length) (hws : WF src) (hb : bits.length ≤ 8 * nb)
    (hv : ∀ i, i < bits.length → bitAt src i = gb bits i) :
    ∃ r, liftP (memmove buf (off / 8) src 0 nb) = .ok r ∧ Wrote buf r off bits := by
  obtain ⟨r, hr, hl, hk⟩ := memmove_spec nb buf (off / 8) src 0 (by omega) hdst
  refine ⟨r, by simp [hr, liftP], hl, ?_, ?_, ?_⟩
  · intro hbuf x hx
    obtain ⟨k, hk', rfl⟩ := List.getElem_of_mem hx
    have := hk k
    rw [List.getElem?_eq_getElem hk'] at this
    split at this
    · exact hws _ (List.mem_of_getElem? this.symm)
    · exact hbuf _ (List.mem_of_getElem? this.symm)
  · intro i hi
    rw [bitAt_eq_getElem?, hk, if_neg (by omega), ← bitAt_eq_getElem?]
  · intro i hi
    rw [bitAt_eq_getElem?, hk, if_pos (by omega), ← hv i hi, bitAt_eq_getElem?]
    have e1 : 0 + ((off + i) / 8 - off / 8) = i / 8 := by omega
    have e2 : (off + i) % 8 = i % 8 := by omega
    rw [e1, e2]

theorem memset0_wrote (buf : Buf) (off nb n : Nat) (hal : off % 8 = 0) (hdst : off / 8 + nb ≤ buf.length)
    (hb : n ≤ 8 * nb) :
    ∃ r, liftP (memset0 buf (off / 8) nb) = .ok r ∧ Wrote buf r off (zeros n) := by
  obtain ⟨r, hr, hl, hk⟩ := memset0_spec nb buf (off / 8) hdst
  refine ⟨r, by simp [hr, liftP], hl, ?_, ?_, ?_⟩
  · intro hbuf x hx
    obtain ⟨k, hk', rfl⟩ := List.getElem_of_mem hx
    have := hk k
    rw [List.getElem?_eq_getElem hk'] at this
    split at this
    · simp at this; omega
    · exact hbuf _ (List.mem_of_getElem? this.symm)
  · intro i hi
    rw [bitAt_eq_getElem?, hk, if_neg (by omega), ← bitAt_eq_getElem?]
  · intro i hi
    simp only [zeros_length] at hi
    rw [bitAt_eq_getElem?, hk, if_pos (by omega), gb_zeros]
    simp

/-! ### integer values -/

/-- the `n` low bits of the two's complement form of `z` -/
def lowBits (n : Nat) (z : Int) : Nat := (z % (2 : Int) ^ n).toNat

theorem lowBits_lt (n : Nat) (z : Int) : lowBits n z < 2 ^ n := by
  unfold lowBits
  have h1 : (0 : Int) < (2 : Int) ^ n := two_pow_pos_int n
  have h2 := Int.emod_lt_of_pos z h1
  have h3 := Int.emod_nonneg z (Int.ne_of_gt h1)
  have : ((z % (2 : Int) ^ n).toNat : Int) < ((2 ^ n : Nat) : Int) := by
    rw [Int.toNat_of_nonneg h3]; simpa using h2
  exact Int.ofNat_lt.mp this

theorem two_pow_toNat (n : Nat) : ((2 : Int) ^ n).toNat = 2 ^ n := by
  have : (2 : Int) ^ n = ((2 ^ n : Nat) : Int) := by simp
  rw [this, Int.toNat_natCast]

theorem lowBits_mod {n k : Nat} (h : n ≤ k) (z : Int) : lowBits k z % 2 ^ n = lowBits n z := by
  unfold lowBits
  have hk : (0 : Int) < (2 : Int) ^ k := two_pow_pos_int k
  have hn : (0 : Int) < (2 : Int) ^ n := two_pow_pos_int n
  have h3 := Int.emod_nonneg z (Int.ne_of_gt hk)
  have hdvd : ((2 : Int) ^ n) ∣ (2 : Int) ^ k := ⟨(2 : Int) ^ (k - n), by rw [← Int.pow_add, Nat.add_sub_cancel' h]⟩
  have e : (z % (2 : Int) ^ k) % (2 : Int) ^ n = z % (2 : Int) ^ n := Int.emod_emod_of_dvd z hdvd
  rw [← e, Int.toNat_emod h3 (Int.le_of_lt hn), two_pow_toNat]

theorem testBit_lowBits {n k i : Nat} (h : n ≤ k) (hi : i < n) (z : Int) :
    (lowBits k z).testBit i = (lowBits n z).testBit i := by
  rw [← lowBits_mod h z, Nat.testBit_mod_two_pow]
  simp [hi]

theorem lowBits_natCast (n x : Nat) : lowBits n (x : Int) = x % 2 ^ n := by
  unfold lowBits
  apply Int.ofNat_inj.mp
  rw [Int.toNat_of_nonneg (Int.emod_nonneg _ (Int.ne_of_gt (two_pow_pos_int n)))]
  simp

theorem lowBits_of_range {n : Nat} {z : Int} (h0 : 0 ≤ z) (h1 : z < (2 : Int) ^ n) : lowBits n z = z.toNat := by
  unfold lowBits
  rw [Int.emod_eq_of_lt h0 h1]

/-- the value the integer macro hands to the store (after the emitted saturation code, if any) -/
def satV (signed : Bool) (n : Nat) (sat : Bool) (v : Int) : Int :=
  if sat ∧ ¬ isStd n then satInt signed n v else v

theorem serInt_wrote (o : Opts) (hs : o.Sound) (signed : Bool) (n Wd : Nat) (sat : Bool) (v : Int)
    (cap : Nat) (d : AOff) (buf : Buf) (off : Nat)
    (hn1 : 1 ≤ n) (hnW : n ≤ Wd) (hW : Wd % 8 = 0) (hW64 : Wd ≤ 64)
    (hcap : cap ≤ buf.length) (hroom : off + n ≤ 8 * cap) (hd : AOff.Adm d off) :
    SerStep (serInt o signed n Wd sat v cap d buf off) buf off (natToBits n (lowBits n (satV signed n sat v))) := by
  unfold serInt SerStep
  simp only [natToBits_length]
  have hsv : (if sat = true ∧ ¬ isStd n = true then satInt signed n v else v) = satV signed n sat v := rfl
  rw [hsv]
  generalize satV signed n sat v = z
  have hbits : ∀ k, n ≤ k → ∀ i, i < n → (lowBits k z).testBit i = gb (natToBits n (lowBits n z)) i := by
    intro k hk i hi
    rw [gb_natToBits, testBit_lowBits hk hi]; simp [hi]
  by_cases h1 : o.orc d = true ∧ n ≤ 8
  · -- aligned single byte store
    have hal := hs.aligned hd h1.1
    simp only [h1, and_self, if_true]
    have e8 : (z % 256).toNat = lowBits 8 z := rfl
    obtain ⟨hst, hwr⟩ := store_wrote buf off (lowBits 8 z) (natToBits n (lowBits n z)) hal (by omega)
      (lowBits_lt 8 z) (by simp; omega) (by intro i hi; simp at hi; exact hbits 8 h1.2 i hi)
    rw [e8, hst]
    exact ⟨_, rfl, hwr⟩
  · simp only [h1, if_false]
    by_cases h2 : o.orc d = true ∧ o.little = true
    · -- memmove of the storage object
      have hal := hs.aligned hd h2.1
      simp only [h2, and_self, if_true]
      obtain ⟨r, hr, hwr⟩ := memmove_wrote buf (objRepLE (lowBits Wd z) (Wd / 8)) off ((n + 7) / 8)
        (natToBits n (lowBits n z)) hal (by rw [length_objRepLE]; omega) (by omega) (WF_objRepLE _ _)
        (by simp; omega)
        (by
          intro i hi
          simp only [natToBits_length] at hi
          rw [bitAt_objRepLE, hbits Wd hnW i hi]
          have : i < 8 * (Wd / 8) := by omega
          simp [this])
      have e : (z % (2 : Int) ^ Wd).toNat = lowBits Wd z := rfl
      rw [e, hr]
      exact ⟨_, rfl, hwr⟩
    · simp only [h2, if_false]
      have e : (if signed = true then setIxx o.little buf cap off z n else setUxx o.little buf cap off (toU64 z) n)
          = setUxx o.little buf cap off (lowBits 64 z) n := by
        cases signed <;> rfl
      rw [e]
      obtain ⟨r, hr, hwr⟩ := setUxx_wrote o.little buf cap off (lowBits 64 z) n (natToBits n (lowBits n z))
        hcap hroom (by omega) (by simp) (hbits 64 (by omega))
      rw [hr]
      exact ⟨_, rfl, hwr⟩

theorem serFloat_wrote (o : Opts) (hs : o.Sound) (n : Nat) (m : Cast) (x : Nat)
    (cap : Nat) (d : AOff) (buf : Buf) (off : Nat) (hn : n = 16 ∨ n = 32 ∨ n = 64)
    (hcap : cap ≤ buf.length) (hroom : off + n ≤ 8 * cap) (hd : AOff.Adm d off) :
    SerStep (serFloat o n m x cap d buf off) buf off (natToBits n (floatBits n m x)) := by
  unfold serFloat SerStep
  simp only [natToBits_length]
  generalize floatBits n m x = w
  have hbits : ∀ i, i < n → w.testBit i = gb (natToBits n w) i := by
    intro i hi; rw [gb_natToBits]; simp [hi]
  by_cases h2 : o.orc d = true ∧ o.little = true
  · have hal := hs.aligned hd h2.1
    simp only [h2, and_self, if_true]
    obtain ⟨r, hr, hwr⟩ := memmove_wrote buf (objRepLE w (n / 8)) off (n / 8)
      (natToBits n w) hal (by rw [length_objRepLE]; omega) (by omega) (WF_objRepLE _ _)
      (by simp; omega)
      (by
        intro i hi
        simp only [natToBits_length] at hi
        rw [bitAt_objRepLE, ← hbits i hi]
        have : i < 8 * (n / 8) := by omega
        simp [this])
    rw [hr]
    exact ⟨_, rfl, hwr⟩
  · simp only [h2, if_false]
    obtain ⟨r, hr, hwr⟩ := setUxx_wrote o.little buf cap off w n (natToBits n w)
      hcap hroom (by omega) (by simp) hbits
    rw [hr]
    exact ⟨_, rfl, hwr⟩

theorem serVoid_wrote (o : Opts) (hs : o.Sound) (n : Nat) (cap : Nat) (d : AOff) (buf : Buf) (off : Nat)
    (hn1 : 1 ≤ n) (hn64 : n ≤ 64)
    (hcap : cap ≤ buf.length) (hroom : off + n ≤ 8 * cap) (hd : AOff.Adm d off) :
    SerStep (serVoid o n cap d buf off) buf off (zeros n) := by
  unfold serVoid SerStep
  simp only [zeros_length]
  by_cases h1 : o.orc d = true
  · have hal := hs.aligned hd h1
    simp only [h1, if_true]
    by_cases h8 : n ≤ 8
    · simp only [h8, if_true]
      obtain ⟨hst, hwr⟩ := store_wrote buf off 0 (zeros n) hal (by omega) (by decide) (by simp; omega)
        (by intro i _; simp [gb_zeros])
      rw [hst]
      exact ⟨_, rfl, hwr⟩
    · simp only [h8, if_false]
      obtain ⟨r, hr, hwr⟩ := memset0_wrote buf off ((n + 7) / 8) n hal (by omega) (by omega)
      rw [hr]
      exact ⟨_, rfl, hwr⟩
  · simp only [h1]
    obtain ⟨r, hr, hwr⟩ := setUxx_wrote o.little buf cap off 0 n (zeros n) hcap hroom hn64 (by simp)
      (by intro i _; simp [gb_zeros])
    simp only [Bool.false_eq_true, if_false]
    rw [hr]
    exact ⟨_, rfl, hwr⟩

theorem serBool_wrote (o : Opts) (hs : o.Sound) (v : Bool) (d : AOff) (buf : Buf) (off : Nat)
    (hw : WF buf) (hroom : off / 8 < buf.length) (hd : AOff.Adm d off) :
    SerStep (serBool o v d buf off) buf off [v] := by
  unfold serBool SerStep
  simp only [List.length_singleton]
  by_cases h1 : o.orc d = true
  · have hal := hs.aligned hd h1
    simp only [h1, if_true]
    obtain ⟨hst, hwr⟩ := store_wrote buf off (if v then 1 else 0) [v] hal hroom (by cases v <;> decide) (by simp)
      (by intro i hi; simp at hi; subst hi; cases v <;> simp [gb])
    rw [hst]
    exact ⟨_, rfl, hwr⟩
  · simp only [h1, Bool.false_eq_true, if_false]
    rw [get?_ok hroom]
    simp only [liftP]
    have hx : buf[off / 8] < 256 := WF_getElem hw hroom
    generalize hxe : buf[off / 8] = x at hx
    have hk : off % 8 < 8 := Nat.mod_lt _ (by decide)
    generalize hke : off % 8 = k at hk
    -- the read-modify-write of one bit
    have hy : ∀ j, j < 8 →
        (if v = true then (x ||| 1 <<< k) % 256 else x &&& (1 <<< k ^^^ 255)).testBit j =
          if j = k then v else x.testBit j := by
      intro j hj
      cases v
      · simp only [Bool.false_eq_true, if_false, Nat.testBit_and, Nat.testBit_xor, show (255 : Nat) = 2 ^ 8 - 1 by rfl,
          Nat.testBit_two_pow_sub_one, Nat.one_shiftLeft, Nat.testBit_two_pow]
        by_cases e : j = k
        · subst e; simp [hj]
        · have : ¬ k = j := fun h => e h.symm
          simp [e, this, hj]
      · simp only [if_true, show (256 : Nat) = 2 ^ 8 by rfl, Nat.testBit_mod_two_pow, Nat.testBit_or,
          Nat.one_shiftLeft, Nat.testBit_two_pow]
        by_cases e : j = k
        · subst e; simp [hj]
        · have : ¬ k = j := fun h => e h.symm
          simp [e, this, hj]
    have hylt : (if v = true then (x ||| 1 <<< k) % 256 else x &&& (1 <<< k ^^^ 255)) < 256 := by
      cases v
      · simp only [Bool.false_eq_true, if_false]
        exact Nat.lt_of_le_of_lt Nat.and_le_left hx
      · simp only [if_true]; exact Nat.mod_lt _ (by decide)
    generalize (if v = true then (x ||| 1 <<< k) % 256 else x &&& (1 <<< k ^^^ 255)) = y at hy hylt
    rw [set?_ok hroom]
    refine ⟨_, rfl, by simp, fun h => WF_set h hylt, ?_, ?_⟩
    · intro i hi
      rw [bitAt_set]
      by_cases hA : i / 8 = off / 8 ∧ off / 8 < buf.length
      · simp only [hA, and_self, if_true]
        rw [hy _ (Nat.mod_lt _ (by decide)), if_neg (by omega), bitAt_of_lt (by omega)]
        simp only [hA.1, hxe]
      · simp only [hA, if_false]
    · intro i hi
      simp only [List.length_singleton] at hi
      have : i = 0 := by omega
      subst this
      rw [bitAt_set, if_pos ⟨by simp, hroom⟩, hy _ (Nat.mod_lt _ (by decide))]
      simp [hke, gb]

theorem padSer_wrote (o : Opts) (n : Nat) (cap : Nat) (buf : Buf) (off : Nat) (hn : n = 1 ∨ n = 8)
    (hcap : cap ≤ buf.length) (hroom : padTo n off ≤ 8 * cap) :
    SerStep (padSer o n cap buf off) buf off (zeros (padLen n off)) := by
  unfold padSer SerStep
  simp only [zeros_length]
  rcases hn with rfl | rfl
  · simp [padLen, Nat.mod_one, zeros, Wrote.refl]
  · by_cases h : off % 8 ≠ 0
    · have e1 : (8 - off % 8) % 256 = padLen 8 off := by simp only [padLen]; omega
      have hp : padLen 8 off ≤ 64 := by simp only [padLen]; omega
      have hp0 : padLen 8 off > 0 := by simp only [padLen]; omega
      have hp8 : (off + padLen 8 off) % 8 = 0 := by simp only [padLen]; omega
      simp only [show (8 : Nat) > 1 by decide, h, ne_eq, not_false_eq_true, and_self, if_true, e1]
      rw [assertC_ok o hp0]
      obtain ⟨r, hr, hwr⟩ := setUxx_wrote o.little buf cap off 0 (padLen 8 off) (zeros (padLen 8 off)) hcap
        (by simpa [padTo] using hroom) hp (by simp) (by intro i _; simp [gb_zeros])
      rw [hr]
      dsimp only
      rw [assertC_ok o hp8]
      exact ⟨_, rfl, hwr⟩
    · have e : padLen 8 off = 0 := by simp only [padLen]; omega
      simp only [h, and_false, if_false, e, zeros, List.replicate_zero, Nat.add_zero]
      exact ⟨_, rfl, Wrote.refl _ _⟩

end NunavutVerif.GenC
