import NunavutVerif.Model.Dsdl
/-!
Bit-list, padding and integer-cast lemmas for the DSDL specification model (`Model/Dsdl.lean`).
-/
namespace NunavutVerif.Dsdl

/-! ### Induction over the nested type `Ty` -/

section
variable {P : Ty → Prop}
  (uint : ∀ n m, P (.uint n m)) (sint : ∀ n m, P (.sint n m)) (float : ∀ n m, P (.float n m))
  (bool : P .bool) (void : ∀ n, P (.void n))
  (arr : ∀ t n, P t → P (.arr t n)) (varr : ∀ t c, P t → P (.varr t c))
  (struct : ∀ fs, (∀ f ∈ fs, P f) → P (.struct fs))
  (union : ∀ fs, (∀ f ∈ fs, P f) → P (.union fs))
  (delim : ∀ e t, P t → P (.delim e t))
set_option linter.unusedSectionVars false
include uint sint float bool void arr varr struct union delim
mutual
/-- Structural induction over `Ty`; the composite cases get the claim for every field. -/
theorem Ty.ind : ∀ t, P t
  | .uint n m => uint n m
  | .sint n m => sint n m
  | .float n m => float n m
  | .bool => bool
  | .void n => void n
  | .arr t n => arr t n (Ty.ind t)
  | .varr t c => varr t c (Ty.ind t)
  | .struct fs => struct fs (Ty.indList fs)
  | .union fs => union fs (Ty.indList fs)
  | .delim e t => delim e t (Ty.ind t)
theorem Ty.indList : ∀ fs : List Ty, ∀ f ∈ fs, P f
  | [], _, h => by cases h
  | g :: gs, f, h => by
    cases h with
    | head => exact Ty.ind g
    | tail _ h' => exact Ty.indList gs f h'
end
end

/-! ### Bit lists -/

@[simp] theorem natToBits_length (n x : Nat) : (natToBits n x).length = n := by
  induction n generalizing x with
  | zero => rfl
  | succ n ih => simp [natToBits, ih]

@[simp] theorem zeros_length (k : Nat) : (zeros k).length = k := by simp [zeros]

theorem bitsToNat_lt (bs : List Bool) : bitsToNat bs < 2 ^ bs.length := by
  induction bs with
  | nil => simp [bitsToNat]
  | cons b bs ih =>
    simp only [bitsToNat, List.length_cons, Nat.pow_succ]
    cases b <;> simp <;> omega

theorem bitsToNat_natToBits (n x : Nat) : bitsToNat (natToBits n x) = x % 2 ^ n := by
  induction n generalizing x with
  | zero => simp [natToBits, bitsToNat, Nat.mod_one]
  | succ n ih =>
    simp only [natToBits, bitsToNat, ih, Nat.pow_succ']
    rw [Nat.mod_mul]
    have h : x % 2 = 0 ∨ x % 2 = 1 := by omega
    rcases h with h | h <;> simp [h]

theorem bitsToNat_append (a b : List Bool) :
    bitsToNat (a ++ b) = bitsToNat a + 2 ^ a.length * bitsToNat b := by
  induction a with
  | nil => simp [bitsToNat]
  | cons x a ih =>
    simp only [List.cons_append, bitsToNat, ih, List.length_cons, Nat.pow_succ']
    rw [Nat.mul_add, Nat.mul_assoc, Nat.add_assoc]

@[simp] theorem bitsToNat_zeros (k : Nat) : bitsToNat (zeros k) = 0 := by
  induction k with
  | zero => rfl
  | succ k ih =>
    have : zeros (k + 1) = false :: zeros k := by simp [zeros, List.replicate_succ]
    simp [this, bitsToNat, ih]

theorem natToBits_mod (n x : Nat) : natToBits n (x % 2 ^ n) = natToBits n x := by
  induction n generalizing x with
  | zero => rfl
  | succ n ih =>
    simp only [natToBits]
    have h1 : x % 2 ^ (n + 1) % 2 = x % 2 := by
      rw [Nat.pow_succ']; exact Nat.mod_mul_right_mod x 2 (2 ^ n)
    have h2 : x % 2 ^ (n + 1) / 2 = (x / 2) % 2 ^ n := by
      rw [Nat.pow_succ', Nat.mod_mul_right_div_self]
    rw [h1, h2, ih]

theorem readNat_lt (n : Nat) (bs : List Bool) : readNat n bs < 2 ^ n := by
  unfold readNat
  have h := bitsToNat_lt (bs.take n)
  have h2 : (bs.take n).length ≤ n := by simp [List.length_take]; omega
  exact Nat.lt_of_lt_of_le h (Nat.pow_le_pow_right (by decide) h2)

theorem readNat_natToBits_append (n x : Nat) (rest : List Bool) :
    readNat n (natToBits n x ++ rest) = x % 2 ^ n := by
  unfold readNat
  rw [List.take_left' (natToBits_length n x), bitsToNat_natToBits]

theorem readNat_of_lt {n x : Nat} (h : x < 2 ^ n) (rest : List Bool) :
    readNat n (natToBits n x ++ rest) = x := by
  rw [readNat_natToBits_append, Nat.mod_eq_of_lt h]

theorem take_append_zeros (n k : Nat) (bs : List Bool) :
    ∃ j, (bs ++ zeros k).take n = bs.take n ++ zeros j := by
  refine ⟨min (n - bs.length) k, ?_⟩
  rw [List.take_append]
  simp [zeros, List.take_replicate]

theorem drop_append_zeros (n k : Nat) (bs : List Bool) :
    ∃ j, (bs ++ zeros k).drop n = bs.drop n ++ zeros j := by
  refine ⟨k - (n - bs.length), ?_⟩
  rw [List.drop_append]
  simp [zeros, List.drop_replicate]

theorem readNat_append_zeros (n k : Nat) (bs : List Bool) :
    readNat n (bs ++ zeros k) = readNat n bs := by
  unfold readNat
  obtain ⟨j, hj⟩ := take_append_zeros n k bs
  rw [hj, bitsToNat_append]; simp

theorem readNat_congr {n : Nat} {bs bs' : List Bool} (h : bs.take n = bs'.take n) :
    readNat n bs = readNat n bs' := by unfold readNat; rw [h]

/-! ### Padding -/

theorem align_cases (t : Ty) : align t = 1 ∨ align t = 8 := by
  refine Ty.ind (P := fun t => align t = 1 ∨ align t = 8) ?_ ?_ ?_ ?_ ?_ ?_ ?_ ?_ ?_ ?_ t <;>
    intros <;> simp_all [align]

@[simp] theorem padLen_one (off : Nat) : padLen 1 off = 0 := by simp [padLen, Nat.mod_one]

theorem padLen_eight (off : Nat) : padLen 8 off = (8 - off % 8) % 8 := rfl

theorem padTo_mono {a : Nat} (ha : a = 1 ∨ a = 8) {x y : Nat} (h : x ≤ y) : padTo a x ≤ padTo a y := by
  rcases ha with rfl | rfl <;> simp only [padTo, padLen] <;> omega

theorem padTo_ge (a x : Nat) : x ≤ padTo a x := by simp [padTo]

theorem padTo_mod {a : Nat} (ha : a = 1 ∨ a = 8) (x : Nat) : padTo a x % a = 0 := by
  rcases ha with rfl | rfl <;> simp only [padTo, padLen] <;> omega

theorem padLen_of_mod {a : Nat} (ha : a = 1 ∨ a = 8) {x : Nat} (h : x % a = 0) : padLen a x = 0 := by
  rcases ha with rfl | rfl <;> simp only [padLen] <;> omega

/-! ### Standard widths -/

theorem stdWidth_cases (x : Nat) :
    stdWidth x = 8 ∨ stdWidth x = 16 ∨ stdWidth x = 32 ∨ stdWidth x = 64 := by
  unfold stdWidth; repeat' split
  all_goals simp

theorem stdWidth_mod8 (x : Nat) : stdWidth x % 8 = 0 := by
  rcases stdWidth_cases x with h | h | h | h <;> omega

theorem lt_two_pow_stdWidth {x : Nat} (h : x < 2 ^ 64) : x < 2 ^ stdWidth x := by
  unfold stdWidth
  split
  · assumption
  · split
    · assumption
    · split <;> assumption

/-! ### Integer casts -/

theorem two_pow_pos_int (n : Nat) : (0 : Int) < (2 : Int) ^ n := Int.pow_pos (by decide)

theorem castU_lt (n : Nat) (m : Cast) (i : Int) : castU n m i < 2 ^ n := by
  have hp : 0 < 2 ^ n := Nat.pow_pos (by decide)
  have hc : ((2 ^ n : Nat) : Int) = (2 : Int) ^ n := by simp
  cases m with
  | sat =>
    simp only [castU]
    split
    · exact hp
    · split
      · omega
      · omega
  | trunc =>
    simp only [castU]
    have h1 := Int.emod_lt_of_pos i (two_pow_pos_int n)
    have h0 := Int.emod_nonneg i (Int.ne_of_gt (two_pow_pos_int n))
    omega

/-- An in-range unsigned value is unchanged by the cast, in either mode. -/
theorem castU_of_lt {n : Nat} (m : Cast) {x : Nat} (h : x < 2 ^ n) : castU n m (x : Int) = x := by
  have hc : ((2 ^ n : Nat) : Int) = (2 : Int) ^ n := by simp
  cases m with
  | sat =>
    simp only [castU]
    split
    · omega
    · split
      · omega
      · simp
  | trunc =>
    simp only [castU]
    rw [Int.emod_eq_of_lt (by omega) (by omega)]; simp

theorem castU_idem (n : Nat) (m : Cast) (i : Int) : castU n m (castU n m i : Int) = castU n m i :=
  castU_of_lt m (castU_lt n m i)

theorem castS_lt (n : Nat) (m : Cast) (i : Int) : castS n m i < 2 ^ n := by
  have hc : ((2 ^ n : Nat) : Int) = (2 : Int) ^ n := by simp
  cases m with
  | sat =>
    simp only [castS]
    have h1 := Int.emod_lt_of_pos (clampS n i) (two_pow_pos_int n)
    have h0 := Int.emod_nonneg (clampS n i) (Int.ne_of_gt (two_pow_pos_int n))
    omega
  | trunc =>
    simp only [castS]
    have h1 := Int.emod_lt_of_pos i (two_pow_pos_int n)
    have h0 := Int.emod_nonneg i (Int.ne_of_gt (two_pow_pos_int n))
    omega

theorem two_pow_pred_int {n : Nat} (h : 1 ≤ n) : (2 : Int) ^ n = 2 * (2 : Int) ^ (n - 1) := by
  obtain ⟨k, rfl⟩ : ∃ k, n = k + 1 := ⟨n - 1, by omega⟩
  simp [Int.pow_succ, Int.mul_comm]

theorem signExtend_range {n : Nat} (hn : 1 ≤ n) {w : Nat} (h : w < 2 ^ n) :
    -((2 : Int) ^ (n - 1)) ≤ signExtend n w ∧ signExtend n w < (2 : Int) ^ (n - 1) := by
  have hc : ((2 ^ n : Nat) : Int) = (2 : Int) ^ n := by simp
  have hc1 : ((2 ^ (n - 1) : Nat) : Int) = (2 : Int) ^ (n - 1) := by simp
  have h2 := two_pow_pred_int hn
  unfold signExtend
  split <;> omega

theorem signExtend_emod {n : Nat} (_hn : 1 ≤ n) {w : Nat} (h : w < 2 ^ n) :
    signExtend n w % (2 : Int) ^ n = w := by
  have hc : ((2 ^ n : Nat) : Int) = (2 : Int) ^ n := by simp
  unfold signExtend
  split
  · exact Int.emod_eq_of_lt (by omega) (by omega)
  · have : (w : Int) - (2 : Int) ^ n = w + (-1) * (2 : Int) ^ n := by omega
    rw [this, Int.add_mul_emod_self_right]
    exact Int.emod_eq_of_lt (by omega) (by omega)

/-- A wire value survives sign extension followed by the cast, in either mode. -/
theorem castS_signExtend {n : Nat} (hn : 1 ≤ n) (m : Cast) {w : Nat} (h : w < 2 ^ n) :
    castS n m (signExtend n w) = w := by
  have hr := signExtend_range hn h
  have he := signExtend_emod hn h
  cases m with
  | sat =>
    simp only [castS]
    have : clampS n (signExtend n w) = signExtend n w := by
      unfold clampS; split
      · omega
      · split <;> omega
    rw [this, he]; simp
  | trunc => simp only [castS]; rw [he]; simp

theorem castS_idem {n : Nat} (hn : 1 ≤ n) (m : Cast) (i : Int) :
    castS n m (signExtend n (castS n m i)) = castS n m i :=
  castS_signExtend hn m (castS_lt n m i)

end NunavutVerif.Dsdl
