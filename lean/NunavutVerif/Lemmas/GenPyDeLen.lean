import NunavutVerif.Lemmas.GenPyBits
import NunavutVerif.Lemmas.GenPyDefs
import NunavutVerif.Lemmas.DsdlDecode
/-!
Facts about the specification's decoder the Python refinement needs and the spec lemma files do not state:
the length an object occupies is at least `minBits`, a multiple of the type's alignment; `deAllWith` returns as many
elements as asked; `readNat` in terms of `testBit`; decoded values pass the dtype store and the generated setters.
-/
namespace NunavutVerif.GenPy
open NunavutVerif.Dsdl
open NunavutVerif.Bits (Buf Err bitAt WF)
open NunavutVerif.Bits.Py

/-! ### `readNat` bitwise -/

theorem testBit_bitsToNat : ∀ (bs : List Bool) (i : Nat), (bitsToNat bs).testBit i = bitOf bs i := by
  intro bs
  induction bs with
  | nil => intro i; simp [bitsToNat]
  | cons b bs ih =>
    intro i
    cases i with
    | zero =>
      rw [bitOf_cons_zero, Nat.testBit_zero]
      simp only [bitsToNat]
      cases b <;> simp <;> omega
    | succ i =>
      rw [bitOf_cons_succ, Nat.testBit_succ, ← ih i]
      congr 1
      simp only [bitsToNat]
      cases b <;> simp <;> omega

theorem bitOf_take (bs : List Bool) (n i : Nat) : bitOf (bs.take n) i = (decide (i < n) && bitOf bs i) := by
  unfold bitOf
  by_cases h : i < n
  · rw [List.getElem?_take_of_lt h]; simp [h]
  · rw [List.getElem?_take_eq_none (by omega)]; simp [h]

theorem bitOf_drop (bs : List Bool) (k i : Nat) : bitOf (bs.drop k) i = bitOf bs (k + i) := by
  unfold bitOf; rw [List.getElem?_drop]

theorem testBit_readNat (n : Nat) (bs : List Bool) (i : Nat) :
    (readNat n bs).testBit i = (decide (i < n) && bitOf bs i) := by
  unfold readNat; rw [testBit_bitsToNat, bitOf_take]

theorem readNat_congr_bitOf {n : Nat} {bs bs' : List Bool} (h : ∀ i, i < n → bitOf bs i = bitOf bs' i) :
    readNat n bs = readNat n bs' := by
  apply Nat.eq_of_testBit_eq
  intro i
  rw [testBit_readNat, testBit_readNat]
  by_cases hi : i < n
  · simp [hi, h i hi]
  · simp [hi]

/-- the zero-extended field the C14 contracts speak of is the specification's `readNat` -/
theorem deField_eq_readNat (d : De) (hw : WF d.buf) (n : Nat) :
    deField d n = readNat n ((unpackBytes d.buf).drop d.off) := by
  apply Nat.eq_of_testBit_eq
  intro i
  unfold deField
  rw [Bits.testBit_fieldOf, testBit_readNat, bitOf_drop, bitAt_eq_bitOf_unpack _ hw]

theorem signOf_eq_signExtend (u n : Nat) : signOf u n = signExtend n u := by
  unfold signOf signExtend
  have e1 : ((2 ^ (n - 1) : Nat) : Int) = (2 : Int) ^ (n - 1) := by simp
  by_cases h : u < 2 ^ (n - 1)
  · rw [if_neg (by omega), if_pos h]
  · rw [if_pos (by omega), if_neg h]

/-! ### lengths -/

theorem deAll_length {f : List Bool → Except DeErr (Val × Nat)} :
    ∀ (c : Nat) (bs : List Bool) (vs : List Val) (n : Nat), deAllWith f c bs = .ok (vs, n) → vs.length = c := by
  intro c
  induction c with
  | zero => intro bs vs n h; simp [deAllWith] at h; simp [h.1]
  | succ c ih =>
    intro bs vs n h
    simp only [deAllWith] at h
    split at h
    · cases h
    · split at h
      · cases h
      · rename_i vs' m h2
        cases h
        simp [ih _ _ _ h2]

/-- the claim proved by induction over the type -/
def DeLenOK (t : Ty) : Prop :=
  wf t = true → ∀ bs v n, deBits t bs = .ok (v, n) → minBits t ≤ n ∧ n % align t = 0

theorem deAll_len {t : Ty} {A : Nat} (h : ∀ bs v n, deBits t bs = .ok (v, n) → A ≤ n ∧ n % align t = 0) :
    ∀ (c : Nat) (bs : List Bool) (vs : List Val) (n : Nat), deAllWith (deBits t) c bs = .ok (vs, n) →
      c * A ≤ n ∧ n % align t = 0 := by
  intro c
  induction c with
  | zero => intro bs vs n hd; simp [deAllWith] at hd; simp [hd.2.symm]
  | succ c ih =>
    intro bs vs n hd
    simp only [deAllWith] at hd
    split at hd
    · cases hd
    · rename_i v n1 h1
      split at hd
      · cases hd
      · rename_i vs' m h2
        cases hd
        have a := h _ _ _ h1
        have b := ih _ _ _ h2
        rw [Nat.succ_mul]
        rcases align_cases t with hal | hal <;> rw [hal] at a b ⊢ <;> omega

theorem deFields_min {fs : List Ty} (ih : ∀ f ∈ fs, DeLenOK f) (hw : wfAll fs = true) :
    ∀ bs off vs e, deFields fs bs off = .ok (vs, e) → minFields fs off ≤ e := by
  induction fs with
  | nil => intro bs off vs e h; simp [deFields] at h; simp [minFields, h.2]
  | cons f fs ihf =>
    simp only [wfAll, Bool.and_eq_true] at hw
    intro bs off vs e h
    simp only [deFields] at h
    split at h
    · cases h
    · rename_i v n h1
      split at h
      · cases h
      · rename_i vs' e' h2
        cases h
        have a := ih f (by simp) hw.1 _ _ _ h1
        have b := ihf (fun g hg => ih g (List.mem_cons_of_mem _ hg)) hw.2 _ _ _ _ h2
        have c := minFields_mono fs (show padTo (align f) off + minBits f ≤ padTo (align f) off + n by omega)
        simp only [minFields]
        omega

theorem deNth_min {fs : List Ty} (ih : ∀ f ∈ fs, DeLenOK f) (hw : wfAll fs = true) :
    ∀ k bs v n, deNth fs k bs = .ok (v, n) → minOpts fs ≤ n := by
  induction fs with
  | nil => intro k bs v n h; simp [deNth] at h
  | cons f fs ihf =>
    simp only [wfAll, Bool.and_eq_true] at hw
    intro k bs v n h
    cases k with
    | zero =>
      simp only [deNth] at h
      have a := ih f (by simp) hw.1 _ _ _ h
      simp only [minOpts]
      split <;> omega
    | succ k =>
      simp only [deNth] at h
      have b := ihf (fun g hg => ih g (List.mem_cons_of_mem _ hg)) hw.2 _ _ _ _ h
      simp only [minOpts]
      split
      · rename_i he
        cases fs with
        | nil => simp [deNth] at h
        | cons _ _ => simp at he
      · omega

theorem deLenOK (t : Ty) : DeLenOK t := by
  refine Ty.ind (P := DeLenOK) ?_ ?_ ?_ ?_ ?_ ?_ ?_ ?_ ?_ ?_ t
  · intro n m _ bs v k h; simp [deBits] at h; simp [minBits, align, h.2.symm, Nat.mod_one]
  · intro n m _ bs v k h; simp [deBits] at h; simp [minBits, align, h.2.symm, Nat.mod_one]
  · intro n m _ bs v k h; simp [deBits] at h; simp [minBits, align, h.2.symm, Nat.mod_one]
  · intro _ bs v k h; simp [deBits] at h; simp [minBits, align, h.2.symm]
  · intro n _ bs v k h; simp [deBits] at h; simp [minBits, align, h.2.symm, Nat.mod_one]
  · intro t c ih hw bs v n h
    simp only [wf] at hw
    simp only [deBits] at h
    split at h
    · cases h
    · rename_i vs used hd
      cases h
      have := deAll_len (ih hw) c bs vs n hd
      simpa [minBits, align] using this
  · intro t cap ih hw bs v n h
    simp only [wf, Bool.and_eq_true] at hw
    simp only [deBits] at h
    split at h
    · cases h
    · split at h
      · cases h
      · rename_i vs used hd
        cases h
        have a := deAll_len (ih hw.2) _ _ vs used hd
        have p8 := stdWidth_mod8 cap
        simp only [minBits, align, prefixBits] at a ⊢
        rcases align_cases t with hal | hal <;> rw [hal] at a ⊢ <;> omega
  · intro fs ih hw bs v n h
    simp only [wf] at hw
    simp only [deBits] at h
    split at h
    · cases h
    · rename_i vs off hd
      cases h
      have a := deFields_min ih hw _ _ _ _ hd
      have b := padTo_mono (Or.inr rfl : (8 : Nat) = 1 ∨ 8 = 8) a
      have c := padTo_mod (Or.inr rfl : (8 : Nat) = 1 ∨ 8 = 8) off
      simp only [minBits, align]
      exact ⟨b, c⟩
  · intro fs ih hw bs v n h
    simp only [wf, Bool.and_eq_true] at hw
    simp only [deBits] at h
    split at h
    · cases h
    · split at h
      · cases h
      · rename_i v' used hd
        cases h
        have a := deNth_min ih hw.2 _ _ _ _ hd
        have b := padTo_mono (Or.inr rfl : (8 : Nat) = 1 ∨ 8 = 8)
          (show tagBits fs.length + minOpts fs ≤ tagBits fs.length + used by omega)
        have c := padTo_mod (Or.inr rfl : (8 : Nat) = 1 ∨ 8 = 8) (tagBits fs.length + used)
        simp only [minBits, align]
        exact ⟨b, c⟩
  · intro e t _ _ bs v n h
    simp only [deBits] at h
    split at h
    · cases h
    · split at h
      · cases h
      · cases h
        simp only [minBits, align, headerBits]
        omega

end NunavutVerif.GenPy
