import NunavutVerif.Lemmas.GenPyDe
import NunavutVerif.Lemmas.GenPySerDelim
/-!
Refinement of the deserializer: structures, unions, sealed and delimited nesting, the induction over the type.
-/
namespace NunavutVerif.GenPy
open NunavutVerif.Dsdl
open NunavutVerif.Bits (Buf Err bitAt WF)
open NunavutVerif.Bits.Py

/-! ### structures -/

theorem deFields_spec (env : Env) (hs : EnvSound env) :
    ∀ (fs : List Ty), (∀ f ∈ fs, DeRef env f) → wfAll fs = true →
    ∀ (o : AOff) (d : De) (base off : Nat), d.off = base + off → base % 8 = 0 → WF d.buf → Sound o d.off →
      match deFields fs ((unpackBytes d.buf).drop base) off with
      | .ok (vs, e) => deFieldsPy env fs o d = .ok (vs, ⟨d.buf, base + e⟩)
      | .error er => deFieldsPy env fs o d = .error (.format er) := by
  intro fs
  induction fs with
  | nil =>
    intro _ _ o d base off hoff _ _ _
    simp only [deFields, deFieldsPy]
    cases d; simp_all
  | cons f fs ihf =>
    intro ih hw o d base off hoff hbase hwb hsound
    simp only [wfAll, Bool.and_eq_true] at hw
    have hpl : padLen (align f) d.off = padLen (align f) off := by
      rw [hoff]; exact padLen_add_base (align_cases f) hbase off
    have h1 := ih f (by simp) (o.pad (align f)) d hwb (hsound.pad (align_cases f))
    rw [hpl] at h1
    have hdrop : ((unpackBytes d.buf).drop base).drop (padTo (align f) off)
        = (unpackBytes d.buf).drop (d.off + padLen (align f) off) := by
      rw [List.drop_drop, hoff]; simp only [padTo, Nat.add_assoc]
    simp only [deFields, deFieldsPy, hdrop]
    cases hd : deBits f ((unpackBytes d.buf).drop (d.off + padLen (align f) off)) with
    | error e =>
      rw [hd] at h1
      simp only [DeMatch] at h1
      simp only [h1]
    | ok r =>
      obtain ⟨v, n⟩ := r
      rw [hd] at h1
      simp only [DeMatch] at h1
      have h2 := ihf (fun g hg => ih g (List.mem_cons_of_mem _ hg)) hw.2 ((o.pad (align f)).add (env.lr f))
        ⟨d.buf, d.off + padLen (align f) off + n⟩ base (padTo (align f) off + n)
        (by simp only [padTo]; omega) hbase hwb
        (by
          have := (hsound.pad (align_cases f)).add (l := env.lr f) (len := n)
            (fun r hr => (hs.lr f r hw.1 hr).2 _ _ _ hd)
          rw [hpl] at this
          exact this)
      simp only [h1]
      cases hrest : deFields fs ((unpackBytes d.buf).drop base) (padTo (align f) off + n) with
      | error e => rw [hrest] at h2; simp only [h2]
      | ok r2 => obtain ⟨vs, e⟩ := r2; rw [hrest] at h2; simp only [h2]

theorem ctorFields_of_deFields (env : Env) (hf : FloatSound env) :
    ∀ (fs : List Ty), wfAll fs = true → ∀ bs off vs e, deFields fs bs off = .ok (vs, e) →
      ctorFields env fs vs = true := by
  intro fs
  induction fs with
  | nil => intro _ bs off vs e h; simp [deFields] at h; simp [ctorFields]
  | cons f fs ih =>
    intro hw bs off vs e h
    simp only [wfAll, Bool.and_eq_true] at hw
    simp only [deFields] at h
    split at h
    · cases h
    · rename_i v n h1
      split at h
      · cases h
      · rename_i vs' e' h2
        cases h
        simp [ctorFields, ctorOK_of_deBits env hf hw.1 h1, ih hw.2 _ _ _ _ h2]

theorem structObj_de (env : Env) (hs : EnvSound env) (fs : List Ty) (ih : ∀ f ∈ fs, DeRef env f)
    (hw : wf (.struct fs) = true) : DeObjRef env (.struct fs) := by
  intro d hwb hal
  have hwa : wfAll fs = true := by simpa [wf] using hw
  have hf := deFields_spec env hs fs ih hwa (some 0) d d.off 0 rfl hal hwb (Sound.some_zero hal)
  simp only [deObj, deStructWith, deBits, show (d.off % 8 == 0) = true by simp [hal], assertThat_true, bind,
    Except.bind]
  cases hdf : deFields fs ((unpackBytes d.buf).drop d.off) 0 with
  | error e => rw [hdf] at hf; simp only [hf, DeMatch]
  | ok r =>
    obtain ⟨vs, e⟩ := r
    rw [hdf] at hf
    have hl := deLenOK (.struct fs) hw ((unpackBytes d.buf).drop d.off) (.struct vs) (padTo 8 e) (by
      simp [deBits, hdf])
    have hpl : padLen 8 (d.off + e) = padLen 8 e := padLen_add_base (Or.inr rfl) hal e
    have hassert : decide (minBits (.struct fs) ≤ d.off + e + padLen 8 e - d.off) = true := by
      simp only [decide_eq_true_eq, padTo] at hl ⊢; omega
    simp only [] at hf
    simp only [hf, ctorFields_of_deFields env hs.fl fs hwa _ _ _ _ hdf, if_true, dePad8_spec, hpl, hassert,
      assertThat_true]
    simp only [DeMatch, Nat.add_zero, padTo, Nat.add_assoc]

/-! ### unions -/

theorem deNth_spec (env : Env) :
    ∀ (fs : List Ty), (∀ f ∈ fs, DeRef env f) →
    ∀ (k : Nat) (o : AOff) (d : De), WF d.buf → d.off % 8 = 0 → Sound o d.off → k < fs.length →
      DeMatch (deNthPy env fs k o d) d 0 (deNth fs k ((unpackBytes d.buf).drop d.off)) := by
  intro fs
  induction fs with
  | nil => intro _ k _ _ _ _ _ hk; simp at hk
  | cons f fs ihf =>
    intro ih k o d hwb hal hsound hk
    have hpl : padLen (align f) d.off = 0 := by
      apply padLen_zero_of_mod (align_cases f)
      rcases align_cases f with h | h <;> rw [h] <;> omega
    cases k with
    | zero =>
      have h1 := ih f (by simp) o d hwb (by rw [hpl]; exact hsound)
      rw [hpl] at h1
      simpa [deNthPy, deNth] using h1
    | succ k =>
      simp only [deNthPy, deNth]
      exact ihf (fun g hg => ih g (List.mem_cons_of_mem _ hg)) k o d hwb hal hsound (by simpa using hk)

theorem ctorNth_of_deNth (env : Env) (hf : FloatSound env) :
    ∀ (fs : List Ty), wfAll fs = true → ∀ k bs v n, deNth fs k bs = .ok (v, n) → ctorNth env fs k v = true := by
  intro fs
  induction fs with
  | nil => intro _ k bs v n h; simp [deNth] at h
  | cons f fs ih =>
    intro hw k bs v n h
    simp only [wfAll, Bool.and_eq_true] at hw
    cases k with
    | zero => simp only [deNth] at h; simp [ctorNth, ctorOK_of_deBits env hf hw.1 h]
    | succ k => simp only [deNth] at h; simp only [ctorNth]; exact ih hw.2 _ _ _ _ h

theorem unionObj_de (env : Env) (hs : EnvSound env) (fs : List Ty) (ih : ∀ f ∈ fs, DeRef env f)
    (hw : wf (.union fs) = true) : DeObjRef env (.union fs) := by
  intro d hwb hal
  have hw' := hw
  simp only [wf, Bool.and_eq_true, decide_eq_true_eq] at hw'
  obtain ⟨⟨hn1, hn2⟩, hwa⟩ := hw'
  have htc := stdWidth_cases (fs.length - 1)
  have ht8 : tagBits fs.length % 8 = 0 := stdWidth_mod8 _
  have hint := deInt_spec true false (tagBits fs.length) d hwb (fun _ => hal) (by unfold tagBits; omega)
    (by intro h; cases h)
  simp only [Bool.false_eq_true, if_false, bitsAt] at hint
  simp only [deObj, deUnionWith, deBits, show (d.off % 8 == 0) = true by simp [hal], assertThat_true, bind,
    Except.bind, hint]
  generalize hk : readNat (tagBits fs.length) ((unpackBytes d.buf).drop d.off) = k
  simp only [Int.toNat_natCast, show (0 : Int) ≤ (k : Int) by omega, true_and]
  by_cases hlt : k < fs.length
  · simp only [hlt, if_true, show ¬ k ≥ fs.length by omega, if_false]
    have h2 := deNth_spec env fs ih k (some (tagBits fs.length % 8)) ⟨d.buf, d.off + tagBits fs.length⟩ hwb
      (by simp only []; omega) (by intro r hr; cases hr; simp only []; omega) hlt
    simp only [← List.drop_drop] at h2
    cases hdn : deNth fs k (((unpackBytes d.buf).drop d.off).drop (tagBits fs.length)) with
    | error e => rw [hdn] at h2; simp only [DeMatch] at h2 ⊢; simp only [h2]
    | ok r =>
      obtain ⟨v, used⟩ := r
      rw [hdn] at h2
      simp only [DeMatch] at h2
      have hdn' : deNth fs k ((unpackBytes d.buf).drop (d.off + tagBits fs.length)) = .ok (v, used) := by
        rw [← List.drop_drop]; exact hdn
      have hl := deLenOK (.union fs) hw ((unpackBytes d.buf).drop d.off) (.union k v)
        (padTo 8 (tagBits fs.length + used)) (by
          simp [deBits, hk, hdn', show ¬ k ≥ fs.length by omega])
      have hpl : padLen 8 (d.off + tagBits fs.length + used) = padLen 8 (tagBits fs.length + used) := by
        rw [Nat.add_assoc]; exact padLen_add_base (Or.inr rfl) hal _
      have hassert : decide (minBits (.union fs) ≤
          d.off + tagBits fs.length + used + padLen 8 (tagBits fs.length + used) - d.off) = true := by
        simp only [decide_eq_true_eq, padTo] at hl ⊢; omega
      simp only [Nat.add_zero] at h2
      simp only [h2, ctorNth_of_deNth env hs.fl fs hwa _ _ _ _ hdn, if_true, dePad8_spec, hpl, hassert,
        assertThat_true]
      simp only [DeMatch, Nat.add_zero, padTo, Nat.add_assoc]
  · simp only [hlt, if_false, show k ≥ fs.length by omega, if_true, DeMatch]

/-! ### sealed nesting -/

theorem nested_de (env : Env) (t : Ty) (hc : isComposite t = true) (hw : wf t = true) (hobj : DeObjRef env t)
    (heq : ∀ o d, deAny env t o d = deNested (deObj env t) d) : DeRef env t := by
  intro o d hwb _
  have hal8 := align_of_isComposite hc
  rw [hal8]
  have hal0 : (d.off + padLen 8 d.off) % 8 = 0 := by
    have := padTo_mod (Or.inr rfl : (8 : Nat) = 1 ∨ 8 = 8) d.off
    simpa [padTo] using this
  have h1 := hobj ⟨d.buf, d.off + padLen 8 d.off⟩ hwb hal0
  rw [heq]
  simp only [deNested, dePad_spec 8 (Or.inr rfl), bind, Except.bind]
  cases hd : deBits t ((unpackBytes d.buf).drop (d.off + padLen 8 d.off)) with
  | error e => rw [hd] at h1; simp only [DeMatch] at h1 ⊢; simp only [h1]
  | ok r =>
    obtain ⟨v, n⟩ := r
    rw [hd] at h1
    simp only [DeMatch, Nat.add_zero] at h1 ⊢
    have hl := deLenOK t hw _ _ _ hd
    rw [hal8] at hl
    have : ((d.off + padLen 8 d.off + n) % 8 == 0) = true := by simp; omega
    simp only [h1, this, assertThat_true]

/-! ### delimited nesting -/

theorem unpackBytes_take (buf : Buf) : ∀ k, unpackBytes (buf.take k) = (unpackBytes buf).take (8 * k) := by
  induction buf with
  | nil => intro k; simp [unpackBytes]
  | cons x xs ih =>
    intro k
    cases k with
    | zero => simp [unpackBytes]
    | succ k =>
      simp only [List.take_succ_cons, unpackBytes, ih]
      rw [List.take_append, natToBits_length]
      have : 8 * (k + 1) - 8 = 8 * k := by omega
      have e : (natToBits 8 x).take (8 * (k + 1)) = natToBits 8 x := List.take_of_length_le (by simp; omega)
      rw [this, e]

theorem unpackBytes_drop (buf : Buf) : ∀ k, unpackBytes (buf.drop k) = (unpackBytes buf).drop (8 * k) := by
  induction buf with
  | nil => intro k; simp [unpackBytes]
  | cons x xs ih =>
    intro k
    cases k with
    | zero => simp
    | succ k =>
      simp only [List.drop_succ_cons, unpackBytes, ih]
      rw [List.drop_append, natToBits_length]
      have : 8 * (k + 1) - 8 = 8 * k := by omega
      have e : (natToBits 8 x).drop (8 * (k + 1)) = [] := List.drop_of_length_le (by simp; omega)
      rw [this, e]
      simp

theorem delim_de (env : Env) (ext : Nat) (inner : Ty) (_hw : wf (.delim ext inner) = true)
    (hobj : DeObjRef env inner) : DeRef env (.delim ext inner) := by
  intro o d hwb _
  simp only [align]
  have hal0 : (d.off + padLen 8 d.off) % 8 = 0 := by
    have := padTo_mod (Or.inr rfl : (8 : Nat) = 1 ∨ 8 = 8) d.off
    simpa [padTo] using this
  obtain ⟨off0, hd0⟩ : ∃ x, x = d.off + padLen 8 d.off := ⟨_, rfl⟩
  rw [← hd0] at hal0 ⊢
  have hh := fetchAlignedU32_spec ⟨d.buf, off0⟩ hal0 hwb
  simp only [deField_eq ⟨d.buf, off0⟩ hwb, bitsAt] at hh
  simp only [deAny, deDelimWith, dePad_spec 8 (Or.inr rfl), ← hd0, bind, Except.bind, hh, lift, deBits, headerBits]
  obtain ⟨h, hk⟩ : ∃ h, readNat 32 ((unpackBytes d.buf).drop off0) = h := ⟨_, rfl⟩
  simp only [hk]
  have hrest : (((unpackBytes d.buf).drop off0).drop 32).length = d.buf.length * 8 - (off0 + 32) := by
    simp only [List.length_drop, unpackBytes_length]; omega
  rw [hrest]
  by_cases hbig : 8 * h > d.buf.length * 8 - (off0 + 32)
  · simp only [hbig, if_true, show h * 8 > d.buf.length * 8 - (off0 + 32) by omega, DeMatch]
  · simp only [hbig, if_false, show ¬ h * 8 > d.buf.length * 8 - (off0 + 32) by omega]
    -- the fork
    have hfork : forkDe ⟨d.buf, off0 + 32⟩ h =
        .ok ⟨(d.buf.drop (if h = 0 then min ((off0 + 32) / 8) d.buf.length else (off0 + 32) / 8)).take h, 0⟩ := by
      simp only [forkDe]
      rw [if_neg (by omega), if_neg (by omega), if_neg (by omega), if_neg (by split <;> omega)]
    -- the fork sees exactly the `8·h` bits the specification hands to the nested object
    have hview : unpackBytes ((d.buf.drop (if h = 0 then min ((off0 + 32) / 8) d.buf.length else (off0 + 32) / 8)).take h)
        = (((unpackBytes d.buf).drop off0).drop 32).take (8 * h) := by
      by_cases h0 : h = 0
      · subst h0; simp [unpackBytes]
      · rw [if_neg h0, unpackBytes_take, unpackBytes_drop, List.drop_drop]
        have : 8 * ((off0 + 32) / 8) = off0 + 32 := by omega
        rw [this]
    have hwn : WF ((d.buf.drop (if h = 0 then min ((off0 + 32) / 8) d.buf.length else (off0 + 32) / 8)).take h) :=
      WF_take (WF_drop hwb _) _
    have h2 := hobj ⟨_, 0⟩ hwn (by simp)
    simp only [List.drop_zero, hview] at h2
    simp only [hfork, deSkipBits]
    cases hdi : deBits inner ((((unpackBytes d.buf).drop off0).drop 32).take (8 * h)) with
    | error e => rw [hdi] at h2; simp only [DeMatch] at h2 ⊢; simp only [h2]
    | ok r =>
      obtain ⟨v, n⟩ := r
      rw [hdi] at h2
      simp only [DeMatch] at h2 ⊢
      have : ((off0 + 32 + h * 8) % 8 == 0) = true := by simp; omega
      simp only [h2, this, assertThat_true]
      rw [show off0 + 32 + h * 8 = off0 + (32 + 8 * h) by omega, hd0]

/-! ### all types -/

/-- **The deserializer refinement**: for every well-formed type, `_deserialize_any` (any cursor) and the class
method `_deserialize_` (byte-aligned cursor) return the specification's value and advance the cursor by the
specification's length; a specification error is the `FormatError` of that raise site; nothing else is raised. -/
theorem deRef_all (env : Env) (hs : EnvSound env) (t : Ty) :
    wf t = true → pyWf t = true → DeRef env t ∧ (isComposite t = true → DeObjRef env t) := by
  refine Ty.ind (P := fun t => wf t = true → pyWf t = true → DeRef env t ∧ (isComposite t = true → DeObjRef env t))
    ?_ ?_ ?_ ?_ ?_ ?_ ?_ ?_ ?_ ?_ t
  · -- uint
    intro n m hw _
    simp only [wf, decide_eq_true_eq] at hw
    refine ⟨?_, by simp [isComposite]⟩
    intro o d hwb hsound
    simp only [align, padLen_one, Nat.add_zero] at hsound ⊢
    have h := deInt_spec o.isAligned false n d hwb (fun h => hsound.aligned h) hw.1 (by intro h; cases h)
    simp only [Bool.false_eq_true, if_false, bitsAt] at h
    simp only [deAny, deIntVal, h, deBits, DeMatch, Nat.add_zero]
  · -- sint
    intro n m hw hpw
    simp only [wf, decide_eq_true_eq] at hw
    have hn2 : 2 ≤ n := by
      cases m <;> simp [pyWf] at hpw; exact hpw
    refine ⟨?_, by simp [isComposite]⟩
    intro o d hwb hsound
    simp only [align, padLen_one, Nat.add_zero] at hsound ⊢
    have h := deInt_spec o.isAligned true n d hwb (fun h => hsound.aligned h) hw.1 (fun _ => hn2)
    simp only [if_true, bitsAt] at h
    simp only [deAny, deIntVal, h, deBits, DeMatch, Nat.add_zero]
  · -- float
    intro n m hw _
    simp only [wf, decide_eq_true_eq] at hw
    refine ⟨?_, by simp [isComposite]⟩
    intro o d hwb hsound
    simp only [align, padLen_one, Nat.add_zero] at hsound ⊢
    have h := deFloat_spec env hs.fl o.isAligned n d hwb (fun h => hsound.aligned h) hw
    simp only [bitsAt] at h
    simp only [deAny, h, deBits, DeMatch, Nat.add_zero]
  · -- bool
    intro _ _
    refine ⟨?_, by simp [isComposite]⟩
    intro o d hwb hsound
    simp only [align, padLen_one, Nat.add_zero] at hsound ⊢
    have h := deBool_spec d hwb
    simp only [bitsAt] at h
    simp only [deAny, h, deBits, DeMatch, Nat.add_zero]
  · -- void
    intro n _ _
    refine ⟨?_, by simp [isComposite]⟩
    intro o d hwb hsound
    simp only [align, padLen_one, Nat.add_zero, deAny, deBits, DeMatch, deSkipBits]
  · -- fixed array
    intro t n ih hw hpw
    have hwt : wf t = true := by simpa [wf] using hw
    have hpt : pyWf t = true := by simpa [pyWf] using hpw
    exact ⟨fixedArr_de env hs t n hwt (ih hwt hpt).1, by simp [isComposite]⟩
  · -- variable array
    intro t cap ih hw hpw
    have hwt : wf t = true := by simp only [wf, Bool.and_eq_true] at hw; exact hw.2
    have hpt : pyWf t = true := by simpa [pyWf] using hpw
    exact ⟨varArr_de env hs t cap hw (ih hwt hpt).1, by simp [isComposite]⟩
  · -- struct
    intro fs ih hw hpw
    have hwa : wfAll fs = true := by simpa [wf] using hw
    have hpa : pyWfAll fs = true := by simpa [pyWf] using hpw
    have ihs : ∀ f ∈ fs, DeRef env f := fun f hf => (ih f hf (wfAll_mem hwa f hf) (pyWfAll_mem hpa f hf)).1
    have hobj := structObj_de env hs fs ihs hw
    exact ⟨nested_de env (.struct fs) rfl hw hobj (fun o d => by simp only [deAny]; rfl), fun _ => hobj⟩
  · -- union
    intro fs ih hw hpw
    have hwa : wfAll fs = true := by simp only [wf, Bool.and_eq_true] at hw; exact hw.2
    have hpa : pyWfAll fs = true := by simpa [pyWf] using hpw
    have ihs : ∀ f ∈ fs, DeRef env f := fun f hf => (ih f hf (wfAll_mem hwa f hf) (pyWfAll_mem hpa f hf)).1
    have hobj := unionObj_de env hs fs ihs hw
    exact ⟨nested_de env (.union fs) rfl hw hobj (fun o d => by simp only [deAny]; rfl), fun _ => hobj⟩
  · -- delimited
    intro e inner ih hw hpw
    have hw' := hw
    simp only [wf, Bool.and_eq_true, decide_eq_true_eq] at hw'
    have hpi : pyWf inner = true := by simpa [pyWf] using hpw
    exact ⟨delim_de env e inner hw ((ih hw'.2 hpi).2 hw'.1.1), by simp [isComposite]⟩

end NunavutVerif.GenPy
