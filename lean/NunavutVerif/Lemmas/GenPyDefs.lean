import NunavutVerif.Model.GenPy
/-!
Vocabulary of the refinement theorems (`Properties/C01RefinePy.lean`): the hypotheses on the oracles of
`Model/GenPy.lean`, the set of objects constructible through the generated classes, the types PyDSDL can produce,
and the mapping of specification errors to Python exception classes.
-/
namespace NunavutVerif.GenPy
open NunavutVerif.Dsdl
open NunavutVerif.Bits (Buf Err WF)
open NunavutVerif.Bits.Py

/-- the template's offset claim `o` is true of the concrete cursor `off` -/
def Sound (o : AOff) (off : Nat) : Prop := ∀ r, o = some r → off % 8 = r % 8

/-- **Soundness of the alignment oracle** (PyDSDL's `BitLengthSet` in reality): when it claims that every bit length
of `t` has residue `r` modulo 8, then every serialized representation of `t` has, and every decoded object of type
`t` occupies, a length of that residue. -/
def LrSound (lr : Ty → AOff) : Prop :=
  ∀ t r, wf t = true → lr t = some r →
    (∀ v bs, serBits t v = .ok bs → bs.length % 8 = r % 8) ∧
    (∀ bs v n, deBits t bs = .ok (v, n) → n % 8 = r % 8)

mutual
/-- Types PyDSDL produces, beyond `Dsdl.wf`: signed integers are saturated and at least 2 bits wide
(`add_*_signed` asserts `bit_length >= 2`; the truncated mode is rejected by the front end). -/
def pyWf : Ty → Bool
  | .sint n m => decide (2 ≤ n) && (match m with | .sat => true | .trunc => false)
  | .arr t _ => pyWf t
  | .varr t _ => pyWf t
  | .struct fs => pyWfAll fs
  | .union fs => pyWfAll fs
  | .delim _ inner => pyWf inner
  | _ => true
def pyWfAll : List Ty → Bool
  | [] => true
  | f :: fs => pyWf f && pyWfAll fs
end

mutual
/-- **The objects the generated classes admit** (C18): a scalar integer attribute lies in the DSDL range of its field
(the setter raises `ValueError` otherwise, whatever the cast mode); an integer array element lies in the range of
the array's NumPy dtype (`inArr = true`: the next standard width — elements are *not* range-checked against the
DSDL type, C18's known finding, so the serializer's saturation / truncation is exercised); a float is a binary64
pattern, inside a `float16`/`float32` array one that the dtype represents; a fixed array has its length.  Not
restricted, because the serializer itself must reject them: a variable array longer than its capacity, a union
object none of whose attributes is set (index ≥ option count). -/
def inDom : Bool → Ty → Val → Bool
  | inArr, .uint n _, .int i => decide (0 ≤ i ∧ i < (2 : Int) ^ (if inArr then storageBits n else n))
  | inArr, .sint n _, .int i =>
    decide (-((2 : Int) ^ ((if inArr then storageBits n else n) - 1)) ≤ i
      ∧ i < (2 : Int) ^ ((if inArr then storageBits n else n) - 1))
  | inArr, .float n _, .float x => decide (x < 2 ^ 64) && (!inArr || widen n (narrow n .trunc x) == x)
  | _, .bool, .bool _ => true
  | _, .void _, .void => true
  | _, .arr t n, .arr vs => vs.length == n && vs.all (inDom true t)
  | _, .varr t _, .arr vs => vs.all (inDom true t)
  | _, .struct fs, .struct vs => inDomFields fs vs
  | _, .union fs, .union k v => inDomNth fs k v
  | b, .delim _ inner, v => inDom b inner v
  | _, _, _ => false
def inDomFields : List Ty → List Val → Bool
  | [], [] => true
  | f :: fs, v :: vs => inDom false f v && inDomFields fs vs
  | _, _ => false
def inDomNth : List Ty → Nat → Val → Bool
  | [], _, _ => true
  | f :: _, 0, v => inDom false f v
  | _ :: fs, k + 1, v => inDomNth fs k v
end

/-- Python exception class of a specification error of serialization: an over-long array fails the emitted
`assert len(x) <= cap` (`AssertionError`), a union object with no attribute set reaches
`raise RuntimeError('Malformed union …')`. -/
def excOf : SerErr → Exc
  | .badArrayLength => .assertion
  | .badUnionTag => .malformedUnion
  | .illTyped => .shape
  | .bufferTooSmall => .shape

/-- **Laws of CPython's float operations** the emitted float code relies on: the saturation text followed by
`struct.pack` with the `OverflowError` fallback yields the specification's narrowing (IEEE round to nearest even;
saturated: finite values beyond ±max become ±max; truncated: overflow to ±inf); `struct.unpack` widens exactly; a
decoded float passes the range check of the generated setter. -/
structure FloatSound (env : Env) : Prop where
  wire : ∀ n m x, (n = 16 ∨ n = 32 ∨ n = 64) → x < 2 ^ 64 → floatWire env n m x = .ok (narrow n m x)
  unpack : ∀ n w, (n = 16 ∨ n = 32 ∨ n = 64) → w < 2 ^ n → env.unpack n w = widen n w
  ctor : ∀ n w, (n = 16 ∨ n = 32 ∨ n = 64) → w < 2 ^ n → floatCtorOK env n (widen n w) = true

/-- **Laws of NumPy** for arrays of standard-width primitives on a little-endian host: the memory of the array
(`x.view(Byte)`) is the concatenation of the little-endian two's complement / IEEE-754 encodings of its elements —
which is what the specification's `serBits` of a standard-width primitive is —, and `frombuffer` is the inverse. -/
structure NpSound (env : Env) : Prop where
  view : ∀ t vs, isStdPrim t = true → wf t = true → (∀ v ∈ vs, inDom true t v = true) →
    ∃ bytes, env.viewBytes t vs = some bytes ∧ WF bytes ∧ bytes.length = vs.length * (primBits t / 8) ∧
      serAllWith (serBits t) vs = .ok (unpackBytes bytes)
  frombuffer : ∀ t bytes count, isStdPrim t = true → wf t = true → WF bytes →
    bytes.length = count * (primBits t / 8) →
    deAllWith (deBits t) count (unpackBytes bytes) = .ok (env.fromBuffer t bytes count, count * primBits t)

/-- everything the refinement theorems assume about the environment -/
structure EnvSound (env : Env) : Prop where
  lr : LrSound env.lr
  fl : FloatSound env
  np : NpSound env

end NunavutVerif.GenPy
