import NunavutVerif.Lemmas.DsdlRoundTrip
/-!
Cast adjustment laws of the DSDL specification model: the adjusted value serializes to the same bits
(re-serialization is identical) and adjusting twice is adjusting once.
-/
namespace NunavutVerif.Dsdl

def ReOK (t : Ty) : Prop := wf t = true → ∀ v, serBits t (castAdjust t v) = serBits t v

def IdemOK (t : Ty) : Prop := wf t = true → ∀ v, castAdjust t (castAdjust t v) = castAdjust t v

@[simp] theorem adjAll_length (t : Ty) (vs : List Val) : (List.map (castAdjust t) vs).length = vs.length := by
  induction vs with
  | nil => simp [List.map]
  | cons v vs ih => simp [List.map, ih]

theorem serAll_adj {t : Ty} (h : ∀ v, serBits t (castAdjust t v) = serBits t v) (vs : List Val) :
    serAllWith (serBits t) (List.map (castAdjust t) vs) = serAllWith (serBits t) vs := by
  induction vs with
  | nil => simp [List.map]
  | cons v vs ih => simp only [List.map, serAllWith, h, ih]

theorem adjAll_idem {t : Ty} (h : ∀ v, castAdjust t (castAdjust t v) = castAdjust t v) (vs : List Val) :
    List.map (castAdjust t) (List.map (castAdjust t) vs) = List.map (castAdjust t) vs := by
  induction vs with
  | nil => simp [List.map]
  | cons v vs ih => simp only [List.map, h, ih]

theorem serFields_adj {fs : List Ty} (ih : ∀ f ∈ fs, ReOK f) (hw : wfAll fs = true) :
    ∀ vs off, serFields fs (adjFields fs vs) off = serFields fs vs off := by
  induction fs with
  | nil => intro vs off; cases vs <;> simp [adjFields]
  | cons f fs ihf =>
    intro vs off
    simp only [wfAll, Bool.and_eq_true] at hw
    cases vs with
    | nil => simp [adjFields]
    | cons v vs =>
      simp only [adjFields, serFields, ih f (List.mem_cons_self ..) hw.1 v]
      split
      · rfl
      · rw [ihf (fun g hg => ih g (List.mem_cons_of_mem _ hg)) hw.2]

theorem adjFields_idem {fs : List Ty} (ih : ∀ f ∈ fs, IdemOK f) (hw : wfAll fs = true) :
    ∀ vs, adjFields fs (adjFields fs vs) = adjFields fs vs := by
  induction fs with
  | nil => intro vs; cases vs <;> simp [adjFields]
  | cons f fs ihf =>
    intro vs
    simp only [wfAll, Bool.and_eq_true] at hw
    cases vs with
    | nil => simp [adjFields]
    | cons v vs =>
      simp only [adjFields, ih f (List.mem_cons_self ..) hw.1 v,
        ihf (fun g hg => ih g (List.mem_cons_of_mem _ hg)) hw.2]

theorem serNth_adj {fs : List Ty} (ih : ∀ f ∈ fs, ReOK f) (hw : wfAll fs = true) :
    ∀ k v, serNth fs k (adjNth fs k v) = serNth fs k v := by
  induction fs with
  | nil => intro k v; simp [serNth]
  | cons f fs ihf =>
    intro k v
    simp only [wfAll, Bool.and_eq_true] at hw
    cases k with
    | zero => simpa [serNth, adjNth] using ih f (List.mem_cons_self ..) hw.1 v
    | succ k =>
      simpa [serNth, adjNth] using ihf (fun g hg => ih g (List.mem_cons_of_mem _ hg)) hw.2 k v

theorem adjNth_idem {fs : List Ty} (ih : ∀ f ∈ fs, IdemOK f) (hw : wfAll fs = true) :
    ∀ k v, adjNth fs k (adjNth fs k v) = adjNth fs k v := by
  induction fs with
  | nil => intro k v; simp [adjNth]
  | cons f fs ihf =>
    intro k v
    simp only [wfAll, Bool.and_eq_true] at hw
    cases k with
    | zero => simpa [adjNth] using ih f (List.mem_cons_self ..) hw.1 v
    | succ k =>
      simpa [adjNth] using ihf (fun g hg => ih g (List.mem_cons_of_mem _ hg)) hw.2 k v

theorem reOK (t : Ty) : ReOK t := by
  refine Ty.ind (P := ReOK) ?_ ?_ ?_ ?_ ?_ ?_ ?_ ?_ ?_ ?_ t
  · intro n m _ v
    cases v <;> simp [castAdjust, serBits, castU_idem]
  · intro n m hw v
    simp only [wf, decide_eq_true_eq] at hw
    cases v <;> simp [castAdjust, serBits, castS_idem hw.1]
  · intro n m hw v
    simp only [wf, decide_eq_true_eq] at hw
    cases v <;> simp [castAdjust, serBits, narrow_widen_narrow hw]
  · intro _ v; cases v <;> simp [castAdjust]
  · intro n _ v; cases v <;> simp [castAdjust]
  · intro t n ih hw v
    simp only [wf] at hw
    cases v <;> simp [castAdjust, serBits, serAll_adj (ih hw)]
  · intro t cap ih hw v
    simp only [wf, Bool.and_eq_true] at hw
    cases v <;> simp [castAdjust, serBits, serAll_adj (ih hw.2)]
  · intro fs ih hw v
    simp only [wf] at hw
    cases v <;> simp [castAdjust, serBits, serFields_adj ih hw]
  · intro fs ih hw v
    simp only [wf, Bool.and_eq_true] at hw
    cases v <;> simp [castAdjust, serBits, serNth_adj ih hw.2]
  · intro e t ih hw v
    simp only [wf, Bool.and_eq_true] at hw
    simp only [castAdjust, serBits, ih hw.2 v]

theorem idemOK (t : Ty) : IdemOK t := by
  refine Ty.ind (P := IdemOK) ?_ ?_ ?_ ?_ ?_ ?_ ?_ ?_ ?_ ?_ t
  · intro n m _ v
    cases v <;> simp [castAdjust, castU_idem]
  · intro n m hw v
    simp only [wf, decide_eq_true_eq] at hw
    cases v <;> simp [castAdjust, castS_idem hw.1]
  · intro n m hw v
    simp only [wf, decide_eq_true_eq] at hw
    cases v <;> simp [castAdjust, narrow_widen_narrow hw]
  · intro _ v; cases v <;> simp [castAdjust]
  · intro n _ v; cases v <;> simp [castAdjust]
  · intro t n ih hw v
    simp only [wf] at hw
    cases v <;> simp [castAdjust, adjAll_idem (ih hw)]
  · intro t cap ih hw v
    simp only [wf, Bool.and_eq_true] at hw
    cases v <;> simp [castAdjust, adjAll_idem (ih hw.2)]
  · intro fs ih hw v
    simp only [wf] at hw
    cases v <;> simp [castAdjust, adjFields_idem ih hw]
  · intro fs ih hw v
    simp only [wf, Bool.and_eq_true] at hw
    cases v <;> simp [castAdjust, adjNth_idem ih hw.2]
  · intro e t ih hw v
    simp only [wf, Bool.and_eq_true] at hw
    simp only [castAdjust, ih hw.2 v]

end NunavutVerif.Dsdl
