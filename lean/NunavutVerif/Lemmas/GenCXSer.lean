import NunavutVerif.Lemmas.GenCXDe
import NunavutVerif.Lemmas.GenCSer
/-!
GenCX, part 4: the address- and override-aware serializer simulates `serializeC` (structural induction over `Ty`, no
typing hypotheses).  Besides `Sim` every step carries "the plain function keeps the buffer's size": the invariant
that the buffer pointer and its `cap` bytes lie inside the user's buffer speaks about the *current* buffer.
-/
namespace NunavutVerif.GenC
open NunavutVerif.Dsdl NunavutVerif.Bits

/-- simulation + the plain result (if any) has a buffer of `L` bytes -/
def SimW (B : Prop) (L : Nat) (rX r : Except Err W) : Prop :=
  Sim B rX r ∧ ∀ b off', r = .ok (b, off') → b.length = L

/-! ### the plain functions keep the size of the buffer -/

theorem chk_ok_inv {r : Except Bits.Err (Int × Buf)} {b : Buf} (h : chk r = .ok b) : ∃ c, r = .ok (c, b) := by
  unfold chk at h
  cases r with
  | error e => simp at h
  | ok p =>
    obtain ⟨c, b'⟩ := p
    simp only at h
    split at h
    · simp at h
    · simp only [Except.ok.injEq] at h
      exact ⟨c, by rw [h]⟩

theorem setUxx_length {little : Bool} {buf : Buf} {cap off v len : Nat} {c : Int} {b : Buf}
    (h : setUxx little buf cap off v len = .ok (c, b)) : b.length = buf.length := by
  unfold setUxx at h
  split at h
  · simp only [Except.ok.injEq, Prod.mk.injEq] at h
    rw [← h.2]
  · simp only [bind, Except.bind] at h
    split at h
    · simp at h
    · rename_i r hc
      simp only [Except.ok.injEq, Prod.mk.injEq] at h
      rw [← h.2]
      exact (copyBits_ok_inv hc).1

theorem chk_setUxx_length {little : Bool} {buf : Buf} {cap off v len : Nat} {b : Buf}
    (h : chk (setUxx little buf cap off v len) = .ok b) : b.length = buf.length := by
  obtain ⟨c, hc⟩ := chk_ok_inv h
  exact setUxx_length hc

/-- one buffer-writing step followed by `offset_bits += k` -/
theorem step_length {x : Except Err Buf} {k L : Nat} (hx : ∀ b, x = .ok b → b.length = L) {b : Buf} {off' : Nat}
    (h : (match x with | Except.error e => (Except.error e : Except Err W) | Except.ok b => Except.ok (b, k)) = Except.ok (b, off')) :
    b.length = L := by
  cases x with
  | error e => simp at h
  | ok b' =>
    simp only [Except.ok.injEq, Prod.mk.injEq] at h
    rw [← h.1]
    exact hx b' rfl

theorem serVoid_length {o : Opts} {n cap : Nat} {d : AOff} {buf : Buf} {off : Nat} {b : Buf} {off' : Nat}
    (h : serVoid o n cap d buf off = .ok (b, off')) : b.length = buf.length := by
  unfold serVoid at h
  split at h
  · split at h
    · exact step_length (fun b hb => (set?_ok_inv (liftP_ok hb)).2) h
    · exact step_length (fun b hb => memset0_ok_length _ _ _ _ (liftP_ok hb)) h
  · exact step_length (fun b hb => chk_setUxx_length hb) h

theorem serBool_length {o : Opts} {v : Bool} {d : AOff} {buf : Buf} {off : Nat} {b : Buf} {off' : Nat}
    (h : serBool o v d buf off = .ok (b, off')) : b.length = buf.length := by
  unfold serBool at h
  split at h
  · exact step_length (fun b hb => (set?_ok_inv (liftP_ok hb)).2) h
  · split at h
    · simp at h
    · exact step_length (fun b hb => (set?_ok_inv (liftP_ok hb)).2) h

theorem serInt_length {o : Opts} {signed : Bool} {n Wd : Nat} {sat : Bool} {v : Int} {cap : Nat} {d : AOff} {buf : Buf}
    {off : Nat} {b : Buf} {off' : Nat}
    (h : serInt o signed n Wd sat v cap d buf off = .ok (b, off')) : b.length = buf.length := by
  unfold serInt at h
  simp only at h
  split at h
  · exact step_length (fun b hb => (set?_ok_inv (liftP_ok hb)).2) h
  · split at h
    · exact step_length (fun b hb => (memmove_ok_inv _ _ _ _ _ _ (liftP_ok hb)).1) h
    · refine step_length (fun b hb => ?_) h
      split at hb
      · exact chk_setUxx_length hb
      · exact chk_setUxx_length hb

theorem serFloat_length {o : Opts} {n : Nat} {m : Cast} {x cap : Nat} {d : AOff} {buf : Buf}
    {off : Nat} {b : Buf} {off' : Nat}
    (h : serFloat o n m x cap d buf off = .ok (b, off')) : b.length = buf.length := by
  unfold serFloat at h
  simp only at h
  split at h
  · exact step_length (fun b hb => (memmove_ok_inv _ _ _ _ _ _ (liftP_ok hb)).1) h
  · exact step_length (fun b hb => chk_setUxx_length hb) h

theorem assertC_ok_inv {α : Type} {o : Opts} {c : Prop} [Decidable c] {k : Except Err α} {a : α}
    (h : assertC o c k = .ok a) : k = .ok a := by
  unfold assertC at h
  split at h
  · simp at h
  · exact h

theorem padSer_length {o : Opts} {n cap : Nat} {buf : Buf} {off : Nat} {b : Buf} {off' : Nat}
    (h : padSer o n cap buf off = .ok (b, off')) : b.length = buf.length := by
  unfold padSer at h
  split at h
  · have h1 := assertC_ok_inv h
    cases hc : chk (setUxx o.little buf cap off 0 ((n - off % n) % 256)) with
    | error e => rw [hc] at h1; simp at h1
    | ok b1 =>
      rw [hc] at h1
      have h2 := assertC_ok_inv h1
      simp only [Except.ok.injEq, Prod.mk.injEq] at h2
      rw [← h2.1]
      exact chk_setUxx_length hc
  · simp only [Except.ok.injEq, Prod.mk.injEq] at h
    rw [← h.1]

/-! ### simulation of the field macros -/

section
variable {o : Opts} {X : Ext} {b0 L0 : Nat} {B : Prop}

theorem stepX_simW (xX x : Except Err Buf) (k L : Nat) : Sim B xX x → (∀ b, x = .ok b → b.length = L) →
    SimW B L (match xX with | Except.error e => (Except.error e : Except Err W) | Except.ok b => Except.ok (b, k))
      (match x with | Except.error e => (Except.error e : Except Err W) | Except.ok b => Except.ok (b, k)) := by
  intro hs hx
  refine ⟨?_, fun b off' h => step_length hx h⟩
  sim_same hs

theorem simW_refl {L : Nat} {r : Except Err W} (h : ∀ b off', r = .ok (b, off') → b.length = L) : SimW B L r r :=
  ⟨Sim.rfl', h⟩

theorem padSerX_simW (hfx : X.fixed = true) (hp : Placed X b0 L0) (pb n cap : Nat) (buf : Buf) (off : Nat)
    (hi : InvS o X b0 L0 pb buf.length cap) :
    SimW B buf.length (padSerX o X pb n cap buf off) (padSer o n cap buf off) := by
  refine ⟨?_, fun b off' h => padSer_length h⟩
  unfold padSerX padSer
  split
  · simp only
    apply assertC_sim
    rcases setUxxX_sim (B := B) hfx hp pb buf cap off 0 ((n - off % n) % 256) hi with hh | ⟨hB, hh⟩ | ⟨e, hh⟩
    · rw [hh]; exact Sim.rfl'
    · rw [hh]; exact Or.inr (Or.inl ⟨hB, rfl⟩)
    · rw [hh]; exact Or.inr (Or.inr ⟨e, rfl⟩)
  · exact Sim.rfl'

theorem serVoidX_simW (hfx : X.fixed = true) (hp : Placed X b0 L0) (pb n cap : Nat) (d : AOff) (buf : Buf) (off : Nat)
    (hi : InvS o X b0 L0 pb buf.length cap) :
    SimW B buf.length (serVoidX o X pb n cap d buf off) (serVoid o n cap d buf off) := by
  refine ⟨?_, fun b off' h => serVoid_length h⟩
  unfold serVoidX
  split
  · exact Sim.rfl'
  · rename_i h
    have : serVoid o n cap d buf off = (match chk (setUxx o.little buf cap off 0 n) with
        | .error e => .error e
        | .ok b => .ok (b, off + n)) := by
      unfold serVoid
      simp only [h]
      rfl
    rw [this]
    sim_same (setUxxX_sim (B := B) hfx hp pb buf cap off 0 n hi)

theorem serIntX_simW (hfx : X.fixed = true) (hp : Placed X b0 L0) (pb : Nat) (signed : Bool) (n Wd : Nat) (sat : Bool)
    (v : Int) (cap : Nat) (d : AOff) (buf : Buf) (off : Nat) (hi : InvS o X b0 L0 pb buf.length cap) :
    SimW B buf.length (serIntX o X pb signed n Wd sat v cap d buf off) (serInt o signed n Wd sat v cap d buf off) := by
  refine ⟨?_, fun b off' h => serInt_length h⟩
  unfold serIntX
  split
  · exact Sim.rfl'
  · rename_i h1
    split
    · exact Sim.rfl'
    · rename_i h2
      have : serInt o signed n Wd sat v cap d buf off =
          (match chk (setUxx o.little buf cap off (toU64 (if sat = true ∧ ¬ isStd n = true then satInt signed n v else v)) n) with
          | .error e => .error e
          | .ok b => .ok (b, off + n)) := by
        unfold serInt
        simp only [h1, h2, if_false]
        cases signed <;> rfl
      rw [this]
      simp only []
      sim_same (setUxxX_sim (B := B) hfx hp pb buf cap off
        (toU64 (if sat = true ∧ ¬ isStd n = true then satInt signed n v else v)) n hi)

theorem serFloatX_simW (hfx : X.fixed = true) (hp : Placed X b0 L0) (pb n : Nat) (m : Cast) (x cap : Nat) (d : AOff)
    (buf : Buf) (off : Nat) (hi : InvS o X b0 L0 pb buf.length cap) :
    SimW B buf.length (serFloatX o X pb n m x cap d buf off) (serFloat o n m x cap d buf off) := by
  refine ⟨?_, fun b off' h => serFloat_length h⟩
  unfold serFloatX
  split
  · exact Sim.rfl'
  · rename_i h1
    have : serFloat o n m x cap d buf off = (match chk (setUxx o.little buf cap off (floatBits n m x) n) with
        | .error e => .error e
        | .ok b => .ok (b, off + n)) := by
      unfold serFloat
      simp only [h1, if_false]
      rfl
    rw [this]
    sim_same (setUxxX_sim (B := B) hfx hp pb buf cap off (floatBits n m x) n hi)

theorem copyInX_sim (hfx : X.fixed = true) (hp : Placed X b0 L0) (pb : Nat) (buf : Buf) (off len : Nat) (src : Buf)
    (cap : Nat) (hi : InvS o X b0 L0 pb buf.length cap) :
    Sim B (copyInX o X pb buf off len src) (liftP (copyBits buf off len src 0)) := by
  unfold copyInX
  by_cases hact : o.asserts = true ∧ X.addrs = true
  · obtain ⟨h0, h1, h2, h3⟩ := hi hact.1 hact.2
    cases hc : copyBits buf off len src 0 with
    | error e => exact Or.inr (Or.inr ⟨e, by simp [liftP]⟩)
    | ok r =>
      have hinv := (copyBits_ok_inv hc).2
      have hd := hp .memSrc pb off src.length
      have := (copyAsserts_ok X hfx pb (X.adr .memSrc pb off src.length) off len src.length b0 L0 hd h0
        (fun hl => by have := hinv hl; omega) (Or.inl (ne_of_inside hd h0 (by omega)))).1
      rw [cpGuard_pass this]
      exact Sim.rfl'
  · rw [cpGuard_inactive hact]
    exact Sim.rfl'

/-! ### arrays -/

theorem serLoop_simW {L : Nat} {elemX elem : Val → Buf → Nat → Except Err W}
    (he : ∀ v b f, b.length = L → SimW B L (elemX v b f) (elem v b f)) :
    ∀ (vs : List Val) (b : Buf) (f : Nat), b.length = L → SimW B L (serLoop elemX vs b f) (serLoop elem vs b f) := by
  intro vs
  induction vs with
  | nil =>
    intro b f hb
    exact ⟨Sim.rfl', fun b' o' h => by simp only [serLoop, Except.ok.injEq, Prod.mk.injEq] at h; rw [← h.1]; exact hb⟩
  | cons v vs ih =>
    intro b f hb
    simp only [serLoop]
    obtain ⟨h1, h2⟩ := he v b f hb
    rcases h1 with hh | ⟨hB, hh⟩ | ⟨e, hh⟩
    · rw [hh]
      cases hr : elem v b f with
      | error e => exact ⟨Sim.rfl', fun _ _ h => by cases h⟩
      | ok w =>
        obtain ⟨b1, o1⟩ := w
        exact ih b1 o1 (h2 b1 o1 hr)
    · rw [hh]
      refine ⟨Or.inr (Or.inl ⟨hB, rfl⟩), fun b' o' h => ?_⟩
      cases hr : elem v b f with
      | error e => rw [hr] at h; cases h
      | ok w =>
        obtain ⟨b1, o1⟩ := w
        rw [hr] at h
        exact (ih b1 o1 (h2 b1 o1 hr)).2 b' o' h
    · rw [hh]
      exact ⟨Or.inr (Or.inr ⟨e, rfl⟩), fun _ _ h => by cases h⟩

theorem elemRep_length (t : Ty) (v : Val) : (elemRep t v).length = primBits t / 8 := by
  cases t <;> cases v <;> simp [elemRep, primBits, length_objRepLE]

theorem flatMap_elemRep_length (t : Ty) (vs : List Val) : (vs.flatMap (elemRep t)).length = vs.length * (primBits t / 8) := by
  induction vs with
  | nil => simp
  | cons v vs ih =>
    simp only [List.flatMap_cons, List.length_append, List.length_cons, elemRep_length, ih]
    rw [Nat.add_mul]
    omega

theorem zeroCost_prim_mod8 {t : Ty} (hz : zeroCost o t = true) : primBits t % 8 = 0 := by
  cases t <;> simp [zeroCost, isStd, primBits] at hz ⊢
  all_goals (rcases hz.2 with h | h <;> try (rcases h with h | h) <;> try (rcases h with h | h)) <;> omega

/-- the bulk copy of a zero-cost array does not depend on the declared capacity of the member array -/
theorem copy_arrRep_storN (t : Ty) (hz : zeroCost o t = true) (buf : Buf) (off : Nat) (vs : List Val) (s' s : Nat) :
    copyBits buf off (vs.length * primBits t) (arrRep t vs s') 0 =
      copyBits buf off (vs.length * primBits t) (arrRep t vs s) 0 := by
  unfold arrRep padRight
  apply copyBits_src_prefix
  rw [flatMap_elemRep_length]
  have := zeroCost_prim_mod8 hz
  have e : 8 * (primBits t / 8) = primBits t := by omega
  rw [Nat.mul_comm 8, Nat.mul_assoc, Nat.mul_comm _ 8, e]
  exact Nat.le_refl _

theorem serElemsX_nonbool (pb : Nat) (t : Ty) (ht : t ≠ .bool) (elem : Val → Buf → Nat → Except Err W)
    (vs : List Val) (storN : Nat) (post : Option (Nat × Nat)) (buf : Buf) (off : Nat) :
    serElemsX o X pb t elem vs storN post buf off =
      if zeroCost o t then
        match copyInX o X pb buf off (vs.length * primBits t) (arrRep t vs storN) with
        | .error e => .error e
        | .ok b => .ok (b, off + vs.length * primBits t)
      else
        match serLoop elem vs buf off with
        | .error e => .error e
        | .ok (b, off') => assertC o (inRange (off' - off) post = true) (.ok (b, off')) := by
  cases t <;> first | exact absurd rfl ht | rfl

theorem serElemsX_simW (hfx : X.fixed = true) (hp : Placed X b0 L0) (pb : Nat) (t : Ty)
    {elemX elem : Val → Buf → Nat → Except Err W} (vs : List Val) (s' s : Nat) (hs : t = .bool → s' = s)
    (post : Option (Nat × Nat)) (buf : Buf) (off cap : Nat) (hi : InvS o X b0 L0 pb buf.length cap)
    (he : ∀ v b f, b.length = buf.length → SimW B buf.length (elemX v b f) (elem v b f)) :
    SimW B buf.length (serElemsX o X pb t elemX vs s' post buf off) (serElems o t elem vs s post buf off) := by
  by_cases hb : t = .bool
  · subst hb
    rw [hs rfl]
    simp only [serElemsX, serElems]
    exact stepX_simW _ _ _ _ (copyInX_sim hfx hp pb buf off vs.length (bitRep vs s) cap hi)
      (fun b hb => (copyBits_ok_inv (liftP_ok hb)).1)
  · rw [serElemsX_nonbool pb t hb, serElems_nonbool o t hb]
    split
    · rename_i hz
      rw [← copy_arrRep_storN (o := o) t hz buf off vs s' s]
      exact stepX_simW _ _ _ _ (copyInX_sim hfx hp pb buf off (vs.length * primBits t) (arrRep t vs s') cap hi)
        (fun b hb => (copyBits_ok_inv (liftP_ok hb)).1)
    · obtain ⟨h1, h2⟩ := serLoop_simW he vs buf off rfl
      rcases h1 with hh | ⟨hB, hh⟩ | ⟨e, hh⟩
      · rw [hh]
        refine ⟨Sim.rfl', fun b' o' h => ?_⟩
        cases hr : serLoop elem vs buf off with
        | error e => rw [hr] at h; cases h
        | ok w =>
          obtain ⟨b1, o1⟩ := w
          rw [hr] at h
          have := assertC_ok_inv h
          simp only [Except.ok.injEq, Prod.mk.injEq] at this
          rw [← this.1]
          exact h2 b1 o1 hr
      · rw [hh]
        refine ⟨Or.inr (Or.inl ⟨hB, rfl⟩), fun b' o' h => ?_⟩
        cases hr : serLoop elem vs buf off with
        | error e => rw [hr] at h; cases h
        | ok w =>
          obtain ⟨b1, o1⟩ := w
          rw [hr] at h
          have := assertC_ok_inv h
          simp only [Except.ok.injEq, Prod.mk.injEq] at this
          rw [← this.1]
          exact h2 b1 o1 hr
      · rw [hh]
        exact ⟨Or.inr (Or.inr ⟨e, rfl⟩), fun _ _ h => by cases h⟩

/-! ### nested calls and the function skeleton -/

/-- at the entry of a generated function: as `InvS` without `0 < cap` (established by the up-front check) -/
def InvF (o : Opts) (X : Ext) (b0 L0 pb : Nat) (len cap : Nat) : Prop :=
  o.asserts = true → X.addrs = true → b0 ≤ pb ∧ pb + len ≤ b0 + L0 ∧ cap ≤ len

theorem assertC_simW {L : Nat} (c : Prop) [Decidable c] {kX k : Except Err W}
    (h : (o.asserts = true → c) → SimW B L kX k) : SimW B L (assertC o c kX) (assertC o c k) := by
  unfold assertC
  by_cases hc : o.asserts = true ∧ ¬ c
  · simp only [hc, not_false_eq_true, and_self, if_true]
    exact ⟨Sim.rfl', fun _ _ h => by cases h⟩
  · simp only [hc, if_false]
    apply h
    intro ha
    by_cases hcc : c
    · exact hcc
    · exact absurd ⟨ha, hcc⟩ hc

theorem simW_of_sim {L : Nat} {rX r : Except Err W} (h1 : Sim B rX r) (h2 : ∀ b off', r = .ok (b, off') → b.length = L) :
    SimW B L rX r := ⟨h1, h2⟩

/-- continue after a step whose plain result is known to keep the size -/
theorem simW_bind {L : Nat} {fX f : Except Err W} {kX k : Buf → Nat → Except Err W} : SimW B L fX f →
    (∀ b off', b.length = L → SimW B L (kX b off') (k b off')) →
    SimW B L (match fX with | Except.error e => Except.error e | Except.ok (b, off') => kX b off')
      (match f with | Except.error e => Except.error e | Except.ok (b, off') => k b off') := by
  intro h hk
  obtain ⟨h1, h2⟩ := h
  rcases h1 with hh | ⟨hB, hh⟩ | ⟨e, hh⟩
  · rw [hh]
    cases hr : f with
    | error e => exact ⟨Sim.rfl', fun _ _ h => by cases h⟩
    | ok w =>
      obtain ⟨b1, o1⟩ := w
      exact hk b1 o1 (h2 b1 o1 hr)
  · rw [hh]
    refine ⟨Or.inr (Or.inl ⟨hB, rfl⟩), fun b' o' h => ?_⟩
    cases hr : f with
    | error e => rw [hr] at h; cases h
    | ok w =>
      obtain ⟨b1, o1⟩ := w
      rw [hr] at h
      exact (hk b1 o1 (h2 b1 o1 hr)).2 b' o' h
  · rw [hh]
    exact ⟨Or.inr (Or.inr ⟨e, rfl⟩), fun _ _ h => by cases h⟩

theorem nestedSerX_simW (hfx : X.fixed = true) (hp : Placed X b0 L0) (pb : Nat)
    {innerX : Nat → Buf → Nat → Except Err W} {inner : Buf → Nat → Except Err W} (maxB : Nat)
    (hin : ∀ pb' buf', InvF o X b0 L0 pb' buf'.length ((maxB + 7) / 8) →
      SimW B buf'.length (innerX pb' buf' ((maxB + 7) / 8)) (inner buf' ((maxB + 7) / 8)))
    (isDelim fixed : Bool) (minB cap : Nat) (d : AOff) (buf : Buf) (off : Nat)
    (hi : InvS o X b0 L0 pb buf.length cap) :
    SimW B buf.length (nestedSerX o X pb innerX isDelim fixed minB maxB cap d buf off)
      (nestedSer o inner isDelim fixed minB maxB cap d buf off) := by
  unfold nestedSerX nestedSer
  simp only []
  refine simW_bind (L := buf.length) ?_ ?_
  · split
    · split
      · exact serIntX_simW hfx hp pb false 32 64 false _ cap d buf off hi
      · exact simW_refl (fun b o' h => by simp only [Except.ok.injEq, Prod.mk.injEq] at h; rw [← h.1])
    · exact simW_refl (fun b o' h => by simp only [Except.ok.injEq, Prod.mk.injEq] at h; rw [← h.1])
  · intro buf1 off1 hl1
    apply assertC_simW
    intro hc1
    apply assertC_simW
    intro hc2
    have hiF : InvF o X b0 L0 (pb + off1 / 8) (buf1.drop (off1 / 8)).length ((maxB + 7) / 8) := by
      intro ha hx
      obtain ⟨h0, h1, h2, h3⟩ := hi ha hx
      have := hc2 ha
      simp only [List.length_drop]
      omega
    obtain ⟨hs1, hs2⟩ := hin (pb + off1 / 8) (buf1.drop (off1 / 8)) hiF
    have hfin : ∀ (sub : Buf) (size : Nat), sub.length = (buf1.drop (off1 / 8)).length →
        SimW B buf.length
          (assertC o (minB ≤ size * 8 ∧ size * 8 ≤ maxB)
            (match (if isDelim = true ∧ ¬fixed = true then
                  if o.little = true then liftP (memmove (List.take (off1 / 8) buf1 ++ sub) ((off1 - 32) / 8) (objRepLE size 8) 0 4)
                  else setUxxX o X pb (List.take (off1 / 8) buf1 ++ sub) cap (off1 - 32) size 32
                else Except.ok (List.take (off1 / 8) buf1 ++ sub)) with
            | Except.error e => Except.error e
            | Except.ok buf => assertC o (off1 + size * 8 ≤ cap * 8) (Except.ok (buf, off1 + size * 8))))
          (assertC o (minB ≤ size * 8 ∧ size * 8 ≤ maxB)
            (match (if isDelim = true ∧ ¬fixed = true then
                  if o.little = true then liftP (memmove (List.take (off1 / 8) buf1 ++ sub) ((off1 - 32) / 8) (objRepLE size 8) 0 4)
                  else chk (setUxx o.little (List.take (off1 / 8) buf1 ++ sub) cap (off1 - 32) size 32)
                else Except.ok (List.take (off1 / 8) buf1 ++ sub)) with
            | Except.error e => Except.error e
            | Except.ok buf => assertC o (off1 + size * 8 ≤ cap * 8) (Except.ok (buf, off1 + size * 8)))) := by
      intro sub size hsub
      have hl2 : (List.take (off1 / 8) buf1 ++ sub).length = buf.length := by
        simp only [List.length_append, List.length_take, hsub, List.length_drop]
        omega
      apply assertC_simW
      intro _
      have hepi : Sim B
          (if isDelim = true ∧ ¬fixed = true then
            if o.little = true then liftP (memmove (List.take (off1 / 8) buf1 ++ sub) ((off1 - 32) / 8) (objRepLE size 8) 0 4)
            else setUxxX o X pb (List.take (off1 / 8) buf1 ++ sub) cap (off1 - 32) size 32
          else Except.ok (List.take (off1 / 8) buf1 ++ sub))
          (if isDelim = true ∧ ¬fixed = true then
            if o.little = true then liftP (memmove (List.take (off1 / 8) buf1 ++ sub) ((off1 - 32) / 8) (objRepLE size 8) 0 4)
            else chk (setUxx o.little (List.take (off1 / 8) buf1 ++ sub) cap (off1 - 32) size 32)
          else Except.ok (List.take (off1 / 8) buf1 ++ sub)) := by
        split
        · split
          · exact Sim.rfl'
          · exact setUxxX_sim hfx hp pb _ cap (off1 - 32) size 32 (by rw [hl2]; exact hi)
        · exact Sim.rfl'
      have hlen : ∀ b3, (if isDelim = true ∧ ¬fixed = true then
            if o.little = true then liftP (memmove (List.take (off1 / 8) buf1 ++ sub) ((off1 - 32) / 8) (objRepLE size 8) 0 4)
            else chk (setUxx o.little (List.take (off1 / 8) buf1 ++ sub) cap (off1 - 32) size 32)
          else Except.ok (List.take (off1 / 8) buf1 ++ sub)) = Except.ok b3 → b3.length = buf.length := by
        intro b3 h3
        split at h3
        · split at h3
          · rw [(memmove_ok_inv _ _ _ _ _ _ (liftP_ok h3)).1, hl2]
          · rw [chk_setUxx_length h3, hl2]
        · simp only [Except.ok.injEq] at h3
          rw [← h3, hl2]
      refine ⟨?_, fun b' o' h => ?_⟩
      · rcases hepi with hh | ⟨hB, hh⟩ | ⟨e, hh⟩
        · rw [hh]; exact Sim.rfl'
        · rw [hh]; exact Or.inr (Or.inl ⟨hB, rfl⟩)
        · rw [hh]; exact Or.inr (Or.inr ⟨e, rfl⟩)
      · split at h
        · cases h
        · rename_i b3 h3
          have := assertC_ok_inv h
          simp only [Except.ok.injEq, Prod.mk.injEq] at this
          rw [← this.1]
          exact hlen b3 h3
    rcases hs1 with hh | ⟨hB, hh⟩ | ⟨e, hh⟩
    · rw [hh]
      cases hr : inner (buf1.drop (off1 / 8)) ((maxB + 7) / 8) with
      | error e => exact ⟨Sim.rfl', fun _ _ h => by cases h⟩
      | ok w =>
        obtain ⟨sub, size⟩ := w
        exact hfin sub size (hs2 sub size hr)
    · rw [hh]
      refine ⟨Or.inr (Or.inl ⟨hB, rfl⟩), fun b' o' h => ?_⟩
      cases hr : inner (buf1.drop (off1 / 8)) ((maxB + 7) / 8) with
      | error e => rw [hr] at h; cases h
      | ok w =>
        obtain ⟨sub, size⟩ := w
        rw [hr] at h
        exact (hfin sub size (hs2 sub size hr)).2 b' o' h
    · rw [hh]
      exact ⟨Or.inr (Or.inr ⟨e, rfl⟩), fun _ _ h => by cases h⟩

theorem simW_err {L : Nat} {e : Err} : SimW B L (.error e) (.error e) := ⟨Sim.rfl', fun _ _ h => by cases h⟩

theorem simW_len {L L' : Nat} {rX r : Except Err W} (h : SimW B L rX r) (e : L = L') : SimW B L' rX r := e ▸ h

theorem invS_len {pb len len' cap : Nat} (h : InvS o X b0 L0 pb len cap) (e : len' = len) : InvS o X b0 L0 pb len' cap :=
  e ▸ h

theorem anyGuard_simW {L : Nat} (t : Ty) (room : Option Nat) (d : AOff) (off : Nat) {kX k : Except Err W}
    (h : SimW B L kX k) : SimW B L (anyGuard o t room d off kX) (anyGuard o t room d off k) := by
  unfold anyGuard
  exact assertC_simW _ (fun _ => assertC_simW _ (fun _ => assertC_simW _ (fun _ => h)))

theorem topSerX_simW (hfx : X.fixed = true) (hp : Placed X b0 L0) (hnc : X.noCheck = false) (pb minB maxB : Nat)
    {bodyX body : Nat → Buf → Except Err W} (buf : Buf) (cap : Nat) (hi : InvF o X b0 L0 pb buf.length cap)
    (hb : InvS o X b0 L0 pb buf.length cap → SimW B buf.length (bodyX cap buf) (body cap buf)) :
    SimW B buf.length (topSerX o X pb minB maxB bodyX buf cap) (topSer o minB maxB body buf cap) := by
  unfold topSerX topSer
  split
  · exact simW_refl (fun b o' h => by simp only [Except.ok.injEq, Prod.mk.injEq] at h; rw [← h.1])
  · rename_i hm
    simp only [hnc, true_and]
    split
    · exact simW_err
    · rename_i hroom
      have hiS : InvS o X b0 L0 pb buf.length cap := by
        intro ha hx
        obtain ⟨h0, h1, h2⟩ := hi ha hx
        exact ⟨h0, h1, h2, by omega⟩
      refine simW_bind (hb hiS) (fun b1 off1 hl1 => ?_)
      refine simW_bind (simW_len (padSerX_simW hfx hp pb 8 cap b1 off1 (invS_len hiS hl1)) hl1) (fun b2 off2 hl2 => ?_)
      refine assertC_simW _ (fun _ => assertC_simW _ (fun _ => ?_))
      exact simW_refl (fun b o' h => by simp only [Except.ok.injEq, Prod.mk.injEq] at h; rw [← h.1]; exact hl2)

/-- the claim for one type: every site and the generated function -/
def SerSimP (o : Opts) (X : Ext) (b0 L0 : Nat) (B : Prop) (t : Ty) : Prop :=
  (∀ v pb cap d buf off, InvS o X b0 L0 pb buf.length cap →
    SimW B buf.length (serAnyX o X t v pb cap d buf off) (serAny o t v cap d buf off)) ∧
  (∀ v pb buf cap, InvF o X b0 L0 pb buf.length cap →
    SimW B buf.length (serFnX o X t v pb buf cap) (serFn o t v buf cap))

theorem serFieldsX_simW (hfx : X.fixed = true) (hp : Placed X b0 L0) :
    ∀ (fs : List Ty), (∀ f ∈ fs, SerSimP o X b0 L0 B f) → ∀ vs first pb cap d buf off,
    InvS o X b0 L0 pb buf.length cap →
    SimW B buf.length (serFieldsX o X fs vs first pb cap d buf off) (serFields o fs vs first cap d buf off) := by
  intro fs
  induction fs with
  | nil =>
    intro _ vs first pb cap d buf off _
    cases vs with
    | nil =>
      simp only [serFieldsX, serFields]
      exact simW_refl (fun b o' h => by simp only [Except.ok.injEq, Prod.mk.injEq] at h; rw [← h.1])
    | cons v vs =>
      simp only [serFieldsX, serFields]
      exact simW_err
  | cons f fs ih =>
    intro hf vs first pb cap d buf off hi
    cases vs with
    | nil =>
      simp only [serFieldsX, serFields]
      exact simW_err
    | cons v vs =>
      simp only [serFieldsX, serFields]
      refine simW_bind ?_ (fun b1 off1 hl1 => ?_)
      · split
        · exact simW_refl (fun b o' h => by simp only [Except.ok.injEq, Prod.mk.injEq] at h; rw [← h.1])
        · exact padSerX_simW hfx hp pb (align f) cap buf off hi
      · refine simW_bind (anyGuard_simW f _ _ off1 (simW_len ((hf f List.mem_cons_self).1 v pb cap _ b1 off1
          (invS_len hi hl1)) hl1)) (fun b2 off2 hl2 => ?_)
        exact simW_len (ih (fun g hg => hf g (List.mem_cons_of_mem _ hg)) vs false pb cap _ b2 off2 (invS_len hi hl2)) hl2

theorem serNthX_simW : ∀ (fs : List Ty), (∀ f ∈ fs, SerSimP o X b0 L0 B f) → ∀ k v pb cap d buf off,
    InvS o X b0 L0 pb buf.length cap →
    SimW B buf.length (serNthX o X fs k v pb cap d buf off) (serNth o fs k v cap d buf off) := by
  intro fs
  induction fs with
  | nil => intro _ k v pb cap d buf off _; exact simW_err
  | cons f fs ih =>
    intro hf k v pb cap d buf off hi
    cases k with
    | zero =>
      simp only [serNthX, serNth]
      exact anyGuard_simW f _ d off ((hf f List.mem_cons_self).1 v pb cap d buf off hi)
    | succ k =>
      simp only [serNthX, serNth]
      exact ih (fun g hg => hf g (List.mem_cons_of_mem _ hg)) k v pb cap d buf off hi

theorem invF_of_invS {pb len cap : Nat} (h : InvS o X b0 L0 pb len cap) : InvF o X b0 L0 pb len cap := by
  intro ha hx
  obtain ⟨h0, h1, h2, _⟩ := h ha hx
  exact ⟨h0, h1, h2⟩

theorem serSimP (hfx : X.fixed = true) (hp : Placed X b0 L0) (hnc : X.noCheck = false)
    (hle : ∀ t c, effCap X t c ≤ c) (hB : ∀ t c, effCap X t c < c → B) (t : Ty) : SerSimP o X b0 L0 B t := by
  have hbool : ∀ c, effCap X .bool c = c := fun c => by simp [effCap, isBoolTy]
  refine Ty.ind (P := SerSimP o X b0 L0 B) ?_ ?_ ?_ ?_ ?_ ?_ ?_ ?_ ?_ ?_ t
  · intro n m
    refine ⟨fun v pb cap d buf off hi => ?_, fun v pb buf cap _ => ?_⟩
    · cases v <;> simp only [serAnyX, serAny] <;> first | exact simW_err | exact serIntX_simW hfx hp pb _ _ _ _ _ cap d buf off hi
    · cases v <;> simp only [serFnX, serFn] <;> exact simW_err
  · intro n m
    refine ⟨fun v pb cap d buf off hi => ?_, fun v pb buf cap _ => ?_⟩
    · cases v <;> simp only [serAnyX, serAny] <;> first | exact simW_err | exact serIntX_simW hfx hp pb _ _ _ _ _ cap d buf off hi
    · cases v <;> simp only [serFnX, serFn] <;> exact simW_err
  · intro n m
    refine ⟨fun v pb cap d buf off hi => ?_, fun v pb buf cap _ => ?_⟩
    · cases v <;> simp only [serAnyX, serAny] <;> first | exact simW_err | exact serFloatX_simW hfx hp pb _ _ _ cap d buf off hi
    · cases v <;> simp only [serFnX, serFn] <;> exact simW_err
  · refine ⟨fun v pb cap d buf off hi => ?_, fun v pb buf cap _ => ?_⟩
    · cases v <;> simp only [serAnyX, serAny] <;> first | exact simW_err | exact simW_refl (fun b o' h => serBool_length h)
    · cases v <;> simp only [serFnX, serFn] <;> exact simW_err
  · intro n
    refine ⟨fun v pb cap d buf off hi => ?_, fun v pb buf cap _ => ?_⟩
    · cases v <;> simp only [serAnyX, serAny] <;> first | exact simW_err | exact serVoidX_simW hfx hp pb _ cap d buf off hi
    · cases v <;> simp only [serFnX, serFn] <;> exact simW_err
  · intro t n ih
    refine ⟨fun v pb cap d buf off hi => ?_, fun v pb buf cap _ => ?_⟩
    · cases v <;> simp only [serAnyX, serAny] <;> try exact simW_err
      rename_i vs
      split
      · exact serElemsX_simW hfx hp pb t vs n n (fun _ => rfl) _ buf off cap hi
          (fun v b f hl => anyGuard_simW t _ _ f (simW_len (ih.1 v pb cap _ b f (invS_len hi hl)) hl))
      · exact simW_err
    · cases v <;> simp only [serFnX, serFn] <;> exact simW_err
  · intro t c ih
    refine ⟨fun v pb cap d buf off hi => ?_, fun v pb buf cap _ => ?_⟩
    · cases v <;> simp only [serAnyX, serAny] <;> try exact simW_err
      rename_i vs
      have hcont : SimW B buf.length
          (match serIntX o X pb false (prefixBits c) 64 false (vs.length : Int) cap d buf off with
          | .error e => .error e
          | .ok (buf, off) =>
            assertC o (o.orc (d.add (AOff.single (prefixBits c))) = true → off % 8 = 0)
              (serElemsX o X pb t (fun v b f => anyGuard o t (some (cap * 8)) (d.add (resBits (.varr t c))) f
                (serAnyX o X t v pb cap (d.add (resBits (.varr t c))) b f)) vs (effCap X t c) none buf off))
          (match serInt o false (prefixBits c) 64 false (vs.length : Int) cap d buf off with
          | .error e => .error e
          | .ok (buf, off) =>
            assertC o (o.orc (d.add (AOff.single (prefixBits c))) = true → off % 8 = 0)
              (serElems o t (fun v b f => anyGuard o t (some (cap * 8)) (d.add (resBits (.varr t c))) f
                (serAny o t v cap (d.add (resBits (.varr t c))) b f)) vs c none buf off)) := by
        refine simW_bind (serIntX_simW hfx hp pb false _ 64 false _ cap d buf off hi) (fun b1 off1 hl1 => ?_)
        refine assertC_simW _ (fun _ => ?_)
        exact simW_len (serElemsX_simW hfx hp pb t vs (effCap X t c) c (fun e => by rw [e]; exact hbool c) none b1 off1 cap
          (invS_len hi hl1)
          (fun v b f hl => anyGuard_simW t _ _ f (simW_len (ih.1 v pb cap _ b f (invS_len hi (hl.trans hl1)))
            (hl.trans hl1) |> fun h => simW_len h hl1.symm))) hl1
      by_cases h1 : vs.length > effCap X t c
      · simp only [h1, if_true]
        by_cases h2 : vs.length > c
        · simp only [h2, if_true]
          exact simW_err
        · simp only [h2, if_false]
          exact ⟨Or.inr (Or.inl ⟨hB t c (by omega), rfl⟩), hcont.2⟩
      · have h2 : ¬ vs.length > c := by have := hle t c; omega
        simp only [h1, h2, if_false]
        exact hcont
    · cases v <;> simp only [serFnX, serFn] <;> exact simW_err
  · intro fs ih
    have hfn : ∀ v pb buf cap, InvF o X b0 L0 pb buf.length cap →
        SimW B buf.length (serFnX o X (.struct fs) v pb buf cap) (serFn o (.struct fs) v buf cap) := by
      intro v pb buf cap hi
      cases v <;> simp only [serFnX, serFn] <;> try exact simW_err
      rename_i vs
      exact topSerX_simW hfx hp hnc pb _ _ buf cap hi
        (fun hiS => serFieldsX_simW hfx hp fs ih vs true pb cap AOff.zero buf 0 hiS)
    refine ⟨fun v pb cap d buf off hi => ?_, hfn⟩
    cases v <;> simp only [serAnyX, serAny] <;> try exact simW_err
    rename_i vs
    refine nestedSerX_simW hfx hp pb _ (fun pb' buf' hi' => ?_) false _ _ cap d buf off hi
    have := hfn (.struct vs) pb' buf' _ hi'
    simp only [serFnX, serFn] at this
    exact this
  · intro fs ih
    have hfn : ∀ v pb buf cap, InvF o X b0 L0 pb buf.length cap →
        SimW B buf.length (serFnX o X (.union fs) v pb buf cap) (serFn o (.union fs) v buf cap) := by
      intro v pb buf cap hi
      cases v <;> simp only [serFnX, serFn] <;> try exact simW_err
      rename_i k v
      refine topSerX_simW hfx hp hnc pb _ _ buf cap hi (fun hiS => ?_)
      refine simW_bind (serIntX_simW hfx hp pb false _ _ false _ cap AOff.zero buf 0 hiS) (fun b1 off1 hl1 => ?_)
      exact simW_len (serNthX_simW fs ih k v pb cap _ b1 off1 (invS_len hiS hl1)) hl1
    refine ⟨fun v pb cap d buf off hi => ?_, hfn⟩
    cases v <;> simp only [serAnyX, serAny] <;> try exact simW_err
    rename_i k v
    refine nestedSerX_simW hfx hp pb _ (fun pb' buf' hi' => ?_) false _ _ cap d buf off hi
    have := hfn (.union k v) pb' buf' _ hi'
    simp only [serFnX, serFn] at this
    exact this
  · intro e t ih
    refine ⟨fun v pb cap d buf off hi => ?_, fun v pb buf cap hi => ?_⟩
    · simp only [serAnyX, serAny]
      exact nestedSerX_simW hfx hp pb _ (fun pb' buf' hi' => ih.2 v pb' buf' _ hi') true _ _ cap d buf off hi
    · simp only [serFnX, serFn]
      exact ih.2 v pb buf cap hi

end

end NunavutVerif.GenC
