import NunavutVerif.Model.NamespaceGlue
import NunavutVerif.Lemmas.Namespace
/-!
Helper lemmas for the path glue of C11 (`Model/NamespaceGlue.lean`): dict operations on a configuration
section, the builder's overrides, `extension_type`, `with_suffix` for *every* suffix string, the kernel's
path walk on safe segments, the `mkdir -p` chains.  Core Lean only.
-/
namespace NunavutVerif.Namespace

/-! ### sections -/

theorem find?_map_set (s : Section) (k k' : Str) (v : Option Str) :
    (s.map (fun e => if e.1 = k then (k, v) else e)).find? (fun e => e.1 = k') =
      if k' = k then (if s.any (fun e => e.1 = k) then some (k, v) else none)
      else s.find? (fun e => e.1 = k') := by
  induction s with
  | nil => simp
  | cons a r ih =>
    simp only [List.map_cons, List.find?_cons, List.any_cons]
    by_cases hak : a.1 = k
    · by_cases hk : k' = k
      · subst hk; simp [hak]
      · have h1 : decide (k = k') = false := by simp; exact fun e => hk e.symm
        have h2 : decide (a.1 = k') = false := by simp; rw [hak]; exact fun e => hk e.symm
        rw [if_pos hak, if_neg hk] at *
        simp only [h1, h2]
        rw [ih]
    · by_cases hk : k' = k
      · subst hk
        have h2 : decide (a.1 = k') = false := by simp [hak]
        rw [if_neg hak, if_pos rfl] at *
        simp only [h2, Bool.false_or]
        rw [ih]
      · rw [if_neg hak, if_neg hk] at *
        rw [ih]

theorem secGet_secSet (s : Section) (k k' : Str) (v : Option Str) :
    secGet (secSet s k v) k' = if k' = k then some v else secGet s k' := by
  unfold secGet secSet
  by_cases hany : s.any (fun e => e.1 = k) = true
  · rw [if_pos hany, find?_map_set]
    by_cases hk : k' = k
    · simp [hk, hany]
    · simp [hk]
  · rw [if_neg hany]
    have hnone : s.find? (fun e => decide (e.1 = k)) = none := by
      rw [List.find?_eq_none]
      intro e he h
      apply hany
      rw [List.any_eq_true]
      exact ⟨e, he, h⟩
    by_cases hk : k' = k
    · subst hk
      simp [List.find?_append, hnone]
    · have hk2 : ¬ k = k' := fun e => hk e.symm
      simp [List.find?_append, hk, hk2]

theorem keyExtension_ne_keyStem : keyExtension ≠ keyStem := by decide

theorem deepUpdate_nil (t : Section) : deepUpdate t [] = t := rfl

theorem deepUpdate_cons (t : Section) (e : Str × Option Str) (r : Section) :
    deepUpdate t (e :: r) = deepUpdate (secSet t e.1 e.2) r := rfl

/-- The section's stem as `Namespace.__init__` reads it: always a value (default `_`). -/
def sectionStem (s : Section) : Str :=
  match secGet s keyStem with
  | some (some v) => v
  | some none => []
  | none => defaultStem

theorem getConfigValue_stem (s : Section) : getConfigValue s keyStem (some defaultStem) = .ok (sectionStem s) := by
  unfold getConfigValue sectionStem
  cases secGet s keyStem with
  | none => rfl
  | some v => cases v <;> rfl

/-- What `create()` leaves in the section for a key, given the overrides of the runner / the API route:
the override if one was given (the empty string included), else what the files and properties.yaml say. -/
theorem secGet_effective (lang : Section) (files : List Section) (ext stem : Option Str) (k : Str) :
    secGet (effectiveSection lang files (setOverride (setExtension [] ext) keyStem stem)) k =
      if k = keyStem ∧ stem.isSome then some stem
      else if k = keyExtension ∧ ext.isSome then some ext
      else secGet (files.foldl deepUpdate lang) k := by
  have hne := keyExtension_ne_keyStem
  have e1 : ∀ (k : Str) (v : Option Str), secSet ([] : Section) k v = [(k, v)] := by intro k v; simp [secSet]
  have e2 : ∀ ev sv : Str, secSet [(keyExtension, some ev)] keyStem (some sv) =
      [(keyExtension, some ev), (keyStem, some sv)] := by intro ev sv; simp [secSet, hne]
  unfold effectiveSection setExtension setOverride
  cases ext with
  | none =>
    cases stem with
    | none => simp [deepUpdate_nil]
    | some sv =>
      simp only [e1, deepUpdate_cons, deepUpdate_nil, secGet_secSet]
      by_cases hk : k = keyStem <;> simp [hk]
  | some ev =>
    cases stem with
    | none =>
      simp only [e1, deepUpdate_cons, deepUpdate_nil, secGet_secSet]
      by_cases hk : k = keyExtension <;> simp [hk]
    | some sv =>
      simp only [e1, e2, deepUpdate_cons, deepUpdate_nil, secGet_secSet]
      by_cases hk : k = keyStem
      · simp [hk]
      · by_cases hk2 : k = keyExtension <;> simp [hk, hk2]

/-! ### `extension_type` and `with_suffix` for every suffix string -/

theorem validSuffix_extensionType (raw : Str) :
    validSuffix (extensionType raw) = true ↔ raw ≠ ['.'] ∧ '/' ∉ raw := by
  cases raw with
  | nil => simp [extensionType, validSuffix]
  | cons c r =>
    by_cases hc : c = '.'
    · subst hc
      simp [extensionType, validSuffix]
    · have h1 : ¬ (c :: r) = ['.'] := by intro e; simp at e; exact hc e.1
      have h2 : c ≠ '/' ∨ True := Or.inr trivial
      simp [extensionType, validSuffix, hc, h1]

theorem withSuffix_invalid (p : Path) (ext : Str) (h : validSuffix ext = false) :
    withSuffix p ext = .error .badSuffix := by
  unfold withSuffix; simp [h]

/-- `make_path` for **every** extension string: the formula if `with_suffix` accepts the suffix (the empty
suffix, multi-dot suffixes, …), `ValueError` otherwise. -/
theorem outputPath_every_ext (cfg : Cfg) (t : Ty) (hc : ∀ c ∈ t.ns, IdSeg (estrop cfg c))
    (hn : IdSeg (estrop cfg (shortVer t))) :
    outputPath cfg t =
      if validSuffix cfg.ext then
        .ok (basePath cfg ++ (t.ns.map (estrop cfg) ++ [estrop cfg (shortVer t) ++ cfg.ext]))
      else .error .badSuffix := by
  by_cases hv : validSuffix cfg.ext = true
  · rw [if_pos hv]; exact outputPath_formula cfg t ⟨hc, hn, hv⟩
  · rw [if_neg hv]
    have hv' : validSuffix cfg.ext = false := by simpa using hv
    unfold outputPath makePath
    rw [withSuffix_invalid _ _ hv']

/-- The namespace file for every extension string and every one-part stem (dots allowed: pathlib replaces
the last suffix of the stem, `stemOf`). -/
theorem nsOutputPath_every_ext (cfg : Cfg) (k : Key) (hk : ∀ c ∈ k, IdSeg (cfg.strop c))
    (h1 : cfg.stem ≠ []) (h2 : '/' ∉ cfg.stem) (h3 : cfg.stem ≠ ['.']) :
    nsOutputPath cfg k =
      if validSuffix cfg.ext then .ok (basePath cfg ++ k.map cfg.strop ++ [stemOf cfg.stem ++ cfg.ext])
      else .error .badSuffix := by
  by_cases hv : validSuffix cfg.ext = true
  · rw [if_pos hv]
    unfold nsOutputPath nsFolder
    rw [ofSegs_idsegs _ (by intro s hs; obtain ⟨c, hc, rfl⟩ := List.mem_map.1 hs; exact hk c hc)]
    rw [pjoin_oneseg [] _ h1 h2 h3]
    have hh : (k.map cfg.strop).head? ≠ some rootPart := by
      cases k with
      | nil => simp
      | cons c r =>
        simp only [List.map_cons, List.head?_cons]
        exact fun e => idseg_ne_root (hk c (by simp)) (Option.some.inj e)
    have hs : ([] ++ [cfg.stem] : Path).head? ≠ some rootPart := by
      simp only [List.nil_append, List.head?_cons]
      intro e
      apply h2
      rw [Option.some.inj e]; simp [rootPart]
    rw [pathJoin_rel _ _ hh, pathJoin_rel _ _ hs]
    have hroot : cfg.stem ≠ rootPart := by
      intro e; apply h2; rw [e]; simp [rootPart]
    simpa using withSuffix_last (basePath cfg ++ k.map cfg.strop) cfg.stem cfg.ext hroot hv
  · rw [if_neg hv]
    have hv' : validSuffix cfg.ext = false := by simpa using hv
    unfold nsOutputPath
    rw [withSuffix_invalid _ _ hv']

/-! ### the kernel's walk -/

theorem foldl_filter_noop {σ α} (f : σ → α → σ) (keep : α → Bool) (hno : ∀ x, keep x = false → ∀ st, f st x = st)
    (l : List α) (init : σ) : l.foldl f init = (l.filter keep).foldl f init := by
  induction l generalizing init with
  | nil => rfl
  | cons a r ih =>
    simp only [List.foldl_cons, List.filter_cons]
    cases hk : keep a with
    | true => simp [ih]
    | false => simp [hno a hk, ih]

theorem stepFs_noop (fs : Fs) (c : Str) (h : keepPart c = false) (phys : Path) : stepFs fs phys c = phys := by
  unfold stepFs
  have : c = [] ∨ c = ['.'] := by
    by_cases h1 : c = []
    · exact Or.inl h1
    · by_cases h2 : c = ['.']
      · exact Or.inr h2
      · simp [keepPart, h1, h2] at h
  rw [if_pos this]

theorem splitSlash_ne_nil (s : Str) : splitSlash s ≠ [] := by
  cases s with
  | nil => simp [splitSlash]
  | cons c r =>
    unfold splitSlash
    split
    · simp
    · split <;> simp

theorem splitSlash_pieces_noslash (s : Str) : ∀ p ∈ splitSlash s, '/' ∉ p := by
  induction s with
  | nil => intro p hp; simp [splitSlash] at hp; subst hp; simp
  | cons c r ih =>
    intro p hp
    unfold splitSlash at hp
    by_cases hc : c = '/'
    · rw [if_pos hc] at hp
      rcases List.mem_cons.1 hp with e | e
      · subst e; simp
      · exact ih p e
    · rw [if_neg hc] at hp
      cases hsp : splitSlash r with
      | nil => exact absurd hsp (splitSlash_ne_nil r)
      | cons h t =>
        rw [hsp] at hp ih
        rcases List.mem_cons.1 hp with e | e
        · subst e
          have := ih h (by simp)
          simp only [List.mem_cons, not_or]
          exact ⟨fun e => hc e.symm, this⟩
        · exact ih p (by simp [e])

theorem segParts_head_ne_root (s : Str) : (segParts s).head? ≠ some rootPart := by
  intro e
  have hm : rootPart ∈ segParts s := List.mem_of_mem_head? e
  have : rootPart ∈ splitSlash s := (List.mem_filter.1 hm).1
  exact splitSlash_pieces_noslash s _ this (by simp [rootPart])

/-- pathlib's parsing of a spelling (drops `.`, empty pieces and trailing slashes, keeps `..`) does not change
where the operating system takes it. -/
theorem resolveStr_eq_resolve_pjoin (fs : Fs) (s : Str) : resolveStr fs s = resolve fs (pjoin [] s) := by
  unfold resolveStr
  rw [foldl_filter_noop (stepFs fs) keepPart (fun c h st => stepFs_noop fs c h st)]
  unfold pjoin resolve
  by_cases ha : isAbs s = true
  · simp only [ha, if_true, List.head?_cons, List.tail_cons]
    rfl
  · have hne := segParts_head_ne_root s
    simp only [ha, Bool.false_eq_true, if_false, List.nil_append, hne]
    rfl

theorem resolve_append (fs : Fs) (b rel : Path) (h : rel.head? ≠ some rootPart) :
    resolve fs (b ++ rel) = rel.foldl (stepFs fs) (resolve fs b) := by
  cases b with
  | nil =>
    simp only [List.nil_append]
    unfold resolve
    simp [h]
  | cons x y =>
    unfold resolve
    by_cases hx : x = rootPart
    · simp [hx, List.foldl_append]
    · have : ¬ (some x = some rootPart) := fun e => hx (Option.some.inj e)
      simp [this, List.foldl_append]

theorem stepFs_safe (fs : Fs) (phys : Path) (c : Str) (hs : SafeSeg c) (hl : fs.link (phys ++ [c]) = none) :
    stepFs fs phys c = phys ++ [c] := by
  obtain ⟨h1, h2, h3, _⟩ := hs
  unfold stepFs
  have : ¬ (c = [] ∨ c = ['.']) := by rintro (e | e) <;> contradiction
  rw [if_neg this, if_neg h3, hl]

theorem foldl_stepFs_safe (fs : Fs) (d : Path) (hl : NoLinkBelow fs d) (rel pre : Path)
    (hs : ∀ s ∈ rel, SafeSeg s) : rel.foldl (stepFs fs) (d ++ pre) = d ++ pre ++ rel := by
  induction rel generalizing pre with
  | nil => simp
  | cons c r ih =>
    simp only [List.foldl_cons]
    rw [stepFs_safe fs _ c (hs c (by simp)) (by rw [List.append_assoc]; exact hl _ (by simp))]
    rw [List.append_assoc, ih (pre ++ [c]) (fun s h => hs s (by simp [h]))]
    simp

/-- `p` lies below `base` by safe segments (no `.`, no `..`, no `/`, none empty). -/
def InsideSafe (base p : Path) : Prop := ∃ rel, p = base ++ rel ∧ rel ≠ [] ∧ ∀ s ∈ rel, SafeSeg s

theorem insideSafe_inside {base p : Path} (h : InsideSafe base p) : Inside base p := by
  obtain ⟨rel, h1, h2, h3⟩ := h
  exact ⟨rel, h1, h2, fun s hs => ⟨(h3 s hs).1, (h3 s hs).2.2.2, (h3 s hs).2.2.1⟩⟩

theorem safeSeg_ne_root {s : Str} (h : SafeSeg s) : s ≠ rootPart := by
  intro e; apply h.2.2.2; rw [e]; simp [rootPart]

/-- The operating system puts a path that lies below `base` by safe segments below the *resolved* `base`,
provided there is no symbolic link below it. -/
theorem resolve_insideSafe (fs : Fs) (base rel : Path) (hne : rel ≠ []) (hs : ∀ s ∈ rel, SafeSeg s)
    (hl : NoLinkBelow fs (resolve fs base)) : resolve fs (base ++ rel) = resolve fs base ++ rel := by
  have hh : rel.head? ≠ some rootPart := by
    cases rel with
    | nil => exact absurd rfl hne
    | cons a r =>
      simp only [List.head?_cons]
      exact fun e => safeSeg_ne_root (hs a (by simp)) (Option.some.inj e)
  rw [resolve_append fs base rel hh]
  simpa using foldl_stepFs_safe fs (resolve fs base) hl rel [] hs

theorem idseg_safeSeg {s : Str} (h : IdSeg s) : SafeSeg s := by
  obtain ⟨h1, h2, h3⟩ := h
  refine ⟨h1, ?_, ?_, h2⟩
  · intro e; apply h3; rw [e]; simp
  · intro e; apply h3; rw [e]; simp

theorem file_safeSeg {s ext : Str} (h : IdSeg s) (he : ValidExt ext) : SafeSeg (s ++ ext) := by
  obtain ⟨f1, f2, f3⟩ := file_safe h he
  refine ⟨f1, ?_, f3, f2⟩
  obtain ⟨h1, _, h3⟩ := h
  cases s with
  | nil => exact absurd rfl h1
  | cons c r =>
    intro e
    simp at e
    apply h3; simp [e.1]

theorem inside_to_safe_type (cfg : Cfg) (t : Ty) (h : NamesOk cfg t) :
    ∀ s ∈ t.ns.map (estrop cfg) ++ [estrop cfg (shortVer t) ++ cfg.ext], SafeSeg s := by
  intro s hs
  rcases List.mem_append.1 hs with hs | hs
  · obtain ⟨c, hc, rfl⟩ := List.mem_map.1 hs
    exact idseg_safeSeg (h.comps c hc)
  · rw [List.mem_singleton.1 hs]; exact file_safeSeg h.name h.ext

/-! ### `mkdir(parents=True)` chains -/

theorem mem_mkdirChain (p q : Path) : q ∈ mkdirChain p ↔ ∃ i, i + 1 < p.length ∧ q = p.take (i + 1) := by
  unfold mkdirChain
  simp only [List.mem_map, List.mem_range]
  constructor
  · rintro ⟨i, hi, rfl⟩; exact ⟨i, by omega, rfl⟩
  · rintro ⟨i, hi, rfl⟩; exact ⟨i, by omega, rfl⟩

/-- Every directory `mkdir(parents=True)` may create on the way to a file below `base` is either `base` itself
or one of its ancestors (a prefix of `base`: the only things a run may create outside — *above* — the output
directory), or lies below `base`. -/
theorem mkdirChain_insideSafe (base p : Path) (h : InsideSafe base p) :
    ∀ q ∈ mkdirChain p, q <+: base ∨ InsideSafe base q := by
  obtain ⟨rel, rfl, hne, hs⟩ := h
  intro q hq
  obtain ⟨i, hi, rfl⟩ := (mem_mkdirChain _ _).1 hq
  by_cases hle : i + 1 ≤ base.length
  · left
    rw [List.take_append_of_le_length hle]
    exact List.take_prefix _ _
  · right
    have hlt : base.length < i + 1 := by omega
    refine ⟨rel.take (i + 1 - base.length), ?_, ?_, ?_⟩
    · rw [List.take_append]
      rw [List.take_of_length_le (by omega)]
    · intro e
      have := congrArg List.length e
      simp at this
      cases rel with
      | nil => exact hne rfl
      | cons a r => simp at this; omega
    · intro s hs'
      exact hs s (List.mem_of_mem_take hs')

theorem mem_okPaths (l : List PathR) (p : Path) : p ∈ okPaths l ↔ (.ok p : PathR) ∈ l := by
  unfold okPaths
  rw [List.mem_filterMap]
  constructor
  · rintro ⟨r, hr, h⟩
    cases r with
    | ok q => simp at h; subst h; exact hr
    | error e => simp at h
  · intro h; exact ⟨.ok p, h, rfl⟩

theorem getConfigValue_effective_ext (lang : Section) (files : List Section) (ext stem : Option Str) :
    getConfigValue (effectiveSection lang files (setOverride (setExtension [] ext) keyStem stem)) keyExtension none =
      match ext with
      | some e => .ok e
      | none => getConfigValue (files.foldl deepUpdate lang) keyExtension none := by
  unfold getConfigValue
  rw [secGet_effective]
  have hne := keyExtension_ne_keyStem
  cases ext with
  | none => simp [hne]
  | some e => simp [hne]

theorem getConfigValue_effective_stem (lang : Section) (files : List Section) (ext stem : Option Str) :
    getConfigValue (effectiveSection lang files (setOverride (setExtension [] ext) keyStem stem)) keyStem
        (some defaultStem) =
      .ok (match stem with
        | some s => s
        | none => sectionStem (files.foldl deepUpdate lang)) := by
  cases stem with
  | some s =>
    unfold getConfigValue
    rw [secGet_effective]
    simp
  | none =>
    rw [← getConfigValue_stem]
    unfold getConfigValue
    rw [secGet_effective]
    have hne : keyStem ≠ keyExtension := fun e => keyExtension_ne_keyStem e.symm
    simp [hne]

end NunavutVerif.Namespace
