import NunavutVerif.Model.CLiteral
namespace NunavutVerif.CLiteral

theorem pow2_pos (k : Nat) : 0 < 2 ^ k := Nat.pow_pos (by decide)

theorem flog2Q_spec {N D : Nat} (hD : 0 < D) (h : D ≤ N) :
    D * 2 ^ (flog2Q N D) ≤ N ∧ N < D * 2 ^ (flog2Q N D + 1) := by
  have hN : N ≠ 0 := by omega
  have hD' : D ≠ 0 := by omega
  have a1 : 2 ^ N.log2 ≤ N := Nat.log2_self_le hN
  have a2 : N < 2 ^ (N.log2 + 1) := Nat.lt_log2_self
  have b1 : 2 ^ D.log2 ≤ D := Nat.log2_self_le hD'
  have b2 : D < 2 ^ (D.log2 + 1) := Nat.lt_log2_self
  have hab : D.log2 ≤ N.log2 := by
    rw [Nat.le_log2 hN]; omega
  unfold flog2Q
  simp only
  generalize hk : N.log2 - D.log2 = k
  have hka : N.log2 = D.log2 + k := by omega
  -- upper bound for exponent k+1: D * 2^(k+1) ≥ 2^b * 2^(k+1) = 2^(a+1) > N
  have up : N < D * 2 ^ (k + 1) := by
    have : 2 ^ D.log2 * 2 ^ (k + 1) ≤ D * 2 ^ (k + 1) := Nat.mul_le_mul_right _ b1
    have e : 2 ^ D.log2 * 2 ^ (k + 1) = 2 ^ (N.log2 + 1) := by
      rw [← Nat.pow_add]; congr 1; omega
    omega
  split
  · exact ⟨by assumption, up⟩
  · rename_i hlt
    have hk0 : k ≠ 0 := by
      intro h0; subst h0; simp at hlt; omega
    obtain ⟨j, rfl⟩ : ∃ j, k = j + 1 := ⟨k - 1, by omega⟩
    simp only [Nat.add_sub_cancel]
    refine ⟨?_, by omega⟩
    -- D * 2^j < 2^(b+1) * 2^j = 2^a ≤ N
    have : D * 2 ^ j < 2 ^ (D.log2 + 1) * 2 ^ j := Nat.mul_lt_mul_of_pos_right b2 (pow2_pos j)
    have e : 2 ^ (D.log2 + 1) * 2 ^ j = 2 ^ N.log2 := by
      rw [← Nat.pow_add]; congr 1; omega
    omega


theorem pow2_le {a b : Nat} (h : a ≤ b) : 2 ^ a ≤ 2 ^ b := Nat.pow_le_pow_right (by decide) h

/-- The binade of `N / D` is unique. -/
theorem binade_unique {N D a b : Nat} (_hD : 0 < D)
    (ha : D * 2 ^ a ≤ N ∧ N < D * 2 ^ (a + 1)) (hb : D * 2 ^ b ≤ N ∧ N < D * 2 ^ (b + 1)) : a = b := by
  rcases Nat.lt_trichotomy a b with h | h | h
  · exfalso
    have : D * 2 ^ (a + 1) ≤ D * 2 ^ b := Nat.mul_le_mul_left _ (pow2_le h)
    omega
  · exact h
  · exfalso
    have : D * 2 ^ (b + 1) ≤ D * 2 ^ a := Nat.mul_le_mul_left _ (pow2_le h)
    omega

theorem flog2Q_eq {N D a : Nat} (hD : 0 < D) (ha : D * 2 ^ a ≤ N ∧ N < D * 2 ^ (a + 1)) :
    flog2Q N D = a := by
  have h : D ≤ N := by
    have : D * 1 ≤ D * 2 ^ a := Nat.mul_le_mul_left _ (pow2_pos a)
    omega
  exact binade_unique hD (flog2Q_spec hD h) ha

/-- Cross-multiplied equality of two fractions gives the same binade. -/
theorem flog2Q_congr {N D N' D' : Nat} (hD : 0 < D) (hD' : 0 < D') (h : N * D' = N' * D) (hle : D ≤ N) :
    flog2Q N D = flog2Q N' D' := by
  have hle' : D' ≤ N' := by
    apply Nat.le_of_mul_le_mul_right _ hD
    calc D' * D = D * D' := Nat.mul_comm _ _
      _ ≤ N * D' := Nat.mul_le_mul_right _ hle
      _ = N' * D := h
  have s := flog2Q_spec hD' hle'
  apply flog2Q_eq hD
  generalize flog2Q N' D' = a at s
  constructor
  · apply Nat.le_of_mul_le_mul_right _ hD'
    calc D * 2 ^ a * D' = (D' * 2 ^ a) * D := by ac_rfl
      _ ≤ N' * D := Nat.mul_le_mul_right _ s.1
      _ = N * D' := h.symm
  · apply Nat.lt_of_mul_lt_mul_right (a := D')
    calc N * D' = N' * D := h
      _ < (D' * 2 ^ (a + 1)) * D := Nat.mul_lt_mul_of_pos_right s.2 hD
      _ = D * 2 ^ (a + 1) * D' := by ac_rfl

theorem le_congr {N D N' D' : Nat} (hD : 0 < D) (hD' : 0 < D') (h : N * D' = N' * D) : D ≤ N ↔ D' ≤ N' := by
  constructor
  · intro hle
    apply Nat.le_of_mul_le_mul_right _ hD
    calc D' * D = D * D' := Nat.mul_comm _ _
      _ ≤ N * D' := Nat.mul_le_mul_right _ hle
      _ = N' * D := h
  · intro hle
    apply Nat.le_of_mul_le_mul_right _ hD'
    calc D * D' = D' * D := Nat.mul_comm _ _
      _ ≤ N' * D := Nat.mul_le_mul_right _ hle
      _ = N * D' := h.symm

theorem expOf_congr {p N D N' D' : Nat} (hD : 0 < D) (hD' : 0 < D') (h : N * D' = N' * D) :
    expOf p N D = expOf p N' D' := by
  unfold expOf
  by_cases hle : D ≤ N
  · have hle' := (le_congr hD hD' h).1 hle
    rw [if_pos hle, if_pos hle', flog2Q_congr hD hD' h hle]
  · have hle' : ¬ D' ≤ N' := fun x => hle ((le_congr hD hD' h).2 x)
    rw [if_neg hle, if_neg hle']

theorem rneDiv_scale {k N den : Nat} (hk : 0 < k) : rneDiv (k * N) (k * den) = rneDiv N den := by
  unfold rneDiv
  simp only [Nat.mul_div_mul_left _ _ hk, Nat.mul_mod_mul_left]
  have e1 : (2 * (k * (N % den)) < k * den) ↔ (2 * (N % den) < den) := by
    rw [show 2 * (k * (N % den)) = k * (2 * (N % den)) by ac_rfl]
    exact Nat.mul_lt_mul_left hk
  have e2 : (k * den < 2 * (k * (N % den))) ↔ (den < 2 * (N % den)) := by
    rw [show 2 * (k * (N % den)) = k * (2 * (N % den)) by ac_rfl]
    exact Nat.mul_lt_mul_left hk
  simp only [e1, e2]

theorem rneDiv_congr {N den N' den' : Nat} (hd : 0 < den) (hd' : 0 < den') (h : N * den' = N' * den) :
    rneDiv N den = rneDiv N' den' := by
  rw [← rneDiv_scale (k := den') (N := N) (den := den) hd', ← rneDiv_scale (k := den) (N := N') (den := den') hd]
  rw [show den' * N = den * N' by rw [Nat.mul_comm, h, Nat.mul_comm], Nat.mul_comm den' den]

theorem roundNat_congr {p N D N' D' : Nat} (hD : 0 < D) (hD' : 0 < D') (h : N * D' = N' * D) :
    roundNat p N D = roundNat p N' D' := by
  unfold roundNat
  simp only
  rw [expOf_congr hD hD' h]
  generalize expOf p N' D' = E
  have : rneDiv N (D * 2 ^ E) = rneDiv N' (D' * 2 ^ E) := by
    apply rneDiv_congr (Nat.mul_pos hD (pow2_pos E)) (Nat.mul_pos hD' (pow2_pos E))
    calc N * (D' * 2 ^ E) = (N * D') * 2 ^ E := by ac_rfl
      _ = (N' * D) * 2 ^ E := by rw [h]
      _ = N' * (D * 2 ^ E) := by ac_rfl
  rw [this]

/-- The three outcomes of `rneDiv` with the division identity. -/
theorem rneDiv_cases (N den : Nat) (hd : 0 < den) :
    ∃ q r, N = q * den + r ∧ r < den ∧
      ((2 * r < den ∧ rneDiv N den = q) ∨ (den < 2 * r ∧ rneDiv N den = q + 1) ∨
       (2 * r = den ∧ q % 2 = 0 ∧ rneDiv N den = q) ∨ (2 * r = den ∧ q % 2 = 1 ∧ rneDiv N den = q + 1)) := by
  refine ⟨N / den, N % den, ?_, Nat.mod_lt _ hd, ?_⟩
  · rw [Nat.mul_comm]; exact (Nat.div_add_mod N den).symm
  · unfold rneDiv
    simp only
    by_cases h1 : 2 * (N % den) < den
    · left; exact ⟨h1, by rw [if_pos h1]⟩
    · by_cases h2 : den < 2 * (N % den)
      · right; left; exact ⟨h2, by rw [if_neg h1, if_pos h2]⟩
      · have h3 : 2 * (N % den) = den := by omega
        by_cases h4 : N / den % 2 = 0
        · right; right; left; exact ⟨h3, h4, by rw [if_neg h1, if_neg h2, if_pos h4]⟩
        · right; right; right; exact ⟨h3, by omega, by rw [if_neg h1, if_neg h2, if_neg h4]⟩

/-- within half a unit -/
theorem rneDiv_bounds (N den : Nat) (hd : 0 < den) :
    2 * (rneDiv N den * den) ≤ 2 * N + den ∧ 2 * N ≤ 2 * (rneDiv N den * den) + den := by
  obtain ⟨q, r, hN, hr, h⟩ := rneDiv_cases N den hd
  rcases h with ⟨h, e⟩ | ⟨h, e⟩ | ⟨h, _, e⟩ | ⟨h, _, e⟩ <;> rw [e] <;> subst hN
  · generalize q * den = X; omega
  · rw [Nat.add_mul]; generalize q * den = X; omega
  · generalize q * den = X; omega
  · rw [Nat.add_mul]; generalize q * den = X; omega

theorem rneDiv_tie_even (N den : Nat) (_hd : 0 < den) (h : 2 * (N % den) = den) : rneDiv N den % 2 = 0 := by
  unfold rneDiv
  simp only
  rw [if_neg (by omega), if_neg (by omega)]
  split <;> omega

theorem rneDiv_exact (q den : Nat) (hd : 0 < den) : rneDiv (q * den) den = q := by
  unfold rneDiv
  simp only [Nat.mul_mod_left, Nat.mul_div_cancel _ hd]
  rw [if_pos (by omega)]

theorem rneDiv_le_of_le_mul {N den A : Nat} (hd : 0 < den) (h : N ≤ A * den) : rneDiv N den ≤ A := by
  obtain ⟨q, r, hN, hr, hc⟩ := rneDiv_cases N den hd
  subst hN
  have hq : q ≤ A := by
    apply Nat.le_of_mul_le_mul_right _ hd
    omega
  rcases Nat.lt_or_ge q A with hlt | hge
  · rcases hc with ⟨_, e⟩ | ⟨_, e⟩ | ⟨_, _, e⟩ | ⟨_, _, e⟩ <;> omega
  · have : q = A := by omega
    subst this
    have : r = 0 := by omega
    subst this
    rcases hc with ⟨_, e⟩ | ⟨_, e⟩ | ⟨_, _, e⟩ | ⟨_, _, e⟩ <;> omega

theorem le_rneDiv_of_mul_le {N den A : Nat} (hd : 0 < den) (h : A * den ≤ N) : A ≤ rneDiv N den := by
  obtain ⟨q, r, hN, hr, hc⟩ := rneDiv_cases N den hd
  subst hN
  have hq : A ≤ q := by
    by_cases hAq : A ≤ q
    · exact hAq
    · exfalso
      have : (q + 1) * den ≤ A * den := Nat.mul_le_mul_right _ (by omega)
      rw [Nat.add_mul] at this
      omega
  rcases hc with ⟨_, e⟩ | ⟨_, e⟩ | ⟨_, _, e⟩ | ⟨_, _, e⟩ <;> omega

/-- `rneDiv` is a nearest integer: no integer `k` is closer to `N / den` (distances scaled by `2 * den`). -/
theorem rneDiv_nearest (N den k : Nat) (hd : 0 < den) :
    (2 * ((rneDiv N den * den : Nat) : Int) - 2 * (N : Int)).natAbs ≤ (2 * ((k * den : Nat) : Int) - 2 * (N : Int)).natAbs := by
  obtain ⟨q, r, hN, hr, hc⟩ := rneDiv_cases N den hd
  subst hN
  -- k ≤ q or k ≥ q + 1
  rcases Nat.lt_or_ge q k with hk | hk
  · -- k * den ≥ (q+1) * den
    have hk' : (q + 1) * den ≤ k * den := Nat.mul_le_mul_right _ hk
    rw [Nat.add_mul] at hk'
    rcases hc with ⟨_, e⟩ | ⟨_, e⟩ | ⟨_, _, e⟩ | ⟨_, _, e⟩ <;> rw [e] <;>
      (try rw [Nat.add_mul]) <;> generalize q * den = X at * <;> generalize k * den = Y at * <;> omega
  · have hk' : k * den ≤ q * den := Nat.mul_le_mul_right _ hk
    rcases hc with ⟨_, e⟩ | ⟨_, e⟩ | ⟨_, _, e⟩ | ⟨_, _, e⟩ <;> rw [e] <;>
      (try rw [Nat.add_mul]) <;> generalize q * den = X at * <;> generalize k * den = Y at * <;> omega

/-! ### `roundNat` -/

theorem pow2_lt_iff {a b : Nat} : 2 ^ a < 2 ^ b ↔ a < b := Nat.pow_lt_pow_iff_right (by decide)

/-- Below the (pre-carry) exponent: `N < 2^p * (D * 2^E0)`. -/
theorem expOf_upper {p N D : Nat} (hD : 0 < D) : N < 2 ^ p * (D * 2 ^ expOf p N D) := by
  unfold expOf
  by_cases hle : D ≤ N
  · rw [if_pos hle]
    have s := (flog2Q_spec hD hle).2
    generalize flog2Q N D = L at s
    have : 2 ^ (L + 1) ≤ 2 ^ (p + (L + 1 - p)) := pow2_le (by omega)
    calc N < D * 2 ^ (L + 1) := s
      _ ≤ D * 2 ^ (p + (L + 1 - p)) := Nat.mul_le_mul_left _ this
      _ = 2 ^ p * (D * 2 ^ (L + 1 - p)) := by rw [Nat.pow_add]; ac_rfl
  · rw [if_neg hle]
    have : D * 1 ≤ D * (2 ^ p * 2 ^ (0 + 1 - p)) :=
      Nat.mul_le_mul_left _ (Nat.mul_pos (pow2_pos p) (pow2_pos _))
    calc N < D * 1 := by omega
      _ ≤ D * (2 ^ p * 2 ^ (0 + 1 - p)) := this
      _ = 2 ^ p * (D * 2 ^ (0 + 1 - p)) := by ac_rfl

/-- In the normal range the scaled value is at least `2^(p-1)`. -/
theorem expOf_lower {p N D : Nat} (hp : 1 ≤ p) (hD : 0 < D) (hE : 0 < expOf p N D) :
    2 ^ (p - 1) * (D * 2 ^ expOf p N D) ≤ N := by
  unfold expOf at hE ⊢
  by_cases hle : D ≤ N
  · rw [if_pos hle] at hE ⊢
    have s := (flog2Q_spec hD hle).1
    generalize flog2Q N D = L at s hE
    have e : p - 1 + (L + 1 - p) = L := by omega
    calc 2 ^ (p - 1) * (D * 2 ^ (L + 1 - p)) = D * 2 ^ (p - 1 + (L + 1 - p)) := by rw [Nat.pow_add]; ac_rfl
      _ = D * 2 ^ L := by rw [e]
      _ ≤ N := s
  · rw [if_neg hle] at hE; omega

theorem roundNat_value {p N D : Nat} (hp : 1 ≤ p) :
    (roundNat p N D).1 * 2 ^ (roundNat p N D).2 = rneDiv N (D * 2 ^ expOf p N D) * 2 ^ expOf p N D := by
  unfold roundNat
  simp only
  split
  · rename_i h
    rw [h]
    simp only
    have : 2 ^ p = 2 ^ (p - 1) * 2 := by rw [← Nat.pow_succ]; congr 1; omega
    rw [this, Nat.pow_succ]; ac_rfl
  · rfl

/-- The result is a member of the format in canonical form. -/
theorem roundNat_canonical {p N D : Nat} (hp : 1 ≤ p) (hD : 0 < D) :
    (roundNat p N D).1 < 2 ^ p ∧ ((roundNat p N D).2 = 0 ∨ 2 ^ (p - 1) ≤ (roundNat p N D).1) := by
  have hden : 0 < D * 2 ^ expOf p N D := Nat.mul_pos hD (pow2_pos _)
  have hup : rneDiv N (D * 2 ^ expOf p N D) ≤ 2 ^ p :=
    rneDiv_le_of_le_mul hden (Nat.le_of_lt (expOf_upper hD))
  unfold roundNat
  simp only
  split
  · simp only
    exact ⟨pow2_lt_iff.2 (by omega), Or.inr (Nat.le_refl _)⟩
  · rename_i hne
    simp only
    refine ⟨by omega, ?_⟩
    by_cases hE : expOf p N D = 0
    · exact Or.inl hE
    · exact Or.inr (le_rneDiv_of_mul_le hden (expOf_lower hp hD (by omega)))

/-- Round to nearest: no member `m' * 2^E'` of the format is closer to `N / D` (distances scaled by `2 * D`). -/
theorem roundNat_nearest {p N D : Nat} (hp : 1 ≤ p) (hD : 0 < D) (m' E' : Nat) (hm' : m' < 2 ^ p) :
    (2 * (((roundNat p N D).1 * 2 ^ (roundNat p N D).2 * D : Nat) : Int) - 2 * (N : Int)).natAbs
      ≤ (2 * ((m' * 2 ^ E' * D : Nat) : Int) - 2 * (N : Int)).natAbs := by
  rw [roundNat_value hp]
  generalize hE0 : expOf p N D = E0
  have hden : 0 < D * 2 ^ E0 := Nat.mul_pos hD (pow2_pos _)
  have re : rneDiv N (D * 2 ^ E0) * 2 ^ E0 * D = rneDiv N (D * 2 ^ E0) * (D * 2 ^ E0) := by ac_rfl
  rw [re]
  by_cases hE : E0 ≤ E'
  · obtain ⟨j, rfl⟩ : ∃ j, E' = E0 + j := ⟨E' - E0, by omega⟩
    have e : m' * 2 ^ (E0 + j) * D = (m' * 2 ^ j) * (D * 2 ^ E0) := by rw [Nat.pow_add]; ac_rfl
    rw [e]
    exact rneDiv_nearest N (D * 2 ^ E0) (m' * 2 ^ j) hden
  · have hpos : 0 < expOf p N D := by omega
    have low := expOf_lower hp hD hpos
    rw [hE0] at low
    have near := rneDiv_nearest N (D * 2 ^ E0) (2 ^ (p - 1)) hden
    -- the other member lies below 2^(p-1) * den
    have hy : m' * 2 ^ E' * D ≤ 2 ^ (p - 1) * (D * 2 ^ E0) := by
      have h1 : m' * 2 ^ E' ≤ 2 ^ p * 2 ^ E' := Nat.mul_le_mul_right _ (Nat.le_of_lt hm')
      have h2 : 2 ^ p * 2 ^ E' ≤ 2 ^ (p - 1) * 2 ^ E0 := by
        rw [← Nat.pow_add, ← Nat.pow_add]; exact pow2_le (by omega)
      calc m' * 2 ^ E' * D ≤ (2 ^ (p - 1) * 2 ^ E0) * D := Nat.mul_le_mul_right _ (Nat.le_trans h1 h2)
        _ = 2 ^ (p - 1) * (D * 2 ^ E0) := by ac_rfl
    generalize rneDiv N (D * 2 ^ E0) * (D * 2 ^ E0) = X at near ⊢
    generalize 2 ^ (p - 1) * (D * 2 ^ E0) = Y at near low hy
    generalize m' * 2 ^ E' * D = Z at hy ⊢
    omega

/-- Ties go to the even significand. -/
theorem roundNat_tie_even {p N D : Nat} (hp : 2 ≤ p) (hD : 0 < D)
    (htie : 2 * (N % (D * 2 ^ expOf p N D)) = D * 2 ^ expOf p N D) : (roundNat p N D).1 % 2 = 0 := by
  have hden : 0 < D * 2 ^ expOf p N D := Nat.mul_pos hD (pow2_pos _)
  have := rneDiv_tie_even N _ hden htie
  unfold roundNat
  simp only
  split
  · simp only
    obtain ⟨j, rfl⟩ : ∃ j, p = j + 2 := ⟨p - 2, by omega⟩
    simp [Nat.pow_succ, Nat.mul_mod_left]
  · simpa using this

/-- A representable bound above `N / D` stays above the rounded value. -/
theorem roundNat_le_repr {p N D a F : Nat} (hp : 1 ≤ p) (hD : 0 < D) (ha : a < 2 ^ p) (h : N ≤ a * 2 ^ F * D) :
    (roundNat p N D).1 * 2 ^ (roundNat p N D).2 ≤ a * 2 ^ F := by
  rw [roundNat_value hp]
  have hden : 0 < D * 2 ^ expOf p N D := Nat.mul_pos hD (pow2_pos _)
  have hEF : expOf p N D ≤ F := by
    by_cases hE : expOf p N D = 0
    · omega
    · have low := expOf_lower hp hD (Nat.pos_of_ne_zero hE)
      -- 2^(p-1) * 2^E0 * D ≤ N ≤ a 2^F D < 2^p 2^F D
      have h1 : 2 ^ (p - 1) * (D * 2 ^ expOf p N D) < 2 ^ p * 2 ^ F * D := by
        calc 2 ^ (p - 1) * (D * 2 ^ expOf p N D) ≤ N := low
          _ ≤ a * 2 ^ F * D := h
          _ < 2 ^ p * 2 ^ F * D := by
            apply Nat.mul_lt_mul_of_pos_right _ hD
            exact Nat.mul_lt_mul_of_pos_right ha (pow2_pos _)
      have h2 : 2 ^ (p - 1 + expOf p N D) * D < 2 ^ (p + F) * D := by
        rw [Nat.pow_add, Nat.pow_add]
        calc 2 ^ (p - 1) * 2 ^ expOf p N D * D = 2 ^ (p - 1) * (D * 2 ^ expOf p N D) := by ac_rfl
          _ < 2 ^ p * 2 ^ F * D := h1
      have h3 := pow2_lt_iff.1 (Nat.lt_of_mul_lt_mul_right h2)
      omega
  generalize expOf p N D = E0 at hden hEF ⊢
  obtain ⟨j, rfl⟩ : ∃ j, F = E0 + j := ⟨F - E0, by omega⟩
  have hle : rneDiv N (D * 2 ^ E0) ≤ a * 2 ^ j := by
    apply rneDiv_le_of_le_mul hden
    calc N ≤ a * 2 ^ (E0 + j) * D := h
      _ = a * 2 ^ j * (D * 2 ^ E0) := by rw [Nat.pow_add]; ac_rfl
  calc rneDiv N (D * 2 ^ E0) * 2 ^ E0 ≤ a * 2 ^ j * 2 ^ E0 := Nat.mul_le_mul_right _ hle
    _ = a * 2 ^ (E0 + j) := by rw [Nat.pow_add]; ac_rfl

/-- The exponent of a canonical result is bounded by the exponent of a representable bound. -/
theorem roundNat_exp_le {p N D a F : Nat} (hp : 1 ≤ p) (hD : 0 < D) (ha : a < 2 ^ p) (h : N ≤ a * 2 ^ F * D) :
    (roundNat p N D).2 ≤ F := by
  have hv := roundNat_le_repr hp hD ha h
  have hc := (roundNat_canonical (N := N) hp hD).2
  generalize (roundNat p N D).1 = m at hv hc
  generalize (roundNat p N D).2 = E at hv hc ⊢
  rcases hc with hc | hc
  · omega
  · have h1 : 2 ^ (p - 1 + E) ≤ m * 2 ^ E := by rw [Nat.pow_add]; exact Nat.mul_le_mul_right _ hc
    have h2 : a * 2 ^ F < 2 ^ (p + F) := by rw [Nat.pow_add]; exact Nat.mul_lt_mul_of_pos_right ha (pow2_pos _)
    have h3 : 2 ^ (p - 1 + E) < 2 ^ (p + F) := by omega
    have := pow2_lt_iff.1 h3
    omega

/-- Rounding a member of the format (canonical form) returns it. -/
theorem roundNat_exact {p a F K : Nat} (hp : 1 ≤ p) (hK : 0 < K) (ha : a < 2 ^ p) (hc : F = 0 ∨ 2 ^ (p - 1) ≤ a) :
    roundNat p (a * 2 ^ F * K) K = (a, F) := by
  rw [roundNat_congr (N' := a * 2 ^ F) (D' := 1) hK (by decide) (by rw [Nat.mul_one])]
  by_cases ha0 : a = 0
  · subst ha0
    have hF : F = 0 := by
      rcases hc with h | h
      · exact h
      · exfalso; have := pow2_pos (p - 1); omega
    subst hF
    have e : expOf p 0 1 = 0 := by unfold expOf; simp; omega
    unfold roundNat
    simp only [Nat.zero_mul, e]
    have : rneDiv 0 (1 * 2 ^ 0) = 0 := by decide
    rw [this, if_neg (by have := pow2_pos p; omega)]
  · have hE : expOf p (a * 2 ^ F) 1 = F := by
      unfold expOf
      have hle : 1 ≤ a * 2 ^ F := Nat.mul_pos (Nat.pos_of_ne_zero ha0) (pow2_pos _)
      rw [if_pos hle]
      rcases hc with h | h
      · subst h
        simp only [Nat.pow_zero, Nat.mul_one]
        have s := (flog2Q_spec (N := a) (D := 1) (by decide) (by omega)).1
        simp only [Nat.one_mul] at s
        generalize flog2Q a 1 = L at s
        have : 2 ^ L < 2 ^ p := by omega
        have := pow2_lt_iff.1 this
        omega
      · have : flog2Q (a * 2 ^ F) 1 = p - 1 + F := by
          apply flog2Q_eq (by decide)
          simp only [Nat.one_mul]
          constructor
          · rw [Nat.pow_add]; exact Nat.mul_le_mul_right _ h
          · rw [show p - 1 + F + 1 = p + F by omega, Nat.pow_add]
            exact Nat.mul_lt_mul_of_pos_right ha (pow2_pos _)
        rw [this]; omega
    unfold roundNat
    simp only [hE, Nat.one_mul]
    rw [rneDiv_exact _ _ (pow2_pos F), if_neg (by omega)]

end NunavutVerif.CLiteral
