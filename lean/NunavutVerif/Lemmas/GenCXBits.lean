import NunavutVerif.Model.GenCX
import NunavutVerif.Lemmas.Bits
/-!
GenCX, part 1 (C14 level, about the unchanged `Model/Bits.lean` primitives): *converse* of the size precondition —
a `nunavutCopyBits` of at least one bit that does not leave its buffers has touched the last byte of both ranges, so
the byte ranges the overlap assertions talk about lie inside the two objects; and the copy reads only the source
bytes below `ceil((sOff + len) / 8)`.
-/
namespace NunavutVerif.Bits

theorem get?_ok_lt {b : Buf} {i x : Nat} (h : get? b i = .ok x) : i < b.length := by
  unfold get? at h
  cases hb : b[i]? with
  | none => simp [hb] at h
  | some y => exact (List.getElem?_eq_some_iff.mp hb).1

theorem set?_ok_inv {b : Buf} {i v : Nat} {r : Buf} (h : set? b i v = .ok r) : i < b.length ∧ r.length = b.length := by
  unfold set? at h
  by_cases hi : i < b.length
  · simp [hi] at h
    subst h
    simp [hi]
  · simp [hi] at h

theorem memmove_ok_inv (n : Nat) : ∀ (dst : Buf) (pd : Nat) (src : Buf) (ps : Nat) (r : Buf),
    memmove dst pd src ps n = .ok r → r.length = dst.length ∧ (0 < n → ps + n ≤ src.length ∧ pd + n ≤ dst.length) := by
  induction n with
  | zero =>
    intro dst pd src ps r h
    simp [memmove] at h
    subst h
    simp
  | succ n ih =>
    intro dst pd src ps r h
    simp only [memmove, bind, Except.bind] at h
    cases hg : get? src ps with
    | error e => simp [hg] at h
    | ok x =>
      simp only [hg] at h
      cases hs : set? dst pd x with
      | error e => simp [hs] at h
      | ok d =>
        simp only [hs] at h
        have h1 := get?_ok_lt hg
        have h2 := set?_ok_inv hs
        have h3 := ih d (pd + 1) src (ps + 1) r h
        refine ⟨by omega, fun _ => ?_⟩
        by_cases hn : 0 < n
        · have := h3.2 hn
          omega
        · omega

theorem copyLoop_ok_inv (fuel : Nat) : ∀ (dst : Buf) (dOff : Nat) (src : Buf) (sOff lastBit : Nat) (r : Buf),
    copyLoop fuel dst dOff src sOff lastBit = .ok r →
    r.length = dst.length ∧
      (sOff < lastBit → (lastBit + 7) / 8 ≤ src.length ∧ (dOff + (lastBit - sOff) + 7) / 8 ≤ dst.length) := by
  induction fuel with
  | zero =>
    intro dst dOff src sOff lastBit r h
    by_cases hl : lastBit > sOff
    · simp [copyLoop, hl] at h
    · simp [copyLoop, hl] at h
      subst h
      exact ⟨rfl, fun h' => absurd h' (by omega)⟩
  | succ fuel ih =>
    intro dst dOff src sOff lastBit r h
    by_cases hl : lastBit > sOff
    · simp only [copyLoop, hl, if_true, bind, Except.bind] at h
      cases hg : get? src (sOff / 8) with
      | error e => simp [hg] at h
      | ok s =>
        simp only [hg] at h
        cases hd : get? dst (dOff / 8) with
        | error e => simp [hd] at h
        | ok d =>
          simp only [hd] at h
          generalize hsz : chooseMin (8 - if sOff % 8 > dOff % 8 then sOff % 8 else dOff % 8) (lastBit - sOff) = size at h
          generalize mergeByte _ _ _ = mb at h
          cases hs : set? dst (dOff / 8) mb with
          | error e => simp [hs] at h
          | ok d' =>
            simp only [hs] at h
            have h1 := get?_ok_lt hg
            have h2 := set?_ok_inv hs
            have h3 := ih d' (dOff + size) src (sOff + size) lastBit r h
            refine ⟨by omega, fun _ => ?_⟩
            have hsz' : size = min (8 - max (sOff % 8) (dOff % 8)) (lastBit - sOff) := by
              rw [← hsz, chooseMin_eq]
              congr 2
              split <;> omega
            by_cases hmore : sOff + size < lastBit
            · have := h3.2 hmore
              have e : dOff + size + (lastBit - (sOff + size)) = dOff + (lastBit - sOff) := by omega
              rw [e] at this
              omega
            · omega
    · simp [copyLoop, hl] at h
      subst h
      exact ⟨rfl, fun h' => absurd h' (by omega)⟩

/-- a successful copy keeps the destination's size, and a successful copy of at least one bit lies inside both
objects: exactly the byte ranges `(off + len + 7) / 8` of the overlap assertions -/
theorem copyBits_ok_inv {dst : Buf} {dOff len : Nat} {src : Buf} {sOff : Nat} {r : Buf}
    (h : copyBits dst dOff len src sOff = .ok r) :
    r.length = dst.length ∧ (0 < len → (sOff + len + 7) / 8 ≤ src.length ∧ (dOff + len + 7) / 8 ≤ dst.length) := by
  unfold copyBits at h
  by_cases hal : sOff % 8 = 0 ∧ dOff % 8 = 0
  · simp only [hal, and_self, if_true, bind, Except.bind] at h
    cases hm : memmoveIfNonzero dst (dOff / 8) src (sOff / 8) (len / 8) with
    | error e => simp [hm] at h
    | ok d1 =>
      simp only [hm] at h
      have hm' : d1.length = dst.length ∧
          (0 < len / 8 → sOff / 8 + len / 8 ≤ src.length ∧ dOff / 8 + len / 8 ≤ dst.length) := by
        unfold memmoveIfNonzero at hm
        by_cases hn : len / 8 > 0
        · simp only [hn, if_true] at hm
          exact memmove_ok_inv _ _ _ _ _ _ hm
        · simp [hn] at hm
          subst hm
          exact ⟨rfl, fun h' => absurd h' hn⟩
      by_cases hmod : len % 8 ≠ 0
      · simp only [hmod, ne_eq, not_false_eq_true, if_true] at h
        cases hg1 : get? d1 (dOff / 8 + len / 8) with
        | error e => simp [hg1] at h
        | ok ld =>
          simp only [hg1] at h
          cases hg2 : get? src (sOff / 8 + len / 8) with
          | error e => simp [hg2] at h
          | ok ls =>
            simp only [hg2] at h
            have a1 := get?_ok_lt hg1
            have a2 := get?_ok_lt hg2
            have a3 := set?_ok_inv h
            refine ⟨by omega, fun _ => ?_⟩
            omega
      · simp only [hmod, if_false] at h
        simp only [Except.ok.injEq] at h
        subst h
        refine ⟨hm'.1, fun hl => ?_⟩
        have : 0 < len / 8 := by omega
        have := hm'.2 this
        omega
  · simp only [hal, if_false] at h
    have := copyLoop_ok_inv _ _ _ _ _ _ _ h
    refine ⟨this.1, fun hl => ?_⟩
    have := this.2 (by omega)
    have e : sOff + len - sOff = len := by omega
    rw [e] at this
    exact this

/-! ### the copy reads only a prefix of the source -/

theorem get?_append_left {p x : Buf} {i : Nat} (h : i < p.length) : get? (p ++ x) i = get? p i := by
  simp [get?, List.getElem?_append_left h]

theorem memmove_src_prefix (n : Nat) : ∀ (dst : Buf) (pd : Nat) (p x y : Buf) (ps : Nat), ps + n ≤ p.length →
    memmove dst pd (p ++ x) ps n = memmove dst pd (p ++ y) ps n := by
  induction n with
  | zero => intros; rfl
  | succ n ih =>
    intro dst pd p x y ps h
    simp only [memmove, bind, Except.bind]
    rw [get?_append_left (by omega), get?_append_left (by omega)]
    cases get? p ps with
    | error e => rfl
    | ok b =>
      simp only
      cases set? dst pd b with
      | error e => rfl
      | ok d => exact ih d (pd + 1) p x y (ps + 1) (by omega)

theorem copyLoop_src_prefix (fuel : Nat) : ∀ (dst : Buf) (dOff : Nat) (p x y : Buf) (sOff lastBit : Nat),
    lastBit ≤ 8 * p.length →
    copyLoop fuel dst dOff (p ++ x) sOff lastBit = copyLoop fuel dst dOff (p ++ y) sOff lastBit := by
  induction fuel with
  | zero => intros; rfl
  | succ fuel ih =>
    intro dst dOff p x y sOff lastBit h
    by_cases hl : lastBit > sOff
    · simp only [copyLoop, hl, if_true, bind, Except.bind]
      rw [get?_append_left (by omega), get?_append_left (by omega)]
      cases get? p (sOff / 8) with
      | error e => rfl
      | ok s =>
        simp only
        cases get? dst (dOff / 8) with
        | error e => rfl
        | ok d =>
          simp only
          cases set? dst (dOff / 8) _ with
          | error e => rfl
          | ok d' => exact ih d' _ p x y _ lastBit h
    · simp [copyLoop, hl]

/-- `nunavutCopyBits` from offset 0 of a source object does not depend on the bytes behind `ceil(len / 8)` -/
theorem copyBits_src_prefix (dst : Buf) (dOff len : Nat) (p x y : Buf) (h : len ≤ 8 * p.length) :
    copyBits dst dOff len (p ++ x) 0 = copyBits dst dOff len (p ++ y) 0 := by
  unfold copyBits
  by_cases hal : dOff % 8 = 0
  · simp only [hal, Nat.zero_mod, and_self, if_true, bind, Except.bind, Nat.zero_div, Nat.zero_add]
    have hm : memmoveIfNonzero dst (dOff / 8) (p ++ x) 0 (len / 8) = memmoveIfNonzero dst (dOff / 8) (p ++ y) 0 (len / 8) := by
      unfold memmoveIfNonzero
      split
      · exact memmove_src_prefix _ _ _ _ _ _ _ (by omega)
      · rfl
    rw [hm]
    cases memmoveIfNonzero dst (dOff / 8) (p ++ y) 0 (len / 8) with
    | error e => rfl
    | ok d1 =>
      simp only
      by_cases hmod : len % 8 ≠ 0
      · simp only [hmod, ne_eq, not_false_eq_true, if_true]
        rw [get?_append_left (x := x) (by omega), get?_append_left (x := y) (by omega)]
      · simp [hmod]
  · simp only [hal, and_false, if_false, Nat.zero_add]
    exact copyLoop_src_prefix _ _ _ _ _ _ _ _ h

/-! ### writes below `q.length` leave the rest of a longer destination alone -/

/-- `r ++ x` on success -/
def appR (x : Buf) (r : Except Err Buf) : Except Err Buf :=
  match r with
  | .error e => .error e
  | .ok b => .ok (b ++ x)

theorem set?_append_left {q x : Buf} {i v : Nat} (h : i < q.length) : set? (q ++ x) i v = appR x (set? q i v) := by
  have h' : i < q.length + x.length := by omega
  simp [set?, h, h', appR, List.set_append_left _ _ h]

theorem memset0_ok_len (n : Nat) : ∀ (dst : Buf) (p : Nat) (r : Buf), memset0 dst p n = .ok r → r.length = dst.length := by
  induction n with
  | zero =>
    intro dst p r h
    simp [memset0] at h
    rw [h]
  | succ n ih =>
    intro dst p r h
    simp only [memset0, bind, Except.bind] at h
    cases hs : set? dst p 0 with
    | error e => simp [hs] at h
    | ok d =>
      simp only [hs] at h
      have := ih d (p + 1) r h
      have := set?_ok_inv hs
      omega

theorem memset0_append (n : Nat) : ∀ (q x : Buf) (p : Nat), p + n ≤ q.length →
    memset0 (q ++ x) p n = appR x (memset0 q p n) := by
  induction n with
  | zero => intros; rfl
  | succ n ih =>
    intro q x p h
    simp only [memset0, bind, Except.bind]
    rw [set?_append_left (by omega)]
    cases hs : set? q p 0 with
    | error e => rfl
    | ok d =>
      simp only [appR]
      exact ih d x (p + 1) (by have := set?_ok_inv hs; omega)

theorem memmove_append (n : Nat) : ∀ (q x : Buf) (pd : Nat) (src : Buf) (ps : Nat), pd + n ≤ q.length →
    memmove (q ++ x) pd src ps n = appR x (memmove q pd src ps n) := by
  induction n with
  | zero => intros; rfl
  | succ n ih =>
    intro q x pd src ps h
    simp only [memmove, bind, Except.bind]
    cases get? src ps with
    | error e => rfl
    | ok b =>
      simp only
      rw [set?_append_left (by omega)]
      cases hs : set? q pd b with
      | error e => rfl
      | ok d =>
        simp only [appR]
        exact ih d x (pd + 1) src (ps + 1) (by have := set?_ok_inv hs; omega)

theorem copyLoop_append (fuel : Nat) : ∀ (q x : Buf) (dOff : Nat) (src : Buf) (sOff lastBit : Nat),
    dOff + (lastBit - sOff) ≤ 8 * q.length →
    copyLoop fuel (q ++ x) dOff src sOff lastBit = appR x (copyLoop fuel q dOff src sOff lastBit) := by
  induction fuel with
  | zero =>
    intro q x dOff src sOff lastBit _
    simp only [copyLoop]
    split <;> rfl
  | succ fuel ih =>
    intro q x dOff src sOff lastBit h
    by_cases hl : lastBit > sOff
    · simp only [copyLoop, hl, if_true, bind, Except.bind]
      cases get? src (sOff / 8) with
      | error e => rfl
      | ok s =>
        simp only
        rw [get?_append_left (by omega)]
        cases get? q (dOff / 8) with
        | error e => rfl
        | ok d =>
          simp only
          rw [set?_append_left (by omega)]
          generalize hsz : chooseMin (8 - if sOff % 8 > dOff % 8 then sOff % 8 else dOff % 8) (lastBit - sOff) = size
          cases hs : set? q (dOff / 8) _ with
          | error e => rfl
          | ok d' =>
            simp only [appR]
            have hsz' : size ≤ lastBit - sOff := by
              rw [← hsz, chooseMin_eq]; exact Nat.min_le_right _ _
            exact ih d' x (dOff + size) src (sOff + size) lastBit (by have := set?_ok_inv hs; omega)
    · simp [copyLoop, hl, appR]

theorem copyBits_append (q x : Buf) (dOff len : Nat) (src : Buf) (sOff : Nat) (h : dOff + len ≤ 8 * q.length) :
    copyBits (q ++ x) dOff len src sOff = appR x (copyBits q dOff len src sOff) := by
  unfold copyBits
  by_cases hal : sOff % 8 = 0 ∧ dOff % 8 = 0
  · simp only [hal, and_self, if_true, bind, Except.bind]
    have hm : memmoveIfNonzero (q ++ x) (dOff / 8) src (sOff / 8) (len / 8) =
        appR x (memmoveIfNonzero q (dOff / 8) src (sOff / 8) (len / 8)) := by
      unfold memmoveIfNonzero
      split
      · exact memmove_append _ _ _ _ _ _ (by omega)
      · rfl
    rw [hm]
    cases hmm : memmoveIfNonzero q (dOff / 8) src (sOff / 8) (len / 8) with
    | error e => rfl
    | ok d1 =>
      simp only [appR]
      have hl1 : d1.length = q.length := by
        unfold memmoveIfNonzero at hmm
        split at hmm
        · exact (memmove_ok_inv _ _ _ _ _ _ hmm).1
        · simp only [Except.ok.injEq] at hmm; rw [← hmm]
      by_cases hmod : len % 8 ≠ 0
      · simp only [hmod, ne_eq, not_false_eq_true, if_true]
        rw [get?_append_left (by omega)]
        cases get? d1 (dOff / 8 + len / 8) with
        | error e => rfl
        | ok ld =>
          simp only
          cases get? src (sOff / 8 + len / 8) with
          | error e => rfl
          | ok ls =>
            simp only
            rw [set?_append_left (by omega)]
            rfl
      · simp [hmod]
  · simp only [hal, if_false]
    exact copyLoop_append _ _ _ _ _ _ _ (by omega)

theorem getBits_append (q x buf : Buf) (size off len : Nat) (h : (len + 7) / 8 ≤ q.length) :
    getBits (q ++ x) buf size off len = appR x (getBits q buf size off len) := by
  unfold getBits
  simp only [bind, Except.bind]
  have hsat : saturate size off len ≤ len := by rw [saturate_eq]; exact Nat.min_le_left _ _
  cases hs : sub? ((len + 7) / 8) (saturate size off len / 8) with
  | error e => rfl
  | ok n =>
    simp only
    have hn : n = (len + 7) / 8 - saturate size off len / 8 := by
      unfold sub? at hs
      split at hs
      · simp only [Except.ok.injEq] at hs; exact hs.symm
      · cases hs
    rw [memset0_append _ _ _ _ (by omega)]
    cases hm : memset0 q (saturate size off len / 8) n with
    | error e => rfl
    | ok q1 =>
      simp only [appR]
      have := memset0_ok_len _ _ _ _ hm
      exact copyBits_append q1 x 0 _ buf off (by omega)

theorem getBits_ok_length {out buf : Buf} {size off len : Nat} {r : Buf} (h : getBits out buf size off len = .ok r) :
    r.length = out.length := by
  unfold getBits at h
  simp only [bind, Except.bind] at h
  cases hs : sub? ((len + 7) / 8) (saturate size off len / 8) with
  | error e => simp [hs] at h
  | ok n =>
    simp only [hs] at h
    cases hm : memset0 out (saturate size off len / 8) n with
    | error e => simp [hm] at h
    | ok q1 =>
      simp only [hm] at h
      rw [(copyBits_ok_inv h).1, memset0_ok_len _ _ _ _ hm]

end NunavutVerif.Bits
