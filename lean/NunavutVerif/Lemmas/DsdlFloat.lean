import NunavutVerif.Lemmas.DsdlBits
/-!
IEEE-754 bit-pattern lemmas for the DSDL specification model: the narrowed pattern fits its width; widening
followed by narrowing is the identity on every pattern the narrowing can produce.
-/
namespace NunavutVerif.Dsdl

theorem narrowTo_lt_16 (m : Cast) (x : Nat) : narrowTo 5 10 m x < 2 ^ 16 := by
  have hs : (x >>> 63) % 2 < 2 := Nat.mod_lt _ (by decide)
  simp only [narrowTo, Nat.shiftLeft_eq]
  generalize (x >>> 63) % 2 = s at hs ⊢
  repeat' split
  all_goals simp only [Nat.reducePow, Nat.reduceAdd, Nat.reduceSub, Nat.reduceMul] at *
  all_goals omega

theorem narrowTo_lt_32 (m : Cast) (x : Nat) : narrowTo 8 23 m x < 2 ^ 32 := by
  have hs : (x >>> 63) % 2 < 2 := Nat.mod_lt _ (by decide)
  have hp : (x % 2 ^ 52 >>> (52 - 23)) % 2 ^ (23 - 1) < 2 ^ (23 - 1) := Nat.mod_lt _ (by decide)
  simp only [narrowTo, Nat.shiftLeft_eq]
  generalize (x >>> 63) % 2 = s at hs ⊢
  generalize (x % 2 ^ 52 >>> (52 - 23)) % 2 ^ (23 - 1) = p at hp ⊢
  repeat' split
  all_goals simp only [Nat.reducePow, Nat.reduceAdd, Nat.reduceSub, Nat.reduceMul] at *
  all_goals omega

theorem narrow_lt {n : Nat} (hn : n = 16 ∨ n = 32 ∨ n = 64) (m : Cast) (x : Nat) :
    narrow n m x < 2 ^ n := by
  rcases hn with rfl | rfl | rfl
  · simpa [narrow] using narrowTo_lt_16 m x
  · simpa [narrow] using narrowTo_lt_32 m x
  · simp only [narrow]; exact Nat.mod_lt _ (by decide)

theorem rne_exact (a j : Nat) : rne (a * 2 ^ j) j = a := by
  unfold rne
  by_cases hj : j = 0
  · subst hj; simp
  · have hp : 0 < 2 ^ j := Nat.pow_pos (by decide)
    have hh : 0 < 2 ^ (j - 1) := Nat.pow_pos (by decide)
    simp only [hj, if_false, Nat.shiftRight_eq_div_pow, Nat.mul_div_cancel _ hp, Nat.mul_mod_left]
    rw [if_neg]
    omega

/-- What the narrowing emits for NaN: quiet bit set (binary32) / exactly the quiet bit (binary16). -/
def Canon32 (w : Nat) : Prop :=
  w < 2 ^ 32 ∧ (w / 2 ^ 23 % 256 = 255 → w % 2 ^ 23 ≠ 0 → 2 ^ 22 ≤ w % 2 ^ 23)

theorem canon32_narrowTo (m : Cast) (x : Nat) : Canon32 (narrowTo 8 23 m x) := by
  refine ⟨narrowTo_lt_32 m x, ?_⟩
  have hs : (x >>> 63) % 2 < 2 := Nat.mod_lt _ (by decide)
  have hp : (x % 2 ^ 52 >>> (52 - 23)) % 2 ^ (23 - 1) < 2 ^ (23 - 1) := Nat.mod_lt _ (by decide)
  simp only [narrowTo, Nat.shiftLeft_eq]
  generalize (x >>> 63) % 2 = s at hs ⊢
  generalize (x % 2 ^ 52 >>> (52 - 23)) % 2 ^ (23 - 1) = p at hp ⊢
  repeat' split
  all_goals simp only [Nat.reducePow, Nat.reduceAdd, Nat.reduceSub, Nat.reduceMul] at *
  all_goals omega

theorem pow_log2_bounds {f : Nat} (hf : f ≠ 0) {mb : Nat} (hlt : f < 2 ^ mb) :
    mb ≤ 52 → f.log2 < mb ∧ 2 ^ 52 ≤ f * 2 ^ (52 - f.log2) ∧ f * 2 ^ (52 - f.log2) < 2 ^ 53 := by
  have h1 := Nat.log2_self_le hf
  have h2 := @Nat.lt_log2_self f
  have h3 : f.log2 < mb := (Nat.log2_lt hf).2 hlt
  intro hmb
  refine ⟨h3, ?_, ?_⟩
  · have e : 2 ^ 52 = 2 ^ f.log2 * 2 ^ (52 - f.log2) := by
      rw [← Nat.pow_add]; congr 1; omega
    rw [e]; exact Nat.mul_le_mul_right _ h1
  · have e : 2 ^ 53 = 2 ^ (f.log2 + 1) * 2 ^ (52 - f.log2) := by
      rw [← Nat.pow_add]; congr 1; omega
    rw [e]; exact Nat.mul_lt_mul_of_pos_right h2 (Nat.pow_pos (by decide))

/-- `narrowTo` on the three fields of the binary64 pattern. -/
def narrowCore (eb mb : Nat) (m : Cast) (s e f : Nat) : Nat :=
  let sign := s <<< (eb + mb)
  let inf := (2 ^ eb - 1) <<< mb
  if e = 2047 then
    if f = 0 then sign + inf
    else sign + inf + 2 ^ (mb - 1) + (if mb = 23 then (f >>> (52 - mb)) % 2 ^ (mb - 1) else 0)
  else
    let d := 1023 - (2 ^ (eb - 1) - 1)
    let sig := if e = 0 then f else 2 ^ 52 + f
    let e1 := if e = 0 then 1 else e
    let mag :=
      if e1 > d then (e1 - d - 1) <<< mb + rne sig (52 - mb)
      else rne sig ((52 - mb) + (d + 1 - e1))
    if mag ≥ inf then
      match m with
      | .trunc => sign + inf
      | .sat => sign + (inf - 1)
    else sign + mag

theorem narrowTo_eq_core (eb mb : Nat) (m : Cast) (x : Nat) :
    narrowTo eb mb m x = narrowCore eb mb m ((x >>> 63) % 2) ((x >>> 52) % 2048) (x % 2 ^ 52) := rfl

theorem narrowTo_fields (eb mb : Nat) (m : Cast) {s E F : Nat} (hs : s < 2) (hE : E < 2048)
    (hF : F < 2 ^ 52) :
    narrowTo eb mb m (s * 2 ^ 63 + E * 2 ^ 52 + F) = narrowCore eb mb m s E F := by
  rw [narrowTo_eq_core]
  simp only [Nat.shiftRight_eq_div_pow]
  have x1 : (s * 2 ^ 63 + E * 2 ^ 52 + F) / 2 ^ 63 % 2 = s := by omega
  have x2 : (s * 2 ^ 63 + E * 2 ^ 52 + F) / 2 ^ 52 % 2048 = E := by omega
  have x3 : (s * 2 ^ 63 + E * 2 ^ 52 + F) % 2 ^ 52 = F := by omega
  rw [x1, x2, x3]

theorem rne_zero (sh : Nat) : rne 0 sh = 0 := by
  have := rne_exact 0 sh
  simpa using this

theorem narrow_widen_32 (m : Cast) {w : Nat} (hc : Canon32 w) :
    narrowTo 8 23 m (widenFrom 8 23 w) = w := by
  obtain ⟨hw, hnan⟩ := hc
  -- fields of w
  have hs : (w >>> (8 + 23)) % 2 < 2 := Nat.mod_lt _ (by decide)
  have he : (w >>> 23) % 2 ^ 8 < 2 ^ 8 := Nat.mod_lt _ (by decide)
  have hf : w % 2 ^ 23 < 2 ^ 23 := Nat.mod_lt _ (by decide)
  have hw' : w = ((w >>> (8 + 23)) % 2) * 2 ^ 31 + ((w >>> 23) % 2 ^ 8) * 2 ^ 23 + w % 2 ^ 23 := by
    simp only [Nat.shiftRight_eq_div_pow]; omega
  have hnan' : (w >>> 23) % 2 ^ 8 = 255 → w % 2 ^ 23 ≠ 0 → 2 ^ 22 ≤ w % 2 ^ 23 := by
    simp only [Nat.shiftRight_eq_div_pow]; exact hnan
  unfold widenFrom
  simp only []
  generalize (w >>> (8 + 23)) % 2 = s at *
  generalize (w >>> 23) % 2 ^ 8 = e at *
  generalize w % 2 ^ 23 = f at *
  clear hw hnan
  subst hw'
  simp only [Nat.reduceSub, Nat.shiftLeft_eq] at *
  by_cases h255 : e = 255
  · subst h255
    simp only [if_true]
    rw [narrowTo_fields 8 23 m (E := 2047) (F := f * 2 ^ 29) hs (by omega) (by omega)]
    simp only [narrowCore, if_true, Nat.shiftLeft_eq, Nat.shiftRight_eq_div_pow, Nat.reduceSub, Nat.reduceAdd]
    by_cases hf0 : f = 0
    · subst hf0; simp only [Nat.zero_mul, if_true]
    · rw [if_neg (Nat.mul_ne_zero hf0 (Nat.ne_of_gt (Nat.pow_pos (by decide))))]
      have := hnan' rfl hf0
      simp only [Nat.reducePow, Nat.reduceSub, Nat.reduceMul] at * <;> omega
  · rw [if_neg (by omega)]
    by_cases h0 : e = 0
    · subst h0
      simp only [if_true]
      by_cases hf0 : f = 0
      · subst hf0
        simp only [if_true]
        have := narrowTo_fields 8 23 m (s := s) (E := 0) (F := 0) hs (by omega) (by omega)
        simp only [Nat.zero_mul, Nat.add_zero] at this
        rw [this]
        simp only [narrowCore, if_true, rne_zero, Nat.shiftLeft_eq, Nat.reducePow, Nat.reduceSub,
          Nat.reduceAdd, Nat.reduceMul]
        simp
      · rw [if_neg hf0]
        obtain ⟨hk, hg1, hg2⟩ := pow_log2_bounds hf0 hf (by decide)
        generalize f.log2 = k at *
        have e1 : s * 2 ^ 63 + (k + 896 - 23) * 2 ^ 52 + f * 2 ^ (52 - k)
            = s * 2 ^ 63 + (k + 874) * 2 ^ 52 + (f * 2 ^ (52 - k) - 2 ^ 52) := by omega
        rw [e1, narrowTo_fields 8 23 m (E := k + 874) (F := f * 2 ^ (52 - k) - 2 ^ 52) hs
          (by omega) (by omega)]
        clear e1
        have e2 : 2 ^ 52 + (f * 2 ^ (52 - k) - 2 ^ 52) = f * 2 ^ (52 - k) := by omega
        have e3 : 29 + (896 + 1 - (k + 874)) = 52 - k := by omega
        have hn1 : ¬ (k + 874 = 2047) := by omega
        have hn2 : ¬ (k + 874 > 896) := by omega
        simp only [narrowCore, Nat.shiftLeft_eq, Nat.reduceSub, Nat.reduceAdd, Nat.reducePow,
          if_neg (show ¬ (k + 874 = 0) by omega), if_neg hn1, if_neg hn2, e2, e3, rne_exact]
        rw [if_neg (by omega)]
        omega
    · rw [if_neg h0]
      rw [narrowTo_fields 8 23 m (E := e + 896) (F := f * 2 ^ 29) hs (by omega) (by omega)]
      have hn1 : ¬ (e + 896 = 2047) := by omega
      have hp2 : e + 896 > 896 := by omega
      have e2 : 2 ^ 52 + f * 2 ^ 29 = (2 ^ 23 + f) * 2 ^ 29 := by omega
      simp only [narrowCore, Nat.shiftLeft_eq, Nat.reduceSub, Nat.reduceAdd,
        if_neg (show ¬ (e + 896 = 0) by omega), if_neg hn1, if_pos hp2, e2, rne_exact]
      simp only [Nat.reducePow, Nat.reduceSub, Nat.reduceMul]
      rw [if_neg (by omega)]
      omega


/-- What the narrowing emits for NaN: quiet bit set (binary32) / exactly the quiet bit (binary16). -/
def Canon16 (w : Nat) : Prop :=
  w < 2 ^ 16 ∧ (w / 2 ^ 10 % 32 = 31 → w % 2 ^ 10 ≠ 0 → w % 2 ^ 10 = 2 ^ 9)

theorem canon16_narrowTo (m : Cast) (x : Nat) : Canon16 (narrowTo 5 10 m x) := by
  refine ⟨narrowTo_lt_16 m x, ?_⟩
  have hs : (x >>> 63) % 2 < 2 := Nat.mod_lt _ (by decide)
  simp only [narrowTo, Nat.shiftLeft_eq]
  generalize (x >>> 63) % 2 = s at hs ⊢
  repeat' split
  all_goals simp only [Nat.reducePow, Nat.reduceAdd, Nat.reduceSub, Nat.reduceMul] at *
  all_goals omega


theorem narrow_widen_16 (m : Cast) {w : Nat} (hc : Canon16 w) :
    narrowTo 5 10 m (widenFrom 5 10 w) = w := by
  obtain ⟨hw, hnan⟩ := hc
  -- fields of w
  have hs : (w >>> (5 + 10)) % 2 < 2 := Nat.mod_lt _ (by decide)
  have he : (w >>> 10) % 2 ^ 5 < 2 ^ 5 := Nat.mod_lt _ (by decide)
  have hf : w % 2 ^ 10 < 2 ^ 10 := Nat.mod_lt _ (by decide)
  have hw' : w = ((w >>> (5 + 10)) % 2) * 2 ^ 15 + ((w >>> 10) % 2 ^ 5) * 2 ^ 10 + w % 2 ^ 10 := by
    simp only [Nat.shiftRight_eq_div_pow]; omega
  have hnan' : (w >>> 10) % 2 ^ 5 = 31 → w % 2 ^ 10 ≠ 0 → w % 2 ^ 10 = 2 ^ 9 := by
    simp only [Nat.shiftRight_eq_div_pow]; exact hnan
  unfold widenFrom
  simp only []
  generalize (w >>> (5 + 10)) % 2 = s at *
  generalize (w >>> 10) % 2 ^ 5 = e at *
  generalize w % 2 ^ 10 = f at *
  clear hw hnan
  subst hw'
  simp only [Nat.reduceSub, Nat.shiftLeft_eq] at *
  by_cases h31 : e = 31
  · subst h31
    simp only [if_true]
    rw [narrowTo_fields 5 10 m (E := 2047) (F := f * 2 ^ 42) hs (by omega) (by omega)]
    simp only [narrowCore, if_true, Nat.shiftLeft_eq, Nat.shiftRight_eq_div_pow, Nat.reduceSub, Nat.reduceAdd,
      if_neg (show ¬ (10 = 23) by decide)]
    by_cases hf0 : f = 0
    · subst hf0; simp only [Nat.zero_mul, if_true]
    · rw [if_neg (Nat.mul_ne_zero hf0 (Nat.ne_of_gt (Nat.pow_pos (by decide))))]
      have := hnan' rfl hf0
      simp only [Nat.reducePow, Nat.reduceSub, Nat.reduceMul] at * <;> omega
  · rw [if_neg (by omega)]
    by_cases h0 : e = 0
    · subst h0
      simp only [if_true]
      by_cases hf0 : f = 0
      · subst hf0
        simp only [if_true]
        have := narrowTo_fields 5 10 m (s := s) (E := 0) (F := 0) hs (by omega) (by omega)
        simp only [Nat.zero_mul, Nat.add_zero] at this
        rw [this]
        simp only [narrowCore, if_true, rne_zero, Nat.shiftLeft_eq, Nat.reducePow, Nat.reduceSub,
          Nat.reduceAdd, Nat.reduceMul]
        simp
      · rw [if_neg hf0]
        obtain ⟨hk, hg1, hg2⟩ := pow_log2_bounds hf0 hf (by decide)
        generalize f.log2 = k at *
        have e1 : s * 2 ^ 63 + (k + 1008 - 10) * 2 ^ 52 + f * 2 ^ (52 - k)
            = s * 2 ^ 63 + (k + 999) * 2 ^ 52 + (f * 2 ^ (52 - k) - 2 ^ 52) := by omega
        rw [e1, narrowTo_fields 5 10 m (E := k + 999) (F := f * 2 ^ (52 - k) - 2 ^ 52) hs
          (by omega) (by omega)]
        clear e1
        have e2 : 2 ^ 52 + (f * 2 ^ (52 - k) - 2 ^ 52) = f * 2 ^ (52 - k) := by omega
        have e3 : 42 + (1008 + 1 - (k + 999)) = 52 - k := by omega
        have hn1 : ¬ (k + 999 = 2047) := by omega
        have hn2 : ¬ (k + 999 > 1008) := by omega
        simp only [narrowCore, Nat.shiftLeft_eq, Nat.reduceSub, Nat.reduceAdd, Nat.reducePow,
          if_neg (show ¬ (k + 999 = 0) by omega), if_neg hn1, if_neg hn2, e2, e3, rne_exact]
        rw [if_neg (by omega)]
        omega
    · rw [if_neg h0]
      rw [narrowTo_fields 5 10 m (E := e + 1008) (F := f * 2 ^ 42) hs (by omega) (by omega)]
      have hn1 : ¬ (e + 1008 = 2047) := by omega
      have hp2 : e + 1008 > 1008 := by omega
      have e2 : 2 ^ 52 + f * 2 ^ 42 = (2 ^ 10 + f) * 2 ^ 42 := by omega
      simp only [narrowCore, Nat.shiftLeft_eq, Nat.reduceSub, Nat.reduceAdd,
        if_neg (show ¬ (e + 1008 = 0) by omega), if_neg hn1, if_pos hp2, e2, rne_exact]
      simp only [Nat.reducePow, Nat.reduceSub, Nat.reduceMul]
      rw [if_neg (by omega)]
      omega


/-- Patterns the narrowing can produce (`n`-bit wire patterns without signalling / payload-carrying NaNs
that the narrowing never emits). -/
def Canon (n w : Nat) : Prop :=
  if n = 16 then Canon16 w else if n = 32 then Canon32 w else w < 2 ^ 64

theorem canon_narrow {n : Nat} (hn : n = 16 ∨ n = 32 ∨ n = 64) (m : Cast) (x : Nat) :
    Canon n (narrow n m x) := by
  rcases hn with rfl | rfl | rfl
  · simpa [Canon, narrow] using canon16_narrowTo m x
  · simpa [Canon, narrow] using canon32_narrowTo m x
  · simp only [Canon, narrow]; exact Nat.mod_lt _ (by decide)

/-- Widening is exact and narrowing is its left inverse on every pattern the narrowing emits. -/
theorem narrow_widen {n : Nat} (hn : n = 16 ∨ n = 32 ∨ n = 64) (m : Cast) {w : Nat} (hc : Canon n w) :
    narrow n m (widen n w) = w := by
  rcases hn with rfl | rfl | rfl
  · simp only [Canon] at hc; simpa [narrow, widen] using narrow_widen_16 m hc
  · simp only [Canon] at hc; simpa [narrow, widen] using narrow_widen_32 m hc
  · simp only [Canon] at hc; simp only [narrow, widen]; exact Nat.mod_eq_of_lt (by simpa using hc)

/-- The float law behind re-serialization: narrowing the widened wire pattern gives the wire pattern. -/
theorem narrow_widen_narrow {n : Nat} (hn : n = 16 ∨ n = 32 ∨ n = 64) (m : Cast) (x : Nat) :
    narrow n m (widen n (narrow n m x)) = narrow n m x :=
  narrow_widen hn m (canon_narrow hn m x)

end NunavutVerif.Dsdl
