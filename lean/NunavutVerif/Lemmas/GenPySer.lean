import NunavutVerif.Lemmas.GenPySerPrim
import NunavutVerif.Lemmas.DsdlRoundTrip
/-!
Refinement, stages 2–6 of the serializer: arrays (three element paths), structures, unions, sealed nesting,
delimited nesting — by structural induction over the type (`Ty.ind`).
-/
namespace NunavutVerif.GenPy
open NunavutVerif.Dsdl
open NunavutVerif.Bits (Buf Err bitAt WF)
open NunavutVerif.Bits.Py

/-- The emitted code `r`, started in state `s`, does what the specification result `spec` says: on success it
appends exactly `pre ++ bits` (and keeps the zero-tail invariant); a specification error is raised as the
corresponding Python exception. -/
def Match (r : Except Exc Ser) (s : Ser) (pre : List Bool) (spec : Except SerErr (List Bool)) : Prop :=
  match spec with
  | .ok bs => ∃ s', r = .ok s' ∧ AppL s s' (pre ++ bs)
  | .error e => r = .error (excOf e)

/-- refinement claim for `_serialize_any(t, …)` at an arbitrary cursor -/
def SerRef (env : Env) (t : Ty) : Prop :=
  ∀ (o : AOff) (s : Ser) (v : Val) (b : Bool), s.Inv → Sound o (s.off + padLen (align t) s.off) →
    Room s (padLen (align t) s.off + maxBits t) → inDom b t v = true →
    Match (serAny env t o s v) s (zeros (padLen (align t) s.off)) (serBits t v)

/-- refinement claim for the method `_serialize_` of the class of `t` at a byte-aligned cursor -/
def ObjRef (env : Env) (t : Ty) : Prop :=
  ∀ (s : Ser) (v : Val) (b : Bool), s.Inv → s.off % 8 = 0 → Room s (maxBits t) → inDom b t v = true →
    Match (serObj env t s v) s [] (serBits t v)

/-! ### offset claims -/

theorem Sound.aligned {o : AOff} {off : Nat} (h : Sound o off) (ha : o.isAligned = true) : off % 8 = 0 := by
  cases o with
  | none => simp [AOff.isAligned] at ha
  | some r =>
    simp only [AOff.isAligned, beq_iff_eq] at ha
    rw [h r rfl, ha]

theorem Sound.pad {o : AOff} {off a : Nat} (ha : a = 1 ∨ a = 8) (h : Sound o off) :
    Sound (o.pad a) (off + padLen a off) := by
  rcases ha with rfl | rfl
  · have : padLen 1 off = 0 := by simp [padLen]; omega
    simpa [AOff.pad, this] using h
  · intro r hr
    simp only [AOff.pad, if_true, Option.some.injEq] at hr
    subst hr
    simp only [padLen]; omega

theorem Sound.add {o l : AOff} {off len : Nat} (h : Sound o off) (hl : ∀ r, l = some r → len % 8 = r % 8) :
    Sound (o.add l) (off + len) := by
  intro r hr
  cases o with
  | none => simp [AOff.add] at hr
  | some a =>
    cases l with
    | none => simp [AOff.add] at hr
    | some b =>
      simp only [AOff.add, Option.some.injEq] at hr
      have h1 := h a rfl
      have h2 := hl b rfl
      omega

theorem Sound.some_zero {off : Nat} (h : off % 8 = 0) : Sound (some 0) off := by
  intro r hr; cases hr; omega

theorem Sound.of_mod {o : AOff} {x y : Nat} (h : Sound o x) (e : x % 8 = y % 8) : Sound o y := by
  intro r hr; rw [← e]; exact h r hr

theorem padLen_zero_of_mod {a off : Nat} (ha : a = 1 ∨ a = 8) (h : off % a = 0) : padLen a off = 0 :=
  padLen_of_mod ha h

theorem padLen_one (off : Nat) : padLen 1 off = 0 := by simp [padLen]; omega

@[simp] theorem assertThat_true : assertThat true = .ok () := rfl
@[simp] theorem assertThat_false : assertThat false = .error .assertion := rfl

theorem zeros_zero : zeros 0 = [] := rfl

theorem le_maxFields (fs : List Ty) : ∀ x, x ≤ maxFields fs x := by
  induction fs with
  | nil => intro x; simp [maxFields]
  | cons f fs ih =>
    intro x
    simp only [maxFields]
    have := ih (padTo (align f) x + maxBits f)
    have := padTo_ge (align f) x
    omega

theorem pow_storage_le (n : Nat) (hn : n ≤ 64) : (2 : Int) ^ n ≤ (2 : Int) ^ storageBits n := by
  have := storageBits_ge n hn
  have h := Nat.pow_le_pow_right (show 0 < 2 by decide) this
  have e1 : ((2 ^ n : Nat) : Int) = (2 : Int) ^ n := by simp
  have e2 : ((2 ^ storageBits n : Nat) : Int) = (2 : Int) ^ storageBits n := by simp
  omega

/-! ### the element loop -/

theorem serElems_spec (env : Env) (t : Ty) (oe : AOff) (hw : wf t = true) (ih : SerRef env t) :
    ∀ (vs : List Val) (s : Ser), s.Inv → s.off % align t = 0 → (vs ≠ [] → Sound oe s.off) →
      (2 ≤ vs.length → oe ≠ none → ∀ v bs, serBits t v = .ok bs → bs.length % 8 = 0) →
      Room s (vs.length * maxBits t) → (∀ v ∈ vs, inDom true t v = true) →
      Match (serElemsWith (serAny env t oe) s vs) s [] (serAllWith (serBits t) vs) := by
  intro vs
  induction vs with
  | nil =>
    intro s hinv _ _ _ _ _
    exact ⟨s, rfl, AppL.refl hinv⟩
  | cons v vs ihv =>
    intro s hinv hal hs hkeep hroom hdom
    have hpad : padLen (align t) s.off = 0 := padLen_zero_of_mod (align_cases t) hal
    have hroom' : Room s (maxBits t + vs.length * maxBits t) := by
      simpa [Nat.succ_mul, Nat.add_comm] using hroom
    have h1 := ih oe s v true hinv (by rw [hpad]; exact hs (by simp)) (by rw [hpad]; exact hroom'.mono (by omega))
      (hdom v (by simp))
    rw [hpad, zeros_zero] at h1
    simp only [serElemsWith, serAllWith]
    cases hsv : serBits t v with
    | error e =>
      rw [hsv] at h1
      simp only [Match] at h1 ⊢
      rw [h1]
    | ok a =>
      rw [hsv] at h1
      obtain ⟨s1, hr1, happ1⟩ := h1
      simp only [List.nil_append] at happ1
      have hl := lenOK t hw v a hsv
      rw [hr1]
      have hsound : vs ≠ [] → Sound oe s1.off := by
        intro hne
        have h2 : 2 ≤ (v :: vs).length := by
          cases vs with
          | nil => exact absurd rfl hne
          | cons _ _ => simp
        cases hoe : oe with
        | none => intro r hr; cases hr
        | some r0 =>
          have := hkeep h2 (by rw [hoe]; simp) v a hsv
          rw [← hoe]
          exact (hs (by simp)).of_mod (by rw [happ1.off]; omega)
      have h2 := ihv s1 happ1.inv (by
          rw [happ1.off]
          rcases align_cases t with h | h <;> rw [h] at hal hl ⊢ <;> omega)
        hsound
        (fun h2 => hkeep (by simp at h2 ⊢; omega))
        (hroom'.after happ1 (by omega))
        (fun w hw' => hdom w (List.mem_cons_of_mem _ hw'))
      cases hrest : serAllWith (serBits t) vs with
      | error e =>
        rw [hrest] at h2
        simp only [Match] at h2 ⊢
        exact h2
      | ok b =>
        rw [hrest] at h2
        obtain ⟨s2, hr2, happ2⟩ := h2
        simp only [List.nil_append] at happ2
        exact ⟨s2, hr2, by simpa using happ1.trans happ2⟩

/-! ### arrays -/

theorem isBoolTy_eq {t : Ty} (h : isBoolTy t = true) : t = .bool := by
  cases t <;> simp_all [isBoolTy]

theorem stdPrim_facts {t : Ty} (h : isStdPrim t = true) (hw : wf t = true) :
    align t = 1 ∧ maxBits t = primBits t ∧ 8 * (primBits t / 8) = primBits t := by
  cases t with
  | uint n m =>
    have := isStd_cases (show isStd n = true from h)
    refine ⟨rfl, rfl, ?_⟩; simp only [primBits]; omega
  | sint n m =>
    have := isStd_cases (show isStd n = true from h)
    refine ⟨rfl, rfl, ?_⟩; simp only [primBits]; omega
  | float n m =>
    simp only [wf, decide_eq_true_eq] at hw
    refine ⟨rfl, rfl, ?_⟩; simp only [primBits]; omega
  | _ => simp [isStdPrim] at h

theorem all_inDom {t : Ty} {vs : List Val} (h : vs.all (inDom true t) = true) : ∀ v ∈ vs, inDom true t v = true := by
  simpa [List.all_eq_true] using h

/-- the three element paths after the (optional) padding and the length prefix; `oa` is the claim the bulk methods
use, `oe` the claim the element loop uses -/
theorem serArrBody_spec (env : Env) (hnp : NpSound env) (t : Ty) (hw : wf t = true) (ih : SerRef env t)
    (oa oe : AOff) (s : Ser) (vs : List Val) (hinv : s.Inv) (hal : s.off % align t = 0)
    (hoa : Sound oa s.off) (hoe : vs ≠ [] → Sound oe s.off)
    (hkeep : 2 ≤ vs.length → oe ≠ none → ∀ v bs, serBits t v = .ok bs → bs.length % 8 = 0)
    (hroom : Room s (vs.length * maxBits t)) (hdom : ∀ v ∈ vs, inDom true t v = true) :
    Match (serArrBody env (serAny env t oe) t oa.isAligned s vs) s [] (serAllWith (serBits t) vs) := by
  by_cases hb : isBoolTy t = true
  · have hp : arrPath t = .bits := by simp [arrPath, hb]
    have := isBoolTy_eq hb
    subst this
    obtain ⟨s', bits, h1, h2, h3⟩ := serBitArray_spec oa.isAligned s vs hinv (fun h => hoa.aligned h) hdom
      (by simpa [maxBits] using hroom)
    simp only [serArrBody, hp]
    rw [h2]
    exact ⟨s', h1, by simpa using h3⟩
  · by_cases hs : isStdPrim t = true
    · have hp : arrPath t = .std := by simp [arrPath, hb, hs]
      obtain ⟨_, hmax, h8⟩ := stdPrim_facts hs hw
      obtain ⟨s', bits, h1, h2, h3⟩ := serStdArray_spec env hnp oa.isAligned t s vs hinv (fun h => hoa.aligned h)
        hs hw hdom (by rw [← hmax]; exact hroom) h8
      simp only [serArrBody, hp]
      rw [h2]
      exact ⟨s', h1, by simpa using h3⟩
    · have hp : arrPath t = .loop := by simp [arrPath, hb, hs]
      simp only [serArrBody, hp]
      exact serElems_spec env t oe hw ih vs s hinv hal hoe hkeep hroom hdom

theorem serAll_len_mod (t : Ty) (hw : wf t = true) (vs : List Val) (bs : List Bool)
    (h : serAllWith (serBits t) vs = .ok bs) :
    bs.length ≤ vs.length * maxBits t ∧ bs.length % align t = 0 := by
  have := serAll_len (t := t) (A := minBits t) (B := maxBits t) (fun v bs h => lenOK t hw v bs h) vs bs h
  exact ⟨this.2.1, this.2.2⟩

/-- trailing `pad_to_alignment` of an array of composites: never moves the cursor -/
theorem serPad_noop (a : Nat) (ha : a = 1 ∨ a = 8) (s : Ser) (hinv : s.Inv) (hal : s.off % a = 0) :
    serPad a s = .ok s := by
  rcases ha with rfl | rfl
  · simp [serPad]
  · obtain ⟨s', h1, h2, _⟩ := padToAlignment_spec s 8 (by omega) hinv (by
      intro hne; rw [padBits_eq_padLen, padLen_zero_of_mod (Or.inr rfl) hal] at hne; exact absurd rfl hne)
    have hz : padBits s.off 8 = 0 := by rw [padBits_eq_padLen]; exact padLen_zero_of_mod (Or.inr rfl) hal
    rw [hz] at h2
    have : s' = s := by
      obtain ⟨e1, e2, e3, e4⟩ := h2
      have hbuf : s'.buf = s.buf := by
        apply Bits.eq_of_bitAt e2 e3.1 hinv.1
        intro i
        rw [e4]
        by_cases hi : i < s.off
        · simp [hi]
        · simp [hi, Inv_bit hinv (by omega : s.off ≤ i)]
      cases s; cases s'; simp_all
    simp [serPad, h1, lift, this]

theorem fixedArr_spec (env : Env) (hs : EnvSound env) (t : Ty) (n : Nat) (hw : wf t = true) (ih : SerRef env t) :
    SerRef env (.arr t n) := by
  intro o s v b hinv hsound hroom hdom
  cases v with
  | arr vs =>
    simp only [inDom, Bool.and_eq_true, beq_iff_eq] at hdom
    obtain ⟨hn, hall⟩ := hdom
    have hdom' := all_inDom hall
    simp only [align, maxBits] at hsound hroom ⊢
    obtain ⟨s0, h0, happ0, hal0⟩ := serPad_spec (align t) (align_cases t) s hinv (hroom.mono (by omega))
    have hroom0 : Room s0 (vs.length * maxBits t) := hroom.after happ0 (by simp [hn])
    have hoff0 : s0.off = s.off + padLen (align t) s.off := by simpa using happ0.off
    -- the claims
    have hoe : vs ≠ [] → Sound (o.add ((env.lr t).rep (n - 1))) s0.off := by
      intro _
      rw [hoff0]
      have := hsound.add (l := (env.lr t).rep (n - 1)) (len := 0) (by
        intro r hr
        simp only [AOff.rep] at hr
        split at hr
        · cases hr; rfl
        · split at hr
          · split at hr
            · cases hr; rfl
            · cases hr
          · cases hr)
      simpa using this
    have hkeep : 2 ≤ vs.length → o.add ((env.lr t).rep (n - 1)) ≠ none →
        ∀ v bs, serBits t v = .ok bs → bs.length % 8 = 0 := by
      intro h2 hne v bs hsv
      cases hlr : env.lr t with
      | none =>
        exfalso; apply hne
        simp only [AOff.rep, hlr, show ¬ n - 1 = 0 by omega, if_false]
        cases o <;> rfl
      | some x =>
        by_cases hx : x % 8 = 0
        · have := (hs.lr t x hw hlr).1 v bs hsv
          omega
        · exfalso; apply hne
          simp only [AOff.rep, hlr, show ¬ n - 1 = 0 by omega, if_false, hx]
          cases o <;> rfl
    have hbody := serArrBody_spec env hs.np t hw ih o (o.add ((env.lr t).rep (n - 1))) s0 vs happ0.inv hal0
      (by rw [hoff0]; exact hsound) hoe hkeep hroom0 hdom'
    simp only [serBits, serAny, serArrWith, h0, bind, Except.bind, hn, beq_self_eq_true, assertThat_true, if_true]
    cases hsa : serAllWith (serBits t) vs with
    | error e =>
      rw [hsa] at hbody
      simp only [Match] at hbody ⊢
      rw [hbody]
    | ok bits =>
      rw [hsa] at hbody
      obtain ⟨s1, hr1, happ1⟩ := hbody
      simp only [List.nil_append] at happ1
      have hlm := serAll_len_mod t hw vs bits hsa
      have hal1 : s1.off % align t = 0 := by
        rw [happ1.off]
        rcases align_cases t with h | h <;> rw [h] at hal0 hlm ⊢ <;> omega
      rw [hr1]
      simp only [serPad_noop (align t) (align_cases t) s1 happ1.inv hal1]
      exact ⟨s1, rfl, happ0.trans happ1⟩
  | _ => simp [inDom] at hdom

theorem varArr_spec (env : Env) (hs : EnvSound env) (t : Ty) (cap : Nat) (hw : wf (.varr t cap) = true)
    (ih : SerRef env t) : SerRef env (.varr t cap) := by
  intro o s v b hinv hsound hroom hdom
  have hwt : wf t = true := by simp only [wf, Bool.and_eq_true] at hw; exact hw.2
  have hcap : cap < 2 ^ 64 := by simp only [wf, Bool.and_eq_true, decide_eq_true_eq] at hw; exact hw.1
  cases v with
  | arr vs =>
    simp only [inDom] at hdom
    have hdom' := all_inDom hdom
    simp only [align, maxBits] at hsound hroom ⊢
    obtain ⟨s0, h0, happ0, hal0⟩ := serPad_spec (align t) (align_cases t) s hinv (hroom.mono (by omega))
    have hoff0 : s0.off = s.off + padLen (align t) s.off := by simpa using happ0.off
    simp only [serBits, serAny, serVarrWith, h0, bind, Except.bind]
    by_cases hlen : vs.length > cap
    · -- `assert len(x) <= cap` fails
      simp only [hlen, if_true, Match, excOf, show decide (vs.length ≤ cap) = false by simp; omega,
        assertThat_false]
    · have hle : vs.length ≤ cap := by omega
      simp only [hlen, if_false, show decide (vs.length ≤ cap) = true by simp; omega, assertThat_true]
      have hp8 : prefixBits cap % 8 = 0 := stdWidth_mod8 cap
      have hplt : cap < 2 ^ prefixBits cap := lt_two_pow_stdWidth hcap
      have hpc := stdWidth_cases cap
      have hpstd : storageBits (prefixBits cap) = prefixBits cap := storageBits_std hpc
      have hroom0 : Room s0 (prefixBits cap + cap * maxBits t) := hroom.after happ0 (by simp)
      -- the length prefix
      obtain ⟨s1, h1, happ1⟩ := serInt_unsigned_spec o.isAligned (prefixBits cap) .trunc s0 (vs.length : Int)
        happ0.inv (fun h => by rw [hoff0]; exact hsound.aligned h) (by unfold prefixBits; omega)
        (by unfold prefixBits; omega) (hroom0.mono (by omega)) (by omega) (by
          rw [hpstd]
          have : vs.length < 2 ^ prefixBits cap := by omega
          exact_mod_cast this)
      rw [castU_of_lt .trunc (show vs.length < 2 ^ prefixBits cap by omega)] at happ1
      have hoff1 : s1.off = s0.off + prefixBits cap := by simpa using happ1.off
      have hle' : vs.length * maxBits t ≤ cap * maxBits t := Nat.mul_le_mul_right _ hle
      have hroom1 : Room s1 (vs.length * maxBits t) := hroom0.after happ1 (by simp; omega)
      have hal1 : s1.off % align t = 0 := by
        rw [hoff1]; rcases align_cases t with h | h <;> rw [h] at hal0 ⊢ <;> omega
      -- what the oracle's claim about the array type says about the elements
      have hlrv : ∀ r, env.lr (.varr t cap) = some r →
          r % 8 = 0 ∧ (1 ≤ cap → ∀ v bs, serBits t v = .ok bs → bs.length % 8 = 0) := by
        intro r hr
        have hl := (hs.lr (.varr t cap) r hw hr).1
        have e0 := hl (.arr []) (natToBits (prefixBits cap) 0) (by simp [serBits, serAllWith, Except.map])
        simp only [natToBits_length] at e0
        refine ⟨by omega, fun hc v bs hsv => ?_⟩
        have e1 := hl (.arr [v]) (natToBits (prefixBits cap) 1 ++ bs) (by
          simp [serBits, serAllWith, hsv, Except.map, show ¬ 1 > cap by omega])
        simp only [List.length_append, natToBits_length] at e1
        omega
      have hoa : Sound (o.add (some (prefixBits cap))) s1.off := by
        rw [hoff1, hoff0]
        exact hsound.add (by intro r hr; cases hr; rfl)
      have hoe : vs ≠ [] → Sound (o.add (env.lr (.varr t cap))) s1.off := by
        intro _
        rw [hoff1, hoff0]
        exact hsound.add (by intro r hr; have := (hlrv r hr).1; omega)
      have hkeep : 2 ≤ vs.length → o.add (env.lr (.varr t cap)) ≠ none →
          ∀ v bs, serBits t v = .ok bs → bs.length % 8 = 0 := by
        intro h2 hne v bs hsv
        cases hlr : env.lr (.varr t cap) with
        | none => exfalso; apply hne; rw [hlr]; cases o <;> rfl
        | some r => exact (hlrv r hlr).2 (by omega) v bs hsv
      have hbody := serArrBody_spec env hs.np t hwt ih (o.add (some (prefixBits cap)))
        (o.add (env.lr (.varr t cap))) s1 vs happ1.inv hal1 hoa hoe hkeep hroom1 hdom'
      rw [h1]
      simp only []
      cases hsa : serAllWith (serBits t) vs with
      | error e =>
        rw [hsa] at hbody
        simp only [Match, Except.map] at hbody ⊢
        rw [hbody]
      | ok bits =>
        rw [hsa] at hbody
        obtain ⟨s2, hr2, happ2⟩ := hbody
        simp only [List.nil_append] at happ2
        have hlm := serAll_len_mod t hwt vs bits hsa
        have hal2 : s2.off % align t = 0 := by
          rw [happ2.off]
          rcases align_cases t with h | h <;> rw [h] at hal1 hlm ⊢ <;> omega
        rw [hr2]
        simp only [serPad_noop (align t) (align_cases t) s2 happ2.inv hal2, Except.map]
        exact ⟨s2, rfl, by simpa [List.append_assoc] using (happ0.trans happ1).trans happ2⟩
  | _ => simp [inDom] at hdom

/-! ### structures -/

theorem pyWfAll_mem {fs : List Ty} (h : pyWfAll fs = true) : ∀ f ∈ fs, pyWf f = true := by
  induction fs with
  | nil => intro f hf; cases hf
  | cons g gs ih =>
    simp only [pyWfAll, Bool.and_eq_true] at h
    intro f hf
    cases hf with
    | head => exact h.1
    | tail _ h' => exact ih h.2 f h'

theorem serFields_spec (env : Env) (hs : EnvSound env) :
    ∀ (fs : List Ty), (∀ f ∈ fs, SerRef env f) → wfAll fs = true →
    ∀ (vs : List Val) (o : AOff) (s : Ser) (base off : Nat), s.off = base + off → base % 8 = 0 → s.Inv →
      Sound o s.off → base + maxFields fs off + 8 ≤ 8 * s.buf.length → inDomFields fs vs = true →
      Match (serFieldsPy env fs o s vs) s [] (serFields fs vs off) := by
  intro fs
  induction fs with
  | nil =>
    intro _ _ vs o s base off _ _ hinv _ _ hdom
    cases vs with
    | nil => exact ⟨s, by simp [serFieldsPy], AppL.refl hinv⟩
    | cons _ _ => simp [inDomFields] at hdom
  | cons f fs ihf =>
    intro ih hw vs o s base off hoff hbase hinv hsound hroom hdom
    simp only [wfAll, Bool.and_eq_true] at hw
    cases vs with
    | nil => simp [inDomFields] at hdom
    | cons v vs =>
      simp only [inDomFields, Bool.and_eq_true] at hdom
      have hpl : padLen (align f) s.off = padLen (align f) off := by
        rw [hoff]; exact padLen_add_base (align_cases f) hbase off
      have hmf : padTo (align f) off + maxBits f ≤ maxFields (f :: fs) off := by
        simp only [maxFields]; exact le_maxFields fs _
      have h1 := ih f (by simp) (o.pad (align f)) s v false hinv (hsound.pad (align_cases f))
        (by unfold Room; rw [hpl]; simp only [padTo] at hmf; omega) hdom.1
      rw [hpl] at h1
      simp only [serFieldsPy, serFields]
      cases hsv : serBits f v with
      | error e =>
        rw [hsv] at h1
        simp only [Match] at h1 ⊢
        rw [h1]
      | ok a =>
        rw [hsv] at h1
        obtain ⟨s1, hr1, happ1⟩ := h1
        have hl := lenOK f hw.1 v a hsv
        rw [hr1]
        have hoff1 : s1.off = base + (padTo (align f) off + a.length) := by
          rw [happ1.off, hoff]; simp [padTo]; omega
        have hmono := maxFields_mono fs (show padTo (align f) off + a.length ≤ padTo (align f) off + maxBits f by omega)
        have h2 := ihf (fun g hg => ih g (List.mem_cons_of_mem _ hg)) hw.2 vs
          ((o.pad (align f)).add (env.lr f)) s1 base (padTo (align f) off + a.length) hoff1 hbase happ1.inv
          (by
            have hs1 : s1.off = (s.off + padLen (align f) s.off) + a.length := by
              rw [happ1.off, hpl]; simp; omega
            rw [hs1]
            exact (hsound.pad (align_cases f)).add (fun r hr => (hs.lr f r hw.1 hr).1 v a hsv))
          (by rw [happ1.len]; simp only [maxFields] at hroom; omega) hdom.2
        simp only []
        cases hrest : serFields fs vs (padTo (align f) off + a.length) with
        | error e =>
          rw [hrest] at h2
          simp only [Match] at h2 ⊢
          exact h2
        | ok b =>
          rw [hrest] at h2
          obtain ⟨s2, hr2, happ2⟩ := h2
          simp only [List.nil_append] at happ2
          exact ⟨s2, hr2, by simpa [List.append_assoc] using happ1.trans happ2⟩

theorem serPad8_eq (s : Ser) : lift (padToAlignment s 8) = serPad 8 s := by simp [serPad]

theorem maxBits_struct_mod8 (fs : List Ty) : maxBits (.struct fs) % 8 = 0 := by
  simp only [maxBits]; exact padTo_mod (Or.inr rfl) _

theorem maxBits_union_mod8 (fs : List Ty) : maxBits (.union fs) % 8 = 0 := by
  simp only [maxBits]; exact padTo_mod (Or.inr rfl) _

theorem structObj_spec (env : Env) (hs : EnvSound env) (fs : List Ty) (ih : ∀ f ∈ fs, SerRef env f)
    (hw : wf (.struct fs) = true) : ObjRef env (.struct fs) := by
  intro s v b hinv hal hroom hdom
  have hwa : wfAll fs = true := by simpa [wf] using hw
  cases v with
  | struct vs =>
    simp only [inDom] at hdom
    have hmx : maxFields fs 0 ≤ maxBits (.struct fs) := by simp only [maxBits]; exact padTo_ge 8 _
    have hf := serFields_spec env hs fs ih hwa vs (some 0) s s.off 0 rfl hal hinv (Sound.some_zero hal)
      (by unfold Room at hroom; omega) hdom
    simp only [serObj, serStructWith, serBits, show (s.off % 8 == 0) = true by simp [hal], assertThat_true, bind,
      Except.bind]
    cases hsf : serFields fs vs 0 with
    | error e =>
      rw [hsf] at hf
      simp only [Match, Except.map] at hf ⊢
      rw [hf]
    | ok bits =>
      rw [hsf] at hf
      obtain ⟨s1, hr1, happ1⟩ := hf
      simp only [List.nil_append] at happ1
      have hl := lenOK (.struct fs) hw (.struct vs) (bits ++ zeros (padLen 8 bits.length)) (by
        simp [serBits, hsf, Except.map])
      simp only [List.length_append, zeros_length, align] at hl
      have hp1 : padLen 8 s1.off = padLen 8 bits.length := by
        rw [happ1.off]; exact padLen_add_base (Or.inr rfl) hal _
      obtain ⟨s2, h2, happ2, _⟩ := serPad_spec 8 (Or.inr rfl) s1 happ1.inv
        (hroom.after happ1 (by rw [hp1]; omega))
      rw [hp1] at happ2
      have hoff2 : s2.off - s.off = bits.length + padLen 8 bits.length := by
        rw [happ2.off, happ1.off]; simp; omega
      rw [hr1]
      simp only [serPad8_eq, h2, hoff2, Except.map]
      rw [show decide (minBits (.struct fs) ≤ bits.length + padLen 8 bits.length ∧
        bits.length + padLen 8 bits.length ≤ maxBits (.struct fs)) = true by simp only [decide_eq_true_eq]; omega]
      exact ⟨s2, rfl, by simpa using happ1.trans happ2⟩
  | _ => simp [inDom] at hdom

/-! ### unions -/

theorem serNth_spec (env : Env) :
    ∀ (fs : List Ty), (∀ f ∈ fs, SerRef env f) →
    ∀ (k : Nat) (o : AOff) (s : Ser) (v : Val), s.Inv → s.off % 8 = 0 → Sound o s.off → Room s (maxOpts fs) →
      inDomNth fs k v = true → k < fs.length →
      Match (serNthPy env fs k o s v) s [] (serNth fs k v) := by
  intro fs
  induction fs with
  | nil => intro _ k _ _ _ _ _ _ _ _ hk; simp at hk
  | cons f fs ihf =>
    intro ih k o s v hinv hal hsound hroom hdom hk
    have hpl : padLen (align f) s.off = 0 := by
      apply padLen_zero_of_mod (align_cases f)
      rcases align_cases f with h | h <;> rw [h] <;> omega
    cases k with
    | zero =>
      simp only [inDomNth] at hdom
      have h1 := ih f (by simp) o s v false hinv (by rw [hpl]; exact hsound)
        (by rw [hpl]; exact hroom.mono (by simp only [maxOpts]; omega)) hdom
      rw [hpl, zeros_zero] at h1
      simpa [serNthPy, serNth] using h1
    | succ k =>
      simp only [inDomNth] at hdom
      simp only [serNthPy, serNth]
      exact ihf (fun g hg => ih g (List.mem_cons_of_mem _ hg)) k o s v hinv hal hsound
        (hroom.mono (by simp only [maxOpts]; omega)) hdom (by simpa using hk)

theorem unionObj_spec (env : Env) (fs : List Ty) (ih : ∀ f ∈ fs, SerRef env f)
    (hw : wf (.union fs) = true) : ObjRef env (.union fs) := by
  intro s v b hinv hal hroom hdom
  simp only [wf, Bool.and_eq_true, decide_eq_true_eq] at hw
  obtain ⟨⟨hn1, hn2⟩, hwa⟩ := hw
  cases v with
  | union k v =>
    simp only [inDom] at hdom
    simp only [serObj, serUnionWith, serBits, show (s.off % 8 == 0) = true by simp [hal], assertThat_true, bind,
      Except.bind]
    by_cases hk : k < fs.length
    · simp only [hk, if_true, show ¬ k ≥ fs.length by omega, if_false]
      have htc := stdWidth_cases (fs.length - 1)
      have ht8 : tagBits fs.length % 8 = 0 := stdWidth_mod8 _
      have hklt : k < 2 ^ tagBits fs.length := lt_two_pow_tagBits hk hn2
      have hmx : tagBits fs.length + maxOpts fs ≤ maxBits (.union fs) := by simp only [maxBits]; exact padTo_ge 8 _
      obtain ⟨s1, h1, happ1⟩ := serInt_unsigned_spec true (tagBits fs.length) .trunc s (k : Int) hinv (fun _ => hal)
        (by unfold tagBits; omega) (by unfold tagBits; omega) (hroom.mono (by omega)) (by omega) (by
          rw [storageBits_std (by unfold tagBits; exact htc)]
          exact_mod_cast hklt)
      rw [castU_of_lt .trunc hklt] at happ1
      have hoff1 : s1.off = s.off + tagBits fs.length := by simpa using happ1.off
      have h2 := serNth_spec env fs ih k (some (tagBits fs.length % 8)) s1 v happ1.inv (by rw [hoff1]; omega)
        (by intro r hr; cases hr; rw [hoff1]; omega) (hroom.after happ1 (by simp; omega)) hdom hk
      rw [h1]
      simp only []
      cases hsn : serNth fs k v with
      | error e =>
        rw [hsn] at h2
        simp only [Match, Except.map] at h2 ⊢
        rw [h2]
      | ok bits =>
        rw [hsn] at h2
        obtain ⟨s2, hr2, happ2⟩ := h2
        simp only [List.nil_append] at happ2
        have hl := lenOK (.union fs) (by simp [wf, hn1, hn2, hwa]) (.union k v)
          ((natToBits (tagBits fs.length) k ++ bits) ++
            zeros (padLen 8 (natToBits (tagBits fs.length) k ++ bits).length)) (by
          simp [serBits, hsn, Except.map, show ¬ k ≥ fs.length by omega])
        simp only [List.length_append, zeros_length, natToBits_length, align] at hl
        have happ12 := happ1.trans happ2
        have hp2 : padLen 8 s2.off = padLen 8 (tagBits fs.length + bits.length) := by
          rw [happ12.off]; simp only [List.length_append, natToBits_length]
          exact padLen_add_base (Or.inr rfl) hal _
        obtain ⟨s3, h3, happ3, _⟩ := serPad_spec 8 (Or.inr rfl) s2 happ2.inv
          (hroom.after happ12 (by rw [hp2]; simp; omega))
        rw [hp2] at happ3
        have hoff3 : s3.off - s.off = tagBits fs.length + bits.length + padLen 8 (tagBits fs.length + bits.length) := by
          rw [happ3.off, happ12.off]; simp; omega
        rw [hr2]
        simp only [serPad8_eq, h3, hoff3, Except.map]
        rw [show decide (minBits (.union fs) ≤
            tagBits fs.length + bits.length + padLen 8 (tagBits fs.length + bits.length) ∧
          tagBits fs.length + bits.length + padLen 8 (tagBits fs.length + bits.length) ≤ maxBits (.union fs)) = true by
            simp only [decide_eq_true_eq]; omega]
        exact ⟨s3, rfl, by simpa using happ12.trans happ3⟩
    · simp only [hk, if_false, show k ≥ fs.length by omega, if_true, Match, excOf]
  | _ => simp [inDom] at hdom

/-! ### sealed nesting -/

theorem nested_spec (env : Env) (t : Ty) (hc : isComposite t = true) (hw : wf t = true) (hobj : ObjRef env t)
    (heq : ∀ o s v, serAny env t o s v = serNested (serObj env t) s v) : SerRef env t := by
  intro o s v b hinv _ hroom hdom
  have hal8 := align_of_isComposite hc
  rw [hal8] at hroom ⊢
  obtain ⟨s0, h0, happ0, hal0⟩ := serPad_spec 8 (Or.inr rfl) s hinv (hroom.mono (by omega))
  have h1 := hobj s0 v b happ0.inv hal0 (hroom.after happ0 (by simp)) hdom
  rw [heq]
  simp only [serNested, h0, bind, Except.bind]
  cases hsv : serBits t v with
  | error e =>
    rw [hsv] at h1
    simp only [Match] at h1 ⊢
    rw [h1]
  | ok bits =>
    rw [hsv] at h1
    obtain ⟨s1, hr1, happ1⟩ := h1
    simp only [List.nil_append] at happ1
    have hl := lenOK t hw v bits hsv
    rw [hal8] at hl
    rw [hr1]
    have : (s1.off % 8 == 0) = true := by rw [happ1.off]; simp; omega
    simp only [this, assertThat_true]
    exact ⟨s1, rfl, happ0.trans happ1⟩

end NunavutVerif.GenPy
