import NunavutVerif.Model.Names
import NunavutVerif.Lemmas.Namespace
/-! Helper lemmas for the naming part of C06 (`Model/Names.lean`). -/
namespace NunavutVerif.Names
open NunavutVerif.Namespace (Str Ty shortVer joinWith verStr split_first_gen split_last shortVer_inj map_injOn)

/-! ### `joinWith` -/

theorem joinWith_cons_cons (sep a : Str) (b : Str) (r : List Str) :
    joinWith sep (a :: b :: r) = a ++ sep ++ joinWith sep (b :: r) := rfl

/-- Joining with a separator that starts with `ch` is injective on non-empty lists of `ch`-free components. -/
theorem joinWith_inj (ch : Char) (tl : Str) : ∀ (xs ys : List Str), xs ≠ [] → ys ≠ [] →
    (∀ x ∈ xs, ch ∉ x) → (∀ y ∈ ys, ch ∉ y) → joinWith (ch :: tl) xs = joinWith (ch :: tl) ys → xs = ys
  | [], _, h, _, _, _, _ => absurd rfl h
  | _, [], _, h, _, _, _ => absurd rfl h
  | [a], [b], _, _, _, _, h => by simpa [joinWith] using h
  | [a], b :: c :: r, _, _, ha, _, h => by
    simp only [joinWith, List.cons_append, List.append_assoc] at h
    exact absurd (h ▸ (by simp : ch ∈ b ++ ch :: (tl ++ joinWith (ch :: tl) (c :: r)))) (ha a (by simp))
  | a :: c :: r, [b], _, _, _, hb, h => by
    simp only [joinWith, List.cons_append, List.append_assoc] at h
    exact absurd (h.symm ▸ (by simp : ch ∈ a ++ ch :: (tl ++ joinWith (ch :: tl) (c :: r)))) (hb b (by simp))
  | a :: c :: r, b :: d :: s, _, _, ha, hb, h => by
    simp only [joinWith, List.cons_append, List.append_assoc] at h
    obtain ⟨h1, h2⟩ := split_first_gen ch (ha a (by simp)) (hb b (by simp)) h
    have h3 := List.append_cancel_left h2
    have := joinWith_inj ch tl (c :: r) (d :: s) (by simp) (by simp)
      (fun x hx => ha x (List.mem_cons_of_mem _ hx)) (fun y hy => hb y (List.mem_cons_of_mem _ hy)) h3
    rw [h1, this]

/-- The last component can be extended behind the join. -/
theorem joinWith_snoc_append (sep : Str) : ∀ (l : List Str) (a b : Str),
    joinWith sep (l ++ [a ++ b]) = joinWith sep (l ++ [a]) ++ b
  | [], a, b => by simp [joinWith]
  | [x], a, b => by simp [joinWith]
  | x :: y :: r, a, b => by
    have := joinWith_snoc_append sep (y :: r) a b
    simp only [List.cons_append] at this ⊢
    rw [joinWith_cons_cons, joinWith_cons_cons, this]
    simp [List.append_assoc]

/-! ### `splitU` -/

theorem consHead_ne_nil (c : Char) (l : List Str) : consHead c l ≠ [] := by cases l <;> simp [consHead]

theorem splitU_ne_nil : ∀ s : Str, splitU s ≠ []
  | [] => by simp [splitU]
  | c :: cs => by
    unfold splitU
    split
    · simp
    · exact consHead_ne_nil _ _

theorem consHead_append (c : Char) (l m : List Str) (h : l ≠ []) : consHead c (l ++ m) = consHead c l ++ m := by
  cases l with
  | nil => exact absurd rfl h
  | cons a r => simp [consHead]

theorem splitU_append (a b : Str) : splitU (a ++ '_' :: b) = splitU a ++ splitU b := by
  induction a with
  | nil => simp [splitU]
  | cons c r ih =>
    by_cases hc : c = '_'
    · subst hc
      simp only [List.cons_append, splitU, if_true, ih, List.cons_append]
    · simp only [List.cons_append, splitU, hc, if_false, ih]
      exact consHead_append c _ _ (splitU_ne_nil r)

theorem joinWith_consHead (sep : Str) (c : Char) (l : List Str) (h : l ≠ []) :
    joinWith sep (consHead c l) = c :: joinWith sep l := by
  cases l with
  | nil => exact absurd rfl h
  | cons a t => cases t <;> simp [consHead, joinWith]

theorem join_splitU : ∀ s : Str, joinWith ['_'] (splitU s) = s
  | [] => by simp [splitU, joinWith]
  | c :: cs => by
    have ih := join_splitU cs
    by_cases hc : c = '_'
    · subst hc
      simp only [splitU, if_true]
      cases hr : splitU cs with
      | nil => exact absurd hr (splitU_ne_nil cs)
      | cons h t => rw [hr] at ih; simp [joinWith, ih]
    · simp only [splitU, hc, if_false]
      rw [joinWith_consHead _ _ _ (splitU_ne_nil cs), ih]

theorem splitU_join : ∀ l : List Str, l ≠ [] → splitU (joinWith ['_'] l) = l.flatMap splitU
  | [], h => absurd rfl h
  | [a], _ => by simp [joinWith]
  | a :: b :: r, _ => by
    have ih := splitU_join (b :: r) (by simp)
    rw [joinWith_cons_cons]
    simp only [List.append_assoc, List.singleton_append]
    rw [splitU_append, ih]
    simp

/-- Two `_`-joins coincide exactly when the underscore-separated words of the components do. -/
theorem joinU_eq_iff (l l' : List Str) (h : l ≠ []) (h' : l' ≠ []) :
    joinWith ['_'] l = joinWith ['_'] l' ↔ l.flatMap splitU = l'.flatMap splitU := by
  constructor
  · intro e
    rw [← splitU_join l h, ← splitU_join l' h', e]
  · intro e
    rw [← join_splitU (joinWith ['_'] l), ← join_splitU (joinWith ['_'] l'), splitU_join l h, splitU_join l' h', e]

theorem splitU_of_no_underscore : ∀ s : Str, '_' ∉ s → splitU s = [s]
  | [], _ => rfl
  | c :: cs, h => by
    have hc : c ≠ '_' := fun e => h (by simp [e])
    have ih := splitU_of_no_underscore cs (fun e => h (List.mem_cons_of_mem _ e))
    simp [splitU, hc, ih, consHead]

theorem flatMap_splitU_of_no_underscore : ∀ l : List Str, (∀ x ∈ l, '_' ∉ x) → l.flatMap splitU = l
  | [], _ => rfl
  | a :: r, h => by
    simp only [List.flatMap_cons, splitU_of_no_underscore a (h a (by simp)),
      flatMap_splitU_of_no_underscore r (fun x hx => h x (List.mem_cons_of_mem _ hx))]
    rfl

/-! ### the C reference name -/

theorem underscore_not_in_verStr (n : Nat) : '_' ∉ verStr n := Nat.underscore_not_in_toDigits

/-- `"_".join(ns + [Short_M_m])` = `"_".join(ns + [Short])` followed by `_M_m`. -/
theorem cJoin_split (t : Ty) :
    joinWith ['_'] (t.ns ++ [shortVer t]) =
      (joinWith ['_'] (t.ns ++ [t.short]) ++ '_' :: verStr t.major) ++ '_' :: verStr t.minor := by
  have : shortVer t = t.short ++ ('_' :: (verStr t.major ++ '_' :: verStr t.minor)) := rfl
  rw [this, joinWith_snoc_append]
  simp [List.append_assoc]

theorem cJoin_eq_iff (t u : Ty) :
    joinWith ['_'] (t.ns ++ [shortVer t]) = joinWith ['_'] (u.ns ++ [shortVer u]) ↔
      cWords t = cWords u ∧ t.major = u.major ∧ t.minor = u.minor := by
  rw [cJoin_split, cJoin_split]
  constructor
  · intro h
    obtain ⟨h1, h2⟩ := split_last (underscore_not_in_verStr _) (underscore_not_in_verStr _) h
    obtain ⟨h3, h4⟩ := split_last (underscore_not_in_verStr _) (underscore_not_in_verStr _) h1
    exact ⟨(joinU_eq_iff _ _ (by simp) (by simp)).1 h3, NunavutVerif.Namespace.verStr_inj h4,
      NunavutVerif.Namespace.verStr_inj h2⟩
  · rintro ⟨h1, h2, h3⟩
    rw [(joinU_eq_iff (t.ns ++ [t.short]) (u.ns ++ [u.short]) (by simp) (by simp)).2 h1, h2, h3]

/-! ### macro suffixes -/

/-- A string that ends in `x_` differs from one that ends in `y_` (`x ≠ y`): how the suffixes of the templates and the
two array suffixes are told apart. -/
theorem ne_of_penultimate {a b : Str} {x y : Char} (hxy : x ≠ y) (p q : Str) (ha : a = p ++ [x, '_']) (hb : b = q ++ [y, '_']) :
    a ≠ b := by
  intro e
  rw [ha, hb] at e
  have := congrArg List.reverse e
  simp only [List.reverse_append, List.reverse_cons, List.reverse_nil, List.nil_append, List.cons_append,
    List.cons.injEq, true_and] at this
  exact hxy this.1

/-- The character before the final one. -/
def penult (s : Str) : Option Char :=
  match s.reverse with
  | _ :: x :: _ => some x
  | _ => none

theorem penult_append (a : Str) (x y : Char) : penult (a ++ [x, y]) = some x := by simp [penult]

theorem penult_cap (f : Str) : penult (f ++ sCap) = some 'Y' := by
  have : sCap = lit "_ARRAY_CAPACIT" ++ ['Y', '_'] := by decide
  rw [this, ← List.append_assoc]; exact penult_append _ _ _

theorem penult_isVar (f : Str) : penult (f ++ sIsVar) = some 'H' := by
  have : sIsVar = lit "_ARRAY_IS_VARIABLE_LENGT" ++ ['H', '_'] := by decide
  rw [this, ← List.append_assoc]; exact penult_append _ _ _

theorem fixed_penult : ∀ s ∈ fixedSuffixes, penult s ≠ some 'Y' ∧ penult s ≠ some 'H' := by decide

theorem fixedSuffixes_nodup : fixedSuffixes.Nodup := by decide

/-- The two macro suffixes of every array field. -/
def derived (l : List (Str × FKind)) : List Str := l.flatMap (fun f => [f.1 ++ sCap, f.1 ++ sIsVar])

theorem mem_derived {l : List (Str × FKind)} {x : Str} :
    x ∈ derived l ↔ ∃ f ∈ l, x = f.1 ++ sCap ∨ x = f.1 ++ sIsVar := by
  simp [derived, List.mem_flatMap]

theorem derived_penult {l : List (Str × FKind)} {x : Str} (h : x ∈ derived l) :
    penult x = some 'Y' ∨ penult x = some 'H' := by
  obtain ⟨f, _, hf | hf⟩ := mem_derived.1 h
  · exact Or.inl (hf ▸ penult_cap _)
  · exact Or.inr (hf ▸ penult_isVar _)

theorem derived_nodup : ∀ l : List (Str × FKind), (l.map (·.1)).Nodup → (derived l).Nodup
  | [], _ => by simp [derived]
  | f :: r, h => by
    have hn : f.1 ∉ r.map (·.1) ∧ (r.map (·.1)).Nodup := List.nodup_cons.1 h
    have ih := derived_nodup r hn.2
    have hfr : ∀ g ∈ r, g.1 ≠ f.1 := fun g hg e => hn.1 (e ▸ List.mem_map_of_mem hg)
    show ([f.1 ++ sCap, f.1 ++ sIsVar] ++ derived r).Nodup
    rw [List.nodup_append]
    refine ⟨?_, ih, ?_⟩
    · have : f.1 ++ sCap ≠ f.1 ++ sIsVar := fun e => by
        have := congrArg penult e
        rw [penult_cap, penult_isVar] at this
        exact absurd this (by decide)
      simp [this]
    · intro a ha b hb e
      subst e
      obtain ⟨g, hg, hgx⟩ := mem_derived.1 hb
      simp only [List.mem_cons, List.not_mem_nil, or_false] at ha
      rcases ha with ha | ha <;> rcases hgx with hgx | hgx
      · rw [ha] at hgx; exact hfr g hg (List.append_cancel_right hgx).symm
      · rw [ha] at hgx
        have := congrArg penult hgx
        rw [penult_cap, penult_isVar] at this
        exact absurd this (by decide)
      · rw [ha] at hgx
        have := congrArg penult hgx
        rw [penult_cap, penult_isVar] at this
        exact absurd this (by decide)
      · rw [ha] at hgx; exact hfr g hg (List.append_cancel_right hgx).symm

theorem nodup_map_of_inj {α β} (f : α → β) (hf : ∀ a b, f a = f b → a = b) : ∀ l : List α, l.Nodup → (l.map f).Nodup
  | [], _ => by simp
  | a :: r, h => by
    obtain ⟨h1, h2⟩ := List.nodup_cons.1 h
    rw [List.map_cons, List.nodup_cons]
    refine ⟨?_, nodup_map_of_inj f hf r h2⟩
    intro hm
    obtain ⟨b, hb, e⟩ := List.mem_map.1 hm
    exact h1 (hf _ _ e ▸ hb)

theorem macroName_inj (ref : Str) {a b : Str} (h : macroName ref a = macroName ref b) : a = b := by
  simpa [macroName] using h

theorem compSuffixSet_nodup (c : CompNames) (hnd : (c.fields.map (·.1) ++ c.consts).Nodup)
    (hclear : constsClear c = true) : (compSuffixSet c).Nodup := by
  obtain ⟨hf, hc, _⟩ := List.nodup_append.1 hnd
  have harr : ((arrayFields c).map (·.1)).Nodup :=
    List.Nodup.sublist (List.Sublist.map _ List.filter_sublist) hf
  have hclear' : ∀ k ∈ c.consts, k ∉ fixedSuffixes ∧ ∀ f ∈ arrayFields c, k ≠ f.1 ++ sCap ∧ k ≠ f.1 ++ sIsVar := by
    intro k hk
    simp only [constsClear, List.all_eq_true, Bool.and_eq_true, Bool.not_eq_true', decide_eq_true_eq] at hclear
    obtain ⟨h1, h2⟩ := hclear k hk
    refine ⟨by simpa using h1, fun f hf' => ?_⟩
    simpa using h2 f hf'
  show (fixedSuffixes ++ c.consts ++ derived (arrayFields c)).Nodup
  rw [List.nodup_append, List.nodup_append]
  refine ⟨⟨fixedSuffixes_nodup, hc, ?_⟩, derived_nodup _ harr, ?_⟩
  · intro a ha b hb e
    exact (hclear' b hb).1 (e ▸ ha)
  · intro a ha b hb e
    subst e
    rcases List.mem_append.1 ha with ha | ha
    · have := fixed_penult a ha
      rcases derived_penult hb with h | h
      · exact this.1 h
      · exact this.2 h
    · obtain ⟨f, hf', hfx⟩ := mem_derived.1 hb
      have := (hclear' a ha).2 f hf'
      rcases hfx with hfx | hfx
      · exact this.1 hfx
      · exact this.2 hfx

theorem arraySuffixes_sub (ovr : Bool) (f : Str × FKind) : ∀ x ∈ arraySuffixes ovr f,
    x = f.1 ++ sCap ∨ x = sDisable ∨ x = f.1 ++ sIsVar := by
  intro x hx
  simp only [arraySuffixes, List.mem_append, List.mem_singleton] at hx
  rcases hx with (hx | hx) | hx
  · exact Or.inl hx
  · split at hx <;> simp at hx; exact Or.inr (Or.inl hx)
  · exact Or.inr (Or.inr hx)

/-- Every suffix the composite emits is one of `compSuffixSet`. -/
theorem compSuffixes_sub (ovr : Bool) (c : CompNames) : ∀ x ∈ compSuffixes ovr c, x ∈ compSuffixSet c := by
  intro x hx
  simp only [compSuffixes, List.mem_append, List.mem_flatMap] at hx
  show x ∈ fixedSuffixes ++ c.consts ++ derived (arrayFields c)
  simp only [List.mem_append]
  rcases hx with ((hx | hx) | ⟨f, hf, hx⟩) | hx
  · exact Or.inl (Or.inl (by simp [fixedSuffixes] at hx ⊢; rcases hx with h | h | h | h <;> simp [h]))
  · exact Or.inl (Or.inr hx)
  · rcases arraySuffixes_sub ovr f x hx with h | h | h
    · exact Or.inr (mem_derived.2 ⟨f, hf, Or.inl h⟩)
    · exact Or.inl (Or.inl (by simp [fixedSuffixes, h]))
    · exact Or.inr (mem_derived.2 ⟨f, hf, Or.inr h⟩)
  · split at hx <;> simp at hx
    exact Or.inl (Or.inl (by simp [fixedSuffixes, hx]))

/-! ### `snake0` -/

theorem snake0_word : ∀ (a : Str), (∀ c ∈ a, isWordChar c = true) → ∀ rest, snake0 (a ++ rest) = a ++ snake0 rest
  | [], _, _ => rfl
  | c :: r, h, rest => by
    have hc := h c (by simp)
    have ih := snake0_word r (fun x hx => h x (List.mem_cons_of_mem _ hx)) rest
    simp [snake0, hc, ih]

theorem snake0_dot (d : Char) (cs : Str) (hd : isWordChar d = true) : snake0 ('.' :: d :: cs) = '_' :: snake0 (d :: cs) := by
  have : isWordChar '.' = false := by decide
  simp [snake0, this, hd]

/-- Components made of word characters, none empty. -/
def WordComps (l : List Str) : Prop := ∀ x ∈ l, x ≠ [] ∧ ∀ c ∈ x, isWordChar c = true

theorem joinWith_head_word (sep : Str) : ∀ (l : List Str), l ≠ [] → WordComps l →
    ∃ d cs, joinWith sep l = d :: cs ∧ isWordChar d = true
  | [], h, _ => absurd rfl h
  | [a], _, hw => by
    obtain ⟨hne, hc⟩ := hw a (by simp)
    cases a with
    | nil => exact absurd rfl hne
    | cons d cs => exact ⟨d, cs, rfl, hc d (by simp)⟩
  | a :: b :: r, _, hw => by
    obtain ⟨hne, hc⟩ := hw a (by simp)
    cases a with
    | nil => exact absurd rfl hne
    | cons d cs => exact ⟨d, cs ++ (sep ++ joinWith sep (b :: r)), by simp [joinWith], hc d (by simp)⟩

/-- Pass 0 of `to_snake_case` turns the dotted full name into the `_`-join of its components. -/
theorem snake0_dotted : ∀ (l : List Str), l ≠ [] → WordComps l → snake0 (joinWith ['.'] l) = joinWith ['_'] l
  | [], h, _ => absurd rfl h
  | [a], _, hw => by
    have := snake0_word a (hw a (by simp)).2 []
    simpa [joinWith, snake0] using this
  | a :: b :: r, _, hw => by
    have hw' : WordComps (b :: r) := fun x hx => hw x (List.mem_cons_of_mem _ hx)
    have ih := snake0_dotted (b :: r) (by simp) hw'
    obtain ⟨d, cs, hj, hd⟩ := joinWith_head_word ['.'] (b :: r) (by simp) hw'
    rw [joinWith_cons_cons, joinWith_cons_cons, List.append_assoc, snake0_word a (hw a (by simp)).2]
    simp only [List.singleton_append]
    rw [hj, snake0_dot d cs hd, ← hj, ih]
    simp

end NunavutVerif.Names
