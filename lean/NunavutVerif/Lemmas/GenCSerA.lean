import NunavutVerif.Lemmas.GenCSpec
/-!
GenC refinement, part 5: the structural pieces of the generated serializer — nested calls on sub-buffers,
delimiter header (written ahead / reserved and back-patched), the function skeleton, the bulk array paths.
-/
namespace NunavutVerif.GenC
open NunavutVerif.Dsdl NunavutVerif.Bits
open AOff

/-- the return code that stands for a specification error -/
def embedS : SerErr → Err
  | .badArrayLength => eBadArrayLength
  | .badUnionTag => eBadUnionTag
  | .bufferTooSmall => eTooSmall
  | .illTyped => .illTyped

/-- `r` (a site of the generated code run on `buf` at `off`) does what the specification `spec` says -/
def SerRefines (r : Except Err W) (spec : Except SerErr (List Bool)) (buf : Buf) (off : Nat) : Prop :=
  match spec with
  | .ok bits => SerStep r buf off bits
  | .error e => r = .error (embedS e)

/-- contract of a generated function `T_serialize_` whose specification is `spec` and whose up-front check is
against `maxB`: on any sub-buffer that passes the check it writes `spec` from bit 0 and reports its size in bytes -/
def FnOK (inner : Buf → Nat → Except Err W) (spec : Except SerErr (List Bool)) (maxB : Nat) : Prop :=
  ∀ sub capS, WF sub → capS ≤ sub.length → maxB ≤ 8 * capS →
    match spec with
    | .ok bits => bits.length % 8 = 0 ∧ ∃ sub', inner sub capS = .ok (sub', bits.length / 8) ∧ Wrote sub sub' 0 bits
    | .error e => inner sub capS = .error (embedS e)

/-! ### sub-buffers -/

theorem wrote_sub {buf sub' : Buf} {k : Nat} {bits : List Bool} (hk : k ≤ buf.length)
    (h : Wrote (buf.drop k) sub' 0 bits) : Wrote buf (buf.take k ++ sub') (8 * k) bits := by
  have hlen := h.len
  simp only [List.length_drop] at hlen
  have htl : (buf.take k).length = k := by simp [List.length_take, Nat.min_eq_left hk]
  refine ⟨?_, ?_, ?_, ?_⟩
  · simp only [List.length_append, htl, hlen]; omega
  · intro hw; exact WF_append (WF_take hw k) (h.wf (WF_drop hw k))
  · intro i hi
    rw [bitAt_append, htl, if_pos hi, bitAt_take]
    have : i / 8 < k := by omega
    simp [this]
  · intro i hi
    rw [bitAt_append, htl, if_neg (by omega)]
    have e : 8 * k + i - 8 * k = i := by omega
    rw [e]
    simpa using h.new i hi

theorem memmove_frame (buf src : Buf) (p nb : Nat) (hsrc : nb ≤ src.length) (hdst : p + nb ≤ buf.length) :
    ∃ r, memmove buf p src 0 nb = .ok r ∧ r.length = buf.length ∧ (WF src → WF buf → WF r) ∧
      ∀ i, bitAt r i = if 8 * p ≤ i ∧ i < 8 * (p + nb) then bitAt src (i - 8 * p) else bitAt buf i := by
  obtain ⟨r, hr, hl, hk⟩ := memmove_spec nb buf p src 0 (by omega) hdst
  refine ⟨r, hr, hl, ?_, ?_⟩
  · intro hws hbuf x hx
    obtain ⟨k, hk', rfl⟩ := List.getElem_of_mem hx
    have := hk k
    rw [List.getElem?_eq_getElem hk'] at this
    split at this
    · exact hws _ (List.mem_of_getElem? this.symm)
    · exact hbuf _ (List.mem_of_getElem? this.symm)
  · intro i
    rw [bitAt_eq_getElem?, hk]
    by_cases hA : p ≤ i / 8 ∧ i / 8 < p + nb
    · have hB : 8 * p ≤ i ∧ i < 8 * (p + nb) := by omega
      have e1 : 0 + (i / 8 - p) = (i - 8 * p) / 8 := by omega
      have e2 : (i - 8 * p) % 8 = i % 8 := by omega
      simp only [hA, hB, and_self, if_true, bitAt_eq_getElem?, e1, e2]
    · have hB : ¬ (8 * p ≤ i ∧ i < 8 * (p + nb)) := by omega
      simp only [hA, hB, if_false, bitAt_eq_getElem?]

/-- the delimiter header written behind the nested object that is already in place -/
theorem patch_wrote {buf buf1 buf2 : Buf} {off : Nat} {hdr bits : List Bool} (hh : hdr.length = 32)
    (h1 : Wrote buf buf1 (off + 32) bits) (hl : buf2.length = buf1.length) (hwf : WF buf1 → WF buf2)
    (hf : ∀ i, bitAt buf2 i = if off ≤ i ∧ i < off + 32 then gb hdr (i - off) else bitAt buf1 i) :
    Wrote buf buf2 off (hdr ++ bits) := by
  refine ⟨hl.trans h1.len, fun h => hwf (h1.wf h), ?_, ?_⟩
  · intro i hi
    rw [hf i, if_neg (by omega), h1.pre i (by omega)]
  · intro i hi
    rw [hf (off + i), gb_append, hh]
    by_cases h : i < 32
    · have e : off + i - off = i := by omega
      simp only [h, if_true, e]
      rw [if_pos (by omega)]
    · simp only [h, if_false]
      rw [if_neg (by omega)]
      have := h1.new (i - 32) (by simp at hi; omega)
      have e : off + 32 + (i - 32) = off + i := by omega
      rwa [e] at this

theorem map_ok' {ε α β : Type} (f : α → β) (a : α) : (Except.ok a : Except ε α).map f = .ok (f a) := rfl
theorem map_error' {ε α β : Type} (f : α → β) (e : ε) : (Except.error e : Except ε α).map f = .error e := rfl

/-! ### `_serialize_composite` -/

theorem nestedSer_refines (o : Opts) (hs : o.Sound) (inner : Buf → Nat → Except Err W)
    (spec : Except SerErr (List Bool)) (isDelim fixed : Bool) (minB maxB : Nat)
    (hfn : FnOK inner spec maxB) (hm : maxB % 8 = 0)
    (hfix : fixed = true → ∀ bits, spec = .ok bits → bits.length = maxB)
    (hlen : ∀ bits, spec = .ok bits → minB ≤ bits.length ∧ bits.length ≤ maxB)
    (cap : Nat) (d : AOff) (buf : Buf) (off : Nat) (hw : WF buf) (hcap : cap ≤ buf.length)
    (hal : off % 8 = 0) (hd : Adm d off)
    (hroom : off + (if isDelim then 32 else 0) + maxB ≤ 8 * cap) :
    SerRefines (nestedSer o inner isDelim fixed minB maxB cap d buf off)
      (if isDelim then spec.map (fun bs => natToBits 32 (bs.length / 8) ++ bs) else spec) buf off := by
  have hsz : (maxB + 7) / 8 = maxB / 8 := by omega
  cases isDelim with
  | false =>
    -- sealed: plain call on the sub-buffer
    simp only [Bool.false_eq_true, if_false] at hroom ⊢
    have hsub := hfn (buf.drop (off / 8)) (maxB / 8) (WF_drop hw _) (by simp [List.length_drop]; omega) (by omega)
    unfold nestedSer
    simp only [Bool.false_eq_true, if_false, false_and, hsz]
    rw [assertC_ok o hal, assertC_ok o (show off / 8 + maxB / 8 ≤ cap by omega)]
    cases spec with
    | error e =>
      simp only [SerRefines] at hsub ⊢
      rw [hsub]
    | ok bits =>
      simp only [SerRefines] at hsub ⊢
      obtain ⟨h8, sub', hin, hwr⟩ := hsub
      have hl := hlen bits rfl
      rw [hin]
      dsimp only
      rw [assertC_ok o (show minB ≤ bits.length / 8 * 8 ∧ bits.length / 8 * 8 ≤ maxB by omega),
        assertC_ok o (show off + bits.length / 8 * 8 ≤ cap * 8 by omega)]
      refine ⟨buf.take (off / 8) ++ sub', ?_, ?_⟩
      · congr 2; omega
      · have := wrote_sub (by omega : off / 8 ≤ buf.length) hwr
        have e : 8 * (off / 8) = off := by omega
        rwa [e] at this
  | true =>
    simp only [if_true] at hroom ⊢
    cases fixed with
    | true =>
      -- constant header first, then the call
      obtain ⟨b1, hb1, hw1⟩ := serInt_wrote o hs false 32 64 false ((maxB / 8 : Nat) : Int) cap d buf off (by omega) (by omega)
        (by omega) (by omega) hcap (by omega) hd
      simp only [natToBits_length] at hb1
      have hhdr : natToBits 32 (lowBits 32 (satV false 32 false ((maxB / 8 : Nat) : Int))) = natToBits 32 (maxB / 8) := by
        have : satV false 32 false ((maxB / 8 : Nat) : Int) = ((maxB / 8 : Nat) : Int) := by simp [satV]
        rw [this, lowBits_natCast, natToBits_mod]
      rw [hhdr] at hw1
      have hsub := hfn (b1.drop ((off + 32) / 8)) (maxB / 8) (WF_drop (hw1.wf hw) _)
        (by simp [List.length_drop, hw1.len]; omega) (by omega)
      unfold nestedSer
      simp only [if_true, hsz, hb1, not_true_eq_false, and_false, if_false]
      rw [assertC_ok o (show (off + 32) % 8 = 0 by omega), assertC_ok o (show (off + 32) / 8 + maxB / 8 ≤ cap by omega)]
      cases spec with
      | error e =>
        simp only [SerRefines, map_error'] at hsub ⊢
        rw [hsub]
      | ok bits =>
        simp only [SerRefines, map_ok'] at hsub ⊢
        obtain ⟨h8, sub', hin, hwr⟩ := hsub
        have hl := hlen bits rfl
        rw [hin]
        dsimp only
        rw [assertC_ok o (show minB ≤ bits.length / 8 * 8 ∧ bits.length / 8 * 8 ≤ maxB by omega),
          assertC_ok o (show off + 32 + bits.length / 8 * 8 ≤ cap * 8 by omega)]
        have hbl := hfix rfl bits rfl
        refine ⟨b1.take ((off + 32) / 8) ++ sub', ?_, ?_⟩
        · simp only [List.length_append, natToBits_length]; congr 2; omega
        · have h2 := wrote_sub (by rw [hw1.len]; omega : (off + 32) / 8 ≤ b1.length) hwr
          have e : 8 * ((off + 32) / 8) = off + 32 := by omega
          rw [e] at h2
          rw [hbl]
          have := hw1.trans (by simpa using h2)
          exact this
    | false =>
      -- reserve, call, back-patch
      have hsub := hfn (buf.drop ((off + 32) / 8)) (maxB / 8) (WF_drop hw _)
        (by simp [List.length_drop]; omega) (by omega)
      unfold nestedSer
      simp only [if_true, hsz, Bool.false_eq_true, if_false, not_false_eq_true, and_self]
      rw [assertC_ok o (show (off + 32) % 8 = 0 by omega), assertC_ok o (show (off + 32) / 8 + maxB / 8 ≤ cap by omega)]
      cases spec with
      | error e =>
        simp only [SerRefines, map_error'] at hsub ⊢
        rw [hsub]
      | ok bits =>
        simp only [SerRefines, map_ok'] at hsub ⊢
        obtain ⟨h8, sub', hin, hwr⟩ := hsub
        have hl := hlen bits rfl
        rw [hin]
        dsimp only
        rw [assertC_ok o (show minB ≤ bits.length / 8 * 8 ∧ bits.length / 8 * 8 ≤ maxB by omega)]
        have hk : (off + 32) / 8 ≤ buf.length := by omega
        have h1 := wrote_sub hk hwr
        have e : 8 * ((off + 32) / 8) = off + 32 := by omega
        rw [e] at h1
        have hgb : ∀ j, j < 32 → gb (natToBits 32 (bits.length / 8)) j = (bits.length / 8).testBit j := by
          intro j hj; rw [gb_natToBits]; simp [hj]
        simp only [Nat.add_sub_cancel]
        cases hlit : o.little with
        | true =>
          simp only [if_true]
          obtain ⟨r, hr, hl', hwf, hbits⟩ := memmove_frame (buf.take ((off + 32) / 8) ++ sub')
            (objRepLE (bits.length / 8) 8) (off / 8) 4 (by rw [length_objRepLE]; omega) (by rw [h1.len]; omega)
          simp only [hr, liftP]
          rw [assertC_ok o (show off + 32 + bits.length / 8 * 8 ≤ cap * 8 by omega)]
          refine ⟨r, ?_, ?_⟩
          · simp only [List.length_append, natToBits_length]; congr 2; omega
          · apply patch_wrote (by simp) h1 hl' (hwf (WF_objRepLE _ _))
            intro i
            rw [hbits i]
            by_cases hA : off ≤ i ∧ i < off + 32
            · rw [if_pos (by omega), if_pos hA, bitAt_objRepLE, hgb _ (by omega)]
              have e1 : i - 8 * (off / 8) = i - off := by omega
              have : i - off < 8 * 8 := by omega
              simp [e1, this]
            · rw [if_neg (by omega), if_neg hA]
        | false =>
          simp only [Bool.false_eq_true, if_false]
          obtain ⟨r, hr, hl', hwf, hbits⟩ := setUxx_spec false (buf.take ((off + 32) / 8) ++ sub') cap off
            (bits.length / 8) 32 (by rw [h1.len]; exact hcap) (by omega)
          simp only [hr, chk_ok]
          rw [assertC_ok o (show off + 32 + bits.length / 8 * 8 ≤ cap * 8 by omega)]
          refine ⟨r, ?_, ?_⟩
          · simp only [List.length_append, natToBits_length]; congr 2; omega
          · apply patch_wrote (by simp) h1 hl' hwf
            intro i
            rw [hbits i]
            by_cases hA : off ≤ i ∧ i < off + 32
            · rw [if_pos (by omega), if_pos hA, hgb _ (by omega)]
            · rw [if_neg (by omega), if_neg hA]

/-! ### the function skeleton -/

theorem topSer_fnOK (o : Opts) (minB maxB : Nat) (body : Nat → Buf → Except Err W)
    (specBody : Except SerErr (List Bool))
    (hbody : ∀ sub capS, WF sub → capS ≤ sub.length → maxB ≤ 8 * capS → SerRefines (body capS sub) specBody sub 0)
    (hlen : ∀ bits, specBody = .ok bits → minB ≤ padTo 8 bits.length ∧ padTo 8 bits.length ≤ maxB)
    (h0 : maxB = 0 → specBody = .ok []) :
    FnOK (topSer o minB maxB body) (specBody.map fun bs => bs ++ zeros (padLen 8 bs.length)) maxB := by
  intro sub capS hw hc hmx
  unfold topSer
  by_cases hz : maxB = 0
  · rw [h0 hz]
    simp only [hz, if_true, map_ok']
    refine ⟨by simp [padLen, zeros], sub, ?_, ?_⟩
    · simp [padLen, zeros]
    · simpa [padLen, zeros] using Wrote.refl sub 0
  · simp only [hz, if_false, show ¬ (8 * capS < maxB) by omega]
    have hb := hbody sub capS hw hc hmx
    cases specBody with
    | error e =>
      simp only [SerRefines] at hb
      simp only [map_error', hb]
    | ok bits =>
      simp only [SerRefines] at hb
      obtain ⟨b1, hb1, hw1⟩ := hb
      have hl := hlen bits rfl
      obtain ⟨b2, hb2, hw2⟩ := padSer_wrote o 8 capS b1 (0 + bits.length) (Or.inr rfl) (by rw [hw1.len]; exact hc)
        (by simp only [Nat.zero_add]; omega)
      have hp8 : (bits.length + padLen 8 bits.length) % 8 = 0 := by
        have := padTo_mod (a := 8) (Or.inr rfl) bits.length
        simpa [padTo] using this
      simp only [Nat.zero_add, zeros_length] at hb2
      simp only [map_ok', hb1, Nat.zero_add, hb2]
      rw [assertC_ok o (show minB ≤ bits.length + padLen 8 bits.length ∧ bits.length + padLen 8 bits.length ≤ maxB by
          simpa [padTo] using hl), assertC_ok o hp8]
      refine ⟨by simpa using hp8, b2, ?_, ?_⟩
      · simp only [List.length_append, zeros_length]
      · have := hw1.trans hw2
        simpa using this

/-! ### bulk array paths (`nunavutCopyBits` from the member array) -/

theorem copyBits_wrote (buf src : Buf) (off len : Nat) (bits : List Bool) (hws : WF src)
    (hsrc : len ≤ src.length * 8) (hdst : off + len ≤ buf.length * 8) (hb : bits.length = len)
    (hv : ∀ i, i < len → bitAt src i = gb bits i) :
    ∃ r, liftP (copyBits buf off len src 0) = .ok r ∧ Wrote buf r off bits := by
  obtain ⟨r, hr, hl, hwf, hbits⟩ := copyBits_spec buf off len src 0 (by omega) hdst
  refine ⟨r, by simp [hr, liftP], ?_⟩
  apply wrote_of_frame (fun i => bitAt src i) hl (hwf hws)
  · intro i
    rw [hbits i, hb]
    simp
  · intro i hi
    exact hv i (by omega)

theorem bitAt_padRight (b : Buf) (n i : Nat) (h : i < 8 * b.length) : bitAt (padRight b n) i = bitAt b i := by
  unfold padRight
  rw [bitAt_append, if_pos h]

theorem length_padRight (b : Buf) (n : Nat) : (padRight b n).length = max b.length n := by
  unfold padRight
  simp only [List.length_append, List.length_replicate]
  omega

theorem WF_padRight {b : Buf} (h : WF b) (n : Nat) : WF (padRight b n) :=
  WF_append h (WF_replicate' _ 0 (by decide))

theorem serAll_bool : ∀ vs : List Val, (∀ v ∈ vs, hasTy .bool v = true) →
    serAllWith (serBits .bool) vs = .ok (vs.map asBool) := by
  intro vs
  induction vs with
  | nil => intro _; rfl
  | cons v vs ih =>
    intro h
    have hv := h v (by simp)
    cases v <;> simp [hasTy] at hv
    rename_i b
    simp only [serAllWith, serBits, ih (fun w hw => h w (List.mem_cons_of_mem _ hw)), List.map_cons, asBool,
      List.singleton_append]

/-- one element of a zero-cost primitive array: its object representation is its wire representation -/
theorem elem_zeroCost (o : Opts) (t : Ty) (v : Val) (hz : zeroCost o t = true) (hw : wf t = true)
    (ht : hasTy t v = true) (hs : storageOK t v = true) :
    ∃ b, serBits t v = .ok b ∧ b.length = primBits t ∧ (elemRep t v).length = primBits t / 8 ∧
      primBits t % 8 = 0 ∧ WF (elemRep t v) ∧ ∀ i, i < primBits t → bitAt (elemRep t v) i = gb b i := by
  cases t with
  | uint n m =>
    cases v <;> simp [hasTy] at ht
    rename_i i
    simp only [zeroCost, Bool.and_eq_true] at hz
    simp only [storageOK, decide_eq_true_eq] at hs
    have h8 : n % 8 = 0 := by have := isStd_storW hz.2; have := storW_mod8 n; omega
    refine ⟨_, rfl, by simp [primBits], by simp [elemRep, primBits, length_objRepLE], h8, WF_objRepLE _ _, ?_⟩
    intro k hk
    simp only [primBits] at hk
    rw [castU_eq_lowBits n m i hs.1 hs.2]
    have : satV false n (m == .sat) i = i := by simp [satV, hz.2]
    rw [this]
    simp only [elemRep, bitAt_objRepLE, gb_natToBits]
    have : k < 8 * (n / 8) := by omega
    simp [this, hk, lowBits]
  | sint n m =>
    cases v <;> simp [hasTy] at ht
    rename_i i
    simp only [zeroCost, Bool.and_eq_true] at hz
    simp only [storageOK, decide_eq_true_eq] at hs
    have h8 : n % 8 = 0 := by have := isStd_storW hz.2; have := storW_mod8 n; omega
    refine ⟨_, rfl, by simp [primBits], by simp [elemRep, primBits, length_objRepLE], h8, WF_objRepLE _ _, ?_⟩
    intro k hk
    simp only [primBits] at hk
    rw [castS_eq_lowBits n m i hs.1 hs.2]
    have : satV true n (m == .sat) i = i := by simp [satV, hz.2]
    rw [this]
    simp only [elemRep, bitAt_objRepLE, gb_natToBits]
    have : k < 8 * (n / 8) := by omega
    simp [this, hk, lowBits]
  | float n m =>
    cases v <;> simp [hasTy] at ht
    rename_i x
    simp only [zeroCost, Bool.and_eq_true, Bool.or_eq_true, beq_iff_eq] at hz
    simp only [storageOK, decide_eq_true_eq] at hs
    simp only [wf, decide_eq_true_eq] at hw
    have h8 : n % 8 = 0 := by omega
    refine ⟨_, rfl, by simp [primBits], by simp [elemRep, primBits, length_objRepLE], h8, WF_objRepLE _ _, ?_⟩
    intro k hk
    simp only [primBits] at hk
    rw [← floatBits_eq_narrow hw m x ht hs]
    have e : (if n = 32 then f32bits x else x) = floatBits n m x := by
      rcases hz.2 with rfl | rfl <;> simp [floatBits]
    simp only [elemRep, e, bitAt_objRepLE, gb_natToBits]
    have : k < 8 * (n / 8) := by omega
    simp [this, hk]
  | _ => simp [zeroCost] at hz

theorem serAll_zeroCost (o : Opts) (t : Ty) (hz : zeroCost o t = true) (hw : wf t = true) :
    ∀ vs : List Val, (∀ v ∈ vs, hasTy t v = true ∧ storageOK t v = true) →
      ∃ bits, serAllWith (serBits t) vs = .ok bits ∧ bits.length = vs.length * primBits t ∧
        (vs.flatMap (elemRep t)).length = vs.length * (primBits t / 8) ∧ WF (vs.flatMap (elemRep t)) ∧
        ∀ i, i < vs.length * primBits t → bitAt (vs.flatMap (elemRep t)) i = gb bits i := by
  intro vs
  induction vs with
  | nil => intro _; exact ⟨[], rfl, by simp, by simp, by intro x hx; simp at hx, by intro i hi; simp at hi⟩
  | cons v vs ih =>
    intro h
    obtain ⟨b, hb, hbl, hrl, h8, hwf, hbits⟩ := elem_zeroCost o t v hz hw (h v (by simp)).1 (h v (by simp)).2
    obtain ⟨bs, hbs, hbsl, hrsl, hwfs, hbitss⟩ := ih (fun w hw' => h w (List.mem_cons_of_mem _ hw'))
    refine ⟨b ++ bs, by simp [serAllWith, hb, hbs], ?_, ?_, ?_, ?_⟩
    · simp only [List.length_append, List.length_cons, hbl, hbsl, Nat.succ_mul]; omega
    · simp only [List.flatMap_cons, List.length_append, List.length_cons, hrl, hrsl, Nat.succ_mul]; omega
    · simp only [List.flatMap_cons]; exact WF_append hwf hwfs
    · intro i hi
      simp only [List.length_cons, Nat.succ_mul] at hi
      simp only [List.flatMap_cons]
      rw [bitAt_append, gb_append, hrl, hbl]
      have e8 : 8 * (primBits t / 8) = primBits t := by omega
      rw [e8]
      by_cases hlt : i < primBits t
      · simp only [hlt, if_true]; exact hbits i hlt
      · simp only [hlt, if_false]; exact hbitss _ (by omega)

end NunavutVerif.GenC
