import NunavutVerif.Model.LexerFull
import NunavutVerif.Lemmas.Lexer
/-!
Helper lemmas for the whole-lexer part of C19 (core Lean only).
-/
namespace NunavutVerif.Lexer

/-! ## T1 for the whole state machine -/

theorem Env.upstream_cfg (e : Env) : e.upstream.cfg = e.cfg.upstream := rfl

theorem Env.upstream_order (e : Env) : e.upstream.order = e.order := rfl

theorem altF_upstream (e : Env) (prev : Option Char) (s : Str) (k : RKind) (h : hasMarker e.cfg s = false) :
    altF e prev s k = altF e.upstream prev s k := by
  match k with
  | .raw => simp only [altF]; rw [rawBegin_upstream e.cfg _ s h]; rfl
  | .variable => simp only [altF]; rw [tagBegin_upstream e.cfg _ _ s h]; rfl
  | .comment => simp only [altF]; rw [tagBegin_upstream e.cfg _ _ s h]; rfl
  | .block => simp only [altF]; rw [tagBegin_upstream e.cfg _ _ s h]; rfl
  | .lstmt => rfl
  | .lcmt => rfl

theorem firstAlt_upstream (e : Env) (prev : Option Char) (s : Str) (ks : List RKind)
    (h : hasMarker e.cfg s = false) : firstAlt e prev s ks = firstAlt e.upstream prev s ks := by
  induction ks with
  | nil => rfl
  | cons k ks ih => simp only [firstAlt]; rw [altF_upstream e prev s k h, ih]

theorem matchAtF_upstream (e : Env) (prev : Option Char) (s : Str) (h : hasMarker e.cfg s = false) :
    matchAtF e prev s = matchAtF e.upstream prev s := by
  unfold matchAtF
  rw [firstAlt_upstream e prev s _ h, Env.upstream_order]

theorem findBeginF_upstream (e : Env) (prev : Option Char) (s : Str) (h : hasMarker e.cfg s = false) :
    findBeginF e prev s = findBeginF e.upstream prev s := by
  induction s generalizing prev with
  | nil => simp [findBeginF]
  | cons c cs ih =>
    have ⟨_, h2⟩ := hasMarker_cons_false h
    simp only [findBeginF]
    rw [matchAtF_upstream e prev (c :: cs) h, ih _ h2]

/-! ### what a tag state leaves is a suffix of what it was given -/

theorem Inner.cons_done {t : Tok} {i : Inner} {ts : List Tok} {r : Str} {p : Option Char}
    (h : i.cons t = .done ts r p) : ∃ ts', i = .done ts' r p := by
  cases i with
  | done ts' r' p' => simp only [Inner.cons, Inner.done.injEq] at h; exact ⟨ts', by rw [h.2.1, h.2.2]⟩
  | halt ts' => simp [Inner.cons] at h

theorem lexTag_rest (tb : Tables) (st : TagState) (trim : Bool) (fuel : Nat) (bal : List Char)
    (prev : Option Char) (s : Str) {ts : List Tok} {r : Str} {p : Option Char}
    (h : lexTag tb st trim fuel bal prev s = .done ts r p) : ∃ n, r = s.drop n := by
  induction fuel generalizing bal prev s ts with
  | zero => simp [lexTag] at h
  | succ fuel ih =>
    simp only [lexTag] at h
    split at h
    · simp only [Inner.done.injEq] at h
      exact ⟨_, h.2.1.symm⟩
    · obtain ⟨ts', h'⟩ := Inner.cons_done h
      obtain ⟨m, hm⟩ := ih _ _ _ h'
      exact ⟨_ + m, by rw [hm, List.drop_drop]⟩
    · simp at h

theorem innerF_rest (lstrip trim : Bool) (tb : Tables) (k : RKind) (prev : Option Char) (s : Str)
    {ts : List Tok} {r : Str} {p : Option Char}
    (h : innerF lstrip trim tb k prev s = .done ts r p) : ∃ n, r = s.drop n := by
  match k with
  | .raw =>
    simp only [innerF, lexRaw] at h
    split at h
    · simp only [Inner.done.injEq] at h; exact ⟨_, h.2.1.symm⟩
    · split at h <;> simp at h
  | .comment =>
    simp only [innerF, lexComment] at h
    split at h
    · simp only [Inner.done.injEq] at h; exact ⟨_, h.2.1.symm⟩
    · split at h <;> simp at h
  | .lcmt =>
    simp only [innerF, lexLineComment, Inner.done.injEq] at h
    exact ⟨_, h.2.1.symm⟩
  | .variable => exact lexTag_rest tb _ trim _ _ prev s h
  | .block => exact lexTag_rest tb _ trim _ _ prev s h
  | .lstmt => exact lexTag_rest tb _ trim _ _ prev s h

/-- T1, whole lexer: on a text without marker the edited lexer and the lexer without Nunavut's alternatives
produce the same token stream from the root state. -/
theorem lexF_upstream (e : Env) (tb : Tables) (fuel : Nat) (prev : Option Char) (s : Str)
    (h : hasMarker e.cfg s = false) : lexF e tb fuel prev s = lexF e.upstream tb fuel prev s := by
  induction fuel generalizing prev s with
  | zero => rfl
  | succ fuel ih =>
    simp only [lexF]
    rw [findBeginF_upstream e prev s h]
    cases hfb : findBeginF e.upstream prev s with
    | none => rfl
    | some r =>
      obtain ⟨o, k, n⟩ := r
      simp only
      have hl : e.upstream.lstrip = e.lstrip := rfl
      have ht : e.upstream.trim = e.trim := rfl
      rw [hl, ht]
      cases hin : innerF e.lstrip e.trim tb k (prevAfter prev (List.take (o + n) s)) (List.drop (o + n) s) with
      | halt toks => rfl
      | done toks rest' prev' =>
        simp only [Inner.andThen]
        obtain ⟨m, hm⟩ := innerF_rest _ _ _ _ _ _ hin
        have hr : hasMarker e.cfg rest' = false := by
          rw [hm, List.drop_drop]; exact hasMarker_drop _ _ h
        rw [ih prev' rest' hr]

end NunavutVerif.Lexer

namespace NunavutVerif.Lexer

/-! ## a marker survives / is not created by the source normalisation -/

theorem startsMarker_cons3 (cfg : Cfg) (x y z : Char) (r : Str) :
    startsMarker cfg (x :: y :: z :: r) =
      (decide (x = '{') && decide (z = '*') &&
        ((cfg.star && (decide (y = '{') || decide (y = '%'))) || (cfg.commentStar && decide (y = '#')))) := by
  unfold startsMarker
  split
  · rename_i c t heq
    simp only [List.cons.injEq] at heq
    obtain ⟨rfl, rfl, rfl, rfl⟩ := heq
    simp
  · rename_i hne
    by_cases hx : x = '{'
    · by_cases hz : z = '*'
      · subst hx; subst hz; exact absurd rfl (hne y r)
      · simp [hz]
    · simp [hx]

theorem startsMarker_short1 (cfg : Cfg) (x : Char) : startsMarker cfg [x] = false := by simp [startsMarker]
theorem startsMarker_short2 (cfg : Cfg) (x y : Char) : startsMarker cfg [x, y] = false := by simp [startsMarker]

theorem hasMarker_append_nl (cfg : Cfg) (a b : Str) :
    hasMarker cfg (a ++ '\n' :: b) = (hasMarker cfg a || hasMarker cfg b) := by
  induction a with
  | nil =>
    match b with
    | [] => simp [hasMarker, startsMarker]
    | [y] => simp [hasMarker, startsMarker_short2, startsMarker_short1]
    | y :: z :: r => simp [hasMarker, startsMarker_cons3]
  | cons x a ih =>
    simp only [List.cons_append, hasMarker, ih]
    have hs : startsMarker cfg (x :: (a ++ '\n' :: b)) = startsMarker cfg (x :: a) := by
      match a with
      | [] =>
        match b with
        | [] => simp [startsMarker_short2, startsMarker_short1]
        | z :: r => simp [startsMarker_cons3, startsMarker_short1]
      | [y] => simp [startsMarker_cons3, startsMarker_short2]
      | y :: z :: a' => simp [startsMarker_cons3]
    rw [hs, Bool.or_assoc]

theorem hasMarker_joinNl (cfg : Cfg) (ls : List Str) (h : ∀ l ∈ ls, hasMarker cfg l = false) :
    hasMarker cfg (joinNl ls) = false := by
  match ls with
  | [] => rfl
  | [l] => exact h l (by simp)
  | l :: l' :: ls =>
    simp only [joinNl]
    rw [hasMarker_append_nl, h l (by simp), hasMarker_joinNl cfg (l' :: ls) (fun x hx => h x (by simp [hx]))]
    rfl

theorem hasMarker_append_false {cfg : Cfg} (a b : Str) (h : hasMarker cfg (a ++ b) = false) :
    hasMarker cfg b = false := by
  have := hasMarker_drop a.length (a ++ b) h
  simpa using this

theorem startsMarker_append (cfg : Cfg) (a b : Str) (h : startsMarker cfg a = true) :
    startsMarker cfg (a ++ b) = true := by
  match a, h with
  | x :: y :: z :: a', h => rw [List.cons_append, List.cons_append, List.cons_append, startsMarker_cons3]; rwa [startsMarker_cons3] at h
  | [], h => simp [startsMarker] at h
  | [_], h => simp [startsMarker] at h
  | [_, _], h => simp [startsMarker] at h

theorem hasMarker_prefix_false {cfg : Cfg} (a b : Str) (h : hasMarker cfg (a ++ b) = false) :
    hasMarker cfg a = false := by
  induction a with
  | nil => rfl
  | cons x a ih =>
    rw [List.cons_append] at h
    have ⟨h1, h2⟩ := hasMarker_cons_false h
    simp only [hasMarker, Bool.or_eq_false_iff]
    refine ⟨?_, ih h2⟩
    cases hs : startsMarker cfg (x :: a) with
    | false => rfl
    | true =>
      have := startsMarker_append cfg (x :: a) b hs
      rw [List.cons_append, h1] at this
      exact absurd this (by simp)

/-- every line of `splitlines s` is a piece of `s` -/
theorem splitlines_infix {s l : Str} (h : l ∈ splitlines s) : ∃ a b, s = a ++ l ++ b := by
  unfold splitlines at h
  rw [List.mem_map] at h
  obtain ⟨lt, hlt, rfl⟩ := h
  have hf := linesT_flatten s
  obtain ⟨L1, L2, hL⟩ := List.append_of_mem hlt
  rw [hL] at hf
  simp only [List.map_append, List.map_cons, List.flatten_append, List.flatten_cons, glue] at hf
  exact ⟨(L1.map glue).flatten, lt.2 ++ (L2.map glue).flatten, by rw [← hf]; simp⟩

theorem hasMarker_normalizeSource (cfg : Cfg) (keep : Bool) (s : Str) (h : hasMarker cfg s = false) :
    hasMarker cfg (normalizeSource keep s) = false := by
  unfold normalizeSource
  apply hasMarker_joinNl
  intro l hl
  rw [List.mem_append] at hl
  rcases hl with hl | hl
  · obtain ⟨a, b, rfl⟩ := splitlines_infix hl
    rw [List.append_assoc] at h
    exact hasMarker_prefix_false l b (hasMarker_append_false a _ h)
  · split at hl
    · simp only [List.mem_singleton] at hl; subst hl; rfl
    · simp at hl

theorem tokeniter_upstream (e : Env) (tb : Tables) (keep : Bool) (source : Str)
    (h : hasMarker e.cfg source = false) : tokeniter e tb keep source = tokeniter e.upstream tb keep source := by
  unfold tokeniter
  exact lexF_upstream e tb _ none _ (hasMarker_normalizeSource e.cfg keep source h)

end NunavutVerif.Lexer

namespace NunavutVerif.Lexer

/-! ## bridge: without line statement / comment prefixes the root rule is the one of `Model/Lexer.lean` -/

def liftMatch (r : Option (Kind × Nat)) : Option (RKind × Nat) := r.map fun p => (p.1.toR, p.2)
def liftFind (r : Option (Nat × Kind × Nat)) : Option (Nat × RKind × Nat) := r.map fun p => (p.1, p.2.1.toR, p.2.2)

theorem order_noLine (e : Env) (h1 : e.lineStmt = none) (h2 : e.lineCmt = none) :
    e.order = [.variable, .comment, .block] := by
  simp [Env.order, h1, h2, insertDesc, keyGt, RKind.rank]

theorem matchAtF_noLine (e : Env) (h1 : e.lineStmt = none) (h2 : e.lineCmt = none) (prev : Option Char) (s : Str) :
    matchAtF e prev s = liftMatch (matchAt e.cfg (isBol prev) s) := by
  unfold matchAtF matchAt liftMatch
  rw [order_noLine e h1 h2]
  simp only [firstAlt, altF]
  cases rawBegin e.cfg (isBol prev) s <;> simp [Kind.toR]
  cases tagBegin e.cfg Kind.variable (isBol prev) s <;> simp
  cases tagBegin e.cfg Kind.comment (isBol prev) s <;> simp
  cases tagBegin e.cfg Kind.block (isBol prev) s <;> simp

theorem findBeginF_noLine (e : Env) (h1 : e.lineStmt = none) (h2 : e.lineCmt = none) (prev : Option Char) (s : Str) :
    findBeginF e prev s = liftFind (findBegin e.cfg (isBol prev) s) := by
  induction s generalizing prev with
  | nil => rfl
  | cons c cs ih =>
    simp only [findBeginF, findBegin]
    rw [matchAtF_noLine e h1 h2, ih (some c)]
    have : isBol (some c) = (c == '\n') := rfl
    rw [this]
    cases matchAt e.cfg (isBol prev) (c :: cs) with
    | some r => obtain ⟨k, n⟩ := r; rfl
    | none =>
      cases findBegin e.cfg (c == '\n') cs with
      | none => rfl
      | some r => obtain ⟨o, k, n⟩ := r; rfl

end NunavutVerif.Lexer

/-! ## the plain begin sequence: what the root rule does with `d w {c t` (no sign after the begin sequence) -/

namespace NunavutVerif.Lexer

theorem altMinus_none_before (a c : Char) (d w t : Str) (hd : ∀ x ∈ d, x ≠ '{')
    (hw : ∀ x ∈ w, isBlank x = true) (ht : t.head? ≠ some '-') :
    altMinus ['{', a] (d ++ (w ++ '{' :: c :: t)) = none := by
  unfold altMinus
  induction d with
  | nil =>
    rw [List.nil_append, skipLit_run w '{' _ (fun x hx => isSpace_of_isBlank (hw x hx)) (by decide)]
    cases t with
    | nil => simp [List.isPrefixOf]
    | cons y t => simp [List.isPrefixOf]; intro _ hy; subst hy; simp at ht
  | cons x d ih =>
    have hx : x ≠ '{' := hd x (by simp)
    have hd' : ∀ y ∈ d, y ≠ '{' := fun y hy => hd y (by simp [hy])
    by_cases hs : isSpace x = true
    · show skipLit isSpace _ (x :: (d ++ _)) = none
      rw [skipLit_cons_skip hs, ih hd']; rfl
    · have hs' : isSpace x = false := by simpa using hs
      exact skipLit_cons_none hs' (Ne.symm hx)

theorem matchAt_none_in_data_gen (cfg : Cfg) (bol : Bool) (c : Char) (d w t : Str) (hne : d ≠ [])
    (hd : ∀ x ∈ d, x ≠ '{') (hlast : ∀ x, d.getLast? = some x → isBlank x = false)
    (hw : ∀ x ∈ w, isBlank x = true) (ht : t.head? ≠ some '-') :
    matchAt cfg bol (d ++ (w ++ '{' :: c :: t)) = none := by
  have hm : ∀ a, altMinus ['{', a] (d ++ (w ++ '{' :: c :: t)) = none :=
    fun a => altMinus_none_before a c d w t hd hw ht
  have hb : ∀ l, skipLit isBlank ('{' :: l) (d ++ (w ++ '{' :: c :: t)) = none :=
    fun l => skipBlank_none_in_data l d _ hne hd hlast
  have hn : ∀ l, skipLit noSkip ('{' :: l) (d ++ (w ++ '{' :: c :: t)) = none := by
    intro l
    cases d with
    | nil => exact absurd rfl hne
    | cons x d => exact skipNone_none_in_data l x _ (hd x (by simp))
  have hm' : ∀ a, skipLit isSpace ['{', a, '-'] (d ++ (w ++ '{' :: c :: t)) = none :=
    fun a => by simpa [altMinus] using hm a
  have hrest : ∀ k, altRest cfg k bol (d ++ (w ++ '{' :: c :: t)) = none := by
    intro k
    cases k <;> simp only [altRest, altLstrip, altPlusOpt, altPlain, Kind.start, hb, hn] <;>
      (repeat' split) <;> simp
  have htag : ∀ k, tagBegin cfg k bol (d ++ (w ++ '{' :: c :: t)) = none := by
    intro k
    cases k <;>
      simp [tagBegin, altStar, altMinus, Kind.start, hb, hm', hrest]
  have hraw : rawBegin cfg bol (d ++ (w ++ '{' :: c :: t)) = none := by
    simp only [rawBegin, altStar, altMinus, altLstrip, altPlusOpt, altPlain, Kind.start, List.cons_append,
      List.nil_append, hb, hn, hm', thenTail]
    (repeat' split) <;> simp_all
  simp [matchAt, htag, hraw]

theorem findBegin_skip_data_gen (cfg : Cfg) (c : Char) (d w t : Str)
    (hd : ∀ x ∈ d, x ≠ '{') (hlast : ∀ x, d.getLast? = some x → isBlank x = false)
    (hw : ∀ x ∈ w, isBlank x = true) (ht : t.head? ≠ some '-') (bol : Bool) :
    findBegin cfg bol (d ++ (w ++ '{' :: c :: t)) =
      (findBegin cfg (bolAfter bol d) (w ++ '{' :: c :: t)).map
        fun r => (r.1 + d.length, r.2) := by
  induction d generalizing bol with
  | nil =>
    simp only [List.nil_append, bolAfter, List.getLast?_nil, List.length_nil, Nat.add_zero]
    cases findBegin cfg bol (w ++ '{' :: c :: t) <;> rfl
  | cons x d ih =>
    have hnone := matchAt_none_in_data_gen cfg bol c (x :: d) w t (by simp) hd hlast hw ht
    rw [List.cons_append] at hnone ⊢
    rw [findBegin, hnone]
    by_cases hne : d = []
    · subst hne
      simp only [List.nil_append, bolAfter, List.getLast?_singleton, List.length_cons, List.length_nil]
      cases findBegin cfg (x == '\n') (w ++ '{' :: c :: t) with
      | none => rfl
      | some r => obtain ⟨o, k, n⟩ := r; simp [pick]
    · have hl' : ∀ y, d.getLast? = some y → isBlank y = false := by
        intro y hy
        apply hlast y
        rw [List.getLast?_cons_of_ne_nil hne] <;> exact hy
      rw [ih (fun y hy => hd y (by simp [hy])) hl']
      have hb : bolAfter (x == '\n') d = bolAfter bol (x :: d) := by
        simp only [bolAfter, List.getLast?_cons_of_ne_nil hne]
        cases hg : d.getLast? with
        | none => simp [List.getLast?_eq_none_iff] at hg; exact absurd hg hne
        | some y => rfl
      rw [hb]
      cases findBegin cfg (bolAfter bol (x :: d)) (w ++ '{' :: c :: t) with
      | none => rfl
      | some r => obtain ⟨o, k, n⟩ := r; simp [pick]; omega



theorem noSign_cases {t : Str} (ht : noSign t) :
    t = [] ∨ ∃ y r, t = y :: r ∧ y ≠ '-' ∧ y ≠ '*' ∧ y ≠ '+' := by
  cases t with
  | nil => exact Or.inl rfl
  | cons y r =>
    refine Or.inr ⟨y, r, rfl, ?_, ?_, ?_⟩ <;> (intro h; subst h; simp [noSign] at ht)

/-- inside the blanks in front of a plain begin sequence nothing matches, unless `lstrip_blocks` strips them
(block begin at the start of a line) -/
theorem matchAt_none_in_blanks (cfg : Cfg) (bol : Bool) (c : Char) (W t : Str) (hc : c = '{' ∨ c = '%')
    (hne : W ≠ []) (hW : ∀ x ∈ W, isBlank x = true) (ht : noSign t)
    (hcap : (cfg.lstrip && bol && c == '%') = false) :
    matchAt cfg bol (W ++ '{' :: c :: t) = none := by
  rcases noSign_cases ht with rfl | ⟨y, r, rfl, h1, h2, h3⟩
  · rcases hc with rfl | rfl <;> cases hl : cfg.lstrip <;> cases bol <;> simp [hl] at hcap <;>
      simp [matchAt, rawBegin, tagBegin, altRest, altMinus, altStar, altPlain, altPlusOpt, altLstrip, thenTail, Kind.start,
        skipSpace_at _ _ _ hW, skipBlank_at _ _ _ hW, skipNone_at _ _ _ hW, List.isPrefixOf, hl, hne]
  · have h1' := Ne.symm h1
    have h2' := Ne.symm h2
    have h3' := Ne.symm h3
    rcases hc with rfl | rfl <;> cases hl : cfg.lstrip <;> cases bol <;> simp [hl] at hcap <;>
      simp [matchAt, rawBegin, tagBegin, altRest, altMinus, altStar, altPlain, altPlusOpt, altLstrip, thenTail, Kind.start,
        skipSpace_at _ _ _ hW, skipBlank_at _ _ _ hW, skipNone_at _ _ _ hW, List.isPrefixOf, hl, hne, h1', h2']



theorem isPrefixOf_sign (a b c x : Char) (t : Str) (hx : t.head? ≠ some x) :
    List.isPrefixOf [a, b, x] (a :: c :: t) = false := by
  cases t with
  | nil => simp [List.isPrefixOf]
  | cons y r =>
    have : y ≠ x := by intro h; subst h; simp at hx
    simp [List.isPrefixOf, Ne.symm this]

/-- the alternatives of one tag kind on `W{c t` (W blanks, t without sign) -/
theorem alts_at_plain (a c : Char) (W t : Str) (hW : ∀ x ∈ W, isBlank x = true) (ht : noSign t) :
    altMinus ['{', a] (W ++ '{' :: c :: t) = none ∧ altStar ['{', a] (W ++ '{' :: c :: t) = none ∧
    altPlain ['{', a] (W ++ '{' :: c :: t) = (if W = [] ∧ a = c then some 2 else none) ∧
    altPlusOpt ['{', a] (W ++ '{' :: c :: t) = (if W = [] ∧ a = c then some 2 else none) ∧
    (∀ np bol, altLstrip ['{', a] np bol (W ++ '{' :: c :: t) = (if bol = true ∧ a = c then some (W.length + 2) else none)) := by
  have hd2 : List.drop (W.length + 2) (W ++ '{' :: c :: t) = t := by rw [drop_blank_marker]; rfl
  have hplus : nextIsPlus t = false := by
    cases t with
    | nil => rfl
    | cons y r =>
      have hy : y ≠ '+' := by intro h; subst h; exact ht.2.2 rfl
      unfold nextIsPlus
      split
      · rename_i heq; cases heq; exact absurd rfl hy
      · rfl
  refine ⟨?_, ?_, ?_, ?_, ?_⟩
  · simp only [altMinus, List.cons_append, List.nil_append, skipSpace_at _ W _ hW]
    by_cases hac : a = c
    · subst hac; rw [isPrefixOf_sign _ _ _ _ _ ht.1]; simp
    · simp [List.isPrefixOf, hac]
  · simp only [altStar, List.cons_append, List.nil_append, skipBlank_at _ W _ hW]
    by_cases hac : a = c
    · subst hac; rw [isPrefixOf_sign _ _ _ _ _ ht.2.1]; simp
    · simp [List.isPrefixOf, hac]
  · simp only [altPlain, skipNone_at _ W _ hW]
    by_cases hac : a = c <;> simp [List.isPrefixOf, hac]
  · simp only [altPlusOpt, skipNone_at _ W _ hW]
    by_cases hac : a = c
    · by_cases hwn : W = []
      · subst hwn; subst hac; simp [List.isPrefixOf, hplus]
      · simp [hwn]
    · simp [List.isPrefixOf, hac]
  · intro np bol
    simp only [altLstrip, skipBlank_at _ W _ hW]
    cases bol
    · simp
    · by_cases hac : a = c
      · subst hac; simp [List.isPrefixOf, hd2, hplus]
      · simp [List.isPrefixOf, hac]

/-- `lstrip_blocks`: at the start of a line the blanks in front of a plain `{%` belong to the begin token -/
theorem matchAt_lstrip_block (cfg : Cfg) (W t : Str) (hl : cfg.lstrip = true)
    (hW : ∀ x ∈ W, isBlank x = true) (ht : noSign t) (hraw : rawTail t = none) :
    matchAt cfg true (W ++ '{' :: '%' :: t) = some (Kind.block, W.length + 2) := by
  have hd2 : List.drop (W.length + 2) (W ++ '{' :: '%' :: t) = t := by rw [drop_blank_marker]; rfl
  obtain ⟨pA, pS, pP, pO, pL⟩ := alts_at_plain '%' '%' W t hW ht
  obtain ⟨vA, vS, vP, _, _⟩ := alts_at_plain '{' '%' W t hW ht
  obtain ⟨cA, cS, _, cO, cL⟩ := alts_at_plain '#' '%' W t hW ht
  have hT : thenTail (some (W.length + 2)) (W ++ '{' :: '%' :: t) = none := by simp [thenTail, hd2, hraw]
  have hT2 : thenTail (if W = [] then some 2 else none) (W ++ '{' :: '%' :: t) = none := by
    by_cases hwn : W = []
    · subst hwn; simp [thenTail, hraw]
    · simp [thenTail, hwn]
  have hrawB : rawBegin cfg true (W ++ '{' :: '%' :: t) = none := by
    simp only [rawBegin, Kind.start, pA, pS, pL, pO, hl, thenTail_none, hT, hT2, if_true, and_self, and_true]
    cases cfg.star <;> simp
  have hvar : tagBegin cfg .variable true (W ++ '{' :: '%' :: t) = none := by
    simp [tagBegin, altRest, Kind.start, vA, vS, vP]
  have hcom : tagBegin cfg .comment true (W ++ '{' :: '%' :: t) = none := by
    simp [tagBegin, altRest, Kind.start, cA, cS, cO, cL, hl]
  have hblk : tagBegin cfg .block true (W ++ '{' :: '%' :: t) = some (W.length + 2) := by
    simp [tagBegin, altRest, Kind.start, pA, pS, pL, hl]
  simp [matchAt, hrawB, hvar, hcom, hblk]

/-- a plain begin sequence at the current offset -/
theorem matchAt_plain_begin (cfg : Cfg) (bol : Bool) (c : Char) (t : Str) (hc : c = '{' ∨ c = '%')
    (ht : noSign t) (hraw : c = '%' → rawTail t = none) :
    matchAt cfg bol ('{' :: c :: t) = some (if c = '{' then Kind.variable else Kind.block, 2) := by
  have hW : ∀ x ∈ ([] : Str), isBlank x = true := by simp
  obtain ⟨pA, pS, pP, pO, pL⟩ := alts_at_plain '%' c [] t hW ht
  obtain ⟨vA, vS, vP, _, _⟩ := alts_at_plain '{' c [] t hW ht
  obtain ⟨cA, cS, cP, cO, cL⟩ := alts_at_plain '#' c [] t hW ht
  simp only [List.nil_append, List.length_nil, Nat.zero_add, true_and] at pA pS pP pO pL vA vS vP cA cS cP cO cL
  rcases hc with rfl | rfl
  · have hrawB : rawBegin cfg bol ('{' :: '{' :: t) = none := by
      simp only [rawBegin, Kind.start, pA, pS, pL, pO, pP, thenTail_none]
      cases cfg.star <;> cases cfg.lstrip <;> simp [thenTail]
    have hvar : tagBegin cfg .variable bol ('{' :: '{' :: t) = some 2 := by
      simp [tagBegin, altRest, Kind.start, vA, vS, vP]
    simp [matchAt, hrawB, hvar]
  · have hr := hraw rfl
    have hrawB : rawBegin cfg bol ('{' :: '%' :: t) = none := by
      simp only [rawBegin, Kind.start, pA, pS, pL, pO, pP, thenTail_none]
      cases cfg.star <;> cases cfg.lstrip <;> cases bol <;> simp [thenTail, hr]
    have hvar : tagBegin cfg .variable bol ('{' :: '%' :: t) = none := by
      simp [tagBegin, altRest, Kind.start, vA, vS, vP]
    have hcom : tagBegin cfg .comment bol ('{' :: '%' :: t) = none := by
      simp only [tagBegin, altRest, Kind.start, cA, cS, cO, cL, cP]
      cases cfg.lstrip <;> simp
    have hblk : tagBegin cfg .block bol ('{' :: '%' :: t) = some 2 := by
      simp only [tagBegin, altRest, Kind.start, pA, pS, pL, pO, pP]
      cases cfg.lstrip <;> cases bol <;> simp
    simp [matchAt, hrawB, hvar, hcom, hblk]

end NunavutVerif.Lexer

namespace NunavutVerif.Lexer

theorem blank_not_nl {b : Char} (hb : isBlank b = true) : (b == '\n') = false := by
  simp only [isBlank, Bool.or_eq_true, decide_eq_true_eq] at hb
  rcases hb with rfl | rfl <;> decide

theorem findBegin_blanks (cfg : Cfg) (bol : Bool) (c : Char) (w t : Str) (hc : c = '{' ∨ c = '%')
    (hw : ∀ x ∈ w, isBlank x = true) (ht : noSign t) (hraw : c = '%' → rawTail t = none)
    (hcap : (cfg.lstrip && bol && c == '%') = false) :
    findBegin cfg bol (w ++ '{' :: c :: t) = some (w.length, kindOf c, 2) := by
  induction w generalizing bol with
  | nil => exact findBegin_of_matchAt (matchAt_plain_begin cfg bol c t hc ht hraw) (by simp)
  | cons b w ih =>
    have hb : isBlank b = true := hw b (by simp)
    have hw' : ∀ x ∈ w, isBlank x = true := fun x hx => hw x (by simp [hx])
    have hnone := matchAt_none_in_blanks cfg bol c (b :: w) t hc (by simp) hw ht hcap
    rw [List.cons_append] at hnone ⊢
    rw [findBegin, hnone, ih (b == '\n') hw' (by simp [blank_not_nl hb])]
    rfl

/-- The root rule on `d w {c t`: data without `{` not ending in a blank, blanks, a plain begin sequence. -/
theorem findBegin_plain (cfg : Cfg) (bol : Bool) (c : Char) (d w t : Str) (hc : c = '{' ∨ c = '%')
    (hd : ∀ x ∈ d, x ≠ '{') (hlast : ∀ x, d.getLast? = some x → isBlank x = false)
    (hw : ∀ x ∈ w, isBlank x = true) (ht : noSign t) (hraw : c = '%' → rawTail t = none) :
    findBegin cfg bol (d ++ (w ++ '{' :: c :: t)) =
      if (cfg.lstrip && bolAfter bol d && c == '%') = true then some (d.length, Kind.block, w.length + 2)
      else some (d.length + w.length, kindOf c, 2) := by
  rw [findBegin_skip_data_gen cfg c d w t hd hlast hw ht.1 bol]
  split
  · rename_i hcap
    simp only [Bool.and_eq_true, beq_iff_eq] at hcap
    obtain ⟨⟨hl, hb⟩, rfl⟩ := hcap
    rw [hb, findBegin_of_matchAt (matchAt_lstrip_block cfg w t hl hw ht (hraw rfl)) (by simp)]
    simp
  · rename_i hcap
    rw [findBegin_blanks cfg _ c w t hc hw ht hraw (by simpa using hcap)]
    simp [Nat.add_comm]

/-- The root rule on `d w {c* rest` (Nunavut's alternative). -/
theorem findBegin_marker (cfg : Cfg) (hs : cfg.star = true) (bol : Bool) (c : Char) (d w rest : Str)
    (hc : c = '{' ∨ c = '%')
    (hd : ∀ x ∈ d, x ≠ '{') (hlast : ∀ x, d.getLast? = some x → isBlank x = false)
    (hw : ∀ x ∈ w, isBlank x = true) (hraw : c = '%' → rawTail rest = none) :
    findBegin cfg bol (d ++ (w ++ '{' :: c :: '*' :: rest)) = some (d.length, kindOf c, w.length + 3) := by
  have hm : matchAt cfg (bolAfter bol d) (w ++ '{' :: c :: '*' :: rest) = some (kindOf c, w.length + 3) := by
    rcases hc with rfl | rfl
    · simpa [kindOf] using matchAt_variable_marker cfg hs _ w rest hw
    · simpa [kindOf] using matchAt_block_marker cfg hs _ w rest hw (hraw rfl)
  rw [findBegin_skip_data cfg c d w rest hd hlast hw bol, findBegin_of_matchAt hm (by simp)]
  simp

/-! ### take / drop on the three-part text -/

theorem take_data (d x : Str) : (d ++ x).take d.length = d := by simp
theorem drop_data (d x : Str) : (d ++ x).drop d.length = x := by simp

theorem take_dw (d w x : Str) : (d ++ (w ++ x)).take (d.length + w.length) = d ++ w := by
  have : d ++ (w ++ x) = (d ++ w) ++ x := by simp
  rw [this, ← List.length_append]; exact List.take_left
theorem drop_dw (d w x : Str) : (d ++ (w ++ x)).drop (d.length + w.length) = x := by
  have : d ++ (w ++ x) = (d ++ w) ++ x := by simp
  rw [this, ← List.length_append]; exact List.drop_left

/-! ### the character in front of a block / variable state does not matter unless it is a dot -/

theorem take_ne_nil_of_pos {s : Str} {n : Nat} (hs : s ≠ []) (hn : 0 < n) : s.take n ≠ [] := by
  cases s with
  | nil => exact absurd rfl hs
  | cons a s => cases n with
    | zero => omega
    | succ n => simp

theorem prevAfter_ne_nil {prev prev' : Option Char} {x : Str} (h : x ≠ []) : prevAfter prev x = prevAfter prev' x := by
  unfold prevAfter
  cases hx : x.getLast? with
  | none => simp [List.getLast?_eq_none_iff] at hx; exact absurd hx h
  | some c => rfl

theorem spanLen_pos_ne_nil {p : Char → Bool} {s : Str} (h : 0 < spanLen p s) : s ≠ [] := by
  cases s with
  | nil => simp [spanLen] at h
  | cons a s => simp

theorem closeAt_consumes {c1 c2 : Char} {tr : Bool} {s : Str} {n : Nat} (h : closeAt c1 c2 tr s = some n) :
    s.take n ≠ [] := by
  unfold closeAt at h
  split at h
  · rename_i hp
    have hs : s ≠ [] := by intro hs; subst hs; simp [List.isPrefixOf] at hp
    simp only [Option.some.injEq] at h
    exact take_ne_nil_of_pos hs (by omega)
  · split at h
    · rename_i hp
      have hs : s ≠ [] := by intro hs; subst hs; simp [List.isPrefixOf] at hp
      simp only [Option.some.injEq] at h
      exact take_ne_nil_of_pos hs (by split at h <;> omega)
    · simp at h

theorem operatorAt_consumes {ops : List Str} (hops : ∀ op ∈ ops, op ≠ []) {s : Str} {n : Nat}
    (h : operatorAt ops s = some n) : 0 < n ∧ s ≠ [] := by
  induction ops with
  | nil => simp [operatorAt] at h
  | cons op ops ih =>
    simp only [operatorAt] at h
    split at h
    · rename_i hp
      simp only [Option.some.injEq] at h
      have hne := hops op (by simp)
      constructor
      · rw [← h]; exact List.length_pos_iff.mpr hne
      · intro hs; subst hs
        cases op with
        | nil => exact hne rfl
        | cons a op => simp [List.isPrefixOf] at hp
    · exact ih (fun o ho => hops o (by simp [ho])) h

end NunavutVerif.Lexer

namespace NunavutVerif.Lexer

theorem tagAct_prev (tb : Tables) (st : TagState) (trim : Bool) (bal : List Char) (prev prev' : Option Char) (s : Str)
    (hp : (prev != some '.') = (prev' != some '.')) :
    tagAct tb st trim bal prev s = tagAct tb st trim bal prev' s := by
  have : floatAt tb prev s = floatAt tb prev' s := by simp only [floatAt, hp]
  simp only [tagAct, this]

theorem posSpan_consumes {p : Char → Bool} {s : Str} {n : Nat} (h : posSpan p s = some n) : s.take n ≠ [] := by
  unfold posSpan at h
  simp only at h
  split at h
  · rename_i hpos
    simp only [Option.some.injEq] at h
    subst h
    exact take_ne_nil_of_pos (spanLen_pos_ne_nil (by simpa using hpos)) (by simpa using hpos)
  · simp at h

theorem operatorAct_consumes {bal bal' : List Char} {s : Str} {n m : Nat} {t : TT} (hn : 0 < n) (hs : s ≠ [])
    (h : operatorAct bal (s.take n) = .emit t m bal') : s.take m ≠ [] := by
  have hlen : 0 < (s.take n).length := by
    rw [List.length_take]; have := List.length_pos_iff.mpr hs; omega
  unfold operatorAct at h
  split at h
  · have h1 : s.take 1 ≠ [] := take_ne_nil_of_pos hs (by omega)
    split at h
    · simp only [TagAct.emit.injEq] at h; rw [← h.2.1]; exact h1
    · split at h
      · split at h
        · simp at h
        · split at h
          · simp only [TagAct.emit.injEq] at h; rw [← h.2.1]; exact h1
          · simp at h
      · simp only [TagAct.emit.injEq] at h; rw [← h.2.1]; exact h1
  · simp only [TagAct.emit.injEq] at h
    rw [← h.2.1]
    exact take_ne_nil_of_pos hs hlen

theorem tagAct_consumes (tb : Tables) (hops : ∀ op ∈ tb.operators, op ≠ []) (st : TagState) (hst : st ≠ .lstmt)
    (trim : Bool) (bal : List Char) (prev : Option Char) (s : Str) :
    (∀ n, tagAct tb st trim bal prev s = .finish n → s.take n ≠ []) ∧
    (∀ t n bal', tagAct tb st trim bal prev s = .emit t n bal' → s.take n ≠ []) := by
  constructor
  · intro n h
    unfold tagAct tagRules at h
    split at h
    · rename_i m hend
      simp only [TagAct.finish.injEq] at h; subst h
      split at hend
      · rcases st with _ | _ | _
        · exact closeAt_consumes hend
        · exact closeAt_consumes hend
        · exact absurd rfl hst
      · simp at hend
    · repeat' split at h
      all_goals first | (simp at h; done) | skip
      all_goals (unfold operatorAct at h; repeat' split at h)
      all_goals simp at h
  · intro t n bal' h
    unfold tagAct tagRules at h
    split at h
    · simp at h
    · split at h
      · rename_i m hm; simp only [TagAct.emit.injEq] at h; rw [← h.2.1]; exact posSpan_consumes hm
      · split at h
        · rename_i m hm
          simp only [TagAct.emit.injEq] at h; rw [← h.2.1]
          have hfl : floatAt tb prev s = some m := hm
          unfold floatAt at hfl
          simp only at hfl
          split at hfl
          · rename_i hc
            simp only [Bool.and_eq_true, decide_eq_true_eq] at hc
            simp only [Option.some.injEq] at hfl
            exact take_ne_nil_of_pos (spanLen_pos_ne_nil hc.1.1.2) (by omega)
          · simp at hfl
        · split at h
          · rename_i m hm; simp only [TagAct.emit.injEq] at h; rw [← h.2.1]; exact posSpan_consumes hm
          · split at h
            · rename_i m hm; simp only [TagAct.emit.injEq] at h; rw [← h.2.1]; exact posSpan_consumes hm
            · split at h
              · rename_i m hm
                simp only [TagAct.emit.injEq] at h; rw [← h.2.1]
                unfold stringAt at hm
                split at hm
                · split at hm
                  · simp only [Option.map_eq_some_iff] at hm
                    obtain ⟨a, _, ha⟩ := hm
                    rw [← ha]; simp
                  · simp at hm
                · simp at hm
              · split at h
                · rename_i m hm
                  obtain ⟨hpos, hs⟩ := operatorAt_consumes hops hm
                  exact operatorAct_consumes hpos hs h
                · split at h <;> simp at h


theorem lexTag_prev (tb : Tables) (hops : ∀ op ∈ tb.operators, op ≠ []) (st : TagState) (hst : st ≠ .lstmt)
    (trim : Bool) (fuel : Nat) (bal : List Char) (prev prev' : Option Char) (s : Str)
    (hp : (prev != some '.') = (prev' != some '.')) :
    lexTag tb st trim fuel bal prev s = lexTag tb st trim fuel bal prev' s := by
  cases fuel with
  | zero => rfl
  | succ fuel =>
    simp only [lexTag]
    rw [tagAct_prev tb st trim bal prev prev' s hp]
    obtain ⟨hfin, hemit⟩ := tagAct_consumes tb hops st hst trim bal prev' s
    cases hact : tagAct tb st trim bal prev' s with
    | finish n => simp only; rw [prevAfter_ne_nil (hfin n hact)]
    | emit t n bal' => simp only; rw [prevAfter_ne_nil (hemit t n bal' hact)]
    | stop toks => rfl

/-- The state entered by a block / variable begin token does not see whether the begin token ended in `*`. -/
theorem innerF_prev (lstrip trim : Bool) (tb : Tables) (hops : ∀ op ∈ tb.operators, op ≠ []) (k : RKind)
    (hk : k = .variable ∨ k = .block) (prev prev' : Option Char) (s : Str)
    (hp : (prev != some '.') = (prev' != some '.')) :
    innerF lstrip trim tb k prev s = innerF lstrip trim tb k prev' s := by
  rcases hk with rfl | rfl
  · exact lexTag_prev tb hops _ (by decide) trim _ _ prev prev' s hp
  · exact lexTag_prev tb hops _ (by decide) trim _ _ prev prev' s hp

end NunavutVerif.Lexer

namespace NunavutVerif.Lexer

/-- one root step of `lexF`, given what the root rule finds -/
theorem lexF_of_findBeginF (e : Env) (tb : Tables) (fuel : Nat) (prev : Option Char) (d x rest : Str) (k : RKind)
    (h : findBeginF e prev (d ++ (x ++ rest)) = some (d.length, k, x.length)) :
    lexF e tb (fuel + 1) prev (d ++ (x ++ rest)) =
      optTok .data d ++ .tok k.beginTT x ::
        (innerF e.lstrip e.trim tb k (prevAfter prev (d ++ x)) rest).andThen (lexF e tb fuel) := by
  simp only [lexF, h]
  have h1 : List.take d.length (d ++ (x ++ rest)) = d := by simp
  have h2 : List.take x.length (List.drop d.length (d ++ (x ++ rest))) = x := by simp
  have h3 : List.drop (d.length + x.length) (d ++ (x ++ rest)) = rest := drop_dw d x rest
  have h4 : List.take (d.length + x.length) (d ++ (x ++ rest)) = d ++ x := take_dw d x rest
  rw [h1, h2, h3, h4]

theorem prevAfter_snoc (prev : Option Char) (a : Str) (c : Char) : prevAfter prev (a ++ [c]) = some c := by
  simp [prevAfter]

theorem lexF_marker (e : Env) (tb : Tables) (hs : e.star = true) (h1 : e.lineStmt = none) (h2 : e.lineCmt = none)
    (fuel : Nat) (prev : Option Char) (c : Char) (d w rest : Str) (hc : c = '{' ∨ c = '%')
    (hd : ∀ x ∈ d, x ≠ '{') (hlast : ∀ x, d.getLast? = some x → isBlank x = false)
    (hw : ∀ x ∈ w, isBlank x = true) (hraw : c = '%' → rawTail rest = none) :
    lexF e tb (fuel + 1) prev (d ++ (w ++ '{' :: c :: '*' :: rest)) =
      optTok .data d ++ .tok (kindOf c).toR.beginTT (w ++ ['{', c, '*']) ::
        (innerF e.lstrip e.trim tb (kindOf c).toR (some '*') rest).andThen (lexF e tb fuel) := by
  have hx : w ++ '{' :: c :: '*' :: rest = (w ++ ['{', c, '*']) ++ rest := by simp
  have hf : findBeginF e prev (d ++ ((w ++ ['{', c, '*']) ++ rest)) =
      some (d.length, (kindOf c).toR, (w ++ ['{', c, '*']).length) := by
    rw [← hx, findBeginF_noLine e h1 h2, findBegin_marker e.cfg hs _ c d w rest hc hd hlast hw hraw]
    simp [liftFind]
  rw [hx, lexF_of_findBeginF e tb fuel prev d _ rest _ hf]
  have hp : prevAfter prev (d ++ (w ++ ['{', c, '*'])) = some '*' := by
    have : d ++ (w ++ ['{', c, '*']) = (d ++ w ++ ['{', c]) ++ ['*'] := by simp
    rw [this, prevAfter_snoc]
  rw [hp]

theorem lexF_plain (e : Env) (tb : Tables) (h1 : e.lineStmt = none) (h2 : e.lineCmt = none)
    (fuel : Nat) (prev : Option Char) (c : Char) (d w t : Str) (hc : c = '{' ∨ c = '%')
    (hd : ∀ x ∈ d, x ≠ '{') (hlast : ∀ x, d.getLast? = some x → isBlank x = false)
    (hw : ∀ x ∈ w, isBlank x = true) (ht : noSign t) (hraw : c = '%' → rawTail t = none) :
    lexF e tb (fuel + 1) prev (d ++ (w ++ '{' :: c :: t)) =
      (if (e.lstrip && bolAfter (isBol prev) d && c == '%') = true
        then optTok .data d ++ [.tok (kindOf c).toR.beginTT (w ++ ['{', c])]
        else optTok .data (d ++ w) ++ [.tok (kindOf c).toR.beginTT ['{', c]]) ++
        (innerF e.lstrip e.trim tb (kindOf c).toR (some c) t).andThen (lexF e tb fuel) := by
  have hfb := findBegin_plain e.cfg (isBol prev) c d w t hc hd hlast hw ht hraw
  have hl : e.cfg.lstrip = e.lstrip := rfl
  rw [hl] at hfb
  split
  · rename_i hcap
    rw [if_pos hcap] at hfb
    have hk : kindOf c = Kind.block := by
      simp only [Bool.and_eq_true, beq_iff_eq] at hcap
      rw [hcap.2]; rfl
    have hx : w ++ '{' :: c :: t = (w ++ ['{', c]) ++ t := by simp
    have hf : findBeginF e prev (d ++ ((w ++ ['{', c]) ++ t)) =
        some (d.length, (kindOf c).toR, (w ++ ['{', c]).length) := by
      rw [← hx, findBeginF_noLine e h1 h2, hfb, hk]
      simp [liftFind]
    rw [hx, lexF_of_findBeginF e tb fuel prev d _ t _ hf]
    have hp : prevAfter prev (d ++ (w ++ ['{', c])) = some c := by
      have : d ++ (w ++ ['{', c]) = (d ++ w ++ ['{']) ++ [c] := by simp
      rw [this, prevAfter_snoc]
    rw [hp]
    simp
  · rename_i hcap
    rw [if_neg hcap] at hfb
    have hx : d ++ (w ++ '{' :: c :: t) = (d ++ w) ++ (['{', c] ++ t) := by simp
    have hf : findBeginF e prev ((d ++ w) ++ (['{', c] ++ t)) =
        some ((d ++ w).length, (kindOf c).toR, (['{', c] : Str).length) := by
      rw [← hx, findBeginF_noLine e h1 h2, hfb]
      simp [liftFind]
    rw [hx, lexF_of_findBeginF e tb fuel prev (d ++ w) _ t _ hf]
    have hp : prevAfter prev (d ++ w ++ ['{', c]) = some c := by
      have : d ++ w ++ ['{', c] = (d ++ w ++ ['{']) ++ [c] := by simp
      rw [this, prevAfter_snoc]
    rw [hp]
    simp

/-- a character other than `{` in front changes nothing about markers -/
theorem hasMarker_cons_ne (cfg : Cfg) (x : Char) (s : Str) (hx : x ≠ '{') :
    hasMarker cfg (x :: s) = hasMarker cfg s := by
  have : startsMarker cfg (x :: s) = false := by
    match s with
    | [] => exact startsMarker_short1 cfg x
    | [y] => exact startsMarker_short2 cfg x y
    | y :: z :: r => rw [startsMarker_cons3]; simp [hx]
  simp [hasMarker, this]

theorem hasMarker_append_noBrace (cfg : Cfg) (a s : Str) (ha : ∀ x ∈ a, x ≠ '{') :
    hasMarker cfg (a ++ s) = hasMarker cfg s := by
  induction a with
  | nil => rfl
  | cons x a ih =>
    rw [List.cons_append, hasMarker_cons_ne cfg x _ (ha x (by simp)), ih (fun y hy => ha y (by simp [hy]))]

end NunavutVerif.Lexer

/-! ## without a marker no begin token ends in `*`: the parser edit is invisible -/

namespace NunavutVerif.Lexer

theorem getLast?_append_ne_nil (a b : Str) (h : b ≠ []) : (a ++ b).getLast? = b.getLast? := by
  cases b with
  | nil => exact absurd rfl h
  | cons x b =>
    rw [List.getLast?_append]
    cases hb : (x :: b).getLast? with
    | none => simp [List.getLast?_eq_none_iff] at hb
    | some y => rfl

theorem getLast?_take_prefix (s lit : Str) (m : Nat) (h : lit.isPrefixOf (s.drop m) = true) (hne : lit ≠ []) :
    (s.take (m + lit.length)).getLast? = lit.getLast? := by
  rw [List.isPrefixOf_iff_prefix] at h
  obtain ⟨t, ht⟩ := h
  have : s.take (m + lit.length) = s.take m ++ lit := by
    rw [List.take_add, ← ht]; simp
  rw [this, getLast?_append_ne_nil _ _ hne]

theorem skipLit_some {cls : Char → Bool} {lit s : Str} {n : Nat} (h : skipLit cls lit s = some n) :
    n = spanLen cls s + lit.length ∧ lit.isPrefixOf (s.drop (spanLen cls s)) = true := by
  unfold skipLit at h
  simp only at h
  split at h
  · rename_i hp; simp only [Option.some.injEq] at h; exact ⟨h.symm, hp⟩
  · simp at h

theorem skipLit_last {cls : Char → Bool} {lit s : Str} {n : Nat} (h : skipLit cls lit s = some n) (hne : lit ≠ []) :
    (s.take n).getLast? = lit.getLast? := by
  obtain ⟨rfl, hp⟩ := skipLit_some h
  exact getLast?_take_prefix s lit _ hp hne

/-- the last character of what an upstream alternative of a tag kind matches is never `*` -/
theorem tagBegin_upstream_last (cfg : Cfg) (k : Kind) (bol : Bool) (s : Str) (n : Nat)
    (h : tagBegin cfg.upstream k bol s = some n) : (s.take n).getLast? ≠ some '*' := by
  have hst : k.start ≠ [] ∧ k.start.getLast? ≠ some '*' ∧ k.start.getLast? ≠ none := by cases k <;> simp [Kind.start]
  have hsf : cfg.upstream.starFor k = false := by cases k <;> rfl
  unfold tagBegin at h
  rw [hsf] at h
  simp only [Bool.false_eq_true, if_false, Option.none_or] at h
  cases hm : altMinus k.start s with
  | some m =>
    rw [hm] at h; simp only [Option.some_or, Option.some.injEq] at h; subst h
    unfold altMinus at hm
    rw [skipLit_last hm (by simp)]
    simp
  | none =>
    rw [hm] at h; simp only [Option.none_or] at h
    have plain : ∀ m, altPlain k.start s = some m → (s.take m).getLast? ≠ some '*' := by
      intro m hp; unfold altPlain at hp; rw [skipLit_last hp hst.1]; exact hst.2.1
    have lstr : ∀ np m, altLstrip k.start np bol s = some m → (s.take m).getLast? ≠ some '*' := by
      intro np m hp
      unfold altLstrip at hp
      split at hp
      · split at hp
        · rename_i m' hs
          split at hp
          · simp at hp
          · simp only [Option.some.injEq] at hp; subst hp; rw [skipLit_last hs hst.1]; exact hst.2.1
        · simp at hp
      · simp at hp
    have plus : ∀ m, altPlusOpt k.start s = some m → (s.take m).getLast? ≠ some '*' := by
      intro m hp
      unfold altPlusOpt at hp
      split at hp
      · rename_i m' hs
        simp only [Option.some.injEq] at hp
        split at hp
        · rename_i hplus
          subst hp
          -- the character behind the start sequence is `+`
          have hd : s.drop m' = '+' :: (s.drop m').tail := by
            unfold nextIsPlus at hplus
            split at hplus
            · rename_i heq; rw [heq]; rfl
            · simp at hplus
          have : s.take (m' + 1) = s.take m' ++ ['+'] := by
            rw [List.take_add, hd]; simp
          rw [this]; simp
        · subst hp; rw [skipLit_last hs hst.1]; exact hst.2.1
      · simp at hp
    cases k <;> simp only [altRest] at h
    · -- raw: block-like
      split at h
      · cases hl : altLstrip Kind.raw.start true bol s with
        | some m => rw [hl] at h; simp at h; subst h; exact lstr _ _ hl
        | none => rw [hl] at h; simp at h; exact plus _ h
      · exact plain _ h
    · exact plain _ h
    · split at h
      · cases hl : altLstrip Kind.comment.start false bol s with
        | some m => rw [hl] at h; simp at h; subst h; exact lstr _ _ hl
        | none => rw [hl] at h; simp at h; exact plus _ h
      · exact plain _ h
    · split at h
      · cases hl : altLstrip Kind.block.start true bol s with
        | some m => rw [hl] at h; simp at h; subst h; exact lstr _ _ hl
        | none => rw [hl] at h; simp at h; exact plus _ h
      · exact plain _ h



theorem matchAt_upstream_last (cfg : Cfg) (bol : Bool) (s : Str) (k : Kind) (n : Nat)
    (h : matchAt cfg.upstream bol s = some (k, n)) : k = .raw ∨ (s.take n).getLast? ≠ some '*' := by
  unfold matchAt at h
  cases hr : rawBegin cfg.upstream bol s with
  | some m => rw [hr] at h; simp at h; exact Or.inl h.1.symm
  | none =>
    rw [hr] at h; simp only [Option.map_none, Option.none_or] at h
    cases hv : tagBegin cfg.upstream .variable bol s with
    | some m =>
      rw [hv] at h; simp at h; obtain ⟨_, rfl⟩ := h
      exact Or.inr (tagBegin_upstream_last cfg _ bol s _ hv)
    | none =>
      rw [hv] at h; simp only [Option.map_none, Option.none_or] at h
      cases hc : tagBegin cfg.upstream .comment bol s with
      | some m =>
        rw [hc] at h; simp at h; obtain ⟨_, rfl⟩ := h
        exact Or.inr (tagBegin_upstream_last cfg _ bol s _ hc)
      | none =>
        rw [hc] at h; simp only [Option.map_none, Option.none_or] at h
        cases hb : tagBegin cfg.upstream .block bol s with
        | some m =>
          rw [hb] at h; simp at h; obtain ⟨_, rfl⟩ := h
          exact Or.inr (tagBegin_upstream_last cfg _ bol s _ hb)
        | none => rw [hb] at h; simp at h

theorem findBegin_matchAt {cfg : Cfg} {bol : Bool} {s : Str} {o n : Nat} {k : Kind}
    (h : findBegin cfg bol s = some (o, k, n)) : ∃ bol', matchAt cfg bol' (s.drop o) = some (k, n) := by
  induction s generalizing bol o with
  | nil => simp [findBegin] at h
  | cons c cs ih =>
    simp only [findBegin] at h
    cases hm : matchAt cfg bol (c :: cs) with
    | some r =>
      obtain ⟨k', n'⟩ := r
      rw [hm] at h; simp only [pick, Option.some.injEq, Prod.mk.injEq] at h
      obtain ⟨rfl, rfl, rfl⟩ := h
      exact ⟨bol, hm⟩
    | none =>
      rw [hm] at h
      cases hf : findBegin cfg (c == '\n') cs with
      | none => rw [hf] at h; simp [pick] at h
      | some r =>
        obtain ⟨o', k', n'⟩ := r
        rw [hf] at h; simp only [pick, Option.some.injEq, Prod.mk.injEq] at h
        obtain ⟨rfl, rfl, rfl⟩ := h
        obtain ⟨b', hb'⟩ := ih hf
        exact ⟨b', by simpa using hb'⟩

/-- is this a begin token the (repaired) parser would wrap in `lineprefix` -/
def starBegin : Tok → Bool
  | .tok t v => (t = .variableBegin && isVariableMarker v) || ((t = .blockBegin || t = .lstmtBegin) && isBlockMarker v)
  | _ => false

def isBeginTok : Tok → Bool
  | .tok t _ => t = .variableBegin || t = .blockBegin || t = .lstmtBegin
  | _ => false

theorem starBegin_of_not_begin {t : Tok} (h : isBeginTok t = false) : starBegin t = false := by
  cases t with
  | tok ty v =>
    simp only [isBeginTok, Bool.or_eq_false_iff, decide_eq_false_iff_not] at h
    simp [starBegin, h.1.1, h.1.2, h.2]
  | err e => rfl
  | outOfFuel => rfl

theorem optTok_no_begin (t : TT) (v : Str) (ht : t = .data ∨ t = .comment ∨ t = .lcmt) :
    ∀ x ∈ optTok t v, isBeginTok x = false := by
  intro x hx
  unfold optTok at hx
  split at hx
  · simp at hx
  · simp only [List.mem_singleton] at hx; subst hx
    rcases ht with rfl | rfl | rfl <;> rfl

theorem cons_no_begin {t : Tok} {i : Inner} (ht : isBeginTok t = false) :
    (∀ ts r p, i = .done ts r p → ∀ x ∈ ts, isBeginTok x = false) → (∀ ts, i = .halt ts → ∀ x ∈ ts, isBeginTok x = false) →
    (∀ ts r p, i.cons t = .done ts r p → ∀ x ∈ ts, isBeginTok x = false) ∧ (∀ ts, i.cons t = .halt ts → ∀ x ∈ ts, isBeginTok x = false) := by
  intro h1 h2
  cases i with
  | done ts0 r0 p0 =>
    refine ⟨?_, ?_⟩
    · intro ts r p h x hx
      simp only [Inner.cons, Inner.done.injEq] at h
      obtain ⟨rfl, _, _⟩ := h
      rcases List.mem_cons.1 hx with rfl | hx
      · exact ht
      · exact h1 ts0 r0 p0 rfl x hx
    · intro ts h; simp [Inner.cons] at h
  | halt ts0 =>
    refine ⟨?_, ?_⟩
    · intro ts r p h; simp [Inner.cons] at h
    · intro ts h x hx
      simp only [Inner.cons, Inner.halt.injEq] at h
      subst h
      rcases List.mem_cons.1 hx with rfl | hx
      · exact ht
      · exact h2 ts0 rfl x hx



def Inner.toks : Inner → List Tok
  | .done ts _ _ => ts
  | .halt ts => ts

theorem Inner.toks_cons (t : Tok) (i : Inner) : (i.cons t).toks = t :: i.toks := by
  cases i <;> rfl

def plainTT (t : TT) : Bool := !(t = .variableBegin || t = .blockBegin || t = .lstmtBegin)

theorem operatorAct_emit {bal bal' : List Char} {op : Str} {t : TT} {n : Nat} (h : operatorAct bal op = .emit t n bal') :
    t = .operator := by
  unfold operatorAct at h
  repeat' split at h
  all_goals first | (simp only [TagAct.emit.injEq] at h; exact h.1.symm) | (simp at h)

theorem operatorAct_stop {bal : List Char} {op : Str} {toks : List Tok} (h : operatorAct bal op = .stop toks) :
    ∀ x ∈ toks, isBeginTok x = false := by
  unfold operatorAct at h
  repeat' split at h
  all_goals first | (simp only [TagAct.stop.injEq] at h; subst h; intro x hx; simp only [List.mem_singleton] at hx; subst hx; rfl) | (simp at h)

theorem tagRules_emit {tb : Tables} {st : TagState} {trim : Bool} {bal bal' : List Char} {fl : Option Nat} {s : Str}
    {t : TT} {n : Nat} (h : tagRules tb st trim bal fl s = .emit t n bal') : plainTT t = true := by
  unfold tagRules at h
  repeat' split at h
  all_goals first
    | (simp only [TagAct.emit.injEq] at h; rw [← h.1]; rfl)
    | (simp at h; done)
    | (rw [operatorAct_emit h]; rfl)

theorem tagRules_stop {tb : Tables} {st : TagState} {trim : Bool} {bal : List Char} {fl : Option Nat} {s : Str}
    {toks : List Tok} (h : tagRules tb st trim bal fl s = .stop toks) : ∀ x ∈ toks, isBeginTok x = false := by
  unfold tagRules at h
  repeat' split at h
  all_goals first
    | (simp at h; done)
    | exact operatorAct_stop h
    | (simp only [TagAct.stop.injEq] at h; subst h; intro x hx; simp only [List.mem_singleton] at hx; subst hx; rfl)
    | (simp only [TagAct.stop.injEq] at h; subst h; intro x hx; simp at hx)

theorem lexTag_no_begin (tb : Tables) (st : TagState) (trim : Bool) (fuel : Nat) (bal : List Char) (prev : Option Char) (s : Str) :
    ∀ x ∈ (lexTag tb st trim fuel bal prev s).toks, isBeginTok x = false := by
  induction fuel generalizing bal prev s with
  | zero => intro x hx; simp [lexTag, Inner.toks] at hx; subst hx; rfl
  | succ fuel ih =>
    simp only [lexTag]
    cases hact : tagAct tb st trim bal prev s with
    | finish n =>
      intro x hx
      simp only [Inner.toks, List.mem_singleton] at hx; subst hx
      cases st <;> rfl
    | emit t n bal' =>
      intro x hx
      simp only [Inner.toks_cons, List.mem_cons] at hx
      rcases hx with rfl | hx
      · have := tagRules_emit (show tagRules tb st trim bal (floatAt tb prev s) s = .emit t n bal' from hact)
        simp only [plainTT, Bool.not_eq_true', Bool.or_eq_false_iff] at this
        simp [isBeginTok, this]
      · exact ih _ _ _ x hx
    | stop toks =>
      intro x hx
      exact tagRules_stop (show tagRules tb st trim bal (floatAt tb prev s) s = .stop toks from hact) x hx

theorem innerF_no_begin (lstrip trim : Bool) (tb : Tables) (k : RKind) (prev : Option Char) (s : Str) :
    ∀ x ∈ (innerF lstrip trim tb k prev s).toks, isBeginTok x = false := by
  match k with
  | .variable => exact lexTag_no_begin tb _ trim _ _ prev s
  | .block => exact lexTag_no_begin tb _ trim _ _ prev s
  | .lstmt => exact lexTag_no_begin tb _ trim _ _ prev s
  | .raw =>
    simp only [innerF, lexRaw]
    split
    · intro x hx
      simp only [Inner.toks, List.mem_append, List.mem_singleton] at hx
      rcases hx with hx | rfl
      · exact optTok_no_begin _ _ (Or.inl rfl) x hx
      · rfl
    · split <;> (intro x hx; simp [Inner.toks] at hx; try (subst hx; rfl))
  | .comment =>
    simp only [innerF, lexComment]
    split
    · intro x hx
      simp only [Inner.toks, List.mem_append, List.mem_singleton] at hx
      rcases hx with hx | rfl
      · exact optTok_no_begin _ _ (Or.inr (Or.inl rfl)) x hx
      · rfl
    · split <;> (intro x hx; simp [Inner.toks] at hx; try (subst hx; rfl))
  | .lcmt =>
    simp only [innerF, lexLineComment]
    intro x hx
    simp only [Inner.toks, List.mem_append, List.mem_singleton] at hx
    rcases hx with hx | rfl
    · exact optTok_no_begin _ _ (Or.inr (Or.inr rfl)) x hx
    · rfl



theorem Inner.andThen_mem {i : Inner} {next : Option Char → Str → List Tok} {x : Tok} (hx : x ∈ i.andThen next) :
    x ∈ i.toks ∨ ∃ ts r p, i = .done ts r p ∧ x ∈ next p r := by
  cases i with
  | done ts r p =>
    simp only [Inner.andThen, List.mem_append] at hx
    rcases hx with hx | hx
    · exact Or.inl hx
    · exact Or.inr ⟨ts, r, p, rfl, hx⟩
  | halt ts => exact Or.inl hx

theorem endsWith3_last {a b c : Char} {v : Str} (h : endsWith3 a b c v = true) : v.getLast? = some c := by
  unfold endsWith3 at h
  split at h
  · rename_i z y x r heq
    simp only [Bool.and_eq_true, decide_eq_true_eq] at h
    rw [← List.head?_reverse, heq, ← h.2]; rfl
  · simp at h

theorem not_marker_of_last {a b : Char} {v : Str} (h : v.getLast? ≠ some '*') : endsWith3 a b '*' v = false := by
  cases hm : endsWith3 a b '*' v with
  | false => rfl
  | true => exact absurd (endsWith3_last hm) h

/-- white space in front does not make a text end in `{%*` -/
theorem endsWith3_append_left {a b c : Char} (r p : Str) (hr : ∀ x ∈ r, x ≠ a ∧ x ≠ b)
    (h : endsWith3 a b c (r ++ p) = true) : endsWith3 a b c p = true := by
  unfold endsWith3 at h ⊢
  rw [List.reverse_append] at h
  have mem_rev : ∀ x, x ∈ r.reverse → x ≠ a ∧ x ≠ b := fun x hx => hr x (List.mem_reverse.1 hx)
  match hp : p.reverse, h with
  | [], h =>
    simp only [List.nil_append] at h
    split at h
    · rename_i z y x t heq
      simp only [Bool.and_eq_true, decide_eq_true_eq] at h
      exact absurd h.1.1 (mem_rev x (by rw [heq]; simp)).1
    · simp at h
  | [z], h =>
    simp only [List.cons_append, List.nil_append] at h
    split at h
    · rename_i z' y x t heq
      simp only [List.cons.injEq] at heq
      simp only [Bool.and_eq_true, decide_eq_true_eq] at h
      exact absurd h.1.2 (mem_rev y (by rw [heq.2]; simp)).2
    · simp at h
  | [z, y], h =>
    simp only [List.cons_append, List.nil_append] at h
    split at h
    · rename_i z' y' x t heq
      simp only [List.cons.injEq] at heq
      simp only [Bool.and_eq_true, decide_eq_true_eq] at h
      exact absurd h.1.1 (mem_rev x (by rw [heq.2.2]; simp)).1
    · simp at h
  | z :: y :: x :: t, h =>
    simpa using h

theorem spanLen_take_all (p : Char → Bool) (s : Str) : ∀ x ∈ s.take (spanLen p s), p x = true := by
  induction s with
  | nil => simp [spanLen]
  | cons c cs ih =>
    simp only [spanLen]
    split
    · rename_i hc
      intro x hx
      simp only [List.take_succ_cons, List.mem_cons] at hx
      rcases hx with rfl | hx
      · exact hc
      · exact ih x hx
    · simp

theorem take_of_prefix (s lit : Str) (m : Nat) (h : lit.isPrefixOf (s.drop m) = true) :
    s.take (m + lit.length) = s.take m ++ lit := by
  rw [List.isPrefixOf_iff_prefix] at h
  obtain ⟨t, ht⟩ := h
  rw [List.take_add, ← ht]; simp

theorem runThenLit_some {cls : Char → Bool} {at0 : Bool} {lit s : Str} {n : Nat} (h : runThenLit cls at0 lit s = some n) :
    n = spanLen isSpace s + lit.length ∧ lit.isPrefixOf (s.drop (spanLen isSpace s)) = true := by
  unfold runThenLit at h
  simp only at h
  by_cases hpre : lit.isPrefixOf (s.drop (spanLen isSpace s)) = true
  · refine ⟨?_, hpre⟩
    repeat' split at h
    all_goals first | (simp only [Option.some.injEq] at h; exact h.symm) | (simp at h)
  · rw [Bool.not_eq_true] at hpre
    simp [hpre] at h

theorem vblank_not_brace {x : Char} (h : isVBlank x = true) : x ≠ '{' ∧ x ≠ '%' := by
  simp only [isVBlank, Bool.or_eq_true, decide_eq_true_eq] at h
  rcases h with (rfl | rfl) | rfl <;> decide

/-- a line statement begin token ends in `{%*` only if the configured prefix does -/
theorem lstmt_not_marker (p : Str) (prev : Option Char) (s : Str) (n : Nat) (hp : isBlockMarker p = false)
    (h : (lstmtMinus p prev s).or (lstmtPlain p prev s) = some n) : isBlockMarker (s.take n) = false := by
  cases hm : lstmtMinus p prev s with
  | some m =>
    rw [hm] at h; simp only [Option.some_or, Option.some.injEq] at h; subst h
    unfold lstmtMinus at hm
    obtain ⟨rfl, hpre⟩ := runThenLit_some hm
    apply not_marker_of_last
    rw [getLast?_take_prefix s _ _ hpre (by simp)]
    simp
  | none =>
    rw [hm] at h; simp only [Option.none_or] at h
    unfold lstmtPlain at h
    split at h
    · obtain ⟨rfl, hpre⟩ := skipLit_some h
      rw [take_of_prefix s p _ hpre]
      cases hb : isBlockMarker (List.take (spanLen isVBlank s) s ++ p) with
      | false => rfl
      | true =>
        have := endsWith3_append_left _ p (fun x hx => vblank_not_brace (spanLen_take_all isVBlank s x hx)) hb
        rw [show endsWith3 '{' '%' '*' p = isBlockMarker p from rfl, hp] at this
        exact absurd this (by simp)
    · simp at h

theorem firstAlt_some {e : Env} {prev : Option Char} {s : Str} {ks : List RKind} {k : RKind} {n : Nat}
    (h : firstAlt e prev s ks = some (k, n)) : altF e prev s k = some n := by
  induction ks with
  | nil => simp [firstAlt] at h
  | cons k0 ks ih =>
    simp only [firstAlt] at h
    split at h
    · rename_i m hm
      simp only [Option.some.injEq, Prod.mk.injEq] at h
      obtain ⟨rfl, rfl⟩ := h
      exact hm
    · exact ih h

theorem findBeginF_matchAtF {e : Env} {prev : Option Char} {s : Str} {o n : Nat} {k : RKind}
    (h : findBeginF e prev s = some (o, k, n)) : ∃ prev', matchAtF e prev' (s.drop o) = some (k, n) := by
  induction s generalizing prev o with
  | nil => simp [findBeginF] at h
  | cons c cs ih =>
    simp only [findBeginF] at h
    cases hm : matchAtF e prev (c :: cs) with
    | some r =>
      obtain ⟨k', n'⟩ := r
      rw [hm] at h; simp only [pickF, Option.some.injEq, Prod.mk.injEq] at h
      obtain ⟨rfl, rfl, rfl⟩ := h
      exact ⟨prev, hm⟩
    | none =>
      rw [hm] at h
      cases hf : findBeginF e (some c) cs with
      | none => rw [hf] at h; simp [pickF] at h
      | some r =>
        obtain ⟨o', k', n'⟩ := r
        rw [hf] at h; simp only [pickF, Option.some.injEq, Prod.mk.injEq] at h
        obtain ⟨rfl, rfl, rfl⟩ := h
        obtain ⟨b', hb'⟩ := ih hf
        exact ⟨b', by simpa using hb'⟩

/-- what an alternative of the root rule WITHOUT Nunavut's edit matches is never a marker for the repaired parser -/
theorem altF_upstream_not_marker (e : Env) (hP : ∀ p, e.lineStmt = some p → isBlockMarker p = false)
    (prev : Option Char) (s : Str) (k : RKind) (n : Nat) (h : altF e.upstream prev s k = some n) :
    starBegin (.tok k.beginTT (s.take n)) = false := by
  match k with
  | .raw => rfl
  | .comment => rfl
  | .lcmt => rfl
  | .variable =>
    have := tagBegin_upstream_last e.cfg _ _ s n h
    simp [starBegin, RKind.beginTT, isVariableMarker, not_marker_of_last this]
  | .block =>
    have := tagBegin_upstream_last e.cfg _ _ s n h
    simp [starBegin, RKind.beginTT, isBlockMarker, not_marker_of_last this]
  | .lstmt =>
    simp only [altF] at h
    have hls : e.upstream.lineStmt = e.lineStmt := rfl
    rw [hls] at h
    cases hp : e.lineStmt with
    | none => rw [hp] at h; simp at h
    | some p =>
      rw [hp] at h
      have := lstmt_not_marker p prev s n (hP p hp) h
      simp [starBegin, RKind.beginTT, this]

/-- Without marker in the text no begin token the lexer emits is a marker for the repaired parser — for EVERY environment
setting whose line statement prefix does not itself end in `{%*`. -/
theorem lexF_no_starBegin (e : Env) (hP : ∀ p, e.lineStmt = some p → isBlockMarker p = false) (tb : Tables) (fuel : Nat)
    (prev : Option Char) (s : Str) (h : hasMarker e.cfg s = false) :
    ∀ x ∈ lexF e tb fuel prev s, starBegin x = false := by
  induction fuel generalizing prev s with
  | zero => intro x hx; simp [lexF] at hx; subst hx; rfl
  | succ fuel ih =>
    intro x hx
    simp only [lexF] at hx
    cases hf : findBeginF e prev s with
    | none =>
      rw [hf] at hx
      simp only at hx
      split at hx
      · simp at hx
      · simp only [List.mem_singleton] at hx; subst hx; rfl
    | some r =>
      obtain ⟨o, k, n⟩ := r
      rw [hf] at hx
      simp only [List.mem_append, List.mem_cons] at hx
      rcases hx with hx | rfl | hx
      · exact starBegin_of_not_begin (optTok_no_begin _ _ (Or.inl rfl) x hx)
      · obtain ⟨prev', hm⟩ := findBeginF_matchAtF hf
        rw [matchAtF_upstream e prev' _ (hasMarker_drop o s h)] at hm
        exact altF_upstream_not_marker e hP prev' _ k n (firstAlt_some hm)
      · rcases Inner.andThen_mem hx with hx | ⟨ts, r, p, hi, hx⟩
        · exact starBegin_of_not_begin (innerF_no_begin _ _ _ _ _ _ x hx)
        · obtain ⟨m, hm⟩ := innerF_rest _ _ _ _ _ _ hi
          apply ih p r _ x hx
          rw [hm, List.drop_drop]; exact hasMarker_drop _ _ h

theorem wrap_no_parserWraps (seq : Str) (toks : List Tok) (l : Nat) (h : ∀ x ∈ toks, starBegin x = false) :
    ∀ p ∈ wrap seq (linenos l toks), parserWraps p = false := by
  induction toks generalizing l with
  | nil => intro p hp; simp [linenos, wrap] at hp
  | cons t ts ih =>
    have ht := h t (by simp)
    have hts : ∀ x ∈ ts, starBegin x = false := fun x hx => h x (by simp [hx])
    cases t with
    | tok ty v =>
      simp only [linenos, wrap]
      split
      · exact ih _ hts
      · intro p hp
        simp only [List.mem_cons] at hp
        rcases hp with rfl | hp
        · simp only [parserWraps]
          by_cases hd : ty = .data
          · subst hd; simp [wrapType]
          · simp only [hd, if_false]
            simp only [starBegin, Bool.or_eq_false_iff, Bool.and_eq_false_iff, decide_eq_false_iff_not] at ht
            obtain ⟨hvar, hblk⟩ := ht
            have e1 : (decide (wrapType ty = .variableBegin) && isVariableMarker v) = false := by
              rcases hvar with hvar | hvar
              · have : wrapType ty ≠ .variableBegin := by
                  unfold wrapType; split
                  · simp
                  · split
                    · simp
                    · exact hvar
                simp [this]
              · simp [hvar]
            have e2 : (decide (wrapType ty = .blockBegin) && isBlockMarker v) = false := by
              rcases hblk with ⟨hb, hl⟩ | hblk
              · have : wrapType ty ≠ .blockBegin := by
                  unfold wrapType; split
                  · rename_i h'; exact absurd h' hl
                  · split
                    · simp
                    · exact hb
                simp [this]
              · simp [hblk]
            simp [e1, e2]
        · exact ih _ hts p hp
    | err e => intro p hp; simp [linenos, wrap] at hp; subst hp; rfl
    | outOfFuel => intro p hp; simp [linenos, wrap] at hp; subst hp; rfl

theorem tokenize_no_parserWraps (e : Env) (hP : ∀ p, e.lineStmt = some p → isBlockMarker p = false) (tb : Tables)
    (keep : Bool) (seq source : Str) (h : hasMarker e.cfg source = false) :
    ∀ p ∈ tokenize e tb keep seq source, parserWraps p = false := by
  unfold tokenize tokeniter
  exact wrap_no_parserWraps seq _ 1
    (lexF_no_starBegin e hP tb _ none _ (hasMarker_normalizeSource e.cfg keep source h))

end NunavutVerif.Lexer
