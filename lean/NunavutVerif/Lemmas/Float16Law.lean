import NunavutVerif.Lemmas.Float16All
import NunavutVerif.Lemmas.Float16Fixed
/-!
The property theorems, once, for any packer `f` that splits into sign and a magnitude function `g` obeying
`MagLaw` — instantiated with (`pack`, `packMag`) = the shipped ties-away packer and
(`packRneC`, `packMag2`) = the repaired ties-to-even packer.
-/
namespace NunavutVerif.Float16

/-- What the regional lemmas establish about the magnitude part of a packer. -/
structure MagLaw (g : Nat → Nat) : Prop where
  lt : ∀ a, g a < 32768
  bracket : ∀ a, a < 1199566848 → g a < 31744 ∧ Bracket a (g a)
  overflow : ∀ a, a < 2139095040 → (g a = 31744 ↔ 1199566848 ≤ a)
  mono : ∀ a b, a ≤ b → b ≤ 2139095040 → g a ≤ g b
  nan : ∀ a, a < 2147483648 → (31744 < g a ↔ 2139095040 < a)
  inf : g 2139095040 = 31744
  zero : g 0 = 0

/-- `f` keeps the sign bit and applies `g` to the magnitude. -/
def Packs (f g : Nat → Nat) : Prop :=
  ∀ x, x < 4294967296 → f x = g (x % 2147483648) + x / 2147483648 * 32768

theorem magLaw_pack : MagLaw packMag where
  lt := packMag_lt
  bracket := packMag_bracket
  overflow := packMag_overflow
  mono := packMag_mono
  nan := packMag_nan
  inf := packMag_inf
  zero := by rw [packMag_fin 0 (by omega), packKey_zero _ (by omega)]

theorem magLaw_packRneC : MagLaw packMag2 where
  lt := packMag2_lt
  bracket := fun a ha => ⟨(packMag2_bracket a ha).1, (packMag2_bracket a ha).2.1⟩
  overflow := packMag2_overflow
  mono := packMag2_mono
  nan := packMag2_nan
  inf := packMag2_inf
  zero := packMag2_zero

theorem packs_pack : Packs pack packMag := pack_eq
theorem packs_packRneC : Packs packRneC packMag2 := packRneC_eq

section generic
variable {f g : Nat → Nat} (P : Packs f g) (L : MagLaw g)
include P L

theorem gen_mod (x : Nat) (hx : x < 4294967296) : f x % 32768 = g (x % 2147483648) := by
  have := L.lt (x % 2147483648)
  rw [P x hx]; omega

theorem gen_div (x : Nat) (hx : x < 4294967296) : f x / 32768 = x / 2147483648 := by
  have := L.lt (x % 2147483648)
  rw [P x hx]; omega

theorem gen_lt (x : Nat) (hx : x < 4294967296) : f x < 65536 := by
  have := L.lt (x % 2147483648)
  rw [P x hx]; omega

theorem gen_neg (x : Nat) (hx : x < 4294967296) : F16.neg (f x) = F32.neg x := by
  have h1 := gen_div P L x hx
  have h2 := gen_lt P L x hx
  apply bool_eq_of_iff
  rw [F16.neg_iff _ h2, F32.neg_iff x hx]
  omega

theorem gen_mag (x : Nat) (hx : x < 4294967296) : F16.mag (f x) = F16.mag (g (x % 2147483648)) := by
  rw [F16.mag_mod, gen_mod P L x hx]

theorem gen_nan (x : Nat) (hx : x < 4294967296) : F16.isNaN (f x) = F32.isNaN x := by
  apply bool_eq_of_iff
  rw [F16.isNaN_iff, F32.isNaN_iff, gen_mod P L x hx]
  exact L.nan _ (by omega)

theorem gen_inf (x : Nat) (hx : x < 4294967296) (hi : F32.isInf x = true) : F16.isInf (f x) = true := by
  have := (F32.isInf_iff x).1 hi
  rw [F16.isInf_iff, gen_mod P L x hx, this]
  exact L.inf

theorem gen_overflow (x : Nat) (hx : x < 4294967296) (hf : F32.isFinite x = true) :
    F16.isInf (f x) = true ↔ 65520 * 2 ^ 149 ≤ F32.mag x := by
  have hfin := (F32.isFinite_iff x).1 hf
  have hm : F32.mag 1199566848 = 65520 * 2 ^ 149 := by decide
  rw [F16.isInf_iff, gen_mod P L x hx, L.overflow _ hfin, F32.mag_mod x, ← hm]
  constructor
  · intro h; exact F32.mag_mono _ _ h (by omega)
  · intro h; exact F32.le_of_mag_le _ _ (by omega) h

omit P L in
theorem gen_below (x : Nat) (hlt : F32.mag x < 65520 * 2 ^ 149) : x % 2147483648 < 1199566848 := by
  have hm : F32.mag 1199566848 = 65520 * 2 ^ 149 := by decide
  by_cases c : x % 2147483648 < 1199566848
  · exact c
  · have := F32.mag_mono 1199566848 (x % 2147483648) (by omega) (by omega)
    rw [← F32.mag_mod x, hm] at this
    omega

theorem gen_nearest (x : Nat) (hx : x < 4294967296) (hlt : F32.mag x < 65520 * 2 ^ 149) :
    F16.isFinite (f x) = true ∧
    ∀ h, h < 65536 → F16.isFinite h = true →
      (F16.val (f x) - F32.val x).natAbs ≤ (F16.val h - F32.val x).natAbs := by
  have ha := gen_below x hlt
  obtain ⟨hr, hbr⟩ := L.bracket _ ha
  refine ⟨(F16.isFinite_iff _).2 (by rw [gen_mod P L x hx]; exact hr), ?_⟩
  intro h hh hhf
  have hq := (F16.isFinite_iff h).1 hhf
  have n1 := nearest_of_bracket _ _ (h % 32768) hbr hr hq
  have n0 := nearest_of_bracket _ _ 0 hbr hr (by omega)
  have z : F16.mag 0 = 0 := by decide
  rw [z] at n0
  rw [← F16.mag_mod h, ← F32.mag_mod x, ← gen_mag P L x hx] at n1
  rw [← F32.mag_mod x, ← gen_mag P L x hx] at n0
  have hd := gen_div P L x hx
  have hl := gen_lt P L x hx
  rw [F32.val_eq x hx, F16.val_eq _ hl, F16.val_eq h hh]
  unfold dist at n0 n1
  generalize F16.mag (f x) = M at *
  generalize F32.mag x = v at *
  generalize F16.mag h = Q at *
  by_cases s1 : 2147483648 ≤ x
  · rw [if_pos s1, if_pos (by omega)]
    by_cases s2 : 32768 ≤ h
    · rw [if_pos s2]; omega
    · rw [if_neg s2]; omega
  · rw [if_neg s1, if_neg (by omega)]
    by_cases s2 : 32768 ≤ h
    · rw [if_pos s2]; omega
    · rw [if_neg s2]; omega

theorem gen_faithful (x : Nat) (hx : x < 4294967296)
    (hlt : F32.mag x < 65520 * 2 ^ 149) (h : Nat) (hh : h < 65536) (hhf : F16.isFinite h = true) :
    ¬ (F16.val (f x) < F16.val h ∧ F16.val h < F32.val x) ∧
    ¬ (F32.val x < F16.val h ∧ F16.val h < F16.val (f x)) ∧
    (F16.val h = F32.val x → F16.val (f x) = F32.val x) := by
  have hn := (gen_nearest P L x hx hlt).2 h hh hhf
  refine ⟨?_, ?_, ?_⟩
  · intro ⟨h1, h2⟩; omega
  · intro ⟨h1, h2⟩; omega
  · intro he; rw [he] at hn; omega

theorem gen_monotone (x y : Nat) (hx : x < 4294967296) (hy : y < 4294967296)
    (nx : F32.isNaN x = false) (ny : F32.isNaN y = false) (hle : F32.val x ≤ F32.val y) :
    F16.val (f x) ≤ F16.val (f y) := by
  have ha := (F32.isNaN_false_iff x).1 nx
  have hb := (F32.isNaN_false_iff y).1 ny
  have hlx := gen_lt P L x hx
  have hly := gen_lt P L y hy
  have hdx := gen_div P L x hx
  have hdy := gen_div P L y hy
  have key : ∀ a b, a ≤ 2139095040 → b ≤ 2139095040 → F32.mag a ≤ F32.mag b →
      F16.mag (g a) ≤ F16.mag (g b) := by
    intro a b _ hb' hab
    exact F16.mag_mono _ _ (L.mono a b (F32.le_of_mag_le a b (by omega) hab) hb') (L.lt b)
  have zero : ∀ a, a ≤ 2139095040 → F32.mag a = 0 → F16.mag (g a) = 0 := by
    intro a _ h0
    have : a = 0 := by
      by_cases c : a = 0
      · exact c
      · have := F32.mag_strict 0 a (by omega) (by omega)
        have z : F32.mag 0 = 0 := by decide
        omega
    subst this
    rw [L.zero]
    decide
  have kxy := key _ _ ha hb
  have kyx := key _ _ hb ha
  have zx := zero _ ha
  have zy := zero _ hb
  rw [← F32.mag_mod x, ← F32.mag_mod y, ← gen_mag P L x hx, ← gen_mag P L y hy] at kxy kyx
  rw [← F32.mag_mod x, ← gen_mag P L x hx] at zx
  rw [← F32.mag_mod y, ← gen_mag P L y hy] at zy
  rw [F32.val_eq x hx, F32.val_eq y hy] at hle
  rw [F16.val_eq _ hlx, F16.val_eq _ hly]
  generalize F16.mag (f x) = Mx at *
  generalize F16.mag (f y) = My at *
  generalize F32.mag x = vx at *
  generalize F32.mag y = vy at *
  by_cases s1 : 2147483648 ≤ x
  · rw [if_pos s1] at hle; rw [if_pos (show 32768 ≤ f x by omega)]
    by_cases s2 : 2147483648 ≤ y
    · rw [if_pos s2] at hle; rw [if_pos (show 32768 ≤ f y by omega)]; omega
    · rw [if_neg s2] at hle; rw [if_neg (show ¬ 32768 ≤ f y by omega)]; omega
  · rw [if_neg s1] at hle; rw [if_neg (show ¬ 32768 ≤ f x by omega)]
    by_cases s2 : 2147483648 ≤ y
    · rw [if_pos s2] at hle; rw [if_pos (show 32768 ≤ f y by omega)]; omega
    · rw [if_neg s2] at hle; rw [if_neg (show ¬ 32768 ≤ f y by omega)]; omega

end generic

/-! ### ties to even (repaired packer only) -/

/-- If `|x|` is exactly the midpoint of the adjacent finite halves `p`, `p+1` (with `p+1 = 0x7C00` standing for
`2^16`), a `BracketEven` result is the one of the two with the even pattern. -/
theorem even_of_bracketEven (a r p : Nat) (hb : BracketEven a r) (hr : r < 31744) (hp : p + 1 < 31744)
    (hmid : 2 * F32.mag a = F16.mag p + F16.mag (p + 1)) : r = if p % 2 = 0 then p else p + 1 := by
  obtain ⟨⟨hlo, hhi⟩, hodd⟩ := hb
  have sp := F16.mag_strict p (p + 1) (by omega) (by omega)
  -- r ∈ {p, p+1}
  have h1 : p ≤ r := by
    by_cases c : p ≤ r
    · exact c
    · have m1 := F16.mag_mono (r + 1) p (by omega) (by omega)
      have m2 := F16.mag_strict r (r + 1) (by omega) (by omega)
      omega
  have h2 : r ≤ p + 1 := by
    by_cases c : r ≤ p + 1
    · exact c
    · have m1 := F16.mag_mono (p + 1) (r - 1) (by omega) (by omega)
      have m2 := F16.mag_strict (r - 1) r (by omega) (by omega)
      have := hlo.resolve_left (by omega)
      omega
  by_cases hpe : p % 2 = 0
  · rw [if_pos hpe]
    by_cases c : r = p
    · exact c
    · have hr1 : r = p + 1 := by omega
      subst hr1
      have := (hodd (by omega)).1
      rw [show p + 1 - 1 = p from by omega] at this
      omega
  · rw [if_neg hpe]
    by_cases c : r = p + 1
    · exact c
    · have hr1 : r = p := by omega
      subst hr1
      have := (hodd (by omega)).2
      omega

/-! ### the repaired C packer and the round-to-nearest-even model of the Python target are the same function -/

theorem rne_small (P s : Nat) (h : P < 2 ^ (s - 1)) (hs : 1 ≤ s) : rne P s = 0 := by
  have h2 : 2 ^ s = 2 * 2 ^ (s - 1) := two_pow_pred s hs
  have hlt : P < 2 ^ s := by omega
  rw [rne_eq, Nat.mod_eq_of_lt hlt, Nat.div_eq_of_lt hlt, if_neg (by omega)]

theorem rne13_eq (P : Nat) : rne P 13 =
    if 4096 < P % 8192 ∨ (P % 8192 = 4096 ∧ P / 8192 % 2 = 1) then P / 8192 + 1 else P / 8192 := by
  rw [rne_eq, show 13 - 1 = 12 from rfl, show (2:Nat) ^ 13 = 8192 from by decide, show (2:Nat) ^ 12 = 4096 from by decide]

theorem packRne_mag (a : Nat) (ha : a < 2147483648) :
    (if 2139095040 ≤ a then (if a = 2139095040 then 31744 else 32256)
     else if 113 ≤ a / 8388608 then
       (if 31744 ≤ rne (a - 939524096) 13 then 31744 else rne (a - 939524096) 13)
     else rne (a % 8388608 + 8388608) (126 - a / 8388608)) = packMag2 a := by
  by_cases h1 : 2139095040 ≤ a
  · rw [if_pos h1]
    unfold packMag2
    rw [if_pos (show 1199570944 ≤ a by omega)]
    by_cases h2 : a = 2139095040
    · rw [if_pos h2, if_neg (show ¬ 2139095040 < a by omega)]
    · rw [if_neg h2, if_pos (show 2139095040 < a by omega)]
  · rw [if_neg h1]
    by_cases h2 : 113 ≤ a / 8388608
    · rw [if_pos h2, rne13_eq]
      have ha2 : 947912704 ≤ a := by omega
      by_cases h3 : 1199570944 ≤ a
      · rw [packMag2_top a h3 (by omega)]
        split <;> split <;> omega
      · rw [packMag2_norm a ha2 (by omega), norm_formula a ha2]
        have hq : a = 8192 * (a / 8192) + a % 8192 := (Nat.div_add_mod a 8192).symm
        have hl : a % 8192 < 8192 := Nat.mod_lt _ (by decide)
        have hq1 : 115712 ≤ a / 8192 := by omega
        have hq2 : a / 8192 < 146432 := by omega
        generalize a / 8192 = q at hq hq1 hq2 ⊢
        generalize a % 8192 = l at hq hl ⊢
        subst hq
        clear ha2 h1 h2 h3 ha
        have e3 : (q - 114688) % 2 = q % 2 := by omega
        have e4 : q - 114688 < 31744 := by omega
        have e1 : (8192 * q + l - 939524096) % 8192 = l := by clear e3 e4; omega
        have e2 : (8192 * q + l - 939524096) / 8192 = q - 114688 := by clear e3 e4 e1; omega
        rw [e1, e2, e3]
        generalize q - 114688 = q' at e4 ⊢
        have hpar : q % 2 < 2 := Nat.mod_lt _ (by decide)
        generalize q % 2 = par at hpar ⊢
        clear e1 e2 e3 hq1 hq2
        split <;> split <;> omega
    · rw [if_neg h2]
      have ha2 : a < 947912704 := by omega
      rw [packMag2_sub a ha2, F32.mag_eq a ha]
      by_cases h0 : a / 8388608 = 0
      · rw [if_pos h0, h0]
        have : a % 8388608 = a := Nat.mod_eq_of_lt (by omega)
        rw [this, rne_small _ 126 (by
              rw [show 126 - 1 = 125 from rfl, show (2:Nat) ^ 125 = 42535295865117307932921825928971026432 from by decide]; omega) (by omega),
          rne_small _ 125 (by
              rw [show 125 - 1 = 124 from rfl, show (2:Nat) ^ 124 = 21267647932558653966460912964485513216 from by decide]; omega) (by omega)]
      · rw [if_neg h0]
        have := rne_scale (8388608 + a % 8388608) (126 - a / 8388608) (a / 8388608 - 1) (by omega)
        rw [show 126 - a / 8388608 + (a / 8388608 - 1) = 125 from by omega] at this
        rw [this, Nat.add_comm]

theorem packRne_eq (x : Nat) (_hx : x < 4294967296) :
    packRne x = packMag2 (x % 2147483648) + x / 2147483648 * 32768 := by
  have ha : x % 2147483648 < 2147483648 := by omega
  simp only [packRne, cond_eq_ite, Nat.ble_eq, Nat.beq_eq, Nat.shiftRight_eq_div_pow,
    show (2:Nat) ^ 31 = 2147483648 from by decide, show (2:Nat) ^ 23 = 8388608 from by decide]
  rw [packRne_mag _ ha]

theorem packs_packRne : Packs packRne packMag2 := packRne_eq
end NunavutVerif.Float16
