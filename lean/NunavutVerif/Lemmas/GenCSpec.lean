import NunavutVerif.Lemmas.GenCSerPrim
import NunavutVerif.Lemmas.DsdlFloat
/-!
GenC refinement, part 4: facts about the *specification* the refinement needs: lengths are admitted by the static
descriptors (`resBits`), the emitted saturation code computes the spec's cast, data-free types.
-/
namespace NunavutVerif.GenC
open NunavutVerif.Dsdl NunavutVerif.Bits
open AOff

/-! ### lengths and descriptors -/

theorem maxFields_ge (fs : List Ty) : ∀ off, off ≤ maxFields fs off := by
  induction fs with
  | nil => intro off; simp [maxFields]
  | cons f fs ih =>
    intro off
    simp only [maxFields]
    have := ih (padTo (align f) off + maxBits f)
    have := padTo_ge (align f) off
    omega

theorem serAll_sumsEq {t : Ty} {s : AOff} (h : ∀ v b, serBits t v = .ok b → Adm s b.length) :
    ∀ vs bits, serAllWith (serBits t) vs = .ok bits → SumsEq s vs.length bits.length := by
  intro vs
  induction vs with
  | nil => intro bits hs; simp [serAllWith] at hs; subst hs; exact sumsEq_zero s
  | cons v vs ih =>
    intro bits hs
    simp only [serAllWith] at hs
    split at hs
    · cases hs
    · rename_i a ha
      split at hs
      · cases hs
      · rename_i b hb
        cases hs
        have := sumsEq_step (ih b hb) (h v a ha)
        simp only [List.length_cons, List.length_append]
        rwa [Nat.add_comm a.length]

/-- the length of every representation of `t` is admitted by `resBits t` -/
def ResOK (t : Ty) : Prop := wf t = true → ∀ v bits, serBits t v = .ok bits → Adm (resBits t) bits.length

theorem resOK_composite {t : Ty} (hc : align t = 8) (hr : resBits t = AOff.zero) : ResOK t := by
  intro hw v bits h
  have := (lenOK t hw v bits h).2.2
  rw [hc] at this
  rw [hr]
  exact adm_zero this

theorem resOK (t : Ty) : ResOK t := by
  refine Ty.ind (P := ResOK) ?_ ?_ ?_ ?_ ?_ ?_ ?_ ?_ ?_ ?_ t
  · intro n m _ v bits h
    cases v <;> simp [serBits] at h
    subst h; simpa [resBits] using adm_single n
  · intro n m _ v bits h
    cases v <;> simp [serBits] at h
    subst h; simpa [resBits] using adm_single n
  · intro n m _ v bits h
    cases v <;> simp [serBits] at h
    subst h; simpa [resBits] using adm_single n
  · intro _ v bits h
    cases v <;> simp [serBits] at h
    subst h; simpa [resBits] using adm_single 1
  · intro n _ v bits h
    cases v <;> simp [serBits] at h
    subst h; simpa [resBits] using adm_single n
  · intro t n ih hw v bits h
    simp only [wf] at hw
    cases v with
    | arr vs =>
      simp only [serBits] at h
      split at h
      · rename_i hl
        have := serAll_sumsEq (ih hw) vs bits h
        rw [hl] at this
        exact adm_kfold_zero this
      · cases h
    | _ => simp [serBits] at h
  · intro t c ih hw v bits h
    simp only [wf, Bool.and_eq_true] at hw
    cases v with
    | arr vs =>
      simp only [serBits] at h
      split at h
      · cases h
      · rename_i hl
        rw [map_eq_ok] at h
        obtain ⟨bs, hb, rfl⟩ := h
        have h1 := sums_of_sumsEq (serAll_sumsEq (ih hw.2) vs bs hb)
        have h2 := adm_rangeRep_zero (sums_mono h1 (by omega : vs.length ≤ c))
        simp only [resBits, List.length_append, natToBits_length]
        apply adm_congr _ h2
        have := stdWidth_mod8 c
        simp only [prefixBits]; omega
    | _ => simp [serBits] at h
  · intro fs _; exact resOK_composite rfl rfl
  · intro fs _; exact resOK_composite rfl rfl
  · intro e t _; exact resOK_composite rfl rfl

/-! ### the saturation code computes the spec's cast -/

theorem isStd_storW {n : Nat} (h : isStd n = true) : storW n = n := by
  simp only [isStd, Bool.or_eq_true, beq_iff_eq] at h
  rcases h with ((rfl | rfl) | rfl) | rfl <;> rfl

theorem storW_ge (n : Nat) (h : n ≤ 64) : n ≤ storW n := by
  unfold storW; split <;> try omega
  split <;> try omega
  split <;> omega

theorem storW_mod8 (n : Nat) : storW n % 8 = 0 := by
  unfold storW; split <;> try rfl
  split <;> try rfl
  split <;> rfl

theorem storW_le (n : Nat) : storW n ≤ 64 := by
  unfold storW; split <;> try omega
  split <;> try omega
  split <;> omega

theorem storW_pos (n : Nat) : 0 < storW n := by
  unfold storW; split <;> try omega
  split <;> try omega
  split <;> omega

theorem two_pow_cast (n : Nat) : ((2 ^ n : Nat) : Int) = (2 : Int) ^ n := by simp

theorem castU_eq_lowBits (n : Nat) (m : Cast) (i : Int) (h0 : 0 ≤ i) (h1 : i < (2 : Int) ^ storW n) :
    castU n m i = lowBits n (satV false n (m == .sat) i) := by
  cases m with
  | trunc => rfl
  | sat =>
    have hp : (0 : Int) < (2 : Int) ^ n := two_pow_pos_int n
    by_cases hstd : isStd n = true
    · have hsv : satV false n (Cast.sat == Cast.sat) i = i := by simp [satV, hstd]
      rw [hsv, isStd_storW hstd] at *
      rw [lowBits_of_range h0 h1]
      simp only [castU]
      rw [if_neg (by omega), if_neg (by omega)]
    · have hsv : satV false n (Cast.sat == Cast.sat) i = if i > (2 : Int) ^ n - 1 then (2 : Int) ^ n - 1 else i := by
        simp [satV, hstd, satInt]
      rw [hsv]
      simp only [castU]
      rw [if_neg (by omega)]
      by_cases hge : i ≥ (2 : Int) ^ n
      · rw [if_pos hge, if_pos (by omega), lowBits_of_range (by omega) (by omega)]
        have := two_pow_cast n
        omega
      · rw [if_neg hge, if_neg (by omega), lowBits_of_range h0 (by omega)]

theorem clampS_eq_satInt (n : Nat) (i : Int) : clampS n i = satInt true n i := by
  have hp : (0 : Int) < (2 : Int) ^ (n - 1) := two_pow_pos_int (n - 1)
  simp only [clampS, satInt, true_and, if_true]
  by_cases h1 : i < -(2 : Int) ^ (n - 1)
  · simp only [h1, if_true]
    rw [if_neg (by omega)]
  · simp only [h1, if_false]
    by_cases h2 : i ≥ (2 : Int) ^ (n - 1)
    · rw [if_pos h2, if_pos (by omega)]
    · rw [if_neg h2, if_neg (by omega)]

theorem castS_eq_lowBits (n : Nat) (m : Cast) (i : Int)
    (h0 : -((2 : Int) ^ (storW n - 1)) ≤ i) (h1 : i < (2 : Int) ^ (storW n - 1)) :
    castS n m i = lowBits n (satV true n (m == .sat) i) := by
  cases m with
  | trunc => rfl
  | sat =>
    by_cases hstd : isStd n = true
    · have hsv : satV true n (Cast.sat == Cast.sat) i = i := by simp [satV, hstd]
      rw [hsv]
      rw [isStd_storW hstd] at h0 h1
      simp only [castS, lowBits]
      have : clampS n i = i := by
        simp only [clampS]
        rw [if_neg (by omega), if_neg (by omega)]
      rw [this]
    · have hsv : satV true n (Cast.sat == Cast.sat) i = satInt true n i := by simp [satV, hstd]
      rw [hsv, ← clampS_eq_satInt]
      rfl

/-! ### floats -/

theorem floatBits_eq_narrow {n : Nat} (hn : n = 16 ∨ n = 32 ∨ n = 64) (m : Cast) (x : Nat)
    (hx : x < 2 ^ 64) (hs : n = 64 ∨ widen 32 (f32bits x) = x) :
    floatBits n m x = narrow n m x := by
  rcases hn with rfl | rfl | rfl
  · simp [floatBits]
  · simp only [floatBits, show ¬ (32 = 16) by decide, if_false, if_true]
    rcases hs with h | h
    · cases h
    · -- the `float` member holds a binary32 value: both cast modes keep it
      have hc : Canon 32 (f32bits x) := canon_narrow (Or.inr (Or.inl rfl)) .trunc x
      have := narrow_widen (Or.inr (Or.inl rfl)) m hc
      rw [h] at this
      exact this.symm
  · simp only [floatBits, narrow, show ¬ (64 = 16) by decide, show ¬ (64 = 32) by decide, if_false]
    exact (Nat.mod_eq_of_lt hx).symm

end NunavutVerif.GenC
