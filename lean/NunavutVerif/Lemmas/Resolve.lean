import NunavutVerif.Model.Resolve
/-!
Helper lemmas for C16 (template resolution, environment contract).  Core Lean only.
-/
namespace NunavutVerif.Resolve

/-! ## `tfind`: dict semantics of the (stem, path) list -/

theorem tfind_append (a b : Templates) (n : Name) :
    tfind (a ++ b) n = match tfind b n with
      | some p => some p
      | none => tfind a n := by
  induction a with
  | nil => cases h : tfind b n <;> simp [tfind, h]
  | cons e a ih =>
    obtain ⟨s, p⟩ := e
    simp only [List.cons_append, tfind, ih]
    cases tfind b n <;> rfl

theorem tfind_merged (fs pkg : Option Templates) (n : Name) :
    tfind (merged fs pkg) n = mfind fs pkg n := by
  unfold merged mfind
  rw [tfind_append]
  cases fs <;> cases pkg <;> simp [tfind, Option.bind] <;> rfl

theorem tfind_merged_fun (fs pkg : Option Templates) : tfind (merged fs pkg) = mfind fs pkg :=
  funext (tfind_merged fs pkg)

theorem tfind_some_of_mem {t : Templates} {n : Name} {p : Path} (h : (n, p) ∈ t) : ∃ q, tfind t n = some q := by
  induction t with
  | nil => cases h
  | cons e t ih =>
    obtain ⟨s, q⟩ := e
    simp only [tfind]
    cases ht : tfind t n with
    | some q' => exact ⟨q', rfl⟩
    | none =>
      rcases List.mem_cons.mp h with h1 | h1
      · cases h1; exact ⟨p, by simp⟩
      · obtain ⟨q', hq'⟩ := ih h1; rw [ht] at hq'; cases hq'

theorem tfind_none_iff (t : Templates) (n : Name) : tfind t n = none ↔ ∀ p, (n, p) ∉ t := by
  constructor
  · intro h p hp
    obtain ⟨q, hq⟩ := tfind_some_of_mem hp
    rw [h] at hq; cases hq
  · intro h
    induction t with
    | nil => rfl
    | cons e t ih =>
      obtain ⟨s, q⟩ := e
      have h1 : tfind t n = none := ih fun p hp => h p (List.mem_cons_of_mem _ hp)
      have h2 : s ≠ n := fun he => h q (by subst he; exact List.mem_cons_self)
      simp [tfind, h1, h2]

theorem tfind_some_iff_of_nodup {t : Templates} (hnd : (t.map Prod.fst).Nodup) (n : Name) :
    ∀ p, tfind t n = some p ↔ (n, p) ∈ t := by
  induction t with
  | nil => simp [tfind]
  | cons e t ih =>
    obtain ⟨s, q⟩ := e
    simp only [List.map_cons, List.nodup_cons] at hnd
    obtain ⟨hs, hnd'⟩ := hnd
    have ih := ih hnd'
    intro p
    simp only [tfind]
    cases h : tfind t n with
    | some q' =>
      have hm : (n, q') ∈ t := (ih q').mp h
      have hne : s ≠ n := fun he => hs (by subst he; exact List.mem_map.mpr ⟨_, hm, rfl⟩)
      constructor
      · intro hq; cases hq; exact List.mem_cons_of_mem _ hm
      · intro hp
        rcases List.mem_cons.mp hp with h1 | h1
        · cases h1; exact absurd rfl hne
        · rw [← (ih p).mpr h1, h]
    | none =>
      have hn := (tfind_none_iff t n).mp h
      constructor
      · intro hq
        by_cases he : s = n
        · simp only [he, if_true, Option.some.injEq] at hq; subst hq; subst he; exact List.mem_cons_self
        · simp [he] at hq
      · intro hp
        rcases List.mem_cons.mp hp with h1 | h1
        · cases h1; simp
        · exact absurd h1 (hn p)

theorem tfind_perm {t t' : Templates} (hp : t.Perm t') (hnd : (t.map Prod.fst).Nodup) (n : Name) :
    tfind t n = tfind t' n := by
  have hnd' : (t'.map Prod.fst).Nodup := (hp.map Prod.fst).nodup_iff.mp hnd
  apply Option.ext
  intro p
  rw [tfind_some_iff_of_nodup hnd, tfind_some_iff_of_nodup hnd', hp.mem_iff]

/-! ## The chain and the specification -/

theorem chain_fuel {H : Hier} {rank : Cls → Nat} (hR : RankedBy H rank) :
    ∀ f g c, rank c < f → rank c < g → chain H f c = chain H g c := by
  intro f
  induction f with
  | zero => intro g c h; omega
  | succ f ih =>
    intro g c hf hg
    cases g with
    | zero => omega
    | succ g =>
      simp only [chain]
      cases hb : H.bases c with
      | nil => rfl
      | cons b bs =>
        have := hR c b (by simp [hb])
        simp only [List.cons.injEq, true_and]
        exact ih g b (by omega) (by omega)

theorem nearestAncestor_step {H : Hier} {rank : Cls → Nat} (hR : RankedBy H rank) (find : Name → Option Path)
    (c : Cls) :
    nearestAncestor H find rank c =
      match find (H.name c) with
      | some p => some p
      | none => match H.bases c with
        | [] => none
        | b :: _ => nearestAncestor H find rank b := by
  have hl : nearestAncestor H find rank c = nearest H find (c :: match H.bases c with
      | b :: _ => chain H (rank c) b
      | [] => []) := rfl
  rw [hl]
  simp only [nearest]
  cases find (H.name c) with
  | some p => rfl
  | none =>
    cases hb : H.bases c with
    | nil => rfl
    | cons b bs =>
      have := hR c b (by simp [hb])
      simp only
      rw [chain_fuel hR (rank c) (rank b + 1) b (by omega) (by omega)]
      rfl

/-- Every cache entry is the specified answer for its class. -/
def CacheOk (H : Hier) (find : Name → Option Path) (rank : Cls → Nat) (cache : Cache) : Prop :=
  ∀ c p, cfind cache c = some p → nearestAncestor H find rank c = some p

theorem cacheOk_nil (H : Hier) (find : Name → Option Path) (rank : Cls → Nat) : CacheOk H find rank [] := by
  intro c p h; simp [cfind] at h

/-- In a ranked single-inheritance hierarchy the loop started on one class either runs out of fuel (only if
the fuel does not exceed the rank) or returns the specified template and leaves a sound cache. -/
theorem bfs_spec {H : Hier} {rank : Cls → Nat} (hS : SingleInheritance H) (hR : RankedBy H rank) (tpl : Templates) :
    ∀ fuel cache c d, CacheOk H (tfind tpl) rank cache → (∀ x ∈ d, rank c < rank x) →
      (bfs H tpl fuel cache [c] d = none ∧ fuel ≤ rank c) ∨
      (∃ cache', bfs H tpl fuel cache [c] d = some (nearestAncestor H (tfind tpl) rank c, cache') ∧
        CacheOk H (tfind tpl) rank cache') := by
  intro fuel
  induction fuel with
  | zero => intro cache c d _ _; left; exact ⟨rfl, Nat.zero_le _⟩
  | succ fuel ih =>
    intro cache c d hC hd
    simp only [bfs]
    cases hc : cfind cache c with
    | some p =>
      right
      exact ⟨cache, by rw [hC c p hc], hC⟩
    | none =>
      rw [nearestAncestor_step hR]
      cases ht : tfind tpl (H.name c) with
      | some p =>
        right
        refine ⟨(c, p) :: cache, rfl, ?_⟩
        intro c' p' h'
        simp only [cfind] at h'
        by_cases he : c = c'
        · subst he
          simp only [if_true, Option.some.injEq] at h'
          subst h'
          rw [nearestAncestor_step hR, ht]
        · simp only [he, if_false] at h'
          exact hC c' p' h'
      | none =>
        simp only
        have hlen := hS c
        cases hb : H.bases c with
        | nil =>
          right
          exact ⟨cache, by simp [pushBases, bfs], hC⟩
        | cons b bs =>
          have hbs : bs = [] := by
            rw [hb] at hlen
            cases bs with
            | nil => rfl
            | cons _ _ => simp at hlen
          subst hbs
          have hrb : rank b < rank c := hR c b (by simp [hb])
          have hnb : d.contains b = false := by
            cases hcon : d.contains b with
            | false => rfl
            | true =>
              have hm : b ∈ d := by simpa using hcon
              have := hd b hm
              omega
          simp only [pushBases, hnb, List.nil_append, Bool.false_eq_true, if_false]
          have hd' : ∀ x ∈ (if d.contains c = true then d else c :: d), rank b < rank x := by
            intro x hx
            by_cases hcc : d.contains c = true
            · rw [if_pos hcc] at hx
              have := hd x hx
              omega
            · rw [if_neg hcc] at hx
              rcases List.mem_cons.mp hx with h1 | h1
              · subst h1; exact hrb
              · have := hd x h1
                omega
          rcases ih cache b _ hC hd' with ⟨h1, h2⟩ | ⟨cache', h1, h2⟩
          · left
            exact ⟨h1, by omega⟩
          · right
            exact ⟨cache', h1, h2⟩

/-- Whatever earlier look-ups left in the cache is sound. -/
theorem reachable_cacheOk {H : Hier} {rank : Cls → Nat} (hS : SingleInheritance H) (hR : RankedBy H rank)
    (fs pkg : Option Templates) {cache : Cache} (h : Reachable H fs pkg cache) :
    CacheOk H (mfind fs pkg) rank cache := by
  induction h with
  | empty => exact cacheOk_nil _ _ _
  | @step cache fuel c r cache' _ hl ih =>
    unfold lookup at hl
    rw [← tfind_merged_fun] at ih ⊢
    rcases bfs_spec hS hR (merged fs pkg) fuel cache c [] ih (by simp) with ⟨h1, _⟩ | ⟨cache'', h1, h2⟩
    · rw [h1] at hl; cases hl
    · rw [h1] at hl; cases hl; exact h2

/-- With one loader only the two versions of `type_to_template` are the same function. -/
theorem lookupBeforeFix_fs_only (H : Hier) (fuel : Nat) (cache : Cache) (fs : Templates) (c : Cls) :
    lookupBeforeFix H fuel cache (some fs) none c = lookup H fuel cache (some fs) none c := by
  simp only [lookupBeforeFix, lookup, merged, Option.getD, List.nil_append]
  cases bfs H fs fuel cache [c] [] with
  | none => rfl
  | some rc => obtain ⟨r, cache'⟩ := rc; cases r <;> rfl

theorem lookupBeforeFix_pkg_only (H : Hier) (fuel : Nat) (cache : Cache) (pkg : Templates) (c : Cls) :
    lookupBeforeFix H fuel cache none (some pkg) c = lookup H fuel cache none (some pkg) c := by
  simp [lookupBeforeFix, lookup, merged]

/-! ## Collections of the environment -/

theorem cget_cset (m : Coll) (n k : Name) (v : Owner) :
    cget (cset m n v) k = if n = k then some v else cget m k := by
  induction m with
  | nil => simp [cset, cget]
  | cons e m ih =>
    obtain ⟨a, w⟩ := e
    by_cases ha : a = n
    · subst ha
      simp only [cset, if_true, cget]
      by_cases hk : a = k <;> simp [hk]
    · simp only [cset, ha, if_false, cget, ih]
      by_cases hk : a = k
      · subst hk; simp [Ne.symm ha]
      · simp [hk]

/-- Without the allow flag a successful `_add_to_environment` means the name was free. -/
theorem addToEnv_false_ok {m m' : Coll} {n : Name} {v : Owner} (h : addToEnv false m n v = .ok m') :
    cget m n = none ∧ m' = cset m n v := by
  unfold addToEnv at h
  cases hc : cget m n with
  | some w => simp [hc] at h
  | none => simp only [hc] at h; cases h; exact ⟨rfl, rfl⟩

theorem addToEnv_false_taken {m : Coll} {n : Name} {v w : Owner} (h : cget m n = some w) :
    addToEnv false m n v = .error (.alreadyDefined n) := by
  simp [addToEnv, h]

/-- M: entries persist; N: every added entry is there; D: nothing else appears; F: the added names were free
and pairwise distinct. -/
theorem addAll_false_ok : ∀ (xs : List (Name × Owner)) (m m' : Coll), addAll false m xs = .ok m' →
    (∀ k v, cget m k = some v → cget m' k = some v) ∧
    (∀ e ∈ xs, cget m' e.1 = some e.2) ∧
    (∀ k v, cget m' k = some v → cget m k = some v ∨ (k, v) ∈ xs) ∧
    (∀ e ∈ xs, cget m e.1 = none) ∧ (xs.map Prod.fst).Nodup := by
  intro xs
  induction xs with
  | nil =>
    intro m m' h
    simp only [addAll, Except.ok.injEq] at h
    subst h
    simp
  | cons e xs ih =>
    intro m m' h
    obtain ⟨n, v⟩ := e
    simp only [addAll] at h
    cases h1 : addToEnv false m n v with
    | error x => simp [h1] at h
    | ok m1 =>
      simp only [h1] at h
      obtain ⟨hfree, hm1⟩ := addToEnv_false_ok h1
      subst hm1
      obtain ⟨hM, hN, hD, hF, hU⟩ := ih _ _ h
      have hget : cget (cset m n v) n = some v := by simp [cget_cset]
      refine ⟨?_, ?_, ?_, ?_, ?_⟩
      · intro k w hk
        apply hM
        rw [cget_cset]
        by_cases hnk : n = k
        · subst hnk; rw [hfree] at hk; cases hk
        · simp [hnk, hk]
      · intro e he
        rcases List.mem_cons.mp he with h2 | h2
        · subst h2; exact hM _ _ hget
        · exact hN e h2
      · intro k w hk
        rcases hD k w hk with h2 | h2
        · rw [cget_cset] at h2
          by_cases hnk : n = k
          · subst hnk
            simp only [if_true, Option.some.injEq] at h2
            subst h2
            right; exact List.mem_cons_self
          · simp only [hnk, if_false] at h2
            left; exact h2
        · right; exact List.mem_cons_of_mem _ h2
      · intro e he
        rcases List.mem_cons.mp he with h2 | h2
        · subst h2; exact hfree
        · have := hF e h2
          rw [cget_cset] at this
          by_cases hnk : n = e.1
          · simp [hnk] at this
          · simpa [hnk] using this
      · simp only [List.map_cons, List.nodup_cons]
        refine ⟨?_, hU⟩
        intro hmem
        obtain ⟨e, he, hen⟩ := List.mem_map.mp hmem
        have := hF e he
        rw [cget_cset, hen] at this
        simp at this

/-- A name that is already taken, or that occurs twice, makes `addAll` without the allow flag fail. -/
theorem addAll_false_collision (xs : List (Name × Owner)) (m : Coll) (e : Name × Owner) (he : e ∈ xs)
    (w : Owner) (hw : cget m e.1 = some w) : ∃ x, addAll false m xs = .error x := by
  cases h : addAll false m xs with
  | error x => exact ⟨x, rfl⟩
  | ok m' =>
    have := (addAll_false_ok xs m m' h).2.2.2.1 e he
    rw [hw] at this; cases this

theorem addAll_append (allow : Bool) (xs ys : List (Name × Owner)) (m : Coll) :
    addAll allow m (xs ++ ys) = match addAll allow m xs with
      | .ok m' => addAll allow m' ys
      | .error e => .error e := by
  induction xs generalizing m with
  | nil => simp [addAll]
  | cons e xs ih =>
    obtain ⟨n, v⟩ := e
    simp only [List.cons_append, addAll]
    cases addToEnv allow m n v with
    | ok m1 => simp only [ih]
    | error x => rfl

/-- `setAll` is a plain overwrite: the last pair with the name wins, else the old value. -/
def lastOf : List (Name × Owner) → Name → Option Owner
  | [], _ => none
  | (n, v) :: rest, k =>
    match lastOf rest k with
    | some w => some w
    | none => if n = k then some v else none

theorem cget_setAll (xs : List (Name × Owner)) (m : Coll) (k : Name) :
    cget (setAll m xs) k = match lastOf xs k with
      | some w => some w
      | none => cget m k := by
  induction xs generalizing m with
  | nil => simp [setAll, lastOf]
  | cons e xs ih =>
    obtain ⟨n, v⟩ := e
    simp only [setAll, lastOf, ih, cget_cset]
    cases lastOf xs k with
    | some w => rfl
    | none => by_cases hnk : n = k <;> simp [hnk]

/-- Built-in globals are installed over whatever is there: only names they do not mention keep the old value. -/
theorem cget_builtinGlobals_congr (cfg : EnvCfg) (g g' : Coll) (k : Name) (h : cget g k = cget g' k) :
    cget (builtinGlobals cfg g) k = cget (builtinGlobals cfg g') k := by
  unfold builtinGlobals
  rw [cget_setAll, cget_setAll, cget_cset, cget_cset, cget_setAll, cget_setAll, h]

theorem cget_builtinGlobals_of_some (cfg : EnvCfg) (g g' : Coll) (k : Name) (v : Owner)
    (hmono : ∀ w, cget g k = some w → cget g' k = some w)
    (h : cget (builtinGlobals cfg g) k = some v) : cget (builtinGlobals cfg g') k = some v := by
  unfold builtinGlobals at h ⊢
  rw [cget_setAll, cget_cset, cget_setAll] at h ⊢
  cases h1 : lastOf cfg.langGlobals k with
  | some w => simpa [h1] using h
  | none =>
    simp only [h1] at h ⊢
    by_cases h2 : nowUtc = k
    · simpa [h2] using h
    · simp only [h2, if_false] at h ⊢
      cases h3 : lastOf (cfg.reservedNs.map fun n => (n, Owner.reserved)) k with
      | some w => simpa [h3] using h
      | none =>
        simp only [h3] at h ⊢
        exact hmono v h

/-- `additional_globals` without the allow flag (repaired code): every name was free and not reserved. -/
theorem addGlobals_false_ok (reserved : List Name) : ∀ (xs : List (Name × Owner)) (g g' : Coll),
    addGlobals reserved false g xs = .ok g' →
    (∀ k v, cget g k = some v → cget g' k = some v) ∧
    (∀ e ∈ xs, cget g' e.1 = some e.2) ∧
    (∀ e ∈ xs, cget g e.1 = none ∧ e.1 ∉ reserved) := by
  intro xs
  induction xs with
  | nil =>
    intro g g' h
    simp only [addGlobals, Except.ok.injEq] at h
    subst h
    simp
  | cons e xs ih =>
    intro g g' h
    obtain ⟨n, v⟩ := e
    simp only [addGlobals, List.contains_iff_mem] at h
    by_cases hr : n ∈ reserved
    · simp [hr] at h
    · simp only [hr, if_false] at h
      cases h1 : addToEnv false g n v with
      | error x => simp [h1] at h
      | ok g1 =>
        simp only [h1] at h
        obtain ⟨hfree, hg1⟩ := addToEnv_false_ok h1
        subst hg1
        obtain ⟨hM, hN, hF⟩ := ih _ _ h
        have hget : cget (cset g n v) n = some v := by simp [cget_cset]
        refine ⟨?_, ?_, ?_⟩
        · intro k w hk
          apply hM
          rw [cget_cset]
          by_cases hnk : n = k
          · subst hnk; rw [hfree] at hk; cases hk
          · simp [hnk, hk]
        · intro e he
          rcases List.mem_cons.mp he with h2 | h2
          · subst h2; exact hM _ _ hget
          · exact hN e h2
        · intro e he
          rcases List.mem_cons.mp he with h2 | h2
          · subst h2; exact ⟨hfree, hr⟩
          · obtain ⟨h3, h4⟩ := hF e h2
            refine ⟨?_, h4⟩
            rw [cget_cset] at h3
            by_cases hnk : n = e.1
            · simp [hnk] at h3
            · simpa [hnk] using h3

/-- A reserved name among the additional globals raises, whatever the allow flag (both versions of the code). -/
theorem addGlobals_reserved (reserved : List Name) (allow : Bool) : ∀ (xs : List (Name × Owner)) (g : Coll)
    (e : Name × Owner), e ∈ xs → e.1 ∈ reserved → ∃ x, addGlobals reserved allow g xs = .error x := by
  intro xs
  induction xs with
  | nil => intro g e he; cases he
  | cons a xs ih =>
    intro g e he hr
    obtain ⟨n, v⟩ := a
    simp only [addGlobals, List.contains_iff_mem]
    by_cases hrn : n ∈ reserved
    · exact ⟨.reservedGlobal n, by simp [hrn]⟩
    · simp only [hrn, if_false]
      cases h1 : addToEnv allow g n v with
      | error x => exact ⟨x, rfl⟩
      | ok g1 =>
        rcases List.mem_cons.mp he with h2 | h2
        · subst h2; exact absurd hr hrn
        · exact ih g1 e h2 hr

theorem addGlobalsBeforeFix_reserved (reserved : List Name) : ∀ (xs : List (Name × Owner)) (g : Coll)
    (e : Name × Owner), e ∈ xs → e.1 ∈ reserved → ∃ x, addGlobalsBeforeFix reserved g xs = .error x := by
  intro xs
  induction xs with
  | nil => intro g e he; cases he
  | cons a xs ih =>
    intro g e he hr
    obtain ⟨n, v⟩ := a
    simp only [addGlobalsBeforeFix, List.contains_iff_mem]
    by_cases hrn : n ∈ reserved
    · exact ⟨.reservedGlobal n, by simp [hrn]⟩
    · simp only [hrn, if_false]
      rcases List.mem_cons.mp he with h2 | h2
      · subst h2; exact absurd hr hrn
      · exact ih _ e h2 hr

/-! ## Additions after `create()` -/

def postOf (k : Kind) (post : List (Kind × Name × Owner)) : List (Name × Owner) :=
  post.filterMap fun e => if e.1 = k then some e.2 else none

/-- If the interleaved additions succeed, each collection went through its own additions in order. -/
theorem addPost_ok (allow : Bool) : ∀ (post : List (Kind × Name × Owner)) (e e' : Env), addPost allow e post = .ok e' →
    addAll allow e.filters (postOf .filter post) = .ok e'.filters ∧
    addAll allow e.tests (postOf .test post) = .ok e'.tests ∧ e'.globals = e.globals := by
  intro post
  induction post with
  | nil =>
    intro e e' h
    simp only [addPost, Except.ok.injEq] at h
    subst h
    simp [postOf, addAll]
  | cons a post ih =>
    intro e e' h
    obtain ⟨k, n, v⟩ := a
    cases k with
    | filter =>
      simp only [addPost] at h
      cases h1 : addToEnv allow e.filters n v with
      | error x => simp [h1] at h
      | ok f =>
        simp only [h1] at h
        obtain ⟨h2, h3, h4⟩ := ih _ _ h
        refine ⟨?_, ?_, h4⟩
        · simpa [postOf, addAll, h1] using h2
        · simpa [postOf] using h3
    | test =>
      simp only [addPost] at h
      cases h1 : addToEnv allow e.tests n v with
      | error x => simp [h1] at h
      | ok t =>
        simp only [h1] at h
        obtain ⟨h2, h3, h4⟩ := ih _ _ h
        refine ⟨?_, ?_, h4⟩
        · simpa [postOf] using h2
        · simpa [postOf, addAll, h1] using h3

theorem lastOf_map_reserved (ns : List Name) (k : Name) :
    lastOf (ns.map fun n => (n, Owner.reserved)) k = if k ∈ ns then some Owner.reserved else none := by
  induction ns with
  | nil => simp [lastOf]
  | cons a ns ih =>
    simp only [List.map_cons, lastOf, ih, List.mem_cons]
    by_cases h1 : k ∈ ns
    · simp [h1]
    · by_cases h2 : a = k
      · subst h2; simp [h1]
      · have : ¬ k = a := fun e => h2 e.symm
        simp [h1, h2, this]

/-- What `builtinGlobals` leaves at a name: the language global if there is one, else the reserved object for
`now_utc` and the reserved namespaces, else whatever was there. -/
theorem cget_builtinGlobals (cfg : EnvCfg) (g : Coll) (k : Name) :
    cget (builtinGlobals cfg g) k =
      match lastOf cfg.langGlobals k with
      | some v => some v
      | none => if nowUtc = k then some Owner.reserved
                else if k ∈ cfg.reservedNs then some Owner.reserved else cget g k := by
  unfold builtinGlobals
  rw [cget_setAll, cget_cset, cget_setAll, lastOf_map_reserved]
  cases lastOf cfg.langGlobals k with
  | some v => rfl
  | none =>
    by_cases h1 : nowUtc = k
    · simp [h1]
    · by_cases h2 : k ∈ cfg.reservedNs <;> simp [h1, h2]

/-- The globals of a successfully constructed environment are `builtinGlobals` over what the user's loop left
(any allow flag, repaired or unrepaired loop: both continue with `constructRest`). -/
theorem constructRest_globals (cfg : EnvCfg) (allow : Bool) (g : Coll) (uf ut : List (Name × Owner)) (env : Env)
    (h : constructRest cfg allow g uf ut = .ok env) : env.globals = builtinGlobals cfg g := by
  unfold constructRest at h
  cases hf1 : addAll allow cfg.jinjaFilters cfg.preFilters with
  | error x => simp [hf1] at h
  | ok f1 =>
    cases ht1 : addAll allow cfg.jinjaTests cfg.preTests with
    | error x => simp [hf1, ht1] at h
    | ok t1 =>
      simp only [hf1, ht1] at h
      cases hf2 : addAll allow f1 (conv uf) with
      | error x => simp [hf2] at h
      | ok f2 =>
        cases ht2 : addAll allow t1 (conv ut) with
        | error x => simp [hf2, ht2] at h
        | ok t2 =>
          simp only [hf2, ht2] at h
          exact (addPost_ok allow cfg.post _ _ h).2.2

/-! ## A successful construction is plain assignment in installation order (any allow flag) -/

/-- Whatever the flag: if `_add_to_environment` does not raise, it is an item assignment. -/
theorem addToEnv_ok (allow : Bool) {m m' : Coll} {n : Name} {v : Owner} (h : addToEnv allow m n v = .ok m') :
    m' = cset m n v := by
  unfold addToEnv at h
  cases hc : cget m n with
  | some w =>
    simp only [hc] at h
    cases allow with
    | true => simp at h; exact h.symm
    | false => simp at h
  | none => simp only [hc] at h; cases h; rfl

theorem addAll_ok (allow : Bool) : ∀ (xs : List (Name × Owner)) (m m' : Coll), addAll allow m xs = .ok m' →
    m' = setAll m xs := by
  intro xs
  induction xs with
  | nil => intro m m' h; simp only [addAll, Except.ok.injEq] at h; subst h; rfl
  | cons e xs ih =>
    intro m m' h
    obtain ⟨n, v⟩ := e
    simp only [addAll] at h
    cases h1 : addToEnv allow m n v with
    | error x => simp [h1] at h
    | ok m1 =>
      simp only [h1] at h
      rw [addToEnv_ok allow h1] at h
      exact ih _ _ h

theorem setAll_append (m : Coll) (xs ys : List (Name × Owner)) : setAll m (xs ++ ys) = setAll (setAll m xs) ys := by
  induction xs generalizing m with
  | nil => rfl
  | cons e xs ih => obtain ⟨n, v⟩ := e; simp only [List.cons_append, setAll, ih]

/-- The `additional_globals` loop (repaired), any flag: if it does not raise, no name was reserved and the result is
plain assignment. -/
theorem addGlobals_ok (reserved : List Name) (allow : Bool) : ∀ (xs : List (Name × Owner)) (g g' : Coll),
    addGlobals reserved allow g xs = .ok g' → g' = setAll g xs ∧ ∀ e ∈ xs, e.1 ∉ reserved := by
  intro xs
  induction xs with
  | nil => intro g g' h; simp only [addGlobals, Except.ok.injEq] at h; subst h; exact ⟨rfl, by simp⟩
  | cons e xs ih =>
    intro g g' h
    obtain ⟨n, v⟩ := e
    simp only [addGlobals, List.contains_iff_mem] at h
    by_cases hr : n ∈ reserved
    · simp [hr] at h
    · simp only [hr, if_false] at h
      cases h1 : addToEnv allow g n v with
      | error x => simp [h1] at h
      | ok g1 =>
        simp only [h1] at h
        rw [addToEnv_ok allow h1] at h
        obtain ⟨h2, h3⟩ := ih _ _ h
        refine ⟨h2, ?_⟩
        intro e he
        rcases List.mem_cons.mp he with h4 | h4
        · subst h4; exact hr
        · exact h3 e h4

theorem lastOf_append (xs ys : List (Name × Owner)) (k : Name) :
    lastOf (xs ++ ys) k = match lastOf ys k with
      | some w => some w
      | none => lastOf xs k := by
  induction xs with
  | nil => cases h : lastOf ys k <;> simp [lastOf, h]
  | cons e xs ih =>
    obtain ⟨n, v⟩ := e
    simp only [List.cons_append, lastOf, ih]
    cases lastOf ys k <;> rfl

/-! ## pathlib stem / suffix -/

theorem rfindAux_append (ch : Char) (a b : List Char) (i : Nat) (acc : Option Nat) :
    rfindAux ch (a ++ b) i acc = rfindAux ch b (i + a.length) (rfindAux ch a i acc) := by
  induction a generalizing i acc with
  | nil => simp [rfindAux]
  | cons c a ih =>
    simp only [List.cons_append, rfindAux, ih, List.length_cons]
    have : i + 1 + a.length = i + (a.length + 1) := by omega
    rw [this]

theorem rfindAux_absent (ch : Char) (x : List Char) (hx : ch ∉ x) (i : Nat) (acc : Option Nat) :
    rfindAux ch x i acc = acc := by
  induction x generalizing i with
  | nil => rfl
  | cons c x ih =>
    have h1 : c ≠ ch := fun e => hx (by simp [e])
    have h2 : ch ∉ x := fun e => hx (List.mem_cons_of_mem _ e)
    simp [rfindAux, h1, ih h2]

/-- A name `s.x` with `s`, `x` non-empty and no dot in `x` splits into stem `s` and suffix `.x` — dots inside `s` stay. -/
theorem splitExt_last_suffix (s x : List Char) (hs : s ≠ []) (hx : x ≠ []) (hdot : '.' ∉ x) :
    splitExt (s ++ '.' :: x) = (s, '.' :: x) := by
  unfold splitExt
  rw [rfindAux_append]
  simp only [rfindAux, if_true, Nat.zero_add]
  rw [rfindAux_absent '.' x hdot]
  have h1 : 0 < s.length := List.length_pos_iff.mpr hs
  have h2 : 0 < x.length := List.length_pos_iff.mpr hx
  have h3 : s.length + 1 < (s ++ '.' :: x).length := by simp; omega
  simp only [h1, h3, and_self, if_true]
  simp

end NunavutVerif.Resolve
