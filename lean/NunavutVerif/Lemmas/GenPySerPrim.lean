import NunavutVerif.Lemmas.GenPyBits
import NunavutVerif.Lemmas.GenPyDefs
import NunavutVerif.Lemmas.DsdlFloat
/-!
Refinement, stage 1: the primitive fields at arbitrary offsets (integers through the three method families, bool,
void, float), padding, the two bulk array paths — each emitted call appends exactly the bits the specification
prescribes (C14's Python contracts carried over to bit lists).
-/
namespace NunavutVerif.GenPy
open NunavutVerif.Dsdl
open NunavutVerif.Bits (Buf Err bitAt WF)
open NunavutVerif.Bits.Py

theorem isStd_cases {n : Nat} (h : isStd n = true) : n = 8 ∨ n = 16 ∨ n = 32 ∨ n = 64 := by
  simp only [isStd, Bool.or_eq_true, beq_iff_eq] at h; omega

theorem storageBits_ge (n : Nat) (h : n ≤ 64) : n ≤ storageBits n := by unfold storageBits; split <;> (try split) <;> (try split) <;> omega

theorem storageBits_std {n : Nat} (h : n = 8 ∨ n = 16 ∨ n = 32 ∨ n = 64) : storageBits n = n := by
  rcases h with rfl | rfl | rfl | rfl <;> rfl

theorem lift_ok {α : Type} {x : Except Err α} {a : α} (h : x = .ok a) : lift x = .ok a := by rw [h]; rfl

theorem toNat_emod_two_pow (x : Int) (hx : 0 ≤ x) (n : Nat) : (x % (2 : Int) ^ n).toNat = x.toNat % 2 ^ n := by
  obtain ⟨k, rfl⟩ := Int.eq_ofNat_of_zero_le hx
  have : ((k : Int) % (2 : Int) ^ n) = ((k % 2 ^ n : Nat) : Int) := by simp
  rw [this]; exact Int.toNat_natCast _

/-- the unsigned integer macro: `max(min(x, 2^n - 1), 0)` (saturated) or the value itself (truncated), then the
method the offset claim selects — always the `n` low bits of the specification's cast -/
theorem serInt_unsigned_spec (al : Bool) (n : Nat) (m : Cast) (s : Ser) (x : Int) (hinv : s.Inv)
    (hal : al = true → s.off % 8 = 0) (hn1 : 1 ≤ n) (hn2 : n ≤ 64) (hroom : Room s n)
    (hx0 : 0 ≤ x) (hx1 : x < (2 : Int) ^ storageBits n) :
    ∃ s', serInt al false n m s x = .ok s' ∧ AppL s s' (natToBits n (castU n m x)) := by
  -- the value handed to the Serializer method
  obtain ⟨y, hy, hy0, hy8, hbits⟩ : ∃ y : Int,
      intArg false n m x = y ∧ 0 ≤ y ∧ (n = 8 → y < 256) ∧
      ∀ i, i < n → y.toNat.testBit i = (castU n m x).testBit i := by
    have hp := two_pow_pos_int n
    have hc : ((2 ^ n : Nat) : Int) = (2 : Int) ^ n := by simp
    cases m with
    | sat =>
      refine ⟨_, rfl, ?_, ?_, ?_⟩
      · simp only [intArg, PyObj.intHi, PyObj.intLo]; simp; omega
      · intro h8; subst h8; simp only [intArg, PyObj.intHi, PyObj.intLo]; simp; omega
      · intro i _
        have : (intArg false n .sat x).toNat = castU n .sat x := by
          simp only [intArg, PyObj.intHi, PyObj.intLo, castU]
          simp only [Bool.false_eq_true, if_false]
          split
          · omega
          · split
            · have : 1 ≤ 2 ^ n := Nat.pow_pos (by decide)
              omega
            · omega
        rw [this]
    | trunc =>
      refine ⟨x, rfl, hx0, ?_, ?_⟩
      · intro h8; subst h8; simpa [storageBits] using hx1
      · intro i hi
        simp only [castU]
        rw [toNat_emod_two_pow x hx0, Nat.testBit_mod_two_pow]; simp [hi]
  have happ : ∀ {s' : Ser}, Appends s s' n y.toNat.testBit → AppL s s' (natToBits n (castU n m x)) := by
    intro s' h
    exact AppL.of_appends h (by simp) (fun i hi => by rw [bitOf_natToBits, hbits i hi]; simp [hi])
  unfold Room at hroom
  simp only [serInt, hy]
  cases hp : intPath al n with
  | alignedStd =>
    simp only [intPath] at hp
    split at hp
    · rename_i hc
      simp only [Bool.and_eq_true] at hc
      have ha := hal hc.2
      simp only [Bool.false_eq_true, if_false, addAlignedUW]
      rcases isStd_cases hc.1 with rfl | rfl | rfl | rfl
      · obtain ⟨s', h1, h2⟩ := addAlignedU8_spec s y hinv ha hy0 (hy8 rfl) (by omega)
        exact ⟨s', by simp [h1, lift], happ h2⟩
      · obtain ⟨s', h1, h2⟩ := addAlignedU16_spec s y hinv ha hy0 (by omega)
        exact ⟨s', by simp [h1, lift], happ h2⟩
      · obtain ⟨s', h1, h2⟩ := addAlignedU32_spec s y hinv ha hy0 (by omega)
        exact ⟨s', by simp [h1, lift], happ h2⟩
      · obtain ⟨s', h1, h2⟩ := addAlignedU64_spec s y hinv ha hy0 (by omega)
        exact ⟨s', by simp [h1, lift], happ h2⟩
    · split at hp <;> cases hp
  | aligned =>
    simp only [intPath] at hp
    split at hp
    · cases hp
    · split at hp
      · rename_i hc
        obtain ⟨s', h1, h2⟩ := addAlignedUnsigned_spec s y n hinv (hal hc) hy0 hn1 (by omega)
        exact ⟨s', by simp [h1, lift], happ h2⟩
      · cases hp
  | unaligned =>
    obtain ⟨s', h1, h2⟩ := addUnalignedUnsigned_spec s y n hinv hy0 hn1 (by omega)
    exact ⟨s', by simp [h1, lift], happ h2⟩

theorem clamp_eq_clampS (n : Nat) (x : Int) :
    max (min x (PyObj.intHi true n)) (PyObj.intLo true n) = clampS n x := by
  have hp := two_pow_pos_int (n - 1)
  simp only [PyObj.intHi, PyObj.intLo, clampS, if_true]
  split
  · omega
  · split <;> omega

theorem clampS_range (n : Nat) (x : Int) :
    -((2 : Int) ^ (n - 1)) ≤ clampS n x ∧ clampS n x < (2 : Int) ^ (n - 1) := by
  have hp := two_pow_pos_int (n - 1)
  unfold clampS; split
  · omega
  · split <;> omega

theorem twos_toNat {n : Nat} (hn : 1 ≤ n) {y : Int} (hlo : -((2 : Int) ^ (n - 1)) ≤ y) (hhi : y < (2 : Int) ^ (n - 1)) :
    (if y < 0 then (2 : Int) ^ n + y else y).toNat = (y % (2 : Int) ^ n).toNat := by
  have h2 := two_pow_pred_int hn
  have hp := two_pow_pos_int (n - 1)
  split
  · have : y % (2 : Int) ^ n = (2 : Int) ^ n + y := by
      have e : y = ((2 : Int) ^ n + y) + (-1) * (2 : Int) ^ n := by omega
      rw [e, Int.add_mul_emod_self_right]
      rw [show (2 : Int) ^ n + y + -1 * 2 ^ n = y by omega] at *
      exact Int.emod_eq_of_lt (by omega) (by omega)
    rw [this]
  · rw [Int.emod_eq_of_lt (by omega) (by omega)]

/-- the signed integer macro (saturated: the only mode PyDSDL accepts) -/
theorem serInt_signed_spec (al : Bool) (n : Nat) (s : Ser) (x : Int) (hinv : s.Inv)
    (hal : al = true → s.off % 8 = 0) (hn1 : 2 ≤ n) (hn2 : n ≤ 64) (hroom : Room s n) :
    ∃ s', serInt al true n .sat s x = .ok s' ∧ AppL s s' (natToBits n (castS n .sat x)) := by
  have hr := clampS_range n x
  have h2 := two_pow_pred_int (show 1 ≤ n by omega)
  have hpp := two_pow_pos_int (n - 1)
  have happ : ∀ {s' : Ser},
      Appends s s' n (if clampS n x < 0 then (2 : Int) ^ n + clampS n x else clampS n x).toNat.testBit →
      AppL s s' (natToBits n (castS n .sat x)) := by
    intro s' h
    refine AppL.of_appends h (by simp) (fun i hi => ?_)
    rw [bitOf_natToBits, twos_toNat (by omega) hr.1 hr.2]; simp [hi, castS]
  unfold Room at hroom
  simp only [serInt, intArg, clamp_eq_clampS]
  cases hp : intPath al n with
  | alignedStd =>
    simp only [intPath] at hp
    split at hp
    · rename_i hc
      simp only [Bool.and_eq_true] at hc
      have hW := isStd_cases hc.1
      obtain ⟨s', h1, h3⟩ := addAlignedI_spec n s (clampS n x) hW hinv (hal hc.2) hr.1 hr.2 (by omega)
      exact ⟨s', by simp [h1, lift], happ h3⟩
    · split at hp <;> cases hp
  | aligned =>
    simp only [intPath] at hp
    split at hp
    · cases hp
    · split at hp
      · rename_i hc
        obtain ⟨s', h1, h3⟩ := addAlignedSigned_spec s (clampS n x) n hinv (hal hc) hn1 (by omega) (by omega)
        exact ⟨s', by simp [h1, lift], happ h3⟩
      · cases hp
  | unaligned =>
    obtain ⟨s', h1, h3⟩ := addUnalignedSigned_spec s (clampS n x) n hinv hn1 (by omega) (by omega)
    exact ⟨s', by simp [h1, lift], happ h3⟩

/-- `add_unaligned_bit` -/
theorem serBool_spec (s : Ser) (b : Bool) (hinv : s.Inv) (hroom : Room s 1) :
    ∃ s', lift (addUnalignedBit s b) = .ok s' ∧ AppL s s' [b] := by
  unfold Room at hroom
  obtain ⟨s', h1, h2⟩ := addUnalignedBit_spec s b hinv (by omega)
  refine ⟨s', lift_ok h1, AppL.of_appends h2 rfl (fun i hi => ?_)⟩
  have : i = 0 := by omega
  subst this; simp [bitOf]

/-! ### floats -/

theorem bytesLoop_length (n : Nat) : ∀ v, (bytesLoop v n).length = n := by
  induction n with
  | zero => intro v; rfl
  | succ n ih => intro v; simp [bytesLoop, ih]

theorem bytesLoop_WF (n : Nat) : ∀ v, WF (bytesLoop v n) := by
  induction n with
  | zero => intro v x hx; simp [bytesLoop] at hx
  | succ n ih =>
    intro v x hx
    simp only [bytesLoop, List.mem_cons] at hx
    rcases hx with rfl | hx
    · have : v &&& 255 ≤ 255 := Nat.and_le_right
      omega
    · exact ih _ x hx

theorem bitAt_bytesLoop (n : Nat) : ∀ v i, bitAt (bytesLoop v n) i = (decide (i < 8 * n) && v.testBit i) := by
  induction n with
  | zero => intro v i; simp [bytesLoop, Bits.bitAt_nil]
  | succ n ih =>
    intro v i
    simp only [bytesLoop]
    rw [Bits.bitAt_cons]
    by_cases h : i < 8
    · rw [if_pos h, Bits.testBit_and_255]; simp [h]; omega
    · rw [if_neg h, ih, Nat.testBit_shiftRight]
      have e : 8 + (i - 8) = i := by omega
      rw [e]
      congr 1
      simp; omega

/-- `add_{aligned,unaligned}_f{n}` around `_float_to_bytes` and the saturation text -/
theorem serFloat_spec (env : Env) (hf : FloatSound env) (al : Bool) (n : Nat) (m : Cast) (s : Ser) (x : Nat)
    (hinv : s.Inv) (hal : al = true → s.off % 8 = 0) (hn : n = 16 ∨ n = 32 ∨ n = 64) (hx : x < 2 ^ 64)
    (hroom : Room s n) :
    ∃ s', serFloat env al n m s x = .ok s' ∧ AppL s s' (natToBits n (narrow n m x)) := by
  unfold Room at hroom
  have hlen : (bytesLoop (narrow n m x) (n / 8)).length = n / 8 := bytesLoop_length _ _
  have h8 : 8 * (n / 8) = n := by rcases hn with rfl | rfl | rfl <;> rfl
  have happ : ∀ {s' : Ser}, Appends s s' (8 * (bytesLoop (narrow n m x) (n / 8)).length)
      (bitAt (bytesLoop (narrow n m x) (n / 8))) → AppL s s' (natToBits n (narrow n m x)) := by
    intro s' h
    refine AppL.of_appends h (by simp [hlen, h8]) (fun i hi => ?_)
    rw [bitAt_bytesLoop, bitOf_natToBits, h8]
  simp only [serFloat, hf.wire n m x hn hx, bind, Except.bind]
  cases al with
  | true =>
    obtain ⟨s', h1, h2⟩ := addAlignedBytes_spec s _ hinv (hal rfl) (bytesLoop_WF (n / 8) (narrow n m x))
      (by rw [hlen]; omega)
    exact ⟨s', by simp [h1, lift], happ h2⟩
  | false =>
    obtain ⟨s', h1, h2⟩ := addUnalignedBytes_spec s _ hinv (bytesLoop_WF (n / 8) (narrow n m x))
      (by rw [hlen]; omega)
    exact ⟨s', by simp [h1, lift], happ h2⟩

/-! ### bulk array paths -/

/-- `serAllWith` over booleans is the list of the booleans -/
theorem serAll_bool : ∀ (vs : List Val) (bits : List Bool), vs.mapM asBool = some bits →
    serAllWith (serBits .bool) vs = .ok bits := by
  intro vs
  induction vs with
  | nil => intro bits h; simp at h; subst h; rfl
  | cons v vs ih =>
    intro bits h
    rw [List.mapM_cons] at h
    cases v with
    | bool b =>
      simp only [asBool, Option.pure_def, Option.bind_eq_bind, Option.bind_some] at h
      cases hm : vs.mapM asBool with
      | none => rw [hm] at h; simp at h
      | some r =>
        rw [hm] at h; simp at h; subst h
        simp [serAllWith, serBits, ih r hm]
    | _ => simp [asBool] at h

theorem mapM_asBool_of_inDom : ∀ (vs : List Val), (∀ v ∈ vs, inDom true .bool v = true) →
    ∃ bits, vs.mapM asBool = some bits ∧ bits.length = vs.length := by
  intro vs
  induction vs with
  | nil => intro _; exact ⟨[], rfl, rfl⟩
  | cons v vs ih =>
    intro h
    obtain ⟨bits, hb, hl⟩ := ih (fun w hw => h w (List.mem_cons_of_mem _ hw))
    have hv := h v (List.mem_cons_self)
    cases v with
    | bool b => exact ⟨b :: bits, by rw [List.mapM_cons]; simp [asBool, hb], by simp [hl]⟩
    | _ => simp [inDom] at hv

/-- `add_{aligned,unaligned}_array_of_bits` -/
theorem serBitArray_spec (al : Bool) (s : Ser) (vs : List Val) (hinv : s.Inv) (hal : al = true → s.off % 8 = 0)
    (hdom : ∀ v ∈ vs, inDom true .bool v = true) (hroom : Room s vs.length) :
    ∃ s' bits, serBitArray al s vs = .ok s' ∧ serAllWith (serBits .bool) vs = .ok bits ∧ AppL s s' bits := by
  unfold Room at hroom
  obtain ⟨bits, hb, hl⟩ := mapM_asBool_of_inDom vs hdom
  have hs := serAll_bool vs bits hb
  simp only [serBitArray, hb]
  cases al with
  | true =>
    obtain ⟨s', h1, h2⟩ := addAlignedArrayOfBits_spec s bits hinv (hal rfl) (by rw [hl]; omega)
    exact ⟨s', bits, by simp [h1, lift], hs, h2⟩
  | false =>
    obtain ⟨s', h1, h2⟩ := addUnalignedArrayOfBits_spec s bits hinv (by rw [hl]; omega)
    exact ⟨s', bits, by simp [h1, lift], hs, h2⟩

/-- `add_{aligned,unaligned}_array_of_standard_bit_length_primitives` -/
theorem serStdArray_spec (env : Env) (hnp : NpSound env) (al : Bool) (t : Ty) (s : Ser) (vs : List Val)
    (hinv : s.Inv) (hal : al = true → s.off % 8 = 0) (hstd : isStdPrim t = true) (hw : wf t = true)
    (hdom : ∀ v ∈ vs, inDom true t v = true) (hroom : Room s (vs.length * primBits t))
    (h8 : 8 * (primBits t / 8) = primBits t) :
    ∃ s' bits, serStdArray env al t s vs = .ok s' ∧ serAllWith (serBits t) vs = .ok bits ∧ AppL s s' bits := by
  unfold Room at hroom
  obtain ⟨bytes, hv, hwf, hlen, hs⟩ := hnp.view t vs hstd hw hdom
  have hl8 : 8 * bytes.length = vs.length * primBits t := by
    rw [hlen, Nat.mul_left_comm, h8]
  have happ : ∀ {s' : Ser}, Appends s s' (8 * bytes.length) (bitAt bytes) → AppL s s' (unpackBytes bytes) := by
    intro s' h
    exact AppL.of_appends h (unpackBytes_length bytes) (fun i _ => bitAt_eq_bitOf_unpack bytes hwf i)
  simp only [serStdArray, hv]
  cases al with
  | true =>
    obtain ⟨s', h1, h2⟩ := addAlignedBytes_spec s bytes hinv (hal rfl) hwf (by omega)
    exact ⟨s', _, by simp [h1, lift], hs, happ h2⟩
  | false =>
    obtain ⟨s', h1, h2⟩ := addUnalignedBytes_spec s bytes hinv hwf (by omega)
    exact ⟨s', _, by simp [h1, lift], hs, happ h2⟩

end NunavutVerif.GenPy
