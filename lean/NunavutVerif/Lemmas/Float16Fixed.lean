import NunavutVerif.Lemmas.Float16Near
/-!
The repaired packer `packRneC` in arithmetic form: the modelled addition `x + 0.5f` yields
`0x3F000000 + rne (|x|·2^149) 125` for every `|x| < 2^-14`; the integer rounding of the normal range.
-/
namespace NunavutVerif.Float16

/-! ### more about `rne` -/

theorem rne_eq (P s : Nat) : rne P s =
    if 2 ^ (s - 1) < P % 2 ^ s ∨ (P % 2 ^ s = 2 ^ (s - 1) ∧ P / 2 ^ s % 2 = 1) then P / 2 ^ s + 1 else P / 2 ^ s := by
  simp only [rne, Nat.shiftRight_eq_div_pow, cond_eq_ite, Bool.or_eq_true, Bool.and_eq_true, Nat.blt_eq, Nat.beq_eq]

/-- Adding an even multiple of `2^s` commutes with rounding. -/
theorem rne_add_mul (K P s : Nat) (hK : K % 2 = 0) : rne (K * 2 ^ s + P) s = K + rne P s := by
  have hp : 0 < 2 ^ s := Nat.two_pow_pos _
  have h1 : (K * 2 ^ s + P) % 2 ^ s = P % 2 ^ s := by
    rw [Nat.add_comm, Nat.add_mul_mod_self_right]
  have h2 : (K * 2 ^ s + P) / 2 ^ s = K + P / 2 ^ s := by
    rw [Nat.add_comm, Nat.add_mul_div_right _ _ hp, Nat.add_comm]
  have h3 : (K + P / 2 ^ s) % 2 = P / 2 ^ s % 2 := by omega
  rw [rne_eq, rne_eq, h1, h2, h3]
  split <;> omega

/-- Scaling numerator and denominator by the same power of two does not change the rounding. -/
theorem rne_scale (M s k : Nat) (hs : 1 ≤ s) : rne (M * 2 ^ k) (s + k) = rne M s := by
  have hk : 0 < 2 ^ k := Nat.two_pow_pos _
  have h1 : M * 2 ^ k / 2 ^ (s + k) = M / 2 ^ s := by
    rw [Nat.pow_add, Nat.mul_div_mul_right _ _ hk]
  have h2 : M * 2 ^ k % 2 ^ (s + k) = M % 2 ^ s * 2 ^ k := by
    rw [Nat.pow_add, Nat.mul_mod_mul_right]
  have h3 : 2 ^ (s + k - 1) = 2 ^ (s - 1) * 2 ^ k := by
    rw [← Nat.pow_add]; congr 1; omega
  rw [rne_eq, rne_eq, h1, h2, h3]
  have e1 : 2 ^ (s - 1) * 2 ^ k < M % 2 ^ s * 2 ^ k ↔ 2 ^ (s - 1) < M % 2 ^ s :=
    ⟨fun h => Nat.lt_of_mul_lt_mul_right h, fun h => Nat.mul_lt_mul_of_pos_right h hk⟩
  have e2 : M % 2 ^ s * 2 ^ k = 2 ^ (s - 1) * 2 ^ k ↔ M % 2 ^ s = 2 ^ (s - 1) :=
    ⟨fun h => Nat.eq_of_mul_eq_mul_right hk h, fun h => by rw [h]⟩
  simp only [e1, e2]

/-! ### the addition `x + 0.5f` for `x < 2^-14` -/

theorem f32add_half_eq (a : Nat) (ha : a < 947912704) : f32add a 0x3F000000 =
    (let Ml := if a / 8388608 = 0 then a else a % 8388608 + 8388608
     let d := 126 - (if a / 8388608 = 0 then 1 else a / 8388608)
     let S := 8388608 * 2 ^ d + Ml
     let r := if S < 2 ^ (24 + d) then 125 * 8388608 + rne S d else 126 * 8388608 + rne S (d + 1)
     if 2139095040 ≤ r then 2139095040 else r) := by
  have hea : a >>> 23 = a / 8388608 := by rw [Nat.shiftRight_eq_div_pow]
  simp only [f32add, ble_t (show a ≤ 1056964608 by omega), cond_true, hea,
    show (1056964608 >>> 23) = 126 from rfl, show Nat.beq 126 0 = false from rfl, cond_false,
    show 1056964608 % 8388608 + 8388608 = 8388608 from rfl, show 126 - 1 = 125 from rfl, Nat.shiftLeft_eq]
  simp only [cond_eq_ite, Nat.beq_eq, Nat.blt_eq, Nat.ble_eq]

/-- `x + 0.5f` puts `|x|` rounded to a multiple of `2^-24` (ties to even) into the low mantissa bits. -/
theorem f32add_half (a : Nat) (ha : a < 947912704) :
    f32add a 0x3F000000 = 1056964608 + rne (F32.mag a) 125 ∧ rne (F32.mag a) 125 ≤ 1024 := by
  rw [f32add_half_eq a ha, F32.mag_eq a (by omega)]
  -- name the pieces
  generalize hMl : (if a / 8388608 = 0 then a else a % 8388608 + 8388608) = Ml
  generalize hEl : (if a / 8388608 = 0 then 1 else a / 8388608) = El
  have hMl2 : Ml < 16777216 := by rw [← hMl]; split <;> omega
  have hEl1 : 1 ≤ El := by rw [← hEl]; split <;> omega
  have hdiv : a / 8388608 < 113 := (Nat.div_lt_iff_lt_mul (by decide)).2 (by omega)
  have hEl2 : El ≤ 112 := by rw [← hEl]; split <;> omega
  have hmag : (if a / 8388608 = 0 then a % 8388608 else (8388608 + a % 8388608) * 2 ^ (a / 8388608 - 1))
      = Ml * 2 ^ (El - 1) := by
    rw [← hMl, ← hEl]
    by_cases h0 : a / 8388608 = 0
    · rw [if_pos h0, if_pos h0, if_pos h0]
      have : a % 8388608 = a := Nat.mod_eq_of_lt (by omega)
      rw [this]; simp
    · rw [if_neg h0, if_neg h0, if_neg h0, Nat.add_comm]
  rw [hmag]
  have hd : 126 - El = (125 - (El - 1)) := by omega
  have hsc : rne (Ml * 2 ^ (El - 1)) 125 = rne Ml (126 - El) := by
    have := rne_scale Ml (126 - El) (El - 1) (by omega)
    rw [show 126 - El + (El - 1) = 125 from by omega] at this
    exact this
  rw [hsc]
  generalize hdd : 126 - El = d
  have hd1 : 14 ≤ d := by omega
  have hpow : 16384 ≤ 2 ^ d := by
    have := Nat.pow_le_pow_right (show 0 < 2 by omega) hd1
    rw [show (2:Nat) ^ 14 = 16384 from by decide] at this
    exact this
  have hS : 8388608 * 2 ^ d + Ml < 2 ^ (24 + d) := by
    rw [Nat.pow_add, show (2:Nat) ^ 24 = 16777216 from by decide]
    generalize 2 ^ d = D at hpow ⊢
    omega
  have hr := rne_add_mul 8388608 Ml d (by decide)
  have hle := rne_le Ml d
  have hq : Ml / 2 ^ d ≤ 1023 := by
    have : Ml / 2 ^ d ≤ Ml / 16384 := Nat.div_le_div_left hpow (by omega)
    omega
  simp only []
  rw [if_pos hS, hr, if_neg (by omega)]
  constructor <;> omega

/-! ### `packRneC` in arithmetic form -/

/-- `packRneC` on the magnitude `a = x % 2^31`. -/
def packMag2 (a : Nat) : Nat :=
  if 1199570944 ≤ a then (if 2139095040 < a then 0x7E00 else 0x7C00)
  else if a < 947912704 then rne (F32.mag a) 125
  else (a - 939524096 + 4095 + a / 8192 % 2) / 8192

theorem packMag2_lt (a : Nat) : packMag2 a < 32768 := by
  unfold packMag2
  by_cases h1 : 1199570944 ≤ a
  · rw [if_pos h1]; split <;> omega
  · rw [if_neg h1]
    by_cases h2 : a < 947912704
    · rw [if_pos h2]; have := (f32add_half a h2).2; omega
    · rw [if_neg h2]; omega

theorem packRneC_core (a s : Nat) (ha : a < 2147483648) (hs : a < 947912704 → ∃ r, s = 1056964608 + r ∧ r ≤ 1024 ∧ r = rne (F32.mag a) 125) :
    (if 1199570944 ≤ a then (if 2139095040 < a then 32256 else 31744)
     else if a < 947912704 then (s + 4294967296 - 1056964608) % 4294967296 % 65536
     else ((a + 4294967296 - 939524096) % 4294967296 + (4095 + a / 2 ^ 13 % 2)) % 4294967296 / 2 ^ 13 % 65536)
    = packMag2 a := by
  unfold packMag2
  rw [show (2:Nat) ^ 13 = 8192 from by decide]
  by_cases h1 : 1199570944 ≤ a
  · rw [if_pos h1, if_pos h1]
  · rw [if_neg h1, if_neg h1]
    by_cases h2 : a < 947912704
    · rw [if_pos h2, if_pos h2]
      obtain ⟨r, e1, e2, e3⟩ := hs h2
      rw [← e3, e1]; omega
    · rw [if_neg h2, if_neg h2]
      clear hs
      omega

theorem packRneC_eq (x : Nat) (hx : x < 4294967296) :
    packRneC x = packMag2 (x % 2147483648) + x / 2147483648 * 32768 := by
  have ha' : x % 2147483648 < 2147483648 := by omega
  have hsg : x / 2147483648 * 2147483648 / 2 ^ 16 % 65536 = x / 2147483648 * 32768 := by
    rw [show (2:Nat)^16 = 65536 from by decide]; omega
  have hs : x % 2147483648 < 947912704 → ∃ r, f32add (x % 2147483648) 0x3F000000 = 1056964608 + r ∧ r ≤ 1024 ∧
      r = rne (F32.mag (x % 2147483648)) 125 := by
    intro h; have := f32add_half _ h
    exact ⟨_, this.1, this.2, rfl⟩
  simp only [packRneC, and_sign x hx, xor_sign x, hsg, cond_eq_ite, Nat.ble_eq,
    Nat.blt_eq, Nat.shiftRight_eq_div_pow, Nat.and_one_is_mod]
  rw [packRneC_core _ _ ha' hs, or_sign _ _ (packMag2_lt _)]

/-! ### the subnormal range: `rne · 125` with literal powers -/

theorem rne125_eq (P : Nat) : rne P 125 =
    if 21267647932558653966460912964485513216 < P % 42535295865117307932921825928971026432 ∨
       (P % 42535295865117307932921825928971026432 = 21267647932558653966460912964485513216 ∧
        P / 42535295865117307932921825928971026432 % 2 = 1)
    then P / 42535295865117307932921825928971026432 + 1 else P / 42535295865117307932921825928971026432 := by
  rw [rne_eq, show 125 - 1 = 124 from rfl, show (2:Nat) ^ 125 = 42535295865117307932921825928971026432 from by decide,
    show (2:Nat) ^ 124 = 21267647932558653966460912964485513216 from by decide]

theorem rne125_mono (P Q : Nat) (h : P ≤ Q) : rne P 125 ≤ rne Q 125 := by
  rw [rne125_eq, rne125_eq]
  split <;> split <;> omega

theorem F16.mag_small (p : Nat) (hp : p < 2048) : F16.mag p = p * 42535295865117307932921825928971026432 := by
  rw [F16.mag_eq p (by omega), show (2:Nat) ^ 125 = 42535295865117307932921825928971026432 from by decide]
  by_cases h : p / 1024 = 0
  · rw [if_pos h, Nat.mod_eq_of_lt (by omega)]
  · have h1 : p / 1024 = 1 := by omega
    rw [if_neg h, h1]
    have : 1024 + p % 1024 = p := by omega
    rw [this]; simp

theorem bracketEven_sub (a : Nat) (ha : a < 947912704) : BracketEven a (rne (F32.mag a) 125) := by
  have hb := (f32add_half a ha).2
  generalize hP : F32.mag a = P at hb ⊢
  generalize hr : rne P 125 = r at hb ⊢
  have hr' := hr
  rw [rne125_eq] at hr'
  unfold BracketEven Bracket
  rw [F16.mag_small (r - 1) (by omega), F16.mag_small r (by omega), F16.mag_small (r + 1) (by omega), hP]
  clear hP ha hr
  split at hr' <;> omega

/-! ### the laws of `packMag2` -/

theorem packMag2_sub (a : Nat) (h : a < 947912704) : packMag2 a = rne (F32.mag a) 125 := by
  unfold packMag2; rw [if_neg (by omega), if_pos h]

theorem packMag2_norm (a : Nat) (h1 : 947912704 ≤ a) (h2 : a < 1199570944) :
    packMag2 a = (a - 939524096 + 4095 + a / 8192 % 2) / 8192 := by
  unfold packMag2; rw [if_neg (by omega), if_neg (by omega)]

theorem packMag2_top (a : Nat) (h1 : 1199570944 ≤ a) (h2 : a ≤ 2139095040) : packMag2 a = 31744 := by
  unfold packMag2; rw [if_pos h1, if_neg (by omega)]

theorem norm_formula (a : Nat) (h1 : 947912704 ≤ a) :
    (a - 939524096 + 4095 + a / 8192 % 2) / 8192 = a / 8192 - 114688 + (a % 8192 + 4095 + a / 8192 % 2) / 8192 := by
  omega

theorem round_small (q l : Nat) (hl : l < 8192) :
    (l + 4095 + q % 2) / 8192 ≤ 1 ∧ (l + 4095 + q % 2) / 8192 * 8192 ≤ l + 4096 ∧
    l ≤ (l + 4095 + q % 2) / 8192 * 8192 + 4096 ∧
    ((q + (l + 4095 + q % 2) / 8192) % 2 = 1 →
      (l + 4095 + q % 2) / 8192 * 8192 < l + 4096 ∧ l < (l + 4095 + q % 2) / 8192 * 8192 + 4096) := by
  omega

theorem packMag2_bracket (a : Nat) (ha : a < 1199566848) : packMag2 a < 31744 ∧ BracketEven a (packMag2 a) := by
  by_cases h1 : a < 947912704
  · rw [packMag2_sub a h1]
    have := (f32add_half a h1).2
    exact ⟨by omega, bracketEven_sub a h1⟩
  · rw [packMag2_norm a (by omega) (by omega), norm_formula a (by omega)]
    have hq : a = 8192 * (a / 8192) + a % 8192 := (Nat.div_add_mod a 8192).symm
    have hl : a % 8192 < 8192 := Nat.mod_lt _ (by decide)
    generalize a / 8192 = q at hq ⊢
    generalize a % 8192 = l at hq hl ⊢
    subst hq
    have hq1 : 115712 ≤ q := by omega
    have hq2 : q < 146431 ∨ (q = 146431 ∧ l < 4096) := by omega
    clear h1 ha
    have sm := round_small q l hl
    generalize (l + 4095 + q % 2) / 8192 = c at sm ⊢
    generalize hr : q - 114688 + c = r
    have hrq : r + 114688 = q + c := by omega
    have hr1 : 1024 ≤ r := by omega
    have hr2 : r < 31744 := by omega
    have hpar : r % 2 = (q + c) % 2 := by omega
    have c1 : (r + 114688) * 8192 ≤ 8192 * q + l + 4096 := by rw [hrq]; omega
    have c2 : 8192 * q + l ≤ (r + 114688) * 8192 + 4096 := by rw [hrq]; omega
    have c3 : r % 2 = 1 → (r + 114688) * 8192 < 8192 * q + l + 4096 ∧ 8192 * q + l < (r + 114688) * 8192 + 4096 := by
      intro ho; rw [hrq]; have := sm.2.2.2 (by omega)
      clear sm hr hrq hpar c1 c2 hq1 hq2 hr1 hr2 ho; constructor <;> omega
    have hA : 947912704 ≤ 8192 * q + l := by clear sm hr hrq hpar c1 c2 c3 hq2 hr1 hr2; omega
    exact ⟨hr2, bracket_close _ r hA hr1 hr2 c1 c2 c3⟩

theorem packMag2_overflow (a : Nat) (ha : a < 2139095040) : packMag2 a = 31744 ↔ 1199566848 ≤ a := by
  by_cases h1 : a < 947912704
  · rw [packMag2_sub a h1]
    have := (f32add_half a h1).2
    constructor <;> intro h <;> omega
  · by_cases h2 : a < 1199570944
    · rw [packMag2_norm a (by omega) h2]
      constructor <;> intro h <;> omega
    · rw [packMag2_top a (by omega) (by omega)]
      constructor <;> intro h <;> omega

theorem packMag2_mono (a b : Nat) (hab : a ≤ b) (hb : b ≤ 2139095040) : packMag2 a ≤ packMag2 b := by
  by_cases hb1 : b < 947912704
  · rw [packMag2_sub a (by omega), packMag2_sub b hb1]
    exact rne125_mono _ _ (F32.mag_mono a b hab (by omega))
  · by_cases hb2 : b < 1199570944
    · rw [packMag2_norm b (by omega) hb2]
      by_cases ha1 : a < 947912704
      · rw [packMag2_sub a ha1]
        have := (f32add_half a ha1).2
        omega
      · rw [packMag2_norm a (by omega) (by omega), norm_formula a (by omega), norm_formula b (by omega)]
        by_cases hq : a / 8192 = b / 8192
        · rw [hq]; omega
        · have : a / 8192 < b / 8192 := by omega
          omega
    · rw [packMag2_top b (by omega) hb]
      have := packMag2_lt a
      by_cases ha1 : a < 947912704
      · rw [packMag2_sub a ha1]
        have := (f32add_half a ha1).2
        omega
      · by_cases ha2 : a < 1199570944
        · rw [packMag2_norm a (by omega) ha2]; omega
        · rw [packMag2_top a (by omega) (by omega)]; omega

theorem packMag2_nan (a : Nat) (ha : a < 2147483648) : 31744 < packMag2 a ↔ 2139095040 < a := by
  by_cases h1 : a < 947912704
  · rw [packMag2_sub a h1]
    have := (f32add_half a h1).2
    constructor <;> intro h <;> omega
  · by_cases h2 : a < 1199570944
    · rw [packMag2_norm a (by omega) h2]
      constructor <;> intro h <;> omega
    · unfold packMag2
      rw [if_pos (by omega)]
      by_cases h3 : 2139095040 < a
      · rw [if_pos h3]; constructor <;> intro h <;> omega
      · rw [if_neg h3]; constructor <;> intro h <;> omega

theorem packMag2_inf : packMag2 2139095040 = 31744 := packMag2_top _ (by omega) (by omega)

theorem packMag2_zero : packMag2 0 = 0 := by
  rw [packMag2_sub 0 (by omega)]; decide
end NunavutVerif.Float16
