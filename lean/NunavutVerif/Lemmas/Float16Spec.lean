import NunavutVerif.Model.Float16
/-!
Facts about the specification-level value functions `F32.mag` / `F16.mag` (exact magnitudes in units of
`2^-149`): strictly increasing in the bit pattern, linear inside a binade, and the embedding of the normal
binary16 numbers into binary32 (`h ↦ (h + 112·1024)·8192` on patterns preserves the value).
-/
namespace NunavutVerif.Float16

theorem F32.mag_eq (a : Nat) (h : a < 2147483648) :
    F32.mag a = if a / 8388608 = 0 then a % 8388608 else (8388608 + a % 8388608) * 2 ^ (a / 8388608 - 1) := by
  simp only [F32.mag, Nat.mod_eq_of_lt h, cond_eq_ite, Nat.beq_eq]

theorem F16.mag_eq (p : Nat) (h : p < 32768) :
    F16.mag p = (if p / 1024 = 0 then p % 1024 else (1024 + p % 1024) * 2 ^ (p / 1024 - 1)) * 2 ^ 125 := by
  simp only [F16.mag, Nat.mod_eq_of_lt h, cond_eq_ite, Nat.beq_eq]

theorem two_pow_pred (e : Nat) (he : 1 ≤ e) : 2 ^ e = 2 * 2 ^ (e - 1) := by
  have : e = (e - 1) + 1 := by omega
  rw [this, Nat.pow_succ, Nat.mul_comm]; simp

/-- Inside the binade with exponent field `e ≥ 1` (top end included) the value is linear in the pattern. -/
theorem F32.mag_lin (a e : Nat) (he : 1 ≤ e) (h1 : e * 8388608 ≤ a) (h2 : a ≤ (e + 1) * 8388608)
    (h : a < 2147483648) : F32.mag a = (a - (e - 1) * 8388608) * 2 ^ (e - 1) := by
  rw [F32.mag_eq a h]
  by_cases htop : a = (e + 1) * 8388608
  · have q1 : a / 8388608 = e + 1 := by omega
    have q2 : a % 8388608 = 0 := by omega
    rw [if_neg (by omega), q1, q2]
    have : a - (e - 1) * 8388608 = 16777216 := by omega
    rw [this, show e + 1 - 1 = e from by omega, two_pow_pred e he]
    omega
  · have q1 : a / 8388608 = e := by omega
    rw [if_neg (by omega), q1]
    congr 1
    omega

theorem F32.mag_step (a : Nat) (h : a + 1 < 2147483648) : F32.mag a < F32.mag (a + 1) := by
  by_cases h0 : a / 8388608 = 0
  · by_cases h1 : a + 1 < 8388608
    · rw [F32.mag_eq a (by omega), F32.mag_eq (a + 1) h, if_pos h0, if_pos (by omega)]; omega
    · rw [F32.mag_eq a (by omega), F32.mag_eq (a + 1) h, if_pos h0, if_neg (by omega)]
      have q1 : (a + 1) / 8388608 = 1 := by omega
      rw [q1]; simp; omega
  · have he : 1 ≤ a / 8388608 := by omega
    rw [F32.mag_lin a (a / 8388608) he (by omega) (by omega) (by omega),
      F32.mag_lin (a + 1) (a / 8388608) he (by omega) (by omega) h]
    exact Nat.mul_lt_mul_of_pos_right (by omega) (Nat.two_pow_pos _)

theorem F32.mag_strict (a b : Nat) (hab : a < b) (hb : b < 2147483648) : F32.mag a < F32.mag b := by
  induction b with
  | zero => omega
  | succ n ih =>
    by_cases h : a = n
    · subst h; exact F32.mag_step a hb
    · exact Nat.lt_trans (ih (by omega) (by omega)) (F32.mag_step n hb)

theorem F32.mag_mono (a b : Nat) (hab : a ≤ b) (hb : b < 2147483648) : F32.mag a ≤ F32.mag b := by
  by_cases h : a = b
  · subst h; exact Nat.le_refl _
  · exact Nat.le_of_lt (F32.mag_strict a b (by omega) hb)

/-- Value order reflects into pattern order. -/
theorem F32.le_of_mag_le (a b : Nat) (ha : a < 2147483648)
    (h : F32.mag a ≤ F32.mag b) : a ≤ b := by
  by_cases hab : a ≤ b
  · exact hab
  · have := F32.mag_strict b a (by omega) ha
    omega

/-- The normal binary16 pattern `p` and the binary32 pattern `(p + 112·1024)·8192` denote the same number
(also for the infinity pattern under the `2^(emax+1)` convention). -/
theorem embed (p : Nat) (h1 : 1024 ≤ p) (h2 : p < 32768) :
    F32.mag ((p + 114688) * 8192) = F16.mag p := by
  rw [F32.mag_eq _ (by omega), F16.mag_eq p h2]
  have q1 : (p + 114688) * 8192 / 8388608 = p / 1024 + 112 := by omega
  have q2 : (p + 114688) * 8192 % 8388608 = p % 1024 * 8192 := by omega
  rw [if_neg (by omega), if_neg (by omega), q1, q2]
  have q0 : 1 ≤ p / 1024 := by omega
  have q3 : p / 1024 + 112 - 1 = (p / 1024 - 1) + 112 := by omega
  rw [q3, Nat.pow_add]
  generalize 2 ^ (p / 1024 - 1) = K
  generalize p % 1024 = m
  have e1 : 8388608 + m * 8192 = (1024 + m) * 8192 := by omega
  have e2 : (2:Nat) ^ 125 = 8192 * 2 ^ 112 := by decide
  rw [e1, e2, Nat.mul_assoc, Nat.mul_assoc, Nat.mul_left_comm 8192 K]
end NunavutVerif.Float16
