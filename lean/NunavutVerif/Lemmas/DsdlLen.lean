import NunavutVerif.Lemmas.DsdlBits
/-!
Length laws of the DSDL specification model: serialized length between `minBits` and `maxBits`, a multiple
of the alignment; `maxBits ≤ extent`; bounds of composites are multiples of 8.
-/
namespace NunavutVerif.Dsdl

theorem map_eq_ok {ε α β : Type} {f : α → β} {x : Except ε α} {y : β} :
    x.map f = .ok y ↔ ∃ a, x = .ok a ∧ f a = y := by
  cases x <;> simp [Except.map]

theorem map_eq_error {ε α β : Type} {f : α → β} {x : Except ε α} {e : ε} :
    x.map f = .error e ↔ x = .error e := by
  cases x <;> simp [Except.map]

theorem wfAll_mem {fs : List Ty} (h : wfAll fs = true) : ∀ f ∈ fs, wf f = true := by
  induction fs with
  | nil => intro f hf; cases hf
  | cons g gs ih =>
    simp only [wfAll, Bool.and_eq_true] at h
    intro f hf
    cases hf with
    | head => exact h.1
    | tail _ h' => exact ih h.2 f h'

/-- The claim proved by induction over the type. -/
def LenOK (t : Ty) : Prop :=
  wf t = true → ∀ v bs, serBits t v = .ok bs →
    minBits t ≤ bs.length ∧ bs.length ≤ maxBits t ∧ bs.length % align t = 0

theorem serAll_len {t : Ty} {A B : Nat}
    (h : ∀ v bs, serBits t v = .ok bs → A ≤ bs.length ∧ bs.length ≤ B ∧ bs.length % align t = 0) :
    ∀ vs bs, serAllWith (serBits t) vs = .ok bs →
      vs.length * A ≤ bs.length ∧ bs.length ≤ vs.length * B ∧ bs.length % align t = 0 := by
  intro vs
  induction vs with
  | nil => intro bs hs; simp [serAllWith] at hs; subst hs; simp
  | cons v vs ih =>
    intro bs hs
    simp only [serAllWith] at hs
    split at hs
    · cases hs
    · rename_i a ha
      split at hs
      · cases hs
      · rename_i b hb
        cases hs
        have h1 := h v a ha
        have h2 := ih b hb
        simp only [List.length_append, List.length_cons, Nat.succ_mul]
        rcases align_cases t with hal | hal <;> rw [hal] at h1 h2 ⊢ <;> omega

theorem maxFields_mono (fs : List Ty) {x y : Nat} (h : x ≤ y) : maxFields fs x ≤ maxFields fs y := by
  induction fs generalizing x y with
  | nil => simpa [maxFields]
  | cons f fs ih =>
    simp only [maxFields]
    apply ih
    have := padTo_mono (align_cases f) h
    omega

theorem minFields_mono (fs : List Ty) {x y : Nat} (h : x ≤ y) : minFields fs x ≤ minFields fs y := by
  induction fs generalizing x y with
  | nil => simpa [minFields]
  | cons f fs ih =>
    simp only [minFields]
    apply ih
    have := padTo_mono (align_cases f) h
    omega

theorem serFields_len {fs : List Ty} (ih : ∀ f ∈ fs, LenOK f) (hw : wfAll fs = true) :
    ∀ vs off bs, serFields fs vs off = .ok bs →
      minFields fs off ≤ off + bs.length ∧ off + bs.length ≤ maxFields fs off := by
  induction fs with
  | nil =>
    intro vs off bs hs
    cases vs <;> simp [serFields] at hs
    subst hs; simp [minFields, maxFields]
  | cons f fs ihf =>
    intro vs off bs hs
    simp only [wfAll, Bool.and_eq_true] at hw
    cases vs with
    | nil => simp [serFields] at hs
    | cons v vs =>
      simp only [serFields] at hs
      split at hs
      · cases hs
      · rename_i a ha
        split at hs
        · cases hs
        · rename_i b hb
          cases hs
          have h1 := ih f (List.mem_cons_self ..) hw.1 v a ha
          have h2 := ihf (fun g hg => ih g (List.mem_cons_of_mem _ hg)) hw.2 vs _ b hb
          simp only [minFields, maxFields, List.length_append, zeros_length]
          have hmx := maxFields_mono fs (x := padTo (align f) off + a.length)
            (y := padTo (align f) off + maxBits f) (by omega)
          have hmn := minFields_mono fs (x := padTo (align f) off + minBits f)
            (y := padTo (align f) off + a.length) (by omega)
          simp only [padTo] at *
          omega

theorem serNth_len {fs : List Ty} (ih : ∀ f ∈ fs, LenOK f) (hw : wfAll fs = true) :
    ∀ k v bs, serNth fs k v = .ok bs → minOpts fs ≤ bs.length ∧ bs.length ≤ maxOpts fs := by
  induction fs with
  | nil => intro k v bs hs; simp [serNth] at hs
  | cons f fs ihf =>
    intro k v bs hs
    simp only [wfAll, Bool.and_eq_true] at hw
    cases k with
    | zero =>
      simp only [serNth] at hs
      have h1 := ih f (List.mem_cons_self ..) hw.1 v bs hs
      simp only [minOpts, maxOpts]
      split <;> omega
    | succ k =>
      simp only [serNth] at hs
      have h2 := ihf (fun g hg => ih g (List.mem_cons_of_mem _ hg)) hw.2 k v bs hs
      simp only [minOpts, maxOpts]
      split
      · rename_i he
        cases fs with
        | nil => simp [serNth] at hs
        | cons => simp at he
      · omega

theorem align_of_isComposite {t : Ty} (h : isComposite t = true) : align t = 8 := by
  cases t <;> simp_all [isComposite, align]

theorem lenOK (t : Ty) : LenOK t := by
  refine Ty.ind (P := LenOK) ?_ ?_ ?_ ?_ ?_ ?_ ?_ ?_ ?_ ?_ t
  · intro n m _ v bs h
    cases v <;> simp [serBits] at h
    subst h; simp [minBits, maxBits, align] <;> omega
  · intro n m _ v bs h
    cases v <;> simp [serBits] at h
    subst h; simp [minBits, maxBits, align] <;> omega
  · intro n m _ v bs h
    cases v <;> simp [serBits] at h
    subst h; simp [minBits, maxBits, align] <;> omega
  · intro _ v bs h
    cases v <;> simp [serBits] at h
    subst h; simp [minBits, maxBits, align] <;> omega
  · intro n _ v bs h
    cases v <;> simp [serBits] at h
    subst h; simp [minBits, maxBits, align] <;> omega
  · intro t n ih hw v bs h
    simp only [wf] at hw
    cases v with
    | arr vs =>
      simp only [serBits] at h
      split at h
      · rename_i hn
        have := serAll_len (ih hw) _ bs h
        simp only [minBits, maxBits, align]; subst hn; exact this
      · cases h
    | _ => simp [serBits] at h
  · intro t cap ih hw v bs h
    simp only [wf, Bool.and_eq_true] at hw
    cases v with
    | arr vs =>
      simp only [serBits] at h
      split at h
      · cases h
      · rename_i hn
        rw [map_eq_ok] at h
        obtain ⟨b, hb, rfl⟩ := h
        have h1 := serAll_len (ih hw.2) _ b hb
        have h2 := stdWidth_mod8 cap
        have h3 : vs.length * maxBits t ≤ cap * maxBits t := Nat.mul_le_mul_right _ (by omega)
        simp only [minBits, maxBits, align, List.length_append, natToBits_length, prefixBits]
        rcases align_cases t with hal | hal <;> rw [hal] at h1 ⊢ <;> omega
    | _ => simp [serBits] at h
  · intro fs ih hw v bs h
    simp only [wf] at hw
    cases v with
    | struct vs =>
      simp only [serBits] at h
      rw [map_eq_ok] at h
      obtain ⟨b, hb, rfl⟩ := h
      have h1 := serFields_len ih hw _ 0 b hb
      simp only [minBits, maxBits, align, List.length_append, zeros_length]
      have hmx := padTo_mono (Or.inr rfl : (8:Nat) = 1 ∨ 8 = 8) h1.2
      have hmn := padTo_mono (Or.inr rfl : (8:Nat) = 1 ∨ 8 = 8) h1.1
      simp only [padTo, padLen] at *
      omega
    | _ => simp [serBits] at h
  · intro fs ih hw v bs h
    simp only [wf, Bool.and_eq_true] at hw
    cases v with
    | union k v =>
      simp only [serBits] at h
      split at h
      · cases h
      · rw [map_eq_ok] at h
        obtain ⟨b, hb, rfl⟩ := h
        have h1 := serNth_len ih hw.2 _ _ b hb
        simp only [minBits, maxBits, align, List.length_append, zeros_length, natToBits_length]
        have hmx := padTo_mono (Or.inr rfl : (8:Nat) = 1 ∨ 8 = 8)
          (x := tagBits fs.length + b.length) (y := tagBits fs.length + maxOpts fs) (by omega)
        have hmn := padTo_mono (Or.inr rfl : (8:Nat) = 1 ∨ 8 = 8)
          (x := tagBits fs.length + minOpts fs) (y := tagBits fs.length + b.length) (by omega)
        simp only [padTo, padLen] at *
        omega
    | _ => simp [serBits] at h
  · intro e t ih hw v bs h
    simp only [wf, Bool.and_eq_true, decide_eq_true_eq] at hw
    obtain ⟨⟨hc, he8, hmax, _⟩, hwt⟩ := hw
    simp only [serBits] at h
    rw [map_eq_ok] at h
    obtain ⟨b, hb, rfl⟩ := h
    have h1 := ih hwt v b hb
    rw [align_of_isComposite hc] at h1
    simp only [minBits, maxBits, align, List.length_append, natToBits_length, headerBits]
    omega

end NunavutVerif.Dsdl
