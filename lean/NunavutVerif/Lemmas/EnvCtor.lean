import NunavutVerif.Lemmas.Resolve
import NunavutVerif.Model.EnvCtor
/-!
Helper lemmas for the constructor state machine (C16, round 2): over the statement list the hand-written `construct`
describes, the state machine succeeds exactly when `construct` does, with the same environment, and ends with the flag
equal to the constructor argument.  Core Lean only.
-/
namespace NunavutVerif.Resolve
open Gen.EnvCtor (AllowExpr Step)

theorem addPost_append (allow : Bool) : ∀ (a b : List (Kind × Name × Owner)) (e : Env),
    addPost allow e (a ++ b) = match addPost allow e a with
      | .ok e' => addPost allow e' b
      | .error x => .error x
  | [], b, e => by simp [addPost]
  | (.filter, n, v) :: a, b, e => by
    simp only [List.cons_append, addPost]
    cases addToEnv allow e.filters n v with
    | ok f => simp only [addPost_append allow a b]
    | error x => rfl
  | (.test, n, v) :: a, b, e => by
    simp only [List.cons_append, addPost]
    cases addToEnv allow e.tests n v with
    | ok f => simp only [addPost_append allow a b]
    | error x => rfl

/-- The statement list the hand-written `construct` describes (`CodeGenEnvironment.__init__`). -/
def canonCtorSteps : List Step :=
  [.jinjaDefaults, .setAllow .ctorArg, .userGlobals true true, .reservedNamespaces, .assignGlobal nowUtc,
   .langGlobals true, .langSupport, .nunavutNamespace, .ownMethods, .userFilters, .userTests]

/-- … and `DSDLCodeGenerator.__init__` after `create()`. -/
def canonDsdlSteps : List Step := [.instanceTests, .generatorMethods]

/-- A successful run as an option: the final state. -/
def okOf {ε α : Type} : Except ε α → Option α
  | .ok x => some x
  | .error _ => none

theorem okOf_eq_some {ε α : Type} {r : Except ε α} {x : α} : okOf r = some x ↔ r = .ok x := by
  cases r <;> simp [okOf]

theorem constructSM_canon_builder (hg : Gen.EnvCtor.addGuard = .ctorArg) (cfg : SMCfg) (i : CtorInputs) :
    okOf (constructSM cfg i canonCtorSteps) =
      (okOf (construct (cfg.toEnvCfg []) i.allowArg i.ug i.uf i.ut)).map fun env => ⟨some i.allowArg, env⟩ := by
  simp only [constructSM, canonCtorSteps, runSteps, runStep, smInit, evalAllow, withFlag, guardOf, hg, if_true,
    construct, constructRest, SMCfg.toEnvCfg, addAll_append, addPost, builtinGlobals]
  cases addGlobals (cfg.reservedNs ++ cfg.reservedNames) i.allowArg cfg.jinjaGlobals i.ug with
  | error e => simp [okOf]
  | ok g =>
    simp only
    cases addAll i.allowArg cfg.jinjaFilters cfg.langFilters with
    | error e => simp [okOf]
    | ok f1 =>
      simp only
      cases addAll i.allowArg cfg.jinjaTests cfg.langTests with
      | error e => simp <;> (cases addAll i.allowArg f1 cfg.ownFilters <;> simp [okOf])
      | ok t1 =>
        simp only
        cases addAll i.allowArg f1 cfg.ownFilters with
        | error e => simp [okOf]
        | ok f2 =>
          simp only
          cases addAll i.allowArg t1 cfg.ownTests with
          | error e => simp [okOf]
          | ok t2 =>
            simp only
            cases addAll i.allowArg f2 (conv i.uf) with
            | error e => simp [okOf]
            | ok f3 =>
              simp only
              cases addAll i.allowArg t2 (conv i.ut) with
              | error e => simp [okOf]
              | ok t3 => simp [okOf]

theorem constructSM_canon_generator (hg : Gen.EnvCtor.addGuard = .ctorArg) (cfg : SMCfg) (i : CtorInputs) :
    okOf (constructSM cfg i (canonCtorSteps ++ canonDsdlSteps)) =
      (okOf (construct (cfg.toEnvCfg (cfg.instanceTests ++ cfg.generatorMethods)) i.allowArg i.ug i.uf i.ut)).map
        fun env => ⟨some i.allowArg, env⟩ := by
  simp only [constructSM, canonCtorSteps, canonDsdlSteps, List.cons_append, List.nil_append, runSteps, runStep, smInit,
    evalAllow, withFlag, guardOf, hg, if_true, construct, constructRest, SMCfg.toEnvCfg, addAll_append, addPost_append, builtinGlobals]
  cases addGlobals (cfg.reservedNs ++ cfg.reservedNames) i.allowArg cfg.jinjaGlobals i.ug with
  | error e => simp [okOf]
  | ok g =>
    simp only
    cases addAll i.allowArg cfg.jinjaFilters cfg.langFilters with
    | error e => simp [okOf]
    | ok f1 =>
      simp only
      cases addAll i.allowArg cfg.jinjaTests cfg.langTests with
      | error e => simp <;> (cases addAll i.allowArg f1 cfg.ownFilters <;> simp [okOf])
      | ok t1 =>
        simp only
        cases addAll i.allowArg f1 cfg.ownFilters with
        | error e => simp [okOf]
        | ok f2 =>
          simp only
          cases addAll i.allowArg t1 cfg.ownTests with
          | error e => simp [okOf]
          | ok t2 =>
            simp only
            cases addAll i.allowArg f2 (conv i.uf) with
            | error e => simp [okOf]
            | ok f3 =>
              simp only
              cases addAll i.allowArg t2 (conv i.ut) with
              | error e => simp [okOf]
              | ok t3 =>
                simp only
                cases addPost i.allowArg ⟨f3, t3, setAll (cset (setAll g (cfg.reservedNs.map fun n => (n, Owner.reserved))) nowUtc .reserved) cfg.langGlobals⟩ cfg.instanceTests with
                | error e => simp [okOf]
                | ok e1 =>
                  simp only
                  cases addPost i.allowArg e1 cfg.generatorMethods with
                  | error e => simp [okOf]
                  | ok e2 => simp [okOf]

end NunavutVerif.Resolve
