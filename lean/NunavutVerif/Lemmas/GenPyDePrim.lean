import NunavutVerif.Lemmas.GenPyDeLen
import NunavutVerif.Lemmas.GenPySer
/-!
Refinement of the deserializer, stage 1: primitive fields at arbitrary offsets over the zero-extending buffer, the two
bulk array paths, the element store into a NumPy array, the setter checks on decoded values.
-/
namespace NunavutVerif.GenPy
open NunavutVerif.Dsdl
open NunavutVerif.Bits (Buf Err bitAt WF)
open NunavutVerif.Bits.Py

/-- the bits in front of the cursor (the buffer's bits; reads beyond them are zero in both worlds) -/
def bitsAt (d : De) : List Bool := (unpackBytes d.buf).drop d.off

theorem bitOf_bitsAt (d : De) (hw : WF d.buf) (i : Nat) : bitOf (bitsAt d) i = bitAt d.buf (d.off + i) := by
  unfold bitsAt; rw [bitOf_drop, bitAt_eq_bitOf_unpack _ hw]

theorem deField_eq (d : De) (hw : WF d.buf) (n : Nat) : deField d n = readNat n (bitsAt d) :=
  deField_eq_readNat d hw n

/-- `_deserialize_integer`: the zero-extended field, sign-extended for `intN` -/
theorem deInt_spec (al signed : Bool) (n : Nat) (d : De) (hw : WF d.buf) (hal : al = true → d.off % 8 = 0)
    (hn1 : 1 ≤ n) (hs : signed = true → 2 ≤ n) :
    deInt al signed n d = .ok
      (if signed then signExtend n (readNat n (bitsAt d)) else (readNat n (bitsAt d) : Int), ⟨d.buf, d.off + n⟩) := by
  have hsg : (if (deField d n).testBit (n - 1) then (deField d n : Int) - 2 ^ n else (deField d n : Int))
      = signExtend n (readNat n (bitsAt d)) := by
    rw [← signOf_eq (deField d n) n hn1 (by unfold deField; exact Bits.fieldOf_lt _ _), signOf_eq_signExtend,
      deField_eq d hw]
  simp only [deInt]
  cases hp : intPath al n with
  | alignedStd =>
    simp only [intPath] at hp
    split at hp
    · rename_i hc
      simp only [Bool.and_eq_true] at hc
      have hW := isStd_cases hc.1
      have ha := hal hc.2
      cases signed with
      | true =>
        simp only [if_true, fetchAlignedI_spec n d hW ha hw, hsg, lift]
      | false =>
        simp only [Bool.false_eq_true, if_false, fetchAlignedU_spec n d hW ha hw, asInt, lift, deField_eq d hw]
    · split at hp <;> cases hp
  | aligned =>
    simp only [intPath] at hp
    split at hp
    · cases hp
    · split at hp
      · rename_i hc
        have ha := hal hc
        cases signed with
        | true =>
          simp only [if_true, fetchAlignedSigned_spec d n hw (hs rfl) ha, hsg, lift]
        | false =>
          simp only [Bool.false_eq_true, if_false, fetchAlignedUnsigned_spec d n hw hn1 ha, asInt, lift,
            deField_eq d hw]
      · cases hp
  | unaligned =>
    cases signed with
    | true =>
      simp only [if_true, fetchUnalignedSigned_spec d n hw (hs rfl), hsg, lift]
    | false =>
      simp only [Bool.false_eq_true, if_false, fetchUnalignedUnsigned_spec d n hw hn1, asInt, lift, deField_eq d hw]

/-- `fetch_{aligned,unaligned}_f{n}` -/
theorem deFloat_spec (env : Env) (hf : FloatSound env) (al : Bool) (n : Nat) (d : De) (hw : WF d.buf)
    (hal : al = true → d.off % 8 = 0) (hn : n = 16 ∨ n = 32 ∨ n = 64) :
    deFloat env al n d = .ok (.float (widen n (readNat n (bitsAt d))), ⟨d.buf, d.off + n⟩) := by
  have h8 : 8 * (n / 8) = n := by rcases hn with rfl | rfl | rfl <;> rfl
  have key : ∀ bs : Buf, WF bs → (∀ i, bitAt bs i = (decide (i < 8 * (n / 8)) && bitAt d.buf (d.off + i))) →
      Bits.leLoad bs = readNat n (bitsAt d) := by
    intro bs hwb hb
    apply Nat.eq_of_testBit_eq
    intro i
    rw [Bits.testBit_leLoad bs i hwb, hb, testBit_readNat, bitOf_bitsAt d hw, h8]
  have hoff : d.off + n / 8 * 8 = d.off + n := by omega
  simp only [deFloat]
  cases al with
  | true =>
    obtain ⟨bs, h1, _, hwb, hb⟩ := fetchAlignedBytes_spec d (n / 8) (hal rfl)
    simp only [if_true, h1, lift, bind, Except.bind, key bs (hwb hw) hb, hoff,
      hf.unpack n _ hn (readNat_lt n _)]
  | false =>
    obtain ⟨bs, h1, _, hwb, hb⟩ := fetchUnalignedBytes_spec d (n / 8) hw
    simp only [Bool.false_eq_true, if_false, h1, lift, bind, Except.bind, key bs hwb hb, hoff,
      hf.unpack n _ hn (readNat_lt n _)]

theorem readNat_one (bs : List Bool) : (readNat 1 bs == 1) = bitOf bs 0 := by
  have h1 := readNat_lt 1 bs
  have h2 := testBit_readNat 1 bs 0
  rw [Nat.testBit_zero] at h2
  simp only [Nat.lt_add_one, decide_true, Bool.true_and] at h2
  rw [← h2]
  have : readNat 1 bs = 0 ∨ readNat 1 bs = 1 := by omega
  rcases this with h | h <;> simp [h]

theorem deBool_spec (d : De) (hw : WF d.buf) :
    deBoolVal d = .ok (.bool (readNat 1 (bitsAt d) == 1), ⟨d.buf, d.off + 1⟩) := by
  simp only [deBoolVal, fetchUnalignedBit_spec, lift, readNat_one, bitOf_bitsAt d hw, Nat.add_zero]

/-! ### arrays of bits -/

theorem deAll_bool : ∀ (c : Nat) (bs : List Bool),
    deAllWith (deBits .bool) c bs = .ok ((List.range c).map (fun i => Val.bool (bitOf bs i)), c) := by
  intro c
  induction c with
  | zero => intro bs; simp [deAllWith]
  | succ c ih =>
    intro bs
    have h1 : deBits .bool bs = .ok (.bool (bitOf bs 0), 1) := by simp [deBits, readNat_one]
    have e : List.map (fun i => Val.bool (bitOf (bs.drop 1) i)) (List.range c)
        = List.map ((fun i => Val.bool (bitOf bs i)) ∘ Nat.succ) (List.range c) :=
      List.map_congr_left (fun i _ => by simp only [Function.comp, bitOf_drop, Nat.succ_eq_add_one, Nat.add_comm])
    simp only [deAllWith]
    rw [h1]
    simp only [ih]
    rw [List.range_succ_eq_map]
    simp only [List.map_cons, List.map_map]
    rw [e, Nat.add_comm 1 c]

/-- `fetch_{aligned,unaligned}_array_of_bits(count)` -/
theorem deBitArray_spec (al : Bool) (count : Nat) (d : De) (hw : WF d.buf) (hal : al = true → d.off % 8 = 0) :
    ∃ vs, deAllWith (deBits .bool) count (bitsAt d) = .ok (vs, count) ∧
      deBitArray al count d = .ok (.arr vs, ⟨d.buf, d.off + count⟩) := by
  refine ⟨_, deAll_bool count (bitsAt d), ?_⟩
  have e : ((List.range count).map (fun i => bitAt d.buf (d.off + i))).map Val.bool
      = (List.range count).map (fun i => Val.bool (bitOf (bitsAt d) i)) := by
    rw [List.map_map]
    apply List.map_congr_left
    intro i _
    simp [bitOf_bitsAt d hw]
  simp only [deBitArray]
  cases al with
  | true => simp only [if_true, fetchAlignedArrayOfBits_spec d count (hal rfl), lift, bind, Except.bind, e]
  | false =>
    simp only [Bool.false_eq_true, if_false, fetchUnalignedArrayOfBits_spec d count hw, lift, bind, Except.bind, e]

/-! ### arrays of standard-width primitives -/

theorem deBits_stdPrim {t : Ty} (h : isStdPrim t = true) {bs bs' : List Bool}
    (hb : ∀ i, i < primBits t → bitOf bs i = bitOf bs' i) :
    deBits t bs = deBits t bs' ∧ ∃ v, deBits t bs = .ok (v, primBits t) := by
  cases t with
  | uint n m => simp only [primBits] at hb; simp [deBits, readNat_congr_bitOf hb, primBits]
  | sint n m => simp only [primBits] at hb; simp [deBits, readNat_congr_bitOf hb, primBits]
  | float n m => simp only [primBits] at hb; simp [deBits, readNat_congr_bitOf hb, primBits]
  | _ => simp [isStdPrim] at h

theorem deAll_stdPrim_congr {t : Ty} (h : isStdPrim t = true) :
    ∀ (c : Nat) (bs bs' : List Bool), (∀ i, i < c * primBits t → bitOf bs i = bitOf bs' i) →
      deAllWith (deBits t) c bs = deAllWith (deBits t) c bs' := by
  intro c
  induction c with
  | zero => intro bs bs' _; simp [deAllWith]
  | succ c ih =>
    intro bs bs' hb
    obtain ⟨e, v, hv⟩ := deBits_stdPrim h (bs := bs) (bs' := bs')
      (fun i hi => hb i (by rw [Nat.succ_mul]; omega))
    simp only [deAllWith]
    rw [← e, hv]
    simp only []
    rw [ih (bs.drop (primBits t)) (bs'.drop (primBits t)) (fun i hi => by
      rw [bitOf_drop, bitOf_drop]; exact hb _ (by rw [Nat.succ_mul]; omega))]

/-- `fetch_{aligned,unaligned}_array_of_standard_bit_length_primitives(dtype, count)` -/
theorem deStdArray_spec (env : Env) (hnp : NpSound env) (al : Bool) (t : Ty) (count : Nat) (d : De) (hw : WF d.buf)
    (hal : al = true → d.off % 8 = 0) (hstd : isStdPrim t = true) (hwt : wf t = true) :
    ∃ vs, deAllWith (deBits t) count (bitsAt d) = .ok (vs, count * primBits t) ∧
      deStdArray env al t count d = .ok (.arr vs, ⟨d.buf, d.off + count * primBits t⟩) := by
  obtain ⟨_, _, h8⟩ := stdPrim_facts hstd hwt
  have hW : 1 ≤ primBits t / 8 := by
    cases t with
    | uint n m => have := isStd_cases (show isStd n = true from hstd); simp only [primBits]; omega
    | sint n m => have := isStd_cases (show isStd n = true from hstd); simp only [primBits]; omega
    | float n m => simp only [wf, decide_eq_true_eq] at hwt; simp only [primBits]; omega
    | _ => simp [isStdPrim] at hstd
  -- any byte string holding the `count * W` zero-extended bits at the cursor decodes like the stream itself
  have key : ∀ bs : Buf, WF bs → bs.length = count * (primBits t / 8) →
      (∀ i, bitAt bs i = (decide (i < 8 * bs.length) && bitAt d.buf (d.off + i))) →
      deAllWith (deBits t) count (bitsAt d) = .ok (env.fromBuffer t bs count, count * primBits t) ∧
      (env.fromBuffer t bs count).length = count := by
    intro bs hwb hlen hb
    have hfb := hnp.frombuffer t bs count hstd hwt hwb hlen
    have hl8 : 8 * bs.length = count * primBits t := by rw [hlen, Nat.mul_left_comm, h8]
    have := deAll_stdPrim_congr hstd count (bitsAt d) (unpackBytes bs) (fun i hi => by
      rw [bitOf_bitsAt d hw, ← bitAt_eq_bitOf_unpack bs hwb, hb]
      simp [show i < 8 * bs.length by omega])
    rw [this]
    exact ⟨hfb, deAll_length _ _ _ _ hfb⟩
  simp only [deStdArray]
  cases al with
  | true =>
    have ha := hal rfl
    obtain ⟨bs, h1, h2, hwb, hb⟩ := slice_bits d.buf (d.off / 8) (d.off / 8 + count * (primBits t / 8)) (by omega)
    have hlen : bs.length = count * (primBits t / 8) := by rw [h2]; omega
    have hb' : ∀ i, bitAt bs i = (decide (i < 8 * bs.length) && bitAt d.buf (d.off + i)) := by
      intro i; rw [hb, hlen]
      have e1 : 8 * (d.off / 8) = d.off := by omega
      have e2 : d.off / 8 + count * (primBits t / 8) - d.off / 8 = count * (primBits t / 8) := by omega
      rw [e1, e2]
    obtain ⟨k1, k2⟩ := key bs (hwb hw) hlen hb'
    refine ⟨_, k1, ?_⟩
    have hoff : d.off + bs.length * 8 = d.off + count * primBits t := by
      rw [hlen, Nat.mul_assoc, Nat.mul_comm (primBits t / 8) 8, h8]
    simp only [if_true, assertAligned, ha, lift, bind, Except.bind, h1, k2, beq_self_eq_true, assertThat_true, hoff]
  | false =>
    obtain ⟨bs, h1, h2, hwb, hb⟩ := fetchUnalignedBytes_spec d (primBits t / 8 * count) hw
    have hlen : bs.length = count * (primBits t / 8) := by rw [h2, Nat.mul_comm]
    have hb' : ∀ i, bitAt bs i = (decide (i < 8 * bs.length) && bitAt d.buf (d.off + i)) := by
      intro i; rw [hb, h2]
    obtain ⟨k1, _⟩ := key bs hwb hlen hb'
    refine ⟨_, k1, ?_⟩
    have hoff : d.off + primBits t / 8 * count * 8 = d.off + count * primBits t := by
      rw [Nat.mul_comm (primBits t / 8) count, Nat.mul_assoc, Nat.mul_comm (primBits t / 8) 8, h8]
    have hge : decide (bs.length ≥ count) = true := by
      simp only [decide_eq_true_eq, hlen]
      exact Nat.le_mul_of_pos_right _ (by omega)
    simp only [Bool.false_eq_true, if_false, lift, bind, Except.bind, h1, hge, assertThat_true, hoff]

/-! ### decoded values fit the NumPy array and pass the setters -/

theorem npStore_of_deBits {t : Ty} (hw : wf t = true) {bs : List Bool} {v : Val} {n : Nat}
    (h : deBits t bs = .ok (v, n)) : npStore t v = .ok v := by
  cases t with
  | uint k m =>
    simp only [wf, decide_eq_true_eq] at hw
    simp only [deBits, Except.ok.injEq, Prod.mk.injEq] at h
    obtain ⟨rfl, _⟩ := h
    have h1 := readNat_lt k bs
    have h2 := pow_storage_le k hw.2
    have e : ((2 ^ k : Nat) : Int) = (2 : Int) ^ k := by simp
    simp only [npStore]
    rw [if_pos ⟨by omega, by omega⟩]
  | sint k m =>
    simp only [wf, decide_eq_true_eq] at hw
    simp only [deBits, Except.ok.injEq, Prod.mk.injEq] at h
    obtain ⟨rfl, _⟩ := h
    have hr := signExtend_range hw.1 (readNat_lt k bs)
    have hs := storageBits_ge k hw.2
    have hp : (2 : Int) ^ (k - 1) ≤ (2 : Int) ^ (storageBits k - 1) := by
      have := Nat.pow_le_pow_right (show 0 < 2 by decide) (show k - 1 ≤ storageBits k - 1 by omega)
      have e1 : ((2 ^ (k - 1) : Nat) : Int) = (2 : Int) ^ (k - 1) := by simp
      have e2 : ((2 ^ (storageBits k - 1) : Nat) : Int) = (2 : Int) ^ (storageBits k - 1) := by simp
      omega
    simp only [npStore]
    rw [if_pos ⟨by omega, by omega⟩]
  | _ => rfl

theorem ctorOK_of_deBits (env : Env) (hf : FloatSound env) {t : Ty} (hw : wf t = true) {bs : List Bool} {v : Val}
    {n : Nat} (h : deBits t bs = .ok (v, n)) : ctorOK env t v = true := by
  cases t with
  | uint k m =>
    simp only [deBits, Except.ok.injEq, Prod.mk.injEq] at h
    obtain ⟨rfl, _⟩ := h
    have h1 := readNat_lt k bs
    have e : ((2 ^ k : Nat) : Int) = (2 : Int) ^ k := by simp
    simp only [ctorOK, PyObj.intLo, PyObj.intHi]
    simp only [Bool.false_eq_true, if_false]
    apply decide_eq_true
    constructor <;> omega
  | sint k m =>
    simp only [wf, decide_eq_true_eq] at hw
    simp only [deBits, Except.ok.injEq, Prod.mk.injEq] at h
    obtain ⟨rfl, _⟩ := h
    have hr := signExtend_range hw.1 (readNat_lt k bs)
    simp only [ctorOK, PyObj.intLo, PyObj.intHi, if_true]
    apply decide_eq_true
    constructor <;> omega
  | float k m =>
    simp only [wf, decide_eq_true_eq] at hw
    simp only [deBits, Except.ok.injEq, Prod.mk.injEq] at h
    obtain ⟨rfl, _⟩ := h
    exact hf.ctor k _ hw (readNat_lt k bs)
  | arr t c =>
    simp only [deBits] at h
    split at h
    · cases h
    · rename_i vs used hd
      cases h
      simp [ctorOK, deAll_length _ _ _ _ hd]
  | varr t cap =>
    simp only [deBits] at h
    split at h
    · cases h
    · rename_i hk
      split at h
      · cases h
      · rename_i vs used hd
        cases h
        simp only [ctorOK, deAll_length _ _ _ _ hd, decide_eq_true_eq]
        omega
  | bool => cases v <;> rfl
  | void _ => cases v <;> rfl
  | struct _ => cases v <;> rfl
  | union _ => cases v <;> rfl
  | delim _ _ => cases v <;> rfl

end NunavutVerif.GenPy
