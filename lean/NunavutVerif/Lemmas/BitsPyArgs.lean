import NunavutVerif.Lemmas.BitsPy
import NunavutVerif.Model.BitsPyArgs
/-! Helper lemmas for the argument-conversion layer of the Python serializer (C14 round 2). -/
namespace NunavutVerif.Bits.Py
open NunavutVerif.Bits

variable (np : NumPy)

/-- the Python `int` constant can be combined with the argument (fits the argument's kind) -/
def PyVal.kindFits : PyVal → Int → Bool
  | .np k _, c => k.fits c
  | .npbool _, c => NpKind.i64.fits c
  | _, _ => true

theorem PyVal.toInt_denote (x : PyVal) (h : x.WF) : x.toInt np = x.denote := by
  cases x <;> simp [PyVal.toInt, PyVal.denote]
  exact np.toInt_exact _ _ h

theorem PyVal.lt0_denote (x : PyVal) (h : x.WF) : x.lt0 np = decide (x.denote < 0) := by
  cases x with
  | int v => rfl
  | bool b => cases b <;> simp [PyVal.lt0, PyVal.denote, b2i]
  | npbool b => cases b <;> simp [PyVal.lt0, PyVal.denote, b2i]
  | np k v => exact np.lt0_exact _ _ h

theorem PyVal.truth_denote (x : PyVal) (h : x.WF) : x.truth np = decide (x.denote ≠ 0) := by
  cases x with
  | int v => rfl
  | bool b => cases b <;> simp [PyVal.truth, PyVal.denote, b2i]
  | npbool b => cases b <;> simp [PyVal.truth, PyVal.denote, b2i]
  | np k v => exact np.truth_exact _ _ h

theorem NpKind.fits_between (k : NpKind) (c r : Int) (hc : k.fits c = true) (h0 : 0 ≤ r) (h1 : r ≤ c) :
    k.fits r = true := by
  cases k <;> simp [NpKind.fits, NpKind.lo, NpKind.hi, NpKind.bits, NpKind.signed] at hc ⊢ <;> omega

theorem NpKind.fits_small (k : NpKind) (c : Int) (h0 : 0 ≤ c) (h1 : c ≤ 127) : k.fits c = true := by
  cases k <;> simp [NpKind.fits, NpKind.lo, NpKind.hi, NpKind.bits, NpKind.signed] <;> omega

theorem ensureNotNegativeV_ok (x : PyVal) (h : x.WF) (h0 : 0 ≤ x.denote) : ensureNotNegativeV np x = .ok () := by
  have : ¬ x.denote < 0 := by omega
  simp [ensureNotNegativeV, PyVal.lt0_denote np x h, this]

theorem ensureNotNegativeV_neg (x : PyVal) (h : x.WF) (h0 : x.denote < 0) : ensureNotNegativeV np x = .error .usage := by
  simp [ensureNotNegativeV, PyVal.lt0_denote np x h, h0]

/-! ### arbitrary-width methods: the layer is `int(x)` -/

theorem addAlignedUnsignedV_eq (s : Ser) (x : PyVal) (n : Nat) (h : x.WF) :
    addAlignedUnsignedV np s x n = addAlignedUnsigned s x.denote n := by
  unfold addAlignedUnsignedV
  rw [PyVal.toInt_denote np x h]
  by_cases ha : s.off % 8 = 0
  · by_cases h0 : x.denote < 0
    · simp [assertAligned, ha, ensureNotNegativeV_neg np x h h0, addAlignedUnsigned, ensureNotNegative, h0]
      rfl
    · simp [assertAligned, ha, ensureNotNegativeV_ok np x h (by omega)]
      rfl
  · simp [assertAligned, ha, addAlignedUnsigned]
    rfl

theorem addUnalignedUnsignedV_eq (s : Ser) (x : PyVal) (n : Nat) (h : x.WF) :
    addUnalignedUnsignedV np s x n = addUnalignedUnsigned s x.denote n := by
  unfold addUnalignedUnsignedV
  rw [PyVal.toInt_denote np x h]
  by_cases h0 : x.denote < 0
  · simp [ensureNotNegativeV_neg np x h h0, addUnalignedUnsigned, ensureNotNegative, h0]
    rfl
  · simp [ensureNotNegativeV_ok np x h (by omega)]
    rfl

theorem addAlignedSignedV_eq (s : Ser) (x : PyVal) (n : Nat) (h : x.WF) :
    addAlignedSignedV np s x n = addAlignedSigned s x.denote n := by
  by_cases hn : n < 2 <;> simp [addAlignedSignedV, addAlignedSigned, hn, PyVal.toInt_denote np x h]

theorem addUnalignedSignedV_eq (s : Ser) (x : PyVal) (n : Nat) (h : x.WF) :
    addUnalignedSignedV np s x n = addUnalignedSigned s x.denote n := by
  by_cases hn : n < 2 <;> simp [addUnalignedSignedV, addUnalignedSigned, hn, PyVal.toInt_denote np x h]

/-! ### standard-width methods: arithmetic in the argument's own type -/

/-- the mathematical result is representable in the type the operation is carried out in -/
def PyVal.resFits : PyVal → Int → Bool
  | .np k _, r => k.fits r
  | .npbool _, r => NpKind.i64.fits r
  | _, _ => true

theorem b2i_fits_i64 (b : Bool) : NpKind.i64.fits (b2i b) = true := by cases b <;> decide

theorem PyVal.weak_ok (op : WOp) (x : PyVal) (c : Int) (hw : x.WF) (hc : x.kindFits c = true)
    (hr : x.resFits (op.eval x.denote c) = true) :
    ∃ r, x.weak np op c = .ok r ∧ r.denote = op.eval x.denote c ∧ r.WF ∧
      (∀ c', x.kindFits c' = true → r.kindFits c' = true) := by
  cases x with
  | int v => exact ⟨_, rfl, rfl, trivial, fun _ _ => rfl⟩
  | bool b => exact ⟨_, rfl, rfl, trivial, fun _ _ => rfl⟩
  | npbool b =>
    refine ⟨.np .i64 (op.eval (b2i b) c), ?_, rfl, hr, fun c' h => h⟩
    simp [PyVal.weak, np.weak_exact op .i64 (b2i b) c (b2i_fits_i64 b) hc hr, Except.map]
  | np k v =>
    refine ⟨.np k (op.eval v c), ?_, rfl, hr, fun c' h => h⟩
    simp [PyVal.weak, np.weak_exact op k v c hw hc hr, Except.map]

theorem PyVal.resFits_between (x : PyVal) (c r : Int) (hw : x.WF) (hc : x.kindFits c = true) (h0 : 0 ≤ r) (h1 : r ≤ c) :
    x.resFits r = true := by
  cases x with
  | int v => rfl
  | bool b => rfl
  | npbool b => exact NpKind.fits_between _ c r hc h0 h1
  | np k v => exact NpKind.fits_between _ c r hc h0 h1

theorem PyVal.resFits_le_self (x : PyVal) (r : Int) (hw : x.WF) (h0 : 0 ≤ r) (h1 : r ≤ x.denote) :
    x.resFits r = true := by
  cases x with
  | int v => rfl
  | bool b => rfl
  | npbool b => exact NpKind.fits_between _ (b2i b) r (b2i_fits_i64 b) h0 h1
  | np k v => exact NpKind.fits_between _ v r hw h0 h1

theorem PyVal.kindFits_small (x : PyVal) (c : Int) (h0 : 0 ≤ c) (h1 : c ≤ 127) : x.kindFits c = true := by
  cases x with
  | int v => rfl
  | bool b => rfl
  | npbool b => exact NpKind.fits_small _ c h0 h1
  | np k v => exact NpKind.fits_small _ c h0 h1

theorem addAlignedU8V_eq (s : Ser) (x : PyVal) (h : x.WF) (h0 : 0 ≤ x.denote) (h1 : x.denote < 256) :
    addAlignedU8V np s x = addAlignedU8 s x.denote := by
  unfold addAlignedU8V addAlignedU8
  have hs : x.store8 np = .ok x.denote.toNat := by
    cases x with
    | int v => simp [PyVal.store8, PyVal.denote] at h0 h1 ⊢; exact ⟨h0, h1⟩
    | bool b => cases b <;> simp [PyVal.store8, PyVal.denote, b2i]
    | npbool b => cases b <;> simp [PyVal.store8, PyVal.denote, b2i]
    | np k v => simp [PyVal.store8, PyVal.denote, np.store8_exact k v h h0 h1]
  have hn : ¬ x.denote < 0 := by omega
  have h256 : ¬ 256 ≤ x.denote.toNat := by omega
  by_cases ha : s.off % 8 = 0
  · simp [assertAligned, ha, ensureNotNegativeV_ok np x h h0, hs, ensureNotNegative, hn, h256, bind, Except.bind]
  · simp [assertAligned, ha, bind, Except.bind]

theorem band255_bounds (v : Int) : 0 ≤ WOp.eval .band v 255 ∧ WOp.eval .band v 255 ≤ 255 := by
  simp only [WOp.eval]
  have : v.toNat &&& (255 : Int).toNat ≤ 255 := by
    show v.toNat &&& 255 ≤ 255
    exact Nat.and_le_right
  constructor <;> omega

theorem shr_bounds (v c : Int) (h0 : 0 ≤ v) : 0 ≤ WOp.eval .shr v c ∧ WOp.eval .shr v c ≤ v := by
  simp only [WOp.eval]
  obtain ⟨n, rfl⟩ := Int.eq_ofNat_of_zero_le h0
  have e : (n : Int) >>> c.toNat = ((n >>> c.toNat : Nat) : Int) := rfl
  rw [e]
  have hle : n >>> c.toNat ≤ n := by rw [Nat.shiftRight_eq_div_pow]; exact Nat.div_le_self _ _
  exact ⟨Int.natCast_nonneg _, by exact_mod_cast hle⟩

theorem addAlignedU16V_eq (s : Ser) (x : PyVal) (h : x.WF) (h0 : 0 ≤ x.denote) (hk : x.kindFits 255 = true) :
    addAlignedU16V np s x = addAlignedU16 s x.denote := by
  unfold addAlignedU16V addAlignedU16
  have hn : ¬ x.denote < 0 := by omega
  obtain ⟨b1l, b1h⟩ := band255_bounds x.denote
  obtain ⟨a, ha1, ha2, ha3, ha4⟩ := PyVal.weak_ok np .band x 255 h hk (PyVal.resFits_between x 255 _ h hk b1l b1h)
  obtain ⟨s8l, s8h⟩ := shr_bounds x.denote 8 h0
  obtain ⟨hh, hh1, hh2, hh3, hh4⟩ := PyVal.weak_ok np .shr x 8 h (PyVal.kindFits_small x 8 (by omega) (by omega))
    (PyVal.resFits_le_self x _ h s8l s8h)
  obtain ⟨b2l, b2h⟩ := band255_bounds hh.denote
  obtain ⟨b, hb1, hb2, hb3, hb4⟩ := PyVal.weak_ok np .band hh 255 hh3 (hh4 255 hk)
    (PyVal.resFits_between hh 255 _ hh3 (hh4 255 hk) b2l b2h)
  simp only [ensureNotNegativeV_ok np x h h0, ha1, hh1, hb1, ensureNotNegative, hn, if_false, bind, Except.bind]
  rw [addAlignedU8V_eq np s a ha3 (by omega) (by omega), ha2]
  have e1 : WOp.eval .band x.denote 255 = ((x.denote.toNat &&& 255 : Nat) : Int) := rfl
  have e2 : WOp.eval .band hh.denote 255 = (((x.denote.toNat >>> 8) &&& 255 : Nat) : Int) := by
    rw [hh2]
    simp only [WOp.eval]
    obtain ⟨n, hn'⟩ := Int.eq_ofNat_of_zero_le h0
    rw [hn']
    simp
    rfl
  rw [e1]
  cases hres : addAlignedU8 s ((x.denote.toNat &&& 255 : Nat) : Int) with
  | error e => rfl
  | ok s1 =>
    simp only []
    rw [addAlignedU8V_eq np s1 b hb3 (by omega) (by omega), hb2, e2]

theorem addAlignedU32V_eq (s : Ser) (x : PyVal) (h : x.WF) (h0 : 0 ≤ x.denote) (hk : x.kindFits 255 = true) :
    addAlignedU32V np s x = addAlignedU32 s x.denote := by
  unfold addAlignedU32V addAlignedU32
  obtain ⟨sl, sh⟩ := shr_bounds x.denote 16 h0
  obtain ⟨y, hy1, hy2, hy3, hy4⟩ := PyVal.weak_ok np .shr x 16 h (PyVal.kindFits_small x 16 (by omega) (by omega))
    (PyVal.resFits_le_self x _ h sl sh)
  rw [addAlignedU16V_eq np s x h h0 hk]
  simp only [hy1, bind, Except.bind]
  cases hres : addAlignedU16 s x.denote with
  | error e => rfl
  | ok s1 =>
    simp only []
    rw [addAlignedU16V_eq np s1 y hy3 (by omega) (hy4 255 hk), hy2]
    rfl

theorem addAlignedU64V_eq (s : Ser) (x : PyVal) (h : x.WF) (h0 : 0 ≤ x.denote) (hk : x.kindFits 255 = true) :
    addAlignedU64V np s x = addAlignedU64 s x.denote := by
  unfold addAlignedU64V addAlignedU64
  obtain ⟨sl, sh⟩ := shr_bounds x.denote 32 h0
  obtain ⟨y, hy1, hy2, hy3, hy4⟩ := PyVal.weak_ok np .shr x 32 h (PyVal.kindFits_small x 32 (by omega) (by omega))
    (PyVal.resFits_le_self x _ h sl sh)
  rw [addAlignedU32V_eq np s x h h0 hk]
  simp only [hy1, bind, Except.bind]
  cases hres : addAlignedU32 s x.denote with
  | error e => rfl
  | ok s1 =>
    simp only []
    rw [addAlignedU32V_eq np s1 y hy3 (by omega) (hy4 255 hk), hy2]
    rfl

/-- what `add_aligned_uW` needs from the argument's type: nothing for `W = 8`, otherwise the constant `0xFF` must be
representable in it (every type except `numpy.int8`) -/
def AcceptsU (W : Nat) (x : PyVal) : Prop := W = 8 ∨ x.kindFits 255 = true

/-- what `add_aligned_iW` needs: for a negative argument the constant `2**W` must be representable in its type (a
NumPy integer strictly wider than `W` bits, or a Python `int`), otherwise as `add_aligned_uW` -/
def AcceptsI (W : Nat) (x : PyVal) : Prop :=
  if x.denote < 0 then x.kindFits (2 ^ W) = true else AcceptsU W x

theorem addAlignedUV_eq (W : Nat) (s : Ser) (x : PyVal) (h : x.WF) (h0 : 0 ≤ x.denote) (hW8 : W = 8 → x.denote < 256)
    (hacc : AcceptsU W x) :
    (if W = 8 then addAlignedU8V np s x else if W = 16 then addAlignedU16V np s x
      else if W = 32 then addAlignedU32V np s x else if W = 64 then addAlignedU64V np s x else .error .usage) =
    (if W = 8 then addAlignedU8 s x.denote else if W = 16 then addAlignedU16 s x.denote
      else if W = 32 then addAlignedU32 s x.denote else if W = 64 then addAlignedU64 s x.denote else .error .usage) := by
  by_cases h8 : W = 8
  · simp [h8, addAlignedU8V_eq np s x h h0 (hW8 h8)]
  · have hk : x.kindFits 255 = true := by rcases hacc with h | h; exact absurd h h8; exact h
    simp [h8, addAlignedU16V_eq np s x h h0 hk, addAlignedU32V_eq np s x h h0 hk, addAlignedU64V_eq np s x h h0 hk]

theorem addAlignedIV_eq (W : Nat) (s : Ser) (x : PyVal) (hW : W = 8 ∨ W = 16 ∨ W = 32 ∨ W = 64) (h : x.WF)
    (hlo : -(2 ^ (W - 1)) ≤ x.denote) (hhi : x.denote < 2 ^ (W - 1)) (hacc : AcceptsI W x) :
    addAlignedIV np W s x = addAlignedI W s x.denote := by
  unfold addAlignedIV addAlignedI
  have hpow : (2 : Int) ^ W = 2 * 2 ^ (W - 1) := by
    rcases hW with rfl | rfl | rfl | rfl <;> decide
  have hpos : (0 : Int) < 2 ^ (W - 1) := Int.pow_pos (by omega)
  by_cases hneg : x.denote < 0
  · have hk : x.kindFits (2 ^ W) = true := by simpa [AcceptsI, hneg] using hacc
    have hr0 : 0 ≤ WOp.eval .addc x.denote (2 ^ W) := by simp only [WOp.eval]; omega
    have hr1 : WOp.eval .addc x.denote (2 ^ W) ≤ 2 ^ W := by simp only [WOp.eval]; omega
    obtain ⟨u, hu1, hu2, hu3, hu4⟩ := PyVal.weak_ok np .addc x (2 ^ W) h hk
      (PyVal.resFits_between x (2 ^ W) _ h hk hr0 hr1)
    have hu255 : u.kindFits 255 = true := by
      apply hu4
      cases x with
      | int v => rfl
      | bool b => rfl
      | npbool b =>
        exact NpKind.fits_between _ (2 ^ W) 255 hk (by omega) (by rcases hW with rfl | rfl | rfl | rfl <;> decide)
      | np k v =>
        exact NpKind.fits_between _ (2 ^ W) 255 hk (by omega) (by rcases hW with rfl | rfl | rfl | rfl <;> decide)
    simp only [PyVal.lt0_denote np x h, hneg, decide_true, if_true, hu1, bind, Except.bind]
    have := addAlignedUV_eq np W s u hu3 (by rw [hu2]; exact hr0)
      (by intro h8; subst h8; rw [hu2]; simp only [WOp.eval]
          have e1 : (2 : Int) ^ 8 = 256 := by decide
          have e2 : (2 : Int) ^ (8 - 1) = 128 := by decide
          omega) (.inr hu255)
    rw [this, hu2]
    rfl
  · have hacc' : AcceptsU W x := by simpa [AcceptsI, hneg] using hacc
    simp only [PyVal.lt0_denote np x h, hneg, decide_false, Bool.false_eq_true, if_false, bind, Except.bind]
    exact addAlignedUV_eq np W s x h (by omega)
      (by intro h8; subst h8
          have e2 : (2 : Int) ^ (8 - 1) = 128 := by decide
          omega) hacc'

end NunavutVerif.Bits.Py
