import NunavutVerif.Model.Strop
import NunavutVerif.Lemmas.Regex
import NunavutVerif.Gen.StropCfg
/-!
Helper lemmas about the stropping model of `Model/Strop.lean` (C09).
-/
namespace NunavutVerif.Strop
open NunavutVerif.Regex

/-- What a successful re-verification step means. -/
theorem recheck_ok {bad : Bool} {h : Handler} {e : Err} {s r : Str} {f g : Bool}
    (hg : recheck bad h e s f = .ok (r, g)) :
    (bad = false ∧ r = s ∧ g = f) ∨ (bad = true ∧ h = .cStyle ∧ cHandler s = some r ∧ g = true) := by
  unfold recheck at hg
  cases bad with
  | false => simp at hg; simp [hg]
  | true =>
    simp only [if_true] at hg
    unfold runHandler at hg
    cases h with
    | none => simp at hg
    | cStyle =>
      cases hc : cHandler s with
      | none => simp [hc] at hg
      | some r' => simp [hc] at hg; simp [hg]

theorem recheck_ok_false {bad : Bool} {h : Handler} {e : Err} {s r : Str} {f : Bool}
    (hg : recheck bad h e s f = .ok (r, false)) : bad = false ∧ r = s ∧ f = false := by
  rcases recheck_ok hg with ⟨a, b, c⟩ | ⟨_, _, _, d⟩
  · exact ⟨a, b, c.symm⟩
  · cases d

/-- The three re-verification steps of `stropTrace`, made explicit. -/
theorem stropTraceBeforeFix_ok {cfg : Cfg} {tok ty r : Str} {g : Bool}
    (h : stropTraceBeforeFix cfg tok ty = .ok (r, g)) :
    lowerAscii ty ≠ tyAll ∧ ∃ s2 f2 s3 f3,
      recheck (patDry cfg tyAll (realPipeline cfg (lowerAscii ty) tok) ||
               patDry cfg (lowerAscii ty) (realPipeline cfg (lowerAscii ty) tok))
        cfg.stropHandler .illegalToken (realPipeline cfg (lowerAscii ty) tok) false = .ok (s2, f2) ∧
      recheck (isReserved cfg s2) cfg.stropHandler .illegalToken s2 f2 = .ok (s3, f3) ∧
      recheck (encodeDry cfg tyAll s3 || encodeDry cfg (lowerAscii ty) s3)
        cfg.encHandler .unstableEncoding s3 f3 = .ok (r, g) := by
  unfold stropTraceBeforeFix at h
  simp only at h
  split at h
  · cases h
  · rename_i hty
    refine ⟨hty, ?_⟩
    split at h
    · cases h
    · rename_i s2 f2 h2
      split at h
      · cases h
      · rename_i s3 f3 h3
        exact ⟨s2, f2, s3, f3, h2, h3, h⟩

theorem verify_ok {cfg : Cfg} {ty s r : Str} (h : verify cfg ty s = .ok r) :
    r = s ∧ isReserved cfg s = false ∧ patDry cfg tyAll s = false ∧ patDry cfg ty s = false ∧
    encodeDry cfg tyAll s = false ∧ encodeDry cfg ty s = false := by
  unfold verify at h
  split at h
  · cases h
  · split at h
    · cases h
    · split at h
      · cases h
      · rename_i h1 h2 h3
        simp only [Bool.or_eq_true, not_or, Bool.not_eq_true] at h1 h2 h3
        cases h
        exact ⟨rfl, h2, h1.1, h1.2, h3.1, h3.2⟩

/-- The repaired `strop` is the old one plus a final verification of handler-supplied tokens. -/
theorem stropTrace_ok {cfg : Cfg} {tok ty r : Str} {g : Bool}
    (h : stropTrace cfg tok ty = .ok (r, g)) :
    stropTraceBeforeFix cfg tok ty = .ok (r, g) ∧
    (g = true → verify cfg (lowerAscii ty) r = .ok r) := by
  unfold stropTrace at h
  split at h
  · cases h
  · cases h; rename_i hb; exact ⟨hb, by simp⟩
  · rename_i r0 hb
    split at h
    · rename_i r' hv
      cases h
      obtain ⟨e, _⟩ := verify_ok hv
      subst e
      exact ⟨hb, fun _ => hv⟩
    · cases h

def Word (s : Str) : Prop := ∀ c ∈ s, isWordChar c = true

theorem Word.append {a b : Str} (ha : Word a) (hb : Word b) : Word (a ++ b) := by
  intro c hc; simp only [List.mem_append] at hc; rcases hc with h | h
  · exact ha c h
  · exact hb c h

theorem hexDigit_word (d : Nat) (h : d < 16) : isWordChar (hexDigit d) = true := by
  unfold hexDigit isWordChar
  split <;> simp <;> omega

theorem hexCore_word (fuel n : Nat) (acc : Str) (h : Word acc) : Word (hexCore fuel n acc) := by
  induction fuel generalizing n acc with
  | zero => simpa [hexCore] using h
  | succ fuel ih =>
    have hd : Word (hexDigit (n % 16) :: acc) := by
      intro c hc
      simp only [List.mem_cons] at hc
      rcases hc with rfl | hc
      · exact hexDigit_word _ (Nat.mod_lt _ (by omega))
      · exact h c hc
    simp only [hexCore]
    split
    · exact hd
    · exact ih _ _ hd

theorem hexCore_ne_nil (fuel n : Nat) (acc : Str) (h : acc ≠ [] ∨ 0 < fuel) : hexCore fuel n acc ≠ [] := by
  induction fuel generalizing n acc with
  | zero => rcases h with h | h; simpa [hexCore] using h; omega
  | succ fuel ih =>
    simp only [hexCore]
    split
    · simp
    · exact ih _ _ (Or.inl (by simp))

theorem hex4_word (n : Nat) : Word (hex4 n) := by
  unfold hex4
  apply Word.append
  · intro c hc; simp only [List.mem_replicate] at hc; rw [hc.2]; decide
  · exact hexCore_word _ _ _ (by intro c hc; cases hc)

theorem hex4_ne_nil (n : Nat) : hex4 n ≠ [] := by
  unfold hex4
  simp only [ne_eq, List.append_eq_nil_iff, not_and]
  intro _
  exact hexCore_ne_nil _ _ _ (Or.inr (by omega))

/-- prefix, suffix, encoding prefix and whitespace character consist of word characters -/
structure WordCfg (cfg : Cfg) : Prop where
  pre : Word cfg.stropPrefix
  suf : Word cfg.stropSuffix
  encp : Word cfg.encPrefix
  ws : ∀ w, cfg.wsChar = some w → Word w ∧ w ≠ []

theorem encChar_word {cfg : Cfg} (hc : WordCfg cfg) (c : Nat) : Word (encChar cfg c) ∧ encChar cfg c ≠ [] := by
  unfold encChar
  have hx : Word (cfg.encPrefix ++ hex4 c) ∧ cfg.encPrefix ++ hex4 c ≠ [] :=
    ⟨hc.encp.append (hex4_word c), by simp [hex4_ne_nil]⟩
  split
  · rename_i w hw
    split
    · exact hc.ws w hw
    · exact hx
  · exact hx

theorem encFilter_word {cfg : Cfg} (hc : WordCfg cfg) (m : Str) : Word (encFilter cfg m) := by
  unfold encFilter
  split
  · split
    · rename_i w hw; exact (hc.ws w hw).1
    · exact (encChar_word hc 32).1
  · intro c hcm
    simp only [List.mem_flatten, List.mem_map] at hcm
    obtain ⟨l, ⟨a, _, rfl⟩, hl⟩ := hcm
    exact (encChar_word hc a).1 c hl

theorem encFilter_ne_nil {cfg : Cfg} (hc : WordCfg cfg) (m : Str) (hm : m ≠ []) : encFilter cfg m ≠ [] := by
  unfold encFilter
  split
  · split
    · rename_i w hw; exact (hc.ws w hw).2
    · exact (encChar_word hc 32).2
  · cases m with
    | nil => exact absurd rfl hm
    | cons a t =>
      simp only [List.map_cons, List.flatten_cons, ne_eq, List.append_eq_nil_iff, not_and]
      intro h; exact absurd h (encChar_word hc a).2


/-! ### encoding -/

theorem foldl_sub_word {cfg : Cfg} (hc : WordCfg cfg) (rs : List Re) (s : Str) (hs : Word s) :
    Word (rs.foldl (fun acc r => sub r (encFilter cfg) acc) s) := by
  induction rs generalizing s with
  | nil => exact hs
  | cons r rs ih => exact ih _ (sub_all _ r _ (fun m => encFilter_word hc m) s hs)

theorem foldl_sub_ne_nil {cfg : Cfg} (hc : WordCfg cfg) (rs : List Re) (s : Str) (hs : s ≠ []) :
    rs.foldl (fun acc r => sub r (encFilter cfg) acc) s ≠ [] := by
  induction rs generalizing s with
  | nil => exact hs
  | cons r rs ih => exact ih _ (sub_ne_nil r _ (fun m hm => encFilter_ne_nil hc m hm) s hs)

theorem encodeReal_word {cfg : Cfg} (hc : WordCfg cfg) (ty s : Str) (hs : Word s) : Word (encodeReal cfg ty s) := by
  unfold encodeReal; split
  · exact hs
  · exact foldl_sub_word hc _ s hs

theorem encodeReal_ne_nil {cfg : Cfg} (hc : WordCfg cfg) (ty s : Str) (hs : s ≠ []) : encodeReal cfg ty s ≠ [] := by
  unfold encodeReal; split
  · exact hs
  · exact foldl_sub_ne_nil hc _ s hs

/-- the `all` rules contain a rule `[K]+` where every character outside `K` is a word character -/
def HasNonWordRule (cfg : Cfg) : Prop :=
  ∃ pre K post, lookup cfg.rules tyAll = some (pre ++ .rep 1 none (.chr K) :: post) ∧
    ∀ c, K.mem c = false → isWordChar c = true

theorem encodeReal_all_word {cfg : Cfg} (hc : WordCfg cfg) (hr : HasNonWordRule cfg) (s : Str) :
    Word (encodeReal cfg tyAll s) := by
  obtain ⟨pre, K, post, hl, hK⟩ := hr
  unfold encodeReal
  rw [hl]
  simp only [List.foldl_append, List.foldl_cons]
  apply foldl_sub_word hc
  exact sub_plusCls_all _ K _ (fun m => encFilter_word hc m) hK _

/-! ### stropping -/

theorem wrap_word {cfg : Cfg} (hc : WordCfg cfg) (s : Str) (hs : Word s) : Word (wrap cfg s) :=
  (hc.pre.append hs).append hc.suf

theorem wrap_ne_nil (cfg : Cfg) (s : Str) (hs : s ≠ []) : wrap cfg s ≠ [] := by
  unfold wrap; simp [hs]

theorem realPipeline_word {cfg : Cfg} (hc : WordCfg cfg) (hr : HasNonWordRule cfg) (ty tok : Str) (ht : tok ≠ []) :
    Word (realPipeline cfg ty tok) ∧ realPipeline cfg ty tok ≠ [] := by
  have h1 : Word (encodeReal cfg ty (encodeReal cfg tyAll tok)) :=
    encodeReal_word hc _ _ (encodeReal_all_word hc hr tok)
  have h2 : encodeReal cfg ty (encodeReal cfg tyAll tok) ≠ [] :=
    encodeReal_ne_nil hc _ _ (encodeReal_ne_nil hc _ _ ht)
  have kw : ∀ s, Word s ∧ s ≠ [] → Word (kwStrop cfg s) ∧ kwStrop cfg s ≠ [] := by
    intro s ⟨a, b⟩; unfold kwStrop; split
    · exact ⟨wrap_word hc s a, wrap_ne_nil cfg s b⟩
    · exact ⟨a, b⟩
  have pt : ∀ ty s, Word s ∧ s ≠ [] → Word (patStrop cfg ty s) ∧ patStrop cfg ty s ≠ [] := by
    intro ty s ⟨a, b⟩; unfold patStrop; split
    · exact ⟨wrap_word hc s a, wrap_ne_nil cfg s b⟩
    · exact ⟨a, b⟩
  unfold realPipeline
  exact pt _ _ (pt _ _ (kw _ (kw _ ⟨h1, h2⟩)))

/-! ### the C / C++ failure handler -/

theorem isIdent_word {s : Str} (h : isIdent s = true) : Word s ∧ s ≠ [] := by
  cases s with
  | nil => simp [isIdent] at h
  | cons c t =>
    simp only [isIdent, Bool.and_eq_true, List.all_eq_true] at h
    refine ⟨?_, by simp⟩
    intro x hx
    simp only [List.mem_cons] at hx
    rcases hx with rfl | hx
    · have := h.1; unfold isIdentStart at this; unfold isWordChar; simp_all; omega
    · exact h.2 x hx

theorem cHandler_ident {s r : Str} (h : cHandler s = some r) (hs : Word s) : isIdent r = true := by
  unfold cHandler at h
  split at h
  · rename_i t
    have ht : Word t := fun c hc => hs c (List.mem_cons_of_mem _ hc)
    have hd : Word (t.dropWhile (· == 95)) := fun c hc => ht c ((List.dropWhile_sublist _).subset hc)
    split at h
    · cases h; decide
    · rename_i c r' heq
      rw [heq] at hd
      have hc : isWordChar c = true := hd c (by simp)
      have hr' : ∀ x ∈ r', isWordChar x = true := fun x hx => hd x (List.mem_cons_of_mem _ hx)
      split at h
      · cases h
        rename_i hup
        simp only [isIdent, Bool.and_eq_true, List.all_eq_true]
        refine ⟨by decide, ?_⟩
        intro x hx
        simp only [List.mem_cons] at hx
        rcases hx with rfl | hx
        · unfold isWordChar; simp; omega
        · exact hr' x hx
      · cases h
        simp only [isIdent, Bool.and_eq_true, List.all_eq_true]
        refine ⟨by decide, ?_⟩
        intro x hx
        simp only [List.mem_cons] at hx
        rcases hx with rfl | hx
        · exact hc
        · exact hr' x hx
  · cases h


/-! ### the returned token -/

/-- Every returned token passed (or would pass) the three dry runs. -/
theorem stropTrace_rechecked {cfg : Cfg} {tok ty r : Str} {g : Bool}
    (h : stropTrace cfg tok ty = .ok (r, g)) :
    isReserved cfg r = false ∧
    patDry cfg tyAll r = false ∧ patDry cfg (lowerAscii ty) r = false ∧
    encodeDry cfg tyAll r = false ∧ encodeDry cfg (lowerAscii ty) r = false := by
  obtain ⟨hb, hv⟩ := stropTrace_ok h
  cases g with
  | true => exact (verify_ok (hv rfl)).2
  | false =>
    obtain ⟨_, s2, f2, s3, f3, h2, h3, h4⟩ := stropTraceBeforeFix_ok hb
    obtain ⟨e1, e2, e3⟩ := recheck_ok_false h4
    subst e2 e3
    obtain ⟨k1, k2, k3⟩ := recheck_ok_false h3
    subst k2 k3
    obtain ⟨p1, p2, _⟩ := recheck_ok_false h2
    subst p2
    simp only [Bool.or_eq_false_iff] at e1 p1
    exact ⟨k1, p1.1, p1.2, e1.1, e1.2⟩

/-- a leading ASCII digit is caught by one of the `all` re-verifications -/
def CatchesLeadingDigit (cfg : Cfg) : Prop :=
  ∀ c t, 48 ≤ c → c ≤ 57 → patDry cfg tyAll (c :: t) = true ∨ encodeDry cfg tyAll (c :: t) = true

theorem recheck_inv {bad : Bool} {h : Handler} {e : Err} {s r : Str} {f g : Bool}
    (hg : recheck bad h e s f = .ok (r, g))
    (hs : Word s ∧ s ≠ [] ∧ (f = true → isIdent s = true)) :
    Word r ∧ r ≠ [] ∧ (g = true → isIdent r = true) := by
  rcases recheck_ok hg with ⟨_, rfl, rfl⟩ | ⟨_, _, hh, _⟩
  · exact hs
  · have hi := cHandler_ident hh hs.1
    exact ⟨(isIdent_word hi).1, (isIdent_word hi).2, fun _ => hi⟩

/-- The shape half of T2, for any configuration with the three recognisable ingredients. -/
theorem stropTrace_ident {cfg : Cfg} (hc : WordCfg cfg) (hr : HasNonWordRule cfg) (hd : CatchesLeadingDigit cfg)
    {tok ty r : Str} {g : Bool} (ht : tok ≠ []) (h : stropTrace cfg tok ty = .ok (r, g)) :
    isIdent r = true := by
  have hre := stropTrace_rechecked h
  obtain ⟨hb, _⟩ := stropTrace_ok h
  obtain ⟨_, s2, f2, s3, f3, h2, h3, h4⟩ := stropTraceBeforeFix_ok hb
  have j1 := realPipeline_word hc hr (lowerAscii ty) tok ht
  have j2 := recheck_inv h2 ⟨j1.1, j1.2, by simp⟩
  have j3 := recheck_inv h3 j2
  have j4 := recheck_inv h4 j3
  cases g with
  | true => exact j4.2.2 rfl
  | false =>
    cases r with
    | nil => exact absurd rfl j4.2.1
    | cons c t =>
      have hw : isWordChar c = true := j4.1 c (by simp)
      have hnd : ¬ (48 ≤ c ∧ c ≤ 57) := by
        intro ⟨a, b⟩
        rcases hd c t a b with x | x
        · rw [hre.2.1] at x; cases x
        · rw [hre.2.2.2.1] at x; cases x
      simp only [isIdent, Bool.and_eq_true, List.all_eq_true]
      refine ⟨?_, fun x hx => j4.1 x (List.mem_cons_of_mem _ hx)⟩
      unfold isWordChar at hw; unfold isIdentStart; simp_all <;> omega

/-! ### fixed point (T3) -/

theorem foldl_sub_id (f : Str → Str) (rs : List Re) (s : Str)
    (h : ∀ r ∈ rs, matchesNowhere s.length r s = true) :
    rs.foldl (fun acc r => sub r f acc) s = s := by
  induction rs with
  | nil => rfl
  | cons r rs ih =>
    simp only [List.foldl_cons]
    rw [sub_id_of_matchesNowhere r f s (h r (by simp))]
    exact ih (fun r' hr' => h r' (by simp [hr']))

theorem encodeReal_id {cfg : Cfg} {ty s : Str}
    (h : ∀ r ∈ (lookup cfg.rules ty).getD [], matchesNowhere s.length r s = true) : encodeReal cfg ty s = s := by
  unfold encodeReal
  split
  · rfl
  · rename_i rs hl
    rw [hl] at h
    exact foldl_sub_id _ rs s h

theorem encodeDry_false {cfg : Cfg} {ty s : Str}
    (h : ∀ r ∈ (lookup cfg.rules ty).getD [], matchesNowhere s.length r s = true) : encodeDry cfg ty s = false := by
  unfold encodeDry
  split
  · rfl
  · rename_i rs hl
    rw [hl] at h
    simp only [matchesAny, List.any_eq_false, Bool.not_eq_true]
    intro r hr
    exact matchesStart_of_matchesNowhere r s (h r hr)

theorem strop_fixed {cfg : Cfg} {tok ty : Str} (hty : lowerAscii ty ≠ tyAll)
    (hres : isReserved cfg tok = false) (hp1 : patDry cfg tyAll tok = false)
    (hp2 : patDry cfg (lowerAscii ty) tok = false) (henc : encodingFree cfg (lowerAscii ty) tok = true) :
    stropTrace cfg tok ty = .ok (tok, false) := by
  simp only [encodingFree, List.all_eq_true, List.mem_append] at henc
  have ea : ∀ r ∈ (lookup cfg.rules tyAll).getD [], matchesNowhere tok.length r tok = true :=
    fun r hr => henc r (Or.inl hr)
  have et : ∀ r ∈ (lookup cfg.rules (lowerAscii ty)).getD [], matchesNowhere tok.length r tok = true :=
    fun r hr => henc r (Or.inr hr)
  have hpipe : realPipeline cfg (lowerAscii ty) tok = tok := by
    unfold realPipeline
    simp only [encodeReal_id ea, encodeReal_id et, kwStrop, hres, patStrop, hp1, hp2, Bool.false_eq_true, if_false]
  have hb : stropTraceBeforeFix cfg tok ty = .ok (tok, false) := by
    unfold stropTraceBeforeFix
    simp only [hty, if_false, hpipe, hp1, hp2, Bool.or_false, recheck, hres, encodeDry_false ea, encodeDry_false et,
      Bool.false_eq_true]
  unfold stropTrace
  rw [hb]

/-! ### the shipped configurations (generated): the ingredients of `stropTrace_ident`, recognised by `decide` -/
section shipped
open NunavutVerif.Gen.StropCfg

theorem word_of_all {s : Str} (h : s.all isWordChar = true) : Word s := by
  intro c hc; exact List.all_eq_true.mp h c hc

theorem wordCfg_of (cfg : Cfg)
    (h : cfg.stropPrefix.all isWordChar && cfg.stropSuffix.all isWordChar && cfg.encPrefix.all isWordChar &&
      (match cfg.wsChar with | some w => w.all isWordChar && !w.isEmpty | none => true) = true) : WordCfg cfg := by
  simp only [Bool.and_eq_true] at h
  refine ⟨word_of_all h.1.1.1, word_of_all h.1.1.2, word_of_all h.1.2, ?_⟩
  intro w hw
  rw [hw] at h
  have h2 := h.2
  simp only [Bool.and_eq_true, Bool.not_eq_true', List.isEmpty_eq_false_iff, decide_eq_true_eq] at h2
  exact ⟨word_of_all h2.1, h2.2⟩

theorem wordCfgC : WordCfg cfgC := wordCfg_of _ (by decide)
theorem wordCfgCpp : WordCfg cfgCpp := wordCfg_of _ (by decide)
theorem wordCfgPy : WordCfg cfgPy := wordCfg_of _ (by decide)

/-- `[^a-zA-Z0-9_]` as the translator emits it -/
def clsNonWord : Cls := ⟨true, [(97, 122), (65, 90), (48, 57), (95, 95)]⟩

theorem clsNonWord_compl (c : Nat) (h : clsNonWord.mem c = false) : isWordChar c = true := by
  simp only [clsNonWord, Cls.mem, inRanges, isWordChar] at *
  simp_all
  omega

/-- a range of word characters only (syntactic) -/
def wordRange (p : Nat × Nat) : Bool :=
  (decide (97 ≤ p.1) && decide (p.2 ≤ 122)) || (decide (65 ≤ p.1) && decide (p.2 ≤ 90)) ||
  (decide (48 ≤ p.1) && decide (p.2 ≤ 57)) || (p.1 == 95 && p.2 == 95)

/-- the complement of the class consists of word characters (syntactic): a negated union of word ranges -/
def complIsWord (K : Cls) : Bool := K.neg && K.ranges.all wordRange

theorem complIsWord_sound (K : Cls) (h : complIsWord K = true) (c : Nat) (hc : K.mem c = false) :
    isWordChar c = true := by
  obtain ⟨neg, ranges⟩ := K
  simp only [complIsWord, Bool.and_eq_true, List.all_eq_true] at h
  obtain ⟨hn, hr⟩ := h
  subst hn
  have hin : inRanges ranges c = true := by
    cases hx : inRanges ranges c with
    | true => rfl
    | false => simp [Cls.mem, hx] at hc
  clear hc
  induction ranges with
  | nil => simp [inRanges] at hin
  | cons p rest ih =>
    obtain ⟨lo, hi⟩ := p
    simp only [inRanges, Bool.or_eq_true, Bool.and_eq_true, decide_eq_true_eq] at hin
    rcases hin with ⟨h1, h2⟩ | hin
    · have := hr (lo, hi) (by simp)
      simp only [wordRange, Bool.or_eq_true, Bool.and_eq_true, decide_eq_true_eq, beq_iff_eq] at this
      unfold isWordChar
      simp only [Bool.or_eq_true, Bool.and_eq_true, decide_eq_true_eq, beq_iff_eq]
      omega
    · exact ih (fun q hq => hr q (by simp [hq])) hin

/-- is the rule of the form `[K]+` with a word-character complement? -/
def isNonWordPlus : Re → Bool
  | .rep 1 none (.chr K) => complIsWord K
  | _ => false

/-- decidable form of `HasNonWordRule`: some `all` rule, wherever it stands in the list, is `[K]+` as above -/
def hasNonWordRuleB (cfg : Cfg) : Bool := ((lookup cfg.rules tyAll).getD []).any isNonWordPlus

theorem hasNonWordRule_of (cfg : Cfg) (h : hasNonWordRuleB cfg = true) : HasNonWordRule cfg := by
  unfold hasNonWordRuleB at h
  cases hl : lookup cfg.rules tyAll with
  | none => simp [hl] at h
  | some rs =>
    simp only [hl, Option.getD_some, List.any_eq_true] at h
    obtain ⟨r, hr, hk⟩ := h
    obtain ⟨pre, post, hsplit⟩ := List.append_of_mem hr
    unfold isNonWordPlus at hk
    split at hk
    · rename_i K
      exact ⟨pre, K, post, by rw [hl, hsplit], complIsWord_sound K hk⟩
    · cases hk

theorem nonWordRuleC : HasNonWordRule cfgC := hasNonWordRule_of _ (by decide)
theorem nonWordRuleCpp : HasNonWordRule cfgCpp := hasNonWordRule_of _ (by decide)
theorem nonWordRulePy : HasNonWordRule cfgPy := hasNonWordRule_of _ (by decide)

theorem clsDigit_ascii (c : Nat) (h1 : 48 ≤ c) (h2 : c ≤ 57) : clsDigit.mem c = true := by
  have h : ∀ k : Fin 10, clsDigit.mem (48 + k.val) = true := by decide
  have := h ⟨c - 48, by omega⟩
  simp only at this
  rwa [show 48 + (c - 48) = c by omega] at this


theorem encodeDry_of_mem {cfg : Cfg} {ty s : Str} {rs : List Re} {r : Re}
    (hl : lookup cfg.rules ty = some rs) (hr : r ∈ rs) (hm : matchesStart r s = true) : encodeDry cfg ty s = true := by
  unfold encodeDry; rw [hl]; exact List.any_eq_true.mpr ⟨r, hr, hm⟩

theorem patDry_of_mem {cfg : Cfg} {ty s : Str} {rs : List Re} {r : Re}
    (hl : lookup cfg.patterns ty = some rs) (hr : r ∈ rs) (hm : matchesStart r s = true) : patDry cfg ty s = true := by
  unfold patDry; rw [hl]; exact List.any_eq_true.mpr ⟨r, hr, hm⟩

/-- `^\d{1}` as the translator emits it -/
def reLeadingDigit : Re := .seq .bol (.rep 1 (some 0) (.chr clsDigit))

theorem reLeadingDigit_matches (c : Nat) (t : Str) (h1 : 48 ≤ c) (h2 : c ≤ 57) :
    matchesStart reLeadingDigit (c :: t) = true := by
  unfold reLeadingDigit; rw [matchesStart_bol_cls1]; exact clsDigit_ascii c h1 h2

/-- decidable form of `CatchesLeadingDigit`: `^\\d{1}` occurs somewhere among the `all` patterns or `all` rules -/
def catchesDigitB (cfg : Cfg) : Bool :=
  ((lookup cfg.patterns tyAll).getD []).contains reLeadingDigit ||
  ((lookup cfg.rules tyAll).getD []).contains reLeadingDigit

theorem catchesDigit_of (cfg : Cfg) (h : catchesDigitB cfg = true) : CatchesLeadingDigit cfg := by
  intro c t h1 h2
  simp only [catchesDigitB, Bool.or_eq_true, List.contains_iff_mem] at h
  rcases h with h | h
  · cases hl : lookup cfg.patterns tyAll with
    | none => simp [hl] at h
    | some rs =>
      simp only [hl, Option.getD_some] at h
      exact Or.inl (patDry_of_mem hl h (reLeadingDigit_matches c t h1 h2))
  · cases hl : lookup cfg.rules tyAll with
    | none => simp [hl] at h
    | some rs =>
      simp only [hl, Option.getD_some] at h
      exact Or.inr (encodeDry_of_mem hl h (reLeadingDigit_matches c t h1 h2))

theorem catchesDigitC : CatchesLeadingDigit cfgC := catchesDigit_of _ (by decide)
theorem catchesDigitCpp : CatchesLeadingDigit cfgCpp := catchesDigit_of _ (by decide)
theorem catchesDigitPy : CatchesLeadingDigit cfgPy := catchesDigit_of _ (by decide)

end shipped

theorem strop_ok_iff {cfg : Cfg} {tok ty r : Str} :
    strop cfg tok ty = .ok r ↔ ∃ g, stropTrace cfg tok ty = .ok (r, g) := by
  unfold strop
  cases h : stropTrace cfg tok ty with
  | error e => simp [Except.map]
  | ok p => obtain ⟨a, b⟩ := p; simp [Except.map]

/-! ### handler tokens: the fix changes nothing for configurations that pass `handlerSafe` -/

/-- the form of every token the C / C++ failure handler produces: `_`, or `_` followed by a character that
is neither `_` nor an upper-case ASCII letter -/
def isHShape : Str → Bool
  | [95] => true
  | 95 :: c :: _ => !(c == 95) && !(decide (65 ≤ c) && decide (c ≤ 90))
  | _ => false

theorem cHandler_hshape {s r : Str} (h : cHandler s = some r) : isHShape r = true := by
  unfold cHandler at h
  split at h
  · rename_i t
    split at h
    · cases h; rfl
    · rename_i c r' heq
      have hne : ¬ ((c == 95) = true) := by
        have := List.head_dropWhile_not (· == 95) (l := t) (by rw [heq]; simp)
        simp only [heq, List.head_cons] at this
        simp [this]
      simp only [beq_iff_eq] at hne
      split at h
      · cases h; simp [isHShape]; omega
      · rename_i hup; cases h; simp [isHShape, hne]; omega
  · cases h

/-- sufficient syntactic condition for: the pattern matches at the start of no handler-shaped token -/
def chkH : Re → Bool
  | .alt a b => chkH a && chkH b
  | .seq .bol (.seq (.chr A) (.chr B)) => rej 95 (.seq .bol (.seq (.chr A) (.chr B))) || clsSubUU B
  | .seq .bol (.rep 2 mo (.chr A)) => rej 95 (.seq .bol (.rep 2 mo (.chr A))) || clsSubUU A
  | .seq (.rep 2 mo (.chr A)) .eol => rej 95 (.seq (.rep 2 mo (.chr A)) .eol) || clsSubUU A
  | p => rej 95 p

theorem matchesStart_of_rej {p : Re} (h : rej 95 p = true) {r : Str} (hr : isHShape r = true) :
    matchesStart p r = false := by
  unfold matchesStart
  cases r with
  | nil => simp [isHShape] at hr
  | cons c t =>
    have hc : c = 95 := by
      cases t with
      | nil => unfold isHShape at hr; split at hr <;> simp_all
      | cons d u => unfold isHShape at hr; split at hr <;> simp_all
    subst hc
    rw [rej_sound 95 p h]; rfl

theorem hshape_cases {r : Str} (hr : isHShape r = true) :
    r = [95] ∨ ∃ c t, r = 95 :: c :: t ∧ c ≠ 95 ∧ ¬ (65 ≤ c ∧ c ≤ 90) := by
  unfold isHShape at hr
  split at hr
  · exact Or.inl rfl
  · rename_i c t
    simp only [Bool.and_eq_true, Bool.not_eq_true', beq_eq_false_iff_ne, Bool.and_eq_false_iff, decide_eq_false_iff_not] at hr
    exact Or.inr ⟨c, t, rfl, hr.1, by omega⟩
  · cases hr

theorem chkH_sound (p : Re) (h : chkH p = true) {r : Str} (hr : isHShape r = true) :
    matchesStart p r = false := by
  fun_induction chkH p with
  | case1 a b iha ihb =>
    simp only [Bool.and_eq_true] at h
    have ha := iha h.1
    have hb := ihb h.2
    unfold matchesStart at *
    simp only [Bool.not_eq_false', List.isEmpty_iff] at ha hb
    simp [matchR, ha, hb]
  | case2 A B =>
    simp only [Bool.or_eq_true] at h
    rcases h with h | h
    · exact matchesStart_of_rej h hr
    · unfold matchesStart
      rcases hshape_cases hr with rfl | ⟨c, t, rfl, h1, h2⟩
      · rw [matchR, matchR]; simp [matchR_2cls_short]
      · have hB : B.mem c = false := by
          cases hm : B.mem c with
          | false => rfl
          | true => rcases clsSubUU_sound B h c hm with x | x <;> omega
        rw [matchR, matchR]; simp [matchR_2cls_rej _ A B 95 c t hB]
  | case3 mo A =>
    simp only [Bool.or_eq_true] at h
    rcases h with h | h
    · exact matchesStart_of_rej h hr
    · unfold matchesStart
      rcases hshape_cases hr with rfl | ⟨c, t, rfl, h1, h2⟩
      · rw [matchR, matchR]; simp [matchR_rep2_short]
      · have hA : A.mem c = false := by
          cases hm : A.mem c with
          | false => rfl
          | true => rcases clsSubUU_sound A h c hm with x | x <;> omega
        rw [matchR, matchR]; simp [matchR_rep2_rej _ A mo 95 c t hA]
  | case4 mo A =>
    simp only [Bool.or_eq_true] at h
    rcases h with h | h
    · exact matchesStart_of_rej h hr
    · unfold matchesStart
      rcases hshape_cases hr with rfl | ⟨c, t, rfl, h1, h2⟩
      · rw [matchR]; simp [matchR_rep2_short]
      · have hA : A.mem c = false := by
          cases hm : A.mem c with
          | false => rfl
          | true => rcases clsSubUU_sound A h c hm with x | x <;> omega
        rw [matchR]; simp [matchR_rep2_rej _ A mo 95 c t hA]
  | case5 p _ _ _ _ => exact matchesStart_of_rej h hr


theorem lookup_mem {m : List (Str × List Re)} {k : Str} {v : List Re} (h : lookup m k = some v) : (k, v) ∈ m := by
  induction m with
  | nil => simp [lookup] at h
  | cons p rest ih =>
    obtain ⟨k', v'⟩ := p
    simp only [lookup] at h
    split at h
    · rename_i hk; cases h; subst hk; simp
    · exact List.mem_cons_of_mem _ (ih h)

/-- decidable check of a configuration: no reserved identifier has the form of a handler token, and no reserved
pattern or encoding rule can match at the start of one -/
def handlerSafe (cfg : Cfg) : Bool :=
  cfg.reserved.all (fun k => !isHShape k) &&
  cfg.patterns.all (fun p => p.2.all chkH) && cfg.rules.all (fun p => p.2.all chkH)

theorem verify_hshape {cfg : Cfg} (h : handlerSafe cfg = true) (ty : Str) {r : Str} (hr : isHShape r = true) :
    verify cfg ty r = .ok r := by
  simp only [handlerSafe, Bool.and_eq_true, List.all_eq_true, Bool.not_eq_true'] at h
  obtain ⟨⟨h1, h2⟩, h3⟩ := h
  have hp : ∀ ty, patDry cfg ty r = false := by
    intro ty
    unfold patDry
    split
    · rfl
    · rename_i ps hl
      simp only [matchesAny, List.any_eq_false, Bool.not_eq_true]
      intro p hpm
      exact chkH_sound p (h2 _ (lookup_mem hl) p hpm) hr
  have he : ∀ ty, encodeDry cfg ty r = false := by
    intro ty
    unfold encodeDry
    split
    · rfl
    · rename_i ps hl
      simp only [matchesAny, List.any_eq_false, Bool.not_eq_true]
      intro p hpm
      exact chkH_sound p (h3 _ (lookup_mem hl) p hpm) hr
  have hk : isReserved cfg r = false := by
    cases hres : isReserved cfg r with
    | false => rfl
    | true =>
      simp only [isReserved, List.contains_iff_mem] at hres
      have := h1 r hres
      rw [hr] at this; cases this
  simp [verify, hp, he, hk]

theorem recheck_hshape {bad : Bool} {h : Handler} {e : Err} {s r : Str} {f g : Bool}
    (hg : recheck bad h e s f = .ok (r, g)) (hs : f = true → isHShape s = true) :
    g = true → isHShape r = true := by
  rcases recheck_ok hg with ⟨_, rfl, rfl⟩ | ⟨_, _, hh, _⟩
  · exact hs
  · exact fun _ => cHandler_hshape hh

theorem beforeFix_fired_hshape {cfg : Cfg} {tok ty r : Str}
    (h : stropTraceBeforeFix cfg tok ty = .ok (r, true)) : isHShape r = true := by
  obtain ⟨_, s2, f2, s3, f3, h2, h3, h4⟩ := stropTraceBeforeFix_ok h
  exact recheck_hshape h4 (recheck_hshape h3 (recheck_hshape h2 (by simp))) rfl

/-- For a configuration that passes `handlerSafe` the final verification of the repaired `strop` never fails:
the fix changes nothing. -/
theorem stropTrace_eq_beforeFix {cfg : Cfg} (h : handlerSafe cfg = true) (tok ty : Str) :
    stropTrace cfg tok ty = stropTraceBeforeFix cfg tok ty := by
  unfold stropTrace
  split
  · rename_i e he; rw [he]
  · rename_i r he; rw [he]
  · rename_i r he
    rw [verify_hshape h _ (beforeFix_fired_hshape he), he]

/-- Without handlers nothing can fire. -/
theorem stropTrace_eq_beforeFix_of_no_handler {cfg : Cfg} (h1 : cfg.stropHandler = .none) (h2 : cfg.encHandler = .none)
    (tok ty : Str) : stropTrace cfg tok ty = stropTraceBeforeFix cfg tok ty := by
  unfold stropTrace
  split
  · rename_i e he; rw [he]
  · rename_i r he; rw [he]
  · rename_i r he
    exfalso
    obtain ⟨_, s2, f2, s3, f3, k2, k3, k4⟩ := stropTraceBeforeFix_ok he
    have a2 : f2 = false := by
      rcases recheck_ok k2 with ⟨_, _, x⟩ | ⟨_, x, _, _⟩
      · exact x
      · rw [h1] at x; cases x
    have a3 : f3 = false := by
      rcases recheck_ok k3 with ⟨_, _, x⟩ | ⟨_, x, _, _⟩
      · rw [x, a2]
      · rw [h1] at x; cases x
    rcases recheck_ok k4 with ⟨_, _, x⟩ | ⟨_, x, _, _⟩
    · rw [a3] at x; cases x
    · rw [h2] at x; cases x

section shipped
open NunavutVerif.Gen.StropCfg
theorem handlerSafeC : handlerSafe cfgC = true := by decide +kernel
theorem handlerSafeCpp : handlerSafe cfgCpp = true := by decide +kernel
end shipped

end NunavutVerif.Strop
