import NunavutVerif.Model.Strop
import NunavutVerif.Lemmas.Regex
/-!
Helper lemmas about the stropping model of `Model/Strop.lean` (C09).
-/
namespace NunavutVerif.Strop
open NunavutVerif.Regex

/-- What a successful re-verification step means. -/
theorem recheck_ok {bad : Bool} {h : Handler} {e : Err} {s r : Str} {f g : Bool}
    (hg : recheck bad h e s f = .ok (r, g)) :
    (bad = false ∧ r = s ∧ g = f) ∨ (bad = true ∧ h = .cStyle ∧ cHandler s = some r ∧ g = true) := by
  unfold recheck at hg
  cases bad with
  | false => simp at hg; simp [hg]
  | true =>
    simp only [if_true] at hg
    unfold runHandler at hg
    cases h with
    | none => simp at hg
    | cStyle =>
      cases hc : cHandler s with
      | none => simp [hc] at hg
      | some r' => simp [hc] at hg; simp [hg]

theorem recheck_ok_false {bad : Bool} {h : Handler} {e : Err} {s r : Str} {f : Bool}
    (hg : recheck bad h e s f = .ok (r, false)) : bad = false ∧ r = s ∧ f = false := by
  rcases recheck_ok hg with ⟨a, b, c⟩ | ⟨_, _, _, d⟩
  · exact ⟨a, b, c.symm⟩
  · cases d

/-- The three re-verification steps of `stropTrace`, made explicit. -/
theorem stropTrace_ok {cfg : Cfg} {tok ty r : Str} {g : Bool}
    (h : stropTrace cfg tok ty = .ok (r, g)) :
    lowerAscii ty ≠ tyAll ∧ ∃ s2 f2 s3 f3,
      recheck (patDry cfg tyAll (realPipeline cfg (lowerAscii ty) tok) ||
               patDry cfg (lowerAscii ty) (realPipeline cfg (lowerAscii ty) tok))
        cfg.stropHandler .illegalToken (realPipeline cfg (lowerAscii ty) tok) false = .ok (s2, f2) ∧
      recheck (isReserved cfg s2) cfg.stropHandler .illegalToken s2 f2 = .ok (s3, f3) ∧
      recheck (encodeDry cfg tyAll s3 || encodeDry cfg (lowerAscii ty) s3)
        cfg.encHandler .unstableEncoding s3 f3 = .ok (r, g) := by
  unfold stropTrace at h
  simp only at h
  split at h
  · cases h
  · rename_i hty
    refine ⟨hty, ?_⟩
    split at h
    · cases h
    · rename_i s2 f2 h2
      split at h
      · cases h
      · rename_i s3 f3 h3
        exact ⟨s2, f2, s3, f3, h2, h3, h⟩

end NunavutVerif.Strop
