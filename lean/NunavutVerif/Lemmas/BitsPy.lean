import NunavutVerif.Model.BitsPy
import NunavutVerif.Lemmas.Bits
/-!
Helper lemmas for C14 (Python `Serializer` / `Deserializer`).
-/
namespace NunavutVerif.Bits.Py
open NunavutVerif.Bits

/-! ### ZeroExtendingBuffer -/

theorem getByte_testBit (buf : Buf) (k j : Nat) (hj : j < 8) : (getByte buf k).testBit j = bitAt buf (8 * k + j) := by
  have e1 : (8 * k + j) / 8 = k := by omega
  have e2 : (8 * k + j) % 8 = j := by omega
  unfold getByte bitAt
  rw [e1, e2]
  cases buf[k]? <;> simp

theorem getByte_lt (buf : Buf) (hw : WF buf) (k : Nat) : getByte buf k < 256 := by
  unfold getByte
  cases h : buf[k]? with
  | none => simp
  | some x => exact hw x (List.mem_of_getElem? h)

theorem testBit_ge_of_lt_256 {x j : Nat} (hx : x < 256) (hj : 8 ≤ j) : x.testBit j = false := by
  have : (2 : Nat) ^ 8 ≤ 2 ^ j := Nat.pow_le_pow_right (by omega) hj
  exact Nat.testBit_lt_two_pow (by omega)

theorem getByte_testBit_ge (buf : Buf) (hw : WF buf) (k j : Nat) (hj : 8 ≤ j) : (getByte buf k).testBit j = false :=
  testBit_ge_of_lt_256 (getByte_lt buf hw k) hj

theorem slice_spec (buf : Buf) (l r : Nat) (h : l ≤ r) :
    ∃ out, getUnsignedSlice buf l r = .ok out ∧ out.length = r - l ∧ (WF buf → WF out) ∧
      ∀ k, out[k]? = if k < r - l then some (getByte buf (l + k)) else none := by
  unfold getUnsignedSlice
  simp only [h, not_true_eq_false, if_false]
  have hlen : ((buf.drop l).take (r - l)).length = min (r - l) (buf.length - l) := by simp
  by_cases hs : ((buf.drop l).take (r - l)).length < r - l
  · refine ⟨_, by rw [if_pos hs], by simp; omega, ?_, ?_⟩
    · intro hw x hx
      rcases List.mem_append.mp hx with h1 | h1
      · exact hw x (List.mem_of_mem_drop (List.mem_of_mem_take h1))
      · simp [List.mem_replicate] at h1; omega
    · intro k
      rw [List.getElem?_append]
      by_cases hk : k < ((buf.drop l).take (r - l)).length
      · have : k < r - l := by omega
        rw [if_pos hk, if_pos this, List.getElem?_take, if_pos this, List.getElem?_drop]
        have : l + k < buf.length := by omega
        simp [getByte, this]
      · rw [if_neg hk, List.getElem?_replicate]
        by_cases hk2 : k < r - l
        · have : ¬ l + k < buf.length := by omega
          rw [if_pos hk2, if_pos (by omega)]
          simp [getByte, this]
        · rw [if_neg hk2, if_neg (by omega)]
  · refine ⟨_, by rw [if_neg hs], by omega, ?_, ?_⟩
    · intro hw x hx
      exact hw x (List.mem_of_mem_drop (List.mem_of_mem_take hx))
    · intro k
      rw [List.getElem?_take]
      by_cases hk : k < r - l
      · have : l + k < buf.length := by omega
        rw [if_pos hk, if_pos hk, List.getElem?_drop]
        simp [getByte, this]
      · rw [if_neg hk, if_neg hk]

/-- bits of a slice: the zero-extended bits of the buffer from byte `l` on -/
theorem slice_bits (buf : Buf) (l r : Nat) (h : l ≤ r) :
    ∃ out, getUnsignedSlice buf l r = .ok out ∧ out.length = r - l ∧ (WF buf → WF out) ∧
      ∀ i, bitAt out i = (decide (i < 8 * (r - l)) && bitAt buf (8 * l + i)) := by
  obtain ⟨out, h1, h2, h3, h4⟩ := slice_spec buf l r h
  refine ⟨out, h1, h2, h3, fun i => ?_⟩
  rw [bitAt_eq_getElem?, h4]
  by_cases hk : i / 8 < r - l
  · have e : 8 * l + i = 8 * (l + i / 8) + i % 8 := by omega
    rw [if_pos hk, e, ← getByte_testBit _ _ _ (Nat.mod_lt _ (by omega))]
    simp; omega
  · rw [if_neg hk]; simp; omega

/-! ### Deserializer: bytes and unsigned -/

/-- one byte assembled by the unaligned fetch loop -/
theorem fetchByte_testBit (buf : Buf) (hw : WF buf) (off j : Nat) (hj : j < 8) :
    (((getByte buf (off / 8)) >>> (off % 8)) |||
      (((getByte buf (off / 8 + 1)) <<< (8 - off % 8)) &&& 0xFF)).testBit j = bitAt buf (off + j) := by
  rw [Nat.testBit_or, Nat.testBit_shiftRight, testBit_and_255, Nat.testBit_shiftLeft]
  by_cases h : off % 8 + j < 8
  · have e : off + j = 8 * (off / 8) + (off % 8 + j) := by omega
    rw [e, ← getByte_testBit _ _ _ h]
    have : ¬ j ≥ 8 - off % 8 := by omega
    simp [this]
  · have e : off + j = 8 * (off / 8 + 1) + (j - (8 - off % 8)) := by omega
    rw [e, ← getByte_testBit _ _ _ (by omega), getByte_testBit_ge buf hw _ _ (by omega)]
    have : j ≥ 8 - off % 8 := by omega
    simp [this, hj]

theorem fetchByte_lt (x y l r : Nat) (hx : x < 256) : ((x >>> r) ||| ((y <<< l) &&& 0xFF)) < 256 := by
  have h1 : x >>> r < 2 ^ 8 := Nat.lt_of_le_of_lt (Nat.shiftRight_le _ _) hx
  have h2 : (y <<< l) &&& 0xFF < 2 ^ 8 := Nat.lt_of_le_of_lt Nat.and_le_right (by omega)
  exact Nat.or_lt_two_pow h1 h2

theorem fetchUnalignedLoop_spec (buf : Buf) (hw : WF buf) (n : Nat) : ∀ (off : Nat), off % 8 ≠ 0 →
    (fetchUnalignedLoop buf (8 - off % 8) (off % 8) n off).length = n ∧
    WF (fetchUnalignedLoop buf (8 - off % 8) (off % 8) n off) ∧
    ∀ i, bitAt (fetchUnalignedLoop buf (8 - off % 8) (off % 8) n off) i
      = (decide (i < 8 * n) && bitAt buf (off + i)) := by
  induction n with
  | zero => intro off _; simp [fetchUnalignedLoop, bitAt_nil, WF]
  | succ n ih =>
    intro off hr
    have hmod : (off + 8) % 8 = off % 8 := by omega
    obtain ⟨h1, h2, h3⟩ := ih (off + 8) (by omega)
    rw [hmod] at h1 h2 h3
    rw [fetchUnalignedLoop]
    refine ⟨by simp [h1], ?_, ?_⟩
    · intro x hx
      rcases List.mem_cons.mp hx with e | e
      · rw [e]; exact fetchByte_lt _ _ _ _ (getByte_lt buf hw _)
      · exact h2 x e
    · intro i
      rw [bitAt_cons]
      by_cases hi : i < 8
      · rw [if_pos hi, fetchByte_testBit buf hw off i hi]
        simp; omega
      · rw [if_neg hi, h3]
        have e : off + 8 + (i - 8) = off + i := by omega
        rw [e]
        by_cases h : i < 8 * (n + 1)
        · simp [h, show i - 8 < 8 * n by omega]
        · simp [h, show ¬ i - 8 < 8 * n by omega]

theorem fetchAlignedBytes_spec (d : De) (count : Nat) (ha : d.off % 8 = 0) :
    ∃ bs, fetchAlignedBytes d count = .ok (bs, ⟨d.buf, d.off + count * 8⟩) ∧ bs.length = count ∧
      (WF d.buf → WF bs) ∧ ∀ i, bitAt bs i = (decide (i < 8 * count) && bitAt d.buf (d.off + i)) := by
  obtain ⟨out, h1, h2, h3, h4⟩ := slice_bits d.buf (d.off / 8) (d.off / 8 + count) (by omega)
  refine ⟨out, ?_, by omega, h3, fun i => ?_⟩
  · simp [fetchAlignedBytes, assertAligned, ha, h1, bind, Except.bind]
  · rw [h4, show d.off / 8 + count - d.off / 8 = count by omega, show 8 * (d.off / 8) = d.off by omega]

/-- `fetch_unaligned_bytes`, every branch: never fails, returns `count` bytes holding the zero-extended bits
from the cursor on, advances the cursor by `8·count`. -/
theorem fetchUnalignedBytes_spec (d : De) (count : Nat) (hw : WF d.buf) :
    ∃ bs, fetchUnalignedBytes d count = .ok (bs, ⟨d.buf, d.off + count * 8⟩) ∧ bs.length = count ∧ WF bs ∧
      ∀ i, bitAt bs i = (decide (i < 8 * count) && bitAt d.buf (d.off + i)) := by
  unfold fetchUnalignedBytes
  by_cases hc : count > 0
  · rw [if_pos hc]
    by_cases hu : d.off % 8 ≠ 0
    · rw [if_pos hu]
      obtain ⟨h1, h2, h3⟩ := fetchUnalignedLoop_spec d.buf hw count d.off hu
      exact ⟨_, rfl, h1, h2, h3⟩
    · rw [if_neg hu]
      obtain ⟨bs, h1, h2, h3, h4⟩ := fetchAlignedBytes_spec d count (by omega)
      exact ⟨bs, h1, h2, h3 hw, h4⟩
  · have : count = 0 := by omega
    subst this
    refine ⟨[], by simp, rfl, by simp [WF], fun i => by simp [bitAt_nil]⟩

theorem fromBytesLoop_spec (x : Buf) (hw : WF x) (n : Nat) : ∀ (i : Nat), i + n ≤ x.length →
    ∃ v, fromBytesLoop x n i = .ok v ∧
      ∀ k, v.testBit k = (decide (8 * i ≤ k ∧ k < 8 * (i + n)) && bitAt x k) := by
  induction n with
  | zero => intro i _; exact ⟨0, rfl, fun k => by simp; omega⟩
  | succ n ih =>
    intro i hi
    obtain ⟨v, hv, hb⟩ := ih (i + 1) (by omega)
    have hlt : i < x.length := by omega
    refine ⟨(x[i] <<< (i * 8)) ||| v, ?_, fun k => ?_⟩
    · simp [fromBytesLoop, get?_ok hlt, hv, bind, Except.bind]
    · rw [Nat.testBit_or, Nat.testBit_shiftLeft, hb]
      by_cases h1 : 8 * i ≤ k ∧ k < 8 * (i + 1)
      · have e1 : k / 8 = i := by omega
        have e2 : k % 8 = k - i * 8 := by omega
        have : ¬ (8 * (i + 1) ≤ k ∧ k < 8 * (i + 1 + n)) := by omega
        have h3 : 8 * i ≤ k ∧ k < 8 * (i + (n + 1)) := by omega
        simp [this, h3, bitAt, e1, e2, hlt, show k ≥ i * 8 by omega]
      · by_cases h2 : k ≥ i * 8
        · have : x[i].testBit (k - i * 8) = false := testBit_ge_of_lt_256 (WF_getElem hw hlt) (by omega)
          simp only [h2, decide_true, Bool.true_and, this, Bool.false_or]
          by_cases h3 : 8 * (i + 1) ≤ k ∧ k < 8 * (i + 1 + n)
          · simp [h3, show 8 * i ≤ k ∧ k < 8 * (i + (n + 1)) by omega]
          · simp [h3, show ¬ (8 * i ≤ k ∧ k < 8 * (i + (n + 1))) by omega]
        · simp [h2, show ¬ (8 * (i + 1) ≤ k ∧ k < 8 * (i + 1 + n)) by omega,
            show ¬ (8 * i ≤ k ∧ k < 8 * (i + (n + 1))) by omega]

/-- `_unsigned_from_bytes`: the low `bitLength` bits of the byte string -/
theorem unsignedFromBytes_spec (x : Buf) (bl : Nat) (hw : WF x) (hbl : 1 ≤ bl) (hlen : (bl + 7) / 8 ≤ x.length) :
    unsignedFromBytes x bl = .ok (fieldOf (bitAt x) bl) := by
  unfold unsignedFromBytes
  rw [if_neg (by omega)]
  dsimp only
  rw [if_neg (by omega)]
  generalize hlast : (bl + 7) / 8 - 1 = last
  obtain ⟨low, hlow, hb⟩ := fromBytesLoop_spec x hw last 0 (by omega)
  have hlt : last < x.length := by omega
  simp only [hlow, get?_ok hlt, bind, Except.bind]
  congr 1
  apply Nat.eq_of_testBit_eq
  intro k
  rw [Nat.testBit_or, hb, Nat.testBit_shiftLeft, Nat.testBit_and, testBit_fieldOf]
  by_cases h1 : k < 8 * last
  · have : ¬ k ≥ last * 8 := by omega
    simp [h1, this, show k < bl by omega]
  · have h2 : k ≥ last * 8 := by omega
    have hlow0 : ¬ (8 * 0 ≤ k ∧ k < 8 * (0 + last)) := by omega
    simp only [hlow0, decide_false, Bool.false_and, Bool.false_or, h2, decide_true, Bool.true_and]
    by_cases h3 : k - last * 8 < 8
    · have e1 : k / 8 = last := by omega
      have e2 : k % 8 = k - last * 8 := by omega
      have hx : bitAt x k = x[last].testBit (k - last * 8) := by simp [bitAt, e1, e2, hlt]
      rw [hx]
      by_cases hm : bl % 8 ≠ 0
      · rw [if_pos hm, Nat.testBit_two_pow_sub_one]
        by_cases h4 : k < bl
        · simp [h4, show k - last * 8 < bl % 8 by omega]
        · simp [h4, show ¬ k - last * 8 < bl % 8 by omega]
      · rw [if_neg hm, show (0xFF : Nat) = 2 ^ 8 - 1 from rfl, Nat.testBit_two_pow_sub_one]
        simp [h3, show k < bl by omega]
    · have : x[last].testBit (k - last * 8) = false := testBit_ge_of_lt_256 (WF_getElem hw hlt) (by omega)
      simp [this, show ¬ k < bl by omega]


/-! ### Deserializer: integers and bits -/

theorem fieldOf_congr (f g : Nat → Bool) (n : Nat) (h : ∀ i, i < n → f i = g i) : fieldOf f n = fieldOf g n := by
  apply Nat.eq_of_testBit_eq
  intro i
  rw [testBit_fieldOf, testBit_fieldOf]
  by_cases hi : i < n
  · simp [hi, h i hi]
  · simp [hi]

theorem fetchUnalignedUnsigned_spec (d : De) (bl : Nat) (hw : WF d.buf) (hbl : 1 ≤ bl) :
    fetchUnalignedUnsigned d bl = .ok (deField d bl, ⟨d.buf, d.off + bl⟩) := by
  unfold fetchUnalignedUnsigned
  dsimp only
  obtain ⟨bs, h1, h2, h3, h4⟩ := fetchUnalignedBytes_spec d ((bl + 7) / 8) hw
  rw [h1]
  simp only [bind, Except.bind, sub?, show bl ≤ (bl + 7) / 8 * 8 by omega, if_true,
    show (bl + 7) / 8 * 8 - bl ≤ d.off + (bl + 7) / 8 * 8 by omega]
  rw [unsignedFromBytes_spec bs bl h3 hbl (by omega)]
  have e : d.off + (bl + 7) / 8 * 8 - ((bl + 7) / 8 * 8 - bl) = d.off + bl := by omega
  rw [e]
  have : fieldOf (bitAt bs) bl = deField d bl := by
    apply fieldOf_congr
    intro i hi
    rw [h4]
    simp [show i < 8 * ((bl + 7) / 8) by omega]
  rw [this]

theorem signOf_eq (u bl : Nat) (hbl : 1 ≤ bl) (hu : u < 2 ^ bl) :
    signOf u bl = if u.testBit (bl - 1) then (u : Int) - 2 ^ bl else (u : Int) := by
  unfold signOf
  by_cases hb : u.testBit (bl - 1) = true
  · have : u ≥ 2 ^ (bl - 1) := Nat.ge_two_pow_of_testBit hb
    rw [if_pos this, if_pos hb]
  · have hb' : u.testBit (bl - 1) = false := by cases h : u.testBit (bl - 1) <;> simp_all
    have : u < 2 ^ (bl - 1) := by
      apply Nat.lt_pow_two_of_testBit
      intro i hi
      by_cases e : i = bl - 1
      · rw [e]; exact hb'
      · exact Nat.testBit_lt_two_pow (Nat.lt_of_lt_of_le hu (Nat.pow_le_pow_right (by omega) (by omega)))
    rw [if_neg (by omega), if_neg hb]

theorem fetchUnalignedSigned_spec (d : De) (bl : Nat) (hw : WF d.buf) (hbl : 2 ≤ bl) :
    fetchUnalignedSigned d bl = .ok
      (if (deField d bl).testBit (bl - 1) then (deField d bl : Int) - 2 ^ bl else (deField d bl : Int),
       ⟨d.buf, d.off + bl⟩) := by
  unfold fetchUnalignedSigned
  rw [if_neg (by omega), fetchUnalignedUnsigned_spec d bl hw (by omega)]
  simp only [bind, Except.bind]
  rw [signOf_eq _ bl (by omega) (by unfold deField; exact fieldOf_lt _ _)]

theorem fetchUnalignedBit_spec (d : De) :
    fetchUnalignedBit d = .ok (bitAt d.buf d.off, ⟨d.buf, d.off + 1⟩) := by
  unfold fetchUnalignedBit
  dsimp only
  congr 2
  have hj : d.off % 8 < 8 := Nat.mod_lt _ (by omega)
  have hb : bitAt d.buf d.off = (getByte d.buf (d.off / 8)).testBit (d.off % 8) := by
    rw [getByte_testBit _ _ _ hj]; congr 1; omega
  rw [hb]
  generalize getByte d.buf (d.off / 8) = x
  generalize d.off % 8 = j
  have h := and_two_pow_ne_zero x j
  rw [Nat.one_shiftLeft] at *
  cases hx : x.testBit j
  · rw [hx] at h
    have : x &&& 2 ^ j = 0 := by simpa using h
    rw [this]
    have : (0 : Nat) ≠ 2 ^ j := Nat.ne_of_lt (Nat.two_pow_pos j)
    simp [this]
  · have : x &&& 2 ^ j = 2 ^ j := by
      apply Nat.eq_of_testBit_eq
      intro i
      rw [Nat.testBit_and, Nat.testBit_two_pow]
      by_cases e : j = i
      · subst e; simp [hx]
      · simp [e]
    rw [this]; simp

theorem fetchAlignedUnsigned_spec (d : De) (bl : Nat) (hw : WF d.buf) (hbl : 1 ≤ bl) (ha : d.off % 8 = 0) :
    fetchAlignedUnsigned d bl = .ok (deField d bl, ⟨d.buf, d.off + bl⟩) := by
  unfold fetchAlignedUnsigned
  obtain ⟨bs, h1, h2, h3, h4⟩ := slice_bits d.buf (d.off / 8) (d.off / 8 + (bl + 7) / 8) (by omega)
  simp only [assertAligned, ha, if_true, h1, bind, Except.bind]
  rw [unsignedFromBytes_spec bs bl (h3 hw) hbl (by omega)]
  have : fieldOf (bitAt bs) bl = deField d bl := by
    apply fieldOf_congr
    intro i hi
    rw [h4, show 8 * (d.off / 8) = d.off by omega]
    simp; omega
  rw [this]

theorem fetchAlignedSigned_spec (d : De) (bl : Nat) (hw : WF d.buf) (hbl : 2 ≤ bl) (ha : d.off % 8 = 0) :
    fetchAlignedSigned d bl = .ok
      (if (deField d bl).testBit (bl - 1) then (deField d bl : Int) - 2 ^ bl else (deField d bl : Int),
       ⟨d.buf, d.off + bl⟩) := by
  unfold fetchAlignedSigned
  rw [if_neg (by omega), fetchAlignedUnsigned_spec d bl hw (by omega) ha]
  simp only [bind, Except.bind]
  rw [signOf_eq _ bl (by omega) (by unfold deField; exact fieldOf_lt _ _)]


end NunavutVerif.Bits.Py
