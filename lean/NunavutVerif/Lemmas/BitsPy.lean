import NunavutVerif.Model.BitsPy
import NunavutVerif.Lemmas.Bits
/-!
Helper lemmas for C14 (Python `Serializer` / `Deserializer`).
-/
namespace NunavutVerif.Bits.Py
open NunavutVerif.Bits

/-! ### ZeroExtendingBuffer -/

theorem getByte_testBit (buf : Buf) (k j : Nat) (hj : j < 8) : (getByte buf k).testBit j = bitAt buf (8 * k + j) := by
  have e1 : (8 * k + j) / 8 = k := by omega
  have e2 : (8 * k + j) % 8 = j := by omega
  unfold getByte bitAt
  rw [e1, e2]
  cases buf[k]? <;> simp

theorem getByte_lt (buf : Buf) (hw : WF buf) (k : Nat) : getByte buf k < 256 := by
  unfold getByte
  cases h : buf[k]? with
  | none => simp
  | some x => exact hw x (List.mem_of_getElem? h)

theorem testBit_ge_of_lt_256 {x j : Nat} (hx : x < 256) (hj : 8 ≤ j) : x.testBit j = false := by
  have : (2 : Nat) ^ 8 ≤ 2 ^ j := Nat.pow_le_pow_right (by omega) hj
  exact Nat.testBit_lt_two_pow (by omega)

theorem getByte_testBit_ge (buf : Buf) (hw : WF buf) (k j : Nat) (hj : 8 ≤ j) : (getByte buf k).testBit j = false :=
  testBit_ge_of_lt_256 (getByte_lt buf hw k) hj

theorem slice_spec (buf : Buf) (l r : Nat) (h : l ≤ r) :
    ∃ out, getUnsignedSlice buf l r = .ok out ∧ out.length = r - l ∧ (WF buf → WF out) ∧
      ∀ k, out[k]? = if k < r - l then some (getByte buf (l + k)) else none := by
  unfold getUnsignedSlice
  simp only [h, not_true_eq_false, if_false]
  have hlen : ((buf.drop l).take (r - l)).length = min (r - l) (buf.length - l) := by simp
  by_cases hs : ((buf.drop l).take (r - l)).length < r - l
  · refine ⟨_, by rw [if_pos hs], by simp; omega, ?_, ?_⟩
    · intro hw x hx
      rcases List.mem_append.mp hx with h1 | h1
      · exact hw x (List.mem_of_mem_drop (List.mem_of_mem_take h1))
      · simp [List.mem_replicate] at h1; omega
    · intro k
      rw [List.getElem?_append]
      by_cases hk : k < ((buf.drop l).take (r - l)).length
      · have : k < r - l := by omega
        rw [if_pos hk, if_pos this, List.getElem?_take, if_pos this, List.getElem?_drop]
        have : l + k < buf.length := by omega
        simp [getByte, this]
      · rw [if_neg hk, List.getElem?_replicate]
        by_cases hk2 : k < r - l
        · have : ¬ l + k < buf.length := by omega
          rw [if_pos hk2, if_pos (by omega)]
          simp [getByte, this]
        · rw [if_neg hk2, if_neg (by omega)]
  · refine ⟨_, by rw [if_neg hs], by omega, ?_, ?_⟩
    · intro hw x hx
      exact hw x (List.mem_of_mem_drop (List.mem_of_mem_take hx))
    · intro k
      rw [List.getElem?_take]
      by_cases hk : k < r - l
      · have : l + k < buf.length := by omega
        rw [if_pos hk, if_pos hk, List.getElem?_drop]
        simp [getByte, this]
      · rw [if_neg hk, if_neg hk]

/-- bits of a slice: the zero-extended bits of the buffer from byte `l` on -/
theorem slice_bits (buf : Buf) (l r : Nat) (h : l ≤ r) :
    ∃ out, getUnsignedSlice buf l r = .ok out ∧ out.length = r - l ∧ (WF buf → WF out) ∧
      ∀ i, bitAt out i = (decide (i < 8 * (r - l)) && bitAt buf (8 * l + i)) := by
  obtain ⟨out, h1, h2, h3, h4⟩ := slice_spec buf l r h
  refine ⟨out, h1, h2, h3, fun i => ?_⟩
  rw [bitAt_eq_getElem?, h4]
  by_cases hk : i / 8 < r - l
  · have e : 8 * l + i = 8 * (l + i / 8) + i % 8 := by omega
    rw [if_pos hk, e, ← getByte_testBit _ _ _ (Nat.mod_lt _ (by omega))]
    simp; omega
  · rw [if_neg hk]; simp; omega

end NunavutVerif.Bits.Py
