import NunavutVerif.Model.BitsPy
import NunavutVerif.Lemmas.Bits
/-!
Helper lemmas for C14 (Python `Serializer` / `Deserializer`).
-/
namespace NunavutVerif.Bits.Py
open NunavutVerif.Bits

/-! ### ZeroExtendingBuffer -/

theorem getByte_testBit (buf : Buf) (k j : Nat) (hj : j < 8) : (getByte buf k).testBit j = bitAt buf (8 * k + j) := by
  have e1 : (8 * k + j) / 8 = k := by omega
  have e2 : (8 * k + j) % 8 = j := by omega
  unfold getByte bitAt
  rw [e1, e2]
  cases buf[k]? <;> simp

theorem getByte_lt (buf : Buf) (hw : WF buf) (k : Nat) : getByte buf k < 256 := by
  unfold getByte
  cases h : buf[k]? with
  | none => simp
  | some x => exact hw x (List.mem_of_getElem? h)

theorem testBit_ge_of_lt_256 {x j : Nat} (hx : x < 256) (hj : 8 ≤ j) : x.testBit j = false := by
  have : (2 : Nat) ^ 8 ≤ 2 ^ j := Nat.pow_le_pow_right (by omega) hj
  exact Nat.testBit_lt_two_pow (by omega)

theorem getByte_testBit_ge (buf : Buf) (hw : WF buf) (k j : Nat) (hj : 8 ≤ j) : (getByte buf k).testBit j = false :=
  testBit_ge_of_lt_256 (getByte_lt buf hw k) hj

theorem slice_spec (buf : Buf) (l r : Nat) (h : l ≤ r) :
    ∃ out, getUnsignedSlice buf l r = .ok out ∧ out.length = r - l ∧ (WF buf → WF out) ∧
      ∀ k, out[k]? = if k < r - l then some (getByte buf (l + k)) else none := by
  unfold getUnsignedSlice
  simp only [h, not_true_eq_false, if_false]
  have hlen : ((buf.drop l).take (r - l)).length = min (r - l) (buf.length - l) := by simp
  by_cases hs : ((buf.drop l).take (r - l)).length < r - l
  · refine ⟨_, by rw [if_pos hs], by simp; omega, ?_, ?_⟩
    · intro hw x hx
      rcases List.mem_append.mp hx with h1 | h1
      · exact hw x (List.mem_of_mem_drop (List.mem_of_mem_take h1))
      · simp [List.mem_replicate] at h1; omega
    · intro k
      rw [List.getElem?_append]
      by_cases hk : k < ((buf.drop l).take (r - l)).length
      · have : k < r - l := by omega
        rw [if_pos hk, if_pos this, List.getElem?_take, if_pos this, List.getElem?_drop]
        have : l + k < buf.length := by omega
        simp [getByte, this]
      · rw [if_neg hk, List.getElem?_replicate]
        by_cases hk2 : k < r - l
        · have : ¬ l + k < buf.length := by omega
          rw [if_pos hk2, if_pos (by omega)]
          simp [getByte, this]
        · rw [if_neg hk2, if_neg (by omega)]
  · refine ⟨_, by rw [if_neg hs], by omega, ?_, ?_⟩
    · intro hw x hx
      exact hw x (List.mem_of_mem_drop (List.mem_of_mem_take hx))
    · intro k
      rw [List.getElem?_take]
      by_cases hk : k < r - l
      · have : l + k < buf.length := by omega
        rw [if_pos hk, if_pos hk, List.getElem?_drop]
        simp [getByte, this]
      · rw [if_neg hk, if_neg hk]

/-- bits of a slice: the zero-extended bits of the buffer from byte `l` on -/
theorem slice_bits (buf : Buf) (l r : Nat) (h : l ≤ r) :
    ∃ out, getUnsignedSlice buf l r = .ok out ∧ out.length = r - l ∧ (WF buf → WF out) ∧
      ∀ i, bitAt out i = (decide (i < 8 * (r - l)) && bitAt buf (8 * l + i)) := by
  obtain ⟨out, h1, h2, h3, h4⟩ := slice_spec buf l r h
  refine ⟨out, h1, h2, h3, fun i => ?_⟩
  rw [bitAt_eq_getElem?, h4]
  by_cases hk : i / 8 < r - l
  · have e : 8 * l + i = 8 * (l + i / 8) + i % 8 := by omega
    rw [if_pos hk, e, ← getByte_testBit _ _ _ (Nat.mod_lt _ (by omega))]
    simp; omega
  · rw [if_neg hk]; simp; omega

/-! ### Deserializer: bytes and unsigned -/

/-- one byte assembled by the unaligned fetch loop -/
theorem fetchByte_testBit (buf : Buf) (hw : WF buf) (off j : Nat) (hj : j < 8) :
    (((getByte buf (off / 8)) >>> (off % 8)) |||
      (((getByte buf (off / 8 + 1)) <<< (8 - off % 8)) &&& 0xFF)).testBit j = bitAt buf (off + j) := by
  rw [Nat.testBit_or, Nat.testBit_shiftRight, testBit_and_255, Nat.testBit_shiftLeft]
  by_cases h : off % 8 + j < 8
  · have e : off + j = 8 * (off / 8) + (off % 8 + j) := by omega
    rw [e, ← getByte_testBit _ _ _ h]
    have : ¬ j ≥ 8 - off % 8 := by omega
    simp [this]
  · have e : off + j = 8 * (off / 8 + 1) + (j - (8 - off % 8)) := by omega
    rw [e, ← getByte_testBit _ _ _ (by omega), getByte_testBit_ge buf hw _ _ (by omega)]
    have : j ≥ 8 - off % 8 := by omega
    simp [this, hj]

theorem fetchByte_lt (x y l r : Nat) (hx : x < 256) : ((x >>> r) ||| ((y <<< l) &&& 0xFF)) < 256 := by
  have h1 : x >>> r < 2 ^ 8 := Nat.lt_of_le_of_lt (Nat.shiftRight_le _ _) hx
  have h2 : (y <<< l) &&& 0xFF < 2 ^ 8 := Nat.lt_of_le_of_lt Nat.and_le_right (by omega)
  exact Nat.or_lt_two_pow h1 h2

theorem fetchUnalignedLoop_spec (buf : Buf) (hw : WF buf) (n : Nat) : ∀ (off : Nat), off % 8 ≠ 0 →
    (fetchUnalignedLoop buf (8 - off % 8) (off % 8) n off).length = n ∧
    WF (fetchUnalignedLoop buf (8 - off % 8) (off % 8) n off) ∧
    ∀ i, bitAt (fetchUnalignedLoop buf (8 - off % 8) (off % 8) n off) i
      = (decide (i < 8 * n) && bitAt buf (off + i)) := by
  induction n with
  | zero => intro off _; simp [fetchUnalignedLoop, bitAt_nil, WF]
  | succ n ih =>
    intro off hr
    have hmod : (off + 8) % 8 = off % 8 := by omega
    obtain ⟨h1, h2, h3⟩ := ih (off + 8) (by omega)
    rw [hmod] at h1 h2 h3
    rw [fetchUnalignedLoop]
    refine ⟨by simp [h1], ?_, ?_⟩
    · intro x hx
      rcases List.mem_cons.mp hx with e | e
      · rw [e]; exact fetchByte_lt _ _ _ _ (getByte_lt buf hw _)
      · exact h2 x e
    · intro i
      rw [bitAt_cons]
      by_cases hi : i < 8
      · rw [if_pos hi, fetchByte_testBit buf hw off i hi]
        simp; omega
      · rw [if_neg hi, h3]
        have e : off + 8 + (i - 8) = off + i := by omega
        rw [e]
        by_cases h : i < 8 * (n + 1)
        · simp [h, show i - 8 < 8 * n by omega]
        · simp [h, show ¬ i - 8 < 8 * n by omega]

theorem fetchAlignedBytes_spec (d : De) (count : Nat) (ha : d.off % 8 = 0) :
    ∃ bs, fetchAlignedBytes d count = .ok (bs, ⟨d.buf, d.off + count * 8⟩) ∧ bs.length = count ∧
      (WF d.buf → WF bs) ∧ ∀ i, bitAt bs i = (decide (i < 8 * count) && bitAt d.buf (d.off + i)) := by
  obtain ⟨out, h1, h2, h3, h4⟩ := slice_bits d.buf (d.off / 8) (d.off / 8 + count) (by omega)
  refine ⟨out, ?_, by omega, h3, fun i => ?_⟩
  · simp [fetchAlignedBytes, assertAligned, ha, h1, bind, Except.bind]
  · rw [h4, show d.off / 8 + count - d.off / 8 = count by omega, show 8 * (d.off / 8) = d.off by omega]

/-- `fetch_unaligned_bytes`, every branch: never fails, returns `count` bytes holding the zero-extended bits
from the cursor on, advances the cursor by `8·count`. -/
theorem fetchUnalignedBytes_spec (d : De) (count : Nat) (hw : WF d.buf) :
    ∃ bs, fetchUnalignedBytes d count = .ok (bs, ⟨d.buf, d.off + count * 8⟩) ∧ bs.length = count ∧ WF bs ∧
      ∀ i, bitAt bs i = (decide (i < 8 * count) && bitAt d.buf (d.off + i)) := by
  unfold fetchUnalignedBytes
  by_cases hc : count > 0
  · rw [if_pos hc]
    by_cases hu : d.off % 8 ≠ 0
    · rw [if_pos hu]
      obtain ⟨h1, h2, h3⟩ := fetchUnalignedLoop_spec d.buf hw count d.off hu
      exact ⟨_, rfl, h1, h2, h3⟩
    · rw [if_neg hu]
      obtain ⟨bs, h1, h2, h3, h4⟩ := fetchAlignedBytes_spec d count (by omega)
      exact ⟨bs, h1, h2, h3 hw, h4⟩
  · have : count = 0 := by omega
    subst this
    refine ⟨[], by simp, rfl, by simp [WF], fun i => by simp [bitAt_nil]⟩

theorem fromBytesLoop_spec (x : Buf) (hw : WF x) (n : Nat) : ∀ (i : Nat), i + n ≤ x.length →
    ∃ v, fromBytesLoop x n i = .ok v ∧
      ∀ k, v.testBit k = (decide (8 * i ≤ k ∧ k < 8 * (i + n)) && bitAt x k) := by
  induction n with
  | zero => intro i _; exact ⟨0, rfl, fun k => by simp; omega⟩
  | succ n ih =>
    intro i hi
    obtain ⟨v, hv, hb⟩ := ih (i + 1) (by omega)
    have hlt : i < x.length := by omega
    refine ⟨(x[i] <<< (i * 8)) ||| v, ?_, fun k => ?_⟩
    · simp [fromBytesLoop, get?_ok hlt, hv, bind, Except.bind]
    · rw [Nat.testBit_or, Nat.testBit_shiftLeft, hb]
      by_cases h1 : 8 * i ≤ k ∧ k < 8 * (i + 1)
      · have e1 : k / 8 = i := by omega
        have e2 : k % 8 = k - i * 8 := by omega
        have : ¬ (8 * (i + 1) ≤ k ∧ k < 8 * (i + 1 + n)) := by omega
        have h3 : 8 * i ≤ k ∧ k < 8 * (i + (n + 1)) := by omega
        simp [this, h3, bitAt, e1, e2, hlt, show k ≥ i * 8 by omega]
      · by_cases h2 : k ≥ i * 8
        · have : x[i].testBit (k - i * 8) = false := testBit_ge_of_lt_256 (WF_getElem hw hlt) (by omega)
          simp only [h2, decide_true, Bool.true_and, this, Bool.false_or]
          by_cases h3 : 8 * (i + 1) ≤ k ∧ k < 8 * (i + 1 + n)
          · simp [h3, show 8 * i ≤ k ∧ k < 8 * (i + (n + 1)) by omega]
          · simp [h3, show ¬ (8 * i ≤ k ∧ k < 8 * (i + (n + 1))) by omega]
        · simp [h2, show ¬ (8 * (i + 1) ≤ k ∧ k < 8 * (i + 1 + n)) by omega,
            show ¬ (8 * i ≤ k ∧ k < 8 * (i + (n + 1))) by omega]

/-- `_unsigned_from_bytes`: the low `bitLength` bits of the byte string -/
theorem unsignedFromBytes_spec (x : Buf) (bl : Nat) (hw : WF x) (hbl : 1 ≤ bl) (hlen : (bl + 7) / 8 ≤ x.length) :
    unsignedFromBytes x bl = .ok (fieldOf (bitAt x) bl) := by
  unfold unsignedFromBytes
  rw [if_neg (by omega)]
  dsimp only
  rw [if_neg (by omega)]
  generalize hlast : (bl + 7) / 8 - 1 = last
  obtain ⟨low, hlow, hb⟩ := fromBytesLoop_spec x hw last 0 (by omega)
  have hlt : last < x.length := by omega
  simp only [hlow, get?_ok hlt, bind, Except.bind]
  congr 1
  apply Nat.eq_of_testBit_eq
  intro k
  rw [Nat.testBit_or, hb, Nat.testBit_shiftLeft, Nat.testBit_and, testBit_fieldOf]
  by_cases h1 : k < 8 * last
  · have : ¬ k ≥ last * 8 := by omega
    simp [h1, this, show k < bl by omega]
  · have h2 : k ≥ last * 8 := by omega
    have hlow0 : ¬ (8 * 0 ≤ k ∧ k < 8 * (0 + last)) := by omega
    simp only [hlow0, decide_false, Bool.false_and, Bool.false_or, h2, decide_true, Bool.true_and]
    by_cases h3 : k - last * 8 < 8
    · have e1 : k / 8 = last := by omega
      have e2 : k % 8 = k - last * 8 := by omega
      have hx : bitAt x k = x[last].testBit (k - last * 8) := by simp [bitAt, e1, e2, hlt]
      rw [hx]
      by_cases hm : bl % 8 ≠ 0
      · rw [if_pos hm, Nat.testBit_two_pow_sub_one]
        by_cases h4 : k < bl
        · simp [h4, show k - last * 8 < bl % 8 by omega]
        · simp [h4, show ¬ k - last * 8 < bl % 8 by omega]
      · rw [if_neg hm, show (0xFF : Nat) = 2 ^ 8 - 1 from rfl, Nat.testBit_two_pow_sub_one]
        simp [h3, show k < bl by omega]
    · have : x[last].testBit (k - last * 8) = false := testBit_ge_of_lt_256 (WF_getElem hw hlt) (by omega)
      simp [this, show ¬ k < bl by omega]


/-! ### Deserializer: integers and bits -/

theorem fieldOf_congr (f g : Nat → Bool) (n : Nat) (h : ∀ i, i < n → f i = g i) : fieldOf f n = fieldOf g n := by
  apply Nat.eq_of_testBit_eq
  intro i
  rw [testBit_fieldOf, testBit_fieldOf]
  by_cases hi : i < n
  · simp [hi, h i hi]
  · simp [hi]

theorem fetchUnalignedUnsigned_spec (d : De) (bl : Nat) (hw : WF d.buf) (hbl : 1 ≤ bl) :
    fetchUnalignedUnsigned d bl = .ok (deField d bl, ⟨d.buf, d.off + bl⟩) := by
  unfold fetchUnalignedUnsigned
  dsimp only
  obtain ⟨bs, h1, h2, h3, h4⟩ := fetchUnalignedBytes_spec d ((bl + 7) / 8) hw
  rw [h1]
  simp only [bind, Except.bind, sub?, show bl ≤ (bl + 7) / 8 * 8 by omega, if_true,
    show (bl + 7) / 8 * 8 - bl ≤ d.off + (bl + 7) / 8 * 8 by omega]
  rw [unsignedFromBytes_spec bs bl h3 hbl (by omega)]
  have e : d.off + (bl + 7) / 8 * 8 - ((bl + 7) / 8 * 8 - bl) = d.off + bl := by omega
  rw [e]
  have : fieldOf (bitAt bs) bl = deField d bl := by
    apply fieldOf_congr
    intro i hi
    rw [h4]
    simp [show i < 8 * ((bl + 7) / 8) by omega]
  rw [this]

theorem signOf_eq (u bl : Nat) (hbl : 1 ≤ bl) (hu : u < 2 ^ bl) :
    signOf u bl = if u.testBit (bl - 1) then (u : Int) - 2 ^ bl else (u : Int) := by
  unfold signOf
  by_cases hb : u.testBit (bl - 1) = true
  · have : u ≥ 2 ^ (bl - 1) := Nat.ge_two_pow_of_testBit hb
    rw [if_pos this, if_pos hb]
  · have hb' : u.testBit (bl - 1) = false := by cases h : u.testBit (bl - 1) <;> simp_all
    have : u < 2 ^ (bl - 1) := by
      apply Nat.lt_pow_two_of_testBit
      intro i hi
      by_cases e : i = bl - 1
      · rw [e]; exact hb'
      · exact Nat.testBit_lt_two_pow (Nat.lt_of_lt_of_le hu (Nat.pow_le_pow_right (by omega) (by omega)))
    rw [if_neg (by omega), if_neg hb]

theorem fetchUnalignedSigned_spec (d : De) (bl : Nat) (hw : WF d.buf) (hbl : 2 ≤ bl) :
    fetchUnalignedSigned d bl = .ok
      (if (deField d bl).testBit (bl - 1) then (deField d bl : Int) - 2 ^ bl else (deField d bl : Int),
       ⟨d.buf, d.off + bl⟩) := by
  unfold fetchUnalignedSigned
  rw [if_neg (by omega), fetchUnalignedUnsigned_spec d bl hw (by omega)]
  simp only [bind, Except.bind]
  rw [signOf_eq _ bl (by omega) (by unfold deField; exact fieldOf_lt _ _)]

theorem fetchUnalignedBit_spec (d : De) :
    fetchUnalignedBit d = .ok (bitAt d.buf d.off, ⟨d.buf, d.off + 1⟩) := by
  unfold fetchUnalignedBit
  dsimp only
  congr 2
  have hj : d.off % 8 < 8 := Nat.mod_lt _ (by omega)
  have hb : bitAt d.buf d.off = (getByte d.buf (d.off / 8)).testBit (d.off % 8) := by
    rw [getByte_testBit _ _ _ hj]; congr 1; omega
  rw [hb]
  generalize getByte d.buf (d.off / 8) = x
  generalize d.off % 8 = j
  have h := and_two_pow_ne_zero x j
  rw [Nat.one_shiftLeft] at *
  cases hx : x.testBit j
  · rw [hx] at h
    have : x &&& 2 ^ j = 0 := by simpa using h
    rw [this]
    have : (0 : Nat) ≠ 2 ^ j := Nat.ne_of_lt (Nat.two_pow_pos j)
    simp [this]
  · have : x &&& 2 ^ j = 2 ^ j := by
      apply Nat.eq_of_testBit_eq
      intro i
      rw [Nat.testBit_and, Nat.testBit_two_pow]
      by_cases e : j = i
      · subst e; simp [hx]
      · simp [e]
    rw [this]; simp

theorem fetchAlignedUnsigned_spec (d : De) (bl : Nat) (hw : WF d.buf) (hbl : 1 ≤ bl) (ha : d.off % 8 = 0) :
    fetchAlignedUnsigned d bl = .ok (deField d bl, ⟨d.buf, d.off + bl⟩) := by
  unfold fetchAlignedUnsigned
  obtain ⟨bs, h1, h2, h3, h4⟩ := slice_bits d.buf (d.off / 8) (d.off / 8 + (bl + 7) / 8) (by omega)
  simp only [assertAligned, ha, if_true, h1, bind, Except.bind]
  rw [unsignedFromBytes_spec bs bl (h3 hw) hbl (by omega)]
  have : fieldOf (bitAt bs) bl = deField d bl := by
    apply fieldOf_congr
    intro i hi
    rw [h4, show 8 * (d.off / 8) = d.off by omega]
    simp; omega
  rw [this]

theorem fetchAlignedSigned_spec (d : De) (bl : Nat) (hw : WF d.buf) (hbl : 2 ≤ bl) (ha : d.off % 8 = 0) :
    fetchAlignedSigned d bl = .ok
      (if (deField d bl).testBit (bl - 1) then (deField d bl : Int) - 2 ^ bl else (deField d bl : Int),
       ⟨d.buf, d.off + bl⟩) := by
  unfold fetchAlignedSigned
  rw [if_neg (by omega), fetchAlignedUnsigned_spec d bl hw (by omega) ha]
  simp only [bind, Except.bind]
  rw [signOf_eq _ bl (by omega) (by unfold deField; exact fieldOf_lt _ _)]


/-! ### Serializer: unaligned bytes -/

theorem Inv_bit {s : Ser} (h : s.Inv) {i : Nat} (hi : s.off ≤ i) : bitAt s.buf i = false := h.2 i hi

/-- one iteration of the `add_unaligned_bytes` loop -/
theorem addStep_spec (s : Ser) (b : Nat) (hinv : s.Inv) (hb : b < 256) (hroom : s.off / 8 + 1 < s.buf.length) :
    ∃ buf2, (do
        let cur ← get? s.buf (s.off / 8)
        let buf1 ← set? s.buf (s.off / 8) (cur ||| ((b <<< (s.off % 8)) &&& 255))
        set? buf1 ((s.off + 8) / 8) (b >>> (8 - s.off % 8))) = Except.ok buf2 ∧
      buf2.length = s.buf.length ∧ WF buf2 ∧
      ∀ i, bitAt buf2 i = if i < s.off then bitAt s.buf i else (decide (i < s.off + 8) && b.testBit (i - s.off)) := by
  have h1 : s.off / 8 < s.buf.length := by omega
  have e8 : (s.off + 8) / 8 = s.off / 8 + 1 := by omega
  generalize hcur : s.buf[s.off / 8] = cur
  have hcurlt : cur < 256 := hcur ▸ WF_getElem hinv.1 h1
  have hcurbit : ∀ i, i / 8 = s.off / 8 → bitAt s.buf i = cur.testBit (i % 8) := by
    intro i hi; rw [bitAt_eq_getElem?, hi, List.getElem?_eq_getElem h1, hcur]
  refine ⟨(s.buf.set (s.off / 8) (cur ||| ((b <<< (s.off % 8)) &&& 255))).set (s.off / 8 + 1) (b >>> (8 - s.off % 8)),
    ?_, by simp, ?_, ?_⟩
  · simp only [get?_ok h1, hcur, set?_ok h1, bind, Except.bind, e8]
    rw [set?_ok (by simp; omega)]
  · apply WF_set
    · apply WF_set hinv.1
      exact Nat.or_lt_two_pow (n := 8) hcurlt (Nat.lt_of_le_of_lt Nat.and_le_right (by omega))
    · exact Nat.lt_of_le_of_lt (Nat.shiftRight_le _ _) hb
  · intro i
    have hj : i % 8 < 8 := Nat.mod_lt _ (by omega)
    rw [bitAt_set, bitAt_set]
    simp only [List.length_set]
    by_cases hA : i / 8 = s.off / 8 + 1
    · rw [if_pos ⟨hA, by omega⟩, Nat.testBit_shiftRight, if_neg (by omega)]
      by_cases hB : i < s.off + 8
      · simp only [hB, decide_true, Bool.true_and]
        congr 1; omega
      · simp only [hB, decide_false, Bool.false_and]
        exact testBit_ge_of_lt_256 hb (by omega)
    · rw [if_neg (fun c => hA c.1)]
      by_cases hC : i / 8 = s.off / 8
      · rw [if_pos ⟨hC, h1⟩, Nat.testBit_or, testBit_and_255, Nat.testBit_shiftLeft, ← hcurbit i hC]
        by_cases hD : i < s.off
        · rw [if_pos hD]
          simp [show ¬ i % 8 ≥ s.off % 8 by omega]
        · rw [if_neg hD, Inv_bit hinv (by omega)]
          have : i % 8 - s.off % 8 = i - s.off := by omega
          simp [show i % 8 ≥ s.off % 8 by omega, show i < s.off + 8 by omega, hj, this]
      · rw [if_neg (fun c => hC c.1)]
        by_cases hD : i < s.off
        · rw [if_pos hD]
        · rw [if_neg hD, Inv_bit hinv (by omega)]
          simp [show ¬ i < s.off + 8 by omega]

theorem addUnalignedBytesLoop_spec (value : Buf) : ∀ (s : Ser), s.Inv → WF value →
    s.off / 8 + value.length < s.buf.length →
    ∃ s', addUnalignedBytesLoop (s.off % 8) (8 - s.off % 8) s value = .ok s' ∧
      Appends s s' (8 * value.length) (bitAt value) := by
  induction value with
  | nil =>
    intro s hinv _ _
    refine ⟨s, rfl, by simp, rfl, hinv, fun i => ?_⟩
    by_cases h : i < s.off
    · rw [if_pos h]
    · rw [if_neg h, Inv_bit hinv (by omega)]; simp [bitAt_nil]
  | cons b bs ih =>
    intro s hinv hwv hroom
    have hb : b < 256 := hwv b List.mem_cons_self
    simp only [List.length_cons] at hroom
    obtain ⟨buf2, hstep, hlen2, hwf2, hbits2⟩ := addStep_spec s b hinv hb (by omega)
    have hinv1 : Ser.Inv ⟨buf2, s.off + 8⟩ := by
      refine ⟨hwf2, fun i hi => ?_⟩
      have hi' : s.off + 8 ≤ i := hi
      show bitAt buf2 i = false
      rw [hbits2, if_neg (by omega)]
      simp [show ¬ i < s.off + 8 by omega]
    have hmod : (s.off + 8) % 8 = s.off % 8 := by omega
    obtain ⟨s', hs', ha1, ha2, ha3, ha4⟩ := ih ⟨buf2, s.off + 8⟩ hinv1 (WF_tail hwv) (by show (s.off + 8) / 8 + bs.length < buf2.length; omega)
    simp only [hmod] at hs'
    refine ⟨s', ?_, ?_, ?_, ha3, fun i => ?_⟩
    · rw [addUnalignedBytesLoop]
      have := hstep
      simp only [bind, Except.bind] at this ⊢
      revert this
      cases get? s.buf (s.off / 8) with
      | error e => intro h; exact absurd h (by simp)
      | ok cur =>
        simp only []
        cases set? s.buf (s.off / 8) (cur ||| ((b <<< (s.off % 8)) &&& 255)) with
        | error e => intro h; exact absurd h (by simp)
        | ok buf1 =>
          simp only []
          intro h
          rw [h]
          exact hs'
    · simp only [List.length_cons]; rw [ha1]; show s.off + 8 + 8 * bs.length = _; omega
    · rw [ha2]; exact hlen2
    · rw [ha4]
      show (if i < s.off + 8 then bitAt buf2 i else (decide (i < s.off + 8 + 8 * bs.length) && bitAt bs (i - (s.off + 8)))) = _
      by_cases h1 : i < s.off
      · rw [if_pos (by omega), hbits2, if_pos h1, if_pos h1]
      · rw [if_neg h1, bitAt_cons]
        by_cases h2 : i < s.off + 8
        · rw [if_pos h2, hbits2, if_neg h1, if_pos (by omega)]
          simp [h2, show i < s.off + 8 * (bs.length + 1) by omega]
        · rw [if_neg h2, if_neg (by omega), show i - (s.off + 8) = i - s.off - 8 by omega]
          simp only [List.length_cons]
          by_cases h3 : i < s.off + 8 + 8 * bs.length
          · simp [h3, show i < s.off + 8 * (bs.length + 1) by omega]
          · simp [h3, show ¬ i < s.off + 8 * (bs.length + 1) by omega]

/-- `add_unaligned_bytes`: on an invariant state with room for the value and the spare byte, exactly the bytes of
the value are appended. -/
theorem addUnalignedBytes_spec (s : Ser) (value : Buf) (hinv : s.Inv) (hwv : WF value)
    (hroom : s.off / 8 + value.length < s.buf.length) :
    ∃ s', addUnalignedBytes s value = .ok s' ∧ Appends s s' (8 * value.length) (bitAt value) :=
  addUnalignedBytesLoop_spec value s hinv hwv hroom


/-! ### Serializer: unaligned integers and bits -/

theorem bytesLoop_spec (n : Nat) : ∀ v : Nat,
    (bytesLoop v n).length = n ∧ WF (bytesLoop v n) ∧
    ∀ i, bitAt (bytesLoop v n) i = (decide (i < 8 * n) && v.testBit i) := by
  induction n with
  | zero => intro v; simp [bytesLoop, bitAt_nil, WF]
  | succ n ih =>
    intro v
    obtain ⟨h1, h2, h3⟩ := ih (v >>> 8)
    rw [bytesLoop]
    refine ⟨by simp [h1], ?_, fun i => ?_⟩
    · intro x hx
      rcases List.mem_cons.mp hx with e | e
      · rw [e]; exact Nat.lt_of_le_of_lt Nat.and_le_right (by omega)
      · exact h2 x e
    · rw [bitAt_cons]
      by_cases hi : i < 8
      · rw [if_pos hi, testBit_and_255]
        simp [hi, show i < 8 * (n + 1) by omega]
      · rw [if_neg hi, h3, Nat.testBit_shiftRight, show 8 + (i - 8) = i by omega]
        by_cases h : i < 8 * (n + 1)
        · simp [h, show i - 8 < 8 * n by omega]
        · simp [h, show ¬ i - 8 < 8 * n by omega]

/-- `_unsigned_to_bytes`: `ceil(bl/8)` bytes holding the low `bl` bits of the value, zero above -/
theorem unsignedToBytes_spec (v bl : Nat) (hbl : 1 ≤ bl) :
    ∃ bs, unsignedToBytes v bl = .ok bs ∧ bs.length = (bl + 7) / 8 ∧ WF bs ∧
      ∀ i, bitAt bs i = (decide (i < bl) && v.testBit i) := by
  unfold unsignedToBytes
  rw [if_neg (by omega)]
  obtain ⟨h1, h2, h3⟩ := bytesLoop_spec ((bl + 7) / 8) (v &&& (2 ^ bl - 1))
  refine ⟨_, rfl, h1, h2, fun i => ?_⟩
  rw [h3, Nat.testBit_and, Nat.testBit_two_pow_sub_one]
  by_cases h : i < bl
  · simp [h, show i < 8 * ((bl + 7) / 8) by omega]
  · simp [h]

/-- `add_unaligned_unsigned`: exactly the low `bl` bits of the value are appended. -/
theorem addUnalignedUnsigned_spec (s : Ser) (value : Int) (bl : Nat) (hinv : s.Inv) (hv : 0 ≤ value)
    (hbl : 1 ≤ bl) (hroom : s.off / 8 + (bl + 7) / 8 < s.buf.length) :
    ∃ s', addUnalignedUnsigned s value bl = .ok s' ∧ Appends s s' bl value.toNat.testBit := by
  unfold addUnalignedUnsigned
  obtain ⟨bs, hbs, hlen, hwf, hbits⟩ := unsignedToBytes_spec value.toNat bl hbl
  obtain ⟨s1, hs1, ha1, ha2, ha3, ha4⟩ := addUnalignedBytes_spec s bs hinv hwf (by omega)
  have hback : bl ≤ bs.length * 8 := by omega
  refine ⟨⟨s1.buf, s.off + bl⟩, ?_, rfl, ha2, ⟨ha3.1, fun i hi => ?_⟩, fun i => ?_⟩
  · simp only [ensureNotNegative, show ¬ value < 0 by omega, if_false, hbs, bind, Except.bind, sub?, hback, if_true,
      hs1, show bs.length * 8 - bl ≤ s1.off by omega]
    rw [show s1.off - (bs.length * 8 - bl) = s.off + bl by omega]
  · have hi' : s.off + bl ≤ i := hi
    show bitAt s1.buf i = false
    rw [ha4, if_neg (by omega), hbits]
    simp [show ¬ i - s.off < bl by omega]
  · show bitAt s1.buf i = _
    rw [ha4]
    by_cases h1 : i < s.off
    · rw [if_pos h1, if_pos h1]
    · rw [if_neg h1, if_neg h1, hbits]
      by_cases h2 : i < s.off + bl
      · simp [h2, show i < s.off + 8 * bs.length by omega, show i - s.off < bl by omega]
      · simp [h2, show ¬ i - s.off < bl by omega]

/-- `add_unaligned_signed`: the two's-complement bits of an in-range value are appended. -/
theorem addUnalignedSigned_spec (s : Ser) (value : Int) (bl : Nat) (hinv : s.Inv) (hbl : 2 ≤ bl)
    (hlo : -(2 ^ bl) ≤ value) (hroom : s.off / 8 + (bl + 7) / 8 < s.buf.length) :
    ∃ s', addUnalignedSigned s value bl = .ok s' ∧
      Appends s s' bl (if value < 0 then 2 ^ bl + value else value).toNat.testBit := by
  unfold addUnalignedSigned
  rw [if_neg (by omega)]
  have hp : (0 : Int) < 2 ^ bl := Int.pow_pos (by omega)
  exact addUnalignedUnsigned_spec s _ bl hinv (by split <;> omega) (by omega) hroom

/-- `add_unaligned_bit` -/
theorem addUnalignedBit_spec (s : Ser) (x : Bool) (hinv : s.Inv) (hroom : s.off / 8 < s.buf.length) :
    ∃ s', addUnalignedBit s x = .ok s' ∧ Appends s s' 1 (fun _ => x) := by
  unfold addUnalignedBit
  generalize hcur : s.buf[s.off / 8] = cur
  have hcurlt : cur < 256 := hcur ▸ WF_getElem hinv.1 hroom
  have hcurbit : ∀ i, i / 8 = s.off / 8 → bitAt s.buf i = cur.testBit (i % 8) := by
    intro i hi; rw [bitAt_eq_getElem?, hi, List.getElem?_eq_getElem hroom, hcur]
  have hbits : ∀ i, bitAt (s.buf.set (s.off / 8) (cur ||| ((if x then 1 else 0) <<< (s.off % 8)))) i
      = if i < s.off then bitAt s.buf i else (decide (i < s.off + 1) && x) := by
    intro i
    rw [bitAt_set]
    by_cases hC : i / 8 = s.off / 8
    · rw [if_pos ⟨hC, hroom⟩, Nat.testBit_or, Nat.testBit_shiftLeft, ← hcurbit i hC]
      by_cases hD : i < s.off
      · rw [if_pos hD]; simp [show ¬ i % 8 ≥ s.off % 8 by omega]
      · rw [if_neg hD, Inv_bit hinv (by omega)]
        by_cases hE : i = s.off
        · subst hE; cases x <;> simp
        · have : i % 8 - s.off % 8 ≠ 0 := by omega
          have h1 : Nat.testBit 1 (i % 8 - s.off % 8) = false := by
            rw [show (1 : Nat) = 2 ^ 0 from rfl, Nat.testBit_two_pow]; simp; omega
          cases x <;> simp [show ¬ i < s.off + 1 by omega, h1]
    · rw [if_neg (fun c => hC c.1)]
      by_cases hD : i < s.off
      · rw [if_pos hD]
      · rw [if_neg hD, Inv_bit hinv (by omega)]; simp [show ¬ i < s.off + 1 by omega]
  refine ⟨⟨s.buf.set (s.off / 8) (cur ||| ((if x then 1 else 0) <<< (s.off % 8))), s.off + 1⟩, ?_, rfl, by simp,
    ⟨?_, fun i hi => ?_⟩, hbits⟩
  · simp only [get?_ok hroom, hcur, set?_ok hroom, bind, Except.bind]
  · apply WF_set hinv.1
    have : (if x then 1 else 0) <<< (s.off % 8) < 2 ^ 8 := by
      have hm : s.off % 8 < 8 := Nat.mod_lt _ (by omega)
      cases x
      · simp
      · simp only [if_true, Nat.one_shiftLeft]; exact Nat.pow_lt_pow_right (by omega) hm
    exact Nat.or_lt_two_pow (n := 8) hcurlt this
  · have hi' : s.off + 1 ≤ i := hi
    show bitAt (s.buf.set _ _) i = false
    rw [hbits, if_neg (by omega)]; simp [show ¬ i < s.off + 1 by omega]


/-! ### Serializer: aligned bytes and integers of arbitrary width -/

theorem writeAll_spec (bs : Buf) : ∀ (buf : Buf) (a : Nat), a + bs.length ≤ buf.length →
    (writeAll buf a bs).length = buf.length ∧
    ∀ k, (writeAll buf a bs)[k]? = if a ≤ k ∧ k < a + bs.length then bs[k - a]? else buf[k]? := by
  induction bs with
  | nil => intro buf a _; exact ⟨rfl, fun k => by rw [if_neg (by simp)]; rfl⟩
  | cons b bs ih =>
    intro buf a h
    simp only [List.length_cons] at h
    obtain ⟨h1, h2⟩ := ih (buf.set a b) (a + 1) (by simp; omega)
    rw [writeAll]
    refine ⟨by simpa using h1, fun k => ?_⟩
    rw [h2]
    simp only [List.length_cons]
    by_cases hk : k = a
    · subst hk
      rw [if_neg (by omega), if_pos (by omega)]
      simp [show k < buf.length by omega]
    · have hne : ¬ a = k := fun e => hk e.symm
      by_cases hin : a + 1 ≤ k ∧ k < a + 1 + bs.length
      · rw [if_pos hin, if_pos (by omega), show k - a = (k - (a + 1)) + 1 by omega]
        simp
      · rw [if_neg hin, if_neg (by omega)]
        simp [hne]

theorem writeAll_bits (bs buf : Buf) (a : Nat) (h : a + bs.length ≤ buf.length) (i : Nat) :
    bitAt (writeAll buf a bs) i =
      if 8 * a ≤ i ∧ i < 8 * (a + bs.length) then bitAt bs (i - 8 * a) else bitAt buf i := by
  obtain ⟨_, h2⟩ := writeAll_spec bs buf a h
  rw [bitAt_eq_getElem?, h2]
  by_cases hin : a ≤ i / 8 ∧ i / 8 < a + bs.length
  · rw [if_pos hin, if_pos (by omega), bitAt_eq_getElem?, show (i - 8 * a) / 8 = i / 8 - a by omega,
      show (i - 8 * a) % 8 = i % 8 by omega]
  · rw [if_neg hin, if_neg (by omega), bitAt_eq_getElem?]

theorem writeAll_WF (bs : Buf) : ∀ (buf : Buf) (a : Nat), WF buf → WF bs → WF (writeAll buf a bs) := by
  induction bs with
  | nil => intro buf a h _; exact h
  | cons b bs ih =>
    intro buf a h hb
    rw [writeAll]
    exact ih _ _ (WF_set h (hb b List.mem_cons_self)) (WF_tail hb)

theorem setSlice_ok (buf : Buf) (a : Nat) (bs : Buf) (h : a + bs.length ≤ buf.length) :
    setSlice buf a bs = .ok (writeAll buf a bs) := by
  unfold setSlice
  simp only []
  rw [if_pos (by omega)]

/-- writing whole bytes at an aligned cursor: appends the first `n` bits when the rest of the bytes is zero -/
theorem addAlignedCore (s : Ser) (bs : Buf) (n : Nat) (hinv : s.Inv) (ha : s.off % 8 = 0) (hw : WF bs)
    (hn : n ≤ 8 * bs.length) (hz : ∀ i, n ≤ i → bitAt bs i = false)
    (hroom : s.off / 8 + bs.length ≤ s.buf.length) :
    Appends s ⟨writeAll s.buf (s.off / 8) bs, s.off + n⟩ n (bitAt bs) := by
  have hb := writeAll_bits bs s.buf (s.off / 8) hroom
  refine ⟨rfl, (writeAll_spec bs s.buf _ hroom).1, ⟨writeAll_WF bs _ _ hinv.1 hw, fun i hi => ?_⟩, fun i => ?_⟩
  · have hi' : s.off + n ≤ i := hi
    show bitAt (writeAll _ _ _) i = false
    rw [hb]
    by_cases hin : 8 * (s.off / 8) ≤ i ∧ i < 8 * (s.off / 8 + bs.length)
    · rw [if_pos hin]; exact hz _ (by omega)
    · rw [if_neg hin]; exact Inv_bit hinv (by omega)
  · show bitAt (writeAll _ _ _) i = _
    rw [hb]
    by_cases h1 : i < s.off
    · rw [if_neg (by omega), if_pos h1]
    · rw [if_neg h1]
      by_cases hin : 8 * (s.off / 8) ≤ i ∧ i < 8 * (s.off / 8 + bs.length)
      · rw [if_pos hin, show i - 8 * (s.off / 8) = i - s.off by omega]
        by_cases h2 : i < s.off + n
        · simp [h2]
        · simp [h2, hz (i - s.off) (by omega)]
      · rw [if_neg hin, Inv_bit hinv (by omega)]
        simp [show ¬ i < s.off + n by omega]

/-- `add_aligned_bytes` -/
theorem addAlignedBytes_spec (s : Ser) (x : Buf) (hinv : s.Inv) (ha : s.off % 8 = 0) (hw : WF x)
    (hroom : s.off / 8 + x.length ≤ s.buf.length) :
    ∃ s', addAlignedBytes s x = .ok s' ∧ Appends s s' (8 * x.length) (bitAt x) := by
  refine ⟨⟨writeAll s.buf (s.off / 8) x, s.off + 8 * x.length⟩, ?_, ?_⟩
  · simp only [addAlignedBytes, assertAligned, ha, if_true, setSlice_ok _ _ _ hroom, bind, Except.bind]
    rw [show x.length * 8 = 8 * x.length by omega]
  · exact addAlignedCore s x _ hinv ha hw (by omega) (fun i hi => bitAt_of_ge (by omega)) hroom

/-- `add_aligned_unsigned` -/
theorem addAlignedUnsigned_spec (s : Ser) (value : Int) (bl : Nat) (hinv : s.Inv) (ha : s.off % 8 = 0)
    (hv : 0 ≤ value) (hbl : 1 ≤ bl) (hroom : s.off / 8 + (bl + 7) / 8 ≤ s.buf.length) :
    ∃ s', addAlignedUnsigned s value bl = .ok s' ∧ Appends s s' bl value.toNat.testBit := by
  obtain ⟨bs, hbs, hlen, hwf, hbits⟩ := unsignedToBytes_spec value.toNat bl hbl
  have hcore := addAlignedCore s bs bl hinv ha hwf (by omega) (fun i hi => by rw [hbits]; simp; omega) (by omega)
  refine ⟨_, ?_, hcore.1, hcore.2.1, hcore.2.2.1, fun i => ?_⟩
  · simp only [addAlignedUnsigned, assertAligned, ha, if_true, ensureNotNegative, show ¬ value < 0 by omega, if_false,
      hbs, setSlice_ok _ _ _ (show s.off / 8 + bs.length ≤ s.buf.length by omega), bind, Except.bind]
  · rw [hcore.2.2.2 i, hbits]
    by_cases h1 : i < s.off
    · rw [if_pos h1, if_pos h1]
    · rw [if_neg h1, if_neg h1]
      by_cases h2 : i < s.off + bl
      · simp [h2, show i - s.off < bl by omega]
      · simp [h2]

theorem addAlignedSigned_spec (s : Ser) (value : Int) (bl : Nat) (hinv : s.Inv) (ha : s.off % 8 = 0)
    (hbl : 2 ≤ bl) (hlo : -(2 ^ bl) ≤ value) (hroom : s.off / 8 + (bl + 7) / 8 ≤ s.buf.length) :
    ∃ s', addAlignedSigned s value bl = .ok s' ∧
      Appends s s' bl (if value < 0 then 2 ^ bl + value else value).toNat.testBit := by
  unfold addAlignedSigned
  rw [if_neg (by omega)]
  have hp : (0 : Int) < 2 ^ bl := Int.pow_pos (by omega)
  exact addAlignedUnsigned_spec s _ bl hinv ha (by split <;> omega) (by omega) hroom


/-! ### Serializer: aligned standard-width integers -/

theorem Appends_congr {s s' : Ser} {n : Nat} {f g : Nat → Bool} (h : ∀ i, i < n → f i = g i)
    (ha : Appends s s' n f) : Appends s s' n g := by
  obtain ⟨h1, h2, h3, h4⟩ := ha
  refine ⟨h1, h2, h3, fun i => ?_⟩
  rw [h4]
  by_cases hi : i < s.off
  · rw [if_pos hi, if_pos hi]
  · rw [if_neg hi, if_neg hi]
    by_cases h2 : i < s.off + n
    · simp [h2, h (i - s.off) (by omega)]
    · simp [h2]

theorem Appends_trans {s s1 s2 : Ser} {n1 n2 : Nat} {f g : Nat → Bool}
    (ha : Appends s s1 n1 f) (hb : Appends s1 s2 n2 g) :
    Appends s s2 (n1 + n2) (fun i => if i < n1 then f i else g (i - n1)) := by
  obtain ⟨a1, a2, a3, a4⟩ := ha
  obtain ⟨b1, b2, b3, b4⟩ := hb
  refine ⟨by omega, by omega, b3, fun i => ?_⟩
  rw [b4, a1]
  by_cases h1 : i < s.off
  · rw [if_pos (by omega), a4, if_pos h1, if_pos h1]
  · rw [if_neg h1]
    by_cases h2 : i < s.off + n1
    · rw [if_pos h2, a4, if_neg h1]
      simp [h2, show i < s.off + (n1 + n2) by omega, show i - s.off < n1 by omega]
    · rw [if_neg h2, show i - (s.off + n1) = i - s.off - n1 by omega]
      by_cases h3 : i < s.off + n1 + n2
      · simp [h3, show i < s.off + (n1 + n2) by omega, show ¬ i - s.off < n1 by omega]
      · simp [h3, show ¬ i < s.off + (n1 + n2) by omega]

theorem bitAt_single (v i : Nat) : bitAt [v] i = (decide (i < 8) && v.testBit i) := by
  rw [bitAt_cons]; by_cases h : i < 8 <;> simp [h, bitAt_nil]

/-- `add_aligned_u8` -/
theorem addAlignedU8_spec (s : Ser) (x : Int) (hinv : s.Inv) (ha : s.off % 8 = 0) (hx : 0 ≤ x) (hx2 : x < 256)
    (hroom : s.off / 8 + 1 ≤ s.buf.length) :
    ∃ s', addAlignedU8 s x = .ok s' ∧ Appends s s' 8 x.toNat.testBit := by
  have hv : x.toNat < 256 := by omega
  have hcore := addAlignedCore s [x.toNat] 8 hinv ha (by intro y hy; simp at hy; omega) (by simp)
    (fun i hi => by rw [bitAt_single]; simp; omega) (by simpa using hroom)
  refine ⟨_, ?_, Appends_congr (fun i hi => by rw [bitAt_single]; simp [hi]) hcore⟩
  simp only [addAlignedU8, assertAligned, ha, if_true, ensureNotNegative, show ¬ x < 0 by omega, if_false,
    show ¬ x.toNat ≥ 256 by omega, set?_ok (show s.off / 8 < s.buf.length by omega), bind, Except.bind, writeAll]

theorem Appends_aligned {s s' : Ser} {n : Nat} {f : Nat → Bool} (h : Appends s s' n f) (ha : s.off % 8 = 0)
    (hn : n % 8 = 0) : s'.off % 8 = 0 ∧ s'.off / 8 = s.off / 8 + n / 8 := by
  rw [h.1]; omega

/-- `add_aligned_u16` -/
theorem addAlignedU16_spec (s : Ser) (x : Int) (hinv : s.Inv) (ha : s.off % 8 = 0) (hx : 0 ≤ x)
    (hroom : s.off / 8 + 2 ≤ s.buf.length) :
    ∃ s', addAlignedU16 s x = .ok s' ∧ Appends s s' 16 x.toNat.testBit := by
  generalize hv : x.toNat = v
  have hm : ∀ y : Nat, ((y &&& 255 : Nat) : Int) < 256 := by
    intro y; have : y &&& 255 ≤ 255 := Nat.and_le_right; omega
  obtain ⟨s1, h1, a1⟩ := addAlignedU8_spec s ((v &&& 255 : Nat) : Int) hinv ha (by omega) (hm _) (by omega)
  obtain ⟨al, ao⟩ := Appends_aligned a1 ha (by omega)
  obtain ⟨s2, h2, a2⟩ := addAlignedU8_spec s1 (((v >>> 8) &&& 255 : Nat) : Int) a1.2.2.1 al (by omega) (hm _)
    (by rw [a1.2.1]; omega)
  refine ⟨s2, ?_, Appends_congr (fun i hi => ?_) (Appends_trans a1 a2)⟩
  · simp only [addAlignedU16, ensureNotNegative, show ¬ x < 0 by omega, if_false, hv, bind, Except.bind, h1, h2]
  · simp only [Int.toNat_natCast]
    by_cases h8 : i < 8
    · rw [if_pos h8, testBit_and_255]; simp [h8]
    · rw [if_neg h8, testBit_and_255, Nat.testBit_shiftRight, show 8 + (i - 8) = i by omega]
      simp [show i - 8 < 8 by omega]

theorem toNat_shiftRight (x : Int) (hx : 0 ≤ x) (k : Nat) : 0 ≤ x >>> k ∧ (x >>> k).toNat = x.toNat >>> k := by
  obtain ⟨n, rfl⟩ := Int.eq_ofNat_of_zero_le hx
  constructor
  · exact Int.natCast_nonneg _
  · rfl

/-- doubling: `f(x); f(x >> W)` appends `2W` bits when `f` appends `W` -/
theorem addDouble_spec (W : Nat) (f : Ser → Int → Except Err Ser) (hW : W % 8 = 0)
    (hf : ∀ (s : Ser) (x : Int), s.Inv → s.off % 8 = 0 → 0 ≤ x → s.off / 8 + W / 8 ≤ s.buf.length →
      ∃ s', f s x = .ok s' ∧ Appends s s' W x.toNat.testBit)
    (s : Ser) (x : Int) (hinv : s.Inv) (ha : s.off % 8 = 0) (hx : 0 ≤ x)
    (hroom : s.off / 8 + (2 * W) / 8 ≤ s.buf.length) :
    ∃ s', (do let s1 ← f s x; f s1 (x >>> W)) = .ok s' ∧ Appends s s' (2 * W) x.toNat.testBit := by
  obtain ⟨s1, h1, a1⟩ := hf s x hinv ha hx (by omega)
  obtain ⟨al, ao⟩ := Appends_aligned a1 ha hW
  obtain ⟨hs0, hs1⟩ := toNat_shiftRight x hx W
  obtain ⟨s2, h2, a2⟩ := hf s1 (x >>> W) a1.2.2.1 al hs0 (by rw [a1.2.1]; omega)
  refine ⟨s2, by simp only [h1, h2, bind, Except.bind], ?_⟩
  rw [show 2 * W = W + W by omega]
  refine Appends_congr (fun i hi => ?_) (Appends_trans a1 a2)
  by_cases h : i < W
  · rw [if_pos h]
  · rw [if_neg h, hs1, Nat.testBit_shiftRight, show W + (i - W) = i by omega]

theorem addAlignedU32_spec (s : Ser) (x : Int) (hinv : s.Inv) (ha : s.off % 8 = 0) (hx : 0 ≤ x)
    (hroom : s.off / 8 + 4 ≤ s.buf.length) :
    ∃ s', addAlignedU32 s x = .ok s' ∧ Appends s s' 32 x.toNat.testBit :=
  addDouble_spec 16 addAlignedU16 (by omega)
    (fun s x hi ha hx hr => addAlignedU16_spec s x hi ha hx (by omega)) s x hinv ha hx (by omega)

theorem addAlignedU64_spec (s : Ser) (x : Int) (hinv : s.Inv) (ha : s.off % 8 = 0) (hx : 0 ≤ x)
    (hroom : s.off / 8 + 8 ≤ s.buf.length) :
    ∃ s', addAlignedU64 s x = .ok s' ∧ Appends s s' 64 x.toNat.testBit :=
  addDouble_spec 32 addAlignedU32 (by omega)
    (fun s x hi ha hx hr => addAlignedU32_spec s x hi ha hx (by omega)) s x hinv ha hx (by omega)



/-- `add_aligned_i8/16/32/64` on an in-range value -/
theorem addAlignedI_spec (W : Nat) (s : Ser) (x : Int) (hW : W = 8 ∨ W = 16 ∨ W = 32 ∨ W = 64) (hinv : s.Inv)
    (ha : s.off % 8 = 0) (hlo : -(2 ^ (W - 1)) ≤ x) (hhi : x < 2 ^ (W - 1))
    (hroom : s.off / 8 + W / 8 ≤ s.buf.length) :
    ∃ s', addAlignedI W s x = .ok s' ∧ Appends s s' W (if x < 0 then 2 ^ W + x else x).toNat.testBit := by
  unfold addAlignedI
  have hp : (2 : Int) ^ W = 2 * 2 ^ (W - 1) := by
    have : W = (W - 1) + 1 := by omega
    rw [this, Int.pow_succ, Nat.add_sub_cancel]; omega
  have hpp : (0 : Int) < 2 ^ (W - 1) := Int.pow_pos (by omega)
  have hu : 0 ≤ (if x < 0 then 2 ^ W + x else x) := by split <;> omega
  rcases hW with rfl | rfl | rfl | rfl
  · simp only [if_true]
    exact addAlignedU8_spec s _ hinv ha hu (by split <;> omega) (by omega)
  · simp only [show ¬ (16 = 8) by omega, if_false, if_true]
    exact addAlignedU16_spec s _ hinv ha hu (by omega)
  · simp only [show ¬ (32 = 8) by omega, show ¬ (32 = 16) by omega, if_false, if_true]
    exact addAlignedU32_spec s _ hinv ha hu (by omega)
  · simp only [show ¬ (64 = 8) by omega, show ¬ (64 = 16) by omega, show ¬ (64 = 32) by omega, if_false, if_true]
    exact addAlignedU64_spec s _ hinv ha hu (by omega)

/-! ### Deserializer: aligned standard widths -/

theorem fetchAlignedU8_spec (d : De) (ha : d.off % 8 = 0) (hw : WF d.buf) :
    fetchAlignedU8 d = .ok (deField d 8, ⟨d.buf, d.off + 8⟩) := by
  simp only [fetchAlignedU8, assertAligned, ha, if_true, bind, Except.bind]
  congr 2
  apply Nat.eq_of_testBit_eq
  intro i
  unfold deField
  rw [testBit_fieldOf]
  by_cases hi : i < 8
  · rw [getByte_testBit _ _ _ hi, show 8 * (d.off / 8) + i = d.off + i by omega]; simp [hi]
  · rw [getByte_testBit_ge _ hw _ _ (by omega)]; simp [hi]

theorem deField_double (d : De) (W : Nat) :
    deField d W ||| (deField ⟨d.buf, d.off + W⟩ W <<< W) = deField d (2 * W) := by
  apply Nat.eq_of_testBit_eq
  intro i
  unfold deField
  rw [Nat.testBit_or, Nat.testBit_shiftLeft, testBit_fieldOf, testBit_fieldOf, testBit_fieldOf]
  by_cases h1 : i < W
  · simp [h1, show i < 2 * W by omega, show ¬ i ≥ W by omega]
  · by_cases h2 : i < 2 * W
    · simp [h1, h2, show i ≥ W by omega, show i - W < W by omega, show d.off + W + (i - W) = d.off + i by omega]
    · simp [h1, h2, show ¬ i - W < W by omega]

theorem fetchDouble_spec (W : Nat) (f : De → Except Err (Nat × De)) (hW : W % 8 = 0)
    (hf : ∀ d : De, d.off % 8 = 0 → WF d.buf → f d = .ok (deField d W, ⟨d.buf, d.off + W⟩))
    (d : De) (ha : d.off % 8 = 0) (hw : WF d.buf) :
    (do let (a, d1) ← f d; let (b, d2) ← f d1; Except.ok (a ||| (b <<< W), d2))
      = .ok (deField d (2 * W), ⟨d.buf, d.off + 2 * W⟩) := by
  rw [hf d ha hw]
  simp only [bind, Except.bind]
  rw [hf ⟨d.buf, d.off + W⟩ (by show (d.off + W) % 8 = 0; omega) hw]
  simp only []
  rw [deField_double, show d.off + W + W = d.off + 2 * W by omega]

theorem fetchAlignedU16_spec (d : De) (ha : d.off % 8 = 0) (hw : WF d.buf) :
    fetchAlignedU16 d = .ok (deField d 16, ⟨d.buf, d.off + 16⟩) :=
  fetchDouble_spec 8 fetchAlignedU8 (by omega) fetchAlignedU8_spec d ha hw

theorem fetchAlignedU32_spec (d : De) (ha : d.off % 8 = 0) (hw : WF d.buf) :
    fetchAlignedU32 d = .ok (deField d 32, ⟨d.buf, d.off + 32⟩) :=
  fetchDouble_spec 16 fetchAlignedU16 (by omega) fetchAlignedU16_spec d ha hw

theorem fetchAlignedU64_spec (d : De) (ha : d.off % 8 = 0) (hw : WF d.buf) :
    fetchAlignedU64 d = .ok (deField d 64, ⟨d.buf, d.off + 64⟩) :=
  fetchDouble_spec 32 fetchAlignedU32 (by omega) fetchAlignedU32_spec d ha hw

theorem fetchAlignedU_spec (W : Nat) (d : De) (hW : W = 8 ∨ W = 16 ∨ W = 32 ∨ W = 64) (ha : d.off % 8 = 0)
    (hw : WF d.buf) : fetchAlignedU W d = .ok (deField d W, ⟨d.buf, d.off + W⟩) := by
  unfold fetchAlignedU
  rcases hW with rfl | rfl | rfl | rfl
  · simp only [if_true]; exact fetchAlignedU8_spec d ha hw
  · simp only [show ¬ (16 = 8) by omega, if_false, if_true]; exact fetchAlignedU16_spec d ha hw
  · simp only [show ¬ (32 = 8) by omega, show ¬ (32 = 16) by omega, if_false, if_true]
    exact fetchAlignedU32_spec d ha hw
  · simp only [show ¬ (64 = 8) by omega, show ¬ (64 = 16) by omega, show ¬ (64 = 32) by omega, if_false, if_true]
    exact fetchAlignedU64_spec d ha hw

theorem fetchAlignedI_spec (W : Nat) (d : De) (hW : W = 8 ∨ W = 16 ∨ W = 32 ∨ W = 64) (ha : d.off % 8 = 0)
    (hw : WF d.buf) :
    fetchAlignedI W d = .ok
      (if (deField d W).testBit (W - 1) then (deField d W : Int) - 2 ^ W else (deField d W : Int),
       ⟨d.buf, d.off + W⟩) := by
  unfold fetchAlignedI
  rw [fetchAlignedU_spec W d hW ha hw]
  simp only [bind, Except.bind]
  have := signOf_eq (deField d W) W (by omega) (by unfold deField; exact fieldOf_lt _ _)
  unfold signOf at this
  rw [this]


/-! ### arrays of bits -/

theorem oneBit_testBit (b : Bool) (j : Nat) : (if b then 1 else 0 : Nat).testBit j = (decide (j = 0) && b) := by
  cases b
  · simp
  · simp only [if_true, Bool.and_true]
    rw [show (1 : Nat) = 2 ^ 0 from rfl, Nat.testBit_two_pow]
    by_cases h : j = 0 <;> simp [h] <;> omega

theorem packBitsAux_spec (x : List Bool) : ∀ (k cur : Nat), k < 8 → cur < 2 ^ k →
    (packBitsAux x k cur).length = (k + x.length + 7) / 8 ∧ WF (packBitsAux x k cur) ∧
    ∀ i, bitAt (packBitsAux x k cur) i = if i < k then cur.testBit i else bitOf x (i - k) := by
  induction x with
  | nil =>
    intro k cur hk hc
    rw [packBitsAux]
    by_cases h0 : k = 0
    · subst h0
      simp [bitAt_nil, WF, bitOf]
    · rw [if_neg h0]
      have h256 : cur < 256 := Nat.lt_of_lt_of_le hc (by
        have : (2 : Nat) ^ k ≤ 2 ^ 8 := Nat.pow_le_pow_right (by omega) (by omega)
        omega)
      refine ⟨by simp; omega, by intro y hy; simp at hy; omega, fun i => ?_⟩
      rw [bitAt_single]
      by_cases hi : i < k
      · simp [hi, show i < 8 by omega]
      · have : cur.testBit i = false :=
          Nat.testBit_lt_two_pow (Nat.lt_of_lt_of_le hc (Nat.pow_le_pow_right (by omega) (by omega)))
        simp [hi, this, bitOf]
  | cons b bs ih =>
    intro k cur hk hc
    rw [packBitsAux]
    generalize hc' : cur ||| ((if b then 1 else 0) <<< k) = cur'
    have hlt' : cur' < 2 ^ (k + 1) := by
      rw [← hc']
      apply Nat.or_lt_two_pow
      · exact Nat.lt_of_lt_of_le hc (Nat.pow_le_pow_right (by omega) (by omega))
      · cases b
        · simp; exact Nat.two_pow_pos _
        · simp only [if_true, Nat.one_shiftLeft]; exact Nat.pow_lt_pow_right (by omega) (by omega)
    have hbit' : ∀ i, cur'.testBit i = if i < k then cur.testBit i else (decide (i = k) && b) := by
      intro i
      rw [← hc', Nat.testBit_or, Nat.testBit_shiftLeft, oneBit_testBit]
      by_cases hi : i < k
      · simp [hi, show ¬ i ≥ k by omega]
      · have : cur.testBit i = false :=
          Nat.testBit_lt_two_pow (Nat.lt_of_lt_of_le hc (Nat.pow_le_pow_right (by omega) (by omega)))
        by_cases he : i = k
        · subst he; simp [this]
        · simp [hi, this, he, show i ≥ k by omega, show ¬ i - k = 0 by omega]
    by_cases h7 : k = 7
    · subst h7
      rw [if_pos rfl]
      obtain ⟨l1, w1, b1⟩ := ih 0 0 (by omega) (by simp)
      refine ⟨by simp [l1]; omega, ?_, fun i => ?_⟩
      · intro y hy
        rcases List.mem_cons.mp hy with e | e
        · rw [e]; exact hlt'
        · exact w1 y e
      · rw [bitAt_cons]
        by_cases hi : i < 8
        · rw [if_pos hi, hbit']
          by_cases h : i < 7
          · rw [if_pos h, if_pos h]
          · have : i = 7 := by omega
            subst this; simp [bitOf]
        · rw [if_neg hi, b1, if_neg (by omega), if_neg (by omega)]
          simp [bitOf, show i - 7 = (i - 8) + 1 by omega]
    · rw [if_neg h7]
      obtain ⟨l1, w1, b1⟩ := ih (k + 1) cur' (by omega) hlt'
      refine ⟨by rw [l1]; simp; omega, w1, fun i => ?_⟩
      rw [b1]
      by_cases hi : i < k
      · rw [if_pos (by omega), if_pos hi, hbit', if_pos hi]
      · by_cases he : i = k
        · subst he; rw [if_pos (by omega), if_neg hi, hbit', if_neg hi]; simp [bitOf]
        · rw [if_neg (by omega), if_neg hi]
          simp [bitOf, show i - k = (i - (k + 1)) + 1 by omega]

/-- `numpy.packbits(x, bitorder="little")` -/
theorem packBits_spec (x : List Bool) :
    (packBits x).length = (x.length + 7) / 8 ∧ WF (packBits x) ∧ ∀ i, bitAt (packBits x) i = bitOf x i := by
  unfold packBits
  obtain ⟨h1, h2, h3⟩ := packBitsAux_spec x 0 0 (by omega) (by simp)
  refine ⟨by simpa using h1, h2, fun i => ?_⟩
  rw [h3]; simp

theorem bitOf_ge (x : List Bool) (i : Nat) (h : x.length ≤ i) : bitOf x i = false := by
  simp [bitOf, h]

/-- `add_unaligned_array_of_bits` -/
theorem addUnalignedArrayOfBits_spec (s : Ser) (x : List Bool) (hinv : s.Inv)
    (hroom : s.off / 8 + (x.length + 7) / 8 < s.buf.length) :
    ∃ s', addUnalignedArrayOfBits s x = .ok s' ∧ Appends s s' x.length (bitOf x) := by
  unfold addUnalignedArrayOfBits
  obtain ⟨hlen, hwf, hbits⟩ := packBits_spec x
  obtain ⟨s1, hs1, ha1, ha2, ha3, ha4⟩ := addUnalignedBytes_spec s (packBits x) hinv hwf (by omega)
  have hback : x.length ≤ (packBits x).length * 8 := by omega
  refine ⟨⟨s1.buf, s.off + x.length⟩, ?_, rfl, ha2, ⟨ha3.1, fun i hi => ?_⟩, fun i => ?_⟩
  · simp only [bind, Except.bind, sub?, hback, if_true, hs1,
      show (packBits x).length * 8 - x.length ≤ s1.off by omega]
    rw [show s1.off - ((packBits x).length * 8 - x.length) = s.off + x.length by omega]
  · have hi' : s.off + x.length ≤ i := hi
    show bitAt s1.buf i = false
    rw [ha4, if_neg (by omega), hbits, bitOf_ge x _ (by omega)]; simp
  · show bitAt s1.buf i = _
    rw [ha4]
    by_cases h1 : i < s.off
    · rw [if_pos h1, if_pos h1]
    · rw [if_neg h1, if_neg h1, hbits]
      by_cases h2 : i < s.off + x.length
      · simp [h2, show i < s.off + 8 * (packBits x).length by omega]
      · simp [h2, bitOf_ge x _ (show x.length ≤ i - s.off by omega)]

/-- `add_aligned_array_of_bits` -/
theorem addAlignedArrayOfBits_spec (s : Ser) (x : List Bool) (hinv : s.Inv) (ha : s.off % 8 = 0)
    (hroom : s.off / 8 + (x.length + 7) / 8 ≤ s.buf.length) :
    ∃ s', addAlignedArrayOfBits s x = .ok s' ∧ Appends s s' x.length (bitOf x) := by
  obtain ⟨hlen, hwf, hbits⟩ := packBits_spec x
  have hcore := addAlignedCore s (packBits x) x.length hinv ha hwf (by omega)
    (fun i hi => by rw [hbits]; exact bitOf_ge x i hi) (by omega)
  refine ⟨_, ?_, Appends_congr (fun i _ => hbits i) hcore⟩
  simp only [addAlignedArrayOfBits, assertAligned, ha, if_true, show ¬ (packBits x).length * 8 < x.length by omega,
    if_false, setSlice_ok _ _ _ (show s.off / 8 + (packBits x).length ≤ s.buf.length by omega), bind, Except.bind]

theorem filterMap_eq_map_of_some {α β} (f : α → Option β) (g : α → β) (l : List α)
    (h : ∀ a ∈ l, f a = some (g a)) : l.filterMap f = l.map g := by
  induction l with
  | nil => rfl
  | cons a l ih =>
    rw [List.filterMap_cons, h a List.mem_cons_self, List.map_cons,
      ih (fun b hb => h b (List.mem_cons_of_mem _ hb))]

theorem unpackBits_spec (bs : Buf) (count : Nat) (h : count ≤ 8 * bs.length) :
    unpackBits bs count = (List.range count).map (bitAt bs) := by
  unfold unpackBits
  apply filterMap_eq_map_of_some
  intro i hi
  have : i < count := List.mem_range.mp hi
  have hlt : i / 8 < bs.length := by omega
  simp [bitAt, hlt]

theorem fetchUnalignedArrayOfBits_spec (d : De) (count : Nat) (hw : WF d.buf) :
    fetchUnalignedArrayOfBits d count
      = .ok ((List.range count).map (fun i => bitAt d.buf (d.off + i)), ⟨d.buf, d.off + count⟩) := by
  unfold fetchUnalignedArrayOfBits
  dsimp only
  obtain ⟨bs, h1, h2, h3, h4⟩ := fetchUnalignedBytes_spec d ((count + 7) / 8) hw
  rw [h1]
  simp only [bind, Except.bind, sub?, show count ≤ (count + 7) / 8 * 8 by omega, if_true,
    show (count + 7) / 8 * 8 - count ≤ d.off + (count + 7) / 8 * 8 by omega]
  rw [show d.off + (count + 7) / 8 * 8 - ((count + 7) / 8 * 8 - count) = d.off + count by omega,
    unpackBits_spec bs count (by omega)]
  congr 2
  apply List.map_congr_left
  intro i hi
  have : i < count := List.mem_range.mp hi
  rw [h4]; simp; omega

theorem fetchAlignedArrayOfBits_spec (d : De) (count : Nat) (ha : d.off % 8 = 0) :
    fetchAlignedArrayOfBits d count
      = .ok ((List.range count).map (fun i => bitAt d.buf (d.off + i)), ⟨d.buf, d.off + count⟩) := by
  unfold fetchAlignedArrayOfBits
  obtain ⟨bs, h1, h2, _, h4⟩ := slice_bits d.buf (d.off / 8) (d.off / 8 + (count + 7) / 8) (by omega)
  simp only [assertAligned, ha, if_true, h1, bind, Except.bind]
  rw [unpackBits_spec bs count (by omega)]
  congr 2
  apply List.map_congr_left
  intro i hi
  have : i < count := List.mem_range.mp hi
  rw [h4, show 8 * (d.off / 8) = d.off by omega]; simp; omega


/-! ### padding -/

theorem padBits_zero (off n : Nat) (h : off % n = 0) : padBits off n = 0 := by
  unfold padBits; rw [h, Nat.sub_zero, Nat.mod_self]

theorem padBits_succ (off n : Nat) (hn : 0 < n) (h : off % n ≠ 0) : padBits (off + 1) n + 1 = padBits off n := by
  unfold padBits
  have hr : off % n < n := Nat.mod_lt _ hn
  have hd := Nat.div_add_mod off n
  generalize off % n = r at *
  generalize off / n = q at *
  have e1 : (n - r) % n = n - r := Nat.mod_eq_of_lt (by omega)
  rw [e1]
  by_cases hlast : r + 1 = n
  · have : (off + 1) % n = 0 := by
      have : off + 1 = n * (q + 1) := by rw [Nat.mul_add, Nat.mul_one]; omega
      rw [this, Nat.mul_mod_right]
    rw [this, Nat.sub_zero, Nat.mod_self]; omega
  · have : (off + 1) % n = r + 1 := by
      have : off + 1 = n * q + (r + 1) := by omega
      rw [this, Nat.mul_add_mod, Nat.mod_eq_of_lt (by omega)]
    rw [this, Nat.mod_eq_of_lt (by omega)]; omega

theorem padBits_lt (off n : Nat) (hn : 0 < n) : padBits off n < n := Nat.mod_lt _ hn

theorem padBits_aligned (off n : Nat) (hn : 0 < n) : (off + padBits off n) % n = 0 := by
  unfold padBits
  have hr : off % n < n := Nat.mod_lt _ hn
  by_cases h : off % n = 0
  · rw [h, Nat.sub_zero, Nat.mod_self, Nat.add_zero, h]
  · have e1 : (n - off % n) % n = n - off % n := Nat.mod_eq_of_lt (by omega)
    rw [e1]
    have hd := Nat.div_add_mod off n
    have : off + (n - off % n) = n * (off / n + 1) := by rw [Nat.mul_add, Nat.mul_one]; omega
    rw [this, Nat.mul_mod_right]

theorem dePadLoop_spec (n : Nat) (hn : 0 < n) (fuel : Nat) : ∀ off, padBits off n ≤ fuel →
    dePadLoop n fuel off = .ok (off + padBits off n) := by
  induction fuel with
  | zero =>
    intro off h
    have h0 : padBits off n = 0 := by omega
    have : off % n = 0 := by
      by_cases c : off % n = 0
      · exact c
      · have := padBits_succ off n hn c; omega
    simp [dePadLoop, this, h0]
  | succ fuel ih =>
    intro off h
    rw [dePadLoop]
    by_cases c : off % n ≠ 0
    · have hs := padBits_succ off n hn c
      rw [if_pos c, ih (off + 1) (by omega)]
      congr 1; omega
    · have c' : off % n = 0 := by omega
      rw [if_neg c, padBits_zero off n c']; rfl

/-- `Deserializer.pad_to_alignment` -/
theorem dePadToAlignment_spec (d : De) (n : Nat) (hn : 0 < n) :
    dePadToAlignment d n = .ok ⟨d.buf, d.off + padBits d.off n⟩ := by
  unfold dePadToAlignment
  rw [if_neg (by omega), dePadLoop_spec n hn n d.off (Nat.le_of_lt (padBits_lt _ _ hn))]
  rfl

theorem padLoop_spec (n : Nat) (hn : 0 < n) (fuel : Nat) : ∀ s : Ser, s.Inv → padBits s.off n ≤ fuel →
    (padBits s.off n ≠ 0 → (s.off + padBits s.off n - 1) / 8 < s.buf.length) →
    ∃ s', padLoop n fuel s = .ok s' ∧ Appends s s' (padBits s.off n) (fun _ => false) := by
  have hstay : ∀ s : Ser, s.Inv → Appends s s 0 (fun _ => false) := by
    intro s hinv
    refine ⟨rfl, rfl, hinv, fun i => ?_⟩
    by_cases h : i < s.off
    · rw [if_pos h]
    · rw [if_neg h, Inv_bit hinv (by omega)]; simp
  induction fuel with
  | zero =>
    intro s hinv h _
    have h0 : padBits s.off n = 0 := by omega
    have : s.off % n = 0 := by
      by_cases c : s.off % n = 0
      · exact c
      · have := padBits_succ s.off n hn c; omega
    refine ⟨s, by simp [padLoop, this], ?_⟩
    rw [h0]; exact hstay s hinv
  | succ fuel ih =>
    intro s hinv h hroom
    rw [padLoop]
    by_cases c : s.off % n ≠ 0
    · have hs := padBits_succ s.off n hn c
      rw [if_pos c]
      obtain ⟨s1, h1, a1⟩ := addUnalignedBit_spec s false hinv (by have := hroom (by omega); omega)
      have ho : s1.off = s.off + 1 := a1.1
      obtain ⟨s2, h2, a2⟩ := ih s1 a1.2.2.1 (by rw [ho]; omega) (by
        intro hne
        rw [ho, a1.2.1]
        have := hroom (by omega)
        omega)
      refine ⟨s2, by simp only [h1, h2, bind, Except.bind], ?_⟩
      rw [ho] at a2
      have := Appends_trans a1 a2
      rw [show 1 + padBits (s.off + 1) n = padBits s.off n by omega] at this
      exact Appends_congr (fun i _ => by split <;> rfl) this
    · have c' : s.off % n = 0 := by omega
      rw [if_neg c, padBits_zero s.off n c']
      exact ⟨s, rfl, hstay s hinv⟩

/-- `Serializer.pad_to_alignment`: zero bits up to the next multiple of `n` -/
theorem padToAlignment_spec (s : Ser) (n : Nat) (hn : 0 < n) (hinv : s.Inv)
    (hroom : padBits s.off n ≠ 0 → (s.off + padBits s.off n - 1) / 8 < s.buf.length) :
    ∃ s', padToAlignment s n = .ok s' ∧ Appends s s' (padBits s.off n) (fun _ => false) ∧ s'.off % n = 0 := by
  unfold padToAlignment
  rw [if_neg (by omega)]
  obtain ⟨s', h1, a1⟩ := padLoop_spec n hn n s hinv (Nat.le_of_lt (padBits_lt _ _ hn)) hroom
  exact ⟨s', h1, a1, by rw [a1.1]; exact padBits_aligned _ _ hn⟩


end NunavutVerif.Bits.Py
