import NunavutVerif.Model.Variant
/-!
Helper lemmas for the C04 variant theorems: list bookkeeping (`unitVec`, `getAt`, `setAt`, `firstLeak`,
`findBranch`, slots), the facts packed in `Prog.wf`, and the effect of every member function of a well-formed
program on an object that satisfies the invariant.
-/
namespace NunavutVerif.Variant

/-! ### flags -/

theorem unitVec_length : ∀ n k, (unitVec n k).length = n
  | 0, _ => rfl
  | n + 1, 0 => by simp [unitVec]
  | n + 1, k + 1 => by simp [unitVec, unitVec_length n k]

theorem getAt_replicate_false : ∀ n m, getAt (List.replicate n false) m = false
  | 0, _ => rfl
  | n + 1, 0 => rfl
  | n + 1, m + 1 => by simpa [List.replicate, getAt] using getAt_replicate_false n m

theorem getAt_unitVec_self : ∀ n k, k < n → getAt (unitVec n k) k = true
  | 0, _, h => by omega
  | n + 1, 0, _ => rfl
  | n + 1, k + 1, h => by simpa [unitVec, getAt] using getAt_unitVec_self n k (by omega)

theorem setAt_unitVec_self : ∀ n k, k < n → setAt (unitVec n k) k false = noneLive n
  | 0, _, h => by omega
  | n + 1, 0, _ => by simp [unitVec, setAt, noneLive, List.replicate]
  | n + 1, k + 1, h => by
    have := setAt_unitVec_self n k (by omega)
    simp [unitVec, setAt, noneLive, List.replicate] at this ⊢
    exact this

theorem firstLeak_replicate_false : ∀ n nt i, firstLeak (List.replicate n false) nt i = none
  | 0, nt, i => by cases nt <;> simp [firstLeak]
  | n + 1, [], i => by simp [List.replicate, firstLeak]
  | n + 1, b :: nt, i => by simpa [List.replicate, firstLeak] using firstLeak_replicate_false n nt (i + 1)

theorem firstLeak_noneLive (n nt i) : firstLeak (noneLive n) nt i = none :=
  firstLeak_replicate_false n nt i

/-- in a unit vector only the set member can be leaked, and only if it owns something -/
theorem firstLeak_unitVec : ∀ n k nt i, getAt nt k = false → firstLeak (unitVec n k) nt i = none
  | 0, _, nt, i, _ => by cases nt <;> simp [unitVec, firstLeak]
  | n + 1, 0, [], i, _ => by simp [unitVec, firstLeak]
  | n + 1, 0, b :: nt, i, h => by
    simp [getAt] at h
    simp [unitVec, firstLeak, h, firstLeak_replicate_false]
  | n + 1, k + 1, [], i, _ => by simp [unitVec, firstLeak]
  | n + 1, k + 1, b :: nt, i, h => by
    simp [getAt] at h
    simpa [unitVec, firstLeak] using firstLeak_unitVec n k nt (i + 1) h

/-! ### branch chains -/

theorem findBranch_some {c : List Branch} {t : Nat} {b : Branch} (h : findBranch c t = some b) :
    b.tag = t ∧ b ∈ c := by
  induction c with
  | nil => simp [findBranch] at h
  | cons x rest ih =>
    simp only [findBranch] at h
    split at h
    · cases h; exact ⟨by assumption, by simp⟩
    · have := ih h; exact ⟨this.1, by simp [this.2]⟩

theorem findBranch_idBranches : ∀ (tys : List Nat) (i j : Nat),
    findBranch (idBranches i tys) (i + j) = (tys[j]?).map fun t => ⟨i + j, i + j, i + j, t⟩
  | [], i, j => by simp [idBranches, findBranch]
  | t :: ts, i, 0 => by simp [idBranches, findBranch]
  | t :: ts, i, j + 1 => by
    have ih := findBranch_idBranches ts (i + 1) j
    have e : i + 1 + j = i + (j + 1) := by omega
    rw [e] at ih
    simp only [idBranches, findBranch]
    rw [if_neg (by omega)]
    simpa using ih

theorem findBranch_id0 (tys : List Nat) (k : Nat) :
    findBranch (idBranches 0 tys) k = (tys[k]?).map fun t => ⟨k, k, k, t⟩ := by
  simpa using findBranch_idBranches tys 0 k

/-! ### slots -/

theorem getSlot_setSlot_same : ∀ (w : World) (d : Nat) (x : Option Obj), d < w.length → getSlot (setSlot w d x) d = x
  | [], d, x, h => by simp at h
  | _ :: rest, 0, x, _ => by simp [setSlot, getSlot]
  | y :: rest, d + 1, x, h => by
    simpa [setSlot, getSlot] using getSlot_setSlot_same rest d x (by simpa using h)

theorem getSlot_setSlot_other : ∀ (w : World) (d i : Nat) (x : Option Obj), i ≠ d → getSlot (setSlot w d x) i = getSlot w i
  | [], d, i, x, _ => by simp [setSlot]
  | _ :: rest, 0, 0, x, h => by omega
  | _ :: rest, 0, i + 1, x, _ => by simp [setSlot, getSlot]
  | y :: rest, d + 1, 0, x, _ => by simp [setSlot, getSlot]
  | y :: rest, d + 1, i + 1, x, h => by
    simpa [setSlot, getSlot] using getSlot_setSlot_other rest d i x (by omega)

theorem setSlot_length : ∀ (w : World) (d : Nat) (x : Option Obj), (setSlot w d x).length = w.length
  | [], _, _ => rfl
  | _ :: rest, 0, _ => by simp [setSlot]
  | _ :: rest, d + 1, x => by simp [setSlot, setSlot_length rest d x]

theorem getSlot_some_lt : ∀ (w : World) (d : Nat) (o : Obj), getSlot w d = some o → d < w.length
  | [], d, o, h => by simp [getSlot] at h
  | _ :: rest, 0, o, _ => by simp
  | _ :: rest, d + 1, o, h => by
    have := getSlot_some_lt rest d o (by simpa [getSlot] using h)
    simp; omega

/-! ### the facts packed in `Prog.wf` -/

structure WF (p : Prog) : Prop where
  one_le : 1 ≤ p.n
  lt_npos : p.n < npos
  ntLen : p.nontrivial.length = p.n
  altMember : p.altMember = List.range p.n
  altTy : p.altTy = p.memTy
  dOk : ∀ b ∈ p.destroy, b.tag = b.member ∧ b.member < p.n ∧ p.memTy[b.member]? = some b.ty
  dCov : ∀ i, i < p.n → getAt p.nontrivial i = true → (findBranch p.destroy i).isSome = true
  defCtor : p.defCtor = ⟨false, [.setTagNpos, .emplaceConst 0]⟩
  emplace : p.emplace = ⟨false, [.destroyCurrent, .constructI, .setTagI]⟩
  dtor : p.dtor = ⟨false, [.destroyCurrent]⟩
  copyCtor : p.copyCtor = ⟨false, [.setTagNpos, .copyChain (idBranches 0 p.memTy), .setTagRhs]⟩
  moveCtor : p.moveCtor = ⟨false, [.setTagNpos, .moveChain (idBranches 0 p.memTy), .setTagRhs]⟩
  copyAssign : p.copyAssign = ⟨true, [.destroyCurrent, .copyChain (idBranches 0 p.memTy), .setTagRhs]⟩
  moveAssign : p.moveAssign = ⟨true, [.destroyCurrent, .moveChain (idBranches 0 p.memTy), .setTagRhs]⟩

theorem WF.of_wf {p : Prog} (h : p.wf = true) : WF p := by
  simp only [Prog.wf, Bool.and_eq_true, decide_eq_true_eq] at h
  obtain ⟨⟨⟨⟨⟨⟨⟨⟨⟨⟨⟨⟨⟨h1, h2⟩, h3⟩, h4⟩, h5⟩, h6⟩, h7⟩, h8⟩, h9⟩, h10⟩, h11⟩, h12⟩, h13⟩, h14⟩ := h
  refine ⟨h1, h2, h3, h4, h5, ?_, ?_, h8, h9, h10, h11, h12, h13, h14⟩
  · intro b hb
    have := (List.all_eq_true.mp h6) b hb
    simpa [Bool.and_eq_true, and_assoc] using this
  · intro i hi hn
    have := (List.all_eq_true.mp h7) i (List.mem_range.mpr hi)
    simpa [hn] using this

/-! ### objects -/

/-- the invariant: the tag names an alternative and exactly that alternative is live -/
def Inv (p : Prog) (o : Obj) : Prop := o.tag < p.n ∧ o.live = unitVec p.n o.tag

/-- nothing that owns something is live (the storage may be reused or released) -/
def Quiet (p : Prog) (o : Obj) : Prop := firstLeak o.live p.nontrivial 0 = none

theorem objInv_iff {p : Prog} {o : Obj} : objInv p o = true ↔ Inv p o := by
  simp [objInv, Inv]

theorem quiet_noneLive (p : Prog) (t : Nat) : Quiet p { tag := t, live := noneLive p.n } :=
  firstLeak_noneLive _ _ _

/-- `destroy_current()` on an object that satisfies the invariant: no fault; afterwards nothing owning is live -/
theorem destroyCurrent_inv {p : Prog} (wf : WF p) {o : Obj} (hi : Inv p o) :
    ∃ o', destroyCurrent p o = .ok o' ∧ o'.tag = o.tag ∧ Quiet p o' := by
  obtain ⟨ht, hl⟩ := hi
  unfold destroyCurrent
  cases hb : findBranch p.destroy o.tag with
  | none =>
    refine ⟨o, rfl, rfl, ?_⟩
    unfold Quiet
    rw [hl]
    apply firstLeak_unitVec
    cases hn : getAt p.nontrivial o.tag with
    | false => rfl
    | true => have := wf.dCov o.tag ht hn; simp [hb] at this
  | some b =>
    obtain ⟨hbt, hbm⟩ := findBranch_some hb
    obtain ⟨e1, _, e3⟩ := wf.dOk b hbm
    have em : b.member = o.tag := by omega
    simp only [e3, ne_eq, not_true_eq_false, if_false]
    rw [em, hl, getAt_unitVec_self _ _ ht]
    simp only [if_true]
    refine ⟨_, rfl, rfl, ?_⟩
    unfold Quiet
    simp only [setAt_unitVec_self _ _ ht]
    exact firstLeak_noneLive _ _ _

/-- `destroy_current()` while the tag is `variant_npos`: no branch matches, nothing happens -/
theorem destroyCurrent_npos {p : Prog} (wf : WF p) (l : List Bool) :
    destroyCurrent p { tag := npos, live := l } = .ok { tag := npos, live := l } := by
  unfold destroyCurrent
  cases hb : findBranch p.destroy npos with
  | none => rfl
  | some b =>
    obtain ⟨hbt, hbm⟩ := findBranch_some hb
    obtain ⟨e1, e2, _⟩ := wf.dOk b hbm
    have := wf.lt_npos
    omega

theorem placeNew_quiet {p : Prog} (wf : WF p) {o : Obj} (hq : Quiet p o) {alt : Nat} (ha : alt < p.n) :
    placeNew p o alt = .ok { o with live := unitVec p.n alt } := by
  unfold placeNew
  have : p.altMember[alt]? = some alt := by rw [wf.altMember]; simp [ha]
  rw [this]
  unfold Quiet at hq
  simp [hq]

theorem runChain_id {p : Prog} (wf : WF p) {self rhs : Obj} (hq : Quiet p self) (hr : Inv p rhs) :
    runChain p (idBranches 0 p.memTy) self rhs = .ok { self with live := unitVec p.n rhs.tag } := by
  obtain ⟨ht, hl⟩ := hr
  have hlen : rhs.tag < p.memTy.length := ht
  unfold runChain
  rw [findBranch_id0]
  have e : p.memTy[rhs.tag]? = some p.memTy[rhs.tag] := by simp [hlen]
  rw [e]
  simp only [Option.map_some]
  simp only [e, wf.altTy, ne_eq, not_true_eq_false, if_false]
  rw [hl, getAt_unitVec_self _ _ ht]
  simp only [Bool.not_true, Bool.false_eq_true, if_false]
  exact placeNew_quiet wf hq ht

/-! ### the member functions of a well-formed program -/

theorem emplace_inv {p : Prog} (wf : WF p) {o : Obj} (hi : Inv p o) {i : Nat} (h : i < p.n) :
    ∃ o', execMethod p p.emplace i .none o = .ok o' ∧ Inv p o' ∧ o'.tag = i := by
  obtain ⟨o1, h1, _, q1⟩ := destroyCurrent_inv wf hi
  refine ⟨{ tag := i, live := unitVec p.n i }, ?_, ⟨h, rfl⟩, rfl⟩
  simp [execMethod, wf.emplace, isSelf, execList, execStmt, execSimple, h1, placeNew_quiet wf q1 h]

theorem defCtor_inv {p : Prog} (wf : WF p) :
    ∃ o', execMethod p p.defCtor 0 .none (rawObj p) = .ok o' ∧ Inv p o' ∧ o'.tag = 0 := by
  have h0 : 0 < p.n := wf.one_le
  refine ⟨{ tag := 0, live := unitVec p.n 0 }, ?_, ⟨h0, rfl⟩, rfl⟩
  have q : Quiet p { tag := npos, live := noneLive p.n } := quiet_noneLive p npos
  simp [execMethod, wf.defCtor, wf.emplace, isSelf, execList, execStmt, execSimple, execSimpleList, rawObj,
    destroyCurrent_npos wf, placeNew_quiet wf q h0]

theorem copyCtor_inv {p : Prog} (wf : WF p) {r : Obj} (hr : Inv p r) :
    ∃ o', execMethod p p.copyCtor 0 (.other r) (rawObj p) = .ok o' ∧ Inv p o' ∧ o'.tag = r.tag := by
  refine ⟨{ tag := r.tag, live := unitVec p.n r.tag }, ?_, ⟨hr.1, rfl⟩, rfl⟩
  have q : Quiet p { tag := npos, live := noneLive p.n } := quiet_noneLive p npos
  simp [execMethod, wf.copyCtor, isSelf, execList, execStmt, execSimple, rawObj, Rhs.read, runChain_id wf q hr]

theorem moveCtor_inv {p : Prog} (wf : WF p) {r : Obj} (hr : Inv p r) :
    ∃ o', execMethod p p.moveCtor 0 (.other r) (rawObj p) = .ok o' ∧ Inv p o' ∧ o'.tag = r.tag := by
  refine ⟨{ tag := r.tag, live := unitVec p.n r.tag }, ?_, ⟨hr.1, rfl⟩, rfl⟩
  have q : Quiet p { tag := npos, live := noneLive p.n } := quiet_noneLive p npos
  simp [execMethod, wf.moveCtor, isSelf, execList, execStmt, execSimple, rawObj, Rhs.read, runChain_id wf q hr]

theorem copyAssign_inv {p : Prog} (wf : WF p) {o r : Obj} (hi : Inv p o) (hr : Inv p r) :
    ∃ o', execMethod p p.copyAssign 0 (.other r) o = .ok o' ∧ Inv p o' ∧ o'.tag = r.tag := by
  obtain ⟨o1, h1, _, q1⟩ := destroyCurrent_inv wf hi
  refine ⟨{ tag := r.tag, live := unitVec p.n r.tag }, ?_, ⟨hr.1, rfl⟩, rfl⟩
  simp [execMethod, wf.copyAssign, isSelf, execList, execStmt, execSimple, Rhs.read, h1, runChain_id wf q1 hr]

theorem moveAssign_inv {p : Prog} (wf : WF p) {o r : Obj} (hi : Inv p o) (hr : Inv p r) :
    ∃ o', execMethod p p.moveAssign 0 (.other r) o = .ok o' ∧ Inv p o' ∧ o'.tag = r.tag := by
  obtain ⟨o1, h1, _, q1⟩ := destroyCurrent_inv wf hi
  refine ⟨{ tag := r.tag, live := unitVec p.n r.tag }, ?_, ⟨hr.1, rfl⟩, rfl⟩
  simp [execMethod, wf.moveAssign, isSelf, execList, execStmt, execSimple, Rhs.read, h1, runChain_id wf q1 hr]

/-- `a = a` and `a = std::move(a)` leave the object alone -/
theorem selfAssign_noop {p : Prog} (wf : WF p) (o : Obj) :
    execMethod p p.copyAssign 0 .self o = .ok o ∧ execMethod p p.moveAssign 0 .self o = .ok o := by
  simp [execMethod, wf.copyAssign, wf.moveAssign, isSelf]

/-- the destructor: no fault, and afterwards nothing that owns something is live -/
theorem dtor_inv {p : Prog} (wf : WF p) {o : Obj} (hi : Inv p o) :
    ∃ o', execMethod p p.dtor 0 .none o = .ok o' ∧ release p o' = .ok () := by
  obtain ⟨o1, h1, _, q1⟩ := destroyCurrent_inv wf hi
  refine ⟨o1, ?_, ?_⟩
  · simp [execMethod, wf.dtor, isSelf, execList, execStmt, execSimple, h1]
  · unfold Quiet at q1; simp [release, q1]

/-! ### worlds -/

def WInv (p : Prog) (w : World) : Prop := ∀ i o, getSlot w i = some o → Inv p o

theorem worldInv_iff {p : Prog} : ∀ {w : World}, worldInv p w = true ↔ WInv p w
  | [] => by simp [worldInv, WInv, getSlot]
  | s :: rest => by
    have ih := @worldInv_iff p rest
    simp only [worldInv, List.all_cons, Bool.and_eq_true] at ih ⊢
    constructor
    · rintro ⟨hs, hr⟩ i o hg
      cases i with
      | zero => simp [getSlot] at hg; subst hg; exact objInv_iff.mp (by simpa using hs)
      | succ i => exact (ih.mp hr) i o (by simpa [getSlot] using hg)
    · intro h
      refine ⟨?_, ih.mpr fun i o hg => h (i + 1) o (by simpa [getSlot] using hg)⟩
      cases s with
      | none => rfl
      | some o => exact objInv_iff.mpr (h 0 o (by simp [getSlot]))

theorem WInv.set {p : Prog} {w : World} (hw : WInv p w) (d : Nat) {o : Obj} (ho : Inv p o) :
    WInv p (setSlot w d (some o)) := by
  intro i o' hg
  by_cases e : i = d
  · subst e
    by_cases hl : i < w.length
    · rw [getSlot_setSlot_same w i _ hl] at hg; cases hg; exact ho
    · have : getSlot (setSlot w i (some o)) i = none := by
        cases h' : getSlot (setSlot w i (some o)) i with
        | none => rfl
        | some x => have := getSlot_some_lt _ _ _ h'; rw [setSlot_length] at this; omega
      rw [this] at hg; cases hg
  · rw [getSlot_setSlot_other w d i _ e] at hg; exact hw i o' hg

theorem WInv.clear {p : Prog} {w : World} (hw : WInv p w) (d : Nat) : WInv p (setSlot w d none) := by
  intro i o' hg
  by_cases e : i = d
  · subst e
    by_cases hl : i < w.length
    · rw [getSlot_setSlot_same w i _ hl] at hg; cases hg
    · have := getSlot_some_lt _ _ _ hg; rw [setSlot_length] at this; omega
  · rw [getSlot_setSlot_other w d i _ e] at hg; exact hw i o' hg

theorem isSome'_iff (x : Option Obj) : isSome' x = true ↔ ∃ o, x = some o := by
  cases x <;> simp [isSome']

/-- one client operation on a world that satisfies the invariant: no fault, invariant preserved -/
theorem step_inv {p : Prog} (wf : WF p) {w : World} (hw : WInv p w) (op : Op) :
    ∃ w', step p w op = .ok w' ∧ WInv p w' ∧ w'.length = w.length := by
  unfold step
  by_cases ha : applicable p w op = true
  case neg => exact ⟨w, by simp [ha], hw, rfl⟩
  simp only [ha, Bool.not_true, Bool.false_eq_true, if_false]
  cases op with
  | ctor d =>
    obtain ⟨o', h, hi, _⟩ := defCtor_inv wf
    exact ⟨_, by simp [h, Except.map], hw.set d hi, setSlot_length _ _ _⟩
  | copyCtor d s =>
    simp only [applicable, Bool.and_eq_true, decide_eq_true_eq, Bool.not_eq_true', isSome'_iff] at ha
    obtain ⟨⟨_, hd⟩, r, hs⟩ := ha
    have hne : s ≠ d := by
      intro e; subst e; rw [hs] at hd; simp [isSome'] at hd
    obtain ⟨o', h, hi, _⟩ := copyCtor_inv wf (hw s r hs)
    exact ⟨_, by simp [rhsOf, hne, hs, h, Except.map], hw.set d hi, setSlot_length _ _ _⟩
  | moveCtor d s =>
    simp only [applicable, Bool.and_eq_true, decide_eq_true_eq, Bool.not_eq_true', isSome'_iff] at ha
    obtain ⟨⟨_, hd⟩, r, hs⟩ := ha
    have hne : s ≠ d := by
      intro e; subst e; rw [hs] at hd; simp [isSome'] at hd
    obtain ⟨o', h, hi, _⟩ := moveCtor_inv wf (hw s r hs)
    exact ⟨_, by simp [rhsOf, hne, hs, h, Except.map], hw.set d hi, setSlot_length _ _ _⟩
  | emplace d i =>
    simp only [applicable, Bool.and_eq_true, decide_eq_true_eq, isSome'_iff] at ha
    obtain ⟨⟨o, hd⟩, hi⟩ := ha
    obtain ⟨o', h, hi', _⟩ := emplace_inv wf (hw d o hd) hi
    exact ⟨_, by simp [hd, h, Except.map], hw.set d hi', setSlot_length _ _ _⟩
  | copyAssign d s =>
    simp only [applicable, Bool.and_eq_true, isSome'_iff] at ha
    obtain ⟨⟨o, hd⟩, r, hs⟩ := ha
    by_cases e : s = d
    · subst e
      exact ⟨_, by simp [hd, rhsOf, (selfAssign_noop wf o).1, Except.map], hw.set s (hw s o hd), setSlot_length _ _ _⟩
    · obtain ⟨o', h, hi', _⟩ := copyAssign_inv wf (hw d o hd) (hw s r hs)
      exact ⟨_, by simp [hd, rhsOf, e, hs, h, Except.map], hw.set d hi', setSlot_length _ _ _⟩
  | moveAssign d s =>
    simp only [applicable, Bool.and_eq_true, isSome'_iff] at ha
    obtain ⟨⟨o, hd⟩, r, hs⟩ := ha
    by_cases e : s = d
    · subst e
      exact ⟨_, by simp [hd, rhsOf, (selfAssign_noop wf o).2, Except.map], hw.set s (hw s o hd), setSlot_length _ _ _⟩
    · obtain ⟨o', h, hi', _⟩ := moveAssign_inv wf (hw d o hd) (hw s r hs)
      exact ⟨_, by simp [hd, rhsOf, e, hs, h, Except.map], hw.set d hi', setSlot_length _ _ _⟩
  | dtor d =>
    simp only [applicable, isSome'_iff] at ha
    obtain ⟨o, hd⟩ := ha
    obtain ⟨o', h, hr⟩ := dtor_inv wf (hw d o hd)
    exact ⟨_, by simp [hd, h, hr], hw.clear d, setSlot_length _ _ _⟩

theorem run_inv {p : Prog} (wf : WF p) : ∀ (ops : List Op) {w : World}, WInv p w →
    ∃ w', run p w ops = .ok w' ∧ WInv p w' ∧ w'.length = w.length
  | [], w, hw => ⟨w, rfl, hw, rfl⟩
  | op :: rest, w, hw => by
    obtain ⟨w1, h1, hw1, l1⟩ := step_inv wf hw op
    obtain ⟨w2, h2, hw2, l2⟩ := run_inv wf rest hw1
    exact ⟨w2, by simp [run, h1, h2], hw2, by omega⟩

theorem run_append (p : Prog) : ∀ (a b : List Op) (w : World),
    run p w (a ++ b) = match run p w a with | .error f => .error f | .ok w' => run p w' b
  | [], b, w => by simp [run]
  | op :: rest, b, w => by
    simp only [List.cons_append, run]
    cases step p w op with
    | error f => rfl
    | ok w1 => exact run_append p rest b w1

/-- destroying the objects of slots `k-1 … 0` empties those slots without a fault -/
theorem dtorAll_inv {p : Prog} (wf : WF p) : ∀ (k : Nat) {w : World}, WInv p w →
    ∃ w', run p w (dtorAll k) = .ok w' ∧ WInv p w' ∧ w'.length = w.length ∧
      (∀ i, i < k → getSlot w' i = none) ∧ (∀ i, k ≤ i → getSlot w' i = getSlot w i)
  | 0, w, hw => ⟨w, rfl, hw, rfl, by intro i h; omega, by intros; rfl⟩
  | k + 1, w, hw => by
    obtain ⟨w1, h1, hw1, l1⟩ := step_inv wf hw (.dtor k)
    -- slot k of w1 is empty, the others are those of w
    have hk : getSlot w1 k = none ∧ ∀ i, i ≠ k → getSlot w1 i = getSlot w i := by
      unfold step at h1
      by_cases ha : applicable p w (.dtor k) = true
      · simp only [ha, Bool.not_true, Bool.false_eq_true, if_false] at h1
        simp only [applicable, isSome'_iff] at ha
        obtain ⟨o, hd⟩ := ha
        obtain ⟨o', h, hr⟩ := dtor_inv wf (hw k o hd)
        simp [hd, h, hr] at h1
        subst h1
        exact ⟨getSlot_setSlot_same w k none (getSlot_some_lt _ _ _ hd), fun i hi => getSlot_setSlot_other w k i none hi⟩
      · simp only [ha] at h1
        simp at h1
        subst h1
        simp only [applicable, Bool.not_eq_true] at ha
        refine ⟨?_, fun _ _ => rfl⟩
        cases hg : getSlot w k with
        | none => rfl
        | some o => simp [hg, isSome'] at ha
    obtain ⟨w2, h2, hw2, l2, z2, s2⟩ := dtorAll_inv wf k hw1
    refine ⟨w2, by simp [dtorAll, run, h1, h2], hw2, by omega, ?_, ?_⟩
    · intro i hi
      by_cases e : i = k
      · subst e; rw [s2 i (Nat.le_refl _)]; exact hk.1
      · exact z2 i (by omega)
    · intro i hi
      rw [s2 i (by omega)]
      exact hk.2 i (by omega)

theorem allGone_of {w : World} (h : ∀ i, i < w.length → getSlot w i = none) : allGone w = true := by
  induction w with
  | nil => rfl
  | cons s rest ih =>
    have h0 := h 0 (by simp)
    simp only [getSlot] at h0
    subst h0
    simp only [allGone, List.all_cons, isSome', Bool.not_false, Bool.true_and]
    exact ih fun i hi => by simpa [getSlot] using h (i + 1) (by simp; omega)

theorem WInv_empty (p : Prog) (k : Nat) : WInv p (emptyWorld k) := by
  intro i o h
  have : ∀ (k i : Nat), getSlot (List.replicate k (none : Option Obj)) i = none := by
    intro k
    induction k with
    | zero => intro i; simp [getSlot]
    | succ k ih => intro i; cases i <;> simp [List.replicate, getSlot, ih]
  simp [emptyWorld, this] at h

end NunavutVerif.Variant
