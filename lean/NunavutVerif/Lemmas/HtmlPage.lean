import NunavutVerif.Model.HtmlPage
import NunavutVerif.Lemmas.Html
/-!
Helper lemmas for C20, round 2: ids (when two of them coincide), the reference inventory of a page (every same-page
reference has its target), the files of a run (every relative link has its target).
-/
namespace NunavutVerif.Html

/-! ## Splitting at a separator; decimal numbers -/

theorem dec_inj {a b : Nat} (h : dec a = dec b) : a = b := by
  have h2 := congrArg (fun l => Nat.ofDigitChars 10 l 0) h
  simpa [dec, Nat.ofDigitChars_ten_toDigits] using h2

theorem underscore_not_mem_dec (n : Nat) : '_' ∉ dec n := Nat.underscore_not_in_toDigits

theorem dec_ne_nil (n : Nat) : dec n ≠ [] := Nat.toDigits_ne_nil

theorem dec_isDigit {n : Nat} {c : Char} (h : c ∈ dec n) : c.isDigit = true :=
  Nat.isDigit_of_mem_toDigits (by decide) (by decide) h

/-- split at the first occurrence of a separator -/
theorem split_first {x : Char} : ∀ {p q r s : Str}, x ∉ p → x ∉ q → p ++ x :: r = q ++ x :: s → p = q ∧ r = s
  | [], [], _, _, _, _, h => by simpa using h
  | [], c :: q, _, _, _, hq, h => by
    simp at h
    exact absurd (by simp [h.1]) hq
  | c :: p, [], _, _, hp, _, h => by
    simp at h
    exact absurd (by simp [h.1]) hp
  | c :: p, d :: q, r, s, hp, hq, h => by
    simp at h
    have := split_first (p := p) (q := q) (fun e => hp (by simp [e])) (fun e => hq (by simp [e])) h.2
    simp [h.1, this.1, this.2]

/-- split at the last occurrence of a separator -/
theorem split_last {x : Char} {a b p q : Str} (hp : x ∉ p) (hq : x ∉ q) (h : a ++ x :: p = b ++ x :: q) :
    a = b ∧ p = q := by
  have h2 := congrArg List.reverse h
  simp only [List.reverse_append, List.reverse_cons, List.append_assoc, List.singleton_append] at h2
  have := split_first (x := x) (p := p.reverse) (q := q.reverse) (by simpa using hp) (by simpa using hq) h2
  exact ⟨List.reverse_inj.mp this.2, List.reverse_inj.mp this.1⟩

theorem versionSuffix_inj {a b : Str} {M m M' m' : Nat} (h : a ++ versionSuffix M m = b ++ versionSuffix M' m') :
    a = b ∧ M = M' ∧ m = m' := by
  have e : ∀ (a : Str) (M m : Nat), a ++ versionSuffix M m = (a ++ '_' :: dec M) ++ '_' :: dec m := by
    intro a M m; simp [versionSuffix]
  rw [e, e] at h
  obtain ⟨h1, h2⟩ := split_last (underscore_not_mem_dec m) (underscore_not_mem_dec m') h
  obtain ⟨h3, h4⟩ := split_last (underscore_not_mem_dec M) (underscore_not_mem_dec M') h1
  exact ⟨h3, dec_inj h4, dec_inj h2⟩

/-- **When two tag ids coincide**: exactly when the dot-to-underscore flattenings of the full names coincide and the
versions are equal.  (The version part never causes a collision; the flattening does.) -/
theorem tagId_eq_iff (a b : CType) :
    tagId a = tagId b ↔ nsId a.comps = nsId b.comps ∧ a.major = b.major ∧ a.minor = b.minor := by
  constructor
  · intro h
    exact versionSuffix_inj (a := replaceChar '.' ['_'] a.fullName) (b := replaceChar '.' ['_'] b.fullName) h
  · rintro ⟨h1, h2, h3⟩
    simp only [tagId, CType.fullName]
    simp only [nsId] at h1
    rw [h1, h2, h3]

/-! ## The flattening `.` → `_` -/

theorem replaceChar_noop {x : Char} {r s : Str} (h : x ∉ s) : replaceChar x r s = s := by
  induction s with
  | nil => rfl
  | cons c s ih =>
    have hc : c ≠ x := fun e => h (by simp [e])
    simp [replaceChar, hc, ih (fun e => h (by simp [e]))]

theorem joinWith_cons_of_ne_nil (sep : Char) (a : Str) {l : List Str} (h : l ≠ []) :
    joinWith sep (a :: l) = a ++ sep :: joinWith sep l := by
  cases l with
  | nil => exact absurd rfl h
  | cons b l => rfl

/-- For name components (no dot inside), the id of a namespace is the components joined by `_`. -/
theorem nsId_eq_join {l : List Str} (h : ∀ c ∈ l, '.' ∉ c) : nsId l = joinWith '_' l := by
  unfold nsId
  induction l with
  | nil => rfl
  | cons a l ih =>
    cases l with
    | nil => simpa [joinWith] using replaceChar_noop (r := ['_']) (h a (by simp))
    | cons b l =>
      have e : joinWith '.' (a :: b :: l) = a ++ '.' :: joinWith '.' (b :: l) := rfl
      have e2 : joinWith '_' (a :: b :: l) = a ++ '_' :: joinWith '_' (b :: l) := rfl
      rw [e, e2, replaceChar_append, replaceChar_noop (h a (by simp))]
      simp only [replaceChar, if_true]
      rw [ih (fun c hc => h c (by simp [hc]))]
      rfl

/-- **The collision family**: a component `u_v` and the two components `u`, `v` flatten to the same text, wherever they
stand (`a.b_c.D` and `a.b.c_D`; a namespace `r.b_c` and a namespace `r.b.c`). -/
theorem join_underscore_collides (pre post : List Str) (u v : Str) :
    joinWith '_' (pre ++ (u ++ '_' :: v) :: post) = joinWith '_' (pre ++ u :: v :: post) := by
  induction pre with
  | nil =>
    cases post with
    | nil => simp [joinWith]
    | cons p post => simp [joinWith]
  | cons a pre ih =>
    rw [List.cons_append, List.cons_append, joinWith_cons_of_ne_nil _ _ (by simp), joinWith_cons_of_ne_nil _ _ (by simp), ih]

/-- Without underscores inside the components the flattening is injective. -/
theorem join_injective_of_no_underscore : ∀ {l l' : List Str}, (∀ c ∈ l, c ≠ [] ∧ '_' ∉ c) → (∀ c ∈ l', c ≠ [] ∧ '_' ∉ c) →
    joinWith '_' l = joinWith '_' l' → l = l'
  | [], [], _, _, _ => rfl
  | [], [b], _, h', h => by
    simp [joinWith] at h
    exact absurd h (h' b (by simp)).1
  | [], b :: c :: l', _, h', h => by
    have e : joinWith '_' (b :: c :: l') = b ++ '_' :: joinWith '_' (c :: l') := rfl
    rw [e] at h
    simp [joinWith] at h
  | [a], [], hl, _, h => by
    simp [joinWith] at h
    exact absurd h (hl a (by simp)).1
  | a :: c :: l, [], _, _, h => by
    have e : joinWith '_' (a :: c :: l) = a ++ '_' :: joinWith '_' (c :: l) := rfl
    rw [e] at h
    simp [joinWith] at h
  | [a], [b], _, _, h => by simpa [joinWith] using h
  | [a], b :: c :: l', hl, h', h => by
    have e : joinWith '_' (b :: c :: l') = b ++ '_' :: joinWith '_' (c :: l') := rfl
    rw [e] at h
    simp only [joinWith] at h
    have : '_' ∈ a := by rw [h]; simp
    exact absurd this (hl a (by simp)).2
  | a :: c :: l, [b], hl, h', h => by
    have e : joinWith '_' (a :: c :: l) = a ++ '_' :: joinWith '_' (c :: l) := rfl
    rw [e] at h
    simp only [joinWith] at h
    have : '_' ∈ b := by rw [← h]; simp
    exact absurd this (h' b (by simp)).2
  | a :: c :: l, b :: d :: l', hl, h', h => by
    have e : joinWith '_' (a :: c :: l) = a ++ '_' :: joinWith '_' (c :: l) := rfl
    have e' : joinWith '_' (b :: d :: l') = b ++ '_' :: joinWith '_' (d :: l') := rfl
    rw [e, e'] at h
    obtain ⟨h1, h2⟩ := split_first (hl a (by simp)).2 (h' b (by simp)).2 h
    have := join_injective_of_no_underscore (l := c :: l) (l' := d :: l') (fun x hx => hl x (by simp [hx]))
      (fun x hx => h' x (by simp [hx])) h2
    rw [h1, this]

/-! ## The inventory of a page: ids and same-page references -/

theorem idsOf_append (a b : List Item) : idsOf (a ++ b) = idsOf a ++ idsOf b := by
  induction a with
  | nil => rfl
  | cons x a ih => cases x <;> simp [idsOf, ih]

theorem mem_idsOf {s : Str} {l : List Item} : s ∈ idsOf l ↔ Item.id s ∈ l := by
  induction l with
  | nil => simp [idsOf]
  | cons x l ih => cases x <;> simp [idsOf, ih]

/-- every same-page reference of `items` has its target among `ids` -/
def RefsIn (ids : List Str) (items : List Item) : Prop := ∀ it ∈ items, ∀ s, it.sameRef = some s → s ∈ ids

theorem RefsIn.append {ids : List Str} {a b : List Item} (ha : RefsIn ids a) (hb : RefsIn ids b) : RefsIn ids (a ++ b) := by
  intro it hit s hs
  rcases List.mem_append.mp hit with h | h
  · exact ha it h s hs
  · exact hb it h s hs

theorem RefsIn.mono {ids ids' : List Str} {a : List Item} (h : RefsIn ids a) (hsub : ∀ s ∈ ids, s ∈ ids') : RefsIn ids' a :=
  fun it hit s hs => hsub s (h it hit s hs)

theorem RefsIn.nil (ids : List Str) : RefsIn ids [] := fun _ h => absurd h (by simp)

/-- a piece of a page whose references all point into the piece itself -/
def RefsSelf (items : List Item) : Prop := RefsIn (idsOf items) items

theorem RefsSelf.append {a b : List Item} (ha : RefsSelf a) (hb : RefsSelf b) : RefsSelf (a ++ b) := by
  unfold RefsSelf
  rw [idsOf_append]
  exact (RefsIn.mono ha (fun s h => List.mem_append_left _ h)).append (RefsIn.mono hb (fun s h => List.mem_append_right _ h))

theorem ctl_refs (v : String) (hv : ∀ s, v.toList ≠ '#' :: s) (i : Str) (ids : List Str) (hi : i ∈ ids) : RefsIn ids (ctl v i) := by
  intro it hit s hs
  simp only [ctl, List.mem_cons, List.not_mem_nil, or_false] at hit
  rcases hit with rfl | rfl | rfl | rfl
  · cases hvl : v.toList with
    | nil => simp [Item.sameRef, hvl] at hs
    | cons c r =>
      by_cases hc : c = '#'
      · exact absurd (hc ▸ hvl) (hv r)
      · rw [hvl] at hs
        have : Item.sameRef (.href (c :: r)) = none := by
          unfold Item.sameRef
          split <;> simp_all
        rw [this] at hs; cases hs
  · simp [Item.sameRef] at hs; exact hs ▸ hi
  · simp [Item.sameRef] at hs; exact hs ▸ hi
  · simp [Item.sameRef] at hs; exact hs ▸ hi

theorem void1_not_frag : ∀ s, "javascript:void".toList ≠ '#' :: s := by
  intro s h
  have h2 : ("javascript:void".toList).head? = some '#' := by rw [h]; rfl
  revert h2; decide
theorem void2_not_frag : ∀ s, "javascript:void;".toList ≠ '#' :: s := by
  intro s h
  have h2 : ("javascript:void;".toList).head? = some '#' := by rw [h]; rfl
  revert h2; decide

theorem sameRef_href_dotdot (r : Str) : Item.sameRef (.href ('.' :: r)) = none := by
  unfold Item.sameRef; split <;> simp_all

/-- the link of a nested entry is not a same-page reference (it starts with `../`, or with the `up` prefix `../…`) -/
theorem entLink_refs (up : Str) (hup : ∀ s, up ≠ '#' :: s) (nested : Bool) (ct : CType) (ids : List Str) :
    RefsIn ids (entLink up nested ct) := by
  intro it hit s hs
  unfold entLink at hit
  split at hit
  · simp only [List.mem_cons, List.not_mem_nil, or_false] at hit
    subst hit
    cases up with
    | nil =>
      have : ([] : Str) ++ urlFromType ct = '.' :: ('.' :: '/' :: (ct.rootNamespace ++ "/#".toList ++
          (replaceChar '.' ['_'] (if ct.hasParentService then ct.fullNamespace else ct.fullName) ++ versionSuffix ct.major ct.minor))) := by
        simp [urlFromType]
      rw [this, sameRef_href_dotdot] at hs; cases hs
    | cons c r =>
      have hc : c ≠ '#' := fun e => hup r (by rw [e])
      have : Item.sameRef (.href (c :: r ++ urlFromType ct)) = none := by
        unfold Item.sameRef
        split <;> simp_all
      rw [this] at hs; cases hs
  · simp at hit

mutual
theorem entItems_refsSelf (up : Str) (hup : ∀ s, up ≠ '#' :: s) (nested : Bool) (seen : List Str) :
    ∀ e : Ent, RefsSelf (entItems up nested seen e).1
  | .comp ct sv attrs => by
    unfold entItems
    simp only
    unfold RefsSelf
    have hid : (entId nested seen (tagId ct)).1 ∈ idsOf
        (ctl "javascript:void" (entId nested seen (tagId ct)).1 ++ entLink up nested ct ++ [.id (entId nested seen (tagId ct)).1] ++
          (entsItems up (entId nested seen (tagId ct)).2 attrs).1) := by
      rw [mem_idsOf]; simp
    refine (((ctl_refs _ void1_not_frag _ _ hid).append (entLink_refs up hup nested ct _)).append ?_).append ?_
    · intro it hit s hs
      simp only [List.mem_cons, List.not_mem_nil, or_false] at hit
      subst hit; simp [Item.sameRef] at hs
    · exact RefsIn.mono (entsItems_refsSelf up hup _ attrs) (fun s h => by rw [idsOf_append]; exact List.mem_append_right _ h)
  | .arr es el => by
    unfold entItems
    simp only
    unfold RefsSelf
    have hid : (entId nested seen (tagIdArray es)).1 ∈ idsOf
        (ctl "javascript:void" (entId nested seen (tagIdArray es)).1 ++ [.id (entId nested seen (tagIdArray es)).1] ++
          (entsItems up (entId nested seen (tagIdArray es)).2 el).1) := by
      rw [mem_idsOf]; simp
    refine ((ctl_refs _ void1_not_frag _ _ hid).append ?_).append ?_
    · intro it hit s hs
      simp only [List.mem_cons, List.not_mem_nil, or_false] at hit
      subst hit; simp [Item.sameRef] at hs
    · exact RefsIn.mono (entsItems_refsSelf up hup _ el) (fun s h => by rw [idsOf_append]; exact List.mem_append_right _ h)
theorem entsItems_refsSelf (up : Str) (hup : ∀ s, up ≠ '#' :: s) (seen : List Str) :
    ∀ es : List Ent, RefsSelf (entsItems up seen es).1
  | [] => by unfold entsItems; exact RefsIn.nil _
  | e :: es => by
    unfold entsItems
    exact (entItems_refsSelf up hup true seen e).append (entsItems_refsSelf up hup _ es)
end

theorem topItems_refsSelf (up : Str) (hup : ∀ s, up ≠ '#' :: s) : ∀ (seen : List Str) (es : List Ent), RefsSelf (topItems up seen es).1
  | _, [] => by unfold topItems; exact RefsIn.nil _
  | seen, e :: es => by
    unfold topItems
    split
    · exact (entItems_refsSelf up hup false seen e).append (topItems_refsSelf up hup _ es)
    · exact topItems_refsSelf up hup seen es

mutual
theorem nsInfoItems_refsSelf (up : Str) (hup : ∀ s, up ≠ '#' :: s) (seen : List Str) : ∀ n : NsD, RefsSelf (nsInfoItems up seen n).1
  | .node name types children => by
    unfold nsInfoItems
    simp only
    have h1 : RefsSelf (ctl "javascript:void;" (nsId name) ++ [Item.id (nsId name)]) := by
      unfold RefsSelf
      have hid : nsId name ∈ idsOf (ctl "javascript:void;" (nsId name) ++ [Item.id (nsId name)]) := by rw [mem_idsOf]; simp
      refine (ctl_refs _ void2_not_frag _ _ hid).append ?_
      intro it hit s hs
      simp only [List.mem_cons, List.not_mem_nil, or_false] at hit
      subst hit; simp [Item.sameRef] at hs
    exact (h1.append (topItems_refsSelf up hup seen types)).append (nsInfoItemsL_refsSelf up hup _ children)
theorem nsInfoItemsL_refsSelf (up : Str) (hup : ∀ s, up ≠ '#' :: s) (seen : List Str) : ∀ l : List NsD, RefsSelf (nsInfoItemsL up seen l).1
  | [] => by unfold nsInfoItemsL; exact RefsIn.nil _
  | n :: l => by
    unfold nsInfoItemsL
    exact (nsInfoItems_refsSelf up hup seen n).append (nsInfoItemsL_refsSelf up hup _ l)
end

/-! ### The entries other parts of the page point to -/

theorem entItems_top_id (up : Str) (seen : List Str) (e : Ent) : e.tag ∈ idsOf (entItems up false seen e).1 := by
  cases e with
  | comp ct sv attrs => unfold entItems; simp [mem_idsOf, entId, Ent.tag]
  | arr es el => unfold entItems; simp [mem_idsOf, entId, Ent.tag]

theorem topItems_ids (up : Str) : ∀ (seen : List Str) (es : List Ent), ∀ e ∈ es.filter Ent.listed, e.tag ∈ idsOf (topItems up seen es).1
  | _, [], e, he => by simp at he
  | seen, x :: es, e, he => by
    unfold topItems
    by_cases hx : x.listed = true
    · simp only [hx, if_true]
      rw [idsOf_append]
      simp only [List.filter_cons, hx, if_true, List.mem_cons] at he
      rcases he with rfl | he
      · exact List.mem_append_left _ (entItems_top_id up seen e)
      · exact List.mem_append_right _ (topItems_ids up _ es e he)
    · simp only [hx]
      simp only [List.filter_cons, hx] at he
      exact topItems_ids up seen es e (by simpa using he)

mutual
/-- every namespace of the tree and every listed type has its entry in the `namespaceinfo` part -/
theorem topTargets_in_nsInfo (up : Str) (seen : List Str) : ∀ n : NsD, ∀ s ∈ topTargets n, s ∈ idsOf (nsInfoItems up seen n).1
  | .node name types children, s, hs => by
    unfold nsInfoItems
    simp only
    unfold topTargets at hs
    simp only [List.mem_cons, List.mem_append, List.mem_map] at hs
    rw [idsOf_append, idsOf_append]
    rcases hs with (rfl | ⟨e, he, rfl⟩) | hs
    · exact List.mem_append_left _ (List.mem_append_left _ (by rw [mem_idsOf]; simp))
    · exact List.mem_append_left _ (List.mem_append_right _ (topItems_ids up seen types e he))
    · exact List.mem_append_right _ (topTargetsL_in_nsInfo up _ children s hs)
theorem topTargetsL_in_nsInfo (up : Str) (seen : List Str) : ∀ l : List NsD, ∀ s ∈ topTargetsL l, s ∈ idsOf (nsInfoItemsL up seen l).1
  | [], s, hs => by simp [topTargetsL] at hs
  | n :: l, s, hs => by
    unfold nsInfoItemsL
    simp only
    unfold topTargetsL at hs
    rw [idsOf_append]
    rcases List.mem_append.mp hs with h | h
    · exact List.mem_append_left _ (topTargets_in_nsInfo up seen n s h)
    · exact List.mem_append_right _ (topTargetsL_in_nsInfo up _ l s h)
end

theorem sideType_refs (e : Ent) (ids : List Str) (h : e.tag ∈ ids) : RefsIn ids (sideType e) := by
  intro it hit s hs
  simp only [sideType, List.mem_cons, List.not_mem_nil, or_false] at hit
  rcases hit with rfl | rfl
  · simp [Item.sameRef] at hs
  · simp [Item.sameRef] at hs; exact hs ▸ h

mutual
/-- every reference of the sidebar points to a sidebar element or to the entry of a namespace / listed type -/
theorem sidebarItems_refs : ∀ n : NsD, RefsIn (idsOf (sidebarItems n) ++ topTargets n) (sidebarItems n)
  | .node name types children => by
    unfold sidebarItems topTargets
    have hside : nsId name ++ sidebarSuffix ∈ idsOf
        ([Item.dataTarget (nsId name ++ sidebarSuffix), .onclick (nsId name ++ sidebarSuffix) (some "sidebar".toList),
          .aria (nsId name ++ sidebarSuffix), .href ('#' :: nsId name), .id (nsId name ++ sidebarSuffix)] ++
          (types.filter Ent.listed).flatMap sideType ++ sidebarItemsL children) ++
        (nsId name :: (types.filter Ent.listed).map Ent.tag ++ topTargetsL children) := by
      apply List.mem_append_left; rw [mem_idsOf]; simp
    refine RefsIn.append (RefsIn.append ?_ ?_) ?_
    · intro it hit s hs
      simp only [List.mem_cons, List.not_mem_nil, or_false] at hit
      rcases hit with rfl | rfl | rfl | rfl | rfl
      · simp [Item.sameRef] at hs; exact hs ▸ hside
      · simp [Item.sameRef] at hs; exact hs ▸ hside
      · simp [Item.sameRef] at hs; exact hs ▸ hside
      · simp [Item.sameRef] at hs; subst hs; apply List.mem_append_right; simp
      · simp [Item.sameRef] at hs
    · intro it hit s hs
      obtain ⟨e, he, hit⟩ := List.mem_flatMap.mp hit
      refine sideType_refs e _ ?_ it hit s hs
      apply List.mem_append_right
      simp only [List.mem_cons, List.mem_append, List.mem_map]
      exact .inl (.inr ⟨e, he, rfl⟩)
    · refine RefsIn.mono (sidebarItemsL_refs children) ?_
      intro s hs
      rcases List.mem_append.mp hs with h | h
      · apply List.mem_append_left; rw [idsOf_append]; exact List.mem_append_right _ h
      · apply List.mem_append_right; simp only [List.mem_cons, List.mem_append]; exact .inr h
theorem sidebarItemsL_refs : ∀ l : List NsD, RefsIn (idsOf (sidebarItemsL l) ++ topTargetsL l) (sidebarItemsL l)
  | [] => by unfold sidebarItemsL; exact RefsIn.nil _
  | n :: l => by
    unfold sidebarItemsL topTargetsL
    refine RefsIn.append (RefsIn.mono (sidebarItems_refs n) ?_) (RefsIn.mono (sidebarItemsL_refs l) ?_)
    · intro s hs
      rcases List.mem_append.mp hs with h | h
      · apply List.mem_append_left; rw [idsOf_append]; exact List.mem_append_left _ h
      · apply List.mem_append_right; exact List.mem_append_left _ h
    · intro s hs
      rcases List.mem_append.mp hs with h | h
      · apply List.mem_append_left; rw [idsOf_append]; exact List.mem_append_right _ h
      · apply List.mem_append_right; exact List.mem_append_right _ h
end

mutual
/-- the sidebar has the `_sidebar` twin of every namespace entry and every listed type entry -/
theorem twins_in_sidebar : ∀ n : NsD, ∀ s ∈ topTargets n, s ++ sidebarSuffix ∈ idsOf (sidebarItems n)
  | .node name types children, s, hs => by
    unfold sidebarItems
    unfold topTargets at hs
    simp only [List.mem_cons, List.mem_append, List.mem_map] at hs
    rw [idsOf_append, idsOf_append]
    rcases hs with (rfl | ⟨e, he, rfl⟩) | hs
    · exact List.mem_append_left _ (List.mem_append_left _ (by rw [mem_idsOf]; simp))
    · refine List.mem_append_left _ (List.mem_append_right _ ?_)
      rw [mem_idsOf]
      exact List.mem_flatMap.mpr ⟨e, he, by simp [sideType]⟩
    · exact List.mem_append_right _ (twinsL_in_sidebar children s hs)
theorem twinsL_in_sidebar : ∀ l : List NsD, ∀ s ∈ topTargetsL l, s ++ sidebarSuffix ∈ idsOf (sidebarItemsL l)
  | [], s, hs => by simp [topTargetsL] at hs
  | n :: l, s, hs => by
    unfold sidebarItemsL
    unfold topTargetsL at hs
    rw [idsOf_append]
    rcases List.mem_append.mp hs with h | h
    · exact List.mem_append_left _ (twins_in_sidebar n s h)
    · exact List.mem_append_right _ (twinsL_in_sidebar l s h)
end

theorem upPrefix_not_frag (n : Str) : ∀ s, upPrefix n ≠ '#' :: s := by
  intro s h
  unfold upPrefix at h
  cases hk : countChar '.' n with
  | zero => rw [hk] at h; simp [repeatStr] at h
  | succ k =>
    rw [hk] at h
    have : repeatStr "../".toList (k + 1) = '.' :: ('.' :: '/' :: repeatStr "../".toList k) := by simp [repeatStr]
    rw [this] at h
    simp at h

theorem topTargets_head (n : NsD) : nsId n.name ∈ topTargets n := by
  cases n with
  | node name types children => simp [topTargets, NsD.name]

/-! ## The whole namespace page -/

def refsInB (ids : List Str) (items : List Item) : Bool :=
  items.all fun it => match it.sameRef with
    | some s => ids.contains s
    | none => true

theorem refsIn_of_refsInB {ids : List Str} {items : List Item} (h : refsInB ids items = true) : RefsIn ids items := by
  intro it hit s hs
  have := List.all_eq_true.mp h it hit
  simp only [hs] at this
  simpa using this

theorem idsOf_nsPageItems (tr : NsD) :
    idsOf (nsPageItems tr) = idsOf nsPageHead ++ idsOf (sidebarItems tr) ++ idsOf nsPageMid ++
      idsOf (nsInfoItems (upPrefix (joinWith '.' tr.name)) [] tr).1 := by
  unfold nsPageItems
  simp [idsOf_append, idsOf]

theorem nsInfo_ids_sub (tr : NsD) : ∀ s ∈ idsOf (nsInfoItems (upPrefix (joinWith '.' tr.name)) [] tr).1, s ∈ idsOf (nsPageItems tr) := by
  intro s h; rw [idsOf_nsPageItems]; exact List.mem_append_right _ h

theorem sidebar_ids_sub (tr : NsD) : ∀ s ∈ idsOf (sidebarItems tr), s ∈ idsOf (nsPageItems tr) := by
  intro s h; rw [idsOf_nsPageItems]
  exact List.mem_append_left _ (List.mem_append_left _ (List.mem_append_right _ h))

theorem head_ids_sub (tr : NsD) : ∀ s ∈ idsOf nsPageHead, s ∈ idsOf (nsPageItems tr) := by
  intro s h; rw [idsOf_nsPageItems]
  exact List.mem_append_left _ (List.mem_append_left _ (List.mem_append_left _ h))

theorem mid_ids_sub (tr : NsD) : ∀ s ∈ idsOf nsPageMid, s ∈ idsOf (nsPageItems tr) := by
  intro s h; rw [idsOf_nsPageItems]
  exact List.mem_append_left _ (List.mem_append_right _ h)

theorem topTargets_sub (tr : NsD) : ∀ s ∈ topTargets tr, s ∈ idsOf (nsPageItems tr) :=
  fun s h => nsInfo_ids_sub tr s (topTargets_in_nsInfo _ _ tr s h)

/-- Every same-page reference of a namespace page has its target on that page. -/
theorem nsPageItems_refsSelf (tr : NsD) : RefsSelf (nsPageItems tr) := by
  unfold RefsSelf
  have hhead : RefsIn (idsOf (nsPageItems tr)) nsPageHead :=
    RefsIn.mono (refsIn_of_refsInB (ids := idsOf nsPageHead) (by decide)) (head_ids_sub tr)
  have hside : RefsIn (idsOf (nsPageItems tr)) (sidebarItems tr) := by
    refine RefsIn.mono (sidebarItems_refs tr) ?_
    intro s hs
    rcases List.mem_append.mp hs with h | h
    · exact sidebar_ids_sub tr s h
    · exact topTargets_sub tr s h
  have hmid : RefsIn (idsOf (nsPageItems tr)) nsPageMid :=
    RefsIn.mono (refsIn_of_refsInB (ids := []) (by decide)) (fun s h => absurd h (by simp))
  have hinfo : RefsIn (idsOf (nsPageItems tr)) (nsInfoItems (upPrefix (joinWith '.' tr.name)) [] tr).1 :=
    RefsIn.mono (nsInfoItems_refsSelf _ (upPrefix_not_frag _) [] tr) (nsInfo_ids_sub tr)
  have hjs : RefsIn (idsOf (nsPageItems tr)) [Item.jsSel (nsId tr.name)] := by
    intro it hit s hs
    simp only [List.mem_cons, List.not_mem_nil, or_false] at hit
    subst hit
    simp [Item.sameRef] at hs
    exact hs ▸ topTargets_sub tr _ (topTargets_head tr)
  show RefsIn _ (nsPageHead ++ sidebarItems tr ++ nsPageMid ++ (nsInfoItems (upPrefix (joinWith '.' tr.name)) [] tr).1 ++
    [.jsSel (nsId tr.name)])
  exact (((hhead.append hside).append hmid).append hinfo).append hjs

/-! ### Local shape of the items: the `root` argument of `toggleCollapse`, the relative links -/

theorem relLink_href {x h : Str} (e : Item.relLink (.href x) = some h) : h = x := by
  simp only [Item.relLink] at e
  by_cases hc : (isExternal x || x.head? == some '#') = true
  · rw [if_pos hc] at e; cases e
  · rw [if_neg hc] at e; exact (Option.some.inj e).symm

theorem relLink_frag (s : Str) : Item.relLink (.href ('#' :: s)) = none := by
  simp [Item.relLink]

/-- what is demanded of an item of the `namespaceinfo` part: its `toggleCollapse` uses the default root, and a relative
link it carries is the link of one of the types in `L` -/
def InfoItem (L : List CType) (up : Str) (it : Item) : Prop :=
  (∀ r, it.rootRef = some r → r = "namespaceinfo".toList) ∧
  (∀ h, it.relLink = some h → ∃ ct ∈ L, h = up ++ urlFromType ct)

theorem InfoItem.mono {L L' : List CType} {up : Str} {it : Item} (h : InfoItem L up it) (hs : ∀ c ∈ L, c ∈ L') : InfoItem L' up it :=
  ⟨h.1, fun x hx => let ⟨ct, hct, e⟩ := h.2 x hx; ⟨ct, hs ct hct, e⟩⟩

theorem ctl_info (v : String) (hv : isExternal v.toList = true) (i : Str) (L : List CType) (up : Str) :
    ∀ it ∈ ctl v i, InfoItem L up it := by
  intro it hit
  simp only [ctl, List.mem_cons, List.not_mem_nil, or_false] at hit
  rcases hit with rfl | rfl | rfl | rfl
  · refine ⟨by simp [Item.rootRef], ?_⟩
    intro h e; simp [Item.relLink, hv] at e
  · exact ⟨by simp [Item.rootRef], by simp [Item.relLink]⟩
  · exact ⟨by simp [Item.rootRef], by simp [Item.relLink]⟩
  · exact ⟨by simp [Item.rootRef], by simp [Item.relLink]⟩

theorem id_info (s : Str) (L : List CType) (up : Str) : InfoItem L up (.id s) :=
  ⟨by simp [Item.rootRef], by simp [Item.relLink]⟩

mutual
theorem entItems_info (up : Str) (nested : Bool) (seen : List Str) :
    ∀ e : Ent, ∀ it ∈ (entItems up nested seen e).1, InfoItem (linkedOf nested e) up it
  | .comp ct sv attrs, it, hit => by
    unfold entItems at hit
    simp only [List.mem_append, List.mem_cons, List.not_mem_nil, or_false] at hit
    unfold linkedOf
    rcases hit with ((h | h) | rfl) | h
    · exact ctl_info _ (by decide) _ _ _ it h
    · unfold entLink at h
      split at h
      · rename_i hc
        simp only [List.mem_cons, List.not_mem_nil, or_false] at h
        subst h
        refine ⟨by simp [Item.rootRef], fun x hx => ⟨ct, ?_, relLink_href hx⟩⟩
        rw [if_pos hc]; simp
      · simp at h
    · exact id_info _ _ _
    · exact (entsItems_info up _ attrs it h).mono (fun c hc => List.mem_append_right _ hc)
  | .arr es el, it, hit => by
    unfold entItems at hit
    simp only [List.mem_append, List.mem_cons, List.not_mem_nil, or_false] at hit
    unfold linkedOf
    rcases hit with (h | rfl) | h
    · exact ctl_info _ (by decide) _ _ _ it h
    · exact id_info _ _ _
    · exact entsItems_info up _ el it h
theorem entsItems_info (up : Str) (seen : List Str) :
    ∀ es : List Ent, ∀ it ∈ (entsItems up seen es).1, InfoItem (linkedOfL es) up it
  | [], it, hit => by simp [entsItems] at hit
  | e :: es, it, hit => by
    unfold entsItems at hit
    unfold linkedOfL
    rcases List.mem_append.mp hit with h | h
    · exact (entItems_info up true seen e it h).mono (fun c hc => List.mem_append_left _ hc)
    · exact (entsItems_info up _ es it h).mono (fun c hc => List.mem_append_right _ hc)
end

theorem topItems_info (up : Str) : ∀ (seen : List Str) (es : List Ent), ∀ it ∈ (topItems up seen es).1, InfoItem (linkedTop es) up it
  | _, [], it, hit => by simp [topItems] at hit
  | seen, e :: es, it, hit => by
    unfold topItems at hit
    unfold linkedTop
    by_cases hx : e.listed = true
    · simp only [hx, if_true] at hit ⊢
      rcases List.mem_append.mp hit with h | h
      · exact (entItems_info up false seen e it h).mono (fun c hc => List.mem_append_left _ hc)
      · exact (topItems_info up _ es it h).mono (fun c hc => List.mem_append_right _ hc)
    · simp only [hx] at hit ⊢
      exact (topItems_info up seen es it hit).mono (fun c hc => by simpa using hc)

mutual
theorem nsInfoItems_info (up : Str) (seen : List Str) : ∀ n : NsD, ∀ it ∈ (nsInfoItems up seen n).1, InfoItem (linkedNs n) up it
  | .node name types children, it, hit => by
    unfold nsInfoItems at hit
    simp only [List.mem_append, List.mem_cons, List.not_mem_nil, or_false] at hit
    unfold linkedNs
    rcases hit with ((h | rfl) | h) | h
    · exact ctl_info _ (by decide) _ _ _ it h
    · exact id_info _ _ _
    · exact (topItems_info up seen types it h).mono (fun c hc => List.mem_append_left _ hc)
    · exact (nsInfoItemsL_info up _ children it h).mono (fun c hc => List.mem_append_right _ hc)
theorem nsInfoItemsL_info (up : Str) (seen : List Str) : ∀ l : List NsD, ∀ it ∈ (nsInfoItemsL up seen l).1, InfoItem (linkedNsL l) up it
  | [], it, hit => by simp [nsInfoItemsL] at hit
  | n :: l, it, hit => by
    unfold nsInfoItemsL at hit
    unfold linkedNsL
    rcases List.mem_append.mp hit with h | h
    · exact (nsInfoItems_info up seen n it h).mono (fun c hc => List.mem_append_left _ hc)
    · exact (nsInfoItemsL_info up _ l it h).mono (fun c hc => List.mem_append_right _ hc)
end

/-- what is demanded of an item of the sidebar: `toggleCollapse` is called with the root `sidebar`; no relative link -/
def SideItem (it : Item) : Prop := (∀ r, it.rootRef = some r → r = "sidebar".toList) ∧ it.relLink = none

mutual
theorem sidebarItems_side : ∀ n : NsD, ∀ it ∈ sidebarItems n, SideItem it
  | .node name types children, it, hit => by
    unfold sidebarItems at hit
    simp only [List.mem_append, List.mem_cons, List.not_mem_nil, or_false, List.mem_flatMap] at hit
    rcases hit with ((rfl | rfl | rfl | rfl | rfl) | ⟨e, _, he⟩) | h
    · exact ⟨by simp [Item.rootRef], by simp [Item.relLink]⟩
    · exact ⟨by simp [Item.rootRef], by simp [Item.relLink]⟩
    · exact ⟨by simp [Item.rootRef], by simp [Item.relLink]⟩
    · exact ⟨by simp [Item.rootRef], relLink_frag _⟩
    · exact ⟨by simp [Item.rootRef], by simp [Item.relLink]⟩
    · simp only [sideType, List.mem_cons, List.not_mem_nil, or_false] at he
      rcases he with rfl | rfl
      · exact ⟨by simp [Item.rootRef], by simp [Item.relLink]⟩
      · exact ⟨by simp [Item.rootRef], relLink_frag _⟩
    · exact sidebarItemsL_side children it h
theorem sidebarItemsL_side : ∀ l : List NsD, ∀ it ∈ sidebarItemsL l, SideItem it
  | [], it, hit => by simp [sidebarItemsL] at hit
  | n :: l, it, hit => by
    unfold sidebarItemsL at hit
    rcases List.mem_append.mp hit with h | h
    · exact sidebarItems_side n it h
    · exact sidebarItemsL_side l it h
end

def noRelLinkB (items : List Item) : Bool := items.all fun it => it.relLink.isNone && it.rootRef.isNone

/-- The relative links of a namespace page are exactly links of the types `linkedNs` lists, built with the page's own
depth prefix; the root element every `toggleCollapse` call names is `sidebar` or `namespaceinfo`. -/
theorem nsPageItems_shape (tr : NsD) : ∀ it ∈ nsPageItems tr,
    (∀ r, it.rootRef = some r → r = "sidebar".toList ∨ r = "namespaceinfo".toList) ∧
    (∀ h, it.relLink = some h → ∃ ct ∈ linkedNs tr, h = typeHref tr.name ct) := by
  intro it hit
  unfold nsPageItems at hit
  simp only [List.mem_append, List.mem_cons, List.not_mem_nil, or_false] at hit
  have hconst : ∀ l : List Item, noRelLinkB l = true → it ∈ l → _ := fun l hl hm => by
    have := List.all_eq_true.mp hl it hm
    simp only [Bool.and_eq_true, Option.isNone_iff_eq_none] at this
    exact (⟨by simp [this.2], by simp [this.1]⟩ :
      (∀ r, it.rootRef = some r → r = "sidebar".toList ∨ r = "namespaceinfo".toList) ∧
      (∀ h, it.relLink = some h → ∃ ct ∈ linkedNs tr, h = typeHref tr.name ct))
  rcases hit with (((h | h) | h) | h) | rfl
  · exact hconst nsPageHead (by decide) h
  · have := sidebarItems_side tr it h
    exact ⟨fun r hr => .inl (this.1 r hr), by simp [this.2]⟩
  · exact hconst nsPageMid (by decide) h
  · have := nsInfoItems_info _ _ tr it h
    exact ⟨fun r hr => .inr (this.1 r hr), fun x hx => let ⟨ct, hct, e⟩ := this.2 x hx; ⟨ct, hct, by simpa [typeHref] using e⟩⟩
  · exact ⟨by simp [Item.rootRef], by simp [Item.relLink]⟩

/-! ## The files of a run; every relative link has its target -/

theorem typeHref_resolves (ns : List Str) (t : CType) (hns : ns ≠ []) (hv : ∀ c ∈ ns, ValidComp c)
    (hr : ValidComp t.rootNamespace) :
    resolve (nsPagePath ns) (typeHref ns t) = some (nsPagePath [t.rootNamespace], tagId t.entry) := by
  have hfrag : (replaceChar '.' ['_'] (if t.hasParentService then t.fullNamespace else t.fullName) ++
      versionSuffix t.major t.minor) = tagId t.entry := by
    cases hps : t.hasParentService <;> simp [tagId, CType.entry, CType.fullName, CType.fullNamespace, hps]
  unfold typeHref upPrefix urlFromType nsPagePath
  rw [countDots_join hv hns, hfrag]
  exact resolve_up_root hr hns

theorem backHref_resolves (t : CType) :
    resolve (typePagePath t) (backHref t) = some (nsPagePath t.comps.dropLast, nsId t.comps.dropLast) := by
  have e : backHref t = indexPage ++ '#' :: nsId t.comps.dropLast := rfl
  unfold resolve
  rw [e, splitFragment_append (by decide)]
  have h1 : indexPage ≠ [] := by decide
  have h2 : splitOn '/' indexPage = [indexPage] := by decide
  have h4 : indexPage ≠ ['.', '.'] := by decide
  simp [h1, h2, h4, resolveSegs, typePagePath, nsPagePath]

theorem subtrees_self (n : NsD) : n ∈ subtrees n := by
  cases n with
  | node name types children => simp [subtrees]

mutual
theorem pages_of_subtree : ∀ n : NsD, ∀ m ∈ subtrees n, (nsPagePath m.name, nsPageItems m) ∈ pages n
  | .node name types children, m, hm => by
    unfold subtrees at hm
    unfold pages
    rcases List.mem_cons.mp hm with rfl | h
    · simp [NsD.name]
    · exact List.mem_cons_of_mem _ (List.mem_append_right _ (pagesL_of_subtree children m h))
theorem pagesL_of_subtree : ∀ l : List NsD, ∀ m ∈ subtreesL l, (nsPagePath m.name, nsPageItems m) ∈ pagesL l
  | [], m, hm => by simp [subtreesL] at hm
  | n :: l, m, hm => by
    unfold subtreesL at hm
    unfold pagesL
    rcases List.mem_append.mp hm with h | h
    · exact List.mem_append_left _ (pages_of_subtree n m h)
    · exact List.mem_append_right _ (pagesL_of_subtree l m h)
end

mutual
theorem pages_cases : ∀ n : NsD, ∀ f ∈ pages n,
    (∃ m ∈ subtrees n, f = (nsPagePath m.name, nsPageItems m)) ∨ (∃ m ∈ subtrees n, f ∈ typePagesOf m.types)
  | .node name types children, f, hf => by
    unfold pages at hf
    simp only [List.mem_cons, List.mem_append] at hf
    rcases hf with (rfl | h) | h
    · exact .inl ⟨_, subtrees_self _, rfl⟩
    · exact .inr ⟨_, subtrees_self _, h⟩
    · rcases pagesL_cases children f h with ⟨m, hm, e⟩ | ⟨m, hm, e⟩
      · exact .inl ⟨m, by unfold subtrees; exact List.mem_cons_of_mem _ hm, e⟩
      · exact .inr ⟨m, by unfold subtrees; exact List.mem_cons_of_mem _ hm, e⟩
theorem pagesL_cases : ∀ l : List NsD, ∀ f ∈ pagesL l,
    (∃ m ∈ subtreesL l, f = (nsPagePath m.name, nsPageItems m)) ∨ (∃ m ∈ subtreesL l, f ∈ typePagesOf m.types)
  | [], f, hf => by simp [pagesL] at hf
  | n :: l, f, hf => by
    unfold pagesL at hf
    unfold subtreesL
    rcases List.mem_append.mp hf with h | h
    · rcases pages_cases n f h with ⟨m, hm, e⟩ | ⟨m, hm, e⟩
      · exact .inl ⟨m, List.mem_append_left _ hm, e⟩
      · exact .inr ⟨m, List.mem_append_left _ hm, e⟩
    · rcases pagesL_cases l f h with ⟨m, hm, e⟩ | ⟨m, hm, e⟩
      · exact .inl ⟨m, List.mem_append_right _ hm, e⟩
      · exact .inr ⟨m, List.mem_append_right _ hm, e⟩
end

mutual
theorem linkedNs_of_subtree : ∀ n : NsD, ∀ m ∈ subtrees n, ∀ ct ∈ linkedNs m, ct ∈ linkedNs n
  | .node name types children, m, hm, ct, hct => by
    unfold subtrees at hm
    rcases List.mem_cons.mp hm with rfl | h
    · exact hct
    · unfold linkedNs
      exact List.mem_append_right _ (linkedNsL_of_subtree children m h ct hct)
theorem linkedNsL_of_subtree : ∀ l : List NsD, ∀ m ∈ subtreesL l, ∀ ct ∈ linkedNs m, ct ∈ linkedNsL l
  | [], m, hm, _, _ => by simp [subtreesL] at hm
  | n :: l, m, hm, ct, hct => by
    unfold subtreesL at hm
    unfold linkedNsL
    rcases List.mem_append.mp hm with h | h
    · exact List.mem_append_left _ (linkedNs_of_subtree n m h ct hct)
    · exact List.mem_append_right _ (linkedNsL_of_subtree l m h ct hct)
end

mutual
theorem wf_of_subtree : ∀ n : NsD, n.wf = true → ∀ m ∈ subtrees n, m.wf = true
  | .node name types children, hwf, m, hm => by
    unfold subtrees at hm
    rcases List.mem_cons.mp hm with rfl | h
    · exact hwf
    · unfold NsD.wf at hwf
      simp only [Bool.and_eq_true] at hwf
      exact wfL_of_subtree name children hwf.2 m h
theorem wfL_of_subtree (parent : List Str) : ∀ l : List NsD, wfL parent l = true → ∀ m ∈ subtreesL l, m.wf = true
  | [], _, m, hm => by simp [subtreesL] at hm
  | n :: l, hwf, m, hm => by
    unfold wfL at hwf
    simp only [Bool.and_eq_true] at hwf
    unfold subtreesL at hm
    rcases List.mem_append.mp hm with h | h
    · exact wf_of_subtree n hwf.1.2 m h
    · exact wfL_of_subtree parent l hwf.2 m h
end

theorem wf_type_namespace {m : NsD} (hwf : m.wf = true) {ct : CType} {sv : Bool} {attrs : List Ent}
    (he : Ent.comp ct sv attrs ∈ m.types) : ct.comps.dropLast = m.name := by
  cases m with
  | node name types children =>
    unfold NsD.wf at hwf
    simp only [Bool.and_eq_true, List.all_eq_true] at hwf
    have := hwf.1 _ he
    simp only [Bool.and_eq_true, beq_iff_eq] at this
    exact this.1

theorem mem_typePagesOf {f : List Str × List Item} : ∀ {l : List Ent}, f ∈ typePagesOf l →
    ∃ ct sv attrs, Ent.comp ct sv attrs ∈ l ∧ f = (typePagePath ct, if sv then [] else typePageItems ct)
  | [], h => by simp [typePagesOf] at h
  | .comp ct sv attrs :: l, h => by
    unfold typePagesOf at h
    rcases List.mem_cons.mp h with rfl | h
    · exact ⟨ct, sv, attrs, by simp, rfl⟩
    · obtain ⟨ct', sv', attrs', hm, e⟩ := mem_typePagesOf h
      exact ⟨ct', sv', attrs', List.mem_cons_of_mem _ hm, e⟩
  | .arr es el :: l, h => by
    unfold typePagesOf at h
    obtain ⟨ct', sv', attrs', hm, e⟩ := mem_typePagesOf h
    exact ⟨ct', sv', attrs', List.mem_cons_of_mem _ hm, e⟩

mutual
theorem listedTypes_targets : ∀ n : NsD, ∀ t ∈ listedTypes n, tagId t ∈ topTargets n
  | .node name types children, t, ht => by
    unfold listedTypes at ht
    unfold topTargets
    rcases List.mem_append.mp ht with h | h
    · obtain ⟨e, he, hc⟩ := List.mem_filterMap.mp h
      refine List.mem_append_left _ (List.mem_cons_of_mem _ (List.mem_map.mpr ⟨e, he, ?_⟩))
      cases e with
      | comp ct sv attrs => simp [Ent.ctype?] at hc; simp [Ent.tag, hc]
      | arr es el => simp [Ent.ctype?] at hc
    · exact List.mem_append_right _ (listedTypesL_targets children t h)
theorem listedTypesL_targets : ∀ l : List NsD, ∀ t ∈ listedTypesL l, tagId t ∈ topTargetsL l
  | [], t, ht => by simp [listedTypesL] at ht
  | n :: l, t, ht => by
    unfold listedTypesL at ht
    unfold topTargetsL
    rcases List.mem_append.mp ht with h | h
    · exact List.mem_append_left _ (listedTypes_targets n t h)
    · exact List.mem_append_right _ (listedTypesL_targets l t h)
end

/-- What the front end guarantees of one run: the tree is laid out by names, the root has a one-component name, every
namespace name consists of valid components. -/
structure RunOk (run : NsD) : Prop where
  wf : run.wf = true
  names : ∀ m ∈ subtrees run, m.name ≠ [] ∧ ∀ c ∈ m.name, ValidComp c

/-- The runs that write into one output directory are closed under reference: the entry that documents a linked type
(the type itself, or its service for a request / response type) is a listed type of the run of the type's root namespace. -/
def Closed (runs : List NsD) : Prop :=
  ∀ run ∈ runs, ∀ ct ∈ linkedNs run, ValidComp ct.rootNamespace ∧
    ∃ tgt ∈ runs, tgt.name = [ct.rootNamespace] ∧ ct.entry ∈ listedTypes tgt

theorem site_links_resolve (runs : List NsD) (hok : ∀ run ∈ runs, RunOk run) (hcl : Closed runs) :
    ∀ f ∈ site runs, ∀ it ∈ f.2, ∀ h, it.relLink = some h → Resolves (site runs) f.1 h := by
  intro f hf it hit h hrel
  obtain ⟨run, hrun, hfp⟩ := List.mem_flatMap.mp hf
  have hsite : ∀ r ∈ runs, ∀ g ∈ pages r, g ∈ site runs := fun r hr g hg => List.mem_flatMap.mpr ⟨r, hr, hg⟩
  rcases pages_cases run f hfp with ⟨m, hm, rfl⟩ | ⟨m, hm, hty⟩
  · -- a namespace page: the link of a nested entry
    obtain ⟨ct, hct, rfl⟩ := (nsPageItems_shape m it hit).2 h hrel
    obtain ⟨hroot, tgt, htgt, hname, hentry⟩ := hcl run hrun ct (linkedNs_of_subtree run m hm ct hct)
    obtain ⟨hne, hvalid⟩ := (hok run hrun).names m hm
    refine ⟨_, _, typeHref_resolves m.name ct hne hvalid hroot, nsPageItems tgt, ?_, .inr ?_⟩
    · have := pages_of_subtree tgt tgt (subtrees_self tgt)
      rw [hname] at this
      exact hsite tgt htgt _ this
    · exact topTargets_sub tgt _ (listedTypes_targets tgt _ hentry)
  · -- a type page: the back link
    obtain ⟨ct, sv, attrs, hmem, rfl⟩ := mem_typePagesOf hty
    cases sv with
    | true => simp at hit
    | false =>
      simp only [Bool.false_eq_true, if_false, typePageItems, List.mem_cons, List.not_mem_nil, or_false] at hit
      subst hit
      have := relLink_href hrel
      subst this
      have hns := wf_type_namespace (wf_of_subtree run (hok run hrun).wf m hm) hmem
      refine ⟨_, _, backHref_resolves ct, nsPageItems m, ?_, .inr ?_⟩
      · rw [hns]; exact hsite run hrun _ (pages_of_subtree run m hm)
      · rw [hns]; exact topTargets_sub m _ (topTargets_head m)

/-! ## Ids as CSS identifiers -/

/-- starts with a letter or an underscore, continues with name characters -/
def IdentLike (s : Str) : Prop := ∃ c r, s = c :: r ∧ (c.isAlpha = true ∨ c = '_') ∧ ∀ d ∈ r, isNameChar d = true

theorem isCssIdent_of_identLike {s : Str} (h : IdentLike s) : isCssIdent s = true := by
  obtain ⟨c, r, rfl, hc, hr⟩ := h
  have h2 : (r.all fun d => d.isAlphanum || decide (d = '_') || decide (d = '-')) = true := by
    rw [List.all_eq_true]
    intro d hd
    have := hr d hd
    simp only [isNameChar, Bool.or_eq_true, decide_eq_true_eq] at this
    rcases this with h | h <;> simp [h]
  simp only [isCssIdent, Bool.and_eq_true]
  refine ⟨?_, h2⟩
  rcases hc with hc | hc <;> simp [hc]

theorem IdentLike.append {s t : Str} (h : IdentLike s) (ht : ∀ d ∈ t, isNameChar d = true) : IdentLike (s ++ t) := by
  obtain ⟨c, r, rfl, hc, hr⟩ := h
  refine ⟨c, r ++ t, rfl, hc, ?_⟩
  intro d hd
  rcases List.mem_append.mp hd with h | h
  · exact hr d h
  · exact ht d h

theorem head_not_dot {c : Char} (h : c.isAlpha = true ∨ c = '_') : c ≠ '.' := by
  intro e; subst e; rcases h with h | h
  · revert h; decide
  · revert h; decide

/-- flattening a dotted name that starts with a letter or underscore -/
theorem identLike_flat {s : Str} (hs : ∀ ch ∈ s, isNameOrDot ch = true)
    (hfirst : ∃ c t, s = c :: t ∧ (c.isAlpha = true ∨ c = '_')) : IdentLike (replaceChar '.' ['_'] s) := by
  obtain ⟨c, t, rfl, hc⟩ := hfirst
  have hall := replaceDots_nameChars hs
  have e : replaceChar '.' ['_'] (c :: t) = c :: replaceChar '.' ['_'] t := by simp [replaceChar, head_not_dot hc]
  rw [e] at hall ⊢
  exact ⟨c, _, rfl, hc, fun d hd => hall d (by simp [hd])⟩

/-- the root component starts with a letter or an underscore (the front end rejects a leading digit) -/
def FirstOk (comps : List Str) : Prop := ∃ c r rest, comps = (c :: r) :: rest ∧ (c.isAlpha = true ∨ c = '_')

theorem join_first {comps : List Str} (h : FirstOk comps) : ∃ c t, joinWith '.' comps = c :: t ∧ (c.isAlpha = true ∨ c = '_') := by
  obtain ⟨c, r, rest, rfl, hc⟩ := h
  cases rest with
  | nil => exact ⟨c, r, rfl, hc⟩
  | cons b l => exact ⟨c, r ++ '.' :: joinWith '.' (b :: l), rfl, hc⟩

theorem nsId_identLike {name : List Str} (hv : ∀ c ∈ name, ValidComp c) (hf : FirstOk name) : IdentLike (nsId name) :=
  identLike_flat (join_nameOrDot hv) (join_first hf)

theorem versionSuffix_nameChars (M m : Nat) : ∀ d ∈ versionSuffix M m, isNameChar d = true := by
  intro d hd
  simp only [versionSuffix, List.mem_append, List.mem_cons] at hd
  rcases hd with (rfl | hd) | (rfl | hd)
  · decide
  · exact dec_nameChars _ d hd
  · decide
  · exact dec_nameChars _ d hd

theorem tagId_identLike {t : CType} (hv : ∀ c ∈ t.comps, ValidComp c) (hf : FirstOk t.comps) : IdentLike (tagId t) :=
  (nsId_identLike hv hf).append (versionSuffix_nameChars _ _)

theorem sidebarSuffix_nameChars : ∀ d ∈ sidebarSuffix, isNameChar d = true := by decide

theorem toLower_alpha (c : Char) (h : c.isAlpha = true) : c.toLower.isAlpha = true := by
  unfold Char.toLower
  split
  · rename_i hu
    simp only [Char.isAlpha, Char.isUpper, Char.isLower, Bool.or_eq_true, Bool.and_eq_true, decide_eq_true_eq, ge_iff_le]
    right
    obtain ⟨h1, h2⟩ := hu
    simp only [UInt32.le_iff_toNat_le, ge_iff_le] at h1 h2 ⊢
    have e : (c.val + ('a'.val - 'A'.val)).toNat = c.val.toNat + 32 := by
      rw [UInt32.toNat_add]
      have : ('a'.val - 'A'.val).toNat = 32 := by decide
      rw [this]
      have h65 : 'Z'.val.toNat = 90 := by decide
      omega
    have ha : 'a'.val.toNat = 97 := by decide
    have hz : 'z'.val.toNat = 122 := by decide
    have hA : 'A'.val.toNat = 65 := by decide
    have hZ : 'Z'.val.toNat = 90 := by decide
    show 'a'.val.toNat ≤ (c.val + ('a'.val - 'A'.val)).toNat ∧ (c.val + ('a'.val - 'A'.val)).toNat ≤ 'z'.val.toNat
    omega
  · exact h

theorem escCharStd_of_nameChar {c : Char} (h : isNameChar c = true) : escCharStd c = [c] := by
  obtain ⟨h1, h2, h3, h4, h5, _⟩ := nameOrDot_not_special (nameChar_nameOrDot h)
  simp [escCharStd, h1, h2, h3, h4, h5]

theorem escapeStd_of_nameChars {s : Str} (h : ∀ c ∈ s, isNameChar c = true) : escapeStd s = s := by
  induction s with
  | nil => simp [escapeStd, replaceChar]
  | cons c s ih =>
    rw [escapeStd_cons, escCharStd_of_nameChar (h c (by simp)), ih (fun d hd => h d (by simp [hd]))]
    rfl

theorem alpha_nameChar {c : Char} (h : c.isAlpha = true ∨ c = '_') : isNameChar c = true := by
  rcases h with h | h <;> simp [isNameChar, Char.isAlphanum, h]

/-- the result of `make_unique` for an identifier-like token: first letter lower-cased, a decimal counter appended -/
theorem makeUnique_identLike {base : Str} (h : IdentLike base) (seen : List Str) : IdentLike (makeUnique seen base).1 := by
  obtain ⟨c, r, rfl, hc, hr⟩ := h
  have hc' : c.toLower.isAlpha = true ∨ c.toLower = '_' := by
    rcases hc with hc | hc
    · exact .inl (toLower_alpha c hc)
    · subst hc; exact .inr (by decide)
  have hall : ∀ d ∈ c.toLower :: r, isNameChar d = true := by
    intro d hd
    rcases List.mem_cons.mp hd with rfl | hd
    · exact alpha_nameChar hc'
    · exact hr d hd
  simp only [makeUnique, lowerFirst]
  rw [escapeStd_of_nameChars hall]
  exact IdentLike.append ⟨_, _, rfl, hc', hr⟩ (dec_nameChars _)

/-- `filter_tag_id` of an array: `str(element_type)` is a dotted name with version (`ns.T.1.0`) or a cast mode, a blank and
a primitive name (`saturated uint8`) -/
theorem tagIdArray_identLike {es : Str} (hs : ∀ ch ∈ es, isNameOrDot ch = true ∨ ch = ' ')
    (hfirst : ∃ c t, es = c :: t ∧ (c.isAlpha = true ∨ c = '_')) : IdentLike (tagIdArray es) := by
  obtain ⟨c, t, rfl, hc⟩ := hfirst
  unfold tagIdArray
  have hblank : c ≠ ' ' := by
    intro e; subst e; rcases hc with h | h
    · revert h; decide
    · revert h; decide
  have e1 : replaceChar '.' ['_'] (c :: t) = c :: replaceChar '.' ['_'] t := by simp [replaceChar, head_not_dot hc]
  have e2 : replaceChar ' ' ['_'] (c :: replaceChar '.' ['_'] t) = c :: replaceChar ' ' ['_'] (replaceChar '.' ['_'] t) := by
    simp [replaceChar, hblank]
  rw [e1, e2]
  have hrest : ∀ (u : Str), (∀ ch ∈ u, isNameOrDot ch = true ∨ ch = ' ') →
      ∀ d ∈ replaceChar ' ' ['_'] (replaceChar '.' ['_'] u), isNameChar d = true := by
    intro u
    induction u with
    | nil => intro _ d hd; simp [replaceChar] at hd
    | cons x u ih =>
      intro hu d hd
      have hu' : ∀ ch ∈ u, isNameOrDot ch = true ∨ ch = ' ' := fun ch h => hu ch (by simp [h])
      by_cases hx : x = '.'
      · subst hx
        simp [replaceChar] at hd
        rcases hd with rfl | hd
        · decide
        · exact ih hu' d (by simpa [replaceChar] using hd)
      · by_cases hb : x = ' '
        · subst hb
          simp [replaceChar] at hd
          rcases hd with rfl | hd
          · decide
          · exact ih hu' d hd
        · simp [replaceChar, hx, hb] at hd
          rcases hd with rfl | hd
          · rcases hu d (by simp) with h | h
            · simpa [isNameOrDot, hx] using h
            · exact absurd h hb
          · exact ih hu' d hd
  refine IdentLike.append ⟨c, _, rfl, hc, hrest t (fun ch h => hs ch (by simp [h]))⟩ ?_
  decide

/-! ## Links as URLs -/

/-- the alphabet of the generated links -/
def linkChar (c : Char) : Bool := isNameOrDot c || c = '/' || c = '#'

theorem linkChar_props {c : Char} (h : linkChar c = true) : urlSafeChar c = true ∧ escChar c = [c] ∧ c ≠ ':' ∧ c ≠ '%' ∧ c ≠ '?' := by
  simp only [linkChar, Bool.or_eq_true, decide_eq_true_eq] at h
  rcases h with (h | rfl) | rfl
  · refine ⟨?_, escChar_of_nameOrDot h, ?_, ?_, ?_⟩
    · simp only [isNameOrDot, isNameChar, Bool.or_eq_true, decide_eq_true_eq] at h
      rcases h with (h | h) | h <;> simp [urlSafeChar, h]
    · intro e; subst e; revert h; decide
    · intro e; subst e; revert h; decide
    · intro e; subst e; revert h; decide
  · decide
  · decide

theorem nameOrDot_linkChar {c : Char} (h : isNameOrDot c = true) : linkChar c = true := by simp [linkChar, h]

theorem upPrefix_linkChars (n : Str) : ∀ c ∈ upPrefix n, linkChar c = true := by
  intro c hc
  exact (by decide : ∀ c ∈ "../".toList, linkChar c = true) c (mem_repeatStr hc)

theorem flat_linkChars {l : List Str} (h : ∀ c ∈ l, ValidComp c) : ∀ c ∈ nsId l, linkChar c = true :=
  fun c hc => nameOrDot_linkChar (nameChar_nameOrDot (replaceDots_nameChars (join_nameOrDot h) c hc))

theorem urlFromType_linkChars {t : CType} (hv : ∀ c ∈ t.comps, ValidComp c) : ∀ c ∈ urlFromType t, linkChar c = true := by
  intro c hc
  have hdl : ∀ c ∈ t.comps.dropLast, ValidComp c := fun c h => hv c (List.dropLast_subset _ h)
  simp only [urlFromType, List.mem_append] at hc
  rcases hc with ((hc | hc) | hc) | hc | hc
  · revert hc c; decide
  · cases hcs : t.comps with
    | nil => simp [CType.rootNamespace, hcs] at hc
    | cons a l =>
      simp only [CType.rootNamespace, hcs, List.headD_cons] at hc
      exact nameOrDot_linkChar (nameChar_nameOrDot ((hv a (by simp [hcs])).2 c hc))
  · revert hc c; decide
  · by_cases hps : t.hasParentService = true
    · simp only [hps, if_true, CType.fullNamespace] at hc
      exact flat_linkChars hdl c hc
    · simp only [hps, CType.fullName] at hc
      exact flat_linkChars hv c hc
  · exact nameOrDot_linkChar (nameChar_nameOrDot (versionSuffix_nameChars _ _ c hc))

theorem allLinkChars_props {s : Str} (h : ∀ c ∈ s, linkChar c = true) :
    urlSafe s = true ∧ escape s = s ∧ ':' ∉ s ∧ '%' ∉ s ∧ '?' ∉ s := by
  refine ⟨?_, ?_, ?_, ?_, ?_⟩
  · unfold urlSafe; rw [List.all_eq_true]; exact fun c hc => (linkChar_props (h c hc)).1
  · induction s with
    | nil => exact escape_nil
    | cons c s ih =>
      rw [escape_cons, (linkChar_props (h c (by simp))).2.1, ih (fun d hd => h d (by simp [hd]))]; rfl
  · exact fun hm => (linkChar_props (h _ hm)).2.2.1 rfl
  · exact fun hm => (linkChar_props (h _ hm)).2.2.2.1 rfl
  · exact fun hm => (linkChar_props (h _ hm)).2.2.2.2 rfl

theorem backHref_linkChars {t : CType} (hv : ∀ c ∈ t.comps, ValidComp c) : ∀ c ∈ backHref t, linkChar c = true := by
  intro c hc
  simp only [backHref, List.mem_append, List.mem_cons] at hc
  rcases hc with hc | rfl | hc
  · revert hc c; decide
  · decide
  · exact flat_linkChars (fun c h => hv c (List.dropLast_subset _ h)) c hc

/-! ## Uniqueness of ids on a page (names without underscores, one-digit minor versions) -/

theorem assign_append (seen : List Str) (a b : List (Bool × Str)) :
    assign seen (a ++ b) = ((assign seen a).1 ++ (assign (assign seen a).2 b).1, (assign (assign seen a).2 b).2) := by
  induction a generalizing seen with
  | nil => simp [assign]
  | cons e a ih => simp [assign, ih]

theorem assign_cons_false (seen : List Str) (b : Str) (l : List (Bool × Str)) :
    assign seen ((false, b) :: l) = (b :: (assign seen l).1, (assign seen l).2) := by simp [assign, entId]

theorem idsOf_ctl (v : String) (i : Str) : idsOf (ctl v i) = [] := by simp [ctl, idsOf]

theorem idsOf_entLink (up : Str) (nested : Bool) (ct : CType) : idsOf (entLink up nested ct) = [] := by
  unfold entLink; split <;> simp [idsOf]

mutual
theorem entItems_assign (up : Str) (nested : Bool) (seen : List Str) : ∀ e : Ent,
    idsOf (entItems up nested seen e).1 = (assign seen ((srcEnt nested e).map Source.entry)).1 ∧
    (entItems up nested seen e).2 = (assign seen ((srcEnt nested e).map Source.entry)).2
  | .comp ct sv attrs => by
    unfold entItems srcEnt
    have ih := entsItems_assign up (entId nested seen (tagId ct)).2 attrs
    cases nested <;>
      simp [idsOf_append, idsOf_ctl, idsOf_entLink, idsOf, assign, Source.entry, ih.1, ih.2]
  | .arr es el => by
    unfold entItems srcEnt
    have ih := entsItems_assign up (entId nested seen (tagIdArray es)).2 el
    cases nested <;>
      simp [idsOf_append, idsOf_ctl, idsOf, assign, Source.entry, ih.1, ih.2]
theorem entsItems_assign (up : Str) (seen : List Str) : ∀ es : List Ent,
    idsOf (entsItems up seen es).1 = (assign seen ((srcEnts es).map Source.entry)).1 ∧
    (entsItems up seen es).2 = (assign seen ((srcEnts es).map Source.entry)).2
  | [] => by simp [entsItems, srcEnts, assign, idsOf]
  | e :: es => by
    unfold entsItems srcEnts
    have h1 := entItems_assign up true seen e
    have h2 := entsItems_assign up (entItems up true seen e).2 es
    rw [h1.2] at h2
    rw [List.map_append, assign_append, idsOf_append, h1.1, h1.2, h2.1, h2.2]
    exact ⟨rfl, rfl⟩
end

theorem topItems_assign (up : Str) : ∀ (seen : List Str) (es : List Ent),
    idsOf (topItems up seen es).1 = (assign seen ((srcTop es).map Source.entry)).1 ∧
    (topItems up seen es).2 = (assign seen ((srcTop es).map Source.entry)).2
  | seen, [] => by simp [topItems, srcTop, assign, idsOf]
  | seen, e :: es => by
    unfold topItems srcTop
    by_cases hx : e.listed = true
    · simp only [hx, if_true]
      have h1 := entItems_assign up false seen e
      have h2 := topItems_assign up (entItems up false seen e).2 es
      rw [h1.2] at h2
      rw [List.map_append, assign_append, idsOf_append, h1.1, h1.2, h2.1, h2.2]
      exact ⟨rfl, rfl⟩
    · simp only [hx]
      exact topItems_assign up seen es

mutual
theorem nsInfoItems_assign (up : Str) (seen : List Str) : ∀ n : NsD,
    idsOf (nsInfoItems up seen n).1 = (assign seen ((srcNs n).map Source.entry)).1 ∧
    (nsInfoItems up seen n).2 = (assign seen ((srcNs n).map Source.entry)).2
  | .node name types children => by
    unfold nsInfoItems srcNs
    have h1 := topItems_assign up seen types
    have h2 := nsInfoItemsL_assign up (topItems up seen types).2 children
    rw [h1.2] at h2
    have e : (Source.ns name :: srcTop types ++ srcNsL children).map Source.entry =
        (false, nsId name) :: ((srcTop types).map Source.entry ++ (srcNsL children).map Source.entry) := by simp [Source.entry]
    rw [e, assign_cons_false, assign_append]
    simp only [idsOf_append, idsOf_ctl, idsOf, h1.1, h1.2, h2.1, h2.2, List.nil_append, List.cons_append]
    exact ⟨trivial, trivial⟩
theorem nsInfoItemsL_assign (up : Str) (seen : List Str) : ∀ l : List NsD,
    idsOf (nsInfoItemsL up seen l).1 = (assign seen ((srcNsL l).map Source.entry)).1 ∧
    (nsInfoItemsL up seen l).2 = (assign seen ((srcNsL l).map Source.entry)).2
  | [] => by simp [nsInfoItemsL, srcNsL, assign, idsOf]
  | n :: l => by
    unfold nsInfoItemsL srcNsL
    have h1 := nsInfoItems_assign up seen n
    have h2 := nsInfoItemsL_assign up (nsInfoItems up seen n).2 l
    rw [h1.2] at h2
    rw [List.map_append, assign_append, idsOf_append, h1.1, h1.2, h2.1, h2.2]
    exact ⟨rfl, rfl⟩
end

mutual
theorem srcEnt_plain_nested : ∀ e : Ent, (srcEnt true e).filterMap Source.plain = []
  | .comp ct sv attrs => by
    show List.filterMap Source.plain (Source.nestC ct :: srcEnts attrs) = []
    rw [List.filterMap_cons]; simp only [Source.plain]; exact srcEnts_plain attrs
  | .arr es el => by
    show List.filterMap Source.plain (Source.nestA es :: srcEnts el) = []
    rw [List.filterMap_cons]; simp only [Source.plain]; exact srcEnts_plain el
theorem srcEnts_plain : ∀ es : List Ent, (srcEnts es).filterMap Source.plain = []
  | [] => by simp [srcEnts]
  | e :: es => by unfold srcEnts; simp [List.filterMap_append, srcEnt_plain_nested e, srcEnts_plain es]
end

theorem srcEnt_plain_top (e : Ent) : (srcEnt false e).filterMap Source.plain = [e.tag] := by
  cases e with
  | comp ct sv attrs =>
    show List.filterMap Source.plain (Source.top ct :: srcEnts attrs) = _
    rw [List.filterMap_cons]; simp only [Source.plain, srcEnts_plain attrs, Ent.tag]
  | arr es el =>
    show List.filterMap Source.plain (Source.topA es :: srcEnts el) = _
    rw [List.filterMap_cons]; simp only [Source.plain, srcEnts_plain el, Ent.tag]

theorem srcTop_plain : ∀ es : List Ent, (srcTop es).filterMap Source.plain = (es.filter Ent.listed).map Ent.tag
  | [] => by simp [srcTop]
  | e :: es => by
    unfold srcTop
    by_cases hx : e.listed = true
    · simp [hx, List.filterMap_append, srcEnt_plain_top, srcTop_plain es]
    · simp [hx, srcTop_plain es]

mutual
theorem srcNs_plain : ∀ n : NsD, (srcNs n).filterMap Source.plain = topTargets n
  | .node name types children => by
    unfold srcNs topTargets
    simp [Source.plain, List.filterMap_append, srcTop_plain, srcNsL_plain children]
theorem srcNsL_plain : ∀ l : List NsD, (srcNsL l).filterMap Source.plain = topTargetsL l
  | [] => by simp [srcNsL, topTargetsL]
  | n :: l => by unfold srcNsL topTargetsL; simp [List.filterMap_append, srcNs_plain n, srcNsL_plain l]
end

mutual
theorem sidebar_ids : ∀ n : NsD, idsOf (sidebarItems n) = (topTargets n).map (· ++ sidebarSuffix)
  | .node name types children => by
    unfold sidebarItems topTargets
    have hty : ∀ l : List Ent, idsOf (l.flatMap sideType) = (l.map Ent.tag).map (· ++ sidebarSuffix) := by
      intro l
      induction l with
      | nil => rfl
      | cons e l ih => simp [List.flatMap_cons, sideType, idsOf, ih]
    simp [idsOf_append, idsOf, hty, sidebarL_ids children]
theorem sidebarL_ids : ∀ l : List NsD, idsOf (sidebarItemsL l) = (topTargetsL l).map (· ++ sidebarSuffix)
  | [] => by simp [sidebarItemsL, topTargetsL, idsOf]
  | n :: l => by unfold sidebarItemsL topTargetsL; simp [idsOf_append, sidebar_ids n, sidebarL_ids l]
end

theorem assign_plain (seen : List Str) (l : List Str) : assign seen (l.map fun s => (false, s)) = (l, seen) := by
  induction l with
  | nil => rfl
  | cons a l ih => simp [assign, entId, ih]

theorem page_ids_assign (tr : NsD) : idsOf (nsPageItems tr) = (assign [] (pageEntries tr)).1 := by
  rw [idsOf_nsPageItems, (nsInfoItems_assign _ [] tr).1, sidebar_ids]
  unfold pageEntries
  rw [assign_append, assign_plain]
  simp [pageConsts, pageMid, List.append_assoc]

/-- the token `make_unique` counts: first character lower-cased, `html.escape`d -/
def uniqTok (b : Str) : Str := escapeStd (lowerFirst b)

theorem makeUnique_eq (seen : List Str) (b : Str) :
    makeUnique seen b = (uniqTok b ++ dec (seen.count (uniqTok b)), uniqTok b :: seen) := rfl

def plainBases (L : List (Bool × Str)) : List Str := (L.filter fun e => !e.1).map (·.2)

def nestedBases (L : List (Bool × Str)) : List Str := (L.filter fun e => e.1).map (·.2)

/-- Ids handed out along a list of entries are pairwise distinct when (1) the ids of the non-nested entries are, (2) no
`make_unique` result can equal one of them, (3) a `make_unique` result determines its token and its counter. -/
theorem assign_nodup : ∀ (L : List (Bool × Str)) (seen : List Str),
    (plainBases L).Nodup →
    (∀ b ∈ nestedBases L, ∀ k, ∀ b' ∈ plainBases L, uniqTok b ++ dec k ≠ b') →
    (∀ b₁ ∈ nestedBases L, ∀ b₂ ∈ nestedBases L, ∀ k₁ k₂, uniqTok b₁ ++ dec k₁ = uniqTok b₂ ++ dec k₂ →
      uniqTok b₁ = uniqTok b₂ ∧ k₁ = k₂) →
    (assign seen L).1.Nodup ∧
    ∀ x ∈ (assign seen L).1, x ∈ plainBases L ∨ ∃ b ∈ nestedBases L, ∃ k, x = uniqTok b ++ dec k ∧ seen.count (uniqTok b) ≤ k
  | [], seen, _, _, _ => by simp [assign]
  | (false, b) :: L, seen, h1, h2, h3 => by
    have hp : plainBases ((false, b) :: L) = b :: plainBases L := by simp [plainBases]
    have hn : nestedBases ((false, b) :: L) = nestedBases L := by simp [nestedBases]
    rw [hp] at h1 h2
    rw [hn] at h2 h3
    obtain ⟨hb, h1'⟩ := List.nodup_cons.mp h1
    have ih := assign_nodup L seen h1' (fun b₁ hb₁ k b' hb' => h2 b₁ hb₁ k b' (List.mem_cons_of_mem _ hb')) h3
    have e : assign seen ((false, b) :: L) = (b :: (assign seen L).1, (assign seen L).2) := by simp [assign, entId]
    rw [e, hp, hn]
    refine ⟨List.nodup_cons.mpr ⟨?_, ih.1⟩, ?_⟩
    · intro hm
      rcases ih.2 b hm with h | ⟨b₁, hb₁, k, hk, _⟩
      · exact hb h
      · exact h2 b₁ hb₁ k b (by simp) hk.symm
    · intro x hx
      rcases List.mem_cons.mp hx with rfl | hx
      · exact .inl (by simp)
      · rcases ih.2 x hx with h | h
        · exact .inl (List.mem_cons_of_mem _ h)
        · exact .inr h
  | (true, b) :: L, seen, h1, h2, h3 => by
    have hp : plainBases ((true, b) :: L) = plainBases L := by simp [plainBases]
    have hn : nestedBases ((true, b) :: L) = b :: nestedBases L := by simp [nestedBases]
    rw [hp] at h1 h2
    rw [hn] at h2 h3
    have ih := assign_nodup L (uniqTok b :: seen) h1
      (fun b₁ hb₁ k b' hb' => h2 b₁ (List.mem_cons_of_mem _ hb₁) k b' hb')
      (fun b₁ hb₁ b₂ hb₂ => h3 b₁ (List.mem_cons_of_mem _ hb₁) b₂ (List.mem_cons_of_mem _ hb₂))
    have e : assign seen ((true, b) :: L) =
        ((uniqTok b ++ dec (seen.count (uniqTok b))) :: (assign (uniqTok b :: seen) L).1, (assign (uniqTok b :: seen) L).2) := by
      simp [assign, entId, makeUnique_eq]
    rw [e, hp, hn]
    refine ⟨List.nodup_cons.mpr ⟨?_, ih.1⟩, ?_⟩
    · intro hm
      rcases ih.2 _ hm with h | ⟨b₁, hb₁, k, hk, hle⟩
      · exact h2 b (by simp) _ _ h rfl
      · obtain ⟨ht, hkk⟩ := h3 b (by simp) b₁ (List.mem_cons_of_mem _ hb₁) _ _ hk
        rw [← ht, List.count_cons_self] at hle
        omega
    · intro x hx
      rcases List.mem_cons.mp hx with rfl | hx
      · exact .inr ⟨b, by simp, _, rfl, Nat.le_refl _⟩
      · rcases ih.2 x hx with h | ⟨b₁, hb₁, k, hk, hle⟩
        · exact .inl h
        · refine .inr ⟨b₁, List.mem_cons_of_mem _ hb₁, k, hk, ?_⟩
          have := List.count_le_count_cons (a := uniqTok b₁) (b := uniqTok b) (l := seen)
          omega

/-! model part -/

def gkind (g : Str) : Nat :=
  if g = "sidebar".toList then 0
  else if g.all Char.isDigit then (if g.length = 1 then 1 else 2)
  else if isArrayGroup g then 3 else 4

/-! char facts -/

theorem alpha_not_digit {c : Char} (h : c.isAlpha = true) : c.isDigit = false := by
  simp only [Char.isAlpha, Char.isUpper, Char.isLower, Bool.or_eq_true, Bool.and_eq_true, decide_eq_true_eq, ge_iff_le] at h
  simp only [Char.isDigit, Bool.and_eq_false_iff, decide_eq_false_iff_not, ge_iff_le]
  have h0 : '0'.val.toNat = 48 := by decide
  have h9 : '9'.val.toNat = 57 := by decide
  have hA : 'A'.val.toNat = 65 := by decide
  have hZ : 'Z'.val.toNat = 90 := by decide
  have ha : 'a'.val.toNat = 97 := by decide
  have hz : 'z'.val.toNat = 122 := by decide
  simp only [UInt32.le_iff_toNat_le] at h ⊢
  omega

theorem toLower_of_not_upper {c : Char} (h : c.isUpper = false) : c.toLower = c := by
  unfold Char.toLower
  split
  · rename_i hu
    have : c.isUpper = true := by unfold Char.isUpper; exact decide_eq_true hu
    rw [this] at h; cases h
  · rfl

theorem digit_not_upper {c : Char} (h : c.isDigit = true) : c.isUpper = false := by
  simp only [Char.isDigit, Bool.and_eq_true, decide_eq_true_eq, ge_iff_le] at h
  simp only [Char.isUpper, Bool.and_eq_false_iff, decide_eq_false_iff_not, ge_iff_le, Bool.decide_and]
  have h0 : '0'.val.toNat = 48 := by decide
  have h9 : '9'.val.toNat = 57 := by decide
  have hA : 'A'.val.toNat = 65 := by decide
  have hZ : 'Z'.val.toNat = 90 := by decide
  simp only [UInt32.le_iff_toNat_le] at h ⊢
  omega

theorem toLower_nameChar {c : Char} (h : isNameChar c = true) : isNameChar c.toLower = true := by
  simp only [isNameChar, Char.isAlphanum, Bool.or_eq_true, decide_eq_true_eq] at h
  rcases h with (h | h) | h
  · simp [isNameChar, Char.isAlphanum, toLower_alpha c h]
  · rw [toLower_of_not_upper (digit_not_upper h)]; simp [isNameChar, Char.isAlphanum, h]
  · subst h; decide

theorem lowerFirst_nameChars {s : Str} (h : ∀ d ∈ s, isNameChar d = true) : ∀ d ∈ lowerFirst s, isNameChar d = true := by
  cases s with
  | nil => simp [lowerFirst]
  | cons c r =>
    intro d hd
    simp only [lowerFirst, List.mem_cons] at hd
    rcases hd with rfl | hd
    · exact toLower_nameChar (h c (by simp))
    · exact h d (by simp [hd])

theorem uniqTok_nameChars {s : Str} (h : ∀ d ∈ s, isNameChar d = true) : uniqTok s = lowerFirst s :=
  escapeStd_of_nameChars (lowerFirst_nameChars h)

theorem lowerFirst_append {x : Str} (y : Str) (h : x ≠ []) : lowerFirst (x ++ y) = lowerFirst x ++ y := by
  cases x with
  | nil => exact absurd rfl h
  | cons c r => rfl

/-! groups -/

def HasGroup (s : Str) (k : Nat) : Prop := ∃ a g, s = a ++ '_' :: g ∧ '_' ∉ g ∧ gkind g = k

theorem HasGroup.unique {s : Str} {k k' : Nat} (h : HasGroup s k) (h' : HasGroup s k') : k = k' := by
  obtain ⟨a, g, rfl, hg, rfl⟩ := h
  obtain ⟨a', g', e, hg', rfl⟩ := h'
  rw [(split_last hg hg' e).2]

theorem HasGroup.mem {s : Str} {k : Nat} (h : HasGroup s k) : '_' ∈ s := by
  obtain ⟨a, g, rfl, _, _⟩ := h; simp

theorem gkind_sidebar : gkind "sidebar".toList = 0 := by decide

theorem all_digit_dec (n : Nat) : (dec n).all Char.isDigit = true := by
  rw [List.all_eq_true]; exact fun c hc => dec_isDigit hc

theorem dec_lt_ten {m : Nat} (h : m < 10) : (dec m).length = 1 := by
  simp [dec, Nat.toDigits_of_lt_base h]

theorem digits_ne_sidebar {g : Str} (h : g.all Char.isDigit = true) : g ≠ "sidebar".toList := by
  intro e; subst e; revert h; decide

theorem gkind_minor {m : Nat} (h : m < 10) : gkind (dec m) = 1 := by
  unfold gkind
  rw [if_neg (digits_ne_sidebar (all_digit_dec m)), if_pos (all_digit_dec m), if_pos (dec_lt_ten h)]

theorem gkind_minor_counter {m : Nat} (h : m < 10) (k : Nat) : gkind (dec m ++ dec k) = 2 := by
  have hall : (dec m ++ dec k).all Char.isDigit = true := by simp [List.all_append, all_digit_dec]
  have hlen : (dec m ++ dec k).length ≠ 1 := by
    have := List.length_pos_iff.mpr (dec_ne_nil k)
    rw [List.length_append, dec_lt_ten h]; omega
  unfold gkind
  rw [if_neg (digits_ne_sidebar hall), if_pos hall, if_neg hlen]

theorem gkind_array (k : Nat) : gkind ("array".toList ++ dec k) = 3 := by
  have h1 : "array".toList ++ dec k ≠ "sidebar".toList := by
    intro e
    have h := congrArg List.head? e
    have h' : ("array".toList ++ dec k).head? = some 'a' := rfl
    rw [h'] at h; revert h; decide
  have h2 : ("array".toList ++ dec k).all Char.isDigit = false := by
    have : "array".toList ++ dec k = 'a' :: ("rray".toList ++ dec k) := rfl
    rw [this, List.all_cons]; rfl
  have h3 : isArrayGroup ("array".toList ++ dec k) = true := by
    have hp : "array".toList.isPrefixOf ("array".toList ++ dec k) = true := by simp
    have hd : ("array".toList ++ dec k).drop 5 = dec k := by
      have : ("array".toList).length = 5 := by decide
      rw [← this, List.drop_left]
    simp only [isArrayGroup, hp, hd, all_digit_dec, Bool.and_self]
  unfold gkind
  rw [if_neg h1, if_neg (by rw [h2]; decide), if_pos h3]

theorem gkind_nsComp {g : Str} (h : nsCompOk g = true) : gkind g = 4 := by
  simp only [nsCompOk, plainComp, Bool.and_eq_true, bne_iff_ne, ne_eq, Bool.not_eq_true'] at h
  obtain ⟨⟨⟨_, hhead⟩, hns⟩, harr⟩ := h
  have hdig : g.all Char.isDigit = false := by
    cases g with
    | nil => simp at hhead
    | cons d r => simp only [List.all_cons, alpha_not_digit hhead, Bool.false_and]
  unfold gkind
  rw [if_neg hns, if_neg (by rw [hdig]; decide), if_neg (by rw [harr]; decide)]

/-! ### sources: when ids cannot coincide -/

theorem plainComp_props {c : Str} (h : plainComp c = true) :
    ValidComp c ∧ '_' ∉ c ∧ c ≠ [] ∧ '.' ∉ c ∧ ∃ d r, c = d :: r ∧ d.isAlpha = true := by
  simp only [plainComp, Bool.and_eq_true, List.all_eq_true] at h
  obtain ⟨hall, hhead⟩ := h
  have hne : c ≠ [] := by intro e; subst e; simp at hhead
  have hname : ∀ ch ∈ c, isNameChar ch = true := fun ch hc => by simp [isNameChar, hall ch hc]
  refine ⟨⟨hne, hname⟩, ?_, hne, ?_, ?_⟩
  · intro hm; have := hall _ hm; revert this; decide
  · intro hm; have := hall _ hm; revert this; decide
  · cases c with
    | nil => exact absurd rfl hne
    | cons d r => exact ⟨d, r, rfl, hhead⟩

theorem join_snoc (sep : Char) {init : List Str} (x : Str) (h : init ≠ []) :
    joinWith sep (init ++ [x]) = joinWith sep init ++ sep :: x := by
  induction init with
  | nil => exact absurd rfl h
  | cons a l ih =>
    cases l with
    | nil => rfl
    | cons b l =>
      have e1 : joinWith sep ((a :: b :: l) ++ [x]) = a ++ sep :: joinWith sep ((b :: l) ++ [x]) := rfl
      have e2 : joinWith sep (a :: b :: l) = a ++ sep :: joinWith sep (b :: l) := rfl
      rw [e1, e2, ih (by simp)]; simp

theorem join_no_underscore {l : List Str} (h : ∀ c ∈ l, '_' ∉ c) (hl : l.length ≤ 1) : '_' ∉ joinWith '_' l := by
  match l, hl with
  | [], _ => simp [joinWith]
  | [a], _ => simpa [joinWith] using h a (by simp)

theorem join_ne_nil {l : List Str} (h : ∀ c ∈ l, c ≠ []) (hl : l ≠ []) : joinWith '_' l ≠ [] := by
  cases l with
  | nil => exact absurd rfl hl
  | cons a l =>
    cases l with
    | nil => simpa [joinWith] using h a (by simp)
    | cons b l =>
      have e : joinWith '_' (a :: b :: l) = a ++ '_' :: joinWith '_' (b :: l) := rfl
      rw [e]; simp

theorem nsOk_props {n : List Str} (h : Source.ok (.ns n) = true) :
    n ≠ [] ∧ (∀ c ∈ n, nsCompOk c = true) ∧ nsId n ∉ pageConsts ++ pageMid := by
  simp only [Source.ok, Bool.and_eq_true, Bool.not_eq_true', List.all_eq_true, List.isEmpty_eq_false_iff] at h
  refine ⟨h.1.1, h.1.2, ?_⟩
  intro hm
  have := h.2
  simp [List.contains_iff_mem, hm] at this

theorem nsCompOk_plain {c : Str} (h : nsCompOk c = true) : plainComp c = true := by
  simp only [nsCompOk, Bool.and_eq_true] at h; exact h.1.1

/-- the id of a namespace entry: either without any underscore (a root namespace) and not a constant id, or its last
`_`-separated group is the last name component -/
theorem shape_ns {n : List Str} (h : Source.ok (.ns n) = true) :
    nsId n ∉ pageConsts ++ pageMid ∧ ('_' ∉ nsId n ∨ HasGroup (nsId n) 4) := by
  obtain ⟨hne, hcomps, hconst⟩ := nsOk_props h
  refine ⟨hconst, ?_⟩
  have hdot : ∀ c ∈ n, '.' ∉ c := fun c hc => (plainComp_props (nsCompOk_plain (hcomps c hc))).2.2.2.1
  have hus : ∀ c ∈ n, '_' ∉ c := fun c hc => (plainComp_props (nsCompOk_plain (hcomps c hc))).2.1
  rw [nsId_eq_join hdot]
  obtain ⟨init, last, rfl⟩ : ∃ init last, n = init ++ [last] :=
    ⟨n.dropLast, n.getLast hne, (List.dropLast_concat_getLast hne).symm⟩
  by_cases hi : init = []
  · subst hi
    exact .inl (join_no_underscore hus (by simp))
  · refine .inr ⟨joinWith '_' init, last, join_snoc '_' last hi, hus last (by simp), gkind_nsComp (hcomps last (by simp))⟩

theorem topOk_props {ct : CType} (h : Source.ok (.top ct) = true) : ctOk ct = true ∧ ct.hasParentService = false := by
  have h' : (ctOk ct && !ct.hasParentService) = true := h
  rw [Bool.and_eq_true] at h'
  exact ⟨h'.1, by simpa using h'.2⟩

theorem ctOk_props {ct : CType} (h : ctOk ct = true) :
    ct.comps ≠ [] ∧ (∀ c ∈ ct.comps, plainComp c = true) ∧ ct.minor < 10 := by
  simp only [ctOk, Bool.and_eq_true, Bool.not_eq_true', List.all_eq_true, List.isEmpty_eq_false_iff, decide_eq_true_eq] at h
  exact ⟨h.1.1, h.1.2, h.2⟩

theorem tagId_split (ct : CType) : tagId ct = (nsId ct.comps ++ '_' :: dec ct.major) ++ '_' :: dec ct.minor := by
  simp [tagId, nsId, CType.fullName, versionSuffix]

theorem shape_top {ct : CType} (hm : ct.minor < 10) : HasGroup (tagId ct) 1 :=
  ⟨_, _, tagId_split ct, underscore_not_mem_dec _, gkind_minor hm⟩

theorem shape_twin (x : Str) : HasGroup (x ++ sidebarSuffix) 0 :=
  ⟨x, "sidebar".toList, rfl, by decide, gkind_sidebar⟩

theorem flat_nameChars {comps : List Str} (h : ∀ c ∈ comps, plainComp c = true) : ∀ d ∈ nsId comps, isNameChar d = true :=
  replaceDots_nameChars (join_nameOrDot (fun c hc => (plainComp_props (h c hc)).1))

theorem flat_ne_nil {comps : List Str} (h : ∀ c ∈ comps, plainComp c = true) (hne : comps ≠ []) : nsId comps ≠ [] := by
  rw [nsId_eq_join (fun c hc => (plainComp_props (h c hc)).2.2.2.1)]
  exact join_ne_nil (fun c hc => (plainComp_props (h c hc)).2.2.1) hne

/-- `make_unique` of the tag id of a composite with plain names: only the first letter changes, the version stays -/
theorem uniqTok_tagId {ct : CType} (hne : ct.comps ≠ []) (hc : ∀ c ∈ ct.comps, plainComp c = true) :
    uniqTok (tagId ct) = (lowerFirst (nsId ct.comps) ++ '_' :: dec ct.major) ++ '_' :: dec ct.minor := by
  have hall : ∀ d ∈ tagId ct, isNameChar d = true := tagId_nameChars (fun c h => (plainComp_props (hc c h)).1)
  rw [uniqTok_nameChars hall, tagId_split]
  rw [List.append_assoc, lowerFirst_append _ (flat_ne_nil hc hne)]
  simp

theorem shape_nestC {ct : CType} (hne : ct.comps ≠ []) (hc : ∀ c ∈ ct.comps, plainComp c = true) (hm : ct.minor < 10) (k : Nat) :
    HasGroup (uniqTok (tagId ct) ++ dec k) 2 := by
  refine ⟨lowerFirst (nsId ct.comps) ++ '_' :: dec ct.major, dec ct.minor ++ dec k, ?_, ?_, gkind_minor_counter hm k⟩
  · rw [uniqTok_tagId hne hc]; simp
  · intro h
    rcases List.mem_append.mp h with h | h
    · exact underscore_not_mem_dec _ h
    · exact underscore_not_mem_dec _ h

theorem arrayFlat_nameChars {u : Str} (hu : ∀ ch ∈ u, isNameOrDot ch = true ∨ ch = ' ') :
    ∀ d ∈ replaceChar ' ' ['_'] (replaceChar '.' ['_'] u), isNameChar d = true := by
  induction u with
  | nil => intro d hd; simp [replaceChar] at hd
  | cons x u ih =>
    intro d hd
    have hu' : ∀ ch ∈ u, isNameOrDot ch = true ∨ ch = ' ' := fun ch h => hu ch (by simp [h])
    by_cases hx : x = '.'
    · subst hx
      simp [replaceChar] at hd
      rcases hd with rfl | hd
      · decide
      · exact ih hu' d (by simpa [replaceChar] using hd)
    · by_cases hb : x = ' '
      · subst hb
        simp [replaceChar] at hd
        rcases hd with rfl | hd
        · decide
        · exact ih hu' d hd
      · simp [replaceChar, hx, hb] at hd
        rcases hd with rfl | hd
        · rcases hu d (by simp) with h | h
          · simpa [isNameOrDot, hx] using h
          · exact absurd h hb
        · exact ih hu' d hd

theorem esOk_props {es : Str} (h : Source.ok (.nestA es) = true) : ∀ ch ∈ es, isNameOrDot ch = true ∨ ch = ' ' := by
  simp only [Source.ok, List.all_eq_true, Bool.or_eq_true, decide_eq_true_eq] at h
  exact h

/-- `make_unique` of the tag id of an array: some prefix, then `_array` -/
theorem uniqTok_tagIdArray {es : Str} (h : ∀ ch ∈ es, isNameOrDot ch = true ∨ ch = ' ') :
    ∃ X, uniqTok (tagIdArray es) = X ++ '_' :: "array".toList := by
  have hall : ∀ d ∈ tagIdArray es, isNameChar d = true := by
    intro d hd
    simp only [tagIdArray, List.mem_append] at hd
    rcases hd with hd | hd
    · exact arrayFlat_nameChars h d hd
    · revert hd d; decide
  rw [uniqTok_nameChars hall]
  unfold tagIdArray
  by_cases hf : replaceChar ' ' ['_'] (replaceChar '.' ['_'] es) = []
  · rw [hf]; exact ⟨[], by decide⟩
  · exact ⟨lowerFirst (replaceChar ' ' ['_'] (replaceChar '.' ['_'] es)), by rw [lowerFirst_append _ hf]; rfl⟩

theorem shape_nestA {es : Str} (h : ∀ ch ∈ es, isNameOrDot ch = true ∨ ch = ' ') (k : Nat) :
    HasGroup (uniqTok (tagIdArray es) ++ dec k) 3 := by
  obtain ⟨X, hX⟩ := uniqTok_tagIdArray h
  refine ⟨X, "array".toList ++ dec k, by rw [hX]; simp, ?_, gkind_array k⟩
  intro hm
  rcases List.mem_append.mp hm with hm | hm
  · revert hm; decide
  · exact underscore_not_mem_dec _ hm

/-! ### the three conditions of `assign_nodup` for a page -/

theorem plainBases_map_false (l : List Str) : plainBases (l.map fun s => (false, s)) = l := by
  induction l with
  | nil => rfl
  | cons a l ih => simpa [plainBases] using ih

theorem nestedBases_map_false (l : List Str) : nestedBases (l.map fun s => (false, s)) = [] := by
  induction l with
  | nil => rfl
  | cons a l ih => simpa [nestedBases] using ih

theorem plainBases_append (a b : List (Bool × Str)) : plainBases (a ++ b) = plainBases a ++ plainBases b := by
  simp [plainBases]

theorem nestedBases_append (a b : List (Bool × Str)) : nestedBases (a ++ b) = nestedBases a ++ nestedBases b := by
  simp [nestedBases]

theorem plainBases_sources (l : List Source) : plainBases (l.map Source.entry) = l.filterMap Source.plain := by
  induction l with
  | nil => rfl
  | cons s l ih =>
    have e : plainBases (List.map Source.entry (s :: l)) = plainBases [s.entry] ++ plainBases (l.map Source.entry) := by
      rw [← plainBases_append]; rfl
    rw [e, ih]
    cases s <;> simp [plainBases, Source.entry, Source.plain, List.filterMap_cons]

theorem nestedBases_sources (l : List Source) : nestedBases (l.map Source.entry) = l.filterMap Source.nested := by
  induction l with
  | nil => rfl
  | cons s l ih =>
    have e : nestedBases (List.map Source.entry (s :: l)) = nestedBases [s.entry] ++ nestedBases (l.map Source.entry) := by
      rw [← nestedBases_append]; rfl
    rw [e, ih]
    cases s <;> simp [nestedBases, Source.entry, Source.nested, List.filterMap_cons]

theorem plainBases_page (tr : NsD) :
    plainBases (pageEntries tr) = (pageConsts ++ (topTargets tr).map (· ++ sidebarSuffix) ++ pageMid) ++ topTargets tr := by
  unfold pageEntries
  rw [plainBases_append, plainBases_map_false, plainBases_sources, srcNs_plain]

theorem nestedBases_page (tr : NsD) : nestedBases (pageEntries tr) = (srcNs tr).filterMap Source.nested := by
  unfold pageEntries
  rw [nestedBases_append, nestedBases_map_false, nestedBases_sources]; rfl

/-- shape of the id of a listed entry -/
def TopShape (x : Str) : Prop := x ∉ pageConsts ++ pageMid ∧ ('_' ∉ x ∨ HasGroup x 4 ∨ HasGroup x 1)

theorem top_shape {s : Source} (hok : s.ok = true) {x : Str} (hx : s.plain = some x) : TopShape x := by
  cases s with
  | ns n =>
    simp only [Source.plain, Option.some.injEq] at hx; subst hx
    obtain ⟨h1, h2⟩ := shape_ns hok
    exact ⟨h1, h2.elim .inl (fun h => .inr (.inl h))⟩
  | top ct =>
    simp only [Source.plain, Option.some.injEq] at hx; subst hx
    obtain ⟨_, _, hm⟩ := ctOk_props (topOk_props hok).1
    have hg := shape_top hm
    refine ⟨?_, .inr (.inr hg)⟩
    intro hmem
    have hus : ∀ c ∈ pageConsts ++ pageMid, '_' ∉ c := by decide
    exact hus _ hmem hg.mem
  | topA es => simp [Source.ok] at hok
  | nestC ct => simp [Source.plain] at hx
  | nestA es => simp [Source.plain] at hx

theorem nested_shape {s : Source} (hok : s.ok = true) {b : Str} (hb : s.nested = some b) (k : Nat) :
    HasGroup (uniqTok b ++ dec k) 2 ∨ HasGroup (uniqTok b ++ dec k) 3 := by
  cases s with
  | nestC ct =>
    simp only [Source.nested, Option.some.injEq] at hb; subst hb
    obtain ⟨hne, hc, hm⟩ := ctOk_props hok
    exact .inl (shape_nestC hne hc hm k)
  | nestA es =>
    simp only [Source.nested, Option.some.injEq] at hb; subst hb
    exact .inr (shape_nestA (esOk_props hok) k)
  | ns n => simp [Source.nested] at hb
  | top ct => simp [Source.nested] at hb
  | topA es => simp [Source.nested] at hb

theorem nested_decode {s₁ s₂ : Source} (h₁ : s₁.ok = true) (h₂ : s₂.ok = true) {b₁ b₂ : Str}
    (hb₁ : s₁.nested = some b₁) (hb₂ : s₂.nested = some b₂) {k₁ k₂ : Nat}
    (e : uniqTok b₁ ++ dec k₁ = uniqTok b₂ ++ dec k₂) : uniqTok b₁ = uniqTok b₂ ∧ k₁ = k₂ := by
  cases s₁ with
  | nestC c₁ =>
    simp only [Source.nested, Option.some.injEq] at hb₁; subst hb₁
    obtain ⟨hne₁, hc₁, hm₁⟩ := ctOk_props h₁
    cases s₂ with
    | nestC c₂ =>
      simp only [Source.nested, Option.some.injEq] at hb₂; subst hb₂
      obtain ⟨hne₂, hc₂, hm₂⟩ := ctOk_props h₂
      rw [uniqTok_tagId hne₁ hc₁, uniqTok_tagId hne₂ hc₂] at e ⊢
      simp only [List.append_assoc, List.cons_append] at e
      have hus : ∀ m k : Nat, '_' ∉ dec m ++ dec k := fun m k h =>
        (List.mem_append.mp h).elim (underscore_not_mem_dec _) (underscore_not_mem_dec _)
      have e' : (lowerFirst (nsId c₁.comps) ++ '_' :: dec c₁.major) ++ '_' :: (dec c₁.minor ++ dec k₁) =
          (lowerFirst (nsId c₂.comps) ++ '_' :: dec c₂.major) ++ '_' :: (dec c₂.minor ++ dec k₂) := by
        simpa [List.append_assoc] using e
      obtain ⟨hp, hg⟩ := split_last (hus _ _) (hus _ _) e'
      obtain ⟨d₁, hd₁⟩ : ∃ d, dec c₁.minor = [d] := by
        have := dec_lt_ten hm₁
        match hdm : dec c₁.minor, this with
        | [d], _ => exact ⟨d, rfl⟩
      obtain ⟨d₂, hd₂⟩ : ∃ d, dec c₂.minor = [d] := by
        have := dec_lt_ten hm₂
        match hdm : dec c₂.minor, this with
        | [d], _ => exact ⟨d, rfl⟩
      rw [hd₁, hd₂] at hg
      simp only [List.cons_append, List.nil_append, List.cons.injEq] at hg
      refine ⟨?_, dec_inj hg.2⟩
      rw [hp, hd₁, hd₂, hg.1]
    | nestA es₂ =>
      simp only [Source.nested, Option.some.injEq] at hb₂; subst hb₂
      have g1 := shape_nestC hne₁ hc₁ hm₁ k₁
      have g2 := shape_nestA (esOk_props h₂) k₂
      rw [e] at g1
      exact absurd (g1.unique g2) (by decide)
    | ns n => simp [Source.nested] at hb₂
    | top ct => simp [Source.nested] at hb₂
    | topA es => simp [Source.nested] at hb₂
  | nestA es₁ =>
    simp only [Source.nested, Option.some.injEq] at hb₁; subst hb₁
    cases s₂ with
    | nestC c₂ =>
      simp only [Source.nested, Option.some.injEq] at hb₂; subst hb₂
      obtain ⟨hne₂, hc₂, hm₂⟩ := ctOk_props h₂
      have g1 := shape_nestA (esOk_props h₁) k₁
      have g2 := shape_nestC hne₂ hc₂ hm₂ k₂
      rw [e] at g1
      exact absurd (g1.unique g2) (by decide)
    | nestA es₂ =>
      simp only [Source.nested, Option.some.injEq] at hb₂; subst hb₂
      obtain ⟨X₁, hX₁⟩ := uniqTok_tagIdArray (esOk_props h₁)
      obtain ⟨X₂, hX₂⟩ := uniqTok_tagIdArray (esOk_props h₂)
      rw [hX₁, hX₂] at e ⊢
      have hus : ∀ k : Nat, '_' ∉ "array".toList ++ dec k := fun k h =>
        (List.mem_append.mp h).elim (by decide) (underscore_not_mem_dec _)
      have e' : X₁ ++ '_' :: ("array".toList ++ dec k₁) = X₂ ++ '_' :: ("array".toList ++ dec k₂) := by
        simpa [List.append_assoc] using e
      obtain ⟨hp, hg⟩ := split_last (hus _) (hus _) e'
      exact ⟨by rw [hp], dec_inj (List.append_cancel_left hg)⟩
    | ns n => simp [Source.nested] at hb₂
    | top ct => simp [Source.nested] at hb₂
    | topA es => simp [Source.nested] at hb₂
  | ns n => simp [Source.nested] at hb₁
  | top ct => simp [Source.nested] at hb₁
  | topA es => simp [Source.nested] at hb₁

/-- two listed sources with the same id are the same source -/
theorem top_inj {s₁ s₂ : Source} (h₁ : s₁.ok = true) (h₂ : s₂.ok = true) {x : Str}
    (hx₁ : s₁.plain = some x) (hx₂ : s₂.plain = some x) : s₁ = s₂ := by
  have usfree : ∀ {l : List Str}, (∀ c ∈ l, plainComp c = true) → ∀ c ∈ l, c ≠ [] ∧ '_' ∉ c :=
    fun h c hc => ⟨(plainComp_props (h c hc)).2.2.1, (plainComp_props (h c hc)).2.1⟩
  have nodot : ∀ {l : List Str}, (∀ c ∈ l, plainComp c = true) → ∀ c ∈ l, '.' ∉ c :=
    fun h c hc => (plainComp_props (h c hc)).2.2.2.1
  have flat_inj : ∀ {l l' : List Str}, (∀ c ∈ l, plainComp c = true) → (∀ c ∈ l', plainComp c = true) → nsId l = nsId l' → l = l' := by
    intro l l' hl hl' e
    rw [nsId_eq_join (nodot hl), nsId_eq_join (nodot hl')] at e
    exact join_injective_of_no_underscore (usfree hl) (usfree hl') e
  cases s₁ with
  | ns n =>
    simp only [Source.plain, Option.some.injEq] at hx₁
    obtain ⟨_, hc, _⟩ := nsOk_props h₁
    cases s₂ with
    | ns n' =>
      simp only [Source.plain, Option.some.injEq] at hx₂
      obtain ⟨_, hc', _⟩ := nsOk_props h₂
      rw [flat_inj (fun c h => nsCompOk_plain (hc c h)) (fun c h => nsCompOk_plain (hc' c h)) (hx₁.trans hx₂.symm)]
    | top ct =>
      simp only [Source.plain, Option.some.injEq] at hx₂
      have g := shape_top (ctOk_props (topOk_props h₂).1).2.2
      rw [hx₂, ← hx₁] at g
      rcases (shape_ns h₁).2 with h | h
      · exact absurd g.mem h
      · exact absurd (h.unique g) (by decide)
    | topA es => simp [Source.ok] at h₂
    | nestC ct => simp [Source.plain] at hx₂
    | nestA es => simp [Source.plain] at hx₂
  | top ct =>
    simp only [Source.plain, Option.some.injEq] at hx₁
    have h₁ := topOk_props h₁
    obtain ⟨_, hc, hm⟩ := ctOk_props h₁.1
    cases s₂ with
    | ns n =>
      simp only [Source.plain, Option.some.injEq] at hx₂
      have g := shape_top hm
      rw [hx₁, ← hx₂] at g
      rcases (shape_ns h₂).2 with h | h
      · exact absurd g.mem h
      · exact absurd (h.unique g) (by decide)
    | top ct' =>
      simp only [Source.plain, Option.some.injEq] at hx₂
      have h₂ := topOk_props h₂
      obtain ⟨_, hc', _⟩ := ctOk_props h₂.1
      obtain ⟨e1, e2, e3⟩ := (tagId_eq_iff ct ct').mp (hx₁.trans hx₂.symm)
      have e0 := flat_inj hc hc' e1
      have e4 : ct.hasParentService = ct'.hasParentService := by rw [h₁.2, h₂.2]
      cases ct; cases ct'; simp_all
    | topA es => simp [Source.ok] at h₂
    | nestC ct => simp [Source.plain] at hx₂
    | nestA es => simp [Source.plain] at hx₂
  | topA es => simp [Source.ok] at h₁
  | nestC ct => simp [Source.plain] at hx₁
  | nestA es => simp [Source.plain] at hx₁

theorem nodup_filterMap_of_inj {α β : Type} [DecidableEq α] {f : α → Option β} : ∀ {l : List α},
    (l.filter fun a => (f a).isSome).Nodup →
    (∀ a ∈ l, ∀ b ∈ l, ∀ x, f a = some x → f b = some x → a = b) → (l.filterMap f).Nodup
  | [], _, _ => by simp
  | a :: l, hnd, hinj => by
    have hinj' : ∀ a ∈ l, ∀ b ∈ l, ∀ x, f a = some x → f b = some x → a = b :=
      fun a ha b hb => hinj a (List.mem_cons_of_mem _ ha) b (List.mem_cons_of_mem _ hb)
    cases hfa : f a with
    | none =>
      have e : (a :: l).filter (fun a => (f a).isSome) = l.filter (fun a => (f a).isSome) := by simp [List.filter_cons, hfa]
      rw [e] at hnd
      rw [List.filterMap_cons, hfa]
      exact nodup_filterMap_of_inj hnd hinj'
    | some x =>
      have e : (a :: l).filter (fun a => (f a).isSome) = a :: l.filter (fun a => (f a).isSome) := by simp [List.filter_cons, hfa]
      rw [e] at hnd
      obtain ⟨hna, hnd'⟩ := List.nodup_cons.mp hnd
      rw [List.filterMap_cons, hfa]
      refine List.nodup_cons.mpr ⟨?_, nodup_filterMap_of_inj hnd' hinj'⟩
      intro hm
      obtain ⟨b, hb, hfb⟩ := List.mem_filterMap.mp hm
      have := hinj a (by simp) b (List.mem_cons_of_mem _ hb) x hfa hfb
      subst this
      exact hna (List.mem_filter.mpr ⟨hb, by simp [hfa]⟩)

/-- **Ids are unique on the page of a namespace** whenever the names are simple (`simpleRun`). -/
theorem page_ids_nodup (tr : NsD) (h : simpleRun tr = true) : (idsOf (nsPageItems tr)).Nodup := by
  simp only [simpleRun, Bool.and_eq_true, List.all_eq_true, decide_eq_true_eq] at h
  obtain ⟨hok, hnd⟩ := h
  rw [page_ids_assign]
  have hT : ∀ x ∈ topTargets tr, TopShape x := by
    intro x hx
    rw [← srcNs_plain] at hx
    obtain ⟨s, hs, hsx⟩ := List.mem_filterMap.mp hx
    exact top_shape (hok s hs) hsx
  have hW : ∀ w ∈ (topTargets tr).map (· ++ sidebarSuffix), HasGroup w 0 := by
    intro w hw
    obtain ⟨x, _, rfl⟩ := List.mem_map.mp hw
    exact shape_twin x
  have hC : ∀ c ∈ pageConsts ++ pageMid, '_' ∉ c := by decide
  have hCM : (pageConsts ++ pageMid).Nodup := by decide
  have hN : ∀ b ∈ (srcNs tr).filterMap Source.nested, ∃ s ∈ srcNs tr, s.nested = some b := fun b hb => by
    obtain ⟨s, hs, hsb⟩ := List.mem_filterMap.mp hb
    exact ⟨s, hs, hsb⟩
  have hTnd : (topTargets tr).Nodup := by
    rw [← srcNs_plain]
    exact nodup_filterMap_of_inj hnd (fun a ha b hb x hxa hxb => top_inj (hok a ha) (hok b hb) hxa hxb)
  have hWnd : ((topTargets tr).map (· ++ sidebarSuffix)).Nodup := by
    rw [List.Nodup, List.pairwise_map]
    exact List.Pairwise.imp (fun hne e => hne (List.append_cancel_right e)) hTnd
  -- a plain id is a constant, a twin, or a listed entry
  have plainCases : ∀ x ∈ plainBases (pageEntries tr), x ∈ pageConsts ++ pageMid ∨ HasGroup x 0 ∨ TopShape x := by
    intro x hx
    rw [plainBases_page] at hx
    simp only [List.mem_append] at hx
    rcases hx with ((h | h) | h) | h
    · exact .inl (List.mem_append_left _ h)
    · exact .inr (.inl (hW x h))
    · exact .inl (List.mem_append_right _ h)
    · exact .inr (.inr (hT x h))
  refine (assign_nodup (pageEntries tr) [] ?_ ?_ ?_).1
  · -- (1) the plain ids are pairwise distinct
    rw [plainBases_page]
    refine List.nodup_append.mpr ⟨?_, hTnd, ?_⟩
    · refine List.nodup_append.mpr ⟨?_, (List.nodup_append.mp hCM).2.1, ?_⟩
      · refine List.nodup_append.mpr ⟨(List.nodup_append.mp hCM).1, hWnd, ?_⟩
        intro c hc w hw e
        exact hC c (List.mem_append_left _ hc) (e ▸ (hW w hw).mem)
      · intro a ha m hm e
        rcases List.mem_append.mp ha with ha | ha
        · exact (List.nodup_append.mp hCM).2.2 a ha m hm e
        · exact hC m (List.mem_append_right _ hm) (e ▸ (hW a ha).mem)
    · intro a ha t ht e
      subst e
      obtain ⟨hnc, hsh⟩ := hT a ht
      simp only [List.mem_append] at ha
      rcases ha with (ha | ha) | ha
      · exact hnc (List.mem_append_left _ ha)
      · have g0 := hW a ha
        rcases hsh with h | h | h
        · exact h g0.mem
        · exact absurd (g0.unique h) (by decide)
        · exact absurd (g0.unique h) (by decide)
      · exact hnc (List.mem_append_right _ ha)
  · -- (2) a `make_unique` result is none of them
    intro b hb k b' hb' e
    rw [nestedBases_page] at hb
    obtain ⟨s, hs, hsb⟩ := hN b hb
    have g := nested_shape (hok s hs) hsb k
    have hmem : '_' ∈ uniqTok b ++ dec k := g.elim HasGroup.mem HasGroup.mem
    rw [e] at g hmem
    rcases plainCases b' hb' with h | h | ⟨_, h | h | h⟩
    · exact hC b' h hmem
    · rcases g with g | g <;> exact absurd (g.unique h) (by decide)
    · exact h hmem
    · rcases g with g | g <;> exact absurd (g.unique h) (by decide)
    · rcases g with g | g <;> exact absurd (g.unique h) (by decide)
  · -- (3) a `make_unique` result determines token and counter
    intro b₁ hb₁ b₂ hb₂ k₁ k₂ e
    rw [nestedBases_page] at hb₁ hb₂
    obtain ⟨s₁, hs₁, hsb₁⟩ := hN b₁ hb₁
    obtain ⟨s₂, hs₂, hsb₂⟩ := hN b₂ hb₂
    exact nested_decode (hok s₁ hs₁) (hok s₂ hs₂) hsb₁ hsb₂ e

/-! ## Files do not overwrite each other; executable hypotheses -/

theorem dropLast_getLastD_inj {a b : List Str} (ha : a ≠ []) (hb : b ≠ []) (h1 : a.dropLast = b.dropLast)
    (h2 : a.getLastD [] = b.getLastD []) : a = b := by
  rw [← List.dropLast_concat_getLast ha, ← List.dropLast_concat_getLast hb, h1]
  congr 2
  rw [List.getLastD_eq_getLast?, List.getLastD_eq_getLast?, List.getLast?_eq_some_getLast ha, List.getLast?_eq_some_getLast hb] at h2
  simpa using h2

/-- No two types are written to the same file, and no type page takes the place of a namespace page. -/
theorem typePagePath_inj {a b : CType} (ha : a.comps ≠ []) (hb : b.comps ≠ []) (h : typePagePath a = typePagePath b) :
    a.comps = b.comps ∧ a.major = b.major ∧ a.minor = b.minor := by
  unfold typePagePath at h
  have h1 := List.append_inj' h (by simp)
  have h2 : a.comps.getLastD [] ++ versionSuffix a.major a.minor = b.comps.getLastD [] ++ versionSuffix b.major b.minor := by
    have := h1.2
    simp only [List.cons.injEq, and_true] at this
    exact List.append_cancel_right this
  obtain ⟨e1, e2, e3⟩ := versionSuffix_inj h2
  exact ⟨dropLast_getLastD_inj ha hb h1.1 e1, e2, e3⟩

theorem typePagePath_ne_nsPagePath (t : CType) (ns : List Str) : typePagePath t ≠ nsPagePath ns := by
  intro h
  unfold typePagePath nsPagePath at h
  have h1 := List.append_inj' h (by simp)
  have h2 := h1.2
  simp only [List.cons.injEq, and_true] at h2
  -- "…_<minor>.html" = "index.html": cancel ".html", the left side contains '_'
  have e : indexPage = "index".toList ++ ".html".toList := by decide
  rw [e] at h2
  have h3 := List.append_cancel_right h2
  have : '_' ∈ "index".toList := by
    rw [← h3]; simp [versionSuffix]
  revert this; decide

theorem validCompB_iff {c : Str} : validCompB c = true ↔ ValidComp c := by
  simp [validCompB, ValidComp, List.all_eq_true]



theorem runOk_of_runOkB {run : NsD} (h : runOkB run = true) : RunOk run := by
  simp only [runOkB, Bool.and_eq_true, List.all_eq_true, Bool.not_eq_true', List.isEmpty_eq_false_iff] at h
  exact ⟨h.1, fun m hm => ⟨(h.2 m hm).1, fun c hc => validCompB_iff.mp ((h.2 m hm).2 c hc)⟩⟩



theorem closed_of_closedB {runs : List NsD} (h : closedB runs = true) : Closed runs := by
  intro run hrun ct hct
  simp only [closedB, List.all_eq_true, Bool.and_eq_true, List.any_eq_true, beq_iff_eq] at h
  obtain ⟨hv, tgt, htgt, hname, hmem⟩ := h run hrun ct hct
  exact ⟨validCompB_iff.mp hv, tgt, htgt, hname, by simpa using hmem⟩

/-! ## Writing over an output directory that already has content -/

theorem readFile_writeFile_same {α : Type} (fs : OutDir α) (p : List Str) (c : α) : readFile (writeFile fs p c) p = some c := by
  simp [readFile, writeFile]

theorem readFile_writeFile_other {α : Type} (fs : OutDir α) {p q : List Str} (c : α) (h : p ≠ q) :
    readFile (writeFile fs q c) p = readFile fs p := by
  have hq : (q == p) = false := by simpa using fun e => h e.symm
  simp only [readFile, writeFile, List.find?_cons, hq]
  congr 1
  induction fs with
  | nil => rfl
  | cons f fs ih =>
    by_cases hf : f.1 = q
    · have hne : (f.1 != q) = false := by simp [hf]
      have hfp : (f.1 == p) = false := by rw [hf]; exact hq
      rw [List.filter_cons, hne, List.find?_cons, hfp]
      simpa using ih
    · have hne : (f.1 != q) = true := by simpa using hf
      rw [List.filter_cons, hne]
      simp only [if_true, List.find?_cons]
      cases hfp : (f.1 == p) with
      | true => rfl
      | false => exact ih

theorem readFile_writeAll_other {α : Type} : ∀ (files : List (List Str × α)) (fs : OutDir α) (p : List Str),
    (∀ f ∈ files, f.1 ≠ p) → readFile (writeAll fs files) p = readFile fs p
  | [], _, _, _ => rfl
  | f :: fl, fs, p, h => by
    show readFile (writeAll (writeFile fs f.1 f.2) fl) p = _
    rw [readFile_writeAll_other fl _ p (fun g hg => h g (List.mem_cons_of_mem _ hg)),
      readFile_writeFile_other fs f.2 (fun e => h f (by simp) e.symm)]

/-- **The content of every generated file is a function of the run's input only**: whatever the output directory held
before, after a run whose files have pairwise different paths every file of the run reads back exactly the content rendered
for it. -/
theorem readFile_writeAll {α : Type} : ∀ (files : List (List Str × α)) (fs : OutDir α),
    (files.map (·.1)).Nodup → ∀ f ∈ files, readFile (writeAll fs files) f.1 = some f.2
  | [], _, _, f, hf => by simp at hf
  | g :: fl, fs, hnd, f, hf => by
    simp only [List.map_cons, List.nodup_cons] at hnd
    show readFile (writeAll (writeFile fs g.1 g.2) fl) f.1 = _
    rcases List.mem_cons.mp hf with rfl | hf
    · rw [readFile_writeAll_other fl _ _ (fun h hh e => hnd.1 (by rw [← e]; exact List.mem_map_of_mem hh)), readFile_writeFile_same]
    · exact readFile_writeAll fl _ hnd.2 f hf

end NunavutVerif.Html
