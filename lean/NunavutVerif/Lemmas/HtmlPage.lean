import NunavutVerif.Model.HtmlPage
import NunavutVerif.Lemmas.Html
/-!
Helper lemmas for C20, round 2: ids (when two of them coincide), the reference inventory of a page (every same-page
reference has its target), the files of a run (every relative link has its target).
-/
namespace NunavutVerif.Html

/-! ## Splitting at a separator; decimal numbers -/

theorem dec_inj {a b : Nat} (h : dec a = dec b) : a = b := by
  have h2 := congrArg (fun l => Nat.ofDigitChars 10 l 0) h
  simpa [dec, Nat.ofDigitChars_ten_toDigits] using h2

theorem underscore_not_mem_dec (n : Nat) : '_' ∉ dec n := Nat.underscore_not_in_toDigits

theorem dec_ne_nil (n : Nat) : dec n ≠ [] := Nat.toDigits_ne_nil

theorem dec_isDigit {n : Nat} {c : Char} (h : c ∈ dec n) : c.isDigit = true :=
  Nat.isDigit_of_mem_toDigits (by decide) (by decide) h

/-- split at the first occurrence of a separator -/
theorem split_first {x : Char} : ∀ {p q r s : Str}, x ∉ p → x ∉ q → p ++ x :: r = q ++ x :: s → p = q ∧ r = s
  | [], [], _, _, _, _, h => by simpa using h
  | [], c :: q, _, _, _, hq, h => by
    simp at h
    exact absurd (by simp [h.1]) hq
  | c :: p, [], _, _, hp, _, h => by
    simp at h
    exact absurd (by simp [h.1]) hp
  | c :: p, d :: q, r, s, hp, hq, h => by
    simp at h
    have := split_first (p := p) (q := q) (fun e => hp (by simp [e])) (fun e => hq (by simp [e])) h.2
    simp [h.1, this.1, this.2]

/-- split at the last occurrence of a separator -/
theorem split_last {x : Char} {a b p q : Str} (hp : x ∉ p) (hq : x ∉ q) (h : a ++ x :: p = b ++ x :: q) :
    a = b ∧ p = q := by
  have h2 := congrArg List.reverse h
  simp only [List.reverse_append, List.reverse_cons, List.append_assoc, List.singleton_append] at h2
  have := split_first (x := x) (p := p.reverse) (q := q.reverse) (by simpa using hp) (by simpa using hq) h2
  exact ⟨List.reverse_inj.mp this.2, List.reverse_inj.mp this.1⟩

theorem versionSuffix_inj {a b : Str} {M m M' m' : Nat} (h : a ++ versionSuffix M m = b ++ versionSuffix M' m') :
    a = b ∧ M = M' ∧ m = m' := by
  have e : ∀ (a : Str) (M m : Nat), a ++ versionSuffix M m = (a ++ '_' :: dec M) ++ '_' :: dec m := by
    intro a M m; simp [versionSuffix]
  rw [e, e] at h
  obtain ⟨h1, h2⟩ := split_last (underscore_not_mem_dec m) (underscore_not_mem_dec m') h
  obtain ⟨h3, h4⟩ := split_last (underscore_not_mem_dec M) (underscore_not_mem_dec M') h1
  exact ⟨h3, dec_inj h4, dec_inj h2⟩

/-- **When two tag ids coincide**: exactly when the dot-to-underscore flattenings of the full names coincide and the
versions are equal.  (The version part never causes a collision; the flattening does.) -/
theorem tagId_eq_iff (a b : CType) :
    tagId a = tagId b ↔ nsId a.comps = nsId b.comps ∧ a.major = b.major ∧ a.minor = b.minor := by
  constructor
  · intro h
    exact versionSuffix_inj (a := replaceChar '.' ['_'] a.fullName) (b := replaceChar '.' ['_'] b.fullName) h
  · rintro ⟨h1, h2, h3⟩
    simp only [tagId, CType.fullName]
    simp only [nsId] at h1
    rw [h1, h2, h3]

/-! ## The flattening `.` → `_` -/

theorem replaceChar_noop {x : Char} {r s : Str} (h : x ∉ s) : replaceChar x r s = s := by
  induction s with
  | nil => rfl
  | cons c s ih =>
    have hc : c ≠ x := fun e => h (by simp [e])
    simp [replaceChar, hc, ih (fun e => h (by simp [e]))]

theorem joinWith_cons_of_ne_nil (sep : Char) (a : Str) {l : List Str} (h : l ≠ []) :
    joinWith sep (a :: l) = a ++ sep :: joinWith sep l := by
  cases l with
  | nil => exact absurd rfl h
  | cons b l => rfl

/-- For name components (no dot inside), the id of a namespace is the components joined by `_`. -/
theorem nsId_eq_join {l : List Str} (h : ∀ c ∈ l, '.' ∉ c) : nsId l = joinWith '_' l := by
  unfold nsId
  induction l with
  | nil => rfl
  | cons a l ih =>
    cases l with
    | nil => simpa [joinWith] using replaceChar_noop (r := ['_']) (h a (by simp))
    | cons b l =>
      have e : joinWith '.' (a :: b :: l) = a ++ '.' :: joinWith '.' (b :: l) := rfl
      have e2 : joinWith '_' (a :: b :: l) = a ++ '_' :: joinWith '_' (b :: l) := rfl
      rw [e, e2, replaceChar_append, replaceChar_noop (h a (by simp))]
      simp only [replaceChar, if_true]
      rw [ih (fun c hc => h c (by simp [hc]))]
      rfl

/-- **The collision family**: a component `u_v` and the two components `u`, `v` flatten to the same text, wherever they
stand (`a.b_c.D` and `a.b.c_D`; a namespace `r.b_c` and a namespace `r.b.c`). -/
theorem join_underscore_collides (pre post : List Str) (u v : Str) :
    joinWith '_' (pre ++ (u ++ '_' :: v) :: post) = joinWith '_' (pre ++ u :: v :: post) := by
  induction pre with
  | nil =>
    cases post with
    | nil => simp [joinWith]
    | cons p post => simp [joinWith]
  | cons a pre ih =>
    rw [List.cons_append, List.cons_append, joinWith_cons_of_ne_nil _ _ (by simp), joinWith_cons_of_ne_nil _ _ (by simp), ih]

/-- Without underscores inside the components the flattening is injective. -/
theorem join_injective_of_no_underscore : ∀ {l l' : List Str}, (∀ c ∈ l, c ≠ [] ∧ '_' ∉ c) → (∀ c ∈ l', c ≠ [] ∧ '_' ∉ c) →
    joinWith '_' l = joinWith '_' l' → l = l'
  | [], [], _, _, _ => rfl
  | [], [b], _, h', h => by
    simp [joinWith] at h
    exact absurd h (h' b (by simp)).1
  | [], b :: c :: l', _, h', h => by
    have e : joinWith '_' (b :: c :: l') = b ++ '_' :: joinWith '_' (c :: l') := rfl
    rw [e] at h
    simp [joinWith] at h
  | [a], [], hl, _, h => by
    simp [joinWith] at h
    exact absurd h (hl a (by simp)).1
  | a :: c :: l, [], _, _, h => by
    have e : joinWith '_' (a :: c :: l) = a ++ '_' :: joinWith '_' (c :: l) := rfl
    rw [e] at h
    simp [joinWith] at h
  | [a], [b], _, _, h => by simpa [joinWith] using h
  | [a], b :: c :: l', hl, h', h => by
    have e : joinWith '_' (b :: c :: l') = b ++ '_' :: joinWith '_' (c :: l') := rfl
    rw [e] at h
    simp only [joinWith] at h
    have : '_' ∈ a := by rw [h]; simp
    exact absurd this (hl a (by simp)).2
  | a :: c :: l, [b], hl, h', h => by
    have e : joinWith '_' (a :: c :: l) = a ++ '_' :: joinWith '_' (c :: l) := rfl
    rw [e] at h
    simp only [joinWith] at h
    have : '_' ∈ b := by rw [← h]; simp
    exact absurd this (h' b (by simp)).2
  | a :: c :: l, b :: d :: l', hl, h', h => by
    have e : joinWith '_' (a :: c :: l) = a ++ '_' :: joinWith '_' (c :: l) := rfl
    have e' : joinWith '_' (b :: d :: l') = b ++ '_' :: joinWith '_' (d :: l') := rfl
    rw [e, e'] at h
    obtain ⟨h1, h2⟩ := split_first (hl a (by simp)).2 (h' b (by simp)).2 h
    have := join_injective_of_no_underscore (l := c :: l) (l' := d :: l') (fun x hx => hl x (by simp [hx]))
      (fun x hx => h' x (by simp [hx])) h2
    rw [h1, this]

/-! ## The inventory of a page: ids and same-page references -/

theorem idsOf_append (a b : List Item) : idsOf (a ++ b) = idsOf a ++ idsOf b := by
  induction a with
  | nil => rfl
  | cons x a ih => cases x <;> simp [idsOf, ih]

theorem mem_idsOf {s : Str} {l : List Item} : s ∈ idsOf l ↔ Item.id s ∈ l := by
  induction l with
  | nil => simp [idsOf]
  | cons x l ih => cases x <;> simp [idsOf, ih]

/-- every same-page reference of `items` has its target among `ids` -/
def RefsIn (ids : List Str) (items : List Item) : Prop := ∀ it ∈ items, ∀ s, it.sameRef = some s → s ∈ ids

theorem RefsIn.append {ids : List Str} {a b : List Item} (ha : RefsIn ids a) (hb : RefsIn ids b) : RefsIn ids (a ++ b) := by
  intro it hit s hs
  rcases List.mem_append.mp hit with h | h
  · exact ha it h s hs
  · exact hb it h s hs

theorem RefsIn.mono {ids ids' : List Str} {a : List Item} (h : RefsIn ids a) (hsub : ∀ s ∈ ids, s ∈ ids') : RefsIn ids' a :=
  fun it hit s hs => hsub s (h it hit s hs)

theorem RefsIn.nil (ids : List Str) : RefsIn ids [] := fun _ h => absurd h (by simp)

/-- a piece of a page whose references all point into the piece itself -/
def RefsSelf (items : List Item) : Prop := RefsIn (idsOf items) items

theorem RefsSelf.append {a b : List Item} (ha : RefsSelf a) (hb : RefsSelf b) : RefsSelf (a ++ b) := by
  unfold RefsSelf
  rw [idsOf_append]
  exact (RefsIn.mono ha (fun s h => List.mem_append_left _ h)).append (RefsIn.mono hb (fun s h => List.mem_append_right _ h))

theorem ctl_refs (v : String) (hv : ∀ s, v.toList ≠ '#' :: s) (i : Str) (ids : List Str) (hi : i ∈ ids) : RefsIn ids (ctl v i) := by
  intro it hit s hs
  simp only [ctl, List.mem_cons, List.not_mem_nil, or_false] at hit
  rcases hit with rfl | rfl | rfl | rfl
  · cases hvl : v.toList with
    | nil => simp [Item.sameRef, hvl] at hs
    | cons c r =>
      by_cases hc : c = '#'
      · exact absurd (hc ▸ hvl) (hv r)
      · rw [hvl] at hs
        have : Item.sameRef (.href (c :: r)) = none := by
          unfold Item.sameRef
          split <;> simp_all
        rw [this] at hs; cases hs
  · simp [Item.sameRef] at hs; exact hs ▸ hi
  · simp [Item.sameRef] at hs; exact hs ▸ hi
  · simp [Item.sameRef] at hs; exact hs ▸ hi

theorem void1_not_frag : ∀ s, "javascript:void".toList ≠ '#' :: s := by
  intro s h
  have h2 : ("javascript:void".toList).head? = some '#' := by rw [h]; rfl
  revert h2; decide
theorem void2_not_frag : ∀ s, "javascript:void;".toList ≠ '#' :: s := by
  intro s h
  have h2 : ("javascript:void;".toList).head? = some '#' := by rw [h]; rfl
  revert h2; decide

theorem sameRef_href_dotdot (r : Str) : Item.sameRef (.href ('.' :: r)) = none := by
  unfold Item.sameRef; split <;> simp_all

/-- the link of a nested entry is not a same-page reference (it starts with `../`, or with the `up` prefix `../…`) -/
theorem entLink_refs (up : Str) (hup : ∀ s, up ≠ '#' :: s) (nested : Bool) (ct : CType) (ids : List Str) :
    RefsIn ids (entLink up nested ct) := by
  intro it hit s hs
  unfold entLink at hit
  split at hit
  · simp only [List.mem_cons, List.not_mem_nil, or_false] at hit
    subst hit
    cases up with
    | nil =>
      have : ([] : Str) ++ urlFromType ct = '.' :: ('.' :: '/' :: (ct.rootNamespace ++ "/#".toList ++
          (replaceChar '.' ['_'] (if ct.hasParentService then ct.fullNamespace else ct.fullName) ++ versionSuffix ct.major ct.minor))) := by
        simp [urlFromType]
      rw [this, sameRef_href_dotdot] at hs; cases hs
    | cons c r =>
      have hc : c ≠ '#' := fun e => hup r (by rw [e])
      have : Item.sameRef (.href (c :: r ++ urlFromType ct)) = none := by
        unfold Item.sameRef
        split <;> simp_all
      rw [this] at hs; cases hs
  · simp at hit

mutual
theorem entItems_refsSelf (up : Str) (hup : ∀ s, up ≠ '#' :: s) (nested : Bool) (seen : List Str) :
    ∀ e : Ent, RefsSelf (entItems up nested seen e).1
  | .comp ct sv attrs => by
    unfold entItems
    simp only
    unfold RefsSelf
    have hid : (entId nested seen (tagId ct)).1 ∈ idsOf
        (ctl "javascript:void" (entId nested seen (tagId ct)).1 ++ entLink up nested ct ++ [.id (entId nested seen (tagId ct)).1] ++
          (entsItems up (entId nested seen (tagId ct)).2 attrs).1) := by
      rw [mem_idsOf]; simp
    refine (((ctl_refs _ void1_not_frag _ _ hid).append (entLink_refs up hup nested ct _)).append ?_).append ?_
    · intro it hit s hs
      simp only [List.mem_cons, List.not_mem_nil, or_false] at hit
      subst hit; simp [Item.sameRef] at hs
    · exact RefsIn.mono (entsItems_refsSelf up hup _ attrs) (fun s h => by rw [idsOf_append]; exact List.mem_append_right _ h)
  | .arr es el => by
    unfold entItems
    simp only
    unfold RefsSelf
    have hid : (entId nested seen (tagIdArray es)).1 ∈ idsOf
        (ctl "javascript:void" (entId nested seen (tagIdArray es)).1 ++ [.id (entId nested seen (tagIdArray es)).1] ++
          (entsItems up (entId nested seen (tagIdArray es)).2 el).1) := by
      rw [mem_idsOf]; simp
    refine ((ctl_refs _ void1_not_frag _ _ hid).append ?_).append ?_
    · intro it hit s hs
      simp only [List.mem_cons, List.not_mem_nil, or_false] at hit
      subst hit; simp [Item.sameRef] at hs
    · exact RefsIn.mono (entsItems_refsSelf up hup _ el) (fun s h => by rw [idsOf_append]; exact List.mem_append_right _ h)
theorem entsItems_refsSelf (up : Str) (hup : ∀ s, up ≠ '#' :: s) (seen : List Str) :
    ∀ es : List Ent, RefsSelf (entsItems up seen es).1
  | [] => by unfold entsItems; exact RefsIn.nil _
  | e :: es => by
    unfold entsItems
    exact (entItems_refsSelf up hup true seen e).append (entsItems_refsSelf up hup _ es)
end

theorem topItems_refsSelf (up : Str) (hup : ∀ s, up ≠ '#' :: s) : ∀ (seen : List Str) (es : List Ent), RefsSelf (topItems up seen es).1
  | _, [] => by unfold topItems; exact RefsIn.nil _
  | seen, e :: es => by
    unfold topItems
    split
    · exact (entItems_refsSelf up hup false seen e).append (topItems_refsSelf up hup _ es)
    · exact topItems_refsSelf up hup seen es

mutual
theorem nsInfoItems_refsSelf (up : Str) (hup : ∀ s, up ≠ '#' :: s) (seen : List Str) : ∀ n : NsD, RefsSelf (nsInfoItems up seen n).1
  | .node name types children => by
    unfold nsInfoItems
    simp only
    have h1 : RefsSelf (ctl "javascript:void;" (nsId name) ++ [Item.id (nsId name)]) := by
      unfold RefsSelf
      have hid : nsId name ∈ idsOf (ctl "javascript:void;" (nsId name) ++ [Item.id (nsId name)]) := by rw [mem_idsOf]; simp
      refine (ctl_refs _ void2_not_frag _ _ hid).append ?_
      intro it hit s hs
      simp only [List.mem_cons, List.not_mem_nil, or_false] at hit
      subst hit; simp [Item.sameRef] at hs
    exact (h1.append (topItems_refsSelf up hup seen types)).append (nsInfoItemsL_refsSelf up hup _ children)
theorem nsInfoItemsL_refsSelf (up : Str) (hup : ∀ s, up ≠ '#' :: s) (seen : List Str) : ∀ l : List NsD, RefsSelf (nsInfoItemsL up seen l).1
  | [] => by unfold nsInfoItemsL; exact RefsIn.nil _
  | n :: l => by
    unfold nsInfoItemsL
    exact (nsInfoItems_refsSelf up hup seen n).append (nsInfoItemsL_refsSelf up hup _ l)
end

/-! ### The entries other parts of the page point to -/

theorem entItems_top_id (up : Str) (seen : List Str) (e : Ent) : e.tag ∈ idsOf (entItems up false seen e).1 := by
  cases e with
  | comp ct sv attrs => unfold entItems; simp [mem_idsOf, entId, Ent.tag]
  | arr es el => unfold entItems; simp [mem_idsOf, entId, Ent.tag]

theorem topItems_ids (up : Str) : ∀ (seen : List Str) (es : List Ent), ∀ e ∈ es.filter Ent.listed, e.tag ∈ idsOf (topItems up seen es).1
  | _, [], e, he => by simp at he
  | seen, x :: es, e, he => by
    unfold topItems
    by_cases hx : x.listed = true
    · simp only [hx, if_true]
      rw [idsOf_append]
      simp only [List.filter_cons, hx, if_true, List.mem_cons] at he
      rcases he with rfl | he
      · exact List.mem_append_left _ (entItems_top_id up seen e)
      · exact List.mem_append_right _ (topItems_ids up _ es e he)
    · simp only [hx]
      simp only [List.filter_cons, hx] at he
      exact topItems_ids up seen es e (by simpa using he)

mutual
/-- every namespace of the tree and every listed type has its entry in the `namespaceinfo` part -/
theorem topTargets_in_nsInfo (up : Str) (seen : List Str) : ∀ n : NsD, ∀ s ∈ topTargets n, s ∈ idsOf (nsInfoItems up seen n).1
  | .node name types children, s, hs => by
    unfold nsInfoItems
    simp only
    unfold topTargets at hs
    simp only [List.mem_cons, List.mem_append, List.mem_map] at hs
    rw [idsOf_append, idsOf_append]
    rcases hs with (rfl | ⟨e, he, rfl⟩) | hs
    · exact List.mem_append_left _ (List.mem_append_left _ (by rw [mem_idsOf]; simp))
    · exact List.mem_append_left _ (List.mem_append_right _ (topItems_ids up seen types e he))
    · exact List.mem_append_right _ (topTargetsL_in_nsInfo up _ children s hs)
theorem topTargetsL_in_nsInfo (up : Str) (seen : List Str) : ∀ l : List NsD, ∀ s ∈ topTargetsL l, s ∈ idsOf (nsInfoItemsL up seen l).1
  | [], s, hs => by simp [topTargetsL] at hs
  | n :: l, s, hs => by
    unfold nsInfoItemsL
    simp only
    unfold topTargetsL at hs
    rw [idsOf_append]
    rcases List.mem_append.mp hs with h | h
    · exact List.mem_append_left _ (topTargets_in_nsInfo up seen n s h)
    · exact List.mem_append_right _ (topTargetsL_in_nsInfo up _ l s h)
end

theorem sideType_refs (e : Ent) (ids : List Str) (h : e.tag ∈ ids) : RefsIn ids (sideType e) := by
  intro it hit s hs
  simp only [sideType, List.mem_cons, List.not_mem_nil, or_false] at hit
  rcases hit with rfl | rfl
  · simp [Item.sameRef] at hs
  · simp [Item.sameRef] at hs; exact hs ▸ h

mutual
/-- every reference of the sidebar points to a sidebar element or to the entry of a namespace / listed type -/
theorem sidebarItems_refs : ∀ n : NsD, RefsIn (idsOf (sidebarItems n) ++ topTargets n) (sidebarItems n)
  | .node name types children => by
    unfold sidebarItems topTargets
    have hside : nsId name ++ sidebarSuffix ∈ idsOf
        ([Item.dataTarget (nsId name ++ sidebarSuffix), .onclick (nsId name ++ sidebarSuffix) (some "sidebar".toList),
          .aria (nsId name ++ sidebarSuffix), .href ('#' :: nsId name), .id (nsId name ++ sidebarSuffix)] ++
          (types.filter Ent.listed).flatMap sideType ++ sidebarItemsL children) ++
        (nsId name :: (types.filter Ent.listed).map Ent.tag ++ topTargetsL children) := by
      apply List.mem_append_left; rw [mem_idsOf]; simp
    refine RefsIn.append (RefsIn.append ?_ ?_) ?_
    · intro it hit s hs
      simp only [List.mem_cons, List.not_mem_nil, or_false] at hit
      rcases hit with rfl | rfl | rfl | rfl | rfl
      · simp [Item.sameRef] at hs; exact hs ▸ hside
      · simp [Item.sameRef] at hs; exact hs ▸ hside
      · simp [Item.sameRef] at hs; exact hs ▸ hside
      · simp [Item.sameRef] at hs; subst hs; apply List.mem_append_right; simp
      · simp [Item.sameRef] at hs
    · intro it hit s hs
      obtain ⟨e, he, hit⟩ := List.mem_flatMap.mp hit
      refine sideType_refs e _ ?_ it hit s hs
      apply List.mem_append_right
      simp only [List.mem_cons, List.mem_append, List.mem_map]
      exact .inl (.inr ⟨e, he, rfl⟩)
    · refine RefsIn.mono (sidebarItemsL_refs children) ?_
      intro s hs
      rcases List.mem_append.mp hs with h | h
      · apply List.mem_append_left; rw [idsOf_append]; exact List.mem_append_right _ h
      · apply List.mem_append_right; simp only [List.mem_cons, List.mem_append]; exact .inr h
theorem sidebarItemsL_refs : ∀ l : List NsD, RefsIn (idsOf (sidebarItemsL l) ++ topTargetsL l) (sidebarItemsL l)
  | [] => by unfold sidebarItemsL; exact RefsIn.nil _
  | n :: l => by
    unfold sidebarItemsL topTargetsL
    refine RefsIn.append (RefsIn.mono (sidebarItems_refs n) ?_) (RefsIn.mono (sidebarItemsL_refs l) ?_)
    · intro s hs
      rcases List.mem_append.mp hs with h | h
      · apply List.mem_append_left; rw [idsOf_append]; exact List.mem_append_left _ h
      · apply List.mem_append_right; exact List.mem_append_left _ h
    · intro s hs
      rcases List.mem_append.mp hs with h | h
      · apply List.mem_append_left; rw [idsOf_append]; exact List.mem_append_right _ h
      · apply List.mem_append_right; exact List.mem_append_right _ h
end

mutual
/-- the sidebar has the `_sidebar` twin of every namespace entry and every listed type entry -/
theorem twins_in_sidebar : ∀ n : NsD, ∀ s ∈ topTargets n, s ++ sidebarSuffix ∈ idsOf (sidebarItems n)
  | .node name types children, s, hs => by
    unfold sidebarItems
    unfold topTargets at hs
    simp only [List.mem_cons, List.mem_append, List.mem_map] at hs
    rw [idsOf_append, idsOf_append]
    rcases hs with (rfl | ⟨e, he, rfl⟩) | hs
    · exact List.mem_append_left _ (List.mem_append_left _ (by rw [mem_idsOf]; simp))
    · refine List.mem_append_left _ (List.mem_append_right _ ?_)
      rw [mem_idsOf]
      exact List.mem_flatMap.mpr ⟨e, he, by simp [sideType]⟩
    · exact List.mem_append_right _ (twinsL_in_sidebar children s hs)
theorem twinsL_in_sidebar : ∀ l : List NsD, ∀ s ∈ topTargetsL l, s ++ sidebarSuffix ∈ idsOf (sidebarItemsL l)
  | [], s, hs => by simp [topTargetsL] at hs
  | n :: l, s, hs => by
    unfold sidebarItemsL
    unfold topTargetsL at hs
    rw [idsOf_append]
    rcases List.mem_append.mp hs with h | h
    · exact List.mem_append_left _ (twins_in_sidebar n s h)
    · exact List.mem_append_right _ (twinsL_in_sidebar l s h)
end

theorem upPrefix_not_frag (n : Str) : ∀ s, upPrefix n ≠ '#' :: s := by
  intro s h
  unfold upPrefix at h
  cases hk : countChar '.' n with
  | zero => rw [hk] at h; simp [repeatStr] at h
  | succ k =>
    rw [hk] at h
    have : repeatStr "../".toList (k + 1) = '.' :: ('.' :: '/' :: repeatStr "../".toList k) := by simp [repeatStr]
    rw [this] at h
    simp at h

theorem topTargets_head (n : NsD) : nsId n.name ∈ topTargets n := by
  cases n with
  | node name types children => simp [topTargets, NsD.name]

/-! ## The whole namespace page -/

def refsInB (ids : List Str) (items : List Item) : Bool :=
  items.all fun it => match it.sameRef with
    | some s => ids.contains s
    | none => true

theorem refsIn_of_refsInB {ids : List Str} {items : List Item} (h : refsInB ids items = true) : RefsIn ids items := by
  intro it hit s hs
  have := List.all_eq_true.mp h it hit
  simp only [hs] at this
  simpa using this

theorem idsOf_nsPageItems (tr : NsD) :
    idsOf (nsPageItems tr) = idsOf nsPageHead ++ idsOf (sidebarItems tr) ++ idsOf nsPageMid ++
      idsOf (nsInfoItems (upPrefix (joinWith '.' tr.name)) [] tr).1 := by
  unfold nsPageItems
  simp [idsOf_append, idsOf]

theorem nsInfo_ids_sub (tr : NsD) : ∀ s ∈ idsOf (nsInfoItems (upPrefix (joinWith '.' tr.name)) [] tr).1, s ∈ idsOf (nsPageItems tr) := by
  intro s h; rw [idsOf_nsPageItems]; exact List.mem_append_right _ h

theorem sidebar_ids_sub (tr : NsD) : ∀ s ∈ idsOf (sidebarItems tr), s ∈ idsOf (nsPageItems tr) := by
  intro s h; rw [idsOf_nsPageItems]
  exact List.mem_append_left _ (List.mem_append_left _ (List.mem_append_right _ h))

theorem head_ids_sub (tr : NsD) : ∀ s ∈ idsOf nsPageHead, s ∈ idsOf (nsPageItems tr) := by
  intro s h; rw [idsOf_nsPageItems]
  exact List.mem_append_left _ (List.mem_append_left _ (List.mem_append_left _ h))

theorem mid_ids_sub (tr : NsD) : ∀ s ∈ idsOf nsPageMid, s ∈ idsOf (nsPageItems tr) := by
  intro s h; rw [idsOf_nsPageItems]
  exact List.mem_append_left _ (List.mem_append_right _ h)

theorem topTargets_sub (tr : NsD) : ∀ s ∈ topTargets tr, s ∈ idsOf (nsPageItems tr) :=
  fun s h => nsInfo_ids_sub tr s (topTargets_in_nsInfo _ _ tr s h)

/-- Every same-page reference of a namespace page has its target on that page. -/
theorem nsPageItems_refsSelf (tr : NsD) : RefsSelf (nsPageItems tr) := by
  unfold RefsSelf
  have hhead : RefsIn (idsOf (nsPageItems tr)) nsPageHead :=
    RefsIn.mono (refsIn_of_refsInB (ids := idsOf nsPageHead) (by decide)) (head_ids_sub tr)
  have hside : RefsIn (idsOf (nsPageItems tr)) (sidebarItems tr) := by
    refine RefsIn.mono (sidebarItems_refs tr) ?_
    intro s hs
    rcases List.mem_append.mp hs with h | h
    · exact sidebar_ids_sub tr s h
    · exact topTargets_sub tr s h
  have hmid : RefsIn (idsOf (nsPageItems tr)) nsPageMid :=
    RefsIn.mono (refsIn_of_refsInB (ids := []) (by decide)) (fun s h => absurd h (by simp))
  have hinfo : RefsIn (idsOf (nsPageItems tr)) (nsInfoItems (upPrefix (joinWith '.' tr.name)) [] tr).1 :=
    RefsIn.mono (nsInfoItems_refsSelf _ (upPrefix_not_frag _) [] tr) (nsInfo_ids_sub tr)
  have hjs : RefsIn (idsOf (nsPageItems tr)) [Item.jsSel (nsId tr.name)] := by
    intro it hit s hs
    simp only [List.mem_cons, List.not_mem_nil, or_false] at hit
    subst hit
    simp [Item.sameRef] at hs
    exact hs ▸ topTargets_sub tr _ (topTargets_head tr)
  show RefsIn _ (nsPageHead ++ sidebarItems tr ++ nsPageMid ++ (nsInfoItems (upPrefix (joinWith '.' tr.name)) [] tr).1 ++
    [.jsSel (nsId tr.name)])
  exact (((hhead.append hside).append hmid).append hinfo).append hjs

/-! ### Local shape of the items: the `root` argument of `toggleCollapse`, the relative links -/

theorem relLink_href {x h : Str} (e : Item.relLink (.href x) = some h) : h = x := by
  simp only [Item.relLink] at e
  by_cases hc : (isExternal x || x.head? == some '#') = true
  · rw [if_pos hc] at e; cases e
  · rw [if_neg hc] at e; exact (Option.some.inj e).symm

theorem relLink_frag (s : Str) : Item.relLink (.href ('#' :: s)) = none := by
  simp [Item.relLink]

/-- what is demanded of an item of the `namespaceinfo` part: its `toggleCollapse` uses the default root, and a relative
link it carries is the link of one of the types in `L` -/
def InfoItem (L : List CType) (up : Str) (it : Item) : Prop :=
  (∀ r, it.rootRef = some r → r = "namespaceinfo".toList) ∧
  (∀ h, it.relLink = some h → ∃ ct ∈ L, h = up ++ urlFromType ct)

theorem InfoItem.mono {L L' : List CType} {up : Str} {it : Item} (h : InfoItem L up it) (hs : ∀ c ∈ L, c ∈ L') : InfoItem L' up it :=
  ⟨h.1, fun x hx => let ⟨ct, hct, e⟩ := h.2 x hx; ⟨ct, hs ct hct, e⟩⟩

theorem ctl_info (v : String) (hv : isExternal v.toList = true) (i : Str) (L : List CType) (up : Str) :
    ∀ it ∈ ctl v i, InfoItem L up it := by
  intro it hit
  simp only [ctl, List.mem_cons, List.not_mem_nil, or_false] at hit
  rcases hit with rfl | rfl | rfl | rfl
  · refine ⟨by simp [Item.rootRef], ?_⟩
    intro h e; simp [Item.relLink, hv] at e
  · exact ⟨by simp [Item.rootRef], by simp [Item.relLink]⟩
  · exact ⟨by simp [Item.rootRef], by simp [Item.relLink]⟩
  · exact ⟨by simp [Item.rootRef], by simp [Item.relLink]⟩

theorem id_info (s : Str) (L : List CType) (up : Str) : InfoItem L up (.id s) :=
  ⟨by simp [Item.rootRef], by simp [Item.relLink]⟩

mutual
theorem entItems_info (up : Str) (nested : Bool) (seen : List Str) :
    ∀ e : Ent, ∀ it ∈ (entItems up nested seen e).1, InfoItem (linkedOf nested e) up it
  | .comp ct sv attrs, it, hit => by
    unfold entItems at hit
    simp only [List.mem_append, List.mem_cons, List.not_mem_nil, or_false] at hit
    unfold linkedOf
    rcases hit with ((h | h) | rfl) | h
    · exact ctl_info _ (by decide) _ _ _ it h
    · unfold entLink at h
      split at h
      · rename_i hc
        simp only [List.mem_cons, List.not_mem_nil, or_false] at h
        subst h
        refine ⟨by simp [Item.rootRef], fun x hx => ⟨ct, ?_, relLink_href hx⟩⟩
        rw [if_pos hc]; simp
      · simp at h
    · exact id_info _ _ _
    · exact (entsItems_info up _ attrs it h).mono (fun c hc => List.mem_append_right _ hc)
  | .arr es el, it, hit => by
    unfold entItems at hit
    simp only [List.mem_append, List.mem_cons, List.not_mem_nil, or_false] at hit
    unfold linkedOf
    rcases hit with (h | rfl) | h
    · exact ctl_info _ (by decide) _ _ _ it h
    · exact id_info _ _ _
    · exact entsItems_info up _ el it h
theorem entsItems_info (up : Str) (seen : List Str) :
    ∀ es : List Ent, ∀ it ∈ (entsItems up seen es).1, InfoItem (linkedOfL es) up it
  | [], it, hit => by simp [entsItems] at hit
  | e :: es, it, hit => by
    unfold entsItems at hit
    unfold linkedOfL
    rcases List.mem_append.mp hit with h | h
    · exact (entItems_info up true seen e it h).mono (fun c hc => List.mem_append_left _ hc)
    · exact (entsItems_info up _ es it h).mono (fun c hc => List.mem_append_right _ hc)
end

theorem topItems_info (up : Str) : ∀ (seen : List Str) (es : List Ent), ∀ it ∈ (topItems up seen es).1, InfoItem (linkedTop es) up it
  | _, [], it, hit => by simp [topItems] at hit
  | seen, e :: es, it, hit => by
    unfold topItems at hit
    unfold linkedTop
    by_cases hx : e.listed = true
    · simp only [hx, if_true] at hit ⊢
      rcases List.mem_append.mp hit with h | h
      · exact (entItems_info up false seen e it h).mono (fun c hc => List.mem_append_left _ hc)
      · exact (topItems_info up _ es it h).mono (fun c hc => List.mem_append_right _ hc)
    · simp only [hx] at hit ⊢
      exact (topItems_info up seen es it hit).mono (fun c hc => by simpa using hc)

mutual
theorem nsInfoItems_info (up : Str) (seen : List Str) : ∀ n : NsD, ∀ it ∈ (nsInfoItems up seen n).1, InfoItem (linkedNs n) up it
  | .node name types children, it, hit => by
    unfold nsInfoItems at hit
    simp only [List.mem_append, List.mem_cons, List.not_mem_nil, or_false] at hit
    unfold linkedNs
    rcases hit with ((h | rfl) | h) | h
    · exact ctl_info _ (by decide) _ _ _ it h
    · exact id_info _ _ _
    · exact (topItems_info up seen types it h).mono (fun c hc => List.mem_append_left _ hc)
    · exact (nsInfoItemsL_info up _ children it h).mono (fun c hc => List.mem_append_right _ hc)
theorem nsInfoItemsL_info (up : Str) (seen : List Str) : ∀ l : List NsD, ∀ it ∈ (nsInfoItemsL up seen l).1, InfoItem (linkedNsL l) up it
  | [], it, hit => by simp [nsInfoItemsL] at hit
  | n :: l, it, hit => by
    unfold nsInfoItemsL at hit
    unfold linkedNsL
    rcases List.mem_append.mp hit with h | h
    · exact (nsInfoItems_info up seen n it h).mono (fun c hc => List.mem_append_left _ hc)
    · exact (nsInfoItemsL_info up _ l it h).mono (fun c hc => List.mem_append_right _ hc)
end

/-- what is demanded of an item of the sidebar: `toggleCollapse` is called with the root `sidebar`; no relative link -/
def SideItem (it : Item) : Prop := (∀ r, it.rootRef = some r → r = "sidebar".toList) ∧ it.relLink = none

mutual
theorem sidebarItems_side : ∀ n : NsD, ∀ it ∈ sidebarItems n, SideItem it
  | .node name types children, it, hit => by
    unfold sidebarItems at hit
    simp only [List.mem_append, List.mem_cons, List.not_mem_nil, or_false, List.mem_flatMap] at hit
    rcases hit with ((rfl | rfl | rfl | rfl | rfl) | ⟨e, _, he⟩) | h
    · exact ⟨by simp [Item.rootRef], by simp [Item.relLink]⟩
    · exact ⟨by simp [Item.rootRef], by simp [Item.relLink]⟩
    · exact ⟨by simp [Item.rootRef], by simp [Item.relLink]⟩
    · exact ⟨by simp [Item.rootRef], relLink_frag _⟩
    · exact ⟨by simp [Item.rootRef], by simp [Item.relLink]⟩
    · simp only [sideType, List.mem_cons, List.not_mem_nil, or_false] at he
      rcases he with rfl | rfl
      · exact ⟨by simp [Item.rootRef], by simp [Item.relLink]⟩
      · exact ⟨by simp [Item.rootRef], relLink_frag _⟩
    · exact sidebarItemsL_side children it h
theorem sidebarItemsL_side : ∀ l : List NsD, ∀ it ∈ sidebarItemsL l, SideItem it
  | [], it, hit => by simp [sidebarItemsL] at hit
  | n :: l, it, hit => by
    unfold sidebarItemsL at hit
    rcases List.mem_append.mp hit with h | h
    · exact sidebarItems_side n it h
    · exact sidebarItemsL_side l it h
end

def noRelLinkB (items : List Item) : Bool := items.all fun it => it.relLink.isNone && it.rootRef.isNone

/-- The relative links of a namespace page are exactly links of the types `linkedNs` lists, built with the page's own
depth prefix; the root element every `toggleCollapse` call names is `sidebar` or `namespaceinfo`. -/
theorem nsPageItems_shape (tr : NsD) : ∀ it ∈ nsPageItems tr,
    (∀ r, it.rootRef = some r → r = "sidebar".toList ∨ r = "namespaceinfo".toList) ∧
    (∀ h, it.relLink = some h → ∃ ct ∈ linkedNs tr, h = typeHref tr.name ct) := by
  intro it hit
  unfold nsPageItems at hit
  simp only [List.mem_append, List.mem_cons, List.not_mem_nil, or_false] at hit
  have hconst : ∀ l : List Item, noRelLinkB l = true → it ∈ l → _ := fun l hl hm => by
    have := List.all_eq_true.mp hl it hm
    simp only [Bool.and_eq_true, Option.isNone_iff_eq_none] at this
    exact (⟨by simp [this.2], by simp [this.1]⟩ :
      (∀ r, it.rootRef = some r → r = "sidebar".toList ∨ r = "namespaceinfo".toList) ∧
      (∀ h, it.relLink = some h → ∃ ct ∈ linkedNs tr, h = typeHref tr.name ct))
  rcases hit with (((h | h) | h) | h) | rfl
  · exact hconst nsPageHead (by decide) h
  · have := sidebarItems_side tr it h
    exact ⟨fun r hr => .inl (this.1 r hr), by simp [this.2]⟩
  · exact hconst nsPageMid (by decide) h
  · have := nsInfoItems_info _ _ tr it h
    exact ⟨fun r hr => .inr (this.1 r hr), fun x hx => let ⟨ct, hct, e⟩ := this.2 x hx; ⟨ct, hct, by simpa [typeHref] using e⟩⟩
  · exact ⟨by simp [Item.rootRef], by simp [Item.relLink]⟩

/-! ## The files of a run; every relative link has its target -/

theorem typeHref_resolves (ns : List Str) (t : CType) (hns : ns ≠ []) (hv : ∀ c ∈ ns, ValidComp c)
    (hr : ValidComp t.rootNamespace) :
    resolve (nsPagePath ns) (typeHref ns t) = some (nsPagePath [t.rootNamespace], tagId t.entry) := by
  have hfrag : (replaceChar '.' ['_'] (if t.hasParentService then t.fullNamespace else t.fullName) ++
      versionSuffix t.major t.minor) = tagId t.entry := by
    cases hps : t.hasParentService <;> simp [tagId, CType.entry, CType.fullName, CType.fullNamespace, hps]
  unfold typeHref upPrefix urlFromType nsPagePath
  rw [countDots_join hv hns, hfrag]
  exact resolve_up_root hr hns

theorem backHref_resolves (t : CType) :
    resolve (typePagePath t) (backHref t) = some (nsPagePath t.comps.dropLast, nsId t.comps.dropLast) := by
  have e : backHref t = indexPage ++ '#' :: nsId t.comps.dropLast := rfl
  unfold resolve
  rw [e, splitFragment_append (by decide)]
  have h1 : indexPage ≠ [] := by decide
  have h2 : splitOn '/' indexPage = [indexPage] := by decide
  have h4 : indexPage ≠ ['.', '.'] := by decide
  simp [h1, h2, h4, resolveSegs, typePagePath, nsPagePath]

theorem subtrees_self (n : NsD) : n ∈ subtrees n := by
  cases n with
  | node name types children => simp [subtrees]

mutual
theorem pages_of_subtree : ∀ n : NsD, ∀ m ∈ subtrees n, (nsPagePath m.name, nsPageItems m) ∈ pages n
  | .node name types children, m, hm => by
    unfold subtrees at hm
    unfold pages
    rcases List.mem_cons.mp hm with rfl | h
    · simp [NsD.name]
    · exact List.mem_cons_of_mem _ (List.mem_append_right _ (pagesL_of_subtree children m h))
theorem pagesL_of_subtree : ∀ l : List NsD, ∀ m ∈ subtreesL l, (nsPagePath m.name, nsPageItems m) ∈ pagesL l
  | [], m, hm => by simp [subtreesL] at hm
  | n :: l, m, hm => by
    unfold subtreesL at hm
    unfold pagesL
    rcases List.mem_append.mp hm with h | h
    · exact List.mem_append_left _ (pages_of_subtree n m h)
    · exact List.mem_append_right _ (pagesL_of_subtree l m h)
end

mutual
theorem pages_cases : ∀ n : NsD, ∀ f ∈ pages n,
    (∃ m ∈ subtrees n, f = (nsPagePath m.name, nsPageItems m)) ∨ (∃ m ∈ subtrees n, f ∈ typePagesOf m.types)
  | .node name types children, f, hf => by
    unfold pages at hf
    simp only [List.mem_cons, List.mem_append] at hf
    rcases hf with (rfl | h) | h
    · exact .inl ⟨_, subtrees_self _, rfl⟩
    · exact .inr ⟨_, subtrees_self _, h⟩
    · rcases pagesL_cases children f h with ⟨m, hm, e⟩ | ⟨m, hm, e⟩
      · exact .inl ⟨m, by unfold subtrees; exact List.mem_cons_of_mem _ hm, e⟩
      · exact .inr ⟨m, by unfold subtrees; exact List.mem_cons_of_mem _ hm, e⟩
theorem pagesL_cases : ∀ l : List NsD, ∀ f ∈ pagesL l,
    (∃ m ∈ subtreesL l, f = (nsPagePath m.name, nsPageItems m)) ∨ (∃ m ∈ subtreesL l, f ∈ typePagesOf m.types)
  | [], f, hf => by simp [pagesL] at hf
  | n :: l, f, hf => by
    unfold pagesL at hf
    unfold subtreesL
    rcases List.mem_append.mp hf with h | h
    · rcases pages_cases n f h with ⟨m, hm, e⟩ | ⟨m, hm, e⟩
      · exact .inl ⟨m, List.mem_append_left _ hm, e⟩
      · exact .inr ⟨m, List.mem_append_left _ hm, e⟩
    · rcases pagesL_cases l f h with ⟨m, hm, e⟩ | ⟨m, hm, e⟩
      · exact .inl ⟨m, List.mem_append_right _ hm, e⟩
      · exact .inr ⟨m, List.mem_append_right _ hm, e⟩
end

mutual
theorem linkedNs_of_subtree : ∀ n : NsD, ∀ m ∈ subtrees n, ∀ ct ∈ linkedNs m, ct ∈ linkedNs n
  | .node name types children, m, hm, ct, hct => by
    unfold subtrees at hm
    rcases List.mem_cons.mp hm with rfl | h
    · exact hct
    · unfold linkedNs
      exact List.mem_append_right _ (linkedNsL_of_subtree children m h ct hct)
theorem linkedNsL_of_subtree : ∀ l : List NsD, ∀ m ∈ subtreesL l, ∀ ct ∈ linkedNs m, ct ∈ linkedNsL l
  | [], m, hm, _, _ => by simp [subtreesL] at hm
  | n :: l, m, hm, ct, hct => by
    unfold subtreesL at hm
    unfold linkedNsL
    rcases List.mem_append.mp hm with h | h
    · exact List.mem_append_left _ (linkedNs_of_subtree n m h ct hct)
    · exact List.mem_append_right _ (linkedNsL_of_subtree l m h ct hct)
end

mutual
theorem wf_of_subtree : ∀ n : NsD, n.wf = true → ∀ m ∈ subtrees n, m.wf = true
  | .node name types children, hwf, m, hm => by
    unfold subtrees at hm
    rcases List.mem_cons.mp hm with rfl | h
    · exact hwf
    · unfold NsD.wf at hwf
      simp only [Bool.and_eq_true] at hwf
      exact wfL_of_subtree name children hwf.2 m h
theorem wfL_of_subtree (parent : List Str) : ∀ l : List NsD, wfL parent l = true → ∀ m ∈ subtreesL l, m.wf = true
  | [], _, m, hm => by simp [subtreesL] at hm
  | n :: l, hwf, m, hm => by
    unfold wfL at hwf
    simp only [Bool.and_eq_true] at hwf
    unfold subtreesL at hm
    rcases List.mem_append.mp hm with h | h
    · exact wf_of_subtree n hwf.1.2 m h
    · exact wfL_of_subtree parent l hwf.2 m h
end

theorem wf_type_namespace {m : NsD} (hwf : m.wf = true) {ct : CType} {sv : Bool} {attrs : List Ent}
    (he : Ent.comp ct sv attrs ∈ m.types) : ct.comps.dropLast = m.name := by
  cases m with
  | node name types children =>
    unfold NsD.wf at hwf
    simp only [Bool.and_eq_true, List.all_eq_true] at hwf
    have := hwf.1 _ he
    simp only [Bool.and_eq_true, beq_iff_eq] at this
    exact this.1

theorem mem_typePagesOf {f : List Str × List Item} : ∀ {l : List Ent}, f ∈ typePagesOf l →
    ∃ ct sv attrs, Ent.comp ct sv attrs ∈ l ∧ f = (typePagePath ct, if sv then [] else typePageItems ct)
  | [], h => by simp [typePagesOf] at h
  | .comp ct sv attrs :: l, h => by
    unfold typePagesOf at h
    rcases List.mem_cons.mp h with rfl | h
    · exact ⟨ct, sv, attrs, by simp, rfl⟩
    · obtain ⟨ct', sv', attrs', hm, e⟩ := mem_typePagesOf h
      exact ⟨ct', sv', attrs', List.mem_cons_of_mem _ hm, e⟩
  | .arr es el :: l, h => by
    unfold typePagesOf at h
    obtain ⟨ct', sv', attrs', hm, e⟩ := mem_typePagesOf h
    exact ⟨ct', sv', attrs', List.mem_cons_of_mem _ hm, e⟩

mutual
theorem listedTypes_targets : ∀ n : NsD, ∀ t ∈ listedTypes n, tagId t ∈ topTargets n
  | .node name types children, t, ht => by
    unfold listedTypes at ht
    unfold topTargets
    rcases List.mem_append.mp ht with h | h
    · obtain ⟨e, he, hc⟩ := List.mem_filterMap.mp h
      refine List.mem_append_left _ (List.mem_cons_of_mem _ (List.mem_map.mpr ⟨e, he, ?_⟩))
      cases e with
      | comp ct sv attrs => simp [Ent.ctype?] at hc; simp [Ent.tag, hc]
      | arr es el => simp [Ent.ctype?] at hc
    · exact List.mem_append_right _ (listedTypesL_targets children t h)
theorem listedTypesL_targets : ∀ l : List NsD, ∀ t ∈ listedTypesL l, tagId t ∈ topTargetsL l
  | [], t, ht => by simp [listedTypesL] at ht
  | n :: l, t, ht => by
    unfold listedTypesL at ht
    unfold topTargetsL
    rcases List.mem_append.mp ht with h | h
    · exact List.mem_append_left _ (listedTypes_targets n t h)
    · exact List.mem_append_right _ (listedTypesL_targets l t h)
end

/-- What the front end guarantees of one run: the tree is laid out by names, the root has a one-component name, every
namespace name consists of valid components. -/
structure RunOk (run : NsD) : Prop where
  wf : run.wf = true
  names : ∀ m ∈ subtrees run, m.name ≠ [] ∧ ∀ c ∈ m.name, ValidComp c

/-- The runs that write into one output directory are closed under reference: the entry that documents a linked type
(the type itself, or its service for a request / response type) is a listed type of the run of the type's root namespace. -/
def Closed (runs : List NsD) : Prop :=
  ∀ run ∈ runs, ∀ ct ∈ linkedNs run, ValidComp ct.rootNamespace ∧
    ∃ tgt ∈ runs, tgt.name = [ct.rootNamespace] ∧ ct.entry ∈ listedTypes tgt

theorem site_links_resolve (runs : List NsD) (hok : ∀ run ∈ runs, RunOk run) (hcl : Closed runs) :
    ∀ f ∈ site runs, ∀ it ∈ f.2, ∀ h, it.relLink = some h → Resolves (site runs) f.1 h := by
  intro f hf it hit h hrel
  obtain ⟨run, hrun, hfp⟩ := List.mem_flatMap.mp hf
  have hsite : ∀ r ∈ runs, ∀ g ∈ pages r, g ∈ site runs := fun r hr g hg => List.mem_flatMap.mpr ⟨r, hr, hg⟩
  rcases pages_cases run f hfp with ⟨m, hm, rfl⟩ | ⟨m, hm, hty⟩
  · -- a namespace page: the link of a nested entry
    obtain ⟨ct, hct, rfl⟩ := (nsPageItems_shape m it hit).2 h hrel
    obtain ⟨hroot, tgt, htgt, hname, hentry⟩ := hcl run hrun ct (linkedNs_of_subtree run m hm ct hct)
    obtain ⟨hne, hvalid⟩ := (hok run hrun).names m hm
    refine ⟨_, _, typeHref_resolves m.name ct hne hvalid hroot, nsPageItems tgt, ?_, .inr ?_⟩
    · have := pages_of_subtree tgt tgt (subtrees_self tgt)
      rw [hname] at this
      exact hsite tgt htgt _ this
    · exact topTargets_sub tgt _ (listedTypes_targets tgt _ hentry)
  · -- a type page: the back link
    obtain ⟨ct, sv, attrs, hmem, rfl⟩ := mem_typePagesOf hty
    cases sv with
    | true => simp at hit
    | false =>
      simp only [Bool.false_eq_true, if_false, typePageItems, List.mem_cons, List.not_mem_nil, or_false] at hit
      subst hit
      have := relLink_href hrel
      subst this
      have hns := wf_type_namespace (wf_of_subtree run (hok run hrun).wf m hm) hmem
      refine ⟨_, _, backHref_resolves ct, nsPageItems m, ?_, .inr ?_⟩
      · rw [hns]; exact hsite run hrun _ (pages_of_subtree run m hm)
      · rw [hns]; exact topTargets_sub m _ (topTargets_head m)

/-! ## Ids as CSS identifiers -/

/-- starts with a letter or an underscore, continues with name characters -/
def IdentLike (s : Str) : Prop := ∃ c r, s = c :: r ∧ (c.isAlpha = true ∨ c = '_') ∧ ∀ d ∈ r, isNameChar d = true

theorem isCssIdent_of_identLike {s : Str} (h : IdentLike s) : isCssIdent s = true := by
  obtain ⟨c, r, rfl, hc, hr⟩ := h
  have h2 : (r.all fun d => d.isAlphanum || decide (d = '_') || decide (d = '-')) = true := by
    rw [List.all_eq_true]
    intro d hd
    have := hr d hd
    simp only [isNameChar, Bool.or_eq_true, decide_eq_true_eq] at this
    rcases this with h | h <;> simp [h]
  simp only [isCssIdent, Bool.and_eq_true]
  refine ⟨?_, h2⟩
  rcases hc with hc | hc <;> simp [hc]

theorem IdentLike.append {s t : Str} (h : IdentLike s) (ht : ∀ d ∈ t, isNameChar d = true) : IdentLike (s ++ t) := by
  obtain ⟨c, r, rfl, hc, hr⟩ := h
  refine ⟨c, r ++ t, rfl, hc, ?_⟩
  intro d hd
  rcases List.mem_append.mp hd with h | h
  · exact hr d h
  · exact ht d h

theorem head_not_dot {c : Char} (h : c.isAlpha = true ∨ c = '_') : c ≠ '.' := by
  intro e; subst e; rcases h with h | h
  · revert h; decide
  · revert h; decide

/-- flattening a dotted name that starts with a letter or underscore -/
theorem identLike_flat {s : Str} (hs : ∀ ch ∈ s, isNameOrDot ch = true)
    (hfirst : ∃ c t, s = c :: t ∧ (c.isAlpha = true ∨ c = '_')) : IdentLike (replaceChar '.' ['_'] s) := by
  obtain ⟨c, t, rfl, hc⟩ := hfirst
  have hall := replaceDots_nameChars hs
  have e : replaceChar '.' ['_'] (c :: t) = c :: replaceChar '.' ['_'] t := by simp [replaceChar, head_not_dot hc]
  rw [e] at hall ⊢
  exact ⟨c, _, rfl, hc, fun d hd => hall d (by simp [hd])⟩

/-- the root component starts with a letter or an underscore (the front end rejects a leading digit) -/
def FirstOk (comps : List Str) : Prop := ∃ c r rest, comps = (c :: r) :: rest ∧ (c.isAlpha = true ∨ c = '_')

theorem join_first {comps : List Str} (h : FirstOk comps) : ∃ c t, joinWith '.' comps = c :: t ∧ (c.isAlpha = true ∨ c = '_') := by
  obtain ⟨c, r, rest, rfl, hc⟩ := h
  cases rest with
  | nil => exact ⟨c, r, rfl, hc⟩
  | cons b l => exact ⟨c, r ++ '.' :: joinWith '.' (b :: l), rfl, hc⟩

theorem nsId_identLike {name : List Str} (hv : ∀ c ∈ name, ValidComp c) (hf : FirstOk name) : IdentLike (nsId name) :=
  identLike_flat (join_nameOrDot hv) (join_first hf)

theorem versionSuffix_nameChars (M m : Nat) : ∀ d ∈ versionSuffix M m, isNameChar d = true := by
  intro d hd
  simp only [versionSuffix, List.mem_append, List.mem_cons] at hd
  rcases hd with (rfl | hd) | (rfl | hd)
  · decide
  · exact dec_nameChars _ d hd
  · decide
  · exact dec_nameChars _ d hd

theorem tagId_identLike {t : CType} (hv : ∀ c ∈ t.comps, ValidComp c) (hf : FirstOk t.comps) : IdentLike (tagId t) :=
  (nsId_identLike hv hf).append (versionSuffix_nameChars _ _)

theorem sidebarSuffix_nameChars : ∀ d ∈ sidebarSuffix, isNameChar d = true := by decide

theorem toLower_alpha (c : Char) (h : c.isAlpha = true) : c.toLower.isAlpha = true := by
  unfold Char.toLower
  split
  · rename_i hu
    simp only [Char.isAlpha, Char.isUpper, Char.isLower, Bool.or_eq_true, Bool.and_eq_true, decide_eq_true_eq, ge_iff_le]
    right
    obtain ⟨h1, h2⟩ := hu
    simp only [UInt32.le_iff_toNat_le, ge_iff_le] at h1 h2 ⊢
    have e : (c.val + ('a'.val - 'A'.val)).toNat = c.val.toNat + 32 := by
      rw [UInt32.toNat_add]
      have : ('a'.val - 'A'.val).toNat = 32 := by decide
      rw [this]
      have h65 : 'Z'.val.toNat = 90 := by decide
      omega
    have ha : 'a'.val.toNat = 97 := by decide
    have hz : 'z'.val.toNat = 122 := by decide
    have hA : 'A'.val.toNat = 65 := by decide
    have hZ : 'Z'.val.toNat = 90 := by decide
    show 'a'.val.toNat ≤ (c.val + ('a'.val - 'A'.val)).toNat ∧ (c.val + ('a'.val - 'A'.val)).toNat ≤ 'z'.val.toNat
    omega
  · exact h

theorem escCharStd_of_nameChar {c : Char} (h : isNameChar c = true) : escCharStd c = [c] := by
  obtain ⟨h1, h2, h3, h4, h5, _⟩ := nameOrDot_not_special (nameChar_nameOrDot h)
  simp [escCharStd, h1, h2, h3, h4, h5]

theorem escapeStd_of_nameChars {s : Str} (h : ∀ c ∈ s, isNameChar c = true) : escapeStd s = s := by
  induction s with
  | nil => simp [escapeStd, replaceChar]
  | cons c s ih =>
    rw [escapeStd_cons, escCharStd_of_nameChar (h c (by simp)), ih (fun d hd => h d (by simp [hd]))]
    rfl

theorem alpha_nameChar {c : Char} (h : c.isAlpha = true ∨ c = '_') : isNameChar c = true := by
  rcases h with h | h <;> simp [isNameChar, Char.isAlphanum, h]

/-- the result of `make_unique` for an identifier-like token: first letter lower-cased, a decimal counter appended -/
theorem makeUnique_identLike {base : Str} (h : IdentLike base) (seen : List Str) : IdentLike (makeUnique seen base).1 := by
  obtain ⟨c, r, rfl, hc, hr⟩ := h
  have hc' : c.toLower.isAlpha = true ∨ c.toLower = '_' := by
    rcases hc with hc | hc
    · exact .inl (toLower_alpha c hc)
    · subst hc; exact .inr (by decide)
  have hall : ∀ d ∈ c.toLower :: r, isNameChar d = true := by
    intro d hd
    rcases List.mem_cons.mp hd with rfl | hd
    · exact alpha_nameChar hc'
    · exact hr d hd
  simp only [makeUnique, lowerFirst]
  rw [escapeStd_of_nameChars hall]
  exact IdentLike.append ⟨_, _, rfl, hc', hr⟩ (dec_nameChars _)

/-- `filter_tag_id` of an array: `str(element_type)` is a dotted name with version (`ns.T.1.0`) or a cast mode, a blank and
a primitive name (`saturated uint8`) -/
theorem tagIdArray_identLike {es : Str} (hs : ∀ ch ∈ es, isNameOrDot ch = true ∨ ch = ' ')
    (hfirst : ∃ c t, es = c :: t ∧ (c.isAlpha = true ∨ c = '_')) : IdentLike (tagIdArray es) := by
  obtain ⟨c, t, rfl, hc⟩ := hfirst
  unfold tagIdArray
  have hblank : c ≠ ' ' := by
    intro e; subst e; rcases hc with h | h
    · revert h; decide
    · revert h; decide
  have e1 : replaceChar '.' ['_'] (c :: t) = c :: replaceChar '.' ['_'] t := by simp [replaceChar, head_not_dot hc]
  have e2 : replaceChar ' ' ['_'] (c :: replaceChar '.' ['_'] t) = c :: replaceChar ' ' ['_'] (replaceChar '.' ['_'] t) := by
    simp [replaceChar, hblank]
  rw [e1, e2]
  have hrest : ∀ (u : Str), (∀ ch ∈ u, isNameOrDot ch = true ∨ ch = ' ') →
      ∀ d ∈ replaceChar ' ' ['_'] (replaceChar '.' ['_'] u), isNameChar d = true := by
    intro u
    induction u with
    | nil => intro _ d hd; simp [replaceChar] at hd
    | cons x u ih =>
      intro hu d hd
      have hu' : ∀ ch ∈ u, isNameOrDot ch = true ∨ ch = ' ' := fun ch h => hu ch (by simp [h])
      by_cases hx : x = '.'
      · subst hx
        simp [replaceChar] at hd
        rcases hd with rfl | hd
        · decide
        · exact ih hu' d (by simpa [replaceChar] using hd)
      · by_cases hb : x = ' '
        · subst hb
          simp [replaceChar] at hd
          rcases hd with rfl | hd
          · decide
          · exact ih hu' d hd
        · simp [replaceChar, hx, hb] at hd
          rcases hd with rfl | hd
          · rcases hu d (by simp) with h | h
            · simpa [isNameOrDot, hx] using h
            · exact absurd h hb
          · exact ih hu' d hd
  refine IdentLike.append ⟨c, _, rfl, hc, hrest t (fun ch h => hs ch (by simp [h]))⟩ ?_
  decide

/-! ## Links as URLs -/

/-- the alphabet of the generated links -/
def linkChar (c : Char) : Bool := isNameOrDot c || c = '/' || c = '#'

theorem linkChar_props {c : Char} (h : linkChar c = true) : urlSafeChar c = true ∧ escChar c = [c] ∧ c ≠ ':' ∧ c ≠ '%' ∧ c ≠ '?' := by
  simp only [linkChar, Bool.or_eq_true, decide_eq_true_eq] at h
  rcases h with (h | rfl) | rfl
  · refine ⟨?_, escChar_of_nameOrDot h, ?_, ?_, ?_⟩
    · simp only [isNameOrDot, isNameChar, Bool.or_eq_true, decide_eq_true_eq] at h
      rcases h with (h | h) | h <;> simp [urlSafeChar, h]
    · intro e; subst e; revert h; decide
    · intro e; subst e; revert h; decide
    · intro e; subst e; revert h; decide
  · decide
  · decide

theorem nameOrDot_linkChar {c : Char} (h : isNameOrDot c = true) : linkChar c = true := by simp [linkChar, h]

theorem upPrefix_linkChars (n : Str) : ∀ c ∈ upPrefix n, linkChar c = true := by
  intro c hc
  exact (by decide : ∀ c ∈ "../".toList, linkChar c = true) c (mem_repeatStr hc)

theorem flat_linkChars {l : List Str} (h : ∀ c ∈ l, ValidComp c) : ∀ c ∈ nsId l, linkChar c = true :=
  fun c hc => nameOrDot_linkChar (nameChar_nameOrDot (replaceDots_nameChars (join_nameOrDot h) c hc))

theorem urlFromType_linkChars {t : CType} (hv : ∀ c ∈ t.comps, ValidComp c) : ∀ c ∈ urlFromType t, linkChar c = true := by
  intro c hc
  have hdl : ∀ c ∈ t.comps.dropLast, ValidComp c := fun c h => hv c (List.dropLast_subset _ h)
  simp only [urlFromType, List.mem_append] at hc
  rcases hc with ((hc | hc) | hc) | hc | hc
  · revert hc c; decide
  · cases hcs : t.comps with
    | nil => simp [CType.rootNamespace, hcs] at hc
    | cons a l =>
      simp only [CType.rootNamespace, hcs, List.headD_cons] at hc
      exact nameOrDot_linkChar (nameChar_nameOrDot ((hv a (by simp [hcs])).2 c hc))
  · revert hc c; decide
  · by_cases hps : t.hasParentService = true
    · simp only [hps, if_true, CType.fullNamespace] at hc
      exact flat_linkChars hdl c hc
    · simp only [hps, CType.fullName] at hc
      exact flat_linkChars hv c hc
  · exact nameOrDot_linkChar (nameChar_nameOrDot (versionSuffix_nameChars _ _ c hc))

theorem allLinkChars_props {s : Str} (h : ∀ c ∈ s, linkChar c = true) :
    urlSafe s = true ∧ escape s = s ∧ ':' ∉ s ∧ '%' ∉ s ∧ '?' ∉ s := by
  refine ⟨?_, ?_, ?_, ?_, ?_⟩
  · unfold urlSafe; rw [List.all_eq_true]; exact fun c hc => (linkChar_props (h c hc)).1
  · induction s with
    | nil => exact escape_nil
    | cons c s ih =>
      rw [escape_cons, (linkChar_props (h c (by simp))).2.1, ih (fun d hd => h d (by simp [hd]))]; rfl
  · exact fun hm => (linkChar_props (h _ hm)).2.2.1 rfl
  · exact fun hm => (linkChar_props (h _ hm)).2.2.2.1 rfl
  · exact fun hm => (linkChar_props (h _ hm)).2.2.2.2 rfl

theorem backHref_linkChars {t : CType} (hv : ∀ c ∈ t.comps, ValidComp c) : ∀ c ∈ backHref t, linkChar c = true := by
  intro c hc
  simp only [backHref, List.mem_append, List.mem_cons] at hc
  rcases hc with hc | rfl | hc
  · revert hc c; decide
  · decide
  · exact flat_linkChars (fun c h => hv c (List.dropLast_subset _ h)) c hc

end NunavutVerif.Html
