import NunavutVerif.Lemmas.CLiteralLex
import NunavutVerif.Lemmas.CLiteralRound
/-!
Evaluation lemmas: how `evalStr` composes, and what the rendered integer literals lex / parse / evaluate to.
-/
namespace NunavutVerif.CLiteral

theorem evalStr_of {d : Dialect} {s : Str} {ts : List Tok} {e : CExpr}
    (hl : lexStr s = some ts) (hs : (d = .c11 && usesStaticCast ts) = false) (hp : parseToks ts = some e) :
    evalStr d s = eval d e := by
  unfold evalStr
  rw [hl]
  simp only [hs, Bool.false_eq_true, if_false, hp]

/-- number of `L`s the filter appends -/
def lOf (w : Nat) : Nat := (if 16 < w then 1 else 0) + (if 32 < w then 1 else 0)

theorem lOf_le (w : Nat) : lOf w ≤ 2 := by unfold lOf; split <;> split <;> omega

theorem suffix_eq (unsigned : Bool) (w : Nat) :
    (if unsigned then ['U'] else []) ++ suffixL w = sfxStr unsigned (lOf w) := by
  unfold suffixL sfxStr lOf
  by_cases h1 : 16 < w <;> by_cases h2 : 32 < w <;> simp [h1, h2, List.replicate]

theorem integerLiteralRaw_eq (unsigned : Bool) (w : Nat) (v : Int) :
    integerLiteralRaw unsigned w (.frac ⟨v, 1⟩) = intStr v ++ sfxStr unsigned (lOf w) := by
  unfold integerLiteralRaw
  rw [List.append_assoc, suffix_eq]
  simp [pyStr]

theorem int64MinLiteral_eq : int64MinLiteral = '-' :: (natStr (2 ^ 63) ++ sfxStr false 2) := by decide

theorem sfxStr_noDigit (u : Bool) (l : Nat) : NoDigitHead (sfxStr u l) := by
  cases u <;> cases l <;> simp [sfxStr, NoDigitHead, List.replicate]

/-- the digit string and the suffix can be read back from the literal -/
theorem natStr_sfx_inj {n m : Nat} {u u' : Bool} {l l' : Nat}
    (h : natStr n ++ sfxStr u l = natStr m ++ sfxStr u' l') : n = m ∧ sfxStr u l = sfxStr u' l' := by
  have a := spanDigits_append (natStr_allDigits n) (sfxStr_noDigit u l)
  have b := spanDigits_append (natStr_allDigits m) (sfxStr_noDigit u' l')
  rw [h, b] at a
  injection a with a1 a2
  exact ⟨(natStr_inj a1).symm, a2.symm⟩

theorem sfxStr_false_inj {l l' : Nat} (h : sfxStr false l = sfxStr false l') : l = l' := by
  have := congrArg List.length h
  simpa [sfxStr] using this

/-- a non-negative literal is never the special string -/
theorem nonneg_ne_min (n : Nat) (u : Bool) (l : Nat) : natStr n ++ sfxStr u l ≠ int64MinLiteral := by
  rw [int64MinLiteral_eq]
  obtain ⟨c, cs, e, hc⟩ := natStr_cons n
  rw [e]
  intro h
  injection h with h1 _
  subst h1
  revert hc; decide

theorem mostNegative_nonneg (n : Nat) (u : Bool) (l : Nat) :
    mostNegativeIntegerLiteral (natStr n ++ sfxStr u l) = natStr n ++ sfxStr u l := by
  unfold mostNegativeIntegerLiteral
  rw [if_neg (nonneg_ne_min n u l)]

theorem mostNegative_neg (n : Nat) (u : Bool) (l : Nat) (h : ¬ (n = 2 ^ 63 ∧ u = false ∧ l = 2)) :
    mostNegativeIntegerLiteral ('-' :: (natStr n ++ sfxStr u l)) = '-' :: (natStr n ++ sfxStr u l) := by
  unfold mostNegativeIntegerLiteral
  rw [if_neg]
  rw [int64MinLiteral_eq]
  intro e
  injection e with _ e
  obtain ⟨h1, h2⟩ := natStr_sfx_inj e
  apply h
  refine ⟨h1, ?_, ?_⟩
  · cases u
    · rfl
    · exfalso
      have := congrArg List.head? h2
      simp [sfxStr, List.replicate] at this
  · cases u
    · exact sfxStr_false_inj h2
    · exfalso
      have := congrArg List.head? h2
      simp [sfxStr, List.replicate] at this

/-! ### lexing the integer shapes -/

theorem lex_int_tok (g n : Nat) (u : Bool) (l : Nat) (hl : l ≤ 2) (rest : Str) (hr : safeEnd rest = true) :
    lex (g + 1) (natStr n ++ (sfxStr u l ++ rest)) = (lex g rest).map (Tok.int n (decide (n ≠ 0)) u l :: ·) :=
  lex_natStr n _ (lexNum_int n u l hl rest hr)

theorem lexStr_nonneg (n : Nat) (u : Bool) (l : Nat) (hl : l ≤ 2) :
    lexStr (natStr n ++ sfxStr u l) = some [Tok.int n (decide (n ≠ 0)) u l] := by
  unfold lexStr
  have := lex_int_tok ((natStr n ++ sfxStr u l).length + 30 + 1) n u l hl [] rfl
  rw [List.append_nil] at this
  rw [show (natStr n ++ sfxStr u l).length + 32 = (natStr n ++ sfxStr u l).length + 30 + 1 + 1 by omega, this]
  rfl

theorem lexStr_nonneg_macro (n : Nat) (u : Bool) (l : Nat) (hl : l ≤ 2) :
    lexStr (cMacroBody (natStr n ++ sfxStr u l)) = some [.lp, Tok.int n (decide (n ≠ 0)) u l, .rp] := by
  unfold lexStr cMacroBody
  generalize hL : ('(' :: (natStr n ++ sfxStr u l) ++ [')']).length = L
  rw [show L + 32 = L + 28 + 1 + 1 + 1 + 1 by omega, List.cons_append, lex_lp, List.append_assoc,
    lex_int_tok _ n u l hl [')'] (by decide), lex_rp, lex_nil]
  rfl

theorem lexStr_neg (n : Nat) (u : Bool) (l : Nat) (hl : l ≤ 2) :
    lexStr ('-' :: (natStr n ++ sfxStr u l)) = some [.minus, Tok.int n (decide (n ≠ 0)) u l] := by
  unfold lexStr
  generalize hL : ('-' :: (natStr n ++ sfxStr u l)).length = L
  have := lex_int_tok (L + 29 + 1) n u l hl [] rfl
  rw [List.append_nil] at this
  rw [show L + 32 = L + 29 + 1 + 1 + 1 by omega, lex_minus, this, lex_nil]
  rfl

theorem lexStr_neg_macro (n : Nat) (u : Bool) (l : Nat) (hl : l ≤ 2) :
    lexStr (cMacroBody ('-' :: (natStr n ++ sfxStr u l))) = some [.lp, .minus, Tok.int n (decide (n ≠ 0)) u l, .rp] := by
  unfold lexStr cMacroBody
  generalize hL : ('(' :: ('-' :: (natStr n ++ sfxStr u l)) ++ [')']).length = L
  rw [show L + 32 = L + 27 + 1 + 1 + 1 + 1 + 1 by omega, List.cons_append, lex_lp, List.cons_append, lex_minus,
    List.append_assoc, lex_int_tok _ n u l hl [')'] (by decide), lex_rp, lex_nil]
  rfl

/-! ### typing and evaluating the integer shapes -/

theorem firstFit_expected (unsigned : Bool) (w : Nat) (hw : 1 ≤ w ∧ w ≤ 64) (n : Nat) (dec : Bool)
    (hn : if unsigned then n < 2 ^ w else n ≤ 2 ^ (w - 1) ∧ n < 2 ^ 63) :
    firstFit n (litCandidates dec unsigned (lOf w)) = some (expectedCType unsigned w) := by
  by_cases h1 : w ≤ 16
  · have hl : lOf w = 0 := by unfold lOf; rw [if_neg (by omega), if_neg (by omega)]
    cases unsigned
    · simp only [Bool.false_eq_true, if_false] at hn
      have : 2 ^ (w - 1) ≤ 2 ^ 15 := pow2_le (by omega)
      have hn' : n ≤ 32768 := by omega
      cases dec <;> simp [hl, litCandidates, firstFit, expectedCType, h1, CType.inRange, CType.minVal,
        CType.maxVal, CType.signed, CType.bits] <;> omega
    · simp only [if_true] at hn
      have : 2 ^ w ≤ 2 ^ 16 := pow2_le (by omega)
      have hn' : n < 65536 := by omega
      cases dec <;> simp [hl, litCandidates, firstFit, expectedCType, h1, CType.inRange, CType.minVal,
        CType.maxVal, CType.signed, CType.bits] <;> omega
  · by_cases h2 : w ≤ 32
    · have hl : lOf w = 1 := by unfold lOf; rw [if_pos (by omega), if_neg (by omega)]
      cases unsigned
      · simp only [Bool.false_eq_true, if_false] at hn
        have : 2 ^ (w - 1) ≤ 2 ^ 31 := pow2_le (by omega)
        have hn' : n ≤ 2147483648 := by omega
        cases dec <;> simp [hl, litCandidates, firstFit, expectedCType, h1, h2, CType.inRange, CType.minVal,
          CType.maxVal, CType.signed, CType.bits] <;> omega
      · simp only [if_true] at hn
        have : 2 ^ w ≤ 2 ^ 32 := pow2_le (by omega)
        have hn' : n < 4294967296 := by omega
        cases dec <;> simp [hl, litCandidates, firstFit, expectedCType, h1, h2, CType.inRange, CType.minVal,
          CType.maxVal, CType.signed, CType.bits] <;> omega
    · have hl : lOf w = 2 := by unfold lOf; rw [if_pos (by omega), if_pos (by omega)]
      cases unsigned
      · simp only [Bool.false_eq_true, if_false] at hn
        have hn' : n < 9223372036854775808 := by omega
        cases dec <;> simp [hl, litCandidates, firstFit, expectedCType, h1, h2, CType.inRange, CType.minVal,
          CType.maxVal, CType.signed, CType.bits] <;> omega
      · simp only [if_true] at hn
        have : 2 ^ w ≤ 2 ^ 64 := pow2_le (by omega)
        have hn' : n < 18446744073709551616 := by omega
        cases dec <;> simp [hl, litCandidates, firstFit, expectedCType, h1, h2, CType.inRange, CType.minVal,
          CType.maxVal, CType.signed, CType.bits] <;> omega

theorem eval_ilit {d : Dialect} {n : Nat} {dec u : Bool} {l : Nat} {t : CType}
    (h : firstFit n (litCandidates dec u l) = some t) : eval d (.ilit n dec u l) = .ok (.int t n) := by
  simp [eval, h]

theorem expected_signed (unsigned : Bool) (w : Nat) : (expectedCType unsigned w).signed = !unsigned := by
  unfold expectedCType
  by_cases h1 : w ≤ 16 <;> by_cases h2 : w ≤ 32 <;> cases unsigned <;> simp [h1, h2, CType.signed]

theorem expected_promote (unsigned : Bool) (w : Nat) : promote (expectedCType unsigned w) = expectedCType unsigned w := by
  unfold expectedCType
  by_cases h1 : w ≤ 16 <;> by_cases h2 : w ≤ 32 <;> cases unsigned <;> simp [h1, h2, promote]

/-- `-n` for a signed literal type: no overflow as long as `n ≤ 2^(bits-1)`... here: `n` within the DSDL range. -/
theorem eval_neg_ilit {d : Dialect} {n : Nat} {dec : Bool} {w : Nat} (hw : 1 ≤ w ∧ w ≤ 64)
    (hn : n ≤ 2 ^ (w - 1) ∧ n < 2 ^ 63) :
    eval d (.neg (.ilit n dec false (lOf w))) = .ok (.int (expectedCType false w) (-(n : Int))) := by
  have hf := firstFit_expected false w hw n dec (by simpa using hn)
  simp only [eval, hf, bind, Except.bind, CVal.promoted, expected_promote]
  unfold intResult
  rw [expected_signed]
  simp only [Bool.not_false, if_true]
  have : (expectedCType false w).inRange (-(n : Int)) = true := by
    unfold expectedCType
    by_cases h1 : w ≤ 16
    · have : 2 ^ (w - 1) ≤ 2 ^ 15 := pow2_le (by omega)
      simp [h1, CType.inRange, CType.minVal, CType.maxVal, CType.signed, CType.bits]; omega
    · by_cases h2 : w ≤ 32
      · have : 2 ^ (w - 1) ≤ 2 ^ 31 := pow2_le (by omega)
        simp [h1, h2, CType.inRange, CType.minVal, CType.maxVal, CType.signed, CType.bits]; omega
      · simp [h1, h2, CType.inRange, CType.minVal, CType.maxVal, CType.signed, CType.bits]; omega
  rw [this]; rfl

/-! ### compositional lexing (used for the floating shapes) -/

/-- `s` lexes to `ts` in exactly `k` steps, whatever (safely starting) text follows -/
def LexesAs (s : Str) (ts : List Tok) (k : Nat) : Prop :=
  ∀ g rest, safeEnd rest = true → lex (g + k) (s ++ rest) = (lex g rest).map (ts ++ ·)

/-- every continuation of `s` starts safely (`s` begins with punctuation or a blank) -/
def SafeStart (s : Str) : Prop := ∀ rest, safeEnd (s ++ rest) = true

theorem LexesAs.append {s1 s2 : Str} {t1 t2 : List Tok} {k1 k2 : Nat}
    (h1 : LexesAs s1 t1 k1) (h2 : LexesAs s2 t2 k2) (hs : SafeStart s2) : LexesAs (s1 ++ s2) (t1 ++ t2) (k1 + k2) := by
  intro g rest hr
  rw [List.append_assoc, show g + (k1 + k2) = (g + k2) + k1 by omega, h1 (g + k2) (s2 ++ rest) (hs rest), h2 g rest hr]
  cases lex g rest <;> simp

theorem LexesAs.minus {s : Str} {ts : List Tok} {k : Nat} (h : LexesAs s ts k) : LexesAs ('-' :: s) (.minus :: ts) (k + 1) := by
  intro g rest hr
  rw [List.cons_append, show g + (k + 1) = (g + k) + 1 by omega, lex_minus, h g rest hr]
  cases lex g rest <;> simp

theorem lexesAs_lp : LexesAs ['('] [.lp] 1 := by
  intro g rest _; rw [List.singleton_append, lex_lp]; rfl
theorem lexesAs_rp : LexesAs [')'] [.rp] 1 := by
  intro g rest _; rw [List.singleton_append, lex_rp]; rfl
theorem lexesAs_slash : LexesAs ['/'] [.slash] 1 := by
  intro g rest _; rw [List.singleton_append, lex_slash]; rfl
theorem lexesAs_lt : LexesAs ['<'] [.lt] 1 := by
  intro g rest _; rw [List.singleton_append, lex_lt]; rfl
theorem lexesAs_gt : LexesAs ['>'] [.gt] 1 := by
  intro g rest _; rw [List.singleton_append, lex_gt]; rfl
theorem lexesAs_space : LexesAs [' '] [] 1 := by
  intro g rest _; rw [List.singleton_append, lex_space]; cases lex g rest <;> simp

theorem safeStart_cons {c : Char} (h : safeEnd [c] = true) (s : Str) : SafeStart (c :: s) := by
  intro rest
  simpa [safeEnd] using h

/-- an identifier made of the given characters, followed by a non-identifier character -/
theorem lexesAs_ident (id : Str) (hne : ∃ c r, id = c :: r ∧ c.isDigit = false ∧ c ≠ ' ' ∧ c ≠ '(' ∧ c ≠ ')' ∧ c ≠ '-' ∧
      c ≠ '/' ∧ c ≠ '<' ∧ c ≠ '>')
    (hid : ∀ c ∈ id, isIdChar c = true) :
    ∀ g rest, (∀ c r, rest = c :: r → isIdChar c = false) → lex (g + 1) (id ++ rest) = (lex g rest).map (Tok.ident id :: ·) := by
  intro g rest hrest
  obtain ⟨c, r, rfl, hd, h1, h2, h3, h4, h5, h6, h7⟩ := hne
  have hsp : ∀ (a : Str), (∀ x ∈ a, isIdChar x = true) → spanIdent (a ++ rest) = (a, rest) := by
    intro a ha
    induction a with
    | nil =>
      cases rest with
      | nil => rfl
      | cons x xs => simp [spanIdent, hrest x xs rfl]
    | cons x xs ih =>
      have hx : isIdChar x = true := ha x List.mem_cons_self
      have := ih (fun y hy => ha y (List.mem_cons_of_mem _ hy))
      simp [spanIdent, hx, this]
  have hc : isIdChar c = true := hid c List.mem_cons_self
  have := hsp (c :: r) hid
  simp only [List.cons_append] at this ⊢
  simp only [lex, h1, h2, h3, h4, h5, h6, h7, if_false, hd, Bool.false_eq_true, hc, if_true, this]

theorem lexStr_of_lexesAs {s : Str} {ts : List Tok} {k : Nat} (h : LexesAs s ts k) (hk : k ≤ 31) :
    lexStr s = some ts := by
  unfold lexStr
  have := h (s.length + 32 - k - 1 + 1) [] rfl
  rw [List.append_nil] at this
  rw [show s.length + 32 = s.length + 32 - k - 1 + 1 + k by omega, this, lex_nil]
  simp

/-- the floating literal `<digits of n>.0` -/
theorem lexesAs_dot0 (n : Nat) : LexesAs (natStr n ++ ['.', '0']) [.flt (10 * n) (-1) .none] 1 := by
  intro g rest hr
  have h := lexNum_frac (natStr_allDigits n) (fp := ['0']) (by intro c hc; simp at hc; subst hc; decide) (by simp) hr
  have e : digitsVal (natStr n ++ ['0']) = 10 * n := by
    unfold digitsVal
    rw [Nat.ofDigitChars_append]
    have := digitsVal_natStr n
    unfold digitsVal at this
    rw [this]
    simp [Nat.ofDigitChars]
  rw [e] at h
  have := lex_natStr (f := g) n ('.' :: (['0'] ++ rest)) h
  simpa using this

/-! ### the floating shapes -/

theorem safeEnd_space (r : Str) : safeEnd (' ' :: r) = true := rfl
theorem safeEnd_rp (r : Str) : safeEnd (')' :: r) = true := rfl

/-- the numerator part: `n.0` or `-n.0` -/
def numStr (num : Int) : Str := intStr num ++ ['.', '0']
def numToks : Int → List Tok
  | .ofNat n => [.flt (10 * n) (-1) .none]
  | .negSucc k => [.minus, .flt (10 * (k + 1)) (-1) .none]
def numSteps : Int → Nat
  | .ofNat _ => 1
  | .negSucc _ => 2

theorem lexesAs_numStr (num : Int) : LexesAs (numStr num) (numToks num) (numSteps num) := by
  cases num with
  | ofNat n => exact lexesAs_dot0 n
  | negSucc k => exact (lexesAs_dot0 (k + 1)).minus

/-- the expression `_float_literal_expression` renders when both operands are exact -/
def quotExpr (num : Int) (den : Nat) : Str :=
  if den = 1 then numStr num else '(' :: (numStr num ++ (' ' :: '/' :: ' ' :: (natStr den ++ ['.', '0'] ++ [')'])))
def quotToks (num : Int) (den : Nat) : List Tok :=
  if den = 1 then numToks num else .lp :: (numToks num ++ [.slash, .flt (10 * den) (-1) .none, .rp])
def quotSteps (num : Int) (den : Nat) : Nat := if den = 1 then numSteps num else numSteps num + 6

theorem lexesAs_quotExpr (num : Int) (den : Nat) : LexesAs (quotExpr num den) (quotToks num den) (quotSteps num den) := by
  unfold quotExpr quotToks quotSteps
  split
  · exact lexesAs_numStr num
  · intro g rest hr
    have h1 := lexesAs_numStr num (g + 5) (' ' :: '/' :: ' ' :: (natStr den ++ ['.', '0'] ++ [')'] ++ rest)) (safeEnd_space _)
    have h2 := lexesAs_dot0 den (g + 1) (')' :: rest) (safeEnd_rp _)
    simp only [List.cons_append, List.append_assoc, List.nil_append] at h1 h2 ⊢
    rw [show g + (numSteps num + 6) = (g + 5 + numSteps num) + 1 by omega, lex_lp, h1,
      show g + 5 = g + 2 + 1 + 1 + 1 by omega, lex_space, lex_slash, lex_space, h2, lex_rp]
    cases lex g rest <;> simp

theorem ident_float (g : Nat) (c : Char) (rest : Str) (hc : isIdChar c = false) :
    lex (g + 1) ("float".toList ++ c :: rest) = (lex g (c :: rest)).map (Tok.ident "float".toList :: ·) := by
  apply lexesAs_ident "float".toList ⟨'f', "loat".toList, rfl, by decide⟩ (by decide) g (c :: rest)
  intro c' r' e; injection e with e1 _; subst e1; exact hc

theorem ident_double (g : Nat) (c : Char) (rest : Str) (hc : isIdChar c = false) :
    lex (g + 1) ("double".toList ++ c :: rest) = (lex g (c :: rest)).map (Tok.ident "double".toList :: ·) := by
  apply lexesAs_ident "double".toList ⟨'d', "ouble".toList, rfl, by decide⟩ (by decide) g (c :: rest)
  intro c' r' e; injection e with e1 _; subst e1; exact hc

theorem ident_static_cast (g : Nat) (c : Char) (rest : Str) (hc : isIdChar c = false) :
    lex (g + 1) ("static_cast".toList ++ c :: rest) = (lex g (c :: rest)).map (Tok.ident "static_cast".toList :: ·) := by
  apply lexesAs_ident "static_cast".toList ⟨'s', "tatic_cast".toList, rfl, by decide⟩ (by decide) g (c :: rest)
  intro c' r' e; injection e with e1 _; subst e1; exact hc

theorem ident_ty {ty : Str} (hty : ty = "float".toList ∨ ty = "double".toList) (g : Nat) (c : Char) (rest : Str)
    (hc : isIdChar c = false) : lex (g + 1) (ty ++ c :: rest) = (lex g (c :: rest)).map (Tok.ident ty :: ·) := by
  rcases hty with h | h <;> subst h
  · exact ident_float g c rest hc
  · exact ident_double g c rest hc

/-- `cast_format` of the C language: `(({type}) {value})` -/
def cCast (ty val : Str) : Str := '(' :: '(' :: (ty ++ (')' :: ' ' :: (val ++ [')'])))
/-- `cast_format` of the C++ language: `static_cast<{type}>({value})` -/
def cppCast (ty val : Str) : Str := "static_cast".toList ++ '<' :: (ty ++ ('>' :: '(' :: (val ++ [')'])))

theorem lexStr_cCast {ty : Str} (hty : ty = "float".toList ∨ ty = "double".toList) {E : Str} {toks : List Tok} {k : Nat}
    (hE : LexesAs E toks k) (hk : k ≤ 8) :
    lexStr (cCast ty E) = some (.lp :: .lp :: .ident ty :: .rp :: (toks ++ [.rp])) := by
  unfold lexStr cCast
  generalize ('(' :: '(' :: (ty ++ (')' :: ' ' :: (E ++ [')'])))).length = L
  have h := hE (L + 32 - k - 7 + 1 + 1) [')'] (safeEnd_rp _)
  rw [show L + 32 = (L + 32 - k - 7 + 1 + 1 + k) + 1 + 1 + 1 + 1 + 1 by omega, lex_lp, lex_lp,
    ident_ty hty _ ')' _ (by decide), lex_rp, lex_space, h, lex_rp, lex_nil]
  simp

theorem lexStr_cCast_macro {ty : Str} (hty : ty = "float".toList ∨ ty = "double".toList) {E : Str} {toks : List Tok} {k : Nat}
    (hE : LexesAs E toks k) (hk : k ≤ 8) :
    lexStr (cMacroBody (cCast ty E)) = some (.lp :: .lp :: .lp :: .ident ty :: .rp :: (toks ++ [.rp, .rp])) := by
  unfold lexStr cCast cMacroBody
  generalize ('(' :: ('(' :: '(' :: (ty ++ (')' :: ' ' :: (E ++ [')'])))) ++ [')']).length = L
  have h := hE (L + 32 - k - 9 + 1 + 1 + 1) (')' :: [')']) (safeEnd_rp _)
  simp only [List.cons_append, List.append_assoc, List.nil_append] at h ⊢
  rw [show L + 32 = (L + 32 - k - 9 + 1 + 1 + 1 + k) + 1 + 1 + 1 + 1 + 1 + 1 by omega, lex_lp, lex_lp, lex_lp,
    ident_ty hty _ ')' _ (by decide), lex_rp, lex_space, h, lex_rp, lex_rp, lex_nil]
  simp

theorem lexStr_cppCast {ty : Str} (hty : ty = "float".toList ∨ ty = "double".toList) {E : Str} {toks : List Tok} {k : Nat}
    (hE : LexesAs E toks k) (hk : k ≤ 8) :
    lexStr (cppCast ty E) = some (.ident "static_cast".toList :: .lt :: .ident ty :: .gt :: .lp :: (toks ++ [.rp])) := by
  unfold lexStr cppCast
  generalize ("static_cast".toList ++ '<' :: (ty ++ ('>' :: '(' :: (E ++ [')'])))).length = L
  have h := hE (L + 32 - k - 7 + 1 + 1) [')'] (safeEnd_rp _)
  rw [show L + 32 = (L + 32 - k - 7 + 1 + 1 + k) + 1 + 1 + 1 + 1 + 1 by omega, ident_static_cast _ '<' _ (by decide), lex_lt,
    ident_ty hty _ '>' _ (by decide), lex_gt, lex_lp, h, lex_rp, lex_nil]
  simp

/-! ### parsing the floating shapes -/

def numAst : Int → CExpr
  | .ofNat n => .flit (10 * n) (-1) .none
  | .negSucc k => .neg (.flit (10 * (k + 1)) (-1) .none)

def quotAst (num : Int) (den : Nat) : CExpr :=
  if den = 1 then numAst num else .div (numAst num) (.flit (10 * den) (-1) .none)

def tyOf (ty : Str) : CType := if ty = "float".toList then .float else .double

theorem parse_cCast {ty : Str} (hty : ty = "float".toList ∨ ty = "double".toList) (num : Int) (den : Nat) :
    parseToks (.lp :: .lp :: .ident ty :: .rp :: (quotToks num den ++ [.rp])) = some (.cast (tyOf ty) (quotAst num den)) := by
  unfold quotToks quotAst
  rcases hty with h | h <;> subst h <;> split <;> cases num <;> rfl

theorem parse_cCast_macro {ty : Str} (hty : ty = "float".toList ∨ ty = "double".toList) (num : Int) (den : Nat) :
    parseToks (.lp :: .lp :: .lp :: .ident ty :: .rp :: (quotToks num den ++ [.rp, .rp])) =
      some (.cast (tyOf ty) (quotAst num den)) := by
  unfold quotToks quotAst
  rcases hty with h | h <;> subst h <;> split <;> cases num <;> rfl

theorem parse_cppCast {ty : Str} (hty : ty = "float".toList ∨ ty = "double".toList) (num : Int) (den : Nat) :
    parseToks (.ident "static_cast".toList :: .lt :: .ident ty :: .gt :: .lp :: (quotToks num den ++ [.rp])) =
      some (.cast (tyOf ty) (quotAst num den)) := by
  unfold quotToks quotAst
  rcases hty with h | h <;> subst h <;> split <;> cases num <;> rfl


end NunavutVerif.CLiteral
