import NunavutVerif.Lemmas.GenCppSer
/-!
GenCpp refinement, part 3: the generated C++ deserializer refines `deBits`, for every type and every prior content
of the destination object — `subspan()` / `subspan_bytes()` windows, the function skeleton, the in-place loop over
`std::array` elements, the `push_back` loop, struct fields, union options, and the structural induction over `Ty`.
-/
namespace NunavutVerif.GenCpp
open NunavutVerif.Dsdl NunavutVerif.Bits
open NunavutVerif.GenC (AOff resBits W liftP eTooSmall eBadArrayLength eBadUnionTag eBadDelimiterHeader
  satInt isStd storW floatBits serLoop deLoop trivVal trivVals trivHead padDe
  gb bitsOf Rel DeRefines embedD wfC wfCAll)
open NunavutVerif.GenC.AOff (Adm Sums SumsEq adm_zero adm_single adm_add adm_congr adm_pad sums_zero sums_step
  sums_mono adm_rangeRep_zero)

/-- contract of a generated function `deserialize(obj, in_buffer)`: on any span (cursor 0) it returns the specified
object and `min(consumed, size)` bytes -/
def DeFnOK (inner : Buf → Nat → Except Err (Val × Nat)) (T : Ty) : Prop :=
  ∀ sub, WF sub →
    match deBits T (bitsOf sub sub.length) with
    | .ok (v, used) => inner sub 0 = .ok (v, min used (8 * sub.length) / 8)
    | .error e => inner sub 0 = .error (embedD e)

/-! ### value-initialised objects and data-free types -/

theorem hasTyFields_trivVals : ∀ fs : List Ty, (∀ f ∈ fs, hasTy f (trivVal f) = true) →
    hasTyFields fs (trivVals fs) = true := by
  intro fs
  induction fs with
  | nil => intro _; rfl
  | cons f fs ih =>
    intro h
    simp only [trivVals, hasTyFields, Bool.and_eq_true]
    exact ⟨h f (by simp), ih (fun g hg => h g (List.mem_cons_of_mem _ hg))⟩

/-- `T()` is an object of type `T` -/
theorem hasTy_trivVal (t : Ty) : hasTy t (trivVal t) = true := by
  refine Ty.ind (P := fun t => hasTy t (trivVal t) = true) ?_ ?_ ?_ ?_ ?_ ?_ ?_ ?_ ?_ ?_ t
  · intro n m; rfl
  · intro n m; rfl
  · intro n m; simp [trivVal, hasTy]
  · rfl
  · intro n; rfl
  · intro t n ih
    simp only [trivVal, hasTy, List.length_replicate, beq_self_eq_true, Bool.true_and, List.all_eq_true]
    intro v hv
    rw [List.mem_replicate] at hv
    rw [hv.2]; exact ih
  · intro t c _; simp [trivVal, hasTy]
  · intro fs ih
    simp only [trivVal, hasTy]
    exact hasTyFields_trivVals fs ih
  · intro fs ih
    cases fs with
    | nil => simp [trivVal, hasTy, hasTyNth]
    | cons f fs => simpa [trivVal, trivHead, hasTy, hasTyNth] using ih f (by simp)
  · intro e t ih
    simpa [trivVal, hasTy] using ih

/-- a type that carries no data has exactly one object -/
def TrivUnique (t : Ty) : Prop :=
  wf t = true → wfC t = true → maxBits t = 0 → ∀ v, hasTy t v = true → v = trivVal t

theorem fields_trivUnique : ∀ fs : List Ty, (∀ f ∈ fs, TrivUnique f) → wfAll fs = true → wfCAll fs = true →
    ∀ vs off, hasTyFields fs vs = true → maxFields fs off = off → vs = trivVals fs := by
  intro fs
  induction fs with
  | nil =>
    intro _ _ _ vs off ht _
    cases vs with
    | nil => rfl
    | cons v vs => simp [hasTyFields] at ht
  | cons f fs ih =>
    intro hT hw hwC vs off ht hm
    cases vs with
    | nil => simp [hasTyFields] at ht
    | cons v vs =>
      simp only [hasTyFields, Bool.and_eq_true] at ht
      simp only [wfAll, Bool.and_eq_true] at hw
      simp only [wfCAll, Bool.and_eq_true] at hwC
      simp only [maxFields] at hm
      have h1 := GenC.maxFields_ge fs (padTo (align f) off + maxBits f)
      have h2 := padTo_ge (align f) off
      have hpad : padTo (align f) off = off := by omega
      have hmax : maxBits f = 0 := by omega
      have hf := hT f (by simp) hw.1 hwC.1 hmax v ht.1
      have hrest := ih (fun g hg => hT g (List.mem_cons_of_mem _ hg)) hw.2 hwC.2 vs off ht.2
        (by rw [hpad, hmax] at hm; simpa using hm)
      simp only [trivVals, hf, hrest]

theorem trivUnique (t : Ty) : TrivUnique t := by
  refine Ty.ind (P := TrivUnique) ?_ ?_ ?_ ?_ ?_ ?_ ?_ ?_ ?_ ?_ t
  · intro n m hw _ hm; simp [wf, maxBits] at hw hm; omega
  · intro n m hw _ hm; simp [wf, maxBits] at hw hm; omega
  · intro n m hw _ hm; simp [wf, maxBits] at hw hm; omega
  · intro _ _ hm; simp [maxBits] at hm
  · intro n _ hwC hm; simp [wfC, maxBits] at hwC hm; omega
  · intro t n ih hw hwC hm v ht
    simp only [wf] at hw
    simp only [wfC, Bool.and_eq_true] at hwC
    simp only [maxBits, Nat.mul_eq_zero] at hm
    cases v with
    | arr vs =>
      simp only [hasTy, Bool.and_eq_true, beq_iff_eq, List.all_eq_true] at ht
      simp only [trivVal]
      congr 1
      rw [List.eq_replicate_iff]
      refine ⟨ht.1, ?_⟩
      intro x hx
      rcases hm with h | h
      · subst h
        have : vs = [] := List.eq_nil_of_length_eq_zero ht.1
        subst this; cases hx
      · exact ih hw hwC.2 h x (ht.2 x hx)
    | _ => simp [hasTy] at ht
  · intro t c _ _ _ hm
    simp only [maxBits, prefixBits] at hm
    rcases stdWidth_cases c with h | h | h | h <;> omega
  · intro fs ih hw hwC hm v ht
    simp only [wf] at hw
    simp only [wfC] at hwC
    simp only [maxBits] at hm
    have h1 := padTo_ge 8 (maxFields fs 0)
    cases v with
    | struct vs =>
      simp only [hasTy] at ht
      simp only [trivVal]
      congr 1
      exact fields_trivUnique fs ih hw hwC vs 0 ht (by omega)
    | _ => simp [hasTy] at ht
  · intro fs _ _ _ hm
    simp only [maxBits, tagBits] at hm
    have h1 := padTo_ge 8 (stdWidth (fs.length - 1) + maxOpts fs)
    rcases stdWidth_cases (fs.length - 1) with h | h | h | h <;> omega
  · intro e t _ _ _ hm
    simp [maxBits, headerBits] at hm

/-! ### `subspan()` / `subspan_bytes()` windows -/

theorem bitsOf_full (b : Buf) : bitsOf b b.length = unpackBytes b := by
  simp [bitsOf]

theorem subspanRest_eq (data : Buf) (off : Nat) :
    subspanRest ⟨data, off⟩ = ⟨data.drop (off / 8), off % 8⟩ := by
  unfold subspanRest
  simp only
  congr 1
  apply List.take_of_length_le
  rw [List.length_drop]
  split <;> omega

theorem subspanBytes_eq (data : Buf) (off h : Nat) (hh : 8 * h ≤ 8 * data.length - off) :
    subspanBytes ⟨data, off⟩ h = ⟨(data.drop (off / 8)).take h, 0⟩ := by
  unfold subspanBytes
  simp only
  congr 1
  by_cases hk : off / 8 < data.length
  · simp only [hk, if_true]
    congr 1
    split <;> omega
  · simp only [hk, if_false]
    have h0 : h = 0 := by omega
    subst h0
    simp

/-! ### `_deserialize_composite` -/

theorem nestedDe_sealed (o : Opts) (inner : Buf → Nat → Except Err (Val × Nat)) (T : Ty) (hfn : DeFnOK inner T)
    (hused : ∀ bs v u, deBits T bs = .ok (v, u) → u % 8 = 0) (data : Buf) (off : Nat)
    (hw : WF data) (hal : off % 8 = 0) :
    DeRefines (nestedDe o inner false data off) (deBits T ((bitsOf data data.length).drop off)) data.length off := by
  have hf := hfn (data.drop (off / 8)) (GenC.WF_drop hw _)
  rw [bitsOf_full, GenC.unpackBytes_drop, show 8 * (off / 8) = off by omega, ← bitsOf_full] at hf
  unfold nestedDe
  simp only [Bool.false_eq_true, if_false]
  rw [assertX_ok o hal, subspanRest_eq]
  simp only [hal]
  cases hsp : deBits T ((bitsOf data data.length).drop off) with
  | error e =>
    rw [hsp] at hf
    simp only [DeRefines] at hf ⊢
    rw [hf]
  | ok r =>
    obtain ⟨v, used⟩ := r
    rw [hsp] at hf
    simp only [DeRefines] at hf ⊢
    rw [hf]
    have h8 := hused _ v used hsp
    refine ⟨_, rfl, ?_⟩
    rw [List.length_drop]
    refine ⟨by omega, by omega, ?_⟩
    by_cases hu : used ≤ 8 * (data.length - off / 8)
    · exact Or.inl (by rw [Nat.min_eq_left hu]; omega)
    · exact Or.inr (by rw [Nat.min_eq_right (by omega)]; omega)

theorem nestedDe_delim (o : Opts) (inner : Buf → Nat → Except Err (Val × Nat)) (T : Ty)
    (hfn : DeFnOK inner T) (ext : Nat) (data : Buf) (off : Nat)
    (hw : WF data) (hal : off % 8 = 0) :
    DeRefines (nestedDe o inner true data off) (deBits (.delim ext T) ((bitsOf data data.length).drop off))
      data.length off := by
  have hlenB : (bitsOf data data.length).length = 8 * data.length := GenC.bitsOf_length (Nat.le_refl _)
  unfold nestedDe
  simp only [if_true, deBits, headerBits, List.drop_drop]
  rw [deUint_spec 32 data off (by omega) hw]
  dsimp only
  generalize readNat 32 ((bitsOf data data.length).drop off) = h
  have hrl : ((bitsOf data data.length).drop (off + 32)).length = 8 * data.length - (off + 32) := by
    rw [List.length_drop, hlenB]
  rw [Cpp.size_eq]
  simp only
  by_cases hbad : h * 8 > data.length * 8 - (off + 32)
  · have : 8 * h > ((bitsOf data data.length).drop (off + 32)).length := by rw [hrl]; omega
    simp only [hbad, this, if_true, DeRefines, embedD]
  · have hnb : ¬ 8 * h > ((bitsOf data data.length).drop (off + 32)).length := by rw [hrl]; omega
    simp only [hbad, hnb, if_false]
    rw [assertX_ok o (show (off + 32) % 8 = 0 by omega), subspanBytes_eq data (off + 32) h (by omega)]
    simp only
    have hsl : ((data.drop ((off + 32) / 8)).take h).length = h := by
      simp only [List.length_take, List.length_drop]; omega
    have hf := hfn ((data.drop ((off + 32) / 8)).take h) (GenC.WF_take (GenC.WF_drop hw _) _)
    rw [bitsOf_full, GenC.unpackBytes_take, GenC.unpackBytes_drop, show 8 * ((off + 32) / 8) = off + 32 by omega,
      ← bitsOf_full] at hf
    cases hsp : deBits T (((bitsOf data data.length).drop (off + 32)).take (8 * h)) with
    | error e =>
      rw [hsp] at hf
      simp only [DeRefines] at hf ⊢
      rw [hf]
    | ok r =>
      obtain ⟨v, used⟩ := r
      rw [hsp] at hf
      simp only [DeRefines] at hf ⊢
      rw [hf]
      dsimp only
      rw [assertX_ok o (show (off + 32) % 8 = 0 by omega)]
      exact ⟨_, rfl, by rw [show off + 32 + h * 8 = off + (32 + 8 * h) by omega]; exact Rel.refl _ _⟩

/-! ### the function skeleton -/

theorem topDe_fnOK (o : Opts) (maxB : Nat) (prior : Val) (body : Buf → Nat → Except Err (Val × Nat)) (T : Ty)
    (specBody : List Bool → Except DeErr (Val × Nat))
    (hT : ∀ bs, deBits T bs = match specBody bs with
      | .ok (v, off) => .ok (v, padTo 8 off)
      | .error e => .error e)
    (hbody : ∀ sub, WF sub → DeRefines (body sub 0) (specBody (bitsOf sub sub.length)) sub.length 0)
    (h0 : maxB = 0 → ∀ bs, deBits T bs = .ok (prior, 0)) :
    DeFnOK (topDe o maxB prior body) T := by
  intro sub hw
  unfold topDe
  by_cases hz : maxB = 0
  · rw [h0 hz]
    simp [hz]
  · simp only [hz, if_false]
    have hb := hbody sub hw
    rw [hT]
    cases hsp : specBody (bitsOf sub sub.length) with
    | error e =>
      rw [hsp] at hb
      simp only [DeRefines] at hb
      simp only [hb]
    | ok r =>
      obtain ⟨v, off⟩ := r
      rw [hsp] at hb
      simp only [DeRefines] at hb
      obtain ⟨off', hb', hrel⟩ := hb
      simp only [hb', GenC.padDe_eq 8 off' (Or.inr rfl), Cpp.size_eq]
      rw [assertX_ok o (padTo_mod (a := 8) (Or.inr rfl) off'),
        assertX_ok o (show sub.length * 8 - 0 ≥ min (padTo 8 off') (sub.length * 8 - 0) by omega)]
      have := Rel.pad (a := 8) (Or.inr rfl) hrel
      simp only [Nat.zero_add] at this
      obtain ⟨r1, _, r3⟩ := this
      congr 2
      rcases r3 with e | e
      · rw [e, Nat.sub_zero, Nat.mul_comm]
      · rw [Nat.min_eq_right (by omega), Nat.min_eq_right (by omega), Nat.sub_zero, Nat.mul_comm]

/-! ### the per-type statements -/

/-- `_deserialize_any` for type `t` refines the specification at every position, whatever the destination holds. -/
def DeOKX (o : Opts) (t : Ty) : Prop :=
  wf t = true → wfC t = true → ∀ prior d data off, hasTy t prior = true → WF data → Adm d off → off % align t = 0 →
    DeRefines (deAny o t prior d data off) (deBits t ((bitsOf data data.length).drop off)) data.length off

/-- the generated function of a composite `t` refines the specification, whatever the destination holds -/
def DeFnOKX (o : Opts) (t : Ty) : Prop :=
  wf t = true → wfC t = true → isComposite t = true → ∀ prior, hasTy t prior = true → DeFnOK (deFn o t prior) t

def DeP (o : Opts) (t : Ty) : Prop := DeOKX o t ∧ DeFnOKX o t

theorem used_mod8 {t : Ty} (hw : wf t = true) (ha : align t = 8) :
    ∀ bs v u, deBits t bs = .ok (v, u) → u % 8 = 0 := by
  intro bs v u h
  have := (GenC.resOKD t hw bs v u h).2
  rwa [ha] at this

section
set_option linter.unusedSectionVars false
variable (o : Opts) (hs : o.Sound) (hcl : o.clearFirst = true)
include hs hcl

/-! ### the element loops -/

/-- the `push_back` loop: every element decoded into a fresh value-initialised temporary -/
theorem deLoop_refines (t : Ty) (hT : DeOKX o t) (hw : wf t = true) (hwC : wfC t = true) (data : Buf)
    (hwf : WF data) (d0 R : AOff) (off0 K : Nat) (hd0 : Adm d0 off0) (hR : ∀ x, Sums (resBits t) K x → Adm R x) :
    ∀ (k offC offS j x : Nat), Rel data.length offC offS → offS = off0 + x → Sums (resBits t) j x → j + k ≤ K + 1 →
      offS % align t = 0 →
      match deAllWith (deBits t) k ((bitsOf data data.length).drop offS) with
      | .ok (vs, used) => ∃ off', deLoop (fun f => anyGuardD o t (d0.add R) f (deAny o t (trivVal t) (d0.add R) data f)) k offC
            = .ok (vs, off') ∧ Rel data.length off' (offS + used)
      | .error e => deLoop (fun f => anyGuardD o t (d0.add R) f (deAny o t (trivVal t) (d0.add R) data f)) k offC
            = .error (embedD e) := by
  intro k
  induction k with
  | zero =>
    intro offC offS j x hrel _ _ _ _
    simp only [deAllWith, deLoop]
    exact ⟨offC, rfl, by simpa using hrel⟩
  | succ k ih =>
    intro offC offS j x hrel hoff hsum hjk hal
    have hadmS : Adm (d0.add R) offS := by
      rw [hoff]; exact adm_add hd0 (hR x (sums_mono hsum (by omega)))
    have hadmC : Adm (d0.add R) offC := adm_congr hrel.2.1.symm hadmS
    have h1 := hT hw hwC (trivVal t) (d0.add R) data offC (hasTy_trivVal t) hwf hadmC (GenC.mod_align_of_rel hrel hal)
    rw [Rel.drop (Nat.le_refl _) hrel] at h1
    simp only [deAllWith, deLoop]
    rw [anyGuardD_ok o hs t _ _ _ (GenC.mod_align_of_rel hrel hal) hadmC]
    cases hsp : deBits t ((bitsOf data data.length).drop offS) with
    | error e =>
      rw [hsp] at h1
      simp only [DeRefines] at h1
      simp only [h1]
    | ok r =>
      obtain ⟨v, n⟩ := r
      rw [hsp] at h1
      simp only [DeRefines] at h1
      obtain ⟨off1, hd1, hrel1⟩ := h1
      have hres := GenC.resOKD t hw _ v n hsp
      have h2 := ih off1 (offS + n) (j + 1) (x + n) (Rel.trans hrel1 hrel) (by omega) (sums_step hsum hres.1)
        (by omega) (by rcases align_cases t with e | e <;> rw [e] at hal hres ⊢ <;> omega)
      simp only [hd1, List.drop_drop]
      cases hsa : deAllWith (deBits t) k ((bitsOf data data.length).drop (offS + n)) with
      | error e =>
        rw [hsa] at h2
        simp only [h2]
      | ok r2 =>
        obtain ⟨vs, m⟩ := r2
        rw [hsa] at h2
        obtain ⟨off2, hd2, hrel2⟩ := h2
        simp only [hd2]
        exact ⟨off2, rfl, by rw [← Nat.add_assoc]; exact hrel2⟩

/-- the loop over the elements of a `std::array`: every element decoded in place, whatever it held -/
theorem deLoopInto_refines (t : Ty) (hT : DeOKX o t) (hw : wf t = true) (hwC : wfC t = true) (data : Buf)
    (hwf : WF data) (d0 R : AOff) (off0 K : Nat) (hd0 : Adm d0 off0) (hR : ∀ x, Sums (resBits t) K x → Adm R x) :
    ∀ (ps : List Val) (offC offS j x : Nat), (∀ p ∈ ps, hasTy t p = true) → Rel data.length offC offS →
      offS = off0 + x → Sums (resBits t) j x → j + ps.length ≤ K + 1 → offS % align t = 0 →
      match deAllWith (deBits t) ps.length ((bitsOf data data.length).drop offS) with
      | .ok (vs, used) => ∃ off', deLoopInto (fun p f => anyGuardD o t (d0.add R) f (deAny o t p (d0.add R) data f)) ps offC
            = .ok (vs, off') ∧ Rel data.length off' (offS + used)
      | .error e => deLoopInto (fun p f => anyGuardD o t (d0.add R) f (deAny o t p (d0.add R) data f)) ps offC
            = .error (embedD e) := by
  intro ps
  induction ps with
  | nil =>
    intro offC offS j x _ hrel _ _ _ _
    simp only [List.length_nil, deAllWith, deLoopInto]
    exact ⟨offC, rfl, by simpa using hrel⟩
  | cons p ps ih =>
    intro offC offS j x hps hrel hoff hsum hjk hal
    simp only [List.length_cons] at hjk ⊢
    have hadmS : Adm (d0.add R) offS := by
      rw [hoff]; exact adm_add hd0 (hR x (sums_mono hsum (by omega)))
    have hadmC : Adm (d0.add R) offC := adm_congr hrel.2.1.symm hadmS
    have h1 := hT hw hwC p (d0.add R) data offC (hps p (by simp)) hwf hadmC (GenC.mod_align_of_rel hrel hal)
    rw [Rel.drop (Nat.le_refl _) hrel] at h1
    simp only [deAllWith, deLoopInto]
    rw [anyGuardD_ok o hs t _ _ _ (GenC.mod_align_of_rel hrel hal) hadmC]
    cases hsp : deBits t ((bitsOf data data.length).drop offS) with
    | error e =>
      rw [hsp] at h1
      simp only [DeRefines] at h1
      simp only [h1]
    | ok r =>
      obtain ⟨v, n⟩ := r
      rw [hsp] at h1
      simp only [DeRefines] at h1
      obtain ⟨off1, hd1, hrel1⟩ := h1
      have hres := GenC.resOKD t hw _ v n hsp
      have h2 := ih off1 (offS + n) (j + 1) (x + n) (fun q hq => hps q (List.mem_cons_of_mem _ hq))
        (Rel.trans hrel1 hrel) (by omega) (sums_step hsum hres.1)
        (by omega) (by rcases align_cases t with e | e <;> rw [e] at hal hres ⊢ <;> omega)
      simp only [hd1, List.drop_drop]
      cases hsa : deAllWith (deBits t) ps.length ((bitsOf data data.length).drop (offS + n)) with
      | error e =>
        rw [hsa] at h2
        simp only [h2]
      | ok r2 =>
        obtain ⟨vs, m⟩ := r2
        rw [hsa] at h2
        obtain ⟨off2, hd2, hrel2⟩ := h2
        simp only [hd2]
        exact ⟨off2, rfl, by rw [← Nat.add_assoc]; exact hrel2⟩

/-! ### struct fields and union options -/

theorem deFields_refines : ∀ fs : List Ty, (∀ f ∈ fs, DeOKX o f) → wfAll fs = true → wfCAll fs = true →
    ∀ (ps : List Val) (first : Bool) (d : AOff) (data : Buf) (offC offS : Nat), hasTyFields fs ps = true → WF data →
      Rel data.length offC offS → Adm d offS → (first = true → offS = 0 ∧ offC = 0) →
      match Dsdl.deFields fs (bitsOf data data.length) offS with
      | .ok (vs, e) => ∃ off', GenCpp.deFields o fs ps first d data offC = .ok (vs, off') ∧ Rel data.length off' e
      | .error e => GenCpp.deFields o fs ps first d data offC = .error (embedD e) := by
  intro fs
  induction fs with
  | nil =>
    intro _ _ _ ps first d data offC offS hps _ hrel _ _
    cases ps with
    | nil =>
      simp only [Dsdl.deFields, GenCpp.deFields]
      exact ⟨offC, rfl, hrel⟩
    | cons p ps => simp [hasTyFields] at hps
  | cons f fs ih =>
    intro hT hw hwC ps first d data offC offS hps hwf hrel hd hfirst
    cases ps with
    | nil => simp [hasTyFields] at hps
    | cons p ps =>
    simp only [hasTyFields, Bool.and_eq_true] at hps
    simp only [wfAll, Bool.and_eq_true] at hw
    simp only [wfCAll, Bool.and_eq_true] at hwC
    -- alignment before the field
    have hrel1 : Rel data.length (if first = true then offC else padDe (align f) offC) (padTo (align f) offS) := by
      cases first with
      | true =>
        obtain ⟨e1, e2⟩ := hfirst rfl
        subst e1 e2
        have : padTo (align f) 0 = 0 := by rcases align_cases f with e | e <;> rw [e] <;> rfl
        simp only [if_true, this]; exact Rel.refl _ _
      | false =>
        simp only [Bool.false_eq_true, if_false, GenC.padDe_eq _ _ (align_cases f)]
        exact Rel.pad (align_cases f) hrel
    simp only [Dsdl.deFields, GenCpp.deFields]
    generalize (if first = true then offC else padDe (align f) offC) = offC1 at hrel1 ⊢
    have hadmS := adm_pad (align_cases f) hd
    have hadmC : Adm (d.pad (align f)) offC1 := adm_congr hrel1.2.1.symm hadmS
    have h1 := hT f (by simp) hw.1 hwC.1 p (d.pad (align f)) data offC1 hps.1 hwf hadmC
      (GenC.mod_align_of_rel hrel1 (padTo_mod (align_cases f) offS))
    rw [Rel.drop (Nat.le_refl _) hrel1] at h1
    rw [anyGuardD_ok o hs f _ _ _ (GenC.mod_align_of_rel hrel1 (padTo_mod (align_cases f) offS)) hadmC]
    cases hsp : deBits f ((bitsOf data data.length).drop (padTo (align f) offS)) with
    | error e =>
      rw [hsp] at h1
      simp only [DeRefines] at h1
      simp only [h1]
    | ok r =>
      obtain ⟨v, n⟩ := r
      rw [hsp] at h1
      simp only [DeRefines] at h1
      obtain ⟨off1, hd1, hr1⟩ := h1
      have hres := GenC.resOKD f hw.1 _ v n hsp
      have h2 := ih (fun g hg => hT g (List.mem_cons_of_mem _ hg)) hw.2 hwC.2 ps false
        ((d.pad (align f)).add (resBits f)) data off1 (padTo (align f) offS + n) hps.2 hwf
        (Rel.trans hr1 hrel1) (adm_add hadmS hres.1) (by intro h; cases h)
      simp only [hd1]
      cases hsa : Dsdl.deFields fs (bitsOf data data.length) (padTo (align f) offS + n) with
      | error e =>
        rw [hsa] at h2
        simp only [h2]
      | ok r2 =>
        obtain ⟨vs, e⟩ := r2
        rw [hsa] at h2
        obtain ⟨off2, hd2, hr2⟩ := h2
        simp only [hd2]
        exact ⟨off2, rfl, hr2⟩

theorem deNth_bad : ∀ (fs : List Ty) (k : Nat) (d : AOff) (data : Buf) (off : Nat),
    k ≥ fs.length → GenCpp.deNth o fs k d data off = .error eBadUnionTag := by
  intro fs
  induction fs with
  | nil => intro k d data off _; simp [GenCpp.deNth]
  | cons f fs ih =>
    intro k d data off hk
    cases k with
    | zero => simp at hk
    | succ k =>
      simp only [GenCpp.deNth]
      exact ih k d data off (by simpa using hk)

theorem deNth_refines : ∀ fs : List Ty, (∀ f ∈ fs, DeOKX o f) → wfAll fs = true → wfCAll fs = true →
    ∀ (k : Nat) (d : AOff) (data : Buf) (off : Nat), WF data → Adm d off → off % 8 = 0 →
      DeRefines (GenCpp.deNth o fs k d data off) (Dsdl.deNth fs k ((bitsOf data data.length).drop off))
        data.length off := by
  intro fs
  induction fs with
  | nil =>
    intro _ _ _ k d data off _ _ _
    simp [GenCpp.deNth, Dsdl.deNth, DeRefines, embedD]
  | cons f fs ih =>
    intro hT hw hwC k d data off hwf hd hal
    simp only [wfAll, Bool.and_eq_true] at hw
    simp only [wfCAll, Bool.and_eq_true] at hwC
    cases k with
    | zero =>
      simp only [GenCpp.deNth, Dsdl.deNth]
      rw [anyGuardD_ok o hs f _ _ _ (GenC.align_mod_of_mod8 f hal) hd]
      exact hT f (by simp) hw.1 hwC.1 (trivVal f) d data off (hasTy_trivVal f) hwf hd (GenC.align_mod_of_mod8 f hal)
    | succ k =>
      simp only [GenCpp.deNth, Dsdl.deNth]
      exact ih (fun g hg => hT g (List.mem_cons_of_mem _ hg)) hw.2 hwC.2 k d data off hwf hd hal

/-! ### the induction over the type -/

theorem deFnOKX_noncomposite {t : Ty} (h : isComposite t = false) : DeFnOKX o t := by
  intro _ _ hc; rw [h] at hc; cases hc

theorem deP_struct (fs : List Ty) (ih : ∀ f ∈ fs, DeP o f) : DeP o (.struct fs) := by
  have hfn : DeFnOKX o (.struct fs) := by
    intro hw hwC _ prior hp
    cases prior with
    | struct ps =>
      have e : deFn o (.struct fs) (.struct ps) = topDe o (maxBits (.struct fs)) (.struct ps) (fun b f =>
          match GenCpp.deFields o fs ps true AOff.zero b f with
          | .error e => .error e
          | .ok (vs, f) => .ok (.struct vs, f)) := by
        funext b c; simp only [deFn] <;> rfl
      rw [e]
      apply topDe_fnOK o _ _ _ (.struct fs) (fun bs =>
        match Dsdl.deFields fs bs 0 with
        | .ok (vs, off) => .ok (.struct vs, off)
        | .error e => .error e)
      · intro bs
        simp only [deBits]
        cases Dsdl.deFields fs bs 0 with
        | error e => rfl
        | ok r => rfl
      · intro sub hwf
        simp only [wf] at hw
        simp only [wfC] at hwC
        simp only [hasTy] at hp
        have := deFields_refines o hs hcl fs (fun f hf => (ih f hf).1) hw hwC ps true AOff.zero sub 0 0 hp hwf
          (Rel.refl _ _) (adm_zero rfl) (fun _ => ⟨rfl, rfl⟩)
        cases hsp : Dsdl.deFields fs (bitsOf sub sub.length) 0 with
        | error e =>
          rw [hsp] at this
          simp only [DeRefines, this]
        | ok r =>
          obtain ⟨vs, e⟩ := r
          rw [hsp] at this
          obtain ⟨off', h1, h2⟩ := this
          simp only [DeRefines, h1]
          exact ⟨off', rfl, by simpa using h2⟩
      · intro h0 bs
        rw [trivUnique (.struct fs) hw hwC h0 _ hp]
        exact GenC.deTrivOK (.struct fs) hw hwC h0 bs
    | _ => simp [hasTy] at hp
  refine ⟨?_, hfn⟩
  intro hw hwC prior d data off hp hwf hd hal
  cases prior with
  | struct ps =>
    have e : deAny o (.struct fs) (.struct ps) d data off
        = nestedDe o (deFn o (.struct fs) (.struct ps)) false data off := by
      simp only [deAny, deFn]
    rw [e]
    simp only [align] at hal
    exact nestedDe_sealed o _ (.struct fs) (hfn hw hwC rfl _ hp) (used_mod8 hw rfl) data off hwf hal
  | _ => simp [hasTy] at hp

theorem deP_union (fs : List Ty) (ih : ∀ f ∈ fs, DeP o f) : DeP o (.union fs) := by
  have hfn : DeFnOKX o (.union fs) := by
    intro hw hwC _ prior hp
    have e : deFn o (.union fs) prior = topDe o (maxBits (.union fs)) prior (fun b f =>
        match deUint (tagBits fs.length) b f with
        | .error e => .error e
        | .ok k =>
          match GenCpp.deNth o fs k (AOff.single (tagBits fs.length)) b (f + tagBits fs.length) with
          | .error e => .error e
          | .ok (v, f) => .ok (.union k v, f)) := by
      funext b c; cases prior <;> simp only [deFn] <;> rfl
    rw [e]
    simp only [wf, Bool.and_eq_true, decide_eq_true_eq] at hw
    simp only [wfC] at hwC
    have htb := GenC.tagBits_cases fs.length
    apply topDe_fnOK o _ _ _ (.union fs) (fun bs =>
      if readNat (tagBits fs.length) bs ≥ fs.length then .error .badUnionTag
      else
        match Dsdl.deNth fs (readNat (tagBits fs.length) bs) (bs.drop (tagBits fs.length)) with
        | .error e => .error e
        | .ok (v, used) => .ok (.union (readNat (tagBits fs.length) bs) v, tagBits fs.length + used))
    · intro bs
      simp only [deBits]
      by_cases hk : readNat (tagBits fs.length) bs ≥ fs.length
      · simp only [hk, if_true]
      · simp only [hk, if_false]
        cases Dsdl.deNth fs (readNat (tagBits fs.length) bs) (bs.drop (tagBits fs.length)) with
        | error e => rfl
        | ok r => rfl
    · intro sub hwf
      rw [deUint_spec (tagBits fs.length) sub 0 (by omega) hwf]
      simp only [List.drop_zero, Nat.zero_add]
      generalize readNat (tagBits fs.length) (bitsOf sub sub.length) = k
      by_cases hk : k ≥ fs.length
      · simp only [hk, if_true, DeRefines, deNth_bad o hs hcl fs k _ _ _ hk]
        rfl
      · simp only [hk, if_false]
        have := deNth_refines o hs hcl fs (fun f hf => (ih f hf).1) hw.2 hwC k (AOff.single (tagBits fs.length)) sub
          (tagBits fs.length) hwf (adm_single _) (by omega)
        cases hsp : Dsdl.deNth fs k ((bitsOf sub sub.length).drop (tagBits fs.length)) with
        | error e =>
          rw [hsp] at this
          simp only [DeRefines] at this ⊢
          simp only [this]
        | ok r =>
          obtain ⟨v, used⟩ := r
          rw [hsp] at this
          simp only [DeRefines] at this ⊢
          obtain ⟨off', h1, h2⟩ := this
          simp only [h1]
          exact ⟨off', rfl, by simpa using h2⟩
    · intro h0
      simp only [maxBits] at h0
      have := padTo_ge 8 (tagBits fs.length + maxOpts fs)
      omega
  refine ⟨?_, hfn⟩
  intro hw hwC prior d data off hp hwf hd hal
  have e : deAny o (.union fs) prior d data off = nestedDe o (deFn o (.union fs) prior) false data off := by
    cases prior <;> simp only [deAny, deFn]
  rw [e]
  simp only [align] at hal
  exact nestedDe_sealed o _ (.union fs) (hfn hw hwC rfl _ hp) (used_mod8 hw rfl) data off hwf hal

theorem deP (t : Ty) : DeP o t := by
  refine Ty.ind (P := DeP o) ?_ ?_ ?_ ?_ ?_ ?_ ?_ ?_ ?_ ?_ t
  · -- uint
    intro n m
    refine ⟨?_, deFnOKX_noncomposite o hs hcl rfl⟩
    intro hw hwC prior d data off hp hwf hd hal
    simp only [wf, decide_eq_true_eq] at hw
    simp only [deAny, deBits, deUint_spec n data off hw.2 hwf, DeRefines]
    exact ⟨_, rfl, Rel.refl _ _⟩
  · -- sint
    intro n m
    refine ⟨?_, deFnOKX_noncomposite o hs hcl rfl⟩
    intro hw hwC prior d data off hp hwf hd hal
    simp only [wf, decide_eq_true_eq] at hw
    simp only [deAny, deBits, deSint_spec n data off hw.1 hw.2 hwf, DeRefines]
    exact ⟨_, rfl, Rel.refl _ _⟩
  · -- float
    intro n m
    refine ⟨?_, deFnOKX_noncomposite o hs hcl rfl⟩
    intro hw hwC prior d data off hp hwf hd hal
    simp only [wf, decide_eq_true_eq] at hw
    simp only [deAny, deBits, deFloat_spec n data off hw hwf, DeRefines]
    exact ⟨_, rfl, Rel.refl _ _⟩
  · -- bool
    refine ⟨?_, deFnOKX_noncomposite o hs hcl rfl⟩
    intro hw hwC prior d data off hp hwf hd hal
    simp only [deAny, deBits, deBool_spec data off hwf, DeRefines]
    exact ⟨_, rfl, Rel.refl _ _⟩
  · -- void
    intro n
    refine ⟨?_, deFnOKX_noncomposite o hs hcl rfl⟩
    intro hw hwC prior d data off hp hwf hd hal
    simp only [deAny, deBits, DeRefines]
    exact ⟨_, rfl, Rel.refl _ _⟩
  · -- fixed array
    intro t n ih
    refine ⟨?_, deFnOKX_noncomposite o hs hcl rfl⟩
    intro hw hwC prior d data off hp hwf hd hal
    simp only [wf] at hw
    simp only [wfC, Bool.and_eq_true] at hwC
    simp only [align] at hal
    cases prior with
    | arr ps =>
      simp only [hasTy, Bool.and_eq_true, beq_iff_eq, List.all_eq_true] at hp
      have h2 := deLoopInto_refines o hs hcl t ih.1 hw hwC.2 data hwf d (AOff.rangeRep (resBits t) (n - 1) AOff.zero)
        off (n - 1) hd (fun x hx => adm_rangeRep_zero hx) ps off off 0 0 hp.2 (Rel.refl _ _) rfl
        (sums_zero _ _) (by omega) hal
      rw [hp.1] at h2
      simp only [deAny, deBits, hp.1, if_true]
      cases hsa : deAllWith (deBits t) n ((bitsOf data data.length).drop off) with
      | error e =>
        rw [hsa] at h2
        simp only [DeRefines] at h2 ⊢
        simp only [h2]
      | ok r =>
        obtain ⟨vs, used⟩ := r
        rw [hsa] at h2
        simp only [DeRefines] at h2 ⊢
        obtain ⟨off', h3, h4⟩ := h2
        simp only [h3]
        exact ⟨off', rfl, h4⟩
    | _ => simp [hasTy] at hp
  · -- variable array
    intro t c ih
    refine ⟨?_, deFnOKX_noncomposite o hs hcl rfl⟩
    intro hw hwC prior d data off hp hwf hd hal
    simp only [wf, Bool.and_eq_true, decide_eq_true_eq] at hw
    simp only [wfC] at hwC
    simp only [align] at hal
    have hp' := GenC.prefixBits_cases c
    cases prior with
    | arr ps =>
      simp only [deAny, deBits, deUint_spec (prefixBits c) data off (by omega) hwf, List.drop_drop, hcl, if_true]
      generalize readNat (prefixBits c) ((bitsOf data data.length).drop off) = k
      by_cases hk : k > c
      · simp [hk, DeRefines, embedD]
      · simp only [hk, if_false]
        rw [assertX_ok o (fun ho => hs.aligned (adm_add hd (adm_single (prefixBits c))) ho)]
        have h2 := deLoop_refines o hs hcl t ih.1 hw.2 hwC data hwf d (resBits (.varr t c)) (off + prefixBits c) c
          (adm_congr (by omega) hd) (fun x hx => by simpa [resBits] using adm_rangeRep_zero hx) k
          (off + prefixBits c) (off + prefixBits c) 0 0 (Rel.refl _ _) rfl (sums_zero _ _) (by omega)
          (by rcases align_cases t with e | e <;> rw [e] at hal ⊢ <;> omega)
        cases hsa : deAllWith (deBits t) k ((bitsOf data data.length).drop (off + prefixBits c)) with
        | error e =>
          rw [hsa] at h2
          simp only [DeRefines] at h2 ⊢
          simp only [h2]
        | ok r =>
          obtain ⟨vs, used⟩ := r
          rw [hsa] at h2
          simp only [DeRefines] at h2 ⊢
          obtain ⟨off', h3, h4⟩ := h2
          simp only [h3, List.nil_append]
          exact ⟨off', rfl, by rw [← Nat.add_assoc]; exact h4⟩
    | _ => simp [hasTy] at hp
  · exact fun fs ih => deP_struct o hs hcl fs ih
  · exact fun fs ih => deP_union o hs hcl fs ih
  · -- delimited
    intro ext inner ih
    refine ⟨?_, deFnOKX_noncomposite o hs hcl rfl⟩
    intro hw hwC prior d data off hp hwf hd hal
    simp only [wf, Bool.and_eq_true, decide_eq_true_eq] at hw
    simp only [wfC] at hwC
    obtain ⟨⟨hcomp, _⟩, hwi⟩ := hw
    have hpi : hasTy inner prior = true := by simpa [hasTy] using hp
    have e : deAny o (.delim ext inner) prior d data off = nestedDe o (deFn o inner prior) true data off := by
      cases prior <;> simp only [deAny]
    rw [e]
    simp only [align] at hal
    exact nestedDe_delim o _ inner (ih.2 hwi hwC hcomp prior hpi) ext data off hwf hal

/-! ### the generated deserializer, top level -/

theorem deserializeCpp_eq (t : Ty) (prior : Val) (buf : Buf) :
    deserializeCpp o t prior buf = deFn o (topInner t) prior buf 0 := by
  unfold deserializeCpp
  cases t <;> first | rfl | (cases prior <;> rfl)

/-- (d) the generated deserializer returns exactly the specified object, consumed size and error, whatever the
destination object held before. -/
theorem deserializeCpp_refines (t : Ty) (hw : wf t = true) (hwC : wfC t = true) (hc : isComposite (topInner t) = true)
    (prior : Val) (hp : hasTy t prior = true) (buf : Buf) (hwf : WF buf) :
    deserializeCpp o t prior buf = (deBytes t buf).mapError embedD := by
  rw [deserializeCpp_eq o hs hcl]
  have hf := (deP o hs hcl (topInner t)).2 (wf_topInner hw) (wfC_topInner hwC) hc prior (hasTy_topInner hp) buf hwf
  rw [bitsOf_full] at hf
  have hlen : (unpackBytes buf).length = 8 * buf.length := unpackBytes_length buf
  simp only [deBytes, deTop, hlen]
  cases hsp : deBits (topInner t) (unpackBytes buf) with
  | error e =>
    rw [hsp] at hf
    simp only [hf]; rfl
  | ok r =>
    obtain ⟨v, used⟩ := r
    rw [hsp] at hf
    have h8 := used_mod8 (wf_topInner hw) (align_of_isComposite hc) _ v used hsp
    simp only [hf, Except.mapError]
    congr 2
    omega

end

end NunavutVerif.GenCpp
