import NunavutVerif.Model.Config
/-!
Helper lemmas for C13 (value level): association-list facts, the one-step laws of `assign`, `step` and
`mergeInto`, the path laws, idempotence, extensional congruence.
-/
namespace NunavutVerif.Config

variable {κ σ : Type} [DecidableEq κ]

namespace M

theorem get_set : ∀ (m : M κ σ) (k k' : κ) (v : V κ σ),
    (m.set k v).get k' = if k = k' then some v else m.get k'
  | .nil, k, k', v => by simp [set, get]
  | .cons k0 v0 rest, k, k', v => by
    have ih := get_set rest k k' v
    by_cases h : k0 = k <;> by_cases hk : k0 = k' <;> simp_all [set, get]
    · intro h'; exact absurd h'.symm h

theorem get_set_self (m : M κ σ) (k : κ) (v : V κ σ) : (m.set k v).get k = some v := by
  simp [get_set]

theorem get_set_ne (m : M κ σ) {k k' : κ} (v : V κ σ) (h : k ≠ k') : (m.set k v).get k' = m.get k' := by
  simp [get_set, h]

theorem set_same : ∀ (m : M κ σ) (k : κ) (v : V κ σ), m.get k = some v → m.set k v = m
  | .nil, k, v, h => by simp [get] at h
  | .cons k0 v0 rest, k, v, h => by
    by_cases hk : k0 = k
    · simp_all [set, get]
    · have := set_same rest k v (by simpa [get, hk] using h)
      simp [set, hk, this]

end M

/-! ### one entry of the source -/

theorem mergeInto_nil (t : M κ σ) : mergeInto t .nil = t := by simp [mergeInto]

theorem mergeInto_cons (t : M κ σ) (k : κ) (v : V κ σ) (rest : M κ σ) :
    mergeInto t (.cons k v rest) = mergeInto (step t k v) rest := by
  cases v with
  | map sm =>
    simp only [mergeInto, step, deepUpdate]
    congr 2
    cases h : t.get k with
    | none => simp [Option.getD]
    | some tv => cases tv <;> simp [Option.getD]
  | scalar s => simp [mergeInto, step]
  | dflt s => simp [mergeInto, step]
  | list xs => simp [mergeInto, step]

theorem get_assign (t : M κ σ) (k k' : κ) (v : V κ σ) (hv : v.isMap = false) :
    (assign t k v).get k' = if k = k' then combine (t.get k) (some v) else t.get k' := by
  unfold assign
  by_cases hk : k = k'
  · subst hk
    cases v with
    | map m => simp [V.isMap] at hv
    | scalar s => simp [combine, M.get_set]
    | list s => simp [combine, M.get_set]
    | dflt s =>
      cases h : t.get k with
      | none => simp [combine, M.get_set]
      | some tv => cases tv <;> simp [combine, M.get_set, h]
  · cases v with
    | map m => simp [V.isMap] at hv
    | scalar s => simp [M.get_set, hk]
    | list s => simp [M.get_set, hk]
    | dflt s =>
      cases h : t.get k with
      | none => simp [M.get_set, hk]
      | some tv => cases tv <;> simp [M.get_set, hk]

theorem get_step (t : M κ σ) (k k' : κ) (v : V κ σ) :
    (step t k v).get k' = if k = k' then combine (t.get k) (some v) else t.get k' := by
  cases v with
  | map sm =>
    simp only [step, M.get_set]
    by_cases hk : k = k'
    · subst hk
      cases h : t.get k with
      | none => simp [combine, deepUpdate]
      | some tv => cases tv <;> simp [combine, deepUpdate]
    · simp [hk]
  | scalar s => simpa [step] using get_assign t k k' (.scalar s) rfl
  | dflt s => simpa [step] using get_assign t k k' (.dflt s) rfl
  | list s => simpa [step] using get_assign t k k' (.list s) rfl

theorem combine_none_right (t : Option (V κ σ)) : combine t none = t := by simp [combine]

/-- **One-step lookup law** of `deep_update` (all keys of the source at once). -/
theorem get_mergeInto : ∀ (s t : M κ σ) (k : κ), s.NoDupKeys →
    (mergeInto t s).get k = combine (t.get k) (s.get k)
  | .nil, t, k, _ => by simp [mergeInto, M.get, combine]
  | .cons k0 v0 rest, t, k, h => by
    obtain ⟨h0, hr⟩ := h
    rw [mergeInto_cons, get_mergeInto rest (step t k0 v0) k hr, get_step]
    by_cases hk : k0 = k
    · subst hk; simp [M.get, h0, combine_none_right]
    · simp [M.get, hk]

theorem WF.noDup : ∀ {m : M κ σ}, m.WF → m.NoDupKeys
  | .nil, _ => trivial
  | .cons _ _ rest, h => by
    simp only [M.WF] at h
    exact ⟨h.1, WF.noDup h.2.2⟩


/-! ### well-formedness is preserved -/

theorem WF.get : ∀ {m : M κ σ} {k : κ} {v : V κ σ}, m.WF → m.get k = some v → v.WF
  | .nil, _, _, _, h => by simp [M.get] at h
  | .cons k0 v0 rest, k, v, hw, h => by
    simp only [M.WF] at hw
    by_cases hk : k0 = k
    · simp [M.get, hk] at h; subst h; exact hw.2.1
    · simp [M.get, hk] at h; exact WF.get hw.2.2 h

theorem WF.set : ∀ {m : M κ σ} (k : κ) {v : V κ σ}, m.WF → v.WF → (m.set k v).WF
  | .nil, k, v, _, hv => by simp [M.set, M.WF, M.get, hv]
  | .cons k0 v0 rest, k, v, hw, hv => by
    simp only [M.WF] at hw
    by_cases hk : k0 = k
    · simp [M.set, hk, M.WF, hv, hw.2.2]; subst hk; exact hw.1
    · simp only [M.set, hk, if_false, M.WF]
      refine ⟨?_, hw.2.1, WF.set k hw.2.2 hv⟩
      rw [M.get_set_ne _ _ (Ne.symm hk)]; exact hw.1

theorem WF.assign {t : M κ σ} (k : κ) {v : V κ σ} (ht : t.WF) (hv : v.WF) : (assign t k v).WF := by
  unfold Config.assign
  split <;> first | exact WF.set k ht hv | exact ht

theorem WF.mergeInto : ∀ (s : M κ σ) {t : M κ σ}, t.WF → s.WF → (mergeInto t s).WF
  | .nil, t, ht, _ => by simpa [Config.mergeInto] using ht
  | .cons k v rest, t, ht, hs => by
    simp only [M.WF] at hs
    rw [mergeInto_cons]
    refine WF.mergeInto rest ?_ hs.2.2
    cases v with
    | map sm =>
      have hsm : sm.WF := by simpa [V.WF] using hs.2.1
      simp only [step]
      refine WF.set k ht ?_
      cases h : t.get k with
      | none => simpa [deepUpdate, V.WF] using WF.mergeInto sm (t := .nil) (by simp [M.WF]) hsm
      | some tv =>
        cases tv with
        | map t2 =>
          have : t2.WF := by simpa [V.WF] using WF.get ht h
          simpa [deepUpdate, V.WF] using WF.mergeInto sm this hsm
        | scalar _ => simpa [deepUpdate, V.WF] using hsm
        | dflt _ => simpa [deepUpdate, V.WF] using hsm
        | list _ => simpa [deepUpdate, V.WF] using hsm
    | scalar x => exact WF.assign k (v := .scalar x) ht (by simp [V.WF])
    | dflt x => exact WF.assign k (v := .dflt x) ht (by simp [V.WF])
    | list x => exact WF.assign k (v := .list x) ht (by simp [V.WF])

/-! ### paths -/

theorem getPath_nil (v : V κ σ) : v.getPath [] = some v := by
  cases v <;> simp [V.getPath]

theorem getPath_map_cons (m : M κ σ) (k : κ) (p : List κ) :
    (V.map m).getPath (k :: p) = (m.get k).bind (fun v => v.getPath p) := by
  cases h : m.get k <;> simp [V.getPath, h]

theorem getPath_nonmap_cons (v : V κ σ) (hv : v.isMap = false) (k : κ) (p : List κ) :
    v.getPath (k :: p) = none := by
  cases v with
  | map m => simp [V.isMap] at hv
  | _ => simp [V.getPath]

/-- Under `compat` the source holds nothing or a leaf at the path. -/
theorem compat_leaf : ∀ (p : List κ) (s : M κ σ), compat s p = true →
    ∀ v, (V.map s).getPath p = some v → v.isLeaf = true
  | [], s, hc => by simp [compat] at hc
  | [k], s, hc => by
    intro v hv
    cases h : s.get k with
    | none => simp [getPath_map_cons, h] at hv
    | some sv =>
      simp [getPath_map_cons, h, getPath_nil] at hv
      subst hv; simpa [compat, h] using hc
  | k :: k' :: p, s, hc => by
    intro v hv
    cases h : s.get k with
    | none => simp [getPath_map_cons, h] at hv
    | some sv =>
      cases sv with
      | map sm =>
        have hc' : compat sm (k' :: p) = true := by simpa [compat, h] using hc
        simp only [getPath_map_cons s, h, Option.bind_some] at hv
        exact compat_leaf (k' :: p) sm hc' v hv
      | scalar x => simp [compat, h] at hc
      | dflt x => simp [compat, h] at hc
      | list x => simp [compat, h] at hc

theorem combine_none_left_leaf (x : Option (V κ σ)) (h : ∀ v, x = some v → v.isLeaf = true) :
    combine none x = x := by
  cases x with
  | none => rfl
  | some v =>
    have := h v rfl
    cases v <;> simp [combine] <;> simp [V.isLeaf] at this

/-- Single-source **path law**: where the source is shape-compatible with a leaf at `p`, the merged value
at `p` is `combine` of what target and source hold at `p`. -/
theorem getPath_mergeInto_compat : ∀ (p : List κ) (s t : M κ σ), s.WF → compat s p = true →
    (V.map (mergeInto t s)).getPath p = combine ((V.map t).getPath p) ((V.map s).getPath p)
  | [], s, t, _, hc => by simp [compat] at hc
  | [k], s, t, hw, hc => by
    simp only [getPath_map_cons, get_mergeInto s t k (WF.noDup hw)]
    cases h : s.get k with
    | none => simp [combine]
    | some sv =>
      have hl : sv.isLeaf = true := by simpa [compat, h] using hc
      cases ht : t.get k with
      | none => cases sv <;> simp [combine, getPath_nil] <;> simp [V.isLeaf] at hl
      | some tv => cases sv <;> cases tv <;> simp [combine, getPath_nil] <;> simp [V.isLeaf] at hl
  | k :: k' :: p, s, t, hw, hc => by
    simp only [getPath_map_cons, get_mergeInto s t k (WF.noDup hw)]
    cases h : s.get k with
    | none => simp [combine]
    | some sv =>
      cases sv with
      | map sm =>
        have hc' : compat sm (k' :: p) = true := by simpa [compat, h] using hc
        have hsm : sm.WF := by simpa [V.WF] using WF.get hw h
        cases ht : t.get k with
        | none =>
          have := getPath_mergeInto_compat (k' :: p) sm .nil hsm hc'
          simp only [combine, Option.bind_some, Option.bind_none, this]
          simp [getPath_map_cons, M.get]
        | some tv =>
          cases tv with
          | map t2 =>
            simpa [combine] using getPath_mergeInto_compat (k' :: p) sm t2 hsm hc'
          | scalar x =>
            simp only [combine, Option.bind_some, getPath_nonmap_cons (V.scalar x) rfl]
            -- a copy of the source map: its own value at the rest of the path, a leaf or absent
            exact (combine_none_left_leaf _ (compat_leaf (k' :: p) sm hc')).symm
          | dflt x =>
            simp only [combine, Option.bind_some, getPath_nonmap_cons (V.dflt x) rfl]
            exact (combine_none_left_leaf _ (compat_leaf (k' :: p) sm hc')).symm
          | list x =>
            simp only [combine, Option.bind_some, getPath_nonmap_cons (V.list x) rfl]
            exact (combine_none_left_leaf _ (compat_leaf (k' :: p) sm hc')).symm
      | scalar x => simp [compat, h] at hc
      | dflt x => simp [compat, h] at hc
      | list x => simp [compat, h] at hc


theorem unmentioned_compat : ∀ (p : List κ) (s : M κ σ), unmentioned s p = true →
    compat s p = true ∧ (V.map s).getPath p = none
  | [], s, h => by simp [unmentioned] at h
  | [k], s, h => by
    cases hg : s.get k with
    | none => simp [compat, hg, getPath_map_cons]
    | some sv => cases sv <;> simp [unmentioned, hg] at h
  | k :: k' :: p, s, h => by
    cases hg : s.get k with
    | none => simp [compat, hg, getPath_map_cons]
    | some sv =>
      cases sv with
      | map sm =>
        have h' : unmentioned sm (k' :: p) = true := by simpa [unmentioned, hg] using h
        have := unmentioned_compat (k' :: p) sm h'
        simp [compat, hg, getPath_map_cons s, this.1, this.2]
      | scalar x => simp [unmentioned, hg] at h
      | dflt x => simp [unmentioned, hg] at h
      | list x => simp [unmentioned, hg] at h

theorem compat_of_leaf : ∀ (p : List κ) (s : M κ σ) (l : V κ σ), p ≠ [] →
    (V.map s).getPath p = some l → l.isLeaf = true → compat s p = true
  | [], _, _, hp, _, _ => absurd rfl hp
  | [k], s, l, _, h, hl => by
    cases hg : s.get k with
    | none => simp [compat, hg]
    | some sv =>
      simp [getPath_map_cons, hg, getPath_nil] at h
      subst h; simpa [compat, hg] using hl
  | k :: k' :: p, s, l, _, h, hl => by
    cases hg : s.get k with
    | none => simp [compat, hg]
    | some sv =>
      cases sv with
      | map sm =>
        simp only [getPath_map_cons s, hg, Option.bind_some] at h
        simpa [compat, hg] using compat_of_leaf (k' :: p) sm l (by simp) h hl
      | scalar x => simp [getPath_map_cons s, hg, getPath_nonmap_cons (V.scalar x) rfl] at h
      | dflt x => simp [getPath_map_cons s, hg, getPath_nonmap_cons (V.dflt x) rfl] at h
      | list x => simp [getPath_map_cons s, hg, getPath_nonmap_cons (V.list x) rfl] at h

/-! ### `pick`: the precedence rule as a function of the list of source values -/

omit [DecidableEq κ] in
theorem pick_nil : pick ([] : List (Option (V κ σ))) = none := by simp [pick]

omit [DecidableEq κ] in
theorem pick_result (xs : List (Option (V κ σ))) :
    pick xs = none ∨ ∃ v, pick xs = some v ∧ (v.isExplicitLeaf = true ∨ v.isDflt = true) := by
  unfold pick
  cases h : (xs.filterMap id).reverse.find? V.isExplicitLeaf with
  | some v => exact .inr ⟨v, rfl, .inl (List.find?_some h)⟩
  | none =>
    cases h2 : (xs.filterMap id).reverse.find? V.isDflt with
    | none => exact .inl rfl
    | some v => exact .inr ⟨v, rfl, .inr (List.find?_some h2)⟩

theorem pick_snoc (xs : List (Option (V κ σ))) (x : Option (V κ σ))
    (hx : ∀ v, x = some v → v.isLeaf = true) : pick (xs ++ [x]) = combine (pick xs) x := by
  cases x with
  | none => simp [pick, combine]
  | some v =>
    have hl := hx v rfl
    unfold pick
    simp only [List.filterMap_append, List.filterMap_cons, id, List.filterMap_nil, List.reverse_append,
      List.reverse_cons, List.reverse_nil, List.nil_append, List.cons_append, List.find?_cons]
    cases v with
    | map m => simp [V.isLeaf] at hl
    | scalar a => simp [combine, V.isExplicitLeaf]
    | list a => simp [combine, V.isExplicitLeaf]
    | dflt a =>
      simp only [V.isExplicitLeaf, V.isDflt]
      cases h1 : (xs.filterMap id).reverse.find? V.isExplicitLeaf with
      | some w =>
        have hw := List.find?_some h1
        cases w <;> simp [combine] <;> simp [V.isExplicitLeaf] at hw
      | none =>
        cases h2 : (xs.filterMap id).reverse.find? V.isDflt with
        | none => simp [combine]
        | some w =>
          have hw := List.find?_some h2
          cases w <;> simp [combine] <;> simp [V.isDflt] at hw

/-- Fold form of the path law: any number of shape-compatible sources. -/
theorem getPath_foldl_compat (p : List κ) (ss : List (M κ σ)) (t : M κ σ)
    (hw : ∀ s ∈ ss, s.WF) (hc : ∀ s ∈ ss, compat s p = true) :
    (V.map (ss.foldl mergeInto t)).getPath p =
      (ss.map fun s => (V.map s).getPath p).foldl combine ((V.map t).getPath p) := by
  induction ss generalizing t with
  | nil => rfl
  | cons s ss ih =>
    simp only [List.foldl_cons, List.map_cons]
    rw [ih (mergeInto t s) (fun s' h => hw s' (List.mem_cons_of_mem _ h))
      (fun s' h => hc s' (List.mem_cons_of_mem _ h))]
    rw [getPath_mergeInto_compat p s t (hw s List.mem_cons_self) (hc s List.mem_cons_self)]

theorem foldl_combine_pick (xs : List (Option (V κ σ))) (ys : List (Option (V κ σ)))
    (hy : ∀ y ∈ ys, ∀ v, y = some v → v.isLeaf = true) :
    ys.foldl combine (pick xs) = pick (xs ++ ys) := by
  induction ys generalizing xs with
  | nil => simp
  | cons y ys ih =>
    simp only [List.foldl_cons]
    rw [← pick_snoc xs y (hy y List.mem_cons_self), ih (xs ++ [y]) (fun y' h => hy y' (List.mem_cons_of_mem _ h))]
    simp


/-! ### merging into an empty / disjoint target reproduces the source; idempotence -/

def M.append : M κ σ → M κ σ → M κ σ
  | .nil, b => b
  | .cons k v rest, b => .cons k v (M.append rest b)

omit [DecidableEq κ] in
theorem M.append_nil : ∀ (a : M κ σ), a.append .nil = a
  | .nil => rfl
  | .cons k v rest => by simp [M.append, M.append_nil rest]

omit [DecidableEq κ] in
theorem M.append_assoc : ∀ (a b c : M κ σ), (a.append b).append c = a.append (b.append c)
  | .nil, _, _ => rfl
  | .cons k v rest, b, c => by simp [M.append, M.append_assoc rest b c]

theorem M.get_append : ∀ (a b : M κ σ) (k : κ),
    (a.append b).get k = match a.get k with | some v => some v | none => b.get k
  | .nil, b, k => by simp [M.append, M.get]
  | .cons k0 v0 rest, b, k => by
    by_cases hk : k0 = k
    · simp [M.append, M.get, hk]
    · simp [M.append, M.get, hk, M.get_append rest b k]

theorem M.set_absent : ∀ (t : M κ σ) (k : κ) (v : V κ σ), t.get k = none →
    t.set k v = t.append (.cons k v .nil)
  | .nil, k, v, _ => rfl
  | .cons k0 v0 rest, k, v, h => by
    by_cases hk : k0 = k
    · simp [M.get, hk] at h
    · simp [M.get, hk] at h
      simp [M.set, hk, M.append, M.set_absent rest k v h]

/-- Merging into a target that has none of the source's keys appends the source (as a value: a copy). -/
theorem mergeInto_disjoint : ∀ (s t : M κ σ), s.WF → (∀ k v, s.get k = some v → t.get k = none) →
    mergeInto t s = t.append s
  | .nil, t, _, _ => by simp [mergeInto, M.append_nil]
  | .cons k v rest, t, hw, hd => by
    simp only [M.WF] at hw
    have htk : t.get k = none := hd k v (by simp [M.get])
    have hstep : step t k v = t.append (.cons k v .nil) := by
      cases v with
      | map sm =>
        have hsm : sm.WF := by simpa [V.WF] using hw.2.1
        have := mergeInto_disjoint sm .nil hsm (by intro k v _; simp [M.get])
        simp only [M.append] at this
        simp [step, htk, deepUpdate, this, M.set_absent]
      | scalar x => simp [step, assign, htk, M.set_absent]
      | dflt x => simp [step, assign, htk, M.set_absent]
      | list x => simp [step, assign, htk, M.set_absent]
    rw [mergeInto_cons, hstep, mergeInto_disjoint rest _ hw.2.2, M.append_assoc]
    · simp [M.append]
    · intro k' v' hk'
      have hne : k ≠ k' := by
        intro h; subst h; rw [hw.1] at hk'; cases hk'
      have : t.get k' = none := hd k' v' (by simp [M.get, hne, hk'])
      simp [M.get_append, this, M.get, hne]

theorem mergeInto_nil_left (s : M κ σ) (hw : s.WF) : mergeInto .nil s = s := by
  have := mergeInto_disjoint s .nil hw (by intro k v _; simp [M.get])
  simpa [M.append] using this

/-- `deep_update` is idempotent in its source (what makes a second `create()` harmless). -/
theorem mergeInto_idem : ∀ (s t : M κ σ), s.WF → mergeInto (mergeInto t s) s = mergeInto t s
  | .nil, t, _ => by simp [mergeInto]
  | .cons k v rest, t, hw => by
    have hw' := hw
    simp only [M.WF] at hw
    have hnd : rest.NoDupKeys := WF.noDup hw.2.2
    rw [mergeInto_cons t, mergeInto_cons]
    have hU : (mergeInto (step t k v) rest).get k = combine (t.get k) (some v) := by
      rw [get_mergeInto rest _ k hnd, hw.1, combine_none_right, get_step]; simp
    have hfix : step (mergeInto (step t k v) rest) k v = mergeInto (step t k v) rest := by
      generalize mergeInto (step t k v) rest = U at hU ⊢
      cases v with
      | scalar x => exact M.set_same U k _ (by simpa [combine] using hU)
      | list x => exact M.set_same U k _ (by simpa [combine] using hU)
      | dflt x =>
        cases ht : t.get k with
        | none =>
          have : U.get k = some (.dflt x) := by simpa [combine, ht] using hU
          simp [step, assign, this, M.set_same U k _ this]
        | some tv =>
          cases tv with
          | dflt y =>
            have : U.get k = some (.dflt x) := by simpa [combine, ht] using hU
            simp [step, assign, this, M.set_same U k _ this]
          | scalar y =>
            have : U.get k = some (.scalar y) := by simpa [combine, ht] using hU
            simp [step, assign, this]
          | list y =>
            have : U.get k = some (.list y) := by simpa [combine, ht] using hU
            simp [step, assign, this]
          | map y =>
            have : U.get k = some (.map y) := by simpa [combine, ht] using hU
            simp [step, assign, this]
      | map sm =>
        have hsm : sm.WF := by simpa [V.WF] using hw.2.1
        have key : ∀ X, U.get k = some (.map X) → mergeInto X sm = X → step U k (.map sm) = U := by
          intro X hX hXX
          simp only [step, hX, Option.getD_some, deepUpdate, hXX]
          exact M.set_same U k _ hX
        cases ht : t.get k with
        | none =>
          exact key _ (by simpa [combine, ht] using hU) (mergeInto_idem sm .nil hsm)
        | some tv =>
          cases tv with
          | map t2 => exact key _ (by simpa [combine, ht] using hU) (mergeInto_idem sm t2 hsm)
          | scalar y =>
            refine key sm (by simpa [combine, ht] using hU) ?_
            have := mergeInto_idem sm .nil hsm
            rwa [mergeInto_nil_left sm hsm] at this
          | dflt y =>
            refine key sm (by simpa [combine, ht] using hU) ?_
            have := mergeInto_idem sm .nil hsm
            rwa [mergeInto_nil_left sm hsm] at this
          | list y =>
            refine key sm (by simpa [combine, ht] using hU) ?_
            have := mergeInto_idem sm .nil hsm
            rwa [mergeInto_nil_left sm hsm] at this
    rw [hfix]
    exact mergeInto_idem rest _ hw.2.2


/-! ### extensional equality is a congruence for the merge (key order is unobservable) -/

/-- `ExtEq` lifted to optional values (`none` = absent key). -/
def OExt (a b : Option (V κ σ)) : Prop :=
  ∀ p : List κ, obs (a.bind fun v => v.getPath p) = obs (b.bind fun v => v.getPath p)

theorem OExt.refl (a : Option (V κ σ)) : OExt a a := fun _ => rfl

theorem ExtEq.get {t t' : M κ σ} (h : ExtEq (V.map t) (V.map t')) (k : κ) : OExt (t.get k) (t'.get k) := by
  intro p
  have := h (k :: p)
  simpa [getPath_map_cons] using this

theorem OExt.head {a b : Option (V κ σ)} (h : OExt a b) : obs a = obs b := by
  have := h []
  cases a <;> cases b <;> simp_all [getPath_nil]

theorem OExt.some_map {m m' : M κ σ} (h : OExt (some (V.map m)) (some (V.map m'))) :
    ExtEq (V.map m) (V.map m') := by
  intro p; simpa using h p

theorem ExtEq.oext {v w : V κ σ} (h : ExtEq v w) : OExt (some v) (some w) := by
  intro p; simpa using h p

theorem size_get : ∀ {m : M κ σ} {k : κ} {v : V κ σ}, m.get k = some v → v.size < m.size + 1
  | .nil, _, _, h => by simp [M.get] at h
  | .cons k0 v0 rest, k, v, h => by
    by_cases hk : k0 = k
    · simp [M.get, hk] at h; subst h; simp [M.size]; omega
    · simp [M.get, hk] at h
      have := size_get h
      simp [M.size]; omega

theorem ExtEq.map_of_get {m m' : M κ σ} (h : ∀ k, OExt (m.get k) (m'.get k)) :
    ExtEq (V.map m) (V.map m') := by
  intro p
  cases p with
  | nil => simp [getPath_nil, obs]
  | cons k p => simpa [getPath_map_cons] using h k p

theorem mergeInto_ext : ∀ (n : Nat) (s s' t t' : M κ σ), s.size ≤ n → s.WF → s'.WF →
    ExtEq (V.map s) (V.map s') → ExtEq (V.map t) (V.map t') →
    ExtEq (V.map (mergeInto t s)) (V.map (mergeInto t' s'))
  | n, s, s', t, t', hn, hw, hw', hs, ht => by
    apply ExtEq.map_of_get
    intro k
    rw [get_mergeInto s t k (WF.noDup hw), get_mergeInto s' t' k (WF.noDup hw')]
    have ha := ht.get k
    have hb := hs.get k
    have hah := ha.head
    have hbh := hb.head
    cases hsk : s.get k with
    | none =>
      rw [hsk] at hbh
      cases hsk' : s'.get k with
      | none => simpa [combine] using ha
      | some w => rw [hsk'] at hbh; cases w <;> simp [obs] at hbh
    | some sv =>
      rw [hsk] at hbh hb
      cases hsk' : s'.get k with
      | none => rw [hsk'] at hbh; cases sv <;> simp [obs] at hbh
      | some sv' =>
        rw [hsk'] at hbh hb
        cases sv with
        | scalar x =>
          cases sv' <;> simp [obs] at hbh
          subst hbh; simpa [combine] using OExt.refl _
        | list x =>
          cases sv' <;> simp [obs] at hbh
          subst hbh; simpa [combine] using OExt.refl _
        | dflt x =>
          cases sv' <;> simp [obs] at hbh
          subst hbh
          cases hta : t.get k with
          | none =>
            rw [hta] at hah
            cases hta' : t'.get k with
            | none => simpa [combine] using OExt.refl _
            | some w => rw [hta'] at hah; cases w <;> simp [obs] at hah
          | some tv =>
            rw [hta] at hah ha
            cases hta' : t'.get k with
            | none => rw [hta'] at hah; cases tv <;> simp [obs] at hah
            | some tv' =>
              rw [hta'] at hah ha
              cases tv <;> cases tv' <;> simp [obs] at hah <;>
                first
                | (simpa [combine] using ha)
                | (simpa [combine] using OExt.refl _)
        | map sm =>
          cases sv' with
          | map sm' =>
            have hsm : sm.WF := by simpa [V.WF] using WF.get hw hsk
            have hsm' : sm'.WF := by simpa [V.WF] using WF.get hw' hsk'
            have hss : ExtEq (V.map sm) (V.map sm') := hb.some_map
            have hlt : sm.size + 1 < s.size + 1 := by simpa [V.size] using size_get hsk
            match n, hn with
            | 0, hn => omega
            | n + 1, hn =>
            have hsz : sm.size ≤ n := by omega
            cases hta : t.get k with
            | none =>
              rw [hta] at hah
              cases hta' : t'.get k with
              | none =>
                simpa [combine] using
                  (mergeInto_ext n sm sm' .nil .nil hsz hsm hsm' hss (fun _ => rfl)).oext
              | some w => rw [hta'] at hah; cases w <;> simp [obs] at hah
            | some tv =>
              rw [hta] at hah ha
              cases hta' : t'.get k with
              | none => rw [hta'] at hah; cases tv <;> simp [obs] at hah
              | some tv' =>
                rw [hta'] at hah ha
                cases tv with
                | map t2 =>
                  cases tv' with
                  | map t2' =>
                    simpa [combine] using
                      (mergeInto_ext n sm sm' t2 t2' hsz hsm hsm' hss ha.some_map).oext
                  | scalar _ => simp [obs] at hah
                  | dflt _ => simp [obs] at hah
                  | list _ => simp [obs] at hah
                | scalar _ => cases tv' <;> simp [obs] at hah <;> simpa [combine] using hss.oext
                | dflt _ => cases tv' <;> simp [obs] at hah <;> simpa [combine] using hss.oext
                | list _ => cases tv' <;> simp [obs] at hah <;> simpa [combine] using hss.oext
          | scalar _ => simp [obs] at hbh
          | dflt _ => simp [obs] at hbh
          | list _ => simp [obs] at hbh


/-! ### permuting the entries of a mapping does not change any lookup -/

def lget : List (κ × V κ σ) → κ → Option (V κ σ)
  | [], _ => none
  | (k', v) :: r, k => if k' = k then some v else lget r k

theorem get_toList : ∀ (m : M κ σ) (k : κ), m.get k = lget m.toList k
  | .nil, _ => rfl
  | .cons k0 v0 rest, k => by simp [M.get, M.toList, lget, get_toList rest k]

theorem lget_none : ∀ (l : List (κ × V κ σ)) (k : κ), lget l k = none ↔ k ∉ l.map Prod.fst
  | [], k => by simp [lget]
  | (k0, v0) :: r, k => by
    by_cases hk : k0 = k
    · simp [lget, hk]
    · have := lget_none r k
      simp only [lget, hk, if_false, this, List.map_cons, List.mem_cons, not_or]
      exact ⟨fun h => ⟨fun e => hk e.symm, h⟩, fun h => h.2⟩

theorem noDup_toList : ∀ (m : M κ σ), m.NoDupKeys ↔ (m.toList.map Prod.fst).Nodup
  | .nil => by simp [M.NoDupKeys, M.toList]
  | .cons k v rest => by
    simp [M.NoDupKeys, M.toList, noDup_toList rest, get_toList, lget_none]

theorem lget_perm {l l' : List (κ × V κ σ)} (h : l.Perm l') (k : κ) :
    (l.map Prod.fst).Nodup → lget l k = lget l' k := by
  induction h with
  | nil => intro _; rfl
  | cons x _ ih =>
    intro hn
    obtain ⟨k0, v0⟩ := x
    simp only [List.map_cons, List.nodup_cons] at hn
    simp [lget, ih hn.2]
  | swap x y l =>
    intro hn
    obtain ⟨kx, vx⟩ := x
    obtain ⟨ky, vy⟩ := y
    simp only [List.map_cons, List.nodup_cons, List.mem_cons, not_or] at hn
    have hne : ky ≠ kx := hn.1.1
    by_cases h1 : kx = k <;> by_cases h2 : ky = k <;> simp [lget, h1, h2]
    exact absurd (h2.trans h1.symm) hne
  | trans h1 _ ih1 ih2 =>
    intro hn
    rw [ih1 hn, ih2 ((h1.map Prod.fst).nodup_iff.mp hn)]

/-! ### `dict.update` (C++ shorthand groups) -/

theorem get_dictUpdate : ∀ (g o : M κ σ) (k : κ), g.NoDupKeys →
    (dictUpdate o g).get k = match g.get k with | some v => some v | none => o.get k
  | .nil, o, k, _ => by simp [dictUpdate, M.get]
  | .cons k0 v0 rest, o, k, h => by
    rw [dictUpdate, get_dictUpdate rest _ k h.2]
    by_cases hk : k0 = k
    · subst hk; simp [M.get, h.1, M.get_set]
    · simp [M.get, hk, M.get_set]

/-! ### builder: closed form of an op sequence -/

/-- Files merged in call order (everything else ignored). -/
def cfgOf (valid : κ → Bool) (c : M κ σ) : List (Op κ σ) → Except Err (M κ σ)
  | [] => .ok c
  | .addFile doc :: ops =>
    (match update valid c doc with
     | .ok c' => cfgOf valid c' ops
     | .error e => .error e)
  | _ :: ops => cfgOf valid c ops

/-- The pending overrides after the calls (only `setOverride` with a value matters). -/
def ovrOf (o : M κ σ) : List (Op κ σ) → M κ σ
  | [] => o
  | .setOverride k (some v) :: ops => ovrOf (o.set k v) ops
  | _ :: ops => ovrOf o ops

def langOf (d : κ) (l : Option κ) : List (Op κ σ) → Option κ
  | [] => l
  | .setLanguage none :: ops => langOf d (some d) ops
  | .setLanguage (some x) :: ops => langOf d (some x) ops
  | _ :: ops => langOf d l ops

theorem run_closed (valid : κ → Bool) (d : κ) : ∀ (ops : List (Op κ σ)) (b : Builder κ σ),
    Builder.run valid d b ops =
      match cfgOf valid b.config ops with
      | .ok c => .ok ⟨c, ovrOf b.overrides ops, langOf d b.lang ops⟩
      | .error e => .error e
  | [], b => by simp [Builder.run, cfgOf, ovrOf, langOf]
  | op :: ops, b => by
    cases op with
    | addFile doc =>
      simp only [Builder.run, Builder.apply, cfgOf]
      cases h : update valid b.config doc with
      | error e => simp
      | ok c => simp [run_closed valid d ops, ovrOf, langOf]
    | setOverride k v =>
      cases v with
      | none => simp [Builder.run, Builder.apply, cfgOf, ovrOf, langOf, run_closed valid d ops]
      | some v => simp [Builder.run, Builder.apply, cfgOf, ovrOf, langOf, run_closed valid d ops]
    | setLanguage l =>
      cases l with
      | none => simp [Builder.run, Builder.apply, cfgOf, ovrOf, langOf, run_closed valid d ops]
      | some l => simp [Builder.run, Builder.apply, cfgOf, ovrOf, langOf, run_closed valid d ops]

theorem cfgOf_filter (valid : κ → Bool) : ∀ (ops : List (Op κ σ)) (c : M κ σ),
    cfgOf valid c ops = cfgOf valid c (ops.filter Op.isFile)
  | [], c => rfl
  | op :: ops, c => by
    cases op with
    | addFile doc =>
      simp only [cfgOf, List.filter_cons, Op.isFile, if_true]
      cases update valid c doc with
      | error e => rfl
      | ok c' => exact cfgOf_filter valid ops c'
    | setOverride k v => simpa [cfgOf, Op.isFile] using cfgOf_filter valid ops c
    | setLanguage l => simpa [cfgOf, Op.isFile] using cfgOf_filter valid ops c

theorem ovrOf_filter : ∀ (ops : List (Op κ σ)) (o : M κ σ),
    ovrOf o ops = ovrOf o (ops.filter fun op => !op.isFile)
  | [], o => rfl
  | op :: ops, o => by
    cases op with
    | addFile doc => simpa [ovrOf, Op.isFile] using ovrOf_filter ops o
    | setOverride k v =>
      cases v with
      | none => simpa [ovrOf, Op.isFile] using ovrOf_filter ops o
      | some v => simpa [ovrOf, Op.isFile] using ovrOf_filter ops (o.set k v)
    | setLanguage l => simpa [ovrOf, Op.isFile] using ovrOf_filter ops o

omit [DecidableEq κ] in
theorem langOf_filter (d : κ) : ∀ (ops : List (Op κ σ)) (l : Option κ),
    langOf d l ops = langOf d l (ops.filter fun op => !op.isFile)
  | [], l => rfl
  | op :: ops, l => by
    cases op with
    | addFile doc => simpa [langOf, Op.isFile] using langOf_filter d ops l
    | setOverride k v => simpa [langOf, Op.isFile] using langOf_filter d ops l
    | setLanguage x =>
      cases x with
      | none => simpa [langOf, Op.isFile] using langOf_filter d ops (some d)
      | some x => simpa [langOf, Op.isFile] using langOf_filter d ops (some x)

theorem deepUpdate_idem (t : V κ σ) (s : M κ σ) (hw : s.WF) :
    deepUpdate (deepUpdate t s) s = deepUpdate t s := by
  have hself : mergeInto s s = s := by
    have := mergeInto_idem s .nil hw
    rwa [mergeInto_nil_left s hw] at this
  cases t with
  | map tm => simp [deepUpdate, mergeInto_idem s tm hw]
  | scalar x => simp [deepUpdate, hself]
  | dflt x => simp [deepUpdate, hself]
  | list x => simp [deepUpdate, hself]

end NunavutVerif.Config
