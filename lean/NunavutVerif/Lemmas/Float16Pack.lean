import NunavutVerif.Lemmas.Float16Mul
/-!
`pack` in arithmetic form: the bit operations of the C code as `/`, `%`, `+`; `pack` factors through the sign
and, for finite magnitudes, through the key `a / 4096` (the 19 bits above the 12 discarded mantissa bits).
-/
namespace NunavutVerif.Float16

theorem tb_hi (x i n : Nat) (hx : x < 2 ^ n) (hi : n ≤ i) : x.testBit i = false :=
  Nat.testBit_lt_two_pow (Nat.lt_of_lt_of_le hx (Nat.pow_le_pow_right (by omega) hi))

theorem and_mask12 (a : Nat) (ha : a < 4294967296) : a &&& 0xFFFFF000 = a / 4096 * 4096 := by
  have e1 : (0xFFFFF000 : Nat) = (2 ^ 20 - 1) <<< 12 := by decide
  have e2 : a / 4096 * 4096 = (a >>> 12) <<< 12 := by
    rw [Nat.shiftRight_eq_div_pow, Nat.shiftLeft_eq]
  rw [e1, e2]
  apply Nat.eq_of_testBit_eq
  intro i
  simp only [Nat.testBit_and, Nat.testBit_shiftLeft, Nat.testBit_shiftRight, Nat.testBit_two_pow_sub_one]
  by_cases h1 : 12 ≤ i
  · by_cases h2 : i < 32
    · have : i - 12 < 20 := by omega
      simp [h1, this]
    · have := tb_hi a i 32 ha (by omega)
      have h3 : 12 + (i - 12) = i := by omega
      simp [this, h3]
  · simp [h1]

theorem and_sign (x : Nat) (hx : x < 4294967296) : x &&& 0x80000000 = x / 2147483648 * 2147483648 := by
  have e1 : (0x80000000 : Nat) = 2 ^ 31 := by decide
  have e2 : x / 2147483648 * 2147483648 = (x >>> 31) <<< 31 := by
    rw [Nat.shiftRight_eq_div_pow, Nat.shiftLeft_eq]
  rw [e1, e2]
  apply Nat.eq_of_testBit_eq
  intro i
  simp only [Nat.testBit_and, Nat.testBit_shiftLeft, Nat.testBit_shiftRight, Nat.testBit_two_pow]
  by_cases h1 : 31 = i
  · subst h1; simp
  · by_cases h2 : 31 ≤ i
    · have := tb_hi x i 32 hx (by omega)
      have h3 : 31 + (i - 31) = i := by omega
      simp [this, h3]
    · simp [h1, h2]

theorem xor_sign (x : Nat) : x ^^^ (x / 2147483648 * 2147483648) = x % 2147483648 := by
  have e2 : x / 2147483648 * 2147483648 = (x >>> 31) <<< 31 := by
    rw [Nat.shiftRight_eq_div_pow, Nat.shiftLeft_eq]
  have e3 : x % 2147483648 = x % 2 ^ 31 := by rfl
  rw [e2, e3]
  apply Nat.eq_of_testBit_eq
  intro i
  simp only [Nat.testBit_xor, Nat.testBit_shiftLeft, Nat.testBit_shiftRight, Nat.testBit_mod_two_pow]
  by_cases h2 : 31 ≤ i
  · have h3 : 31 + (i - 31) = i := by omega
    have h4 : ¬ (i < 31) := by omega
    simp [h2, h3, h4]
  · have h4 : i < 31 := by omega
    simp [h2, h4]

theorem or_sign (o s : Nat) (ho : o < 32768) : o ||| s * 32768 = o + s * 32768 := by
  have := Nat.two_pow_add_eq_or_of_lt (i := 15) (b := o) (by simpa using ho) s
  rw [show (2:Nat)^15 = 32768 from by decide] at this
  rw [Nat.or_comm, Nat.mul_comm s, ← this]; omega

theorem clamp_le (r : Nat) : (if 2139095040 ≤ r then 2139095040 else r) ≤ 2139095040 := by
  split <;> omega

theorem f32round_le (P E : Nat) : f32round P E ≤ 2139095040 := by
  rw [f32round_eq]
  split
  · omega
  · exact clamp_le _

theorem f32mul_le (a b : Nat) : f32mul a b ≤ 2139095040 := by
  unfold f32mul; exact f32round_le _ _

/-- `pack` of a finite magnitude as a function of the key `t = a / 4096`. -/
def packKey (t : Nat) : Nat := min (f32mul (t * 4096) 0x07800000 + 4096) 0x0F800000 / 8192

/-- `pack` on the magnitude `a = x % 2^31`. -/
def packMag (a : Nat) : Nat :=
  if 0x7F800000 ≤ a then (if a % 8388608 = 0 then 0x7C00 else 0x7E00) else packKey (a / 4096)

theorem packKey_le (t : Nat) : packKey t ≤ 0x7C00 := by
  unfold packKey; omega

theorem packMag_lt (a : Nat) : packMag a < 32768 := by
  unfold packMag
  have := packKey_le (a / 4096)
  split
  · split <;> omega
  · omega

theorem pack_core (a c : Nat) (ha' : a < 2147483648) (hc : c ≤ 2139095040) :
    (if 2139095040 ≤ a then if a % 8388608 = 0 then if 2139095040 < a then 32767 else 31744 else 32256
      else (if 260046848 < (c + 4294967296 - 4294963200) % 4294967296 then 260046848
            else (c + 4294967296 - 4294963200) % 4294967296) / 2 ^ 13 % 65536)
      = if 2139095040 ≤ a then (if a % 8388608 = 0 then 31744 else 32256)
        else min (c + 4096) 260046848 / 8192 := by
  rw [show (2:Nat)^13 = 8192 from by decide]
  by_cases h1 : 2139095040 ≤ a
  · rw [if_pos h1, if_pos h1]
    by_cases h2 : a % 8388608 = 0
    · rw [if_pos h2, if_pos h2, if_neg (by omega)]
    · rw [if_neg h2, if_neg h2]
  · rw [if_neg h1, if_neg h1]
    have e : (c + 4294967296 - 4294963200) % 4294967296 = c + 4096 := by omega
    rw [e]
    by_cases h3 : 260046848 < c + 4096
    · rw [if_pos h3]; omega
    · rw [if_neg h3]; omega

theorem pack_eq (x : Nat) (hx : x < 4294967296) :
    pack x = packMag (x % 2147483648) + x / 2147483648 * 32768 := by
  have ha : x % 2147483648 < 4294967296 := by omega
  have hs : x / 2147483648 * 2147483648 / 2 ^ 16 % 65536 = x / 2147483648 * 32768 := by
    rw [show (2:Nat)^16 = 65536 from by decide]; omega
  have hm : x % 2147483648 &&& 0x7FFFFF = x % 2147483648 % 8388608 := by
    have := Nat.and_two_pow_sub_one_eq_mod (x % 2147483648) 23
    rw [show (2:Nat) ^ 23 - 1 = 0x7FFFFF from by decide, show (2:Nat)^23 = 8388608 from by decide] at this
    exact this
  have ha' : x % 2147483648 < 2147483648 := by omega
  have hc := f32mul_le (x % 2147483648 / 4096 * 4096) 0x07800000
  simp only [pack, and_sign x hx, xor_sign x, hs, and_mask12 _ ha, hm, cond_eq_ite, Nat.ble_eq, Nat.beq_eq,
    Nat.blt_eq, Nat.shiftRight_eq_div_pow]
  rw [pack_core _ _ ha' hc, or_sign _ _ ?_]
  · rfl
  · have := packMag_lt (x % 2147483648)
    exact this
end NunavutVerif.Float16
