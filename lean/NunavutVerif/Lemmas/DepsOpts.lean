import NunavutVerif.Lemmas.Deps
import NunavutVerif.Model.DepsOpts
/-! Helper lemmas for the option-map part of C06 (`Model/DepsOpts.lean`). -/
namespace NunavutVerif.Deps
open NunavutVerif.Namespace (Str)

/-- What `cppOptsOf` puts into the record. -/
theorem cppOptsOf_ok {m : OptMap} {a b c : Bool} {sup : List Str} {o : Opts} (h : cppOptsOf m a b c sup = .ok o) :
    o.omitSer = a ∧ o.useStd = b ∧ o.preferSys = c ∧ o.support = sup
    ∧ o.allocInc = optStr m "allocator_include" ∧ o.vlaInc = optStr m "variable_array_type_include"
    ∧ o.allocCtor = decide (optStr m "ctor_convention" ≠ lit "default") := by
  unfold cppOptsOf at h
  split at h
  · simp at h
  · simp only [Except.ok.injEq] at h
    subst h
    exact ⟨rfl, rfl, rfl, rfl, rfl, rfl, rfl⟩

/-- An option map that delivers its includes yields a record whose option-given includes are non-empty when needed. -/
theorem delivers_alloc {m : OptMap} {a b c : Bool} {sup : List Str} {o : Opts} (h : cppOptsOf m a b c sup = .ok o)
    (hd : mapDelivers m = true) : (o.allocCtor = true → o.allocInc ≠ []) ∧ o.vlaInc ≠ [] := by
  obtain ⟨_, _, _, _, ha, hv, hc⟩ := cppOptsOf_ok h
  simp only [mapDelivers, Bool.and_eq_true, Bool.or_eq_true, decide_eq_true_eq] at hd
  refine ⟨?_, ?_⟩
  · intro hct
    rw [hc] at hct
    simp only [decide_eq_true_eq] at hct
    rw [ha]
    rcases hd.1 with h1 | h1
    · exact absurd h1 hct
    · simpa using h1
  · rw [hv]; simpa using hd.2

/-- Whether the option map the command line alone yields for `--language-standard std` delivers its includes, and the
support header list of the C++ target is there. -/
def cliDelivers (std : Option String) : Bool :=
  match cliOptMap std, supportPathsOf NunavutVerif.Gen.SupportFiles.lang_cpp with
  | .ok m, .ok sup => mapDelivers m && !sup.isEmpty && (standardVersion (optStr m "std")).toBool
  | _, _ => false

theorem cliOpts_of_delivers {std : Option String} (h : cliDelivers std = true) (a b c : Bool) :
    ∃ m sup o, cliOptMap std = .ok m ∧ supportPathsOf NunavutVerif.Gen.SupportFiles.lang_cpp = .ok sup ∧ sup ≠ []
      ∧ mapDelivers m = true ∧ cppOptsOf m a b c sup = .ok o ∧ cliOpts std a b c = .ok o := by
  unfold cliDelivers at h
  split at h
  · rename_i m sup hm hs
    simp only [Bool.and_eq_true, Bool.not_eq_true', List.isEmpty_eq_false_iff] at h
    obtain ⟨⟨hd, hne⟩, hv⟩ := h
    have : ∃ v, standardVersion (optStr m "std") = .ok v := by
      cases hsv : standardVersion (optStr m "std") with
      | ok v => exact ⟨v, rfl⟩
      | error e => rw [hsv] at hv; simp [Except.toBool] at hv
    obtain ⟨v, hv'⟩ := this
    have hc : ∃ o, cppOptsOf m a b c sup = .ok o := by simp only [cppOptsOf, hv']; exact ⟨_, rfl⟩
    obtain ⟨o, hc⟩ := hc
    exact ⟨m, sup, o, hm, hs, hne, hd, hc, by simp only [cliOpts, hm, hs]; exact hc⟩
  · simp at h

end NunavutVerif.Deps
