import NunavutVerif.Lemmas.GenPyEnv
/-!
`FloatSound stdEnv`: the float operations of the driver's environment (IEEE round-to-nearest-even `narrowTo` as
`struct.pack`, `OverflowError` when a finite value rounds to infinity, comparisons on bit patterns) obey the laws the
refinement theorems assume of CPython:
* the emitted saturation text (`isfinite`, `x > max.0`, `x < -max.0`) followed by `_float_to_bytes` (pack, on
  `OverflowError` pack ±inf) is the specification's `narrow` in both cast modes — the facts needed are the behaviour of
  the rounding at the overflow threshold (`magNN_hi`, `magNN_lo`);
* a decoded (widened) finite value lies inside `±max`, so the generated setter accepts it.
The two binary formats are instances of one proof text (generated from a template; numerals differ).
-/
namespace NunavutVerif.GenPy
open NunavutVerif.Dsdl

theorem rne_ge (sig sh : Nat) : sig >>> sh ≤ rne sig sh := by
  unfold rne
  by_cases h : sh = 0
  · subst h; simp
  · simp only [h, if_false]; split <;> omega

theorem rne_le (sig sh : Nat) : rne sig sh ≤ sig >>> sh + 1 := by
  unfold rne
  by_cases h : sh = 0
  · subst h; simp
  · simp only [h, if_false]; split <;> omega

theorem rne_of_dvd (sig sh : Nat) (h : sig % 2 ^ sh = 0) : rne sig sh = sig >>> sh := by
  unfold rne
  by_cases h0 : sh = 0
  · subst h0; simp
  · have hh : 0 < 2 ^ (sh - 1) := Nat.pow_pos (by decide)
    simp only [h0, if_false, h]
    rw [if_neg (by omega)]

theorem shr_add_le (sig a b : Nat) : sig >>> (a + b) ≤ sig >>> a := by
  rw [Nat.shiftRight_add]; exact Nat.shiftRight_le _ _


/-- magnitude field computed by `narrowTo 5 10` for a finite binary64 with fields `e`, `f` -/
def mag16 (e f : Nat) : Nat :=
  let sig := if e = 0 then f else 2 ^ 52 + f
  let e1 := if e = 0 then 1 else e
  if e1 > 1008 then (e1 - 1008 - 1) <<< 10 + rne sig (52 - 10) else rne sig ((52 - 10) + (1008 + 1 - e1))

theorem mag16_hi (e f : Nat) (he : e < 2047) (hf : f < 2 ^ 52)
    (h : e * 2 ^ 52 + f > 0x40effc0000000000) : mag16 e f ≥ 31743 := by
  simp only [Nat.reducePow] at hf h
  have he0 : e ≠ 0 := by intro h0; subst h0; omega
  have hge : e ≥ 1038 := by omega
  simp only [mag16, he0, if_false, show e > 1008 by omega, if_true, Nat.shiftLeft_eq]
  have h1 := rne_ge (2 ^ 52 + f) (52 - 10)
  simp only [Nat.shiftRight_eq_div_pow, Nat.reducePow, Nat.reduceSub] at h1 ⊢
  by_cases h38 : e = 1038
  · subst h38
    have : (4503599627370496 + f) / 4398046511104 ≥ 2047 := by omega
    omega
  · have : (4503599627370496 + f) / 4398046511104 ≥ 1024 := by omega
    have : e ≥ 1038 + 1 := by omega
    clear h hf hge
    omega

theorem mag16_lo (e f : Nat) (he : e < 2047) (hf : f < 2 ^ 52)
    (h : e * 2 ^ 52 + f ≤ 0x40effc0000000000) : mag16 e f ≤ 31743 := by
  simp only [Nat.reducePow] at hf h
  have hle : e ≤ 1038 := by omega
  simp only [mag16, Nat.shiftLeft_eq]
  by_cases he0 : e = 0
  · subst he0
    simp only [if_true, show ¬ 1 > 1008 by omega, if_false, Nat.reduceSub, Nat.reduceAdd]
    have h1 := rne_le f (42 + 1008)
    have h2 := shr_add_le f 42 1008
    have h3 : f >>> 42 ≤ 1024 := by
      rw [Nat.shiftRight_eq_div_pow]; simp only [Nat.reducePow]; omega
    simp only [Nat.reduceAdd] at h1 h2
    clear h hf
    omega
  · simp only [he0, if_false]
    by_cases hbig : e > 1008
    · simp only [hbig, if_true]
      have h1 := rne_le (2 ^ 52 + f) (52 - 10)
      simp only [Nat.shiftRight_eq_div_pow, Nat.reducePow, Nat.reduceSub] at h1 ⊢
      by_cases h38 : e = 1038
      · subst h38
        by_cases hq : f / 4398046511104 = 1023
        · have hf0 : f % 4398046511104 = 0 := by omega
          have h2 := rne_of_dvd (2 ^ 52 + f) (52 - 10) (by
            simp only [Nat.reducePow, Nat.reduceSub]; omega)
          simp only [Nat.shiftRight_eq_div_pow, Nat.reducePow, Nat.reduceSub] at h2
          rw [h2]; omega
        · have : (4503599627370496 + f) / 4398046511104 ≤ 2047 - 1 := by omega
          omega
      · have : (4503599627370496 + f) / 4398046511104 ≤ 2047 := by omega
        have : e ≤ 1038 - 1 := by omega
        clear h hf hle
        omega
    · simp only [hbig, if_false]
      have h1 := rne_le (2 ^ 52 + f) ((52 - 10) + (1008 + 1 - e))
      have h2 := shr_add_le (2 ^ 52 + f) (52 - 10) (1008 + 1 - e)
      simp only [Nat.shiftRight_eq_div_pow, Nat.reducePow, Nat.reduceSub] at h1 h2 ⊢
      have : (4503599627370496 + f) / 4398046511104 ≤ 2047 := by omega
      omega

/-- magnitude field computed by `narrowTo 8 23` for a finite binary64 with fields `e`, `f` -/
def mag32 (e f : Nat) : Nat :=
  let sig := if e = 0 then f else 2 ^ 52 + f
  let e1 := if e = 0 then 1 else e
  if e1 > 896 then (e1 - 896 - 1) <<< 23 + rne sig (52 - 23) else rne sig ((52 - 23) + (896 + 1 - e1))

theorem mag32_hi (e f : Nat) (he : e < 2047) (hf : f < 2 ^ 52)
    (h : e * 2 ^ 52 + f > 0x47efffffe0000000) : mag32 e f ≥ 2139095039 := by
  simp only [Nat.reducePow] at hf h
  have he0 : e ≠ 0 := by intro h0; subst h0; omega
  have hge : e ≥ 1150 := by omega
  simp only [mag32, he0, if_false, show e > 896 by omega, if_true, Nat.shiftLeft_eq]
  have h1 := rne_ge (2 ^ 52 + f) (52 - 23)
  simp only [Nat.shiftRight_eq_div_pow, Nat.reducePow, Nat.reduceSub] at h1 ⊢
  by_cases h38 : e = 1150
  · subst h38
    have : (4503599627370496 + f) / 536870912 ≥ 16777215 := by omega
    omega
  · have : (4503599627370496 + f) / 536870912 ≥ 8388608 := by omega
    have : e ≥ 1150 + 1 := by omega
    clear h hf hge
    omega

theorem mag32_lo (e f : Nat) (he : e < 2047) (hf : f < 2 ^ 52)
    (h : e * 2 ^ 52 + f ≤ 0x47efffffe0000000) : mag32 e f ≤ 2139095039 := by
  simp only [Nat.reducePow] at hf h
  have hle : e ≤ 1150 := by omega
  simp only [mag32, Nat.shiftLeft_eq]
  by_cases he0 : e = 0
  · subst he0
    simp only [if_true, show ¬ 1 > 896 by omega, if_false, Nat.reduceSub, Nat.reduceAdd]
    have h1 := rne_le f (29 + 896)
    have h2 := shr_add_le f 29 896
    have h3 : f >>> 29 ≤ 8388608 := by
      rw [Nat.shiftRight_eq_div_pow]; simp only [Nat.reducePow]; omega
    simp only [Nat.reduceAdd] at h1 h2
    clear h hf
    omega
  · simp only [he0, if_false]
    by_cases hbig : e > 896
    · simp only [hbig, if_true]
      have h1 := rne_le (2 ^ 52 + f) (52 - 23)
      simp only [Nat.shiftRight_eq_div_pow, Nat.reducePow, Nat.reduceSub] at h1 ⊢
      by_cases h38 : e = 1150
      · subst h38
        by_cases hq : f / 536870912 = 8388607
        · have hf0 : f % 536870912 = 0 := by omega
          have h2 := rne_of_dvd (2 ^ 52 + f) (52 - 23) (by
            simp only [Nat.reducePow, Nat.reduceSub]; omega)
          simp only [Nat.shiftRight_eq_div_pow, Nat.reducePow, Nat.reduceSub] at h2
          rw [h2]; omega
        · have : (4503599627370496 + f) / 536870912 ≤ 16777215 - 1 := by omega
          omega
      · have : (4503599627370496 + f) / 536870912 ≤ 16777215 := by omega
        have : e ≤ 1150 - 1 := by omega
        clear h hf hle
        omega
    · simp only [hbig, if_false]
      have h1 := rne_le (2 ^ 52 + f) ((52 - 23) + (896 + 1 - e))
      have h2 := shr_add_le (2 ^ 52 + f) (52 - 23) (896 + 1 - e)
      simp only [Nat.shiftRight_eq_div_pow, Nat.reducePow, Nat.reduceSub] at h1 h2 ⊢
      have : (4503599627370496 + f) / 536870912 ≤ 16777215 := by omega
      omega


/-! ### comparisons of the driver's float model on finite arguments -/

theorem x_fields (x : Nat) (hx : x < 2 ^ 64) :
    ∃ s e f, (x >>> 63) % 2 = s ∧ (x >>> 52) % 2048 = e ∧ x % 2 ^ 52 = f ∧
      x = s * 2 ^ 63 + e * 2 ^ 52 + f ∧ s < 2 ∧ e < 2048 ∧ f < 2 ^ 52 := by
  refine ⟨_, _, _, rfl, rfl, rfl, ?_⟩
  simp only [Nat.shiftRight_eq_div_pow, Nat.reducePow] at *
  omega

theorem fgt64_pos (x L : Nat) (hfin : (x >>> 52) % 2048 ≠ 2047) (hLn : isNaN64 L = false)
    (hLz : isZero64 L = false) (hL : L < 2 ^ 63) :
    fgt64 x L = decide (x < 2 ^ 63 ∧ x > L) := by
  have hn : isNaN64 x = false := by simp [isNaN64, hfin]
  simp only [fgt64, hn, hLn, hLz, Bool.not_false, Bool.and_false, Bool.true_and, fkey, hL, if_true]
  by_cases h : x < 2 ^ 63
  · simp only [h, if_true, true_and]
    rw [decide_eq_decide]
    omega
  · simp only [h, if_false, false_and]
    simp only [decide_eq_false_iff_not, decide_false]
    omega

theorem fgt64_neg (x L : Nat) (hfin : (x >>> 52) % 2048 ≠ 2047) (hLn : isNaN64 (negOf L) = false)
    (hLz : isZero64 (negOf L) = false) (hL : L < 2 ^ 63) :
    fgt64 (negOf L) x = decide (2 ^ 63 ≤ x ∧ x - 2 ^ 63 > L) := by
  have hn : isNaN64 x = false := by simp [isNaN64, hfin]
  have hnl : ¬ negOf L < 2 ^ 63 := by unfold negOf; omega
  simp only [fgt64, hn, hLn, hLz, Bool.not_false, Bool.false_and, Bool.true_and, fkey, hnl, if_false]
  have e : negOf L - 2 ^ 63 = L := by unfold negOf; omega
  rw [e]
  by_cases h : x < 2 ^ 63
  · simp only [h, if_true]
    have : ¬ (2 ^ 63 ≤ x) := by omega
    simp only [this, false_and, decide_false, decide_eq_false_iff_not]
    omega
  · simp only [h, if_false]
    have : 2 ^ 63 ≤ x := by omega
    simp only [this, true_and]
    rw [decide_eq_decide]
    omega

/-! ### the finite branch of `narrowTo` -/

/-- the rounded magnitude (exponent and fraction fields, the hidden bit carried into the exponent) -/
def magOf (eb mb e f : Nat) : Nat :=
  let d := 1023 - (2 ^ (eb - 1) - 1)
  let sig := if e = 0 then f else 2 ^ 52 + f
  let e1 := if e = 0 then 1 else e
  if e1 > d then (e1 - d - 1) <<< mb + rne sig (52 - mb) else rne sig ((52 - mb) + (d + 1 - e1))

theorem narrowCore_fin_trunc (eb mb s e f : Nat) (he : e ≠ 2047) :
    narrowCore eb mb .trunc s e f =
      if magOf eb mb e f ≥ (2 ^ eb - 1) <<< mb then s <<< (eb + mb) + (2 ^ eb - 1) <<< mb
      else s <<< (eb + mb) + magOf eb mb e f := by
  simp only [narrowCore, he, if_false, magOf]
  rfl

theorem narrowCore_fin_sat (eb mb s e f : Nat) (he : e ≠ 2047) :
    narrowCore eb mb .sat s e f =
      if magOf eb mb e f ≥ (2 ^ eb - 1) <<< mb then s <<< (eb + mb) + ((2 ^ eb - 1) <<< mb - 1)
      else s <<< (eb + mb) + magOf eb mb e f := by
  simp only [narrowCore, he, if_false, magOf]
  rfl

/-! ### binary16 -/

theorem mag16_eq (e f : Nat) : magOf 5 10 e f = mag16 e f := by
  simp only [magOf, mag16, Nat.reducePow, Nat.reduceSub]

theorem core16_trunc (s e f : Nat) (he : e ≠ 2047) :
    narrowCore 5 10 .trunc s e f = s * 32768 + (if mag16 e f ≥ 31744 then 31744 else mag16 e f) := by
  rw [narrowCore_fin_trunc _ _ _ _ _ he, mag16_eq]
  simp only [Nat.shiftLeft_eq, Nat.reducePow, Nat.reduceSub, Nat.reduceAdd, Nat.reduceMul]
  split <;> rfl

theorem core16_sat (s e f : Nat) (he : e ≠ 2047) :
    narrowCore 5 10 .sat s e f = s * 32768 + (if mag16 e f ≥ 31744 then 31743 else mag16 e f) := by
  rw [narrowCore_fin_sat _ _ _ _ _ he, mag16_eq]
  simp only [Nat.shiftLeft_eq, Nat.reducePow, Nat.reduceSub, Nat.reduceAdd, Nat.reduceMul]
  split <;> rfl

theorem core16_nonfin (m : Cast) (s f : Nat) : narrowCore 5 10 m s 2047 f = narrowCore 5 10 .trunc s 2047 f := by
  simp only [narrowCore, if_true]

/-- `_float_to_bytes`: `struct.pack` with the `OverflowError` fallback is IEEE narrowing with overflow to ±inf -/
theorem toWire16 (y : Nat) (hy : y < 2 ^ 64) : floatToWire stdEnv 16 y = .ok (narrowTo 5 10 .trunc y) := by
  obtain ⟨s, e, f, hsd, hed, hfd, hyeq, hs, he, hf⟩ := x_fields y hy
  have hnar : ∀ z, narrow 16 .trunc z = narrowTo 5 10 .trunc z := fun z => by simp [narrow]
  simp only [floatToWire, stdEnv, pack64, hnar, isFinite64, isInfW, narrowTo_eq_core, hsd, hed, hfd]
  by_cases hfin : e = 2047
  · subst hfin; simp
  · have hne : (e != 2047) = true := by simp [hfin]
    simp only [core16_trunc s e f hfin, hne, Bool.true_and, Nat.reducePow]
    by_cases hm : mag16 e f ≥ 31744
    · simp only [hm, if_true]
      have hw : ((s * 32768 + 31744) % 32768 == 31744) = true := by simp
      simp only [hw, if_true]
      -- the value overflowed, so it is not zero and its sign decides the infinity that is packed instead
      have hM : e * 2 ^ 52 + f > 0x40effc0000000000 := by
        apply Classical.byContradiction
        intro hc
        have := mag16_lo e f (by omega) hf (by omega)
        omega
      have hfin' : (y >>> 52) % 2048 ≠ 2047 := by rw [hed]; exact hfin
      have hz : isZero64 y = false := by
        simp only [isZero64, Nat.reducePow] at *
        simp only [beq_eq_false_iff_ne, ne_eq]; omega
      have hgt : fgt64 y 0 = decide (s = 0) := by
        have hn : isNaN64 y = false := by simp [isNaN64, hfin']
        have hk0 : fkey 0 = 0 := by decide +kernel
        have hk : (fkey y > fkey 0) ↔ s = 0 := by
          rw [hk0]; unfold fkey
          split <;> (simp only [Nat.reducePow] at *; omega)
        simp only [fgt64, hn, hz, show isNaN64 0 = false by decide +kernel, Bool.not_false, Bool.false_and,
          Bool.true_and]
        exact decide_eq_decide.mpr hk
      simp only [hgt]
      by_cases hs0 : s = 0
      · simp only [hs0, decide_true, if_true, Nat.zero_mul, Nat.zero_add]
        simp [infPat]
        decide +kernel
      · have hs1 : s = 1 := by omega
        simp only [hs1, show decide (1 = 0) = false by decide, Bool.false_eq_true, if_false, Nat.one_mul]
        simp [infPat, negOf]
        decide +kernel
    · simp only [hm, if_false]
      have hlt : mag16 e f < 31744 := by omega
      have hw : ((s * 32768 + mag16 e f) % 32768 == 31744) = false := by
        simp only [beq_eq_false_iff_ne, ne_eq]; omega
      simp only [hw]
      simp

/-- the emitted saturation text + `_float_to_bytes` = the specification's narrowing -/
theorem wire16 (m : Cast) (x : Nat) (hx : x < 2 ^ 64) : floatWire stdEnv 16 m x = .ok (narrowTo 5 10 m x) := by
  cases m with
  | trunc => simpa [floatWire, floatArg] using toWire16 x hx
  | sat =>
    obtain ⟨s, e, f, hsd, hed, hfd, hxeq, hs, he, hf⟩ := x_fields x hx
    have hnegL : negOf (fmaxLit 16) < 2 ^ 64 := by decide +kernel
    have hposL : fmaxLit 16 < 2 ^ 64 := by decide +kernel
    have hL63 : fmaxLit 16 < 2 ^ 63 := by decide +kernel
    have hLeq : fmaxLit 16 = 0x40effc0000000000 := by decide +kernel
    simp only [floatWire, floatArg, show 16 < 64 by decide, if_true]
    by_cases hfin : (x >>> 52) % 2048 = 2047
    · -- infinities and NaN are packed as they are
      have : stdEnv.isFinite x = false := by simp [stdEnv, isFinite64, hfin]
      simp only [this, Bool.false_eq_true, if_false, toWire16 x hx, narrowTo_eq_core, hfin]
      rw [core16_nonfin .sat]
    · have hfn : stdEnv.isFinite x = true := by simp [stdEnv, isFinite64, hfin]
      have hgt : stdEnv.fgt x (fmaxLit 16) = decide (x < 2 ^ 63 ∧ x > fmaxLit 16) :=
        fgt64_pos x _ hfin (by decide) (by decide) hL63
      have hlt : stdEnv.flt x (negOf (fmaxLit 16)) = decide (2 ^ 63 ≤ x ∧ x - 2 ^ 63 > fmaxLit 16) :=
        fgt64_neg x _ hfin (by decide) (by decide) hL63
      simp only [hfn, if_true, hgt, hlt]
      rw [hed] at hfin
      rw [narrowTo_eq_core, hsd, hed, hfd, core16_sat _ _ _ hfin]
      by_cases h1 : x < 2 ^ 63 ∧ x > fmaxLit 16
      · -- above +max: the literal `max.0` is packed
        simp only [h1, and_self, decide_true, if_true]
        have hs0 : s = 0 := by simp only [Nat.reducePow] at *; omega
        have hM := mag16_hi e f (by omega) hf (by rw [hLeq] at h1; simp only [Nat.reducePow] at *; omega)
        rw [toWire16 _ hposL]
        have : narrowTo 5 10 .trunc (fmaxLit 16) = 31743 := by decide +kernel
        rw [this, hs0]
        split <;> simp <;> omega
      · simp only [h1, decide_false, Bool.false_eq_true, if_false]
        by_cases h2 : 2 ^ 63 ≤ x ∧ x - 2 ^ 63 > fmaxLit 16
        · -- below -max
          simp only [h2, and_self, decide_true, if_true]
          have hs1 : s = 1 := by simp only [Nat.reducePow] at *; omega
          have hM := mag16_hi e f (by omega) hf (by rw [hLeq] at h2; simp only [Nat.reducePow] at *; omega)
          rw [toWire16 _ hnegL]
          have : narrowTo 5 10 .trunc (negOf (fmaxLit 16)) = 32768 + 31743 := by decide +kernel
          rw [this, hs1]
          split <;> simp <;> omega
        · -- inside the range: the value itself, which cannot overflow
          simp only [h2, decide_false, Bool.false_eq_true, if_false]
          have hM := mag16_lo e f (by omega) hf (by
            rw [hLeq] at h1 h2; simp only [Nat.reducePow] at *; omega)
          rw [toWire16 x hx, narrowTo_eq_core, hsd, hed, hfd, core16_trunc _ _ _ hfin]
          rw [if_neg (by omega), if_neg (by omega)]

/-! ### binary32 -/

theorem mag32_eq (e f : Nat) : magOf 8 23 e f = mag32 e f := by
  simp only [magOf, mag32, Nat.reducePow, Nat.reduceSub]

theorem core32_trunc (s e f : Nat) (he : e ≠ 2047) :
    narrowCore 8 23 .trunc s e f = s * 2147483648 + (if mag32 e f ≥ 2139095040 then 2139095040 else mag32 e f) := by
  rw [narrowCore_fin_trunc _ _ _ _ _ he, mag32_eq]
  simp only [Nat.shiftLeft_eq, Nat.reducePow, Nat.reduceSub, Nat.reduceAdd, Nat.reduceMul]
  split <;> rfl

theorem core32_sat (s e f : Nat) (he : e ≠ 2047) :
    narrowCore 8 23 .sat s e f = s * 2147483648 + (if mag32 e f ≥ 2139095040 then 2139095039 else mag32 e f) := by
  rw [narrowCore_fin_sat _ _ _ _ _ he, mag32_eq]
  simp only [Nat.shiftLeft_eq, Nat.reducePow, Nat.reduceSub, Nat.reduceAdd, Nat.reduceMul]
  split <;> rfl

theorem core32_nonfin (m : Cast) (s f : Nat) : narrowCore 8 23 m s 2047 f = narrowCore 8 23 .trunc s 2047 f := by
  simp only [narrowCore, if_true]

/-- `_float_to_bytes`: `struct.pack` with the `OverflowError` fallback is IEEE narrowing with overflow to ±inf -/
theorem toWire32 (y : Nat) (hy : y < 2 ^ 64) : floatToWire stdEnv 32 y = .ok (narrowTo 8 23 .trunc y) := by
  obtain ⟨s, e, f, hsd, hed, hfd, hyeq, hs, he, hf⟩ := x_fields y hy
  have hnar : ∀ z, narrow 32 .trunc z = narrowTo 8 23 .trunc z := fun z => by simp [narrow]
  simp only [floatToWire, stdEnv, pack64, hnar, isFinite64, isInfW, narrowTo_eq_core, hsd, hed, hfd]
  by_cases hfin : e = 2047
  · subst hfin; simp
  · have hne : (e != 2047) = true := by simp [hfin]
    simp only [core32_trunc s e f hfin, hne, Bool.true_and, Nat.reducePow]
    by_cases hm : mag32 e f ≥ 2139095040
    · simp only [hm, if_true]
      have hw : ((s * 2147483648 + 2139095040) % 2147483648 == 2139095040) = true := by simp
      simp only [hw]
      -- the value overflowed, so it is not zero and its sign decides the infinity that is packed instead
      have hM : e * 2 ^ 52 + f > 0x47efffffe0000000 := by
        apply Classical.byContradiction
        intro hc
        have := mag32_lo e f (by omega) hf (by omega)
        omega
      have hfin' : (y >>> 52) % 2048 ≠ 2047 := by rw [hed]; exact hfin
      have hz : isZero64 y = false := by
        simp only [isZero64, Nat.reducePow] at *
        simp only [beq_eq_false_iff_ne, ne_eq]; omega
      have hgt : fgt64 y 0 = decide (s = 0) := by
        have hn : isNaN64 y = false := by simp [isNaN64, hfin']
        have hk0 : fkey 0 = 0 := by decide +kernel
        have hk : (fkey y > fkey 0) ↔ s = 0 := by
          rw [hk0]; unfold fkey
          split <;> (simp only [Nat.reducePow] at *; omega)
        simp only [fgt64, hn, hz, show isNaN64 0 = false by decide +kernel, Bool.not_false, Bool.false_and,
          Bool.true_and]
        exact decide_eq_decide.mpr hk
      simp only [hgt]
      by_cases hs0 : s = 0
      · simp only [hs0, decide_true, if_true, Nat.zero_mul, Nat.zero_add]
        simp [infPat]
        decide +kernel
      · have hs1 : s = 1 := by omega
        simp only [hs1, show decide (1 = 0) = false by decide, Bool.false_eq_true, if_false, Nat.one_mul]
        simp [infPat, negOf]
        decide +kernel
    · simp only [hm, if_false]
      have hlt : mag32 e f < 2139095040 := by omega
      have hw : ((s * 2147483648 + mag32 e f) % 2147483648 == 2139095040) = false := by
        simp only [beq_eq_false_iff_ne, ne_eq]; omega
      simp only [hw]
      simp

/-- the emitted saturation text + `_float_to_bytes` = the specification's narrowing -/
theorem wire32 (m : Cast) (x : Nat) (hx : x < 2 ^ 64) : floatWire stdEnv 32 m x = .ok (narrowTo 8 23 m x) := by
  cases m with
  | trunc => simpa [floatWire, floatArg] using toWire32 x hx
  | sat =>
    obtain ⟨s, e, f, hsd, hed, hfd, hxeq, hs, he, hf⟩ := x_fields x hx
    have hnegL : negOf (fmaxLit 32) < 2 ^ 64 := by decide +kernel
    have hposL : fmaxLit 32 < 2 ^ 64 := by decide +kernel
    have hL63 : fmaxLit 32 < 2 ^ 63 := by decide +kernel
    have hLeq : fmaxLit 32 = 0x47efffffe0000000 := by decide +kernel
    simp only [floatWire, floatArg, show 32 < 64 by decide, if_true]
    by_cases hfin : (x >>> 52) % 2048 = 2047
    · -- infinities and NaN are packed as they are
      have : stdEnv.isFinite x = false := by simp [stdEnv, isFinite64, hfin]
      simp only [this, Bool.false_eq_true, if_false, toWire32 x hx, narrowTo_eq_core, hfin]
      rw [core32_nonfin .sat]
    · have hfn : stdEnv.isFinite x = true := by simp [stdEnv, isFinite64, hfin]
      have hgt : stdEnv.fgt x (fmaxLit 32) = decide (x < 2 ^ 63 ∧ x > fmaxLit 32) :=
        fgt64_pos x _ hfin (by decide) (by decide) hL63
      have hlt : stdEnv.flt x (negOf (fmaxLit 32)) = decide (2 ^ 63 ≤ x ∧ x - 2 ^ 63 > fmaxLit 32) :=
        fgt64_neg x _ hfin (by decide) (by decide) hL63
      simp only [hfn, if_true, hgt, hlt]
      rw [hed] at hfin
      rw [narrowTo_eq_core, hsd, hed, hfd, core32_sat _ _ _ hfin]
      by_cases h1 : x < 2 ^ 63 ∧ x > fmaxLit 32
      · -- above +max: the literal `max.0` is packed
        simp only [h1, and_self, decide_true, if_true]
        have hs0 : s = 0 := by simp only [Nat.reducePow] at *; omega
        have hM := mag32_hi e f (by omega) hf (by rw [hLeq] at h1; simp only [Nat.reducePow] at *; omega)
        rw [toWire32 _ hposL]
        have : narrowTo 8 23 .trunc (fmaxLit 32) = 2139095039 := by decide +kernel
        rw [this, hs0]
        split <;> simp <;> omega
      · simp only [h1, decide_false, Bool.false_eq_true, if_false]
        by_cases h2 : 2 ^ 63 ≤ x ∧ x - 2 ^ 63 > fmaxLit 32
        · -- below -max
          simp only [h2, and_self, decide_true, if_true]
          have hs1 : s = 1 := by simp only [Nat.reducePow] at *; omega
          have hM := mag32_hi e f (by omega) hf (by rw [hLeq] at h2; simp only [Nat.reducePow] at *; omega)
          rw [toWire32 _ hnegL]
          have : narrowTo 8 23 .trunc (negOf (fmaxLit 32)) = 2147483648 + 2139095039 := by decide +kernel
          rw [this, hs1]
          split <;> simp <;> omega
        · -- inside the range: the value itself, which cannot overflow
          simp only [h2, decide_false, Bool.false_eq_true, if_false]
          have hM := mag32_lo e f (by omega) hf (by
            rw [hLeq] at h1 h2; simp only [Nat.reducePow] at *; omega)
          rw [toWire32 x hx, narrowTo_eq_core, hsd, hed, hfd, core32_trunc _ _ _ hfin]
          rw [if_neg (by omega), if_neg (by omega)]

/-- a finite binary16 value widened to binary64 lies inside `±max` (bit patterns) -/
theorem widen16_mag (w : Nat) :
    ((widenFrom 5 10 w) >>> 52) % 2048 = 2047 ∨
    ((widenFrom 5 10 w < 2 ^ 63 → widenFrom 5 10 w ≤ 0x40effc0000000000) ∧
     (2 ^ 63 ≤ widenFrom 5 10 w → widenFrom 5 10 w - 2 ^ 63 ≤ 0x40effc0000000000)) := by
  have hs : (w >>> (5 + 10)) % 2 < 2 := Nat.mod_lt _ (by decide)
  have he : (w >>> 10) % 2 ^ 5 < 2 ^ 5 := Nat.mod_lt _ (by decide)
  have hf : w % 2 ^ 10 < 2 ^ 10 := Nat.mod_lt _ (by decide)
  simp only [widenFrom]
  generalize (w >>> (5 + 10)) % 2 = s at *
  generalize (w >>> 10) % 2 ^ 5 = e at *
  generalize w % 2 ^ 10 = f at *
  simp only [Nat.shiftLeft_eq, Nat.shiftRight_eq_div_pow, Nat.reducePow, Nat.reduceSub] at *
  split
  · left; omega
  · right
    split
    · split
      · omega
      · rename_i hf0
        obtain ⟨hk, hlo, hhi⟩ := pow_log2_bounds hf0 (mb := 10) (by simpa using hf) (by decide)
        simp only [Nat.reducePow] at hlo hhi
        generalize f * 2 ^ (52 - f.log2) = T at *
        generalize f.log2 = k at *
        omega
    · omega

theorem ctor16 (w : Nat) : floatCtorOK stdEnv 16 (widenFrom 5 10 w) = true := by
  unfold floatCtorOK
  by_cases hfin : stdEnv.isFinite (widenFrom 5 10 w) = true
  · have hfin' : ((widenFrom 5 10 w) >>> 52) % 2048 ≠ 2047 := by
      simpa [stdEnv, isFinite64] using hfin
    have hL63 : fmaxLit 16 < 2 ^ 63 := by decide +kernel
    have hLeq : fmaxLit 16 = 0x40effc0000000000 := by decide +kernel
    have hgt : stdEnv.fgt (widenFrom 5 10 w) (fmaxLit 16)
        = decide (widenFrom 5 10 w < 2 ^ 63 ∧ widenFrom 5 10 w > fmaxLit 16) :=
      fgt64_pos _ _ hfin' (by decide +kernel) (by decide +kernel) hL63
    have hlt : stdEnv.flt (widenFrom 5 10 w) (negOf (fmaxLit 16))
        = decide (2 ^ 63 ≤ widenFrom 5 10 w ∧ widenFrom 5 10 w - 2 ^ 63 > fmaxLit 16) :=
      fgt64_neg _ _ hfin' (by decide +kernel) (by decide +kernel) hL63
    simp only [show 16 < 64 by decide, hfin, and_self, if_true, hgt, hlt]
    rcases widen16_mag w with h | ⟨h1, h2⟩
    · exact absurd h hfin'
    · generalize widenFrom 5 10 w = x at *
      simp only [Bool.and_eq_true, Bool.not_eq_true', decide_eq_false_iff_not]
      constructor
      · intro hc; have := h1 hc.1; omega
      · intro hc; have := h2 hc.1; omega
  · simp [hfin]

/-- a finite binary32 value widened to binary64 lies inside `±max` (bit patterns) -/
theorem widen32_mag (w : Nat) :
    ((widenFrom 8 23 w) >>> 52) % 2048 = 2047 ∨
    ((widenFrom 8 23 w < 2 ^ 63 → widenFrom 8 23 w ≤ 0x47efffffe0000000) ∧
     (2 ^ 63 ≤ widenFrom 8 23 w → widenFrom 8 23 w - 2 ^ 63 ≤ 0x47efffffe0000000)) := by
  have hs : (w >>> (8 + 23)) % 2 < 2 := Nat.mod_lt _ (by decide)
  have he : (w >>> 23) % 2 ^ 8 < 2 ^ 8 := Nat.mod_lt _ (by decide)
  have hf : w % 2 ^ 23 < 2 ^ 23 := Nat.mod_lt _ (by decide)
  simp only [widenFrom]
  generalize (w >>> (8 + 23)) % 2 = s at *
  generalize (w >>> 23) % 2 ^ 8 = e at *
  generalize w % 2 ^ 23 = f at *
  simp only [Nat.shiftLeft_eq, Nat.shiftRight_eq_div_pow, Nat.reducePow, Nat.reduceSub] at *
  split
  · left; omega
  · right
    split
    · split
      · omega
      · rename_i hf0
        obtain ⟨hk, hlo, hhi⟩ := pow_log2_bounds hf0 (mb := 23) (by simpa using hf) (by decide)
        simp only [Nat.reducePow] at hlo hhi
        generalize f * 2 ^ (52 - f.log2) = T at *
        generalize f.log2 = k at *
        omega
    · omega

theorem ctor32 (w : Nat) : floatCtorOK stdEnv 32 (widenFrom 8 23 w) = true := by
  unfold floatCtorOK
  by_cases hfin : stdEnv.isFinite (widenFrom 8 23 w) = true
  · have hfin' : ((widenFrom 8 23 w) >>> 52) % 2048 ≠ 2047 := by
      simpa [stdEnv, isFinite64] using hfin
    have hL63 : fmaxLit 32 < 2 ^ 63 := by decide +kernel
    have hLeq : fmaxLit 32 = 0x47efffffe0000000 := by decide +kernel
    have hgt : stdEnv.fgt (widenFrom 8 23 w) (fmaxLit 32)
        = decide (widenFrom 8 23 w < 2 ^ 63 ∧ widenFrom 8 23 w > fmaxLit 32) :=
      fgt64_pos _ _ hfin' (by decide +kernel) (by decide +kernel) hL63
    have hlt : stdEnv.flt (widenFrom 8 23 w) (negOf (fmaxLit 32))
        = decide (2 ^ 63 ≤ widenFrom 8 23 w ∧ widenFrom 8 23 w - 2 ^ 63 > fmaxLit 32) :=
      fgt64_neg _ _ hfin' (by decide +kernel) (by decide +kernel) hL63
    simp only [show 32 < 64 by decide, hfin, and_self, if_true, hgt, hlt]
    rcases widen32_mag w with h | ⟨h1, h2⟩
    · exact absurd h hfin'
    · generalize widenFrom 8 23 w = x at *
      simp only [Bool.and_eq_true, Bool.not_eq_true', decide_eq_false_iff_not]
      constructor
      · intro hc; have := h1 hc.1; omega
      · intro hc; have := h2 hc.1; omega
  · simp [hfin]

/-! ### the laws -/

theorem stdEnv_float : FloatSound stdEnv where
  wire := by
    intro n m x hn hx
    rcases hn with rfl | rfl | rfl
    · simpa [narrow] using wire16 m x hx
    · simpa [narrow] using wire32 m x hx
    · cases m <;> simp [floatWire, floatArg, floatToWire, stdEnv, pack64, isInfW, narrow]
  unpack := by intro n w _ _; rfl
  ctor := by
    intro n w hn _
    rcases hn with rfl | rfl | rfl
    · simpa [widen] using ctor16 w
    · simpa [widen] using ctor32 w
    · simp [floatCtorOK]

end NunavutVerif.GenPy
