import NunavutVerif.Model.CBuf
/-! Helper lemmas for the C04 index-safety theorems over `Model/CBuf.lean`. -/
namespace NunavutVerif.CBuf

/-- what a safe outcome of one field looks like: success within the field's bound, or an error code -/
def SafeWithin (bound : Nat) : Out → Prop
  | .ok off' => off' ≤ bound
  | .err _ => True
  | .shape => True
  | _ => False

theorem SafeWithin.notOob {b : Nat} {r : Out} (h : SafeWithin b r) : r.isOob = false := by
  cases r <;> simp_all [SafeWithin, Out.isOob]

theorem padEnd_isOob (capBits : Nat) (r : Out) : (padEnd capBits r).isOob = r.isOob := by
  cases r <;> simp only [padEnd] <;> (try split) <;> rfl

theorem padEnd_isOobObject (capBits : Nat) (r : Out) : (padEnd capBits r).isOobObject = r.isOobObject := by
  cases r <;> simp only [padEnd] <;> (try split) <;> rfl

theorem le_pad8 (n : Nat) : n ≤ pad8 n := by unfold pad8; omega

theorem elemLoop_safe (capBits eb sl : Nat) : ∀ (r i off : Nat), i + r ≤ sl →
    SafeWithin (off + r * eb) (elemLoop capBits eb sl r i off)
  | 0, i, off, _ => by simp [elemLoop, SafeWithin]
  | r + 1, i, off, h => by
    simp only [elemLoop]
    rw [if_neg (by omega)]
    by_cases hc : capBits < off + eb
    · simp [hc, SafeWithin]
    · simp only [hc, if_false]
      have := elemLoop_safe capBits eb sl r (i + 1) (off + eb) (by omega)
      have e : off + eb + r * eb = off + (r + 1) * eb := by rw [Nat.add_mul]; omega
      rwa [e] at this

theorem write_none {checked : Bool} {capBits off len : Nat} (h : off + len ≤ capBits) :
    write checked capBits off len = none := by
  cases checked <;> simp [write, h] <;> omega

theorem write_cases (checked : Bool) (capBits off len : Nat) :
    write checked capBits off len = none ∨ write checked capBits off len = some (.err .bufferTooSmall) ∨
      write checked capBits off len = some (.oobBuffer off len) := by
  cases checked
  · simp only [write, Bool.false_eq_true, if_false]; split <;> simp
  · simp only [write, if_true]; split <;> simp

theorem write_notObj {checked : Bool} {capBits off len : Nat} {r : Out}
    (h : write checked capBits off len = some r) : r.isOobObject = false := by
  rcases write_cases checked capBits off len with e | e | e <;> rw [e] at h <;> cases h <;> rfl

/-- one field, the buffer has room for the largest size the length comparison lets through: never out of bounds -/
theorem serField_safe (cs : Bool) (capBits off : Nat) (f : Field) (v : FVal) (hc : okCmp cs f = true)
    (hb : off + fieldMaxB cs f ≤ capBits) : SafeWithin (off + fieldMaxB cs f) (serField cs capBits off f v) := by
  cases f with
  | prim w checked =>
    cases v with
    | prim =>
      simp only [fieldMaxB] at hb ⊢
      simp [serField, write_none hb, SafeWithin]
    | count c => simp [serField, SafeWithin]
  | varr lp eb cap sl lpc ec =>
    cases v with
    | prim => simp [serField, SafeWithin]
    | count c =>
      simp only [okCmp, decide_eq_true_eq] at hc
      simp only [fieldMaxB] at hb ⊢
      simp only [serField]
      by_cases h1 : c > cmpBound cs cap sl
      · simp [h1, SafeWithin]
      · simp only [h1, if_false]
        have hle : c * eb ≤ cmpBound cs cap sl * eb := Nat.mul_le_mul_right _ (by omega)
        rw [write_none (by omega)]
        cases ec with
        | true =>
          simp only [if_true]
          have := elemLoop_safe capBits eb sl c 0 (off + lp) (by omega)
          cases hr : elemLoop capBits eb sl c 0 (off + lp) <;> rw [hr] at this <;> simp_all [SafeWithin] <;> omega
        | false =>
          simp only [Bool.false_eq_true, if_false]
          rw [if_neg (by omega), write_none (by omega)]
          simp only [SafeWithin]; omega

/-- one field, ANY buffer size: the object is never left when the length comparison protects the real array -/
theorem serField_noObj (cs : Bool) (capBits off : Nat) (f : Field) (v : FVal) (hc : okCmp cs f = true) :
    (serField cs capBits off f v).isOobObject = false := by
  cases f with
  | prim w checked =>
    cases v with
    | prim =>
      simp only [serField]
      cases hw : write checked capBits off w with
      | some r => exact write_notObj hw
      | none => rfl
    | count c => simp [serField, Out.isOobObject]
  | varr lp eb cap sl lpc ec =>
    cases v with
    | prim => simp [serField, Out.isOobObject]
    | count c =>
      simp only [okCmp, decide_eq_true_eq] at hc
      simp only [serField]
      by_cases h1 : c > cmpBound cs cap sl
      · simp [h1, Out.isOobObject]
      · simp only [h1, if_false]
        cases hw : write lpc capBits off lp with
        | some r => exact write_notObj hw
        | none =>
          cases ec with
          | true =>
            simp only [if_true]
            have := elemLoop_safe capBits eb sl c 0 (off + lp) (by omega)
            cases hr : elemLoop capBits eb sl c 0 (off + lp) <;> rw [hr] at this <;> simp_all [SafeWithin, Out.isOobObject]
          | false =>
            simp only [Bool.false_eq_true, if_false]
            rw [if_neg (by omega)]
            cases hw2 : write false capBits (off + lp) (c * eb) with
            | some r => exact write_notObj hw2
            | none => rfl

theorem serFields_safe (cs : Bool) (capBits : Nat) : ∀ (fs : List Field) (vs : List FVal) (off : Nat),
    (∀ f ∈ fs, okCmp cs f = true) → off + sumMax (fieldMaxB cs) fs ≤ capBits →
    SafeWithin (off + sumMax (fieldMaxB cs) fs) (serFields cs capBits off fs vs)
  | [], [], off, _, _ => by simp [serFields, SafeWithin, sumMax]
  | [], _ :: _, off, _, _ => by simp [serFields, SafeWithin]
  | _ :: _, [], off, _, _ => by simp [serFields, SafeWithin]
  | f :: fs, v :: vs, off, hc, hb => by
    simp only [sumMax] at hb ⊢
    have h1 := serField_safe cs capBits off f v (hc f (by simp)) (by omega)
    simp only [serFields]
    cases hr : serField cs capBits off f v with
    | ok off' =>
      rw [hr] at h1; simp only [SafeWithin] at h1
      have h2 := serFields_safe cs capBits fs vs off' (fun g hg => hc g (by simp [hg])) (by omega)
      cases hr2 : serFields cs capBits off' fs vs <;> rw [hr2] at h2 <;> simp_all [SafeWithin] <;> omega
    | err e => simp [SafeWithin]
    | shape => simp [SafeWithin]
    | oobBuffer a b => rw [hr] at h1; simp [SafeWithin] at h1
    | oobObject a b => rw [hr] at h1; simp [SafeWithin] at h1

theorem serFields_noObj (cs : Bool) (capBits : Nat) : ∀ (fs : List Field) (vs : List FVal) (off : Nat),
    (∀ f ∈ fs, okCmp cs f = true) → (serFields cs capBits off fs vs).isOobObject = false
  | [], [], off, _ => by simp [serFields, Out.isOobObject]
  | [], _ :: _, off, _ => by simp [serFields, Out.isOobObject]
  | _ :: _, [], off, _ => by simp [serFields, Out.isOobObject]
  | f :: fs, v :: vs, off, hc => by
    have h1 := serField_noObj cs capBits off f v (hc f (by simp))
    simp only [serFields]
    cases hr : serField cs capBits off f v with
    | ok off' => exact serFields_noObj cs capBits fs vs off' (fun g hg => hc g (by simp [hg]))
    | err e => simp [Out.isOobObject]
    | shape => simp [Out.isOobObject]
    | oobBuffer a b => simp [Out.isOobObject]
    | oobObject a b => rw [hr] at h1; simp [Out.isOobObject] at h1

theorem write_true_cases (capBits off len : Nat) :
    write true capBits off len = none ∨ write true capBits off len = some (.err .bufferTooSmall) := by
  simp only [write, if_true]; split <;> simp

/-- a field all of whose writes are checked never leaves the buffer or the object, WHATEVER the buffer size -/
theorem serField_checked (cs : Bool) (capBits off : Nat) (f : Field) (v : FVal) (hc : okCmp cs f = true)
    (ha : allChecked f = true) : (serField cs capBits off f v).isOob = false := by
  cases f with
  | prim w checked =>
    simp only [allChecked] at ha
    subst ha
    cases v with
    | prim =>
      simp only [serField]
      rcases write_true_cases capBits off w with e | e
      · rw [e]; rfl
      · rw [e]; rfl
    | count c => simp [serField, Out.isOob]
  | varr lp eb cap sl lpc ec =>
    simp only [allChecked, Bool.and_eq_true] at ha
    obtain ⟨h1, h2⟩ := ha
    subst h1; subst h2
    cases v with
    | prim => simp [serField, Out.isOob]
    | count c =>
      simp only [okCmp, decide_eq_true_eq] at hc
      simp only [serField]
      by_cases h1 : c > cmpBound cs cap sl
      · simp [h1, Out.isOob]
      · simp only [h1, if_false]
        rcases write_true_cases capBits off lp with e | e
        · rw [e]
          simp only [if_true]
          exact (elemLoop_safe capBits eb sl c 0 (off + lp) (by omega)).notOob
        · rw [e]; rfl

theorem serFields_checked (cs : Bool) (capBits : Nat) : ∀ (fs : List Field) (vs : List FVal) (off : Nat),
    (∀ f ∈ fs, okCmp cs f = true ∧ allChecked f = true) → (serFields cs capBits off fs vs).isOob = false
  | [], [], off, _ => by simp [serFields, Out.isOob]
  | [], _ :: _, off, _ => by simp [serFields, Out.isOob]
  | _ :: _, [], off, _ => by simp [serFields, Out.isOob]
  | f :: fs, v :: vs, off, hc => by
    have h1 := serField_checked cs capBits off f v (hc f (by simp)).1 (hc f (by simp)).2
    simp only [serFields]
    cases hr : serField cs capBits off f v with
    | ok off' => exact serFields_checked cs capBits fs vs off' (fun g hg => hc g (by simp [hg]))
    | err e => simp [Out.isOob]
    | shape => simp [Out.isOob]
    | oobBuffer a b => rw [hr] at h1; simp [Out.isOob] at h1
    | oobObject a b => rw [hr] at h1; simp [Out.isOob] at h1

theorem nth?_mem {α : Type} : ∀ {l : List α} {k : Nat} {x : α}, nth? l k = some x → x ∈ l
  | [], _, _, h => by simp [nth?] at h
  | y :: _, 0, x, h => by simp [nth?] at h; simp [h]
  | _ :: ys, k + 1, x, h => by simp only [nth?] at h; simp [nth?_mem h]

theorem le_maxMax (g : Field → Nat) : ∀ {l : List Field} {f : Field}, f ∈ l → g f ≤ maxMax g l
  | [], _, h => by simp at h
  | y :: ys, f, h => by
    simp only [maxMax]
    rcases List.mem_cons.mp h with e | e
    · subst e; omega
    · have := le_maxMax g e; omega

theorem deField_safe (cs : Bool) (rd : Nat → Nat → Nat) (off : Nat) (f : Field) (hc : okCmp cs f = true) :
    (deField cs rd off f).isOob = false := by
  cases f with
  | prim w c => simp [deField, Out.isOob]
  | varr lp eb cap sl lpc ec =>
    simp only [okCmp, decide_eq_true_eq] at hc
    simp only [deField]
    by_cases h1 : rd off lp > cmpBound cs cap sl
    · simp [h1, Out.isOob]
    · simp only [h1, if_false]
      rw [if_neg (by omega)]
      simp [Out.isOob]

theorem deFields_safe (cs : Bool) (rd : Nat → Nat → Nat) : ∀ (fs : List Field) (off : Nat),
    (∀ f ∈ fs, okCmp cs f = true) → (deFields cs rd off fs).isOob = false
  | [], off, _ => by simp [deFields, Out.isOob]
  | f :: fs, off, hc => by
    have h1 := deField_safe cs rd off f (hc f (by simp))
    simp only [deFields]
    cases hr : deField cs rd off f with
    | ok off' => exact deFields_safe cs rd fs off' (fun g hg => hc g (by simp [hg]))
    | err e => simp [Out.isOob]
    | shape => simp [Out.isOob]
    | oobBuffer a b => rw [hr] at h1; simp [Out.isOob] at h1
    | oobObject a b => rw [hr] at h1; simp [Out.isOob] at h1

/-- without an override the comparison bound is the real array, whatever it compares with -/
theorem okCmp_of_noOverride (cs : Bool) {f : Field} (h : noOverride f = true) : okCmp cs f = true := by
  cases f with
  | prim _ _ => rfl
  | varr lp eb cap sl _ _ =>
    simp only [noOverride, beq_iff_eq] at h
    subst h
    cases cs <;> simp [okCmp, cmpBound]

theorem fieldMaxB_of_noOverride (cs : Bool) {f : Field} (h : noOverride f = true) : fieldMaxB cs f = fieldMax f := by
  cases f with
  | prim _ _ => rfl
  | varr lp eb cap sl _ _ =>
    simp only [noOverride, beq_iff_eq] at h
    subst h
    cases cs <;> simp [fieldMaxB, fieldMax, cmpBound]

theorem sumMax_congr {g h : Field → Nat} : ∀ {l : List Field}, (∀ f ∈ l, g f = h f) → sumMax g l = sumMax h l
  | [], _ => rfl
  | x :: xs, H => by
    simp only [sumMax]
    rw [H x (by simp), sumMax_congr fun f hf => H f (by simp [hf])]

theorem maxMax_congr {g h : Field → Nat} : ∀ {l : List Field}, (∀ f ∈ l, g f = h f) → maxMax g l = maxMax h l
  | [], _ => rfl
  | x :: xs, H => by
    simp only [maxMax]
    rw [H x (by simp), maxMax_congr fun f hf => H f (by simp [hf])]

/-- okCmp with the comparison against the real array always holds -/
theorem okCmp_storage (f : Field) : okCmp true f = true := by
  cases f <;> simp [okCmp, cmpBound]

end NunavutVerif.CBuf
