import NunavutVerif.Model.CBuf
/-! Helper lemmas for the C04 index-safety theorems over `Model/CBuf.lean`. -/
namespace NunavutVerif.CBuf

/-- what a safe outcome of one field looks like: success within the field's bound, or an error code -/
def SafeWithin (bound : Nat) : Out → Prop
  | .ok off' => off' ≤ bound
  | .err _ => True
  | .shape => True
  | _ => False

theorem SafeWithin.notOob {b : Nat} {r : Out} (h : SafeWithin b r) : r.isOob = false := by
  cases r <;> simp_all [SafeWithin, Out.isOob]

theorem padEnd_isOob (capBits : Nat) (r : Out) : (padEnd capBits r).isOob = r.isOob := by
  cases r <;> simp only [padEnd] <;> (try split) <;> rfl

theorem padEnd_isOobObject (capBits : Nat) (r : Out) : (padEnd capBits r).isOobObject = r.isOobObject := by
  cases r <;> simp only [padEnd] <;> (try split) <;> rfl

theorem le_pad8 (n : Nat) : n ≤ pad8 n := by unfold pad8; omega

theorem elemLoop_safe (capBits eb sl : Nat) : ∀ (r i off : Nat), i + r ≤ sl →
    SafeWithin (off + r * eb) (elemLoop capBits eb sl r i off)
  | 0, i, off, _ => by simp [elemLoop, SafeWithin]
  | r + 1, i, off, h => by
    simp only [elemLoop]
    rw [if_neg (by omega)]
    by_cases hc : capBits < off + eb
    · simp [hc, SafeWithin]
    · simp only [hc, if_false]
      have := elemLoop_safe capBits eb sl r (i + 1) (off + eb) (by omega)
      have e : off + eb + r * eb = off + (r + 1) * eb := by rw [Nat.add_mul]; omega
      rwa [e] at this

theorem write_none {checked : Bool} {capBits off len : Nat} (h : off + len ≤ capBits) :
    write checked capBits off len = none := by
  cases checked <;> simp [write, h] <;> omega

theorem write_cases (checked : Bool) (capBits off len : Nat) :
    write checked capBits off len = none ∨ write checked capBits off len = some (.err .bufferTooSmall) ∨
      write checked capBits off len = some (.oobBuffer off len) := by
  cases checked
  · simp only [write, Bool.false_eq_true, if_false]; split <;> simp
  · simp only [write, if_true]; split <;> simp

theorem write_notObj {checked : Bool} {capBits off len : Nat} {r : Out}
    (h : write checked capBits off len = some r) : r.isOobObject = false := by
  rcases write_cases checked capBits off len with e | e | e <;> rw [e] at h <;> cases h <;> rfl

/-- one field, the buffer has room for the largest size the length comparison lets through: never out of bounds -/
theorem serField_safe (cs : Bool) (capBits off : Nat) (f : Field) (v : FVal) (hc : okCmp cs f = true)
    (hb : off + fieldMaxB cs f ≤ capBits) : SafeWithin (off + fieldMaxB cs f) (serField cs capBits off f v) := by
  cases f with
  | prim w checked =>
    cases v with
    | prim =>
      simp only [fieldMaxB] at hb ⊢
      simp [serField, write_none hb, SafeWithin]
    | count c => simp [serField, SafeWithin]
  | varr lp eb cap sl lpc ec =>
    cases v with
    | prim => simp [serField, SafeWithin]
    | count c =>
      simp only [okCmp, decide_eq_true_eq] at hc
      simp only [fieldMaxB] at hb ⊢
      simp only [serField]
      by_cases h1 : c > cmpBound cs cap sl
      · simp [h1, SafeWithin]
      · simp only [h1, if_false]
        have hle : c * eb ≤ cmpBound cs cap sl * eb := Nat.mul_le_mul_right _ (by omega)
        rw [write_none (by omega)]
        cases ec with
        | true =>
          simp only [if_true]
          have := elemLoop_safe capBits eb sl c 0 (off + lp) (by omega)
          cases hr : elemLoop capBits eb sl c 0 (off + lp) <;> rw [hr] at this <;> simp_all [SafeWithin] <;> omega
        | false =>
          simp only [Bool.false_eq_true, if_false]
          rw [if_neg (by omega), write_none (by omega)]
          simp only [SafeWithin]; omega
  | vbits lp cap sl sm cS cD lpc =>
    cases v with
    | prim => simp [serField, SafeWithin]
    | count c =>
      simp only [okCmp, Bool.and_eq_true, decide_eq_true_eq] at hc
      simp only [fieldMaxB] at hb ⊢
      simp only [serField]
      by_cases h1 : c > cS.bound cap sl
      · simp [h1, SafeWithin]
      · simp only [h1, if_false]
        rw [write_none (by omega)]
        simp only
        rw [if_neg (by omega), write_none (by omega)]
        simp only [SafeWithin]; omega
  | farr eb cap ec =>
    cases v with
    | count c => simp [serField, SafeWithin]
    | prim =>
      simp only [fieldMaxB] at hb ⊢
      simp only [serField]
      cases ec with
      | true =>
        simp only [if_true]
        have := elemLoop_safe capBits eb cap cap 0 off (by omega)
        cases hr : elemLoop capBits eb cap cap 0 off <;> rw [hr] at this <;> simp_all [SafeWithin]
      | false =>
        simp only [Bool.false_eq_true, if_false]
        rw [write_none (by omega)]
        simp only [SafeWithin]; omega
  | fbits cap =>
    cases v with
    | count c => simp [serField, SafeWithin]
    | prim =>
      simp only [fieldMaxB] at hb ⊢
      simp only [serField]
      rw [write_none (by omega)]
      simp only [SafeWithin]; omega

/-- one field, ANY buffer size: the object is never left when the length comparison protects the real array -/
theorem serField_noObj_okSer (cs : Bool) (capBits off : Nat) (f : Field) (v : FVal) (hc : okSer cs f = true) :
    (serField cs capBits off f v).isOobObject = false := by
  cases f with
  | prim w checked =>
    cases v with
    | prim =>
      simp only [serField]
      cases hw : write checked capBits off w with
      | some r => exact write_notObj hw
      | none => rfl
    | count c => simp [serField, Out.isOobObject]
  | varr lp eb cap sl lpc ec =>
    cases v with
    | prim => simp [serField, Out.isOobObject]
    | count c =>
      simp only [okSer, decide_eq_true_eq] at hc
      simp only [serField]
      by_cases h1 : c > cmpBound cs cap sl
      · simp [h1, Out.isOobObject]
      · simp only [h1, if_false]
        cases hw : write lpc capBits off lp with
        | some r => exact write_notObj hw
        | none =>
          cases ec with
          | true =>
            simp only [if_true]
            have := elemLoop_safe capBits eb sl c 0 (off + lp) (by omega)
            cases hr : elemLoop capBits eb sl c 0 (off + lp) <;> rw [hr] at this <;> simp_all [SafeWithin, Out.isOobObject]
          | false =>
            simp only [Bool.false_eq_true, if_false]
            rw [if_neg (by omega)]
            cases hw2 : write false capBits (off + lp) (c * eb) with
            | some r => exact write_notObj hw2
            | none => rfl
  | vbits lp cap sl sm cS cD lpc =>
    cases v with
    | prim => simp [serField, Out.isOobObject]
    | count c =>
      simp only [okSer, decide_eq_true_eq] at hc
      simp only [serField]
      by_cases h1 : c > cS.bound cap sl
      · simp [h1, Out.isOobObject]
      · simp only [h1, if_false]
        cases hw : write lpc capBits off lp with
        | some r => exact write_notObj hw
        | none =>
          simp only
          rw [if_neg (by omega)]
          cases hw2 : write false capBits (off + lp) c with
          | some r => exact write_notObj hw2
          | none => rfl
  | farr eb cap ec =>
    cases v with
    | count c => simp [serField, Out.isOobObject]
    | prim =>
      simp only [serField]
      cases ec with
      | true =>
        simp only [if_true]
        have := elemLoop_safe capBits eb cap cap 0 off (by omega)
        cases hr : elemLoop capBits eb cap cap 0 off <;> rw [hr] at this <;> simp_all [SafeWithin, Out.isOobObject]
      | false =>
        simp only [Bool.false_eq_true, if_false]
        cases hw2 : write false capBits off (cap * eb) with
        | some r => exact write_notObj hw2
        | none => rfl
  | fbits cap =>
    cases v with
    | count c => simp [serField, Out.isOobObject]
    | prim =>
      simp only [serField]
      cases hw2 : write false capBits off cap with
      | some r => exact write_notObj hw2
      | none => rfl

theorem okSer_of_okCmp {cs : Bool} {f : Field} (h : okCmp cs f = true) : okSer cs f = true := by
  rw [show okCmp cs f = (okSer cs f && okDe cs f) by cases f <;> simp [okCmp, okSer, okDe]] at h
  simp_all

theorem okDe_of_okCmp {cs : Bool} {f : Field} (h : okCmp cs f = true) : okDe cs f = true := by
  rw [show okCmp cs f = (okSer cs f && okDe cs f) by cases f <;> simp [okCmp, okSer, okDe]] at h
  simp_all

theorem serField_noObj (cs : Bool) (capBits off : Nat) (f : Field) (v : FVal) (hc : okCmp cs f = true) :
    (serField cs capBits off f v).isOobObject = false :=
  serField_noObj_okSer cs capBits off f v (okSer_of_okCmp hc)

theorem serFields_safe (cs : Bool) (capBits : Nat) : ∀ (fs : List Field) (vs : List FVal) (off : Nat),
    (∀ f ∈ fs, okCmp cs f = true) → off + sumMax (fieldMaxB cs) fs ≤ capBits →
    SafeWithin (off + sumMax (fieldMaxB cs) fs) (serFields cs capBits off fs vs)
  | [], [], off, _, _ => by simp [serFields, SafeWithin, sumMax]
  | [], _ :: _, off, _, _ => by simp [serFields, SafeWithin]
  | _ :: _, [], off, _, _ => by simp [serFields, SafeWithin]
  | f :: fs, v :: vs, off, hc, hb => by
    simp only [sumMax] at hb ⊢
    have h1 := serField_safe cs capBits off f v (hc f (by simp)) (by omega)
    simp only [serFields]
    cases hr : serField cs capBits off f v with
    | ok off' =>
      rw [hr] at h1; simp only [SafeWithin] at h1
      have h2 := serFields_safe cs capBits fs vs off' (fun g hg => hc g (by simp [hg])) (by omega)
      cases hr2 : serFields cs capBits off' fs vs <;> rw [hr2] at h2 <;> simp_all [SafeWithin] <;> omega
    | err e => simp [SafeWithin]
    | shape => simp [SafeWithin]
    | oobBuffer a b => rw [hr] at h1; simp [SafeWithin] at h1
    | oobObject a b => rw [hr] at h1; simp [SafeWithin] at h1

theorem serFields_noObj (cs : Bool) (capBits : Nat) : ∀ (fs : List Field) (vs : List FVal) (off : Nat),
    (∀ f ∈ fs, okCmp cs f = true) → (serFields cs capBits off fs vs).isOobObject = false
  | [], [], off, _ => by simp [serFields, Out.isOobObject]
  | [], _ :: _, off, _ => by simp [serFields, Out.isOobObject]
  | _ :: _, [], off, _ => by simp [serFields, Out.isOobObject]
  | f :: fs, v :: vs, off, hc => by
    have h1 := serField_noObj cs capBits off f v (hc f (by simp))
    simp only [serFields]
    cases hr : serField cs capBits off f v with
    | ok off' => exact serFields_noObj cs capBits fs vs off' (fun g hg => hc g (by simp [hg]))
    | err e => simp [Out.isOobObject]
    | shape => simp [Out.isOobObject]
    | oobBuffer a b => simp [Out.isOobObject]
    | oobObject a b => rw [hr] at h1; simp [Out.isOobObject] at h1

theorem write_true_cases (capBits off len : Nat) :
    write true capBits off len = none ∨ write true capBits off len = some (.err .bufferTooSmall) := by
  simp only [write, if_true]; split <;> simp

/-- a field all of whose writes are checked never leaves the buffer or the object, WHATEVER the buffer size -/
theorem serField_checked (cs : Bool) (capBits off : Nat) (f : Field) (v : FVal) (hc : okCmp cs f = true)
    (ha : allChecked f = true) : (serField cs capBits off f v).isOob = false := by
  cases f with
  | prim w checked =>
    simp only [allChecked] at ha
    subst ha
    cases v with
    | prim =>
      simp only [serField]
      rcases write_true_cases capBits off w with e | e
      · rw [e]; rfl
      · rw [e]; rfl
    | count c => simp [serField, Out.isOob]
  | varr lp eb cap sl lpc ec =>
    simp only [allChecked, Bool.and_eq_true] at ha
    obtain ⟨h1, h2⟩ := ha
    subst h1; subst h2
    cases v with
    | prim => simp [serField, Out.isOob]
    | count c =>
      simp only [okCmp, decide_eq_true_eq] at hc
      simp only [serField]
      by_cases h1 : c > cmpBound cs cap sl
      · simp [h1, Out.isOob]
      · simp only [h1, if_false]
        rcases write_true_cases capBits off lp with e | e
        · rw [e]
          simp only [if_true]
          exact (elemLoop_safe capBits eb sl c 0 (off + lp) (by omega)).notOob
        · rw [e]; rfl
  | vbits lp cap sl sm cS cD lpc => simp [allChecked] at ha
  | farr eb cap ec =>
    simp only [allChecked] at ha
    subst ha
    cases v with
    | count c => simp [serField, Out.isOob]
    | prim =>
      simp only [serField, if_true]
      exact (elemLoop_safe capBits eb cap cap 0 off (by omega)).notOob
  | fbits cap => simp [allChecked] at ha

theorem serFields_checked (cs : Bool) (capBits : Nat) : ∀ (fs : List Field) (vs : List FVal) (off : Nat),
    (∀ f ∈ fs, okCmp cs f = true ∧ allChecked f = true) → (serFields cs capBits off fs vs).isOob = false
  | [], [], off, _ => by simp [serFields, Out.isOob]
  | [], _ :: _, off, _ => by simp [serFields, Out.isOob]
  | _ :: _, [], off, _ => by simp [serFields, Out.isOob]
  | f :: fs, v :: vs, off, hc => by
    have h1 := serField_checked cs capBits off f v (hc f (by simp)).1 (hc f (by simp)).2
    simp only [serFields]
    cases hr : serField cs capBits off f v with
    | ok off' => exact serFields_checked cs capBits fs vs off' (fun g hg => hc g (by simp [hg]))
    | err e => simp [Out.isOob]
    | shape => simp [Out.isOob]
    | oobBuffer a b => rw [hr] at h1; simp [Out.isOob] at h1
    | oobObject a b => rw [hr] at h1; simp [Out.isOob] at h1

theorem nth?_mem {α : Type} : ∀ {l : List α} {k : Nat} {x : α}, nth? l k = some x → x ∈ l
  | [], _, _, h => by simp [nth?] at h
  | y :: _, 0, x, h => by simp [nth?] at h; simp [h]
  | _ :: ys, k + 1, x, h => by simp only [nth?] at h; simp [nth?_mem h]

theorem le_maxMax (g : Field → Nat) : ∀ {l : List Field} {f : Field}, f ∈ l → g f ≤ maxMax g l
  | [], _, h => by simp at h
  | y :: ys, f, h => by
    simp only [maxMax]
    rcases List.mem_cons.mp h with e | e
    · subst e; omega
    · have := le_maxMax g e; omega

theorem deField_safe_okDe (cs : Bool) (rd : Nat → Nat → Nat) (off : Nat) (f : Field) (hc : okDe cs f = true) :
    (deField cs rd off f).isOob = false := by
  cases f with
  | prim w c => simp [deField, Out.isOob]
  | varr lp eb cap sl lpc ec =>
    simp only [okDe, decide_eq_true_eq] at hc
    simp only [deField]
    by_cases h1 : rd off lp > cmpBound cs cap sl
    · simp [h1, Out.isOob]
    · simp only [h1, if_false]
      rw [if_neg (by omega)]
      simp [Out.isOob]
  | vbits lp cap sl sm cS cD lpc =>
    simp only [okDe, decide_eq_true_eq] at hc
    simp only [deField]
    by_cases h1 : rd off lp > cD.bound cap sl
    · simp [h1, Out.isOob]
    · simp only [h1, if_false]
      rw [if_neg (by omega)]
      simp [Out.isOob]
  | farr eb cap ec => simp [deField, Out.isOob]
  | fbits cap => simp [deField, Out.isOob]

theorem deField_safe (cs : Bool) (rd : Nat → Nat → Nat) (off : Nat) (f : Field) (hc : okCmp cs f = true) :
    (deField cs rd off f).isOob = false :=
  deField_safe_okDe cs rd off f (okDe_of_okCmp hc)

/-! exactness: where the comparison does NOT protect the array there is an input that leaves the object -/

/-- with room in the buffer the element loop runs into the end of the array when asked for more elements than it has -/
theorem elemLoop_oob (capBits eb sl : Nat) : ∀ (r i off : Nat), i ≤ sl → sl < i + r → off + r * eb ≤ capBits →
    elemLoop capBits eb sl r i off = .oobObject sl sl
  | 0, i, off, h1, h2, _ => by omega
  | r + 1, i, off, h1, h2, h3 => by
    simp only [elemLoop]
    have e : off + eb + r * eb = off + (r + 1) * eb := by rw [Nat.add_mul]; omega
    by_cases hi : i ≥ sl
    · have : i = sl := by omega
      subst this
      simp
    · rw [if_neg hi, if_neg (by have := Nat.le_mul_of_pos_left eb (Nat.succ_pos r); omega)]
      exact elemLoop_oob capBits eb sl r (i + 1) (off + eb) (by omega) (by omega) (by omega)

theorem deField_oob_of_not_okDe (cs : Bool) (off : Nat) (f : Field) (h : okDe cs f = false) :
    ∃ rd, (deField cs rd off f).isOobObject = true := by
  cases f with
  | prim w c => simp [okDe] at h
  | varr lp eb cap sl lpc ec =>
    simp only [okDe, decide_eq_false_iff_not, Nat.not_le] at h
    refine ⟨fun _ _ => cmpBound cs cap sl, ?_⟩
    simp only [deField]
    rw [if_neg (by omega), if_pos h]
    rfl
  | vbits lp cap sl sm cS cD lpc =>
    simp only [okDe, decide_eq_false_iff_not, Nat.not_le] at h
    refine ⟨fun _ _ => cD.bound cap sl, ?_⟩
    simp only [deField]
    rw [if_neg (by omega), if_pos (by omega)]
    rfl
  | farr _ _ _ => simp [okDe] at h
  | fbits _ => simp [okDe] at h

theorem serField_oob_of_not_okSer (cs : Bool) (off : Nat) (f : Field) (h : okSer cs f = false) :
    ∃ capBits v, (serField cs capBits off f v).isOobObject = true := by
  cases f with
  | prim w c => simp [okSer] at h
  | varr lp eb cap sl lpc ec =>
    simp only [okSer, decide_eq_false_iff_not, Nat.not_le] at h
    refine ⟨off + lp + cmpBound cs cap sl * eb, .count (cmpBound cs cap sl), ?_⟩
    simp only [serField]
    rw [if_neg (by omega), write_none (by omega)]
    cases ec with
    | true =>
      simp only [if_true]
      rw [elemLoop_oob _ eb sl _ 0 (off + lp) (by omega) (by omega) (by omega)]
      rfl
    | false =>
      simp only [Bool.false_eq_true, if_false]
      rw [if_pos h]
      rfl
  | vbits lp cap sl sm cS cD lpc =>
    simp only [okSer, decide_eq_false_iff_not, Nat.not_le] at h
    refine ⟨off + lp + cS.bound cap sl, .count (cS.bound cap sl), ?_⟩
    simp only [serField]
    rw [if_neg (by omega), write_none (by omega)]
    simp only
    rw [if_pos (by omega)]
    rfl
  | farr _ _ _ => simp [okSer] at h
  | fbits _ => simp [okSer] at h

theorem deFields_safe (cs : Bool) (rd : Nat → Nat → Nat) : ∀ (fs : List Field) (off : Nat),
    (∀ f ∈ fs, okCmp cs f = true) → (deFields cs rd off fs).isOob = false
  | [], off, _ => by simp [deFields, Out.isOob]
  | f :: fs, off, hc => by
    have h1 := deField_safe cs rd off f (hc f (by simp))
    simp only [deFields]
    cases hr : deField cs rd off f with
    | ok off' => exact deFields_safe cs rd fs off' (fun g hg => hc g (by simp [hg]))
    | err e => simp [Out.isOob]
    | shape => simp [Out.isOob]
    | oobBuffer a b => rw [hr] at h1; simp [Out.isOob] at h1
    | oobObject a b => rw [hr] at h1; simp [Out.isOob] at h1

/-- without an override the comparison bound is the real array, whatever it compares with -/
theorem okCmp_of_noOverride (cs : Bool) {f : Field} (h : noOverride f = true) : okCmp cs f = true := by
  cases f with
  | prim _ _ => rfl
  | varr lp eb cap sl _ _ =>
    simp only [noOverride, beq_iff_eq] at h
    subst h
    cases cs <;> simp [okCmp, cmpBound]
  | vbits lp cap sl sm cS cD _ =>
    simp only [noOverride, beq_iff_eq] at h
    subst h
    have : sl ≤ 8 * bitsStorBytes sl sl sm := by cases sm <;> simp [bitsStorBytes] <;> omega
    cases cS <;> cases cD <;> simp [okCmp, Cmp.bound, this]
  | farr _ _ _ => rfl
  | fbits _ => rfl

theorem fieldMaxB_of_noOverride (cs : Bool) {f : Field} (h : noOverride f = true) : fieldMaxB cs f = fieldMax f := by
  cases f with
  | prim _ _ => rfl
  | varr lp eb cap sl _ _ =>
    simp only [noOverride, beq_iff_eq] at h
    subst h
    cases cs <;> simp [fieldMaxB, fieldMax, cmpBound]
  | vbits lp cap sl sm cS cD _ =>
    simp only [noOverride, beq_iff_eq] at h
    subst h
    cases cS <;> simp [fieldMaxB, fieldMax, Cmp.bound]
  | farr _ _ _ => rfl
  | fbits _ => rfl

theorem sumMax_congr {g h : Field → Nat} : ∀ {l : List Field}, (∀ f ∈ l, g f = h f) → sumMax g l = sumMax h l
  | [], _ => rfl
  | x :: xs, H => by
    simp only [sumMax]
    rw [H x (by simp), sumMax_congr fun f hf => H f (by simp [hf])]

theorem maxMax_congr {g h : Field → Nat} : ∀ {l : List Field}, (∀ f ∈ l, g f = h f) → maxMax g l = maxMax h l
  | [], _ => rfl
  | x :: xs, H => by
    simp only [maxMax]
    rw [H x (by simp), maxMax_congr fun f hf => H f (by simp [hf])]

/-- okCmp with the comparison against the real array holds for every non-bit array; a bit array is compared with the
    literal or the macro whatever `cmpStorage` says: there it is the condition `okBits` -/
theorem okCmp_storage (f : Field) (h : okBits f = true) : okCmp true f = true := by
  cases f <;> simp_all [okCmp, okBits, cmpBound]

theorem okCmp_iff (cs : Bool) (f : Field) : okCmp cs f = (okSer cs f && okDe cs f) := by
  cases f <;> simp [okCmp, okSer, okDe]

/-- the shipped dimension / comparison pairs of a bit array that are safe for every user-reduced capacity -/
theorem okBits_vbits (lp cap sl : Nat) (sm : Bool) (cS cD : Cmp) (lpc : Bool) (hred : sl ≤ cap)
    (hS : sm = true → cS = .macro) (hD : sm = true → cD = .macro) : okBits (.vbits lp cap sl sm cS cD lpc) = true := by
  cases sm
  · cases cS <;> cases cD <;> simp [okBits, Cmp.bound, bitsStorBytes] <;> omega
  · rw [hS rfl, hD rfl]; simp [okBits, Cmp.bound, bitsStorBytes]; omega

/-! totality: an object of the generated type never makes the routine end anywhere but in success or an error code -/

def Out.isShape : Out → Bool
  | .shape => true
  | _ => false

/-- the routine ended by returning: success or an error code -/
def Out.isExit : Out → Bool
  | .ok _ => true
  | .err _ => true
  | _ => false

theorem Out.isExit_of {r : Out} (h1 : r.isOob = false) (h2 : r.isShape = false) : r.isExit = true := by
  cases r <;> simp_all [Out.isOob, Out.isShape, Out.isExit]

theorem write_notShape {checked : Bool} {capBits off len : Nat} {r : Out}
    (h : write checked capBits off len = some r) : r.isShape = false := by
  rcases write_cases checked capBits off len with e | e | e <;> rw [e] at h <;> cases h <;> rfl

theorem elemLoop_notShape (capBits eb sl : Nat) : ∀ (r i off : Nat), (elemLoop capBits eb sl r i off).isShape = false
  | 0, _, _ => rfl
  | r + 1, i, off => by
    simp only [elemLoop]
    split
    · rfl
    · split
      · rfl
      · exact elemLoop_notShape capBits eb sl r (i + 1) (off + eb)

theorem padEnd_isShape (capBits : Nat) (r : Out) : (padEnd capBits r).isShape = r.isShape := by
  cases r <;> simp only [padEnd] <;> (try split) <;> rfl

theorem serField_notShape (cs : Bool) (capBits off : Nat) (f : Field) (v : FVal) (hf : FVal.fits f v = true) :
    (serField cs capBits off f v).isShape = false := by
  cases f with
  | prim w checked =>
    cases v with
    | prim =>
      simp only [serField]
      cases hw : write checked capBits off w with
      | some r => exact write_notShape hw
      | none => rfl
    | count c => simp [FVal.fits] at hf
  | varr lp eb cap sl lpc ec =>
    cases v with
    | prim => simp [FVal.fits] at hf
    | count c =>
      simp only [serField]
      split
      · rfl
      · cases hw : write lpc capBits off lp with
        | some r => exact write_notShape hw
        | none =>
          simp only
          split
          · exact elemLoop_notShape _ _ _ _ _ _
          · split
            · rfl
            · cases hw2 : write false capBits (off + lp) (c * eb) with
              | some r => exact write_notShape hw2
              | none => rfl
  | vbits lp cap sl sm cS cD lpc =>
    cases v with
    | prim => simp [FVal.fits] at hf
    | count c =>
      simp only [serField]
      split
      · rfl
      · cases hw : write lpc capBits off lp with
        | some r => exact write_notShape hw
        | none =>
          simp only
          split
          · rfl
          · cases hw2 : write false capBits (off + lp) c with
            | some r => exact write_notShape hw2
            | none => rfl
  | farr eb cap ec =>
    cases v with
    | count c => simp [FVal.fits] at hf
    | prim =>
      simp only [serField]
      split
      · exact elemLoop_notShape _ _ _ _ _ _
      · cases hw2 : write false capBits off (cap * eb) with
        | some r => exact write_notShape hw2
        | none => rfl
  | fbits cap =>
    cases v with
    | count c => simp [FVal.fits] at hf
    | prim =>
      simp only [serField]
      cases hw2 : write false capBits off cap with
      | some r => exact write_notShape hw2
      | none => rfl

theorem serFields_notShape (cs : Bool) (capBits : Nat) : ∀ (fs : List Field) (vs : List FVal) (off : Nat),
    fitsAll fs vs = true → (serFields cs capBits off fs vs).isShape = false
  | [], [], off, _ => rfl
  | [], _ :: _, off, h => by simp [fitsAll] at h
  | _ :: _, [], off, h => by simp [fitsAll] at h
  | f :: fs, v :: vs, off, h => by
    simp only [fitsAll, Bool.and_eq_true] at h
    have h1 := serField_notShape cs capBits off f v h.1
    simp only [serFields]
    cases hr : serField cs capBits off f v with
    | ok off' => exact serFields_notShape cs capBits fs vs off' h.2
    | err e => rfl
    | shape => rw [hr] at h1; simp [Out.isShape] at h1
    | oobBuffer a b => rfl
    | oobObject a b => rfl

theorem nth?_fits : ∀ {fs : List Field} {vs : List FVal} {k : Nat} {f : Field}, fitsAll fs vs = true → nth? fs k = some f →
    ∃ v, nth? vs k = some v ∧ FVal.fits f v = true
  | [], _, _, _, _, h => by simp [nth?] at h
  | _ :: _, [], _, _, hf, _ => by simp [fitsAll] at hf
  | g :: fs, v :: vs, 0, f, hf, h => by
    simp only [fitsAll, Bool.and_eq_true] at hf
    simp only [nth?, Option.some.injEq] at h
    subst h
    exact ⟨v, rfl, hf.1⟩
  | g :: fs, v :: vs, k + 1, f, hf, h => by
    simp only [fitsAll, Bool.and_eq_true] at hf
    simp only [nth?] at h ⊢
    exact nth?_fits hf.2 h

/-- an object of the generated type: serialization never ends in the model's `shape` outcome -/
theorem ser_notShape (checkCap cs : Bool) (m : Msg) (o : MObj) (capBytes : Nat) (hfit : MObj.fits m o = true) :
    (ser checkCap cs m o capBytes).isShape = false := by
  unfold ser
  by_cases hc : (checkCap && decide (8 * capBytes < msgMax fieldMax m)) = true
  · simp [hc, Out.isShape]
  · simp only [hc, Bool.false_eq_true, ↓reduceIte]
    cases m with
    | struct fs =>
      cases o with
      | struct vs =>
        simp only [MObj.fits] at hfit
        rw [padEnd_isShape]
        exact serFields_notShape cs _ fs vs 0 hfit
      | union _ _ => simp [MObj.fits] at hfit
    | union tb tc fs =>
      cases o with
      | struct _ => simp [MObj.fits] at hfit
      | union tag vs =>
        simp only [MObj.fits] at hfit
        simp only
        cases hw : write tc (8 * capBytes) 0 tb with
        | some r => exact write_notShape hw
        | none =>
          simp only
          cases hf : nth? fs tag with
          | none => rfl
          | some f =>
            obtain ⟨v, hv, hfv⟩ := nth?_fits hfit hf
            rw [hv]
            simp only
            rw [padEnd_isShape]
            exact serField_notShape cs _ tb f v hfv

theorem deField_notShape (cs : Bool) (rd : Nat → Nat → Nat) (off : Nat) (f : Field) : (deField cs rd off f).isShape = false := by
  cases f <;> simp only [deField] <;> (repeat' split) <;> rfl

theorem deFields_notShape (cs : Bool) (rd : Nat → Nat → Nat) : ∀ (fs : List Field) (off : Nat), (deFields cs rd off fs).isShape = false
  | [], off => rfl
  | f :: fs, off => by
    have h1 := deField_notShape cs rd off f
    simp only [deFields]
    cases hr : deField cs rd off f with
    | ok off' => exact deFields_notShape cs rd fs off'
    | err e => rfl
    | shape => rw [hr] at h1; simp [Out.isShape] at h1
    | oobBuffer a b => rfl
    | oobObject a b => rfl

theorem de_notShape (cs : Bool) (rd : Nat → Nat → Nat) (m : Msg) : (de cs rd m).isShape = false := by
  cases m with
  | struct fs => exact deFields_notShape cs rd fs 0
  | union tb tc fs =>
    simp only [de]
    cases hf : nth? fs (rd 0 tb) with
    | none => rfl
    | some f => exact deField_notShape cs rd tb f

/-! rows of the generated array-kind table -/

/-- a safe row yields, for every capacity and every user capacity not above it, a field whose comparisons protect its array -/
theorem Row.safe_field (r : Row) (h : r.safe = true) (lp eb cap usr : Nat) (hu : usr ≤ cap) :
    ∃ f, r.field lp eb cap usr = some f ∧ okCmp r.cs f = true := by
  rcases r with ⟨kind, ov, le, varLen, bits, overridable, storMacro, cS, cD, lpc, ec⟩
  cases varLen <;> cases bits <;> cases overridable <;> cases storMacro <;> cases cS <;> cases cD <;>
    simp_all [Row.safe, Row.field, Row.cs, RCmp.safeFor, RCmp.toBits, okCmp, cmpBound, Cmp.bound, bitsStorBytes] <;> omega

/-- … and a row failing the criterion that the model can express does not: DSDL capacity 16, user capacity 1 -/
theorem Row.rejected_field (r : Row) (h : r.safe = false) (lp eb : Nat) (f : Field) (hf : r.field lp eb 16 1 = some f) :
    okCmp r.cs f = false := by
  rcases r with ⟨kind, ov, le, varLen, bits, overridable, storMacro, cS, cD, lpc, ec⟩
  cases varLen <;> cases bits <;> cases overridable <;> cases storMacro <;> cases cS <;> cases cD <;>
    simp_all [Row.safe, Row.field, Row.cs, RCmp.safeFor, RCmp.toBits] <;>
    (subst hf; simp [okCmp, cmpBound, Cmp.bound, bitsStorBytes])

/-- `cmpStorage` speaks about non-bit variable-length arrays only -/
theorem okCmp_cs_irrelevant (cs cs' : Bool) (f : Field) (h : ∀ lp eb cap sl a b, f ≠ .varr lp eb cap sl a b) :
    okCmp cs f = okCmp cs' f := by
  cases f with
  | varr lp eb cap sl a b => exact absurd rfl (h lp eb cap sl a b)
  | _ => rfl

theorem Row.field_not_varr (r : Row) (hv : r.isVarr = false) (lp eb cap usr : Nat) (f : Field)
    (hf : r.field lp eb cap usr = some f) : ∀ lp' eb' cap' sl a b, f ≠ .varr lp' eb' cap' sl a b := by
  rcases r with ⟨kind, ov, le, varLen, bits, overridable, storMacro, cS, cD, lpc, ec⟩
  intro lp' eb' cap' sl a b e
  subst e
  cases varLen <;> cases bits <;> simp_all [Row.isVarr, Row.field] <;>
    (cases cS <;> cases cD <;> simp_all [RCmp.toBits])

end NunavutVerif.CBuf
