import NunavutVerif.Lemmas.GenCDePrim
/-!
GenC refinement, part 8: the structural pieces of the generated deserializer — nested calls on sub-buffers with the
remaining size, delimiter header check, the function skeleton with `min(offset, capacity) / 8`, the bulk array paths
(`nunavutGetBits` into the member array), data-free types.
-/
namespace NunavutVerif.GenC
open NunavutVerif.Dsdl NunavutVerif.Bits
open AOff

def embedD : DeErr → Err
  | .badArrayLength => eBadArrayLength
  | .badUnionTag => eBadUnionTag
  | .badDelimiterHeader => eBadDelimiterHeader

/-- `r` (a site of the generated code at `offset_bits = off`, `capacity_bytes = cap`) computes what the
specification `spec` (run on the data from `off` on) says, and leaves `offset_bits` where the specification is — or
beyond the end of the data, where it no longer matters. -/
def DeRefines {α : Type} (r : Except Err (α × Nat)) (spec : Except DeErr (α × Nat)) (cap off : Nat) : Prop :=
  match spec with
  | .ok (v, used) => ∃ off', r = .ok (v, off') ∧ Rel cap off' (off + used)
  | .error e => r = .error (embedD e)

/-- contract of a generated function `T_deserialize_`: on any sub-buffer of `size` bytes it returns the specified
object and reports `min(consumed, size)` bytes -/
def DeFnOK (inner : Buf → Nat → Except Err (Val × Nat)) (T : Ty) : Prop :=
  ∀ sub size, WF sub → size ≤ sub.length →
    match deBits T (bitsOf sub size) with
    | .ok (v, used) => inner sub size = .ok (v, min used (8 * size) / 8)
    | .error e => inner sub size = .error (embedD e)

/-! ### lengths and descriptors, decode side -/

theorem deAll_sumsEq {t : Ty} {s : AOff} {a : Nat} (ha : a = 1 ∨ a = 8)
    (h : ∀ bs v u, deBits t bs = .ok (v, u) → Adm s u ∧ u % a = 0) :
    ∀ k bs vs used, deAllWith (deBits t) k bs = .ok (vs, used) → SumsEq s k used ∧ used % a = 0 := by
  intro k
  induction k with
  | zero =>
    intro bs vs used hd
    simp [deAllWith] at hd
    obtain ⟨_, rfl⟩ := hd
    exact ⟨sumsEq_zero s, by simp⟩
  | succ k ih =>
    intro bs vs used hd
    simp only [deAllWith] at hd
    split at hd
    · cases hd
    · rename_i v n hv
      split at hd
      · cases hd
      · rename_i vs' m hm
        cases hd
        have h1 := h bs v n hv
        have h2 := ih (bs.drop n) vs' m hm
        refine ⟨?_, by rcases ha with rfl | rfl <;> omega⟩
        have := sumsEq_step h2.1 h1.1
        rwa [Nat.add_comm m n] at this

/-- the number of bits every decoding of `t` occupies is admitted by `resBits t` and keeps the alignment -/
def ResOKD (t : Ty) : Prop :=
  wf t = true → ∀ bs v used, deBits t bs = .ok (v, used) → Adm (resBits t) used ∧ used % align t = 0

theorem resOKD (t : Ty) : ResOKD t := by
  refine Ty.ind (P := ResOKD) ?_ ?_ ?_ ?_ ?_ ?_ ?_ ?_ ?_ ?_ t
  · intro n m _ bs v used h
    simp [deBits] at h; obtain ⟨_, rfl⟩ := h
    exact ⟨by simpa [resBits] using adm_single n, by simp [align, Nat.mod_one]⟩
  · intro n m _ bs v used h
    simp [deBits] at h; obtain ⟨_, rfl⟩ := h
    exact ⟨by simpa [resBits] using adm_single n, by simp [align, Nat.mod_one]⟩
  · intro n m _ bs v used h
    simp [deBits] at h; obtain ⟨_, rfl⟩ := h
    exact ⟨by simpa [resBits] using adm_single n, by simp [align, Nat.mod_one]⟩
  · intro _ bs v used h
    simp [deBits] at h; obtain ⟨_, rfl⟩ := h
    exact ⟨by simpa [resBits] using adm_single 1, by simp [align]⟩
  · intro n _ bs v used h
    simp [deBits] at h; obtain ⟨_, rfl⟩ := h
    exact ⟨by simpa [resBits] using adm_single n, by simp [align, Nat.mod_one]⟩
  · intro t n ih hw bs v used h
    simp only [wf] at hw
    simp only [deBits] at h
    split at h
    · cases h
    · rename_i vs u hu
      cases h
      have := deAll_sumsEq (align_cases t) (ih hw) n bs vs used hu
      exact ⟨adm_kfold_zero this.1, by simpa [align] using this.2⟩
  · intro t c ih hw bs v used h
    simp only [wf, Bool.and_eq_true] at hw
    simp only [deBits] at h
    split at h
    · cases h
    · rename_i hk
      split at h
      · cases h
      · rename_i vs u hu
        cases h
        have := deAll_sumsEq (align_cases t) (ih hw.2) _ _ vs u hu
        have h2 := adm_rangeRep_zero (sums_mono (sums_of_sumsEq this.1) (Nat.le_of_not_lt hk))
        have hp := stdWidth_mod8 c
        simp only [prefixBits] at *
        refine ⟨?_, ?_⟩
        · simp only [resBits]
          exact adm_congr (by omega) h2
        · simp only [align]
          rcases align_cases t with e | e <;> rw [e] at this ⊢ <;> omega
  · intro fs _ _ bs v used h
    simp only [deBits] at h
    split at h
    · cases h
    · cases h
      have := padTo_mod (a := 8) (Or.inr rfl) ‹Nat›
      exact ⟨adm_zero this, by simpa [align] using this⟩
  · intro fs _ _ bs v used h
    simp only [deBits] at h
    split at h
    · cases h
    · split at h
      · cases h
      · cases h
        have := padTo_mod (a := 8) (Or.inr rfl) (tagBits fs.length + ‹Nat›)
        exact ⟨adm_zero this, by simpa [align] using this⟩
  · intro e t _ _ bs v used h
    simp only [deBits] at h
    split at h
    · cases h
    · split at h
      · cases h
      · cases h
        have : (headerBits + 8 * readNat headerBits bs) % 8 = 0 := by simp [headerBits]
        exact ⟨adm_zero this, by simpa [align] using this⟩

/-! ### data-free types -/

def DeTrivOK (t : Ty) : Prop :=
  wf t = true → wfC t = true → maxBits t = 0 → ∀ bs, deBits t bs = .ok (trivVal t, 0)

theorem deAll_triv {t : Ty} (h : ∀ bs, deBits t bs = .ok (trivVal t, 0)) :
    ∀ k bs, deAllWith (deBits t) k bs = .ok (List.replicate k (trivVal t), 0) := by
  intro k
  induction k with
  | zero => intro bs; rfl
  | succ k ih => intro bs; simp [deAllWith, h, ih, List.replicate_succ]

theorem deFields_triv : ∀ fs : List Ty, (∀ f ∈ fs, DeTrivOK f) → wfAll fs = true → wfCAll fs = true →
    ∀ bs off, maxFields fs off = off → Dsdl.deFields fs bs off = .ok (trivVals fs, off) := by
  intro fs
  induction fs with
  | nil => intro _ _ _ bs off _; rfl
  | cons f fs ih =>
    intro hT hw hwC bs off hm
    simp only [wfAll, Bool.and_eq_true] at hw
    simp only [wfCAll, Bool.and_eq_true] at hwC
    simp only [maxFields] at hm
    have h1 := maxFields_ge fs (padTo (align f) off + maxBits f)
    have h2 := padTo_ge (align f) off
    have hpad : padTo (align f) off = off := by omega
    have hmax : maxBits f = 0 := by omega
    have hf := hT f (by simp) hw.1 hwC.1 hmax
    have hrest := ih (fun g hg => hT g (List.mem_cons_of_mem _ hg)) hw.2 hwC.2 bs off
      (by rw [hpad, hmax] at hm; simpa using hm)
    simp only [Dsdl.deFields, hpad, hf, Nat.add_zero, hrest, trivVals]

theorem deTrivOK (t : Ty) : DeTrivOK t := by
  refine Ty.ind (P := DeTrivOK) ?_ ?_ ?_ ?_ ?_ ?_ ?_ ?_ ?_ ?_ t
  · intro n m hw _ hm; simp [wf, maxBits] at hw hm; omega
  · intro n m hw _ hm; simp [wf, maxBits] at hw hm; omega
  · intro n m hw _ hm; simp [wf, maxBits] at hw hm; omega
  · intro _ _ hm; simp [maxBits] at hm
  · intro n _ hwC hm; simp [wfC, maxBits] at hwC hm; omega
  · intro t n ih hw hwC hm bs
    simp only [wf] at hw
    simp only [wfC, Bool.and_eq_true] at hwC
    simp only [maxBits, Nat.mul_eq_zero] at hm
    rcases hm with h | h
    · subst h; simp [deBits, deAllWith, trivVal]
    · simp [deBits, deAll_triv (ih hw hwC.2 h), trivVal]
  · intro t c _ _ _ hm
    simp only [maxBits, prefixBits] at hm
    rcases stdWidth_cases c with h | h | h | h <;> omega
  · intro fs ih hw hwC hm bs
    simp only [wf] at hw
    simp only [wfC] at hwC
    simp only [maxBits] at hm
    have h1 := padTo_ge 8 (maxFields fs 0)
    have := deFields_triv fs ih hw hwC bs 0 (by omega)
    simp [deBits, this, trivVal, padTo, padLen]
  · intro fs _ _ _ hm
    simp only [maxBits, tagBits] at hm
    have h1 := padTo_ge 8 (stdWidth (fs.length - 1) + maxOpts fs)
    rcases stdWidth_cases (fs.length - 1) with h | h | h | h <;> omega
  · intro e t _ _ _ hm
    simp [maxBits, headerBits] at hm

/-! ### sub-buffers -/

theorem bitsOf_zero (buf : Buf) : bitsOf buf 0 = [] := by simp [bitsOf, unpackBytes]

/-- what a nested call sees: `&buffer[k]` with `size ≤ remaining` bytes -/
theorem bitsOf_sub' {buf : Buf} {cap k size : Nat} (_hcap : cap ≤ buf.length) (h : size ≤ cap - min k cap) :
    bitsOf (buf.drop k) size = ((bitsOf buf cap).drop (8 * k)).take (8 * size) := by
  by_cases hk : k ≤ cap
  · exact bitsOf_sub (by omega)
  · have : size = 0 := by omega
    subst this
    simp [bitsOf_zero]

theorem bitsOf_remaining {buf : Buf} {cap off : Nat} (hcap : cap ≤ buf.length) (hal : off % 8 = 0) :
    bitsOf (buf.drop (off / 8)) (remainingBytes cap off) = (bitsOf buf cap).drop off := by
  unfold remainingBytes
  rw [chooseMin_eq, bitsOf_sub' hcap (Nat.le_refl _)]
  have e : 8 * (off / 8) = off := by omega
  rw [e]
  apply List.take_of_length_le
  rw [List.length_drop, bitsOf_length hcap]
  omega

/-! ### `_deserialize_composite` -/

theorem nestedDe_sealed (o : Opts) (inner : Buf → Nat → Except Err (Val × Nat)) (T : Ty) (hfn : DeFnOK inner T)
    (hused : ∀ bs v u, deBits T bs = .ok (v, u) → u % 8 = 0) (d : AOff) (buf : Buf) (cap off : Nat)
    (hw : WF buf) (hcap : cap ≤ buf.length) (hal : off % 8 = 0) :
    DeRefines (nestedDe o inner false d buf cap off) (deBits T ((bitsOf buf cap).drop off)) cap off := by
  have hrem : remainingBytes cap off = cap - min (off / 8) cap := by simp [remainingBytes, chooseMin_eq]
  have hf := hfn (buf.drop (off / 8)) (remainingBytes cap off) (WF_drop hw _)
    (by rw [List.length_drop, hrem]; omega)
  rw [bitsOf_remaining hcap hal] at hf
  unfold nestedDe
  simp only [Bool.false_eq_true, if_false]
  rw [assertC_ok o hal]
  cases hsp : deBits T ((bitsOf buf cap).drop off) with
  | error e =>
    rw [hsp] at hf
    simp only [DeRefines] at hf ⊢
    rw [hf]
  | ok r =>
    obtain ⟨v, used⟩ := r
    rw [hsp] at hf
    simp only [DeRefines] at hf ⊢
    rw [hf]
    have h8 := hused _ v used hsp
    refine ⟨_, rfl, ?_⟩
    rw [hrem]
    refine ⟨by omega, by omega, ?_⟩
    by_cases hu : used ≤ 8 * (cap - min (off / 8) cap)
    · exact Or.inl (by rw [Nat.min_eq_left hu]; omega)
    · exact Or.inr (by rw [Nat.min_eq_right (by omega)]; omega)

theorem nestedDe_delim (o : Opts) (hs : o.Sound) (inner : Buf → Nat → Except Err (Val × Nat)) (T : Ty)
    (hfn : DeFnOK inner T) (ext : Nat) (d : AOff) (buf : Buf) (cap off : Nat)
    (hw : WF buf) (hcap : cap ≤ buf.length) (hal : off % 8 = 0) (hd : Adm d off) :
    DeRefines (nestedDe o inner true d buf cap off) (deBits (.delim ext T) ((bitsOf buf cap).drop off)) cap off := by
  have hrem : remainingBytes cap (off + 32) = cap - min ((off + 32) / 8) cap := by simp [remainingBytes, chooseMin_eq]
  have hlenB := bitsOf_length hcap
  unfold nestedDe
  simp only [if_true, deBits, headerBits, List.drop_drop]
  rw [deUint_spec o hs 32 d buf cap off (by omega) (by omega) hw hcap hd]
  dsimp only
  generalize readNat 32 ((bitsOf buf cap).drop off) = h
  have hrl : ((bitsOf buf cap).drop (off + 32)).length = 8 * cap - (off + 32) := by
    rw [List.length_drop, hlenB]
  by_cases hbad : h > remainingBytes cap (off + 32)
  · have : 8 * h > ((bitsOf buf cap).drop (off + 32)).length := by rw [hrl]; rw [hrem] at hbad; omega
    simp only [hbad, this, if_true, DeRefines, embedD]
  · have hnb : ¬ 8 * h > ((bitsOf buf cap).drop (off + 32)).length := by rw [hrl]; rw [hrem] at hbad; omega
    simp only [hbad, hnb, if_false]
    rw [assertC_ok o (show (off + 32) % 8 = 0 by omega)]
    have hf := hfn (buf.drop ((off + 32) / 8)) h (WF_drop hw _) (by rw [List.length_drop]; rw [hrem] at hbad; omega)
    rw [bitsOf_sub' hcap (by rw [hrem] at hbad; omega)] at hf
    have e : 8 * ((off + 32) / 8) = off + 32 := by omega
    rw [e] at hf
    cases hsp : deBits T (((bitsOf buf cap).drop (off + 32)).take (8 * h)) with
    | error e =>
      rw [hsp] at hf
      simp only [DeRefines] at hf ⊢
      rw [hf]
    | ok r =>
      obtain ⟨v, used⟩ := r
      rw [hsp] at hf
      simp only [DeRefines] at hf ⊢
      rw [hf]
      exact ⟨_, rfl, by rw [show off + 32 + h * 8 = off + (32 + 8 * h) by omega]; exact Rel.refl _ _⟩

/-! ### the function skeleton -/

theorem topDe_fnOK (o : Opts) (maxB : Nat) (triv : Val) (body : Buf → Nat → Except Err (Val × Nat)) (T : Ty)
    (specBody : List Bool → Except DeErr (Val × Nat))
    (hT : ∀ bs, deBits T bs = match specBody bs with
      | .ok (v, off) => .ok (v, padTo 8 off)
      | .error e => .error e)
    (hbody : ∀ sub size, WF sub → size ≤ sub.length → DeRefines (body sub size) (specBody (bitsOf sub size)) size 0)
    (h0 : maxB = 0 → ∀ bs, deBits T bs = .ok (triv, 0)) :
    DeFnOK (topDe o maxB triv body) T := by
  intro sub size hw hsz
  unfold topDe
  by_cases hz : maxB = 0
  · rw [h0 hz]
    simp [hz]
  · simp only [hz, if_false]
    have hb := hbody sub size hw hsz
    rw [hT]
    cases hsp : specBody (bitsOf sub size) with
    | error e =>
      rw [hsp] at hb
      simp only [DeRefines] at hb
      simp only [hb]
    | ok r =>
      obtain ⟨v, off⟩ := r
      rw [hsp] at hb
      simp only [DeRefines] at hb
      obtain ⟨off', hb', hrel⟩ := hb
      simp only [hb', chooseMin_eq, padDe_eq 8 off' (Or.inr rfl)]
      rw [assertC_ok o (padTo_mod (a := 8) (Or.inr rfl) off'),
        assertC_ok o (show size ≥ min (padTo 8 off') (size * 8) / 8 by omega)]
      have := Rel.pad (a := 8) (Or.inr rfl) hrel
      simp only [Nat.zero_add] at this
      obtain ⟨r1, _, r3⟩ := this
      congr 2
      rcases r3 with e | e
      · rw [e, Nat.mul_comm]
      · rw [Nat.min_eq_right (by omega), Nat.min_eq_right (by omega), Nat.mul_comm]

/-! ### bulk array paths (`nunavutGetBits` into the member array) -/

/-- elements of a fixed-width primitive type decode independently, at multiples of the width -/
theorem deAll_prim {t : Ty} {w : Nat} {f : List Bool → Val} (h : ∀ bs, deBits t bs = .ok (f bs, w)) :
    ∀ k bs, deAllWith (deBits t) k bs = .ok ((List.range k).map (fun i => f (bs.drop (i * w))), k * w) := by
  intro k
  induction k with
  | zero => intro bs; simp [deAllWith]
  | succ k ih =>
    intro bs
    simp only [deAllWith, h, ih]
    congr 2
    · rw [List.range_succ_eq_map, List.map_cons, List.map_map]
      congr 1
      · simp
      · apply List.map_congr_left
        intro i _
        simp only [Function.comp, List.drop_drop]
        congr 2
        rw [Nat.succ_mul]; omega
    · rw [Nat.succ_mul]; omega

/-- value of a zero-cost primitive with wire pattern `u` -/
def primVal : Ty → Nat → Val
  | .uint _ _, u => .int u
  | .sint n _, u => .int (Dsdl.signExtend n u)
  | .float n _, u => .float (widen n u)
  | _, _ => .void

theorem deBits_zeroCost {o : Opts} {t : Ty} (hz : zeroCost o t = true) (bs : List Bool) :
    deBits t bs = .ok (primVal t (readNat (primBits t) bs), primBits t) := by
  cases t <;> simp [zeroCost] at hz <;> rfl

theorem elemVal_eq {o : Opts} {t : Ty} (hz : zeroCost o t = true) (b : Buf) : elemVal t b = primVal t (objValLE b) := by
  cases t <;> simp [zeroCost] at hz <;> rfl

theorem zeroCost_mod8 {o : Opts} {t : Ty} (hz : zeroCost o t = true) (hw : wf t = true) : primBits t % 8 = 0 := by
  cases t <;> simp [zeroCost] at hz
  · have := isStd_storW hz.2; have := storW_mod8 ‹Nat›; simp only [primBits]; omega
  · have := isStd_storW hz.2; have := storW_mod8 ‹Nat›; simp only [primBits]; omega
  · simp only [primBits]; omega

theorem deElems_nonbool (o : Opts) (t : Ty) (ht : t ≠ .bool) (elem : Nat → Except Err (Val × Nat))
    (count storN : Nat) (buf : Buf) (cap off : Nat) :
    deElems o t elem count storN buf cap off =
      if zeroCost o t then
        match liftP (getBits (List.replicate (storN * (primBits t / 8)) (o.fill % 256)) buf cap off (count * primBits t)) with
        | .error e => .error e
        | .ok r =>
          .ok ((List.range count).map (fun i => elemVal t ((r.drop (i * (primBits t / 8))).take (primBits t / 8))),
            off + count * primBits t)
      else deLoop elem count off := by
  cases t <;> first | exact absurd rfl ht | rfl

theorem deElems_bool (o : Opts) (elem : Nat → Except Err (Val × Nat)) (count storN : Nat) (buf : Buf)
    (cap off : Nat) (hcap : cap ≤ buf.length) (hc : count ≤ storN) :
    DeRefines (deElems o .bool elem count storN buf cap off)
      (deAllWith (deBits .bool) count ((bitsOf buf cap).drop off)) cap off := by
  rw [deAll_prim (t := .bool) (w := 1) (f := fun bs => .bool (readNat 1 bs == 1)) (fun bs => rfl)]
  obtain ⟨r, hr, _, _, hbits⟩ := getBits_spec (List.replicate ((storN + 7) / 8) (o.fill % 256)) buf cap off count hcap
    (by rw [List.length_replicate]; omega)
  simp only [deElems, hr, liftP, DeRefines, Nat.mul_one]
  refine ⟨_, ?_, Rel.refl _ _⟩
  congr 2
  apply List.map_congr_left
  intro i hi
  rw [List.mem_range] at hi
  rw [hbits i, if_pos (by omega), readNat_one, List.drop_drop, gb_drop, gb_bitsOf]
  simp [hi]

theorem deElems_zeroCost (o : Opts) (t : Ty) (hz : zeroCost o t = true) (hw : wf t = true)
    (elem : Nat → Except Err (Val × Nat)) (count storN : Nat) (buf : Buf)
    (cap off : Nat) (hwf : WF buf) (hcap : cap ≤ buf.length) (hc : count ≤ storN) :
    DeRefines (deElems o t elem count storN buf cap off)
      (deAllWith (deBits t) count ((bitsOf buf cap).drop off)) cap off := by
  have hb : t ≠ .bool := by intro e; subst e; simp [zeroCost] at hz
  have h8 := zeroCost_mod8 hz hw
  rw [deAll_prim (deBits_zeroCost hz), deElems_nonbool o t hb]
  simp only [hz, if_true]
  generalize hwd : primBits t = w at h8
  have hmul : count * w = count * (w / 8) * 8 := by rw [Nat.mul_assoc]; congr 1; omega
  obtain ⟨r, hr, hrl, hrwf, hbits⟩ := getBits_spec (List.replicate (storN * (w / 8)) (o.fill % 256)) buf cap off
    (count * w) hcap (by
      rw [List.length_replicate]
      have : (count * w + 7) / 8 = count * (w / 8) := by omega
      rw [this]; exact Nat.mul_le_mul_right _ hc)
  have hwr : WF r := hrwf hwf (WF_replicate' _ _ (Nat.mod_lt _ (by decide)))
  simp only [hr, liftP, DeRefines]
  refine ⟨_, ?_, Rel.refl _ _⟩
  congr 2
  apply List.map_congr_left
  intro i hi
  rw [List.mem_range] at hi
  rw [elemVal_eq hz]
  congr 1
  rw [List.drop_drop, readNat_bitsOf]
  apply Nat.eq_of_testBit_eq
  intro j
  rw [testBit_objValLE _ _ (WF_take (WF_drop hwr _) _), bitAt_take, bitAt_drop, testBit_fieldOf]
  by_cases hj : j < w
  · have h1 : j / 8 < w / 8 := by omega
    have hiw : i * w + j < count * w := by
      have : (i + 1) * w ≤ count * w := Nat.mul_le_mul_right _ (by omega)
      rw [Nat.succ_mul] at this; omega
    have e1 : 8 * (i * (w / 8)) + j = i * w + j := by
      have : 8 * (i * (w / 8)) = i * w := by rw [Nat.mul_left_comm]; congr 1; omega
      omega
    rw [e1, hbits (i * w + j), if_pos (by omega)]
    simp only [h1, hj, hiw, decide_true, Bool.true_and]
    congr 1; omega
  · have h1 : ¬ j / 8 < w / 8 := by omega
    simp [h1, hj]

end NunavutVerif.GenC
