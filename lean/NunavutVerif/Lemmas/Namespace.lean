import NunavutVerif.Model.Namespace
/-!
Helper lemmas for C11 (`Properties/C11.lean`): the pathlib fragment on identifier-shaped segments, the
unique decomposition of `Short_M_m`, the store operations, the invariants of the two passes of
`build_namespace_tree`, the traversals and the breadth-first lookup.  Core Lean only.
-/
namespace NunavutVerif.Namespace

/-! ### pathlib fragment on identifier-shaped segments -/

theorem splitSlash_noslash (s : Str) (h : '/' ∉ s) : splitSlash s = [s] := by
  induction s with
  | nil => rfl
  | cons c r ih =>
    have hc : c ≠ '/' := by intro e; subst e; simp at h
    have hr : '/' ∉ r := by intro e; exact h (List.mem_cons_of_mem _ e)
    simp [splitSlash, hc, ih hr]

theorem segParts_idseg (s : Str) (h : IdSeg s) : segParts s = [s] := by
  obtain ⟨h1, h2, h3⟩ := h
  have : keepPart s = true := by
    simp only [keepPart, Bool.and_eq_true, decide_eq_true_eq]
    refine ⟨h1, ?_⟩
    intro e; subst e; simp at h3
  simp [segParts, splitSlash_noslash s h2, this]

theorem isAbs_idseg (s : Str) (h : IdSeg s) : isAbs s = false := by
  obtain ⟨h1, h2, h3⟩ := h
  cases s with
  | nil => simp [isAbs]
  | cons c r =>
    have hc : c ≠ '/' := by intro e; subst e; simp at h2
    simp [isAbs, hc]

theorem pjoin_idseg (p : Path) (s : Str) (h : IdSeg s) : pjoin p s = p ++ [s] := by
  simp [pjoin, isAbs_idseg s h, segParts_idseg s h]

theorem foldl_pjoin_idsegs (segs : List Str) (p : Path) (h : ∀ s ∈ segs, IdSeg s) : segs.foldl pjoin p = p ++ segs := by
  induction segs generalizing p with
  | nil => simp
  | cons a r ih =>
    simp only [List.foldl_cons]
    rw [pjoin_idseg p a (h a (by simp)), ih _ (fun s hs => h s (by simp [hs]))]
    simp

theorem ofSegs_idsegs (segs : List Str) (h : ∀ s ∈ segs, IdSeg s) : ofSegs segs = segs := by
  simpa [ofSegs] using foldl_pjoin_idsegs segs [] h

theorem dropWhile_all {α} (p : α → Bool) (l : List α) (h : ∀ x ∈ l, p x = true) : l.dropWhile p = [] := by
  induction l with
  | nil => rfl
  | cons a r ih => simp [List.dropWhile_cons, h a (by simp), ih (fun x hx => h x (by simp [hx]))]

theorem stemOf_nodot (s : Str) (h : '.' ∉ s) : stemOf s = s := by
  have hd : s.reverse.dropWhile (fun c => decide (c ≠ '.')) = [] := by
    apply dropWhile_all
    intro c hc
    have : c ∈ s := by simpa using hc
    simp; intro e; subst e; exact h this
  unfold stemOf
  simp only [hd]

def ValidExt (ext : Str) : Prop := validSuffix ext = true

instance (ext : Str) : Decidable (ValidExt ext) := by unfold ValidExt; infer_instance

theorem withSuffix_idseg (p : Path) (s ext : Str) (h : IdSeg s) (he : ValidExt ext) :
    withSuffix (p ++ [s]) ext = .ok (p ++ [s ++ ext]) := by
  obtain ⟨h1, h2, h3⟩ := h
  have hne : s ≠ rootPart := by intro e; subst e; simp [rootPart] at h2
  have he' : validSuffix ext = true := he
  unfold withSuffix
  simp [he', List.getLast?_append, hne, stemOf_nodot s h3]

/-! ### store operations -/

theorem findNode_some_comps {st : Store} {k : Key} {n : Node} (h : findNode st k = some n) : n.comps = k := by
  have := List.find?_some h
  simpa using this

theorem hasKey_iff_findNode (st : Store) (k : Key) : hasKey st k = true ↔ ∃ n, findNode st k = some n := by
  unfold hasKey findNode
  constructor
  · intro h
    cases hf : st.find? (fun n => decide (n.comps = k)) with
    | some n => exact ⟨n, rfl⟩
    | none =>
      rw [List.find?_eq_none] at hf
      rw [List.any_eq_true] at h
      obtain ⟨x, hx, hp⟩ := h
      exact absurd hp (hf x hx)
  · rintro ⟨n, hn⟩
    rw [List.any_eq_true]
    exact ⟨n, List.mem_of_find?_eq_some hn, by simpa using findNode_some_comps hn⟩

theorem findNode_none_of_not_hasKey {st : Store} {k : Key} (h : hasKey st k = false) : findNode st k = none := by
  cases hf : findNode st k with
  | none => rfl
  | some n =>
    have := (hasKey_iff_findNode st k).2 ⟨n, hf⟩
    simp [h] at this

/-- `get_or_make_namespace` on the level of lookups. -/
theorem findNode_getOrMake (cfg : Cfg) (st : Store) (k k' : Key) :
    findNode (getOrMake cfg st k).1 k' =
      if hasKey st k = false ∧ k' = k then some (mkNode cfg k) else findNode st k' := by
  unfold getOrMake
  by_cases h : hasKey st k = true
  · simp [h]
  · have h' : hasKey st k = false := by simpa using h
    simp only [h', Bool.false_eq_true, ↓reduceIte, true_and]
    unfold findNode
    rw [List.find?_append]
    by_cases hk : k' = k
    · subst hk
      have := findNode_none_of_not_hasKey h'
      unfold findNode at this
      simp [this, mkNode]
    · have : ¬ (mkNode cfg k).comps = k' := by simp [mkNode]; exact fun e => hk e.symm
      simp [hk, this]

theorem findNode_modify (st : Store) (k k' : Key) (f : Node → Node) (hf : ∀ n, (f n).comps = n.comps) :
    findNode (modifyNode st k f) k' = (findNode st k').map (fun n => if n.comps = k then f n else n) := by
  unfold findNode modifyNode
  rw [List.find?_map]
  congr 1
  congr 1
  funext n
  simp only [Function.comp]
  by_cases h : n.comps = k <;> simp [h, hf]

/-- The namespace object `get_or_make_namespace(k)` returns. -/
def nodeOr (cfg : Cfg) (st : Store) (k : Key) : Node := (findNode st k).getD (mkNode cfg k)

theorem nodeOr_comps (cfg : Cfg) (st : Store) (k : Key) : (nodeOr cfg st k).comps = k := by
  unfold nodeOr
  cases h : findNode st k with
  | none => simp [mkNode]
  | some n => simpa using findNode_some_comps h

theorem findNode_getOrMake' (cfg : Cfg) (st : Store) (k k' : Key) :
    findNode (getOrMake cfg st k).1 k' = if k' = k then some (nodeOr cfg st k) else findNode st k' := by
  rw [findNode_getOrMake]
  by_cases hk : k' = k
  · subst hk
    by_cases h : hasKey st k' = true
    · obtain ⟨n, hn⟩ := (hasKey_iff_findNode st k').1 h
      simp [h, nodeOr, hn]
    · have h' : hasKey st k' = false := by simpa using h
      simp [h', nodeOr, findNode_none_of_not_hasKey h']
  · simp [hk]

theorem findNode_ensure_modify (cfg : Cfg) (st : Store) (k k' : Key) (f : Node → Node)
    (hf : ∀ n, (f n).comps = n.comps) :
    findNode (modifyNode (getOrMake cfg st k).1 k f) k' =
      if k' = k then some (f (nodeOr cfg st k)) else findNode st k' := by
  rw [findNode_modify _ _ _ _ hf, findNode_getOrMake']
  by_cases hk : k' = k
  · subst hk; simp [nodeOr_comps]
  · simp only [hk, ↓reduceIte]
    cases h : findNode st k' with
    | none => rfl
    | some n =>
      have := findNode_some_comps h
      simp [this, hk]

theorem findNode_step1 (cfg : Cfg) (s : S1) (t : Ty) (k' : Key) :
    findNode (step1 cfg s t).store k' =
      if k' = t.ns then
        some { nodeOr cfg s.store t.ns with
               types := insertTy (nodeOr cfg s.store t.ns).types t (outputPath cfg t) }
      else findNode s.store k' := by
  unfold step1
  simp only
  rw [findNode_ensure_modify cfg s.store t.ns k' (fun n => { n with types := insertTy n.types t (outputPath cfg t) }) (fun _ => rfl)]

theorem dropLast_ne_self {α} (k : List α) (h : k.dropLast ≠ []) : k.dropLast ≠ k := by
  intro e
  have := congrArg List.length e
  cases k with
  | nil => simp at h
  | cons a r => simp at this

theorem findNode_step2 (same : Key → Key → Bool) (cfg : Cfg) (st : Store) (k k' : Key) :
    findNode (step2By same cfg st k) k' =
      if k.dropLast = [] then (if k' = k then some (nodeOr cfg st k) else findNode st k')
      else if k' = k then some { nodeOr cfg st k with parent := some k.dropLast }
      else if k' = k.dropLast then
        some { nodeOr cfg st k.dropLast with
               nested := addNestedBy same (nodeOr cfg st k.dropLast).nested k }
      else findNode st k' := by
  unfold step2By
  simp only
  by_cases hp : k.dropLast = []
  · simp only [hp, ↓reduceIte]
    rw [findNode_getOrMake']
  · have hne := dropLast_ne_self k hp
    simp only [hp, ↓reduceIte]
    rw [findNode_modify _ k k' (fun n => { n with parent := some k.dropLast }) (fun _ => rfl),
      findNode_ensure_modify cfg _ k.dropLast k' (fun n => { n with nested := addNestedBy same n.nested k }) (fun _ => rfl)]
    by_cases h1 : k' = k
    · subst h1
      have : ¬ (k' = k'.dropLast) := fun e => hne e.symm
      simp only [this, ↓reduceIte]
      rw [findNode_getOrMake']
      simp [nodeOr_comps]
    · by_cases h2 : k' = k.dropLast
      · subst h2
        have hn : nodeOr cfg (getOrMake cfg st k).1 k.dropLast = nodeOr cfg st k.dropLast := by
          unfold nodeOr; rw [findNode_getOrMake']; simp [hne]
        simp [h1, hn, nodeOr_comps, hne]
      · simp only [h1, h2, ↓reduceIte]
        rw [findNode_getOrMake']
        simp only [h1, ↓reduceIte]
        cases h : findNode st k' with
        | none => rfl
        | some n => simp [findNode_some_comps h, h1]

theorem nodeOr_types (cfg : Cfg) (st : Store) (k : Key) : (nodeOr cfg st k).types = typesOf st k := by
  unfold nodeOr typesOf; cases findNode st k <;> simp [mkNode]
theorem nodeOr_nested (cfg : Cfg) (st : Store) (k : Key) : (nodeOr cfg st k).nested = nestedOf st k := by
  unfold nodeOr nestedOf; cases findNode st k <;> simp [mkNode]
theorem nodeOr_parent (cfg : Cfg) (st : Store) (k : Key) : (nodeOr cfg st k).parent = parentOf st k := by
  unfold nodeOr parentOf; cases findNode st k <;> simp [mkNode]

theorem hasKey_eq_isSome (st : Store) (k : Key) : hasKey st k = (findNode st k).isSome := by
  cases h : findNode st k with
  | none =>
    cases hk : hasKey st k with
    | false => rfl
    | true => obtain ⟨n, hn⟩ := (hasKey_iff_findNode st k).1 hk; simp [h] at hn
  | some n => simpa using (hasKey_iff_findNode st k).2 ⟨n, h⟩

/-! #### first pass, one step, seen through the accessors -/

theorem typesOf_eq (st : Store) (k : Key) : typesOf st k = ((findNode st k).map (·.types)).getD [] := by
  unfold typesOf; cases findNode st k <;> rfl
theorem nestedOf_eq (st : Store) (k : Key) : nestedOf st k = ((findNode st k).map (·.nested)).getD [] := by
  unfold nestedOf; cases findNode st k <;> rfl
theorem parentOf_eq (st : Store) (k : Key) : parentOf st k = (findNode st k).bind (·.parent) := by
  unfold parentOf; cases findNode st k <;> rfl

theorem typesOf_step1 (cfg : Cfg) (s : S1) (t : Ty) (k : Key) :
    typesOf (step1 cfg s t).store k =
      if k = t.ns then insertTy (typesOf s.store t.ns) t (outputPath cfg t) else typesOf s.store k := by
  rw [typesOf_eq, findNode_step1]
  by_cases h : k = t.ns
  · subst h; simp [nodeOr_types]
  · simp [h, typesOf_eq]

theorem nestedOf_step1 (cfg : Cfg) (s : S1) (t : Ty) (k : Key) :
    nestedOf (step1 cfg s t).store k = nestedOf s.store k := by
  rw [nestedOf_eq, findNode_step1]
  by_cases h : k = t.ns
  · subst h; simp [nodeOr_nested]
  · simp [h, nestedOf_eq]

theorem parentOf_step1 (cfg : Cfg) (s : S1) (t : Ty) (k : Key) :
    parentOf (step1 cfg s t).store k = parentOf s.store k := by
  rw [parentOf_eq, findNode_step1]
  by_cases h : k = t.ns
  · subst h; simp [nodeOr_parent]
  · simp [h, parentOf_eq]

theorem hasKey_step1 (cfg : Cfg) (s : S1) (t : Ty) (k : Key) :
    hasKey (step1 cfg s t).store k = (hasKey s.store k || decide (k = t.ns)) := by
  rw [hasKey_eq_isSome, hasKey_eq_isSome, findNode_step1]
  by_cases h : k = t.ns <;> simp [h]

theorem idx_step1 (cfg : Cfg) (s : S1) (t : Ty) :
    (step1 cfg s t).idx =
      if hasKey s.store t.ns then s.idx else indexAncestors t.ns t.ns.length s.idx := by
  unfold step1 getOrMake
  by_cases h : hasKey s.store t.ns = true <;> simp [h]

/-! #### `d[t] = p` -/

theorem mem_insertTy (l : List (Ty × PathR)) (t : Ty) (p : PathR) (e : Ty × PathR) :
    e ∈ insertTy l t p ↔ (e ∈ l ∧ e.1 ≠ t) ∨ e = (t, p) := by
  unfold insertTy
  by_cases h : l.any (fun e => decide (e.1 = t)) = true
  · simp only [h, ↓reduceIte, List.mem_map]
    constructor
    · rintro ⟨x, hx, rfl⟩
      by_cases hxt : x.1 = t
      · right; simp [hxt]
      · left; simp [hxt, hx]
    · rintro (⟨he, hne⟩ | rfl)
      · exact ⟨e, he, by simp [hne]⟩
      · rw [List.any_eq_true] at h
        obtain ⟨x, hx, hxt⟩ := h
        have hxt' : x.1 = t := by simpa using hxt
        exact ⟨x, hx, by simp [hxt']⟩
  · simp only [h, Bool.false_eq_true, ↓reduceIte, List.mem_append, List.mem_singleton]
    have h' : ∀ x ∈ l, x.1 ≠ t := by
      intro x hx hxt
      apply h; rw [List.any_eq_true]; exact ⟨x, hx, by simp [hxt]⟩
    constructor
    · rintro (he | rfl)
      · left; exact ⟨he, h' e he⟩
      · right; rfl
    · rintro (⟨he, _⟩ | rfl)
      · left; exact he
      · right; rfl

theorem keys_insertTy_nodup (l : List (Ty × PathR)) (t : Ty) (p : PathR)
    (h : (l.map (·.1)).Nodup) : ((insertTy l t p).map (·.1)).Nodup := by
  unfold insertTy
  by_cases ha : l.any (fun e => decide (e.1 = t)) = true
  · simp only [ha, ↓reduceIte, List.map_map]
    have : ((fun x : Ty × PathR => x.1) ∘ fun e => if e.1 = t then (e.1, p) else e) = (fun x => x.1) := by
      funext e; simp only [Function.comp]; split <;> rfl
    rw [this]; exact h
  · simp only [ha, Bool.false_eq_true, ↓reduceIte, List.map_append, List.map_cons, List.map_nil]
    rw [List.nodup_append]
    refine ⟨h, by simp, ?_⟩
    intro a ha' b hb
    simp at hb; subst hb
    intro e; subst e
    apply ha
    rw [List.any_eq_true]
    obtain ⟨x, hx, hxa⟩ := List.mem_map.1 ha'
    exact ⟨x, hx, by simp [hxa]⟩

/-! ### namespaces = non-empty prefixes -/

theorem isNs_append (L : List Key) (n k : Key) : IsNs (L ++ [n]) k ↔ IsNs L k ∨ (k ≠ [] ∧ k <+: n) := by
  unfold IsNs
  constructor
  · rintro ⟨h1, m, hm, hp⟩
    rcases List.mem_append.1 hm with hm | hm
    · exact Or.inl ⟨h1, m, hm, hp⟩
    · simp at hm; subst hm; exact Or.inr ⟨h1, hp⟩
  · rintro (⟨h1, m, hm, hp⟩ | ⟨h1, hp⟩)
    · exact ⟨h1, m, by simp [hm], hp⟩
    · exact ⟨h1, n, by simp, hp⟩

theorem isNs_prefix {L : List Key} {k k' : Key} (h : IsNs L k) (hp : k' <+: k) (hne : k' ≠ []) : IsNs L k' := by
  obtain ⟨_, n, hn, hkn⟩ := h
  exact ⟨hne, n, hn, hp.trans hkn⟩

theorem take_ne_nil {α} (l : List α) (j : Nat) (hj : 0 < j) (hl : l ≠ []) : l.take j ≠ [] := by
  cases l with
  | nil => exact absurd rfl hl
  | cons a r => cases j with
    | zero => omega
    | succ j => simp

theorem isNs_take {L : List Key} {k : Key} (h : IsNs L k) (j : Nat) (hj : 0 < j) : IsNs L (k.take j) :=
  isNs_prefix h (List.take_prefix j k) (take_ne_nil k j hj h.1)

theorem isNs_dropLast {L : List Key} {k : Key} (h : IsNs L k) (hne : k.dropLast ≠ []) : IsNs L k.dropLast :=
  isNs_prefix h (List.dropLast_prefix k) hne

theorem nonempty_prefix_iff_take (x n : Key) : (x ≠ [] ∧ x <+: n) ↔ ∃ j, 0 < j ∧ j ≤ n.length ∧ x = n.take j := by
  constructor
  · rintro ⟨hne, hp⟩
    refine ⟨x.length, ?_, hp.length_le, List.prefix_iff_eq_take.1 hp⟩
    cases x with
    | nil => exact absurd rfl hne
    | cons a r => simp
  · rintro ⟨j, hj, hjn, rfl⟩
    refine ⟨?_, List.take_prefix j n⟩
    apply take_ne_nil _ _ hj
    intro e; subst e; simp at hjn; omega

/-! ### the ancestor loop with its early `break` -/

theorem mem_indexAncestors (k : Key) (i : Nat) (idx : List Key) (hi : i ≤ k.length)
    (hclosed : ∀ j, 0 < j → j ≤ i → k.take j ∈ idx → ∀ j', 0 < j' → j' ≤ j → k.take j' ∈ idx) (x : Key) :
    x ∈ indexAncestors k i idx ↔ x ∈ idx ∨ ∃ j, 0 < j ∧ j ≤ i ∧ x = k.take j := by
  induction i generalizing idx with
  | zero => simp [indexAncestors]; intro j hj hj0; omega
  | succ i ih =>
    unfold indexAncestors
    by_cases hm : k.take (i + 1) ∈ idx
    · simp only [hm, ↓reduceIte]
      constructor
      · exact Or.inl
      · rintro (h | ⟨j, hj, hji, rfl⟩)
        · exact h
        · exact hclosed (i + 1) (by omega) (by omega) hm j hj hji
    · simp only [hm, ↓reduceIte]
      rw [ih (idx ++ [k.take (i + 1)]) (by omega)]
      · simp only [List.mem_append, List.mem_singleton]
        constructor
        · rintro ((h | h) | ⟨j, hj, hji, rfl⟩)
          · exact Or.inl h
          · exact Or.inr ⟨i + 1, by omega, by omega, h⟩
          · exact Or.inr ⟨j, hj, by omega, rfl⟩
        · rintro (h | ⟨j, hj, hji, rfl⟩)
          · exact Or.inl (Or.inl h)
          · by_cases hj' : j = i + 1
            · subst hj'; exact Or.inl (Or.inr rfl)
            · exact Or.inr ⟨j, hj, by omega, rfl⟩
      · intro j hj hji hmem j' hj' hj'j
        rcases List.mem_append.1 hmem with hmem | hmem
        · exact List.mem_append_left _ (hclosed j hj (by omega) hmem j' hj' hj'j)
        · simp at hmem
          omega

theorem foldl_inv {σ α} (f : σ → α → σ) (P : σ → List α → Prop)
    (hstep : ∀ s l a, P s l → P (f s a) (l ++ [a])) :
    ∀ (l pre : List α) (s : σ), P s pre → P (l.foldl f s) (pre ++ l) := by
  intro l
  induction l with
  | nil => intro pre s h; simpa using h
  | cons a r ih =>
    intro pre s h
    have := ih (pre ++ [a]) (f s a) (hstep s pre a h)
    simpa using this

/-! ### invariant of the first pass -/

structure Inv1 (cfg : Cfg) (s : S1) (done : List Ty) : Prop where
  keys : ∀ k, hasKey s.store k = true ↔ ∃ t ∈ done, t.ns = k
  types : ∀ k e, e ∈ typesOf s.store k ↔ (e.1 ∈ done ∧ e.1.ns = k ∧ e.2 = outputPath cfg e.1)
  typesNodup : ∀ k, ((typesOf s.store k).map (·.1)).Nodup
  idx : ∀ k, k ∈ s.idx ↔ IsNs (done.map (·.ns)) k
  nested : ∀ k, nestedOf s.store k = []
  parent : ∀ k, parentOf s.store k = none

theorem inv1_init (cfg : Cfg) : Inv1 cfg ⟨[], []⟩ [] := by
  refine ⟨?_, ?_, ?_, ?_, ?_, ?_⟩ <;> intros <;> simp [hasKey, typesOf, nestedOf, parentOf, findNode, IsNs]

theorem inv1_step (cfg : Cfg) (s : S1) (done : List Ty) (t : Ty) (h : Inv1 cfg s done) :
    Inv1 cfg (step1 cfg s t) (done ++ [t]) := by
  refine ⟨?_, ?_, ?_, ?_, ?_, ?_⟩
  · intro k
    rw [hasKey_step1]
    simp only [Bool.or_eq_true, decide_eq_true_eq, h.keys, List.mem_append, List.mem_singleton]
    constructor
    · rintro (⟨t', ht', rfl⟩ | rfl)
      · exact ⟨t', Or.inl ht', rfl⟩
      · exact ⟨t, Or.inr rfl, rfl⟩
    · rintro ⟨t', ht' | rfl, rfl⟩
      · exact Or.inl ⟨t', ht', rfl⟩
      · exact Or.inr rfl
  · intro k e
    rw [typesOf_step1]
    by_cases hk : k = t.ns
    · subst hk
      simp only [↓reduceIte, mem_insertTy, h.types, List.mem_append, List.mem_singleton]
      constructor
      · rintro (⟨⟨h1, h2, h3⟩, _⟩ | rfl)
        · exact ⟨Or.inl h1, h2, h3⟩
        · exact ⟨Or.inr rfl, rfl, rfl⟩
      · rintro ⟨h1 | h1, h2, h3⟩
        · by_cases he : e.1 = t
          · right; exact Prod.ext he (by rw [h3, he])
          · left; exact ⟨⟨h1, h2, h3⟩, he⟩
        · right; exact Prod.ext h1 (by rw [h3, h1])
    · simp only [hk, ↓reduceIte, h.types, List.mem_append, List.mem_singleton]
      constructor
      · rintro ⟨h1, h2, h3⟩; exact ⟨Or.inl h1, h2, h3⟩
      · rintro ⟨h1 | h1, h2, h3⟩
        · exact ⟨h1, h2, h3⟩
        · exfalso; apply hk; rw [← h2, h1]
  · intro k
    rw [typesOf_step1]
    by_cases hk : k = t.ns
    · subst hk; simp only [↓reduceIte]; exact keys_insertTy_nodup _ _ _ (h.typesNodup _)
    · simp only [hk, ↓reduceIte]; exact h.typesNodup k
  · intro k
    rw [idx_step1, List.map_append, List.map_cons, List.map_nil, isNs_append]
    by_cases hx : hasKey s.store t.ns = true
    · simp only [hx, ↓reduceIte, h.idx]
      constructor
      · exact Or.inl
      · rintro (hk | ⟨hne, hp⟩)
        · exact hk
        · obtain ⟨t', ht', hns⟩ := (h.keys t.ns).1 hx
          exact ⟨hne, t'.ns, List.mem_map.2 ⟨t', ht', rfl⟩, by rw [hns]; exact hp⟩
    · simp only [hx, Bool.false_eq_true, ↓reduceIte]
      rw [mem_indexAncestors t.ns t.ns.length s.idx (Nat.le_refl _), h.idx, nonempty_prefix_iff_take]
      intro j hj hjl hmem j' hj' hj'j
      rw [h.idx] at hmem ⊢
      have : t.ns.take j' = (t.ns.take j).take j' := by rw [List.take_take]; congr 1; omega
      rw [this]
      exact isNs_take hmem j' hj'
  · intro k; rw [nestedOf_step1]; exact h.nested k
  · intro k; rw [parentOf_step1]; exact h.parent k

theorem inv1_loop1 (cfg : Cfg) (ts : List Ty) : Inv1 cfg (loop1 cfg ts) ts := by
  have := foldl_inv (step1 cfg) (Inv1 cfg) (fun s l a h => inv1_step cfg s l a h) ts [] ⟨[], []⟩ (inv1_init cfg)
  simpa [loop1] using this

/-! #### second pass, one step, seen through the accessors -/

theorem hasKey_step2 (same : Key → Key → Bool) (cfg : Cfg) (st : Store) (k k' : Key) :
    hasKey (step2By same cfg st k) k' =
      (hasKey st k' || decide (k' = k) || (decide (k.dropLast ≠ []) && decide (k' = k.dropLast))) := by
  rw [hasKey_eq_isSome, hasKey_eq_isSome, findNode_step2]
  by_cases hp : k.dropLast = []
  · by_cases h1 : k' = k <;> simp [hp, h1]
  · by_cases h1 : k' = k
    · simp [hp, h1]
    · by_cases h2 : k' = k.dropLast
      · subst h2; simp [hp, dropLast_ne_self k hp]
      · simp [hp, h1, h2]

theorem typesOf_step2 (same : Key → Key → Bool) (cfg : Cfg) (st : Store) (k k' : Key) :
    typesOf (step2By same cfg st k) k' = typesOf st k' := by
  rw [typesOf_eq, findNode_step2]
  by_cases hp : k.dropLast = []
  · by_cases h1 : k' = k
    · subst h1; simp [hp, nodeOr_types]
    · simp [hp, h1, typesOf_eq]
  · by_cases h1 : k' = k
    · subst h1; simp [hp, nodeOr_types]
    · by_cases h2 : k' = k.dropLast
      · subst h2; simp [hp, h1, nodeOr_types]
      · simp [hp, h1, h2, typesOf_eq]

theorem nestedOf_step2 (same : Key → Key → Bool) (cfg : Cfg) (st : Store) (k k' : Key) :
    nestedOf (step2By same cfg st k) k' =
      if k.dropLast ≠ [] ∧ k' = k.dropLast then addNestedBy same (nestedOf st k') k else nestedOf st k' := by
  rw [nestedOf_eq, findNode_step2]
  by_cases hp : k.dropLast = []
  · by_cases h1 : k' = k
    · subst h1; simp [hp, nodeOr_nested]
    · simp [hp, h1, nestedOf_eq]
  · have hne := dropLast_ne_self k hp
    by_cases h1 : k' = k
    · subst h1
      have : ¬ k' = k'.dropLast := fun e => hne e.symm
      simp [hp, nodeOr_nested, this]
    · by_cases h2 : k' = k.dropLast
      · subst h2; simp [hp, h1, nodeOr_nested]
      · simp [hp, h1, h2, nestedOf_eq]

theorem parentOf_step2 (same : Key → Key → Bool) (cfg : Cfg) (st : Store) (k k' : Key) :
    parentOf (step2By same cfg st k) k' =
      if k.dropLast ≠ [] ∧ k' = k then some k.dropLast else parentOf st k' := by
  rw [parentOf_eq, findNode_step2]
  by_cases hp : k.dropLast = []
  · by_cases h1 : k' = k
    · subst h1; simp [hp, nodeOr_parent]
    · simp [hp, h1, parentOf_eq]
  · by_cases h1 : k' = k
    · subst h1; simp [hp]
    · by_cases h2 : k' = k.dropLast
      · subst h2; simp [hp, h1, nodeOr_parent]
      · simp [hp, h1, h2, parentOf_eq]

theorem mem_addNested (l : List Key) (k c : Key) : c ∈ addNestedBy sameNs l k ↔ c ∈ l ∨ c = k := by
  unfold addNestedBy
  by_cases h : l.any (fun x => sameNs x k) = true
  · simp only [h, ↓reduceIte]
    rw [List.any_eq_true] at h
    obtain ⟨x, hx, hxk⟩ := h
    have : x = k := by simpa [sameNs] using hxk
    subst this
    constructor
    · exact Or.inl
    · rintro (h | rfl)
      · exact h
      · exact hx
  · simp [h]

theorem addNested_nodup (l : List Key) (k : Key) (h : l.Nodup) : (addNestedBy sameNs l k).Nodup := by
  unfold addNestedBy
  by_cases ha : l.any (fun x => sameNs x k) = true
  · simp [ha, h]
  · simp only [ha, Bool.false_eq_true, ↓reduceIte]
    rw [List.nodup_append]
    refine ⟨h, by simp, ?_⟩
    intro a ha' b hb
    simp at hb; subst hb
    intro e; subst e
    apply ha
    rw [List.any_eq_true]
    exact ⟨a, ha', by simp [sameNs]⟩

/-! ### invariant of the second pass -/

structure Inv2 (L : List Key) (st1 st : Store) (done : List Key) : Prop where
  keysP : ∀ k, hasKey st k = true → IsNs L k
  keysDone : ∀ k ∈ done, hasKey st k = true
  keysMono : ∀ k, hasKey st1 k = true → hasKey st k = true
  types : ∀ k, typesOf st k = typesOf st1 k
  nested : ∀ k c, c ∈ nestedOf st k ↔ c ∈ done ∧ c.dropLast = k ∧ k ≠ []
  nestedNodup : ∀ k, (nestedOf st k).Nodup
  parent : ∀ c, parentOf st c = if c ∈ done ∧ c.dropLast ≠ [] then some c.dropLast else none

theorem inv2_step (cfg : Cfg) (L : List Key) (st1 st : Store) (done : List Key) (k : Key)
    (hk : IsNs L k) (h : Inv2 L st1 st done) : Inv2 L st1 (step2 cfg st k) (done ++ [k]) := by
  unfold step2
  refine ⟨?_, ?_, ?_, ?_, ?_, ?_, ?_⟩
  · intro k'
    rw [hasKey_step2]
    simp only [Bool.or_eq_true, Bool.and_eq_true, decide_eq_true_eq]
    rintro ((h1 | rfl) | ⟨hp, rfl⟩)
    · exact h.keysP k' h1
    · exact hk
    · exact isNs_dropLast hk hp
  · intro k' hk'
    rw [hasKey_step2]
    rcases List.mem_append.1 hk' with hk' | hk'
    · simp [h.keysDone k' hk']
    · simp at hk'; simp [hk']
  · intro k' hk'
    rw [hasKey_step2]; simp [h.keysMono k' hk']
  · intro k'; rw [typesOf_step2]; exact h.types k'
  · intro k' c
    rw [nestedOf_step2]
    by_cases hc : k.dropLast ≠ [] ∧ k' = k.dropLast
    · obtain ⟨hp, rfl⟩ := hc
      simp only [hp, ne_eq, not_false_eq_true, and_self, ↓reduceIte, mem_addNested, h.nested,
        List.mem_append, List.mem_singleton]
      constructor
      · rintro (⟨h1, h2, h3⟩ | rfl)
        · exact ⟨Or.inl h1, h2, h3⟩
        · exact ⟨Or.inr rfl, rfl, trivial⟩
      · rintro ⟨h1 | rfl, h2, _⟩
        · exact Or.inl ⟨h1, h2, by simpa using hp⟩
        · exact Or.inr rfl
    · simp only [hc, ↓reduceIte, h.nested, List.mem_append, List.mem_singleton]
      constructor
      · rintro ⟨h1, h2, h3⟩; exact ⟨Or.inl h1, h2, h3⟩
      · rintro ⟨h1 | rfl, h2, h3⟩
        · exact ⟨h1, h2, h3⟩
        · exfalso; apply hc; subst h2; exact ⟨h3, rfl⟩
  · intro k'
    rw [nestedOf_step2]
    split
    · exact addNested_nodup _ _ (h.nestedNodup k')
    · exact h.nestedNodup k'
  · intro c
    rw [parentOf_step2, h.parent]
    by_cases hc : c = k
    · subst hc
      by_cases hp : c.dropLast = [] <;> simp [hp]
    · simp [hc]

theorem inv2_init (L : List Key) (st1 : Store) (hP : ∀ k, hasKey st1 k = true → IsNs L k)
    (hn : ∀ k, nestedOf st1 k = []) (hp : ∀ k, parentOf st1 k = none) : Inv2 L st1 st1 [] := by
  refine ⟨hP, by simp, fun _ h => h, fun _ => rfl, ?_, ?_, ?_⟩
  · intro k c; simp [hn]
  · intro k; simp [hn]
  · intro c; simp [hp]

theorem inv2_loop2 (cfg : Cfg) (L : List Key) (st1 : Store) (ks : List Key)
    (hks : ∀ k ∈ ks, IsNs L k) (h0 : Inv2 L st1 st1 []) : Inv2 L st1 (loop2 cfg st1 ks) ks := by
  have key : ∀ (l pre : List Key) (s : Store), (∀ k ∈ l, IsNs L k) → Inv2 L st1 s pre →
      Inv2 L st1 (l.foldl (step2 cfg) s) (pre ++ l) := by
    intro l
    induction l with
    | nil => intro pre s _ h; simpa using h
    | cons a r ih =>
      intro pre s hl h
      have := ih (pre ++ [a]) (step2 cfg s a) (fun k hk => hl k (by simp [hk]))
        (inv2_step cfg L st1 s pre a (hl a (by simp)) h)
      simpa using this
  have := key ks [] st1 hks h0
  exact this

/-! ### traversals of a store that has the shape of the prefix tree of `L` -/

structure Shape (L : List Key) (st : Store) : Prop where
  nested : ∀ k c, c ∈ nestedOf st k ↔ IsNs L c ∧ c.dropLast = k ∧ k ≠ []
  nestedNodup : ∀ k, (nestedOf st k).Nodup
  bound : ∀ k, IsNs L k → k.length ≤ maxLen st

theorem dropLast_length_of {α} {c k : List α} (h : c.dropLast = k) (hne : c ≠ []) : c.length = k.length + 1 := by
  subst h
  cases c with
  | nil => exact absurd rfl hne
  | cons a r => simp

theorem prefix_of_dropLast {α} {c k : List α} (h : c.dropLast = k) : k <+: c := by
  subst h; exact List.dropLast_prefix c

theorem dropLast_take_succ {α} (p : List α) (n : Nat) (h : n + 1 ≤ p.length) :
    (p.take (n + 1)).dropLast = p.take n := by
  rw [List.dropLast_eq_take, List.take_take]
  congr 1
  simp; omega

theorem prefix_eq_of_length_eq {α} {a b p : List α} (ha : a <+: p) (hb : b <+: p) (hl : a.length = b.length) :
    a = b := by
  rw [List.prefix_iff_eq_take] at ha hb
  rw [ha, hb, hl]

theorem nsGen_spec (L : List Key) (st : Store) (hs : Shape L st) :
    ∀ (f : Nat) (k : Key), IsNs L k → maxLen st < f + k.length →
      (nsGen st f k).Nodup ∧ ∀ p, p ∈ nsGen st f k ↔ IsNs L p ∧ k <+: p := by
  intro f
  induction f with
  | zero =>
    intro k hk hlt
    have := hs.bound k hk
    omega
  | succ f ih =>
    intro k hk hlt
    have hch : ∀ c ∈ nestedOf st k, IsNs L c ∧ c.length = k.length + 1 ∧ k <+: c := by
      intro c hc
      obtain ⟨h1, h2, _⟩ := (hs.nested k c).1 hc
      exact ⟨h1, dropLast_length_of h2 h1.1, prefix_of_dropLast h2⟩
    have ihc : ∀ c ∈ nestedOf st k, (nsGen st f c).Nodup ∧ ∀ p, p ∈ nsGen st f c ↔ IsNs L p ∧ c <+: p := by
      intro c hc
      obtain ⟨h1, h2, _⟩ := hch c hc
      exact ih c h1 (by omega)
    have hmem : ∀ p, p ∈ nsGen st (f + 1) k ↔ IsNs L p ∧ k <+: p := by
      intro p
      simp only [nsGen, List.mem_cons, List.mem_flatMap]
      constructor
      · rintro (rfl | ⟨c, hc, hp⟩)
        · exact ⟨hk, List.prefix_refl _⟩
        · obtain ⟨h1, h2⟩ := ((ihc c hc).2 p).1 hp
          exact ⟨h1, (hch c hc).2.2.trans h2⟩
      · rintro ⟨hp, hkp⟩
        by_cases he : p = k
        · exact Or.inl he
        · right
          have hlen : k.length < p.length := by
            rcases Nat.lt_or_ge k.length p.length with h | h
            · exact h
            · exfalso; apply he
              exact (prefix_eq_of_length_eq hkp (List.prefix_refl p) (Nat.le_antisymm hkp.length_le h)).symm
          refine ⟨p.take (k.length + 1), ?_, ?_⟩
          · rw [hs.nested]
            refine ⟨isNs_take hp _ (by omega), ?_, hk.1⟩
            rw [dropLast_take_succ p k.length (by omega)]
            exact (List.prefix_iff_eq_take.1 hkp).symm
          · have hc : p.take (k.length + 1) ∈ nestedOf st k := by
              rw [hs.nested]
              refine ⟨isNs_take hp _ (by omega), ?_, hk.1⟩
              rw [dropLast_take_succ p k.length (by omega)]
              exact (List.prefix_iff_eq_take.1 hkp).symm
            exact ((ihc _ hc).2 p).2 ⟨hp, List.take_prefix _ _⟩
    refine ⟨?_, hmem⟩
    simp only [nsGen, List.nodup_cons, List.mem_flatMap, not_exists, not_and]
    refine ⟨?_, ?_⟩
    · intro c hc hkc
      have := (((ihc c hc).2 k).1 hkc).2.length_le
      have := (hch c hc).2.1
      omega
    · unfold List.Nodup
      rw [List.pairwise_flatMap]
      refine ⟨fun c hc => (ihc c hc).1, ?_⟩
      have hnd := hs.nestedNodup k
      unfold List.Nodup at hnd
      refine List.Pairwise.imp_of_mem ?_ hnd
      intro a b ha hb hab x hx y hy hxy
      subst hxy
      have h1 := (((ihc a ha).2 x).1 hx).2
      have h2 := (((ihc b hb).2 x).1 hy).2
      apply hab
      exact prefix_eq_of_length_eq h1 h2 (by rw [(hch a ha).2.1, (hch b hb).2.1])

theorem flatMap_congr' {α β} {l : List α} {f g : α → List β} (h : ∀ a ∈ l, f a = g a) :
    l.flatMap f = l.flatMap g := by
  induction l with
  | nil => rfl
  | cons a r ih => simp [List.flatMap_cons, h a (by simp), ih (fun x hx => h x (by simp [hx]))]

theorem typeGen_eq (st : Store) (f : Nat) (k : Key) :
    typeGen st f k = (nsGen st f k).flatMap (typesOf st) := by
  induction f generalizing k with
  | zero => simp [typeGen, nsGen]
  | succ f ih =>
    simp only [typeGen, nsGen, List.flatMap_cons, List.flatMap_assoc]
    congr 1
    apply flatMap_congr'
    intro c _; exact ih c

/-- What `get_all_types` yields for one namespace: the namespace, then its own types. -/
def itemsOf (st : Store) (k : Key) : List Item := Item.ns k :: (typesOf st k).map (fun e => Item.ty e.1 e.2)

theorem allGen_eq (st : Store) (f : Nat) (k : Key) :
    allGen st f k = (nsGen st f k).flatMap (itemsOf st) := by
  induction f generalizing k with
  | zero => simp [allGen, nsGen]
  | succ f ih =>
    simp only [allGen, nsGen, List.flatMap_cons, List.flatMap_assoc, itemsOf, List.cons_append]
    congr 2
    apply flatMap_congr'
    intro c _; rw [ih c]

theorem le_foldl_max (st : Store) (m : Nat) :
    m ≤ st.foldl (fun m n => max m n.comps.length) m ∧
    ∀ n ∈ st, n.comps.length ≤ st.foldl (fun m n => max m n.comps.length) m := by
  induction st generalizing m with
  | nil => simp
  | cons a r ih =>
    simp only [List.foldl_cons, List.mem_cons, forall_eq_or_imp]
    have := ih (max m a.comps.length)
    refine ⟨by omega, by omega, this.2⟩

theorem length_le_maxLen (st : Store) (k : Key) (h : hasKey st k = true) : k.length ≤ maxLen st := by
  obtain ⟨n, hn⟩ := (hasKey_iff_findNode st k).1 h
  have hm : n ∈ st := List.mem_of_find?_eq_some hn
  have := (le_foldl_max st 0).2 n hm
  rw [findNode_some_comps hn] at this
  exact this

/-! ### the finished tree -/

/-- All types live in one root namespace `r`. -/
def OneRoot (r : Str) (ts : List Ty) : Prop := ∀ t ∈ ts, t.ns.head? = some r

/-- The namespaces of a type list. -/
def nsOf (ts : List Ty) : List Key := ts.map (·.ns)

theorem ns_ne_nil {r : Str} {ts : List Ty} (h : OneRoot r ts) {t : Ty} (ht : t ∈ ts) : t.ns ≠ [] := by
  intro e; have := h t ht; simp [e] at this

theorem isNs_ns {ts : List Ty} {r : Str} (h : OneRoot r ts) {t : Ty} (ht : t ∈ ts) : IsNs (nsOf ts) t.ns :=
  ⟨ns_ne_nil h ht, t.ns, List.mem_map.2 ⟨t, ht, rfl⟩, List.prefix_refl _⟩

theorem take_one_of_isNs {ts : List Ty} {r : Str} (h : OneRoot r ts) {k : Key} (hk : IsNs (nsOf ts) k) :
    k.take 1 = [r] := by
  obtain ⟨hne, n, hn, hp⟩ := hk
  obtain ⟨t, ht, rfl⟩ := List.mem_map.1 hn
  have hr := h t ht
  cases k with
  | nil => exact absurd rfl hne
  | cons a rest =>
    obtain ⟨s, hs⟩ := hp
    rw [← hs] at hr
    simp at hr
    simp [hr]

theorem root_prefix_of_isNs {ts : List Ty} {r : Str} (h : OneRoot r ts) {k : Key} (hk : IsNs (nsOf ts) k) :
    [r] <+: k := by
  rw [← take_one_of_isNs h hk]; exact List.take_prefix 1 k

structure Built (cfg : Cfg) (ts : List Ty) (r : Str) (tr : Tree) : Prop where
  root : tr.root = [r]
  rootNs : IsNs (nsOf ts) [r]
  shape : Shape (nsOf ts) tr.store
  keys : ∀ k, hasKey tr.store k = true ↔ IsNs (nsOf ts) k
  types : ∀ k e, e ∈ typesOf tr.store k ↔ (e.1 ∈ ts ∧ e.1.ns = k ∧ e.2 = outputPath cfg e.1)
  typesNodup : ∀ k, ((typesOf tr.store k).map (·.1)).Nodup
  parentSome : ∀ c, IsNs (nsOf ts) c → c.dropLast ≠ [] → parentOf tr.store c = some c.dropLast
  parentNone : ∀ c, c.dropLast = [] → parentOf tr.store c = none

theorem climb_spec (L : List Key) (st : Store)
    (hparS : ∀ c, IsNs L c → c.dropLast ≠ [] → parentOf st c = some c.dropLast)
    (hparN : ∀ c, c.dropLast = [] → parentOf st c = none) :
    ∀ (f : Nat) (k : Key), IsNs L k → k.length ≤ f + 1 → climb st f k = k.take 1 := by
  intro f
  induction f with
  | zero =>
    intro k hk hl
    simp only [climb]
    exact (List.take_of_length_le hl).symm
  | succ f ih =>
    intro k hk hl
    simp only [climb]
    by_cases hd : k.dropLast = []
    · simp only [hparN k hd]
      have : k.length ≤ 1 := by
        have := congrArg List.length hd; simp at this; omega
      exact (List.take_of_length_le this).symm
    · simp only [hparS k hk hd]
      rw [ih k.dropLast (isNs_dropLast hk hd) (by simp; omega)]
      rw [List.dropLast_eq_take, List.take_take]
      congr 1
      have : k.dropLast.length ≥ 1 := by
        cases h : k.dropLast with
        | nil => exact absurd h hd
        | cons a r => simp
      simp at this
      omega

theorem built_buildWith (cfg : Cfg) (ts : List Ty) (r : Str) (ks : List Key)
    (hne : ts ≠ []) (hroot : OneRoot r ts) (hks : ∀ k, k ∈ ks ↔ k ∈ (loop1 cfg ts).idx) :
    Built cfg ts r (buildWith cfg ts ks) := by
  have i1 := inv1_loop1 cfg ts
  have hksP : ∀ k, k ∈ ks ↔ IsNs (nsOf ts) k := fun k => by rw [hks, i1.idx]; rfl
  have hP1 : ∀ k, hasKey (loop1 cfg ts).store k = true → IsNs (nsOf ts) k := by
    intro k hk
    obtain ⟨t, ht, rfl⟩ := (i1.keys k).1 hk
    exact isNs_ns hroot ht
  have i2 := inv2_loop2 cfg (nsOf ts) (loop1 cfg ts).store ks (fun k hk => (hksP k).1 hk)
    (inv2_init _ _ hP1 i1.nested i1.parent)
  have hkeys : ∀ k, hasKey (loop2 cfg (loop1 cfg ts).store ks) k = true ↔ IsNs (nsOf ts) k :=
    fun k => ⟨i2.keysP k, fun h => i2.keysDone k ((hksP k).2 h)⟩
  have hparS : ∀ c, IsNs (nsOf ts) c → c.dropLast ≠ [] →
      parentOf (loop2 cfg (loop1 cfg ts).store ks) c = some c.dropLast := by
    intro c hc hd; rw [i2.parent]; simp [(hksP c).2 hc, hd]
  have hparN : ∀ c, c.dropLast = [] → parentOf (loop2 cfg (loop1 cfg ts).store ks) c = none := by
    intro c hd; rw [i2.parent]; simp [hd]
  obtain ⟨t0, ht0⟩ := List.exists_mem_of_ne_nil ts hne
  have hst : loop2 cfg (loop1 cfg ts).store ks ≠ [] := by
    intro e
    have := (hkeys t0.ns).2 (isNs_ns hroot ht0)
    simp [e, hasKey] at this
  have hrootNs : IsNs (nsOf ts) [r] := by
    have := isNs_take (isNs_ns hroot ht0) 1 (by omega)
    rwa [take_one_of_isNs hroot (isNs_ns hroot ht0)] at this
  have hfin : (buildWith cfg ts ks).store = loop2 cfg (loop1 cfg ts).store ks := by
    unfold buildWith finish; cases hs : loop2 cfg (loop1 cfg ts).store ks with
    | nil => exact absurd hs hst
    | cons n rest => rfl
  refine ⟨?_, hrootNs, ⟨?_, ?_, ?_⟩, ?_, ?_, ?_, ?_, ?_⟩
  · unfold buildWith finish
    cases hs : loop2 cfg (loop1 cfg ts).store ks with
    | nil => exact absurd hs hst
    | cons n rest =>
      simp only
      have hn : IsNs (nsOf ts) n.comps := by
        apply (hkeys n.comps).1
        rw [hs]; simp [hasKey]
      rw [← hs, climb_spec (nsOf ts) _ hparS hparN _ _ hn (by omega), take_one_of_isNs hroot hn]
  · intro k c; rw [hfin, i2.nested, hksP]
  · intro k; rw [hfin]; exact i2.nestedNodup k
  · intro k hk; rw [hfin]; exact length_le_maxLen _ _ ((hkeys k).2 hk)
  · rw [hfin]; exact hkeys
  · intro k e; rw [hfin, i2.types, i1.types]
  · intro k; rw [hfin, i2.types]; exact i1.typesNodup k
  · rw [hfin]; exact hparS
  · rw [hfin]; exact hparN

/-! ### breadth-first lookup -/

/-- Number of namespaces at and below `k`. -/
def sz (st : Store) (k : Key) : Nat := (nsGen st (depthFuel st k) k).length

def qsize (st : Store) (q : List Key) : Nat := (q.map (sz st)).sum

theorem nsGen_unfold (L : List Key) (st : Store) (hs : Shape L st) (k : Key) (hk : IsNs L k) :
    nsGen st (depthFuel st k) k = k :: (nestedOf st k).flatMap (fun c => nsGen st (depthFuel st c) c) := by
  have hb := hs.bound k hk
  have : depthFuel st k = (maxLen st - k.length) + 1 := by unfold depthFuel; omega
  rw [this]
  simp only [nsGen]
  congr 1
  apply flatMap_congr'
  intro c hc
  obtain ⟨h1, h2, _⟩ := (hs.nested k c).1 hc
  have := dropLast_length_of h2 h1.1
  congr 1
  unfold depthFuel; omega

theorem sz_unfold (L : List Key) (st : Store) (hs : Shape L st) (k : Key) (hk : IsNs L k) :
    sz st k = 1 + qsize st (nestedOf st k) := by
  unfold sz qsize
  rw [nsGen_unfold L st hs k hk, List.length_cons, List.length_flatMap, Nat.add_comm]
  rfl

theorem qsize_cons (st : Store) (k : Key) (q : List Key) : qsize st (k :: q) = sz st k + qsize st q := by
  simp [qsize]

theorem qsize_append (st : Store) (q q' : List Key) : qsize st (q ++ q') = qsize st q + qsize st q' := by
  simp [qsize]

theorem lookupTy_some_mem {l : List (Ty × PathR)} {t : Ty} {p : PathR} (h : lookupTy l t = some p) :
    (t, p) ∈ l := by
  unfold lookupTy at h
  cases hf : l.find? (fun e => decide (e.1 = t)) with
  | none => simp [hf] at h
  | some e =>
    simp [hf] at h
    have h1 : e.1 = t := by simpa using List.find?_some hf
    have h2 := List.mem_of_find?_eq_some hf
    rw [← h1, ← h]; exact h2

theorem lookupTy_none {l : List (Ty × PathR)} {t : Ty} (h : ∀ e ∈ l, e.1 ≠ t) : lookupTy l t = none := by
  unfold lookupTy
  have : l.find? (fun e => decide (e.1 = t)) = none := by
    rw [List.find?_eq_none]; intro e he; simpa using h e he
  simp [this]

theorem lookupTy_isSome {l : List (Ty × PathR)} {t : Ty} {p : PathR} (h : (t, p) ∈ l) :
    ∃ q, lookupTy l t = some q := by
  unfold lookupTy
  cases hf : l.find? (fun e => decide (e.1 = t)) with
  | none =>
    rw [List.find?_eq_none] at hf
    have := hf (t, p) h
    simp at this
  | some e => exact ⟨e.2, rfl⟩

/-- Facts about the type dictionaries the lookup needs (members of `Built`). -/
structure TypesOk (cfg : Cfg) (ts : List Ty) (st : Store) : Prop where
  types : ∀ k e, e ∈ typesOf st k ↔ (e.1 ∈ ts ∧ e.1.ns = k ∧ e.2 = outputPath cfg e.1)

theorem lookup_own (cfg : Cfg) (ts : List Ty) (st : Store) (ht : TypesOk cfg ts st) (t : Ty) (k : Key) :
    (t ∈ ts ∧ t.ns = k → lookupTy (typesOf st k) t = some (outputPath cfg t)) ∧
    (∀ p, lookupTy (typesOf st k) t = some p → p = outputPath cfg t ∧ t ∈ ts ∧ t.ns = k) := by
  have hsome : ∀ p, lookupTy (typesOf st k) t = some p → p = outputPath cfg t ∧ t ∈ ts ∧ t.ns = k := by
    intro p hp
    have := (ht.types k (t, p)).1 (lookupTy_some_mem hp)
    exact ⟨this.2.2, this.1, this.2.1⟩
  refine ⟨?_, hsome⟩
  rintro ⟨h1, h2⟩
  obtain ⟨q, hq⟩ := lookupTy_isSome ((ht.types k (t, outputPath cfg t)).2 ⟨h1, h2, rfl⟩)
  rw [hq, (hsome q hq).1]

theorem bfs_hit (cfg : Cfg) (ts : List Ty) (L : List Key) (st : Store) (hs : Shape L st)
    (ht : TypesOk cfg ts st) (t : Ty) (htin : t ∈ ts) (hns : IsNs L t.ns) (skip : Key) (hskip : t.ns ≠ skip) :
    ∀ (f : Nat) (q : List Key), (∀ k ∈ q, IsNs L k) → qsize st q ≤ f → (∃ k ∈ q, k <+: t.ns) →
      bfsBy sameNs st t skip f q = .hit (outputPath cfg t) := by
  intro f
  induction f with
  | zero =>
    intro q hq hsz ⟨k, hk, _⟩
    cases q with
    | nil => simp at hk
    | cons k0 q' =>
      rw [qsize_cons, sz_unfold L st hs k0 (hq k0 (by simp))] at hsz
      omega
  | succ f ih =>
    intro q hq hsz ⟨k, hk, hkp⟩
    cases q with
    | nil => simp at hk
    | cons k0 q' =>
      have hk0 := hq k0 (by simp)
      simp only [bfsBy]
      cases hm : (if sameNs k0 skip = true then none else lookupTy (typesOf st k0) t) with
      | some p =>
        simp only
        have : lookupTy (typesOf st k0) t = some p := by
          by_cases hsn : sameNs k0 skip = true
          · simp [hsn] at hm
          · simpa [hsn] using hm
        rw [((lookup_own cfg ts st ht t k0).2 p this).1]
      | none =>
        simp only
        have hne : k0 ≠ t.ns := by
          intro e
          subst e
          have h1 : sameNs t.ns skip = false := by simp [sameNs, hskip]
          rw [h1] at hm
          simp [(lookup_own cfg ts st ht t t.ns).1 ⟨htin, rfl⟩] at hm
        apply ih
        · intro k' hk'
          rcases List.mem_append.1 hk' with h | h
          · exact hq k' (by simp [h])
          · exact ((hs.nested k0 k').1 h).1
        · rw [qsize_append]
          rw [qsize_cons, sz_unfold L st hs k0 hk0] at hsz
          omega
        · rcases List.mem_cons.1 hk with rfl | hk'
          · have hlen : k.length < t.ns.length := by
              rcases Nat.lt_or_ge k.length t.ns.length with h | h
              · exact h
              · exfalso; apply hne
                exact prefix_eq_of_length_eq hkp (List.prefix_refl _) (Nat.le_antisymm hkp.length_le h)
            refine ⟨t.ns.take (k.length + 1), ?_, List.take_prefix _ _⟩
            apply List.mem_append_right
            rw [hs.nested]
            refine ⟨isNs_take hns _ (by omega), ?_, hk0.1⟩
            rw [dropLast_take_succ _ _ (by omega)]
            exact (List.prefix_iff_eq_take.1 hkp).symm
          · exact ⟨k, List.mem_append_left _ hk', hkp⟩

theorem bfs_miss (cfg : Cfg) (ts : List Ty) (L : List Key) (st : Store) (hs : Shape L st)
    (ht : TypesOk cfg ts st) (t : Ty) (htout : t ∉ ts) (skip : Key) :
    ∀ (f : Nat) (q : List Key), (∀ k ∈ q, IsNs L k) → qsize st q < f →
      bfsBy sameNs st t skip f q = .keyError := by
  intro f
  induction f with
  | zero => intro q _ h; omega
  | succ f ih =>
    intro q hq hsz
    cases q with
    | nil => simp [bfsBy]
    | cons k0 q' =>
      have hk0 := hq k0 (by simp)
      have hl : lookupTy (typesOf st k0) t = none := by
        apply lookupTy_none
        intro e he h
        exact htout (h ▸ ((ht.types k0 e).1 he).1)
      simp only [bfsBy, hl, ite_self]
      apply ih
      · intro k' hk'
        rcases List.mem_append.1 hk' with h | h
        · exact hq k' (by simp [h])
        · exact ((hs.nested k0 k').1 h).1
      · rw [qsize_append]
        rw [qsize_cons, sz_unfold L st hs k0 hk0] at hsz
        omega

/-! ### the path formula -/

theorem shortRef_eq (cfg : Cfg) (t : Ty) : shortRef cfg t = estrop cfg (shortVer t) := by
  unfold shortRef estrop; rfl
theorem nsList_eq (cfg : Cfg) (t : Ty) : nsList cfg t = t.ns.map (estrop cfg) := by
  unfold nsList estrop; split <;> simp

theorem idseg_ne_root {s : Str} (h : IdSeg s) : s ≠ rootPart := by
  intro e; subst e; exact h.2.1 (by simp [rootPart])

theorem idseg_append_ne_root {s ext : Str} (h : IdSeg s) : s ++ ext ≠ rootPart := by
  obtain ⟨h1, h2, _⟩ := h
  cases s with
  | nil => exact absurd rfl h1
  | cons c r =>
    intro e
    simp [rootPart] at e
    apply h2; simp [e.1]

theorem pathJoin_rel (a b : Path) (h : b.head? ≠ some rootPart) : pathJoin a b = a ++ b := by
  unfold pathJoin; simp [h]

/-- Hypotheses under which pathlib takes every name as exactly one part: the stropped namespace
components and the stropped `Short_M_m` are identifier-shaped, the extension is a valid suffix. -/
structure NamesOk (cfg : Cfg) (t : Ty) : Prop where
  comps : ∀ c ∈ t.ns, IdSeg (estrop cfg c)
  name : IdSeg (estrop cfg (shortVer t))
  ext : ValidExt cfg.ext

theorem makePath_formula (cfg : Cfg) (t : Ty) (h : NamesOk cfg t) :
    makePath cfg t = .ok (t.ns.map (estrop cfg) ++ [estrop cfg (shortVer t) ++ cfg.ext]) := by
  unfold makePath
  rw [shortRef_eq, nsList_eq, pjoin_idseg [] _ h.name]
  have := withSuffix_idseg [] _ cfg.ext h.name h.ext
  simp only [List.nil_append] at this ⊢
  rw [this]
  simp only
  rw [ofSegs_idsegs _ (by intro s hs; obtain ⟨c, hc, rfl⟩ := List.mem_map.1 hs; exact h.comps c hc)]
  rw [pathJoin_rel]
  simp only [List.head?_cons]
  intro e
  exact idseg_append_ne_root h.name (Option.some.inj e)

theorem rel_head_ne_root (cfg : Cfg) (t : Ty) (h : NamesOk cfg t) :
    (t.ns.map (estrop cfg) ++ [estrop cfg (shortVer t) ++ cfg.ext]).head? ≠ some rootPart := by
  cases hns : t.ns with
  | nil =>
    simp only [List.map_nil, List.nil_append, List.head?_cons]
    intro e; exact idseg_append_ne_root h.name (Option.some.inj e)
  | cons c r =>
    simp only [List.map_cons, List.cons_append, List.head?_cons]
    intro e
    exact idseg_ne_root (h.comps c (by simp [hns])) (Option.some.inj e)

theorem outputPath_formula (cfg : Cfg) (t : Ty) (h : NamesOk cfg t) :
    outputPath cfg t =
      .ok (basePath cfg ++ (t.ns.map (estrop cfg) ++ [estrop cfg (shortVer t) ++ cfg.ext])) := by
  unfold outputPath
  rw [makePath_formula cfg t h]
  simp only
  rw [pathJoin_rel _ _ (rel_head_ne_root cfg t h)]

theorem nsOutputPath_formula (cfg : Cfg) (k : Key) (hk : ∀ c ∈ k, IdSeg (cfg.strop c))
    (hstem : IdSeg cfg.stem) (hext : ValidExt cfg.ext) :
    nsOutputPath cfg k = .ok (basePath cfg ++ k.map cfg.strop ++ [cfg.stem ++ cfg.ext]) := by
  unfold nsOutputPath nsFolder
  rw [ofSegs_idsegs _ (by intro s hs; obtain ⟨c, hc, rfl⟩ := List.mem_map.1 hs; exact hk c hc)]
  rw [pjoin_idseg [] _ hstem]
  have h1 : (k.map cfg.strop).head? ≠ some rootPart := by
    cases k with
    | nil => simp
    | cons c r =>
      simp only [List.map_cons, List.head?_cons]
      intro e; exact idseg_ne_root (hk c (by simp)) (Option.some.inj e)
  rw [pathJoin_rel _ _ h1, pathJoin_rel _ _ (by simp; exact fun e => idseg_ne_root hstem e)]
  simp only [List.nil_append]
  rw [withSuffix_idseg _ _ _ hstem hext]

/-! ### `Short_M_m` decomposes uniquely -/

theorem split_first_gen (ch : Char) {a b x y : Str} (ha : ch ∉ a) (hb : ch ∉ b) (h : a ++ ch :: x = b ++ ch :: y) :
    a = b ∧ x = y := by
  induction a generalizing b with
  | nil =>
    cases b with
    | nil => simpa using h
    | cons c r => simp at h; exact absurd (h.1 ▸ (by simp : c ∈ c :: r)) hb
  | cons c r ih =>
    cases b with
    | nil => simp at h; exact absurd (h.1 ▸ (by simp : c ∈ c :: r)) ha
    | cons d s =>
      simp at h
      obtain ⟨h1, h2⟩ := ih (b := s) (fun e => ha (by simp [e])) (fun e => hb (by simp [e])) h.2
      exact ⟨by rw [h.1, h1], h2⟩

theorem split_first {a b x y : Str} (ha : '_' ∉ a) (hb : '_' ∉ b) (h : a ++ '_' :: x = b ++ '_' :: y) :
    a = b ∧ x = y := split_first_gen '_' ha hb h

theorem split_last {a b x y : Str} (hx : '_' ∉ x) (hy : '_' ∉ y) (h : a ++ '_' :: x = b ++ '_' :: y) :
    a = b ∧ x = y := by
  have h' := congrArg List.reverse h
  simp only [List.reverse_append, List.reverse_cons, List.append_assoc, List.singleton_append] at h'
  obtain ⟨h1, h2⟩ := split_first (by simpa using hx) (by simpa using hy) h'
  exact ⟨List.reverse_inj.1 h2, List.reverse_inj.1 h1⟩

theorem verStr_inj {a b : Nat} (h : verStr a = verStr b) : a = b := by
  have := congrArg (fun l => Nat.ofDigitChars 10 l 0) h
  simpa [verStr, Nat.ofDigitChars_ten_toDigits] using this

theorem shortVer_inj {t u : Ty} (h : shortVer t = shortVer u) :
    t.short = u.short ∧ t.major = u.major ∧ t.minor = u.minor := by
  unfold shortVer at h
  have h1 : (t.short ++ '_' :: verStr t.major) ++ '_' :: verStr t.minor =
      (u.short ++ '_' :: verStr u.major) ++ '_' :: verStr u.minor := by simpa using h
  obtain ⟨h2, h3⟩ := split_last Nat.underscore_not_in_toDigits Nat.underscore_not_in_toDigits h1
  obtain ⟨h4, h5⟩ := split_last Nat.underscore_not_in_toDigits Nat.underscore_not_in_toDigits h2
  exact ⟨h4, verStr_inj h5, verStr_inj h3⟩

theorem map_injOn {α β} (f : α → β) : ∀ (l l' : List α),
    (∀ a ∈ l, ∀ b ∈ l', f a = f b → a = b) → l.map f = l'.map f → l = l'
  | [], [], _, _ => rfl
  | [], _ :: _, _, h => by simp at h
  | _ :: _, [], _, h => by simp at h
  | a :: r, b :: s, hinj, h => by
    simp only [List.map_cons, List.cons.injEq] at h
    rw [hinj a (by simp) b (by simp) h.1,
      map_injOn f r s (fun x hx y hy => hinj x (by simp [hx]) y (by simp [hy])) h.2]

/-! ### containment and relative paths -/

/-- `p` lies below `base`: `base` followed by at least one part, every part non-empty, without `/`
and not `..`. -/
def Inside (base p : Path) : Prop :=
  ∃ rel, p = base ++ rel ∧ rel ≠ [] ∧ ∀ s ∈ rel, s ≠ [] ∧ '/' ∉ s ∧ s ≠ ['.', '.']

theorem validSuffix_noslash {ext : Str} (h : ValidExt ext) : '/' ∉ ext := by
  unfold ValidExt validSuffix at h
  simp only [Bool.or_eq_true, decide_eq_true_eq, Bool.and_eq_true, Bool.not_eq_true'] at h
  rcases h with rfl | ⟨_, h⟩
  · simp
  · intro hm
    have : ext.contains '/' = true := by simpa using hm
    rw [this] at h; exact absurd h (by simp)

theorem idseg_safe {s : Str} (h : IdSeg s) : s ≠ [] ∧ '/' ∉ s ∧ s ≠ ['.', '.'] :=
  ⟨h.1, h.2.1, fun e => h.2.2 (by simp [e])⟩

theorem file_safe {s ext : Str} (h : IdSeg s) (he : ValidExt ext) :
    s ++ ext ≠ [] ∧ '/' ∉ s ++ ext ∧ s ++ ext ≠ ['.', '.'] := by
  obtain ⟨h1, h2, h3⟩ := h
  refine ⟨by simp [h1], ?_, ?_⟩
  · simp only [List.mem_append, not_or]; exact ⟨h2, validSuffix_noslash he⟩
  · cases s with
    | nil => exact absurd rfl h1
    | cons c r =>
      intro e
      simp at e
      apply h3; simp [e.1]

theorem relativeTo_append (base rel : Path) (h : rel.head? ≠ some rootPart) :
    relativeTo (base ++ rel) base = .ok rel := by
  unfold relativeTo
  have h1 : ¬ ((base ++ rel).head? = some rootPart ∧ base.head? ≠ some rootPart) := by
    rintro ⟨ha, hb⟩
    cases base with
    | nil => exact h (by simpa using ha)
    | cons b r => exact hb (by simpa using ha)
  have h2 : base.isPrefixOf (base ++ rel) = true := by
    rw [List.isPrefixOf_iff_prefix]; exact List.prefix_append _ _
  rw [if_neg h1, if_pos h2]
  simp

/-! ### the dotted full name identifies the component list -/

theorem joinDot_inj : ∀ (xs ys : List Str), xs ≠ [] → ys ≠ [] →
    (∀ x ∈ xs, '.' ∉ x) → (∀ y ∈ ys, '.' ∉ y) →
    joinWith ['.'] xs = joinWith ['.'] ys → xs = ys
  | [], _, h, _, _, _, _ => absurd rfl h
  | _, [], _, h, _, _, _ => absurd rfl h
  | [a], [b], _, _, _, _, h => by simpa [joinWith] using h
  | [a], b :: c :: r, _, _, ha, hb, h => by
    exfalso
    simp only [joinWith, List.singleton_append, List.append_assoc] at h
    apply ha a (by simp)
    rw [h]; simp
  | a :: a' :: r, [b], _, _, ha, hb, h => by
    exfalso
    simp only [joinWith, List.singleton_append, List.append_assoc] at h
    apply hb b (by simp)
    rw [← h]; simp
  | a :: a' :: r, b :: b' :: s, _, _, ha, hb, h => by
    simp only [joinWith, List.singleton_append, List.append_assoc] at h
    obtain ⟨h1, h2⟩ := split_first_gen '.' (ha a (by simp)) (hb b (by simp)) h
    rw [h1, joinDot_inj (a' :: r) (b' :: s) (by simp) (by simp)
      (fun x hx => ha x (by simp [hx])) (fun y hy => hb y (by simp [hy])) h2]

/-! ### namespace output paths stored in the nodes -/

theorem nodeOr_path (cfg : Cfg) (st : Store) (k : Key) : (nodeOr cfg st k).outPath = pathOf cfg st k := by
  unfold nodeOr pathOf; cases findNode st k <;> simp [mkNode]

theorem pathOf_eq (cfg : Cfg) (st : Store) (k : Key) :
    pathOf cfg st k = ((findNode st k).map (·.outPath)).getD (nsOutputPath cfg k) := by
  unfold pathOf; cases findNode st k <;> rfl

theorem pathOf_step1 (cfg : Cfg) (s : S1) (t : Ty) (k : Key) :
    pathOf cfg (step1 cfg s t).store k = pathOf cfg s.store k := by
  rw [pathOf_eq, findNode_step1]
  by_cases h : k = t.ns
  · subst h; simp [nodeOr_path]
  · simp [h, pathOf_eq]

theorem pathOf_step2 (same : Key → Key → Bool) (cfg : Cfg) (st : Store) (k k' : Key) :
    pathOf cfg (step2By same cfg st k) k' = pathOf cfg st k' := by
  rw [pathOf_eq, findNode_step2]
  by_cases hp : k.dropLast = []
  · by_cases h1 : k' = k
    · subst h1; simp [hp, nodeOr_path]
    · simp [hp, h1, pathOf_eq]
  · by_cases h1 : k' = k
    · subst h1; simp [hp, nodeOr_path]
    · by_cases h2 : k' = k.dropLast
      · subst h2; simp [hp, h1, nodeOr_path]
      · simp [hp, h1, h2, pathOf_eq]

theorem pathOf_foldl_step1 (cfg : Cfg) (ts : List Ty) (s : S1) (k : Key) :
    pathOf cfg (ts.foldl (step1 cfg) s).store k = pathOf cfg s.store k := by
  induction ts generalizing s with
  | nil => rfl
  | cons t r ih => simp only [List.foldl_cons]; rw [ih, pathOf_step1]

theorem pathOf_foldl_step2 (same : Key → Key → Bool) (cfg : Cfg) (ks : List Key) (st : Store) (k : Key) :
    pathOf cfg (ks.foldl (step2By same cfg) st) k = pathOf cfg st k := by
  induction ks generalizing st with
  | nil => rfl
  | cons a r ih => simp only [List.foldl_cons]; rw [ih, pathOf_step2]

theorem pathOf_built (cfg : Cfg) (ts : List Ty) (ks : List Key) (k : Key) :
    pathOf cfg (loop2 cfg (loop1 cfg ts).store ks) k = nsOutputPath cfg k := by
  unfold loop2 loop2By loop1
  rw [pathOf_foldl_step2, pathOf_foldl_step1]
  rfl

theorem hasKey_of_mem_keysOf (st : Store) (k : Key) (h : k ∈ keysOf st) : hasKey st k = true := by
  unfold keysOf at h
  obtain ⟨n, hn, rfl⟩ := List.mem_map.1 h
  unfold hasKey
  rw [List.any_eq_true]
  exact ⟨n, hn, by simp⟩

theorem buildWith_store (cfg : Cfg) (ts : List Ty) (r : Str) (ks : List Key)
    (hne : ts ≠ []) (hroot : OneRoot r ts) (hks : ∀ k, k ∈ ks ↔ k ∈ (loop1 cfg ts).idx) :
    (buildWith cfg ts ks).store = loop2 cfg (loop1 cfg ts).store ks := by
  have i1 := inv1_loop1 cfg ts
  have hksP : ∀ k, k ∈ ks ↔ IsNs (nsOf ts) k := fun k => by rw [hks, i1.idx]; rfl
  have hP1 : ∀ k, hasKey (loop1 cfg ts).store k = true → IsNs (nsOf ts) k := by
    intro k hk
    obtain ⟨t, ht, rfl⟩ := (i1.keys k).1 hk
    exact isNs_ns hroot ht
  have i2 := inv2_loop2 cfg (nsOf ts) (loop1 cfg ts).store ks (fun k hk => (hksP k).1 hk)
    (inv2_init _ _ hP1 i1.nested i1.parent)
  obtain ⟨t0, ht0⟩ := List.exists_mem_of_ne_nil ts hne
  have hst : loop2 cfg (loop1 cfg ts).store ks ≠ [] := by
    intro e
    have := i2.keysDone t0.ns ((hksP t0.ns).2 (isNs_ns hroot ht0))
    simp [e, hasKey] at this
  unfold buildWith finish
  cases hs : loop2 cfg (loop1 cfg ts).store ks with
  | nil => exact absurd hs hst
  | cons n rest => rfl

/-! ### the support output folder and support files -/

theorem nodeOr_base (cfg : Cfg) (st : Store) (k : Key) : (nodeOr cfg st k).base = baseOf cfg st k := by
  unfold nodeOr baseOf; cases findNode st k <;> simp [mkNode]

theorem baseOf_eq (cfg : Cfg) (st : Store) (k : Key) :
    baseOf cfg st k = ((findNode st k).map (·.base)).getD (basePath cfg) := by
  unfold baseOf; cases findNode st k <;> rfl

theorem baseOf_step1 (cfg : Cfg) (s : S1) (t : Ty) (k : Key) :
    baseOf cfg (step1 cfg s t).store k = baseOf cfg s.store k := by
  rw [baseOf_eq, findNode_step1]
  by_cases h : k = t.ns
  · subst h; simp [nodeOr_base]
  · simp [h, baseOf_eq]

theorem baseOf_step2 (same : Key → Key → Bool) (cfg : Cfg) (st : Store) (k k' : Key) :
    baseOf cfg (step2By same cfg st k) k' = baseOf cfg st k' := by
  rw [baseOf_eq, findNode_step2]
  by_cases hp : k.dropLast = []
  · by_cases h1 : k' = k
    · subst h1; simp [hp, nodeOr_base]
    · simp [hp, h1, baseOf_eq]
  · by_cases h1 : k' = k
    · subst h1; simp [hp, nodeOr_base]
    · by_cases h2 : k' = k.dropLast
      · subst h2; simp [hp, h1, nodeOr_base]
      · simp [hp, h1, h2, baseOf_eq]

theorem baseOf_foldl_step1 (cfg : Cfg) (ts : List Ty) (s : S1) (k : Key) :
    baseOf cfg (ts.foldl (step1 cfg) s).store k = baseOf cfg s.store k := by
  induction ts generalizing s with
  | nil => rfl
  | cons t r ih => simp only [List.foldl_cons]; rw [ih, baseOf_step1]

theorem baseOf_foldl_step2 (same : Key → Key → Bool) (cfg : Cfg) (ks : List Key) (st : Store) (k : Key) :
    baseOf cfg (ks.foldl (step2By same cfg) st) k = baseOf cfg st k := by
  induction ks generalizing st with
  | nil => rfl
  | cons a r ih => simp only [List.foldl_cons]; rw [ih, baseOf_step2]

theorem baseOf_loops (same : Key → Key → Bool) (cfg : Cfg) (ts : List Ty) (ks : List Key) (k : Key) :
    baseOf cfg (loop2By same cfg (loop1 cfg ts).store ks) k = basePath cfg := by
  unfold loop2By loop1
  rw [baseOf_foldl_step2, baseOf_foldl_step1]
  rfl

theorem baseOf_finish (cfg : Cfg) (st : Store) (h : ∀ k, baseOf cfg st k = basePath cfg) (k : Key) :
    baseOf cfg (finish cfg st).store k = basePath cfg := by
  unfold finish
  cases st with
  | nil =>
    have : [mkNode cfg [[]]] = (getOrMake cfg [] [[]]).1 := by simp [getOrMake, hasKey]
    simp only [this]
    rw [baseOf_eq, findNode_getOrMake']
    by_cases hk : k = [[]] <;> simp [hk, nodeOr_base, baseOf, findNode]
  | cons n rest => exact h k

theorem takeWhile_append_stop {α} (p : α → Bool) (a : List α) (c : α) (b : List α)
    (ha : ∀ x ∈ a, p x = true) (hc : p c = false) : (a ++ c :: b).takeWhile p = a := by
  induction a with
  | nil => simp [List.takeWhile_cons, hc]
  | cons x r ih => simp [List.takeWhile_cons, ha x (by simp), ih (fun y hy => ha y (by simp [hy]))]

theorem dropWhile_append_stop {α} (p : α → Bool) (a : List α) (c : α) (b : List α)
    (ha : ∀ x ∈ a, p x = true) (hc : p c = false) : (a ++ c :: b).dropWhile p = c :: b := by
  induction a with
  | nil => simp [List.dropWhile_cons, hc]
  | cons x r ih => simp [List.dropWhile_cons, ha x (by simp), ih (fun y hy => ha y (by simp [hy]))]

/-- `resource.name` = `stem.suffix` with a single, proper suffix: `with_suffix` replaces the suffix. -/
theorem stemOf_dotted (stem suf : Str) (h1 : stem ≠ []) (h2 : suf ≠ []) (h3 : '.' ∉ suf) :
    stemOf (stem ++ '.' :: suf) = stem := by
  have hall : ∀ x ∈ suf.reverse, (decide (x ≠ '.')) = true := by
    intro x hx
    have : x ∈ suf := by simpa using hx
    simp; intro e; subst e; exact h3 this
  have hr : (stem ++ '.' :: suf).reverse = suf.reverse ++ '.' :: stem.reverse := by simp
  unfold stemOf
  simp only [hr]
  rw [takeWhile_append_stop _ _ _ _ hall (by simp), dropWhile_append_stop _ _ _ _ hall (by simp)]
  simp [h1, h2]

theorem pjoin_oneseg (p : Path) (s : Str) (h1 : s ≠ []) (h2 : '/' ∉ s) (h3 : s ≠ ['.']) : pjoin p s = p ++ [s] := by
  have ha : isAbs s = false := by
    cases s with
    | nil => exact absurd rfl h1
    | cons c r =>
      have hc : c ≠ '/' := by intro e; subst e; simp at h2
      simp [isAbs, hc]
  have hk : keepPart s = true := by simp [keepPart, h1, h3]
  simp [pjoin, ha, segParts, splitSlash_noslash s h2, hk]

theorem withSuffix_last (p : Path) (name ext : Str) (hn : name ≠ rootPart) (he : ValidExt ext) :
    withSuffix (p ++ [name]) ext = .ok (p ++ [stemOf name ++ ext]) := by
  have he' : validSuffix ext = true := he
  unfold withSuffix
  simp [he', List.getLast?_append, hn]

theorem subFolders_idsegs (subs : List Str) (h : ∀ s ∈ subs, IdSeg s) : subFolders subs = subs := by
  have key : ∀ (l : List Str) (p : Path), (∀ s ∈ l, IdSeg s) →
      l.foldl (fun p s => pathJoin p (pjoin [] s)) p = p ++ l := by
    intro l
    induction l with
    | nil => intro p _; simp
    | cons a r ih =>
      intro p hl
      simp only [List.foldl_cons]
      rw [pjoin_idseg [] a (hl a (by simp)), List.nil_append, pathJoin_rel _ _ (by
        simp only [List.head?_cons]; exact fun e => idseg_ne_root (hl a (by simp)) (Option.some.inj e)),
        ih _ (fun s hs => hl s (by simp [hs]))]
      simp
  simpa [subFolders] using key subs [] h

end NunavutVerif.Namespace
